/-
  DDProofs.LoadJson2Calc — the failing-path calculus of DDProofs.LoadRejected (`Safe`), made
  generic in the kind of "state between two calls" it threads through `_load_json`:

    * reordering not enabled:   `GoodState m (e + l)`, steps only add nodes (`KeptW`);
    * reordering ENABLED:       `DynL e l m` (`DynInv` for the ledger `e + l`), steps may sift
                                (`DynLeft`: held references keep their meaning by NAME).

  `LCalc e` packs the two (`G l m` = the loader's live `Function`s and its shelf hold the
  references listed in `l`; `K m m'` = what every step keeps).  `SafeC C F l lerr x post`:
  started in `G l` (and a frame fact `F` that every step keeps), `x` never raises the internal
  reordering signal, keeps `K`, and ends in `G l'` with `post a l' m'` when it returns `a`, in
  `G lerr` when it raises.  Everything `_load_json` does except the two decorated calls
  (`var`, `ite`), `~u` and the raw `find_or_add` is proved once for every `LCalc`.
-/
import DDProofs.LoadRejected
import DDProofs.DumpJsonDyn
open Std
namespace DD

theorem Mgr.setRef_self (m : Mgr) : ({ m with ref := m.ref } : Mgr) = m := by cases m; rfl

/-- a calculus of states between two calls, indexed by the loader's own ledger -/
structure LCalc (e : Nat → Nat) where
  G : List Nat → Mgr → Prop
  K : Mgr → Mgr → Prop
  inv : ∀ {l m}, G l m → Inv m
  exact : ∀ {l m}, G l m → RefExact m (extAdd e l)
  refl : ∀ m, K m m
  trans : ∀ {a b c}, K a b → K b c → K a c
  setRef : ∀ {l m} (l' : List Nat) (r : TreeMap Nat Nat), G l m → Inv { m with ref := r } →
    RefExact { m with ref := r } (extAdd e l') → G l' { m with ref := r }
  kRef : ∀ (m : Mgr) (r : TreeMap Nat Nat), K m { m with ref := r }

section Calc
variable {e : Nat → Nat} (C : LCalc e)

theorem LCalc.perm {l l' : List Nat} {m : Mgr} (h : C.G l m) (hp : l.Perm l') : C.G l' m := by
  have h2 : RefExact m (extAdd e l') := by rw [← extAdd_perm e hp]; exact C.exact h
  exact C.setRef l' m.ref h (C.inv h) h2

theorem LCalc.mem {l : List Nat} {m : Mgr} (h : C.G l m) {u : Int} (hu : u.natAbs ∈ l) : m.tbl.Mem u := by
  have hpos : 0 < extAdd e l u.natAbs := by
    have : 0 < l.count u.natAbs := List.count_pos_iff.mpr hu
    simp only [extAdd]; omega
  exact (C.exact h).mem_of_ext_pos hpos

/-- `bdd.incref(u)` / `Function(u, bdd)` of a node -/
theorem LCalc.incr {l : List Nat} {m : Mgr} (h : C.G l m) (u : Int) (hu : m.tbl.Mem u) :
    ∃ r, incref u m = (.ok (), { m with ref := r }) ∧ C.G (u.natAbs :: l) { m with ref := r } := by
  obtain ⟨c, _, he, hr⟩ := incref_spec m _ u (C.exact h) hu
  have hk := incref_kept m (C.inv h) u
  rw [he] at hk
  rw [extInc_extAdd] at hr
  exact ⟨_, he, C.setRef _ _ h hk.inv hr⟩

theorem LCalc.wrap {l : List Nat} {m : Mgr} (h : C.G l m) (u : Int) (hu : m.tbl.Mem u) :
    ∃ r, dmpWrap u m = (.ok (), { m with ref := r }) ∧ C.G (u.natAbs :: l) { m with ref := r } := by
  obtain ⟨r, he, hg⟩ := C.incr h u hu
  have hm : m.mem u = true := (Mgr.mem_iff m u).mpr hu
  refine ⟨r, ?_, hg⟩
  unfold dmpWrap
  simp [hm, he]

/-- `bdd.decref(u)` / `Function.__del__` of a held reference -/
theorem LCalc.decr {l : List Nat} {m : Mgr} (u : Int) (h : C.G (u.natAbs :: l) m) :
    ∃ r, decref u m = (.ok (), { m with ref := r }) ∧ C.G l { m with ref := r } := by
  obtain ⟨c, _, he, hr⟩ := decref_spec m _ u (C.exact h) (extAdd_pos _ _ _)
  have hk := decref_kept m (C.inv h) u
  rw [he] at hk
  rw [extDec_extAdd] at hr
  exact ⟨_, he, C.setRef _ _ h hk.inv hr⟩

theorem LCalc.drop {l : List Nat} {m : Mgr} (u : Int) (h : C.G (u.natAbs :: l) m) :
    ∃ r, (dmpDrop u m).2 = { m with ref := r } ∧ C.G l { m with ref := r } := by
  obtain ⟨r, he, hd⟩ := C.decr u h
  exact ⟨r, by unfold dmpDrop; rw [he], hd⟩

theorem LCalc.refOf {l : List Nat} {m : Mgr} (h : C.G l m) (u : Int) (hu : m.tbl.Mem u) :
    ∃ c, refOf u m = (.ok c, m) ∧ extAdd e l u.natAbs ≤ c := by
  have hg := (C.exact h).get hu
  exact ⟨_, refOf_eq m u _ hg, by omega⟩

/-- a fact about the state that every step keeps -/
def Stable (F : Mgr → Prop) : Prop := ∀ m m', C.K m m' → F m → F m'

theorem Stable.true : Stable C (fun _ => True) := fun _ _ _ h => h

/-- every outcome of `x`, with the ledger -/
def SafeC {α : Type} (F : Mgr → Prop) (l lerr : List Nat) (x : M α)
    (post : α → List Nat → Mgr → Prop) : Prop :=
  ∀ m, C.G l m → F m →
    (x m).1 ≠ .error .needsReordering ∧ C.K m (x m).2 ∧
    match (x m).1 with
    | .ok a => ∃ l', post a l' (x m).2 ∧ C.G l' (x m).2
    | .error _ => C.G lerr (x m).2

/-- a decorated operation: any arguments, any outcome, the ledger untouched -/
def PrimOK {α : Type} (x : M α) : Prop :=
  ∀ l m, C.G l m → (x m).1 ≠ .error .needsReordering ∧ C.K m (x m).2 ∧ C.G l (x m).2

variable {C}
variable {F : Mgr → Prop}

theorem SafeC.mono {α : Type} {l lerr : List Nat} {x : M α} {P Q : α → List Nat → Mgr → Prop}
    (h : SafeC C F l lerr x P) (hpq : ∀ a l' m', P a l' m' → Q a l' m') : SafeC C F l lerr x Q := by
  intro m hg hF
  obtain ⟨n, k, ho⟩ := h m hg hF
  refine ⟨n, k, ?_⟩
  cases hr : (x m).1 with
  | ok a =>
    rw [hr] at ho
    obtain ⟨l', p, g⟩ := ho
    exact ⟨l', hpq a l' _ p, g⟩
  | error er => rw [hr] at ho; exact ho

theorem SafeC.perm {α : Type} {l l2 lerr lerr2 : List Nat} {x : M α}
    {P : α → List Nat → Mgr → Prop} (h : SafeC C F l lerr x P) (h1 : l2.Perm l) (h2 : lerr.Perm lerr2) :
    SafeC C F l2 lerr2 x P := by
  intro m hg hF
  obtain ⟨n, k, ho⟩ := h m (C.perm hg h1) hF
  refine ⟨n, k, ?_⟩
  cases hr : (x m).1 with
  | ok a => rw [hr] at ho; exact ho
  | error er => rw [hr] at ho; exact C.perm ho h2

/-- a stronger frame can be forgotten -/
theorem SafeC.weakenF {α : Type} {F' : Mgr → Prop} {l lerr : List Nat} {x : M α}
    {P : α → List Nat → Mgr → Prop} (h : SafeC C F l lerr x P) (hF : ∀ m, F' m → F m) :
    SafeC C F' l lerr x P := fun m hg hf => h m hg (hF m hf)

theorem SafeC.bind {α β : Type} {l lerr : List Nat} {x : M α} {f : α → M β}
    {P : α → List Nat → Mgr → Prop} {Q : β → List Nat → Mgr → Prop} (hS : Stable C F)
    (hx : SafeC C F l lerr x P) (hf : ∀ a l1 m1, P a l1 m1 → SafeC C F l1 lerr (f a) Q) :
    SafeC C F l lerr (x >>= f) Q := by
  intro m hg hF
  obtain ⟨n1, k1, ho⟩ := hx m hg hF
  cases h1 : x m with
  | mk r m1 =>
    rw [h1] at n1 k1 ho
    cases r with
    | error er =>
      rw [M.bind_eq_err h1]
      have hne : er ≠ .needsReordering := fun h => n1 (by rw [h])
      exact ⟨fun hh => hne (by cases hh; rfl), k1, ho⟩
    | ok a =>
      obtain ⟨l1, p, g1⟩ := ho
      obtain ⟨n2, k2, ho2⟩ := hf a l1 m1 p m1 g1 (hS _ _ k1 hF)
      rw [M.bind_eq_ok h1]
      exact ⟨n2, C.trans k1 k2, ho2⟩

/-- the continuation may use what the first part established about the state -/
theorem SafeC.bindS {α β : Type} {l lerr : List Nat} {x : M α} {f : α → M β}
    {p : α → List Nat → Prop} {S : α → Mgr → Prop} {Q : β → List Nat → Mgr → Prop} (hS : Stable C F)
    (hx : SafeC C F l lerr x (fun a l' m' => p a l' ∧ S a m'))
    (hf : ∀ a l1, p a l1 → SafeC C (fun m => F m ∧ S a m) l1 lerr (f a) Q) :
    SafeC C F l lerr (x >>= f) Q := by
  intro m hg hF
  obtain ⟨n1, k1, ho⟩ := hx m hg hF
  cases h1 : x m with
  | mk r m1 =>
    rw [h1] at n1 k1 ho
    cases r with
    | error er =>
      rw [M.bind_eq_err h1]
      have hne : er ≠ .needsReordering := fun h => n1 (by rw [h])
      exact ⟨fun hh => hne (by cases hh; rfl), k1, ho⟩
    | ok a =>
      obtain ⟨l1, ⟨pp, ps⟩, g1⟩ := ho
      obtain ⟨n2, k2, ho2⟩ := hf a l1 pp m1 g1 ⟨hS _ _ k1 hF, ps⟩
      rw [M.bind_eq_ok h1]
      exact ⟨n2, C.trans k1 k2, ho2⟩

theorem SafeC.pure {α : Type} {l lerr : List Nat} (a : α) {P : α → List Nat → Mgr → Prop}
    (h : ∀ m, F m → P a l m) : SafeC C F l lerr (pure a : M α) P :=
  fun m hg hF => ⟨(fun hh => by cases hh), C.refl m, l, h m hF, hg⟩

theorem SafeC.throw {α : Type} {l : List Nat} (er : Err) (hne : er ≠ .needsReordering)
    {P : α → List Nat → Mgr → Prop} : SafeC C F l l (M.throw er : M α) P :=
  fun m hg _ => ⟨fun hh => hne (by cases hh; rfl), C.refl m, hg⟩

theorem SafeC.assert {l : List Nat} (b : Bool) :
    SafeC C F l l (M.assert b) (fun _ l' _ => l' = l ∧ b = true) := by
  unfold M.assert; split
  · rename_i hb
    exact SafeC.pure () (fun _ _ => ⟨rfl, hb⟩)
  · exact SafeC.throw _ (by simp)

theorem SafeC.ofOption {α : Type} {l : List Nat} (er : Err) (hne : er ≠ .needsReordering) (o : Option α) :
    SafeC C F l l (M.ofOption er o) (fun _ l' _ => l' = l) := by
  cases o with
  | none => exact SafeC.throw _ hne
  | some a => exact SafeC.pure a (fun _ _ => rfl)

theorem SafeC.prim {α : Type} {l : List Nat} {x : M α} (h : PrimOK C x) :
    SafeC C F l l x (fun _ l' _ => l' = l) := by
  intro m hg _
  obtain ⟨n, k, g⟩ := h l m hg
  refine ⟨n, k, ?_⟩
  cases (x m).1 with
  | ok a => exact ⟨l, rfl, g⟩
  | error er => exact g

theorem SafeC.containsCheck {l : List Nat} (hS : Stable C F) (u : Int) :
    SafeC C F l l (containsCheck u) (fun _ l' _ => l' = l) := by
  unfold DD.containsCheck
  refine SafeC.bind hS (P := fun _ l' _ => l' = l)
    (fun m hg _ => ⟨(fun hh => by cases hh), C.refl m, l, rfl, hg⟩) fun a l1 _ h1 => ?_
  subst h1
  split
  · exact SafeC.throw _ (by simp)
  · exact SafeC.pure _ (fun _ _ => rfl)

/-- `Function(u, bdd)` on ANY integer: refused (`ValueError`) with nothing changed, or one more
reference -/
theorem SafeC.wrap {l : List Nat} (u : Int) :
    SafeC C F l l (dmpWrap u) (fun _ l' _ => l' = u.natAbs :: l) := by
  intro m hg _
  by_cases hu : m.tbl.Mem u
  · obtain ⟨r, hw, g⟩ := C.wrap hg u hu
    rw [hw]
    exact ⟨(fun hh => by cases hh), C.kRef m r, _, rfl, g⟩
  · have hm : m.mem u = false := (Tbl.mem_false_iff _ _).mpr hu
    have : dmpWrap u m = (.error .value, m) := by unfold dmpWrap; simp [hm]
    rw [this]
    exact ⟨(fun hh => by cases hh), C.refl m, hg⟩

/-- `bdd.incref(u)` on ANY integer -/
theorem SafeC.incref {l : List Nat} (u : Int) :
    SafeC C F l l (incref u) (fun _ l' _ => l' = u.natAbs :: l) := by
  intro m hg _
  by_cases hu : m.tbl.Mem u
  · obtain ⟨r, hw, g⟩ := C.incr hg u hu
    rw [hw]
    exact ⟨(fun hh => by cases hh), C.kRef m r, _, rfl, g⟩
  · have hn := incref_not_mem m u (ref_none_of_not_mem (C.exact hg) hu)
    rw [hn]
    exact ⟨(fun hh => by cases hh), C.refl m, hg⟩

/-- the temporaries die whether the block returned or raised -/
theorem SafeC.withTemps {α : Type} {l lerr : List Nat} (a : Int) {x : M α}
    {P Q : α → List Nat → Mgr → Prop} (hx : SafeC C F l (a.natAbs :: lerr) x P)
    (hq : ∀ b l' m', P b l' m' → ∃ L, l'.Perm (a.natAbs :: L) ∧ ∀ r, Q b L { m' with ref := r }) :
    SafeC C F l lerr (withTemps [a] x) Q := by
  intro m hg hF
  obtain ⟨n1, k1, ho⟩ := hx m hg hF
  unfold DD.withTemps
  cases h1 : x m with
  | mk r m1 =>
    rw [h1] at n1 k1 ho
    cases r with
    | error er =>
      obtain ⟨r', hd, g⟩ := C.drop a ho
      refine ⟨n1, ?_, ?_⟩
      · show C.K m (dropList [a] m1)
        simp only [dropList]; rw [hd]; exact C.trans k1 (C.kRef _ _)
      · show C.G lerr (dropList [a] m1)
        simp only [dropList]; rw [hd]; exact g
    | ok b =>
      obtain ⟨l', p, g1⟩ := ho
      obtain ⟨L, hp, q⟩ := hq b l' m1 p
      obtain ⟨r', hd, g⟩ := C.drop a (C.perm g1 hp)
      refine ⟨n1, ?_, L, ?_, ?_⟩
      · show C.K m (dropList [a] m1)
        simp only [dropList]; rw [hd]; exact C.trans k1 (C.kRef _ _)
      · show Q b L (dropList [a] m1)
        simp only [dropList]; rw [hd]; exact q r'
      · show C.G L (dropList [a] m1)
        simp only [dropList]; rw [hd]; exact g

/-- `~ u` (`apply('not', u)`): the manager is not touched — the complemented edge, or
`ValueError` for an integer that is not a node -/
theorem applyNot_cases (u : Int) (m : Mgr) :
    apply "not" u none none m = (.ok (-u), m) ∨ apply "not" u none none m = (.error .value, m) := by
  obtain ⟨row, hrow, ht⟩ := table_unary "not" not_is_negation.1 not_is_negation.2
  have har : assertOperatorArity "not" none none = .ok () := by decide
  unfold apply
  simp only [har, optNotMem, hrow, ht]
  by_cases hm : m.mem u = true
  · left; simp [hm]
  · right; simp [hm]

theorem SafeC.applyNot {l : List Nat} (u : Int) :
    SafeC C F l l (apply "not" u none none) (fun r l' _ => l' = l ∧ r = -u) := by
  intro m hg _
  rcases applyNot_cases u m with h | h
  · rw [h]; exact ⟨(fun hh => by cases hh), C.refl m, l, ⟨rfl, rfl⟩, hg⟩
  · rw [h]; exact ⟨(fun hh => by cases hh), C.refl m, hg⟩

/-- `_node_from_int` on ANY shelf and ANY id: one reference on the returned node — a constant,
or (up to the sign) the shelf's entry — or an exception with every temporary released -/
theorem SafeC.nodeFromInt {l : List Nat} (hS : Stable C F) (cache : List (Nat × Int)) (uid : Int) :
    SafeC C F l l (nodeFromInt cache uid) (fun r l' _ => l' = r.natAbs :: l ∧
      (r.natAbs = 1 ∨ ∃ k, cache.lookup uid.natAbs = some k ∧ r.natAbs = k.natAbs)) := by
  unfold DD.nodeFromInt
  by_cases hm1 : uid = -1
  · simp only [hm1, if_true]
    exact SafeC.bind hS (SafeC.wrap _) fun _ l1 _ h1 => by
      rw [h1]; exact SafeC.pure _ (fun _ _ => ⟨rfl, Or.inl rfl⟩)
  by_cases h1 : uid = 1
  · simp only [h1, if_true]
    exact SafeC.bind hS (SafeC.wrap _) fun _ l1 _ h1 => by
      rw [h1]; exact SafeC.pure _ (fun _ _ => ⟨rfl, Or.inl rfl⟩)
  simp only [hm1, h1, if_false]
  cases hlk : cache.lookup uid.natAbs with
  | none => exact SafeC.bind hS (P := fun _ _ _ => False) (SafeC.throw _ (by simp)) fun _ _ _ h => h.elim
  | some k =>
    refine SafeC.bind hS (P := fun a l' _ => l' = l ∧ a = k) (SafeC.pure _ (fun _ _ => ⟨rfl, rfl⟩))
      fun a l1 _ hl1 => ?_
    obtain ⟨hl, rfl⟩ := hl1
    rw [hl]
    refine SafeC.bind hS (SafeC.wrap a) fun _ l2 _ hl2 => ?_
    rw [hl2]
    split
    · refine SafeC.withTemps (lerr := l) a
        (P := fun r l' _ => l' = r.natAbs :: a.natAbs :: l ∧ r = -a) ?_ ?_
      · refine SafeC.bind hS (SafeC.applyNot a) fun r l2 _ hl2 => ?_
        obtain ⟨rfl, rfl⟩ := hl2
        refine SafeC.bind hS (SafeC.wrap (-a)) fun _ l2 _ hl2 => ?_
        rw [hl2]
        exact SafeC.pure _ (fun _ _ => ⟨rfl, rfl⟩)
      · intro r l' _ hl'
        obtain ⟨rfl, rfl⟩ := hl'
        exact ⟨(-a).natAbs :: l, List.Perm.swap _ _ _, fun _ => ⟨rfl, Or.inr ⟨a, rfl, by simp⟩⟩⟩
    · exact SafeC.pure a (fun _ _ => ⟨rfl, Or.inr ⟨a, rfl, rfl⟩⟩)

/-- `_make_node` (`load_order=False`) on ANY line and ANY shelf: the line is skipped, or its node
is put on the shelf with one reference (the line's id is then not the terminal's), or an exception
leaves the counts as they were — every temporary `Function` has been released.  `var` and `ite`
are the decorated methods. -/
theorem SafeC.makeNodeF {l : List Nat} (hS : Stable C F) (hvar : ∀ name, PrimOK C (var name))
    (hite : ∀ g u v, PrimOK C (ite g u v)) (vat : List (Nat × String)) (ln : JLine)
    (cache : List (Nat × Int)) :
    SafeC C F l l (makeNode false vat ln cache)
      (fun c' l' _ => (c' = cache ∧ l' = l) ∨
        (cache.lookup ln.id = none ∧ 1 < ln.id ∧ PostT cache ln.id l c' l')) := by
  unfold DD.makeNode
  refine SafeC.bind hS (SafeC.assert _) fun _ l1 _ hl1 => ?_
  obtain ⟨hl1, hid⟩ := hl1
  have hid : 1 < ln.id := by simpa using hid
  rw [hl1]
  by_cases hin : (cache.lookup ln.id).isSome = true
  · simp only [hin, if_true]
    exact SafeC.pure _ (fun _ _ => Or.inl ⟨rfl, rfl⟩)
  simp only [hin, Bool.false_eq_true, if_false]
  have hnew : cache.lookup ln.id = none := by
    cases hh : cache.lookup ln.id with
    | none => rfl
    | some x => simp [hh] at hin
  refine SafeC.mono (P := fun c' l' _ => PostT cache ln.id l c' l') ?_ (fun c' l' _ h => Or.inr ⟨hnew, hid, h⟩)
  refine SafeC.bind hS (SafeC.nodeFromInt hS cache ln.lo) fun low l1 _ hl1 => ?_
  rw [hl1.1]
  refine SafeC.withTemps (lerr := l) low (P := fun c' l' _ => PostT cache ln.id (low.natAbs :: l) c' l') ?_
    (fun c' l' _ ⟨u, hc, hl'⟩ => ⟨u.natAbs :: l, by rw [hl']; exact List.Perm.swap _ _ _, fun _ => ⟨u, hc, rfl⟩⟩)
  refine SafeC.bind hS (SafeC.nodeFromInt hS cache ln.hi) fun high l1 _ hl1 => ?_
  rw [hl1.1]
  refine SafeC.withTemps (lerr := low.natAbs :: l) high
    (P := fun c' l' _ => PostT cache ln.id (high.natAbs :: low.natAbs :: l) c' l') ?_
    (fun c' l' _ ⟨u, hc, hl'⟩ => ⟨u.natAbs :: low.natAbs :: l, by rw [hl']; exact List.Perm.swap _ _ _,
      fun _ => ⟨u, hc, rfl⟩⟩)
  refine SafeC.bind hS (SafeC.ofOption _ (by simp) _) fun name l1 _ hl1 => ?_
  rw [hl1]
  refine SafeC.bind hS (SafeC.prim (hvar name)) fun g l1 _ hl1 => ?_
  rw [hl1]
  refine SafeC.bind hS (SafeC.wrap g) fun _ l1 _ hl1 => ?_
  rw [hl1]
  refine SafeC.withTemps (lerr := high.natAbs :: low.natAbs :: l) g
    (P := fun c' l' _ => PostT cache ln.id (g.natAbs :: high.natAbs :: low.natAbs :: l) c' l') ?_
    (fun c' l' _ ⟨u, hc, hl'⟩ => ⟨u.natAbs :: high.natAbs :: low.natAbs :: l,
      by rw [hl']; exact List.Perm.swap _ _ _, fun _ => ⟨u, hc, rfl⟩⟩)
  refine SafeC.bind hS (SafeC.containsCheck hS g) fun _ l1 _ hl1 => ?_
  rw [hl1]
  refine SafeC.bind hS (SafeC.containsCheck hS high) fun _ l1 _ hl1 => ?_
  rw [hl1]
  refine SafeC.bind hS (SafeC.containsCheck hS low) fun _ l1 _ hl1 => ?_
  rw [hl1]
  refine SafeC.bind hS (SafeC.prim (hite g high low)) fun u l1 _ hl1 => ?_
  rw [hl1]
  refine SafeC.bind hS (SafeC.wrap u) fun _ l1 _ hl1 => ?_
  rw [hl1]
  refine SafeC.withTemps (lerr := g.natAbs :: high.natAbs :: low.natAbs :: l) u
    (P := fun c' l' _ => c' = cache ++ [(ln.id, u)] ∧
      l' = u.natAbs :: u.natAbs :: g.natAbs :: high.natAbs :: low.natAbs :: l) ?_
    (fun c' l' _ ⟨hc, hl'⟩ => ⟨u.natAbs :: g.natAbs :: high.natAbs :: low.natAbs :: l,
      by rw [hl'], fun _ => ⟨u, hc, rfl⟩⟩)
  refine SafeC.bind hS (SafeC.assert _) fun _ l1 _ hl1 => ?_
  rw [hl1.1]
  refine SafeC.bind hS (SafeC.incref u) fun _ l1 _ hl1 => ?_
  rw [hl1]
  exact SafeC.pure _ (fun _ _ => ⟨rfl, rfl⟩)

/-- what a pass over node lines leaves: the shelf with distinct keys, none of them the
terminal's, held once per entry -/
structure ShelfOut (C : LCalc e) (m : Mgr) (out : Except Err Unit × List (Nat × Int) × Mgr) : Prop where
  noSignal : out.1 ≠ .error .needsReordering
  kept : C.K m out.2.2
  nodup : (out.2.1.map (·.1)).Nodup
  ids : ∀ p ∈ out.2.1, p.1 ≠ 1
  good : C.G (shelfRefs out.2.1) out.2.2

theorem nodup_snoc_key (cache : List (Nat × Int)) (hn : (cache.map (·.1)).Nodup) (k : Nat) (u : Int)
    (hnew : cache.lookup k = none) : ((cache ++ [(k, u)]).map (·.1)).Nodup := by
  rw [List.map_append, List.nodup_append]
  refine ⟨hn, by simp, ?_⟩
  intro a ha b hb hab
  simp at hb
  subst hb hab
  have := (dmp_lookup_isSome_of_mem_keys cache _).mpr ha
  rw [hnew] at this; cases this

theorem ids_snoc (cache : List (Nat × Int)) (h1 : ∀ p ∈ cache, p.1 ≠ 1) (k : Nat) (u : Int) (hk : 1 < k) :
    ∀ p ∈ cache ++ [(k, u)], p.1 ≠ 1 := by
  intro p hp
  rcases List.mem_append.mp hp with h | h
  · exact h1 p h
  · simp at h; subst h; show k ≠ 1; omega

/-- the loop over the node lines, ANY lines, for a step `_make_node` that is safe: however it is
left, the counts are exact for the caller's ledger plus one reference per shelf entry -/
theorem makeNodesE_loopC (lo : Bool) (vat : List (Nat × String))
    (hstep : ∀ (ln : JLine) (cache : List (Nat × Int)) (l : List Nat),
      SafeC C F l l (makeNode lo vat ln cache)
        (fun c' l' _ => (c' = cache ∧ l' = l) ∨
          (cache.lookup ln.id = none ∧ 1 < ln.id ∧ PostT cache ln.id l c' l')))
    (hS : Stable C F) :
    ∀ (ls : List JLine) (cache : List (Nat × Int)) (m : Mgr), (cache.map (·.1)).Nodup →
      (∀ p ∈ cache, p.1 ≠ 1) → C.G (shelfRefs cache) m → F m →
      ShelfOut C m (makeNodesE lo vat ls cache m) := by
  intro ls
  induction ls with
  | nil => intro cache m hn h1 hg _; exact ⟨(fun hh => by cases hh), C.refl m, hn, h1, hg⟩
  | cons ln rest ih =>
    intro cache m hn h1 hg hF
    obtain ⟨n1, k1, ho⟩ := hstep ln cache (shelfRefs cache) m hg hF
    rw [makeNodesE]
    cases hmk : makeNode lo vat ln cache m with
    | mk r m1 =>
      rw [hmk] at n1 k1 ho
      cases r with
      | error er =>
        have hne : er ≠ .needsReordering := fun h => n1 (by rw [h])
        exact ⟨(fun hh => hne (by cases hh; rfl)), k1, hn, h1, ho⟩
      | ok c1 =>
        dsimp only
        obtain ⟨l', hp, g1⟩ := ho
        have hF1 : F m1 := hS _ _ k1 hF
        rcases hp with ⟨rfl, rfl⟩ | ⟨hnew, hid, u, rfl, rfl⟩
        · have o := ih c1 m1 hn h1 g1 hF1
          exact ⟨o.noSignal, C.trans k1 o.kept, o.nodup, o.ids, o.good⟩
        · have hn' := nodup_snoc_key cache hn ln.id u hnew
          have h1' := ids_snoc cache h1 ln.id u hid
          have g1' : C.G (shelfRefs (cache ++ [(ln.id, u)])) m1 := by
            apply C.perm g1
            simp only [shelfRefs, List.map_append, List.map_cons, List.map_nil]
            exact (List.perm_append_singleton _ _).symm
          have o := ih _ m1 hn' h1' g1' hF1
          exact ⟨o.noSignal, C.trans k1 o.kept, o.nodup, o.ids, o.good⟩

/-- the loop over the node lines (`load_order=False`), ANY lines -/
theorem makeNodesE_anyC (hS : Stable C F) (hvar : ∀ name, PrimOK C (var name))
    (hite : ∀ g u v, PrimOK C (ite g u v)) (vat : List (Nat × String)) :
    ∀ (ls : List JLine) (cache : List (Nat × Int)) (m : Mgr), (cache.map (·.1)).Nodup →
      (∀ p ∈ cache, p.1 ≠ 1) → C.G (shelfRefs cache) m → F m →
      ShelfOut C m (makeNodesE false vat ls cache m) :=
  makeNodesE_loopC false vat (fun ln cache _ => SafeC.makeNodeF hS hvar hite vat ln cache) hS

/-- the roots of the result on ANY ids -/
theorem SafeC.rootsFromInts (hS : Stable C F) (cache : List (Nat × Int)) :
    ∀ (ks : List Int) (l : List Nat),
      SafeC C F l l (rootsFromInts cache ks)
        (fun us l' _ => l'.Perm (us.map Int.natAbs ++ l) ∧ us.length = ks.length) := by
  intro ks
  induction ks with
  | nil => intro l; unfold DD.rootsFromInts; exact SafeC.pure _ (fun _ _ => ⟨List.Perm.refl _, rfl⟩)
  | cons k rest ih =>
    intro l
    unfold DD.rootsFromInts
    refine SafeC.bind hS (SafeC.nodeFromInt hS cache k) fun u l1 _ hl1 => ?_
    rw [hl1.1]
    intro m hg hF
    obtain ⟨n1, k1, ho⟩ := ih (u.natAbs :: l) m hg hF
    dsimp only
    cases h1 : DD.rootsFromInts cache rest m with
    | mk r m1 =>
      rw [h1] at n1 k1 ho
      cases r with
      | ok us =>
        obtain ⟨l', ⟨hp, hlen⟩, g⟩ := ho
        refine ⟨(fun hh => by cases hh), k1, l', ⟨?_, by simp [hlen]⟩, g⟩
        refine hp.trans ?_
        simp only [List.map_cons, List.cons_append]
        exact List.perm_middle
      | error er =>
        have hne : er ≠ .needsReordering := fun h => n1 (by rw [h])
        obtain ⟨r', hd, g⟩ := C.drop u ho
        refine ⟨(fun hh => hne (by cases hh; rfl)), ?_, ?_⟩
        · show C.K m (dmpDrop u m1).2
          rw [hd]; exact C.trans k1 (C.kRef _ _)
        · show C.G l (dmpDrop u m1).2
          rw [hd]; exact g

theorem SafeC.jsonRoots {l : List Nat} (hS : Stable C F) (f : JsonFile) (cache : List (Nat × Int)) :
    SafeC C F l l (jsonRoots f cache)
      (fun us l' _ => l'.Perm (us.map Int.natAbs ++ l) ∧ (f.roots.rebuild us).values = us) := by
  unfold DD.jsonRoots
  cases hr : f.roots with
  | none => exact SafeC.bind hS (P := fun _ _ _ => False) (SafeC.throw _ (by simp)) fun _ _ _ h => h.elim
  | list ks =>
    refine SafeC.bind hS (P := fun a l' _ => l' = l ∧ a = ks) (SafeC.pure _ (fun _ _ => ⟨rfl, rfl⟩))
      fun a l1 _ hl1 => ?_
    obtain ⟨hl, rfl⟩ := hl1
    rw [hl]
    exact (SafeC.rootsFromInts hS cache _ _).mono (fun us l' _ h => ⟨h.1, rfl⟩)
  | dict d =>
    refine SafeC.bind hS (P := fun a l' _ => l' = l ∧ a = d.map (·.2)) (SafeC.pure _ (fun _ _ => ⟨rfl, rfl⟩))
      fun a l1 _ hl1 => ?_
    obtain ⟨hl, rfl⟩ := hl1
    rw [hl]
    refine (SafeC.rootsFromInts hS cache _ _).mono (fun us l' _ h => ⟨h.1, ?_⟩)
    show ((d.map (·.1)).zip us).map (·.2) = us
    apply List.map_snd_zip
    have := h.2
    simp at this ⊢
    omega

/-- a shelf entry is fetched: one more reference on its node -/
theorem fetch_shelfC (C : LCalc e) (cache : List (Nat × Int)) (hn : (cache.map (·.1)).Nodup)
    (k : Nat) (u0 : Int) (hm : (k, u0) ∈ cache) (hk1 : k ≠ 1) (m : Mgr) (L : List Nat)
    (hg : C.G L m) (hin : u0.natAbs ∈ L) :
    ∃ r, nodeFromInt cache (k : Int) m = (.ok u0, { m with ref := r }) ∧
      C.G (u0.natAbs :: L) { m with ref := r } := by
  have hlk := dmp_lookup_of_mem_nodup cache hn k u0 hm
  have hmem : m.tbl.Mem u0 := C.mem hg hin
  obtain ⟨r, hw, g⟩ := C.wrap hg u0 hmem
  refine ⟨r, ?_, g⟩
  unfold DD.nodeFromInt
  have a1 : ¬ ((k : Int) = -1) := by omega
  have a2 : ¬ ((k : Int) = 1) := by omega
  have a3 : ¬ ((k : Int) < 0) := by omega
  have a4 : ((k : Int)).natAbs = k := by simp
  simp only [a1, a2, a3, a4, if_false]
  have hlook : (M.ofOption Err.key (cache.lookup k) : M Int) m = (.ok u0, m) := by rw [hlk]; rfl
  refine (M.bind_eq_ok hlook).trans ?_
  refine (M.bind_eq_ok hw).trans ?_
  rfl

theorem dropOptC (C : LCalc e) (prev : Option Int) (m : Mgr) (L : List Nat)
    (hg : C.G (prev.toList.map Int.natAbs ++ L) m) :
    ∃ r, dropOpt prev m = { m with ref := r } ∧ C.G L { m with ref := r } := by
  cases prev with
  | none =>
    have h : C.G L m := by simpa using hg
    exact ⟨m.ref, rfl, h⟩
  | some p =>
    simp only [Option.toList, List.map_cons, List.map_nil, List.cons_append, List.nil_append] at hg
    exact C.drop p hg

theorem dropListC (C : LCalc e) : ∀ (us : List Int) (m : Mgr) (L : List Nat),
    C.G (us.map Int.natAbs ++ L) m →
    ∃ r, dropList us m = { m with ref := r } ∧ C.G L { m with ref := r } := by
  intro us
  induction us with
  | nil =>
    intro m L hg
    have h : C.G L m := by simpa using hg
    exact ⟨m.ref, rfl, h⟩
  | cons u rest ih =>
    intro m L hg
    simp only [List.map_cons, List.cons_append] at hg
    obtain ⟨r, hd, g⟩ := C.drop u hg
    obtain ⟨r2, hd2, g2⟩ := ih { m with ref := r } L g
    exact ⟨r2, by rw [dropList, hd, hd2], g2⟩

/-- `for uid in cache: u = _node_from_int(…); bdd.decref(u)` — in the `except` clause and after a
successful `try:` —: the shelf's references are given back -/
theorem releaseFailedC (C : LCalc e) (cache : List (Nat × Int)) (hn : (cache.map (·.1)).Nodup)
    (h1 : ∀ p ∈ cache, p.1 ≠ 1) :
    ∀ (ents : List (Nat × Int)) (prev : Option Int) (m : Mgr) (L : List Nat),
      (∀ p ∈ ents, p ∈ cache) →
      C.G (prev.toList.map Int.natAbs ++ (shelfRefs ents ++ L)) m →
      ∃ last r, releaseFailed cache ents prev m = (.ok (), last, { m with ref := r }) ∧
        C.G (last.toList.map Int.natAbs ++ L) { m with ref := r } := by
  intro ents
  induction ents with
  | nil =>
    intro prev m L _ hg
    have h : C.G (prev.toList.map Int.natAbs ++ L) m := by simpa [shelfRefs] using hg
    exact ⟨prev, m.ref, rfl, h⟩
  | cons p rest ih =>
    intro prev m L hsub hg
    obtain ⟨k, u0⟩ := p
    have hmem := hsub _ List.mem_cons_self
    obtain ⟨r1, e1, g1⟩ := fetch_shelfC C cache hn k u0 hmem (h1 _ hmem) m _ hg
      (by simp [shelfRefs])
    have g1' : C.G (prev.toList.map Int.natAbs ++ (u0.natAbs :: u0.natAbs :: (shelfRefs rest ++ L)))
        { m with ref := r1 } := by
      apply C.perm g1
      simp only [shelfRefs, List.map_cons, List.cons_append]
      exact List.perm_middle.symm
    obtain ⟨r2, ed, g2⟩ := dropOptC C prev { m with ref := r1 } _ g1'
    obtain ⟨r3, hd3, g3⟩ := C.decr u0 g2
    obtain ⟨last, r4, e4, g4⟩ := ih (some u0) { m with ref := r3 } L
      (fun p hp => hsub p (List.mem_cons_of_mem _ hp))
      (by simpa using g3)
    refine ⟨last, r4, ?_, g4⟩
    rw [releaseFailed]
    simp only [e1, ed, hd3]
    exact e4

/-- the loop of the checks at the end of the `try:` on ANY shelf that is held: nothing is
released; the `ref < 2` assertion always passes; with `load_order=True` the `ref < 3` assertion
may fail (a node line that is neither a root nor a successor of another line) — inside the
`try:`, so that the handler gives every reference back -/
theorem checkLoopC (C : LCalc e) (lo : Bool) (cache : List (Nat × Int)) (hn : (cache.map (·.1)).Nodup)
    (h1 : ∀ p ∈ cache, p.1 ≠ 1) :
    ∀ (ents : List (Nat × Int)) (prev : Option Int) (m : Mgr) (L : List Nat),
      (∀ p ∈ ents, p ∈ cache) → (∀ p ∈ ents, p.2.natAbs ∈ L) →
      C.G (prev.toList.map Int.natAbs ++ L) m →
      ∃ last r, C.G (last.toList.map Int.natAbs ++ L) { m with ref := r } ∧
        (checkLoop lo cache ents prev m = (.ok (), last, { m with ref := r }) ∨
         (lo = true ∧ checkLoop lo cache ents prev m = (.error .assertion, last, { m with ref := r }))) := by
  intro ents
  induction ents with
  | nil =>
    intro prev m L _ _ hg
    exact ⟨prev, m.ref, hg, Or.inl rfl⟩
  | cons p rest ih =>
    intro prev m L hsub hheld hg
    obtain ⟨k, u0⟩ := p
    have hmem := hsub _ List.mem_cons_self
    have hin : u0.natAbs ∈ L := hheld _ List.mem_cons_self
    obtain ⟨r1, e1, g1⟩ := fetch_shelfC C cache hn k u0 hmem (h1 _ hmem) m _ hg
      (List.mem_append_right _ hin)
    have g1' : C.G (prev.toList.map Int.natAbs ++ (u0.natAbs :: L)) { m with ref := r1 } := by
      apply C.perm g1
      exact List.perm_middle.symm
    obtain ⟨r2, ed, g2⟩ := dropOptC C prev { m with ref := r1 } _ g1'
    have u0mem : ({ m with ref := r2 } : Mgr).tbl.Mem u0 := C.mem g2 List.mem_cons_self
    obtain ⟨c, hc1, hc2⟩ := C.refOf g2 u0 u0mem
    have hc3 : 2 ≤ c := by
      have : 0 < L.count u0.natAbs := List.count_pos_iff.mpr hin
      have : 2 ≤ extAdd e (u0.natAbs :: L) u0.natAbs := by
        simp [extAdd]; omega
      omega
    have g2' : C.G ((some u0).toList.map Int.natAbs ++ L) { m with ref := r2 } := by simpa using g2
    by_cases hfail : lo = true ∧ c < 3
    · obtain ⟨hlo, hc⟩ := hfail
      refine ⟨some u0, r2, g2', Or.inr ⟨hlo, ?_⟩⟩
      rw [checkLoop]
      simp only [e1, ed]
      have hbody : (refOf u0 >>= fun c => M.assert (decide (2 ≤ c)) >>= fun _ =>
          if lo = true then M.assert (decide (3 ≤ c)) else pure ())
          { m with ref := r2 } = (.error .assertion, { m with ref := r2 }) := by
        refine (M.bind_eq_ok hc1).trans ?_
        refine (M.bind_eq_ok (assert_ok _ _ (by simpa using hc3))).trans ?_
        simp only [hlo, if_true]
        have : decide (3 ≤ c) = false := by simp; omega
        rw [this]
        rfl
      rw [hbody]
    · have hbody : (refOf u0 >>= fun c => M.assert (decide (2 ≤ c)) >>= fun _ =>
          if lo = true then M.assert (decide (3 ≤ c)) else pure ())
          { m with ref := r2 } = (.ok (), { m with ref := r2 }) := by
        refine (M.bind_eq_ok hc1).trans ?_
        refine (M.bind_eq_ok (assert_ok _ _ (by simpa using hc3))).trans ?_
        by_cases hlo : lo = true
        · simp only [hlo, if_true]
          have h3 : 3 ≤ c := by
            rcases Nat.lt_or_ge c 3 with hh | hh
            · exact absurd ⟨hlo, hh⟩ hfail
            · exact hh
          exact assert_ok _ _ (by simpa using h3)
        · simp only [hlo]
          rfl
      obtain ⟨last, r4, g4, hcase⟩ := ih (some u0) { m with ref := r2 } L
        (fun p hp => hsub p (List.mem_cons_of_mem _ hp)) (fun p hp => hheld p (List.mem_cons_of_mem _ hp)) g2'
      refine ⟨last, r4, g4, ?_⟩
      rcases hcase with e4 | ⟨hlo, e4⟩
      · left
        rw [checkLoop]
        simp only [e1, ed]
        rw [hbody]
        exact e4
      · right
        refine ⟨hlo, ?_⟩
        rw [checkLoop]
        simp only [e1, ed]
        rw [hbody]
        exact e4

/-! ### what `_load_json` does when the `try:` is left -/

theorem dmpAssertConsistent_cases (m : Mgr) :
    dmpAssertConsistent m = (.ok (), m) ∨ dmpAssertConsistent m = (.error .assertion, m) := by
  unfold dmpAssertConsistent
  dsimp only
  split
  · exact Or.inr rfl
  split
  · exact Or.inr rfl
  split
  · exact Or.inr rfl
  split
  · exact Or.inr rfl
  · exact Or.inl rfl

/-- `except BaseException:` for ANY shelf that is held: the exception is re-raised with the
counts exact for the caller's ledger -/
theorem jsonFinish_errC (C : LCalc e) (f : JsonFile) (lo : Bool) (er : Err) (cache : List (Nat × Int))
    (hn : (cache.map (·.1)).Nodup) (h1 : ∀ p ∈ cache, p.1 ≠ 1) (prev : Option Int) (m3 : Mgr)
    (g3 : C.G (prev.toList.map Int.natAbs ++ shelfRefs cache) m3) :
    ∃ r, jsonFinish f lo (.error er, cache, prev, m3) = (.error er, { m3 with ref := r }) ∧
      C.G [] { m3 with ref := r } := by
  obtain ⟨last, r4, e4, g4⟩ := releaseFailedC C cache hn h1 cache prev m3 []
    (fun _ h => h) (by simpa using g3)
  obtain ⟨r5, e5, g5⟩ := dropOptC C last { m3 with ref := r4 } [] (by simpa using g4)
  refine ⟨r5, ?_, g5⟩
  unfold jsonFinish
  simp only [e4, e5]

/-- the state `bdd.configure(reordering=old_reordering)` leaves (`old_reordering` is the dict
that `configure` returned: truthy) -/
def cfgAfter (lo : Bool) (m : Mgr) : Mgr :=
  if lo then { m with lastLen := some (max Gen.reorderStarts m.len) } else m

/-- the successful end of the `try:` for ANY shelf that is held: the shelf's references are given
back; the roots are returned with the counts exact for the caller's ledger plus the roots (and
`configure` has run when `load_order=True`), or `assert_consistent` raises with the roots
released -/
theorem jsonFinish_okC (C : LCalc e) (f : JsonFile) (lo : Bool) (us : List Int) (cache : List (Nat × Int))
    (hn : (cache.map (·.1)).Nodup) (h1 : ∀ p ∈ cache, p.1 ≠ 1) (prev : Option Int) (m3 : Mgr)
    (g3 : C.G (prev.toList.map Int.natAbs ++ (shelfRefs cache ++ us.map Int.natAbs)) m3) :
    ∃ r, (jsonFinish f lo (.ok us, cache, prev, m3) = (.ok (f.roots.rebuild us), cfgAfter lo { m3 with ref := r }) ∧
        C.G (us.map Int.natAbs) { m3 with ref := r }) ∨
      (jsonFinish f lo (.ok us, cache, prev, m3) = (.error .assertion, { m3 with ref := r }) ∧
        C.G [] { m3 with ref := r }) := by
  obtain ⟨last, r4, e4, g4⟩ := releaseFailedC C cache hn h1 cache prev m3 (us.map Int.natAbs)
    (fun _ h => h) g3
  let m4 : Mgr := { m3 with ref := r4 }
  have g4' : C.G (last.toList.map Int.natAbs ++ us.map Int.natAbs) m4 := g4
  obtain ⟨r5, e5, g5⟩ := dropOptC C last m4 (us.map Int.natAbs) g4'
  rcases dmpAssertConsistent_cases m4 with hac | hac
  · refine ⟨r5, Or.inl ⟨?_, g5⟩⟩
    unfold jsonFinish
    simp only [e4]
    cases lo with
    | false =>
      have hfin : (liftE (Except.ok ()) >>= fun _ => dmpAssertConsistent >>= fun _ =>
          (if false = true then (configure (some true) >>= fun _ => (pure () : M Unit)) else pure ())) m4
          = (.ok (), m4) := by
        refine (M.bind_eq_ok (show liftE (Except.ok ()) m4 = (.ok (), m4) from rfl)).trans ?_
        exact (M.bind_eq_ok hac).trans rfl
      simp only [Bool.false_eq_true, if_false] at hfin ⊢
      rw [hfin]
      simp only [e5, cfgAfter, Bool.false_eq_true, if_false]
      rfl
    | true =>
      have hfin : (liftE (Except.ok ()) >>= fun _ => dmpAssertConsistent >>= fun _ =>
          (if true = true then (configure (some true) >>= fun _ => (pure () : M Unit)) else pure ())) m4
          = (.ok (), { m4 with lastLen := some (max Gen.reorderStarts m4.len) }) := by
        refine (M.bind_eq_ok (show liftE (Except.ok ()) m4 = (.ok (), m4) from rfl)).trans ?_
        refine (M.bind_eq_ok hac).trans ?_
        simp only [if_true]
        exact (M.bind_eq_ok (configure_true_eq m4)).trans rfl
      simp only [if_true] at hfin ⊢
      rw [hfin]
      simp only [cfgAfter, if_true]
      rw [dropOpt_setLastLen, e5]
      rfl
  · obtain ⟨r6, e6, g6⟩ := dropListC C us { m3 with ref := r5 } [] (by simpa using g5)
    refine ⟨r6, Or.inr ⟨?_, g6⟩⟩
    unfold jsonFinish
    simp only [e4]
    have hfin : ∀ tl : M Unit, (liftE (Except.ok ()) >>= fun _ => dmpAssertConsistent >>= fun _ => tl) m4
        = (.error .assertion, m4) := by
      intro tl
      refine (M.bind_eq_ok (show liftE (Except.ok ()) m4 = (.ok (), m4) from rfl)).trans ?_
      exact M.bind_eq_err hac
    rw [hfin]
    simp only [e5]
    exact congrArg (Prod.mk (Except.error Err.assertion)) e6

/-! ### `_load_json` after the line `level_of_var` -/

/-- the `try:` body after the line `level_of_var`: the node lines, the roots, the checks -/
def jsonAfterHeader (f : JsonFile) (lo : Bool) (m1 : Mgr) :
    Except Err (List Int) × List (Nat × Int) × Option Int × Mgr :=
  match makeNodesE lo (f.levelOfVar.foldl (fun acc (x : String × Nat) => (x.2, x.1) :: acc) []) f.nodes [] m1 with
  | (.error e, cache, m2) => (.error e, cache, none, m2)
  | (.ok _, cache, m2) =>
    match jsonRoots f cache m2 with
    | (.error e, m3) => (.error e, cache, none, m3)
    | (.ok us, m3) =>
      match checkLoop lo cache cache none m3 with
      | (.error e, last, m4) => (.error e, cache, last, dropList us m4)
      | (.ok _, last, m4) => (.ok us, cache, last, m4)

theorem jsonTry_header_ok (f : JsonFile) (lo : Bool) (m m1 : Mgr) (h : jsonHeader f lo m = (.ok (), m1)) :
    jsonTry f lo m = jsonAfterHeader f lo m1 := by
  unfold jsonTry jsonAfterHeader
  simp only [h]
  generalize makeNodesE lo (f.levelOfVar.foldl (fun acc (x : String × Nat) => (x.2, x.1) :: acc) []) f.nodes [] m1 = res
  obtain ⟨r, c, m2⟩ := res
  cases r with
  | error er => rfl
  | ok _ =>
    dsimp only
    generalize jsonRoots f c m2 = rr
    obtain ⟨r3, m3⟩ := rr
    cases r3 with
    | error er => rfl
    | ok us =>
      dsimp only
      generalize checkLoop lo c c none m3 = rc
      obtain ⟨r4, last, m4⟩ := rc
      cases r4 <;> rfl

theorem jsonAfterHeader_err (f : JsonFile) (lo : Bool) (m1 m2 : Mgr) (er : Err) (cache : List (Nat × Int))
    (h : makeNodesE lo (f.levelOfVar.foldl (fun acc (x : String × Nat) => (x.2, x.1) :: acc) []) f.nodes [] m1
      = (.error er, cache, m2)) : jsonAfterHeader f lo m1 = (.error er, cache, none, m2) := by
  unfold jsonAfterHeader
  simp only [h]

theorem jsonAfterHeader_roots_err (f : JsonFile) (lo : Bool) (m1 m2 m3 : Mgr) (cache : List (Nat × Int))
    (er : Err)
    (h : makeNodesE lo (f.levelOfVar.foldl (fun acc (x : String × Nat) => (x.2, x.1) :: acc) []) f.nodes [] m1
      = (.ok (), cache, m2)) (h3 : jsonRoots f cache m2 = (.error er, m3)) :
    jsonAfterHeader f lo m1 = (.error er, cache, none, m3) := by
  unfold jsonAfterHeader
  simp only [h, h3]

theorem jsonAfterHeader_check (f : JsonFile) (lo : Bool) (m1 m2 m3 m4 : Mgr) (cache : List (Nat × Int))
    (us : List Int) (r4 : Except Err Unit) (last : Option Int)
    (h : makeNodesE lo (f.levelOfVar.foldl (fun acc (x : String × Nat) => (x.2, x.1) :: acc) []) f.nodes [] m1
      = (.ok (), cache, m2)) (h3 : jsonRoots f cache m2 = (.ok us, m3))
    (h4 : checkLoop lo cache cache none m3 = (r4, last, m4)) :
    jsonAfterHeader f lo m1 = (match r4 with
      | .ok _ => (.ok us, cache, last, m4)
      | .error er => (.error er, cache, last, dropList us m4)) := by
  unfold jsonAfterHeader
  simp only [h, h3, h4]
  cases r4 <;> rfl

theorem jsonTry_header_err (f : JsonFile) (lo : Bool) (m m1 : Mgr) (er : Err)
    (h : jsonHeader f lo m = (.error er, m1)) : jsonTry f lo m = (.error er, [], none, m1) := by
  unfold jsonTry
  simp only [h]

/-- what `_load_json` leaves when the line `level_of_var` was read without an exception, from the
state `m1` after that line: never the internal signal; a state `mb` with `K m1 mb`; the roots are
returned — counts exact for the caller's ledger plus one reference per returned `Function`,
`configure` has run when `load_order=True` — or an exception is raised with the counts exact for
the caller's ledger -/
def FinOut (C : LCalc e) (lo : Bool) (m1 : Mgr) (out : Except Err Roots × Mgr) : Prop :=
  out.1 ≠ .error .needsReordering ∧
  ∃ mb, C.K m1 mb ∧
    ((∃ roots, out = (.ok roots, cfgAfter lo mb) ∧ C.G (roots.values.map Int.natAbs) mb) ∨
     (∃ er, out = (.error er, mb) ∧ C.G [] mb))

theorem finish_afterHeaderC (C : LCalc e) (f : JsonFile) (lo : Bool) (m1 : Mgr)
    (hshelf : ShelfOut C m1
      (makeNodesE lo (f.levelOfVar.foldl (fun acc (x : String × Nat) => (x.2, x.1) :: acc) []) f.nodes [] m1)) :
    FinOut C lo m1 (jsonFinish f lo (jsonAfterHeader f lo m1)) := by
  unfold FinOut
  have hS : Stable C (fun _ => True) := Stable.true C
  generalize hres : makeNodesE lo (f.levelOfVar.foldl (fun acc (x : String × Nat) => (x.2, x.1) :: acc) []) f.nodes [] m1
    = res at hshelf
  obtain ⟨r2, cache, m2⟩ := res
  obtain ⟨n2, k2, nd2, i2, g2⟩ := hshelf
  dsimp only at n2 k2 nd2 i2 g2
  -- the handler
  have handler : ∀ (er : Err) (prev : Option Int) (m3 : Mgr), er ≠ .needsReordering → C.K m1 m3 →
      C.G (prev.toList.map Int.natAbs ++ shelfRefs cache) m3 →
      jsonAfterHeader f lo m1 = (.error er, cache, prev, m3) →
      (jsonFinish f lo (jsonAfterHeader f lo m1)).1 ≠ .error .needsReordering ∧
      ∃ mb, C.K m1 mb ∧
        ((∃ roots, jsonFinish f lo (jsonAfterHeader f lo m1) = (.ok roots, cfgAfter lo mb) ∧
            C.G (roots.values.map Int.natAbs) mb) ∨
         (∃ er, jsonFinish f lo (jsonAfterHeader f lo m1) = (.error er, mb) ∧ C.G [] mb)) := by
    intro er prev m3 hne k3 g3 heq
    obtain ⟨r, hfin, g⟩ := jsonFinish_errC C f lo er cache nd2 i2 prev m3 g3
    rw [heq, hfin]
    exact ⟨(fun hh => hne (by cases hh; rfl)), _, C.trans k3 (C.kRef _ _), Or.inr ⟨er, rfl, g⟩⟩
  cases r2 with
  | error er =>
    have hne : er ≠ .needsReordering := fun h => n2 (by rw [h])
    exact handler er none m2 hne k2 (by simpa using g2) (jsonAfterHeader_err f lo m1 m2 er cache hres)
  | ok _ =>
    obtain ⟨n3, k3, ho⟩ := SafeC.jsonRoots (C := C) (F := fun _ => True) (l := shelfRefs cache) hS f cache m2 g2 trivial
    cases h3 : jsonRoots f cache m2 with
    | mk r3 m3 =>
      rw [h3] at n3 k3 ho
      cases r3 with
      | error er =>
        have hne : er ≠ .needsReordering := fun h => n3 (by rw [h])
        exact handler er none m3 hne (C.trans k2 k3) (by simpa using ho)
          (jsonAfterHeader_roots_err f lo m1 m2 m3 cache er hres h3)
      | ok us =>
        obtain ⟨l', ⟨hp, hvals⟩, g3⟩ := ho
        -- the checks
        have g3' : C.G ((none : Option Int).toList.map Int.natAbs ++ (shelfRefs cache ++ us.map Int.natAbs)) m3 := by
          apply C.perm g3
          refine hp.trans ?_
          simp only [Option.toList, List.map_nil, List.nil_append]
          exact List.perm_append_comm
        obtain ⟨last, r4, g4, hcase⟩ := checkLoopC C lo cache nd2 i2 cache none m3
          (shelfRefs cache ++ us.map Int.natAbs) (fun _ h => h)
          (fun p hp => List.mem_append_left _ (List.mem_map.mpr ⟨p, hp, rfl⟩)) g3'
        have k4 : C.K m1 { m3 with ref := r4 } := C.trans (C.trans k2 k3) (C.kRef _ _)
        rcases hcase with eck | ⟨_, eck⟩
        · have hdef := jsonAfterHeader_check f lo m1 m2 m3 _ cache us _ last hres h3 eck
          dsimp only at hdef
          obtain ⟨r, hcase2⟩ := jsonFinish_okC C f lo us cache nd2 i2 last { m3 with ref := r4 } g4
          have kb : C.K m1 { m3 with ref := r } := C.trans k4 (C.kRef _ _)
          rw [hdef]
          rcases hcase2 with ⟨hfin, g⟩ | ⟨hfin, g⟩
          · rw [hfin]
            refine ⟨(fun hh => by cases hh), _, kb, Or.inl ⟨_, rfl, ?_⟩⟩
            rw [hvals]; exact g
          · rw [hfin]
            exact ⟨(fun hh => by cases hh), _, kb, Or.inr ⟨_, rfl, g⟩⟩
        · -- the `ref < 3` assertion fired: the roots die, the handler releases the shelf
          have hdef := jsonAfterHeader_check f lo m1 m2 m3 _ cache us _ last hres h3 eck
          dsimp only at hdef
          have g4' : C.G (us.map Int.natAbs ++ (last.toList.map Int.natAbs ++ shelfRefs cache))
              { m3 with ref := r4 } := by
            apply C.perm g4
            rw [← List.append_assoc]
            exact List.perm_append_comm
          obtain ⟨r5, e5, g5⟩ := dropListC C us { m3 with ref := r4 } _ g4'
          rw [e5] at hdef
          exact handler .assertion last _ (by simp) (C.trans k4 (C.kRef _ _)) g5 hdef

end Calc
end DD
