/-
  DDProofs.DumpJson — `_copy.load_json` on a `dd.autoref.BDD` (C12): the reader's half of the
  JSON round trip for `load_order=False` with dynamic reordering not enabled, with exact
  reference counts (ledger of live `Function`s).
-/
import DDProofs.DumpProofs
import DDProofs.Reach
import DDProofs.ApplyProofs
import DDProofs.PredNodesOrder
open Std
namespace DD

/-! ### the ledger: references held by live `Function`s, as a list of node numbers -/

/-- ledger `e` plus one reference for every member of `l` -/
def extAdd (e : Nat → Nat) (l : List Nat) : Nat → Nat := fun j => e j + l.count j

theorem extAdd_nil (e : Nat → Nat) : extAdd e [] = e := by
  funext j; simp [extAdd]

theorem extInc_extAdd (e : Nat → Nat) (l : List Nat) (k : Nat) :
    extInc (extAdd e l) k = extAdd e (k :: l) := by
  funext j
  simp only [extInc, extAdd, List.count_cons]
  by_cases h : j = k
  · subst h; simp; omega
  · have : ¬ k = j := fun h' => h h'.symm
    simp [h, this]

theorem extDec_extAdd (e : Nat → Nat) (l : List Nat) (k : Nat) :
    extDec (extAdd e (k :: l)) k = extAdd e l := by
  funext j
  simp only [extDec, extAdd, List.count_cons]
  by_cases h : j = k
  · subst h; simp
  · have : ¬ k = j := fun h' => h h'.symm
    simp [h, this]

theorem extAdd_perm (e : Nat → Nat) {l l' : List Nat} (h : l.Perm l') : extAdd e l = extAdd e l' := by
  funext j; simp [extAdd, h.count_eq]

theorem extAdd_pos (e : Nat → Nat) (l : List Nat) (k : Nat) : 0 < extAdd e (k :: l) k := by
  simp [extAdd]; omega

theorem extAdd_append (e : Nat → Nat) (a b : List Nat) : extAdd (extAdd e a) b = extAdd e (a ++ b) := by
  funext j; simp [extAdd, List.count_append]; omega

/-! ### `Function(u)` / `__del__`: only `_ref` changes -/

/-- `Function(u, bdd)` of a node: one more reference, nothing else changes -/
theorem dmp_wrap_spec (m : Mgr) (e : Nat → Nat) (h : GoodState m e) (u : Int) (hu : m.tbl.Mem u) :
    ∃ r', dmpWrap u m = (.ok (), { m with ref := r' }) ∧
      GoodState { m with ref := r' } (extInc e u.natAbs) := by
  obtain ⟨c, _, he, _⟩ := incref_spec m e u h.exact hu
  have hg := (incref_good m e h u).1
  have hm : m.mem u = true := (Mgr.mem_iff m u).mpr hu
  rw [he] at hg
  simp only [hm, if_true] at hg
  refine ⟨_, ?_, hg⟩
  unfold dmpWrap
  simp [hm, he]

/-- `decref` of a held reference: one reference less, nothing else changes -/
theorem decref_ok_spec (m : Mgr) (e : Nat → Nat) (h : GoodState m e) (u : Int) (hp : 0 < e u.natAbs) :
    ∃ r', decref u m = (.ok (), { m with ref := r' }) ∧
      GoodState { m with ref := r' } (extDec e u.natAbs) := by
  have hu : m.tbl.Mem u := h.exact.mem_of_ext_pos hp
  obtain ⟨c, _, he, _⟩ := decref_spec m e u h.exact hp
  have hg := (decref_good m e h u (fun _ => hp)).1
  have hm : m.mem u = true := (Mgr.mem_iff m u).mpr hu
  rw [he] at hg
  simp only [hm, if_true] at hg
  exact ⟨_, he, hg⟩

/-- `Function.__del__` of a live handle: one reference less, nothing else changes -/
theorem dmp_drop_spec (m : Mgr) (e : Nat → Nat) (h : GoodState m e) (u : Int) (hp : 0 < e u.natAbs) :
    ∃ r', (dmpDrop u m).2 = { m with ref := r' } ∧
      GoodState { m with ref := r' } (extDec e u.natAbs) := by
  have hu : m.tbl.Mem u := h.exact.mem_of_ext_pos hp
  obtain ⟨c, _, he, _⟩ := decref_spec m e u h.exact hp
  have hg := (decref_good m e h u (fun _ => hp)).1
  have hm : m.mem u = true := (Mgr.mem_iff m u).mpr hu
  rw [he] at hg
  simp only [hm, if_true] at hg
  refine ⟨_, ?_, hg⟩
  unfold dmpDrop
  rw [he]


/-! ### sequencing in `M` -/

theorem M.bind_eq_ok {α β : Type} {x : M α} {f : α → M β} {m m1 : Mgr} {a : α}
    (h : x m = (.ok a, m1)) : (x >>= f) m = f a m1 := by
  simp only [bind, M.bind', h]

theorem M.bind_eq_err {α β : Type} {x : M α} {f : α → M β} {m m1 : Mgr} {e : Err}
    (h : x m = (.error e, m1)) : (x >>= f) m = (.error e, m1) := by
  simp only [bind, M.bind', h]

/-! ### the shelf -/

/-- the shelf `cache` (file id ↦ node of the receiving manager): every entry is a regular
node denoting, over the levels of the manager, what the file says for that id -/
def ShelfOK (succ : List PEntry) (lm : List (Nat × Nat)) (n : Nat) (t : Tbl)
    (cache : List (Nat × Int)) : Prop :=
  ∀ k u, cache.lookup k = some u → 0 < u ∧ t.Mem u ∧ k ≠ 1 ∧ (PEntry.find succ k).isSome ∧
    ∀ a, den t u a = evalL succ lm (n + 1) (k : Int) a

/-- `"not"` is a spelling of negation in the generated tables -/
theorem not_is_negation : docConn "not" = some .not ∧ Gen.allOps.contains "not" = true := by
  decide

/-- `_node_from_int`: the caller gets one `Function` on a node that denotes what the file
says for `uid`; only `_ref` changes -/
theorem nodeFromInt_spec {succ : List PEntry} {lm : List (Nat × Nat)} {n : Nat}
    (hs : SuccWF succ n) (hdom : ∀ k e, PEntry.find succ k = some e → k ≠ 1 → (lm.lookup e.lvl).isSome)
    (m : Mgr) (e : Nat → Nat) (h : GoodState m e)
    (cache : List (Nat × Int)) (hc : ShelfOK succ lm n m.tbl cache) (uid : Int)
    (hres : uid.natAbs = 1 ∨ (cache.lookup uid.natAbs).isSome) :
    ∃ r r', nodeFromInt cache uid m = (.ok r, { m with ref := r' }) ∧
      GoodState { m with ref := r' } (extInc e r.natAbs) ∧ m.tbl.Mem r ∧ (0 < r ↔ 0 < uid) ∧
      (∀ a, den m.tbl r a = evalL succ lm (n + 1) uid a) ∧
      (uid.natAbs ≠ 1 → cache.lookup uid.natAbs = some (if uid < 0 then -r else r)) ∧
      (uid.natAbs = 1 → r = uid) := by
  by_cases hm1 : uid = -1
  · subst hm1
    obtain ⟨r', hw, hg⟩ := dmp_wrap_spec m e h (-1) (Or.inl rfl)
    refine ⟨-1, r', ?_, hg, Or.inl rfl, by simp, ?_, fun h => absurd rfl h, fun _ => rfl⟩
    · unfold nodeFromInt
      simp only [if_true]
      rw [M.bind_eq_ok hw]; rfl
    · intro a; rw [den_neg_one, evalL_term _ _ _ _ _ rfl]; rfl
  by_cases h1 : uid = 1
  · subst h1
    obtain ⟨r', hw, hg⟩ := dmp_wrap_spec m e h 1 (Or.inl rfl)
    refine ⟨1, r', ?_, hg, Or.inl rfl, by simp, ?_, fun h => absurd rfl h, fun _ => rfl⟩
    · unfold nodeFromInt
      simp only [show ¬ ((1 : Int) = -1) by decide, if_false, if_true]
      rw [M.bind_eq_ok hw]; rfl
    · intro a; rw [den_one, evalL_term _ _ _ _ _ rfl]; rfl
  have hn1 : uid.natAbs ≠ 1 := by omega
  rcases hres with hres | hres
  · exact absurd hres hn1
  obtain ⟨k, hk⟩ := Option.isSome_iff_exists.mp hres
  obtain ⟨kpos, kmem, _, kfind, kden⟩ := hc _ k hk
  obtain ⟨r1, hw1, hg1⟩ := dmp_wrap_spec m e h k kmem
  have hlook : (M.ofOption Err.key (cache.lookup uid.natAbs) : M Int) m = (.ok k, m) := by
    rw [hk]; rfl
  have hu0 : uid ≠ 0 := by
    obtain ⟨e', he'⟩ := Option.isSome_iff_exists.mp kfind
    obtain ⟨_, _, _, _, _, _, h2, _⟩ := hs.node _ e' he' hn1
    omega
  by_cases hneg : uid < 0
  · -- `~ u`
    have hI1 : Inv ({ m with ref := r1 } : Mgr) := hg1.inv
    obtain ⟨hap, hmn, hdn⟩ := apply_not_spec { m with ref := r1 } hI1 "not" not_is_negation.1
      not_is_negation.2 k kmem
    obtain ⟨r2, hw2, hg2⟩ := dmp_wrap_spec { m with ref := r1 } _ hg1 (-k) hmn
    have hp : 0 < extInc (extInc e k.natAbs) (-k).natAbs k.natAbs := by
      simp [extInc]
    obtain ⟨r3, hd3, hg3⟩ := dmp_drop_spec { m with ref := r2 } _ hg2 k hp
    have hsign : (0 < -k ↔ 0 < uid) := ⟨fun h' => by omega, fun h' => by omega⟩
    refine ⟨-k, r3, ?_, ?_, mem_neg kmem, hsign, ?_, fun _ => by simp [hneg, hk], fun h => absurd h hn1⟩
    · unfold nodeFromInt
      simp only [hm1, h1, if_false]
      rw [M.bind_eq_ok hlook, M.bind_eq_ok hw1]
      simp only [hneg, if_true]
      unfold withTemps
      simp only
      rw [M.bind_eq_ok hap, M.bind_eq_ok hw2]
      simp only [pure, M.pure', dropList]
      exact congrArg (Prod.mk (Except.ok (-k))) hd3
    · have : extDec (extInc (extInc e k.natAbs) (-k).natAbs) k.natAbs = extInc e (-k).natAbs := by
        funext j
        simp only [extDec, extInc, Int.natAbs_neg]
        by_cases hj : j = k.natAbs <;> simp [hj]
      rw [← this]; exact hg3
    · intro a
      rw [den_neg m.tbl h.inv.wf.toWF k a kmem, kden a]
      have huid : uid = -(uid.natAbs : Int) := by omega
      conv => rhs; rw [huid]
      rw [evalL_neg _ _ _ (by simpa using hn1) (by simpa using kfind) ?_ (by omega)]
      intro e' he'
      obtain ⟨v', w', hv2, hw2', _⟩ := hs.node _ e' he' (by simpa using hn1)
      obtain ⟨j, hj⟩ := Option.isSome_iff_exists.mp (hdom _ e' he' (by simpa using hn1))
      exact ⟨v', w', j, hv2, hw2', hj⟩
  · have hsign : (0 < k ↔ 0 < uid) := ⟨fun _ => by omega, fun _ => kpos⟩
    refine ⟨k, r1, ?_, hg1, kmem, hsign, ?_, fun _ => by simp [hneg, hk], fun h => absurd h hn1⟩
    · unfold nodeFromInt
      simp only [hm1, h1, if_false]
      rw [M.bind_eq_ok hlook, M.bind_eq_ok hw1]
      simp only [hneg, if_false]
      rfl
    · intro a
      rw [kden a]
      have : (uid.natAbs : Int) = uid := by omega
      rw [this]

theorem withTemps_eq {α : Type} {us : List Int} {x : M α} {m m1 : Mgr} {r : Except Err α}
    (h : x m = (r, m1)) : withTemps us x m = (r, dropList us m1) := by
  unfold withTemps; rw [h]

theorem containsCheck_ok (u : Int) (m : Mgr) (h : m.tbl.Mem u) : containsCheck u m = (.ok (), m) := by
  have hm : m.mem u = true := (Mgr.mem_iff m u).mpr h
  simp [containsCheck, bind, M.bind', M.get, hm, pure, M.pure']

/-- `Function.level` of a node of the manager -/
theorem functionLevel_ok (m : Mgr) (u : Int) (hu : m.tbl.Mem u) :
    functionLevel u m = (.ok (m.tbl.levelOf u), m) := by
  unfold functionLevel
  show M.bind' M.get (fun m => M.ofOption Err.key (m.tbl.levelOf? u)) m = _
  unfold M.bind' M.get
  simp only [Tbl.levelOf?_eq m.tbl u hu]
  rfl

theorem assert_ok (b : Bool) (m : Mgr) (h : b = true) : M.assert b .assertion m = (.ok (), m) := by
  subst h; rfl

theorem lookup_append_single (cache : List (Nat × Int)) (k k' : Nat) (u : Int) :
    (cache ++ [(k', u)]).lookup k = match cache.lookup k with
      | some x => some x
      | none => if k = k' then some u else none := by
  induction cache with
  | nil => simp [List.lookup]; split <;> simp_all
  | cons p rest ih =>
    obtain ⟨a, b⟩ := p
    simp only [List.cons_append, List.lookup_cons]
    by_cases h : k = a
    · simp [h]
    · have : (k == a) = false := by simpa using h
      simp only [this]; exact ih


/-! ### the unique table has no entries other than those of the nodes -/

theorem PredNodes.congr {m m' : Mgr} (h : PredNodes m) (h1 : m'.pred = m.pred)
    (h2 : m'.tbl.succ = m.tbl.succ) : PredNodes m' := by
  intro k u hk; rw [h1] at hk; rw [h2]; exact h k u hk

theorem findOrAddCore_predNodes (ext : Nat → Nat) (m : Mgr) (h : Lite ext m) (hp : PredNodes m)
    (i : Nat) (v w : Int) : PredNodes (findOrAddCore i v w m).2 := by
  rcases findOrAddCore_cases m i v w h.exact.isSome with
    he | ⟨-, -, -, hfree, n, c1, c2, -, -, -, -, -, he⟩
  · rw [he]; exact hp
  · rw [he]
    intro k u hk
    have hk' : (m.pred.insert n.key m.minFree)[k]? = some u := hk
    show ∃ n', (m.tbl.succ.insert m.minFree n)[u]? = some n' ∧ n'.key = k
    rw [TreeMap.getElem?_insert] at hk'
    by_cases hkk : n.key = k
    · have : compare n.key k = .eq := by rw [hkk]; exact compare_self
      simp only [this, if_true, Option.some.injEq] at hk'
      subst hk'
      exact ⟨n, by simp, hkk⟩
    · have : compare n.key k ≠ .eq := fun hc => hkk (compare_eq_iff_eq.mp hc)
      simp only [this, if_false] at hk'
      obtain ⟨n0, hn0, hk0⟩ := hp k u hk'
      refine ⟨n0, ?_, hk0⟩
      rw [TreeMap.getElem?_insert]
      have hne : m.minFree ≠ u := by
        intro hh; subst hh
        have : m.tbl.node? m.minFree = some n0 := hn0
        rw [hfree] at this; cases this
      have : compare m.minFree u ≠ .eq := fun hc => hne (compare_eq_iff_eq.mp hc)
      simp only [this, if_false]; exact hn0

theorem findOrAdd_predNodes (ext : Nat → Nat) (m : Mgr) (h : Lite ext m) (hp : PredNodes m)
    (i : Int) (v w : Int) : PredNodes (findOrAdd i v w m).2 := by
  rw [findOrAdd_off_eq m h.off]
  split
  · exact hp
  · exact findOrAddCore_predNodes ext m h hp _ v w

theorem PredNodes.of_eq {α : Type} {x y : Except Err α × Mgr} (h : PredNodes x.2) (e : x = y) :
    PredNodes y.2 := e ▸ h

theorem iteF_predNodes (ext : Nat → Nat) : ∀ (f : Nat) (g u v : Int) (m : Mgr), Lite ext m →
    PredNodes m → PredNodes (iteF f g u v m).2 := by
  intro f
  induction f with
  | zero => intro g u v m _ hp; exact hp
  | succ f ih =>
    intro g u v m h hp
    unfold iteF
    split
    · exact hp
    split
    · exact hp
    split
    · exact hp
    split
    · dsimp only
      split
      · split
        · next heq => exact (ih _ _ _ m h hp).of_eq heq
        next heq =>
        have l1 := (iteF_lite ext f _ _ _ m h).of_eq heq
        have p1 := (ih _ _ _ m h hp).of_eq heq
        split
        · next heq => exact (ih _ _ _ _ l1.1 p1).of_eq heq
        next heq =>
        have l2 := (iteF_lite ext f _ _ _ _ l1.1).of_eq heq
        have p2 := (ih _ _ _ _ l1.1 p1).of_eq heq
        split
        · next heq => exact (findOrAdd_predNodes ext _ l2.1 p2 _ _ _).of_eq heq
        next heq =>
        have p3 := (findOrAdd_predNodes ext _ l2.1 p2 _ _ _).of_eq heq
        exact p3.congr rfl rfl
      · exact hp
      · exact hp
      · exact hp
    · exact hp

theorem ite_predNodes (ext : Nat → Nat) (g u v : Int) (m : Mgr) (h : Lite ext m) (hp : PredNodes m) :
    PredNodes (ite g u v m).2 := by
  unfold ite
  rw [tryToReorder_eq ext _ (iteRaw_lite ext g u v) m h]
  have : iteRaw g u v { m with ctx := true } = iteF (m.nvars + 2) g u v { m with ctx := true } := by
    simp [iteRaw, bind, M.bind', M.get, Mgr.nvars]
  rw [this]
  exact (iteF_predNodes ext _ g u v _ (h.setCtx true) (hp.congr rfl rfl)).congr rfl rfl

theorem var_predNodes (ext : Nat → Nat) (name : String) (m : Mgr) (h : Lite ext m) (hp : PredNodes m) :
    PredNodes (var name m).2 := by
  rw [var_eq, tryToReorder_eq ext _ (varBody_lite ext name) m h, varBody_eq]
  have : PredNodes (match ({ m with ctx := true } : Mgr).tbl.vars[name]? with
      | none => ((.error .value, { m with ctx := true }) : Except Err Int × Mgr)
      | some j => findOrAdd (↑j) (-1) 1 { m with ctx := true }).2 := by
    split
    · exact hp.congr rfl rfl
    · exact findOrAdd_predNodes ext _ (h.setCtx true) (hp.congr rfl rfl) _ _ _
  exact this.congr rfl rfl


theorem not_notAll {α : Type} {l : List α} {f : α → Bool} (h : ∀ x ∈ l, f x = true) :
    ¬ ((!l.all f) = true) := by
  have : l.all f = true := List.all_eq_true.mpr h
  simp [this]

/-- `assert_consistent()` passes on a manager satisfying the invariant whose unique table
has no stray entries and whose `roots` are nodes -/
theorem assertConsistent_ok (m : Mgr) (hI : Inv m) (hp : PredNodes m)
    (hr : ∀ r ∈ m.roots, m.tbl.Mem r) : dmpAssertConsistent m = (.ok (), m) := by
  have hW := hI.wf.toWF
  unfold dmpAssertConsistent
  dsimp only
  rw [if_neg, if_neg, if_neg, if_neg]
  · apply not_notAll
    intro x hx
    obtain ⟨u, n⟩ := x
    have hn : m.tbl.node? u = some n := TreeMap.mem_toList_iff_getElem?_eq_some.mp hx
    have a1 := (Tbl.mem_iff m.tbl n.lo).mpr (hW.lo_mem _ _ hn)
    have a2 := (Tbl.mem_iff m.tbl n.hi).mpr (hW.hi_mem _ _ hn)
    have a3 := hW.hi_pos _ _ hn
    have a4 := Tbl.levelOf?_eq m.tbl n.lo (hW.lo_mem _ _ hn)
    have a5 := Tbl.levelOf?_eq m.tbl n.hi (hW.hi_mem _ _ hn)
    have a6 := hW.lo_lt _ _ hn
    have a7 := hW.hi_lt _ _ hn
    have a8 := hI.refDom _ _ hn
    simp [a1, a2, a3, a4, a5, a6, a7, a8]
  · apply not_notAll
    intro x hx
    obtain ⟨k, u⟩ := x
    obtain ⟨n, hn, hk⟩ := hp k u (TreeMap.mem_toList_iff_getElem?_eq_some.mp hx)
    simp [hn, hk]
  · apply not_notAll
    intro x hx
    obtain ⟨u, n⟩ := x
    have hn : m.tbl.node? u = some n := TreeMap.mem_toList_iff_getElem?_eq_some.mp hx
    simp [(hI.pred n u).mpr hn]
  · intro hh
    rw [List.any_eq_true] at hh
    obtain ⟨r, hr', hb⟩ := hh
    have := (Mgr.mem_iff m r).mpr (hr r hr')
    simp [this] at hb


/-! ### `_make_node` -/

/-- a `GoodState` whose table part is that of `m5` -/
theorem GoodState.setRef_kept {m m5 : Mgr} {r : TreeMap Nat Nat} {e : Nat → Nat}
    (hk : Kept m m5) (hg : GoodState { m5 with ref := r } e) : Kept m { m5 with ref := r } :=
  ⟨hg.inv, hk.ext, ⟨hk.frame.vars, hk.frame.l2v, hk.frame.lastLen, hk.frame.ctx, hk.frame.sched,
    hk.frame.roots⟩⟩

theorem extInc_apply (f : Nat → Nat) (k j : Nat) : extInc f k j = f j + (if j = k then 1 else 0) := by
  unfold extInc; split <;> simp

theorem extDec_apply (f : Nat → Nat) (k j : Nat) : extDec f k j = f j - (if j = k then 1 else 0) := by
  unfold extDec; split <;> simp

/-- the references taken and released by `_make_node` net to one on the made node -/
theorem ledger_makeNode (e : Nat → Nat) (L H G U : Nat) :
    extDec (extDec (extDec (extDec (extInc (extInc (extInc (extInc (extInc e L) H) G) U) U) U) G) H) L
      = extInc e U := by
  funext j
  simp only [extInc_apply, extDec_apply]
  generalize (if j = L then 1 else 0) = a
  generalize (if j = H then 1 else 0) = b
  generalize (if j = G then 1 else 0) = c
  generalize (if j = U then 1 else 0) = d
  omega

/-- `_make_node` for a line that is not on the shelf yet (`load_order=False`, reordering not
enabled): the node `ite(var, high, low)` is built, gets one persistent reference, goes on
the shelf; every temporary `Function` is released -/
theorem makeNode_spec {succ : List PEntry} {lm : List (Nat × Nat)} {n : Nat}
    (hs : SuccWF succ n) (hdom : ∀ k e, PEntry.find succ k = some e → k ≠ 1 → (lm.lookup e.lvl).isSome)
    (vat : List (Nat × String)) (ln : JLine) (m : Mgr) (e : Nat → Nat) (h : GoodState m e)
    (hpn : PredNodes m)
    (cache : List (Nat × Int)) (hc : ShelfOK succ lm n m.tbl cache)
    (hnew : cache.lookup ln.id = none)
    (hline : PEntry.find succ ln.id = some ⟨ln.id, ln.lvl, some ln.lo, some ln.hi⟩) (hid : ln.id ≠ 1)
    (hlo : ln.lo.natAbs = 1 ∨ (cache.lookup ln.lo.natAbs).isSome)
    (hhi : ln.hi.natAbs = 1 ∨ (cache.lookup ln.hi.natAbs).isSome)
    (name : String) (j : Nat) (hvat : vat.lookup ln.lvl = some name)
    (hvar : m.tbl.vars[name]? = some j) (hlm : lm.lookup ln.lvl = some j) :
    ∃ u m5 r, makeNode false vat ln cache m = (.ok (cache ++ [(ln.id, u)]), { m5 with ref := r }) ∧
      Kept m m5 ∧ GoodState { m5 with ref := r } (extInc e u.natAbs) ∧
      ShelfOK succ lm n m5.tbl (cache ++ [(ln.id, u)]) ∧ PredNodes m5 := by
  obtain ⟨v', w', hv', hw', hlvl, hwpos, hk2, _⟩ := hs.node _ _ hline hid
  simp only [Option.some.injEq] at hv' hw'
  subst hv' hw'
  have hjlt : j < m.nvars := h.order.lt name j hvar
  -- low, high
  obtain ⟨lo, r1, elo, g1, mlo, slo, dlo, _, _⟩ := nodeFromInt_spec hs hdom m e h cache hc ln.lo hlo
  obtain ⟨hi, r2, ehi, g2, mhi, shi, dhi, _, _⟩ :=
    nodeFromInt_spec hs hdom { m with ref := r1 } _ g1 cache hc ln.hi hhi
  -- var
  let m2 : Mgr := { m with ref := r2 }
  have hm2 : m2.tbl = m.tbl := rfl
  obtain ⟨g, m3, evar, k3, mg, dg⟩ := var_spec m2 g2.inv g2.off name j hvar hjlt
  have x3 : RefExact m3 (extInc (extInc e lo.natAbs) hi.natAbs) := by
    have := (var_lite (extInc (extInc e lo.natAbs) hi.natAbs) name m2 g2.lite).1.exact
    rw [evar] at this; exact this
  have g3 : GoodState m3 (extInc (extInc e lo.natAbs) hi.natAbs) := g2.of_kept k3 x3
  obtain ⟨r4, ewg, g4⟩ := dmp_wrap_spec m3 _ g3 g mg
  -- ite
  let m4 : Mgr := { m3 with ref := r4 }
  have mhi4 : m4.tbl.Mem hi := k3.ext.mem mhi
  have mlo4 : m4.tbl.Mem lo := k3.ext.mem mlo
  obtain ⟨u, m5, eite, p5⟩ := ite_spec_off m4 g4.inv g4.off g hi lo mg mhi4 mlo4
  have k5 : Kept m4 m5 := ⟨p5.inv, p5.ext, p5.frame⟩
  have x5 : RefExact m5 (extInc (extInc (extInc e lo.natAbs) hi.natAbs) g.natAbs) := by
    have := (ite_lite (extInc (extInc (extInc e lo.natAbs) hi.natAbs) g.natAbs) g hi lo m4 g4.lite).1.exact
    rw [eite] at this; exact this
  have g5 : GoodState m5 (extInc (extInc (extInc e lo.natAbs) hi.natAbs) g.natAbs) := g4.of_kept k5 x5
  obtain ⟨r6, ewu, g6⟩ := dmp_wrap_spec m5 _ g5 u p5.mem
  obtain ⟨r7, ewu2, g7⟩ := dmp_wrap_spec { m5 with ref := r6 } _ g6 u p5.mem
  -- the made node
  have hW := h.inv.wf.toWF
  have dhi4 : ∀ a, den m4.tbl hi a = evalL succ lm (n + 1) ln.hi a := fun a => by
    rw [den_ext k3.ext hW hi a mhi]; exact dhi a
  have dlo4 : ∀ a, den m4.tbl lo a = evalL succ lm (n + 1) ln.lo a := fun a => by
    rw [den_ext k3.ext hW lo a mlo]; exact dlo a
  have du : ∀ a, den m5.tbl u a = evalL succ lm (n + 1) (ln.id : Int) a := by
    intro a
    rw [p5.den a, dg a, dhi4 a, dlo4 a]
    rw [evalL_node hs (ln.id : Int) a _ ln.lo ln.hi j (by simpa using hid) (by simpa using hline) rfl rfl hlm]
    have : ¬ ((ln.id : Int) < 0) := by omega
    simp [this]
  have hupos : 0 < u := by
    have h1' := den_alltrue m5.tbl p5.inv.wf.toWF m5.tbl.nvars u p5.mem (by omega)
    have h2' := den_alltrue m4.tbl g4.inv.wf.toWF m4.tbl.nvars hi mhi4 (by omega)
    have h3' : den m4.tbl g (fun _ => true) = true := dg _
    rw [p5.den, h3'] at h1'
    simp only [if_true] at h1'
    rw [h2'] at h1'
    have : 0 < hi := shi.mpr hwpos
    simpa [this] using h1'.symm
  -- the releases
  have pU : 0 < extInc (extInc (extInc (extInc (extInc e lo.natAbs) hi.natAbs) g.natAbs) u.natAbs) u.natAbs u.natAbs := by
    simp [extInc]
  obtain ⟨r8, ed8, g8⟩ := dmp_drop_spec { m5 with ref := r7 } _ g7 u pU
  have pG : 0 < extDec (extInc (extInc (extInc (extInc (extInc e lo.natAbs) hi.natAbs) g.natAbs) u.natAbs) u.natAbs) u.natAbs g.natAbs := by
    simp only [extInc_apply, extDec_apply, if_true]
    generalize (if g.natAbs = lo.natAbs then 1 else 0) = a
    generalize (if g.natAbs = hi.natAbs then 1 else 0) = b
    generalize (if g.natAbs = u.natAbs then 1 else 0) = d
    omega
  obtain ⟨r9, ed9, g9⟩ := dmp_drop_spec { m5 with ref := r8 } _ g8 g pG
  have pH : 0 < extDec (extDec (extInc (extInc (extInc (extInc (extInc e lo.natAbs) hi.natAbs) g.natAbs) u.natAbs) u.natAbs) u.natAbs) g.natAbs hi.natAbs := by
    simp only [extInc_apply, extDec_apply, if_true]
    generalize (if hi.natAbs = lo.natAbs then 1 else 0) = a
    generalize (if hi.natAbs = g.natAbs then 1 else 0) = c
    generalize (if hi.natAbs = u.natAbs then 1 else 0) = d
    omega
  obtain ⟨r10, ed10, g10⟩ := dmp_drop_spec { m5 with ref := r9 } _ g9 hi pH
  have pL : 0 < extDec (extDec (extDec (extInc (extInc (extInc (extInc (extInc e lo.natAbs) hi.natAbs) g.natAbs) u.natAbs) u.natAbs) u.natAbs) g.natAbs) hi.natAbs lo.natAbs := by
    simp only [extInc_apply, extDec_apply, if_true]
    generalize (if lo.natAbs = hi.natAbs then 1 else 0) = b
    generalize (if lo.natAbs = g.natAbs then 1 else 0) = c
    generalize (if lo.natAbs = u.natAbs then 1 else 0) = d
    omega
  obtain ⟨r11, ed11, g11⟩ := dmp_drop_spec { m5 with ref := r10 } _ g10 lo pL
  rw [ledger_makeNode] at g11
  have pn3 : PredNodes m3 := by
    have := var_predNodes _ name m2 g2.lite (hpn.congr rfl rfl)
    rw [evar] at this; exact this
  have pn5 : PredNodes m5 := by
    have := ite_predNodes _ g hi lo m4 g4.lite (pn3.congr rfl rfl)
    rw [eite] at this; exact this
  refine ⟨u, m5, r11, ?_, ?_, g11, ?_, pn5⟩
  · -- the computation
    have inner4 : (M.assert (decide (0 ≤ u)) >>= fun _ => incref u >>= fun _ =>
        (pure (cache ++ [(ln.id, u)]) : M (List (Nat × Int)))) { m5 with ref := r6 }
        = (.ok (cache ++ [(ln.id, u)]), { m5 with ref := r7 }) := by
      rw [M.bind_eq_ok (assert_ok _ _ (by simp; omega))]
      have hinc : incref u { m5 with ref := r6 } = (.ok (), { m5 with ref := r7 }) := by
        have := ewu2
        unfold dmpWrap at this
        have hm : ({ m5 with ref := r6 } : Mgr).mem u = true := (Mgr.mem_iff _ u).mpr p5.mem
        simpa [hm] using this
      rw [M.bind_eq_ok hinc]; rfl
    have inner3 : (containsCheck g >>= fun _ => containsCheck hi >>= fun _ => containsCheck lo >>= fun _ =>
        ite g hi lo >>= fun u => dmpWrap u >>= fun _ => withTemps [u]
          (M.assert (decide (0 ≤ u)) >>= fun _ => incref u >>= fun _ =>
            (pure (cache ++ [(ln.id, u)]) : M (List (Nat × Int))))) m4
        = (.ok (cache ++ [(ln.id, u)]), { m5 with ref := r8 }) := by
      rw [M.bind_eq_ok (containsCheck_ok g m4 mg), M.bind_eq_ok (containsCheck_ok hi m4 mhi4),
        M.bind_eq_ok (containsCheck_ok lo m4 mlo4), M.bind_eq_ok eite, M.bind_eq_ok ewu,
        withTemps_eq inner4]
      simp only [dropList]
      rw [ed8]
    unfold makeNode
    rw [M.bind_eq_ok (assert_ok _ _ (by simp; omega))]
    simp only [hnew, Option.isSome_none, Bool.false_eq_true, if_false]
    rw [M.bind_eq_ok elo]
    refine (withTemps_eq (r := .ok (cache ++ [(ln.id, u)])) (m1 := { m5 with ref := r10 }) ?_).trans ?_
    · rw [M.bind_eq_ok ehi]
      refine (withTemps_eq (r := .ok (cache ++ [(ln.id, u)])) (m1 := { m5 with ref := r9 }) ?_).trans ?_
      · have hname : (M.ofOption Err.key (vat.lookup ln.lvl) : M String) { m with ref := r2 } = (.ok name, m2) := by
          rw [hvat]; rfl
        rw [M.bind_eq_ok hname]
        rw [M.bind_eq_ok evar, M.bind_eq_ok ewg]
        refine (withTemps_eq inner3).trans ?_
        simp only [dropList]
        rw [ed9]
      · simp only [dropList]
        rw [ed10]
    · simp only [dropList]
      rw [ed11]
  · exact ⟨p5.inv, k3.ext.trans p5.ext,
      ⟨p5.frame.vars.trans k3.frame.vars, p5.frame.l2v.trans k3.frame.l2v,
       p5.frame.lastLen.trans k3.frame.lastLen, p5.frame.ctx.trans k3.frame.ctx,
       p5.frame.sched.trans k3.frame.sched, p5.frame.roots.trans k3.frame.roots⟩⟩
  · -- the shelf
    have X : Ext m.tbl m5.tbl := k3.ext.trans p5.ext
    intro k x hkx
    rw [lookup_append_single] at hkx
    cases hck : cache.lookup k with
    | some y =>
      rw [hck] at hkx
      simp only [Option.some.injEq] at hkx
      subst hkx
      obtain ⟨a1, a2, a3, a4, a5⟩ := hc k y hck
      exact ⟨a1, X.mem a2, a3, a4, fun a => by rw [den_ext X hW y a a2]; exact a5 a⟩
    | none =>
      rw [hck] at hkx
      simp only at hkx
      split at hkx
      · rename_i hk
        simp only [Option.some.injEq] at hkx
        subst hkx hk
        exact ⟨hupos, p5.mem, hid, by simp [hline], du⟩
      · cases hkx


/-! ### the loop over the node lines -/

theorem extAdd_extInc (e : Nat → Nat) (k : Nat) (l : List Nat) :
    extAdd (extInc e k) l = extAdd e (k :: l) := by
  funext j
  simp only [extAdd, extInc_apply, List.count_cons]
  by_cases h : j = k
  · subst h; simp; omega
  · have : ¬ k = j := fun h' => h h'.symm
    simp [h, this]

/-- children first, seen from the front of the list -/
theorem ChildrenFirst.split {l : List JLine} (h : ChildrenFirst l) :
    ∀ pre ln post, l = pre ++ ln :: post → EdgeOK pre ln.lo ∧ EdgeOK pre ln.hi := by
  induction h with
  | nil => intro pre ln post he; simp at he
  | snoc hl hlo hhi ih =>
    rename_i l0 x
    intro pre ln post he
    rcases List.eq_nil_or_concat post with hp | ⟨post', y, hp⟩
    · subst hp
      have : l0 ++ [x] = pre ++ [ln] := he
      obtain ⟨h1, h2⟩ := List.append_inj' this rfl
      simp only [List.cons.injEq, and_true] at h2
      subst h1 h2
      exact ⟨hlo, hhi⟩
    · subst hp
      have : l0 ++ [x] = (pre ++ ln :: post') ++ [y] := by
        rw [he]; simp
      obtain ⟨h1, _⟩ := List.append_inj' this rfl
      exact ih pre ln post' h1

theorem dmp_lookup_isSome_of_mem_keys (cache : List (Nat × Int)) (k : Nat) :
    (cache.lookup k).isSome ↔ k ∈ cache.map (·.1) := by
  induction cache with
  | nil => simp
  | cons p rest ih =>
    obtain ⟨a, b⟩ := p
    simp only [List.lookup_cons, List.map_cons, List.mem_cons]
    by_cases h : k = a
    · simp [h]
    · have : (k == a) = false := by simpa using h
      simp only [this, ih, h, false_or]

theorem dmp_lookup_of_mem_nodup (cache : List (Nat × Int)) (hn : (cache.map (·.1)).Nodup)
    (k : Nat) (u : Int) (hm : (k, u) ∈ cache) : cache.lookup k = some u := by
  induction cache with
  | nil => simp at hm
  | cons p rest ih =>
    obtain ⟨a, b⟩ := p
    simp only [List.map_cons, List.nodup_cons] at hn
    rcases List.mem_cons.mp hm with h | h
    · cases h; simp [List.lookup_cons]
    · have hne : k ≠ a := by
        intro hk; subst hk
        exact hn.1 (List.mem_map.mpr ⟨(k, u), h, rfl⟩)
      have : (k == a) = false := by simpa using hne
      simp only [List.lookup_cons, this]
      exact ih hn.2 h

/-- what the loader needs to know about one node line: it is the line the file resolves
its id to, and its level carries a declared variable -/
structure LineOK (succ : List PEntry) (lm : List (Nat × Nat)) (vat : List (Nat × String))
    (vars : TreeMap String Nat) (ln : JLine) : Prop where
  id : ln.id ≠ 1
  find : PEntry.find succ ln.id = some ⟨ln.id, ln.lvl, some ln.lo, some ln.hi⟩
  name : ∃ name j, vat.lookup ln.lvl = some name ∧ vars[name]? = some j ∧ lm.lookup ln.lvl = some j

/-- the loop over the node lines -/
theorem makeNodes_spec {succ : List PEntry} {lm : List (Nat × Nat)} {n : Nat}
    (hs : SuccWF succ n) (hdom : ∀ k e, PEntry.find succ k = some e → k ≠ 1 → (lm.lookup e.lvl).isSome)
    (vat : List (Nat × String)) :
    ∀ (rest pre : List JLine) (cache : List (Nat × Int)) (m : Mgr) (e : Nat → Nat),
      ChildrenFirst (pre ++ rest) → (∀ ln ∈ rest, LineOK succ lm vat m.tbl.vars ln) →
      (∀ l' ∈ pre, (cache.lookup l'.id).isSome) → GoodState m e → ShelfOK succ lm n m.tbl cache →
      (cache.map (·.1)).Nodup → PredNodes m →
      ∃ added m', makeNodes false vat rest cache m = (.ok (cache ++ added), m') ∧ Kept m m' ∧ PredNodes m' ∧
        GoodState m' (extAdd e (added.map (·.2.natAbs))) ∧ ShelfOK succ lm n m'.tbl (cache ++ added) ∧
        ((cache ++ added).map (·.1)).Nodup ∧ (∀ l' ∈ pre ++ rest, ((cache ++ added).lookup l'.id).isSome) := by
  intro rest
  induction rest with
  | nil =>
    intro pre cache m e _ _ hpre h hc hn hpn
    refine ⟨[], m, by simp [makeNodes, pure, M.pure'], Kept.refl h.inv, hpn, by simpa [extAdd_nil] using h, by simpa using hc,
      by simpa using hn, by simpa using hpre⟩
  | cons ln rest ih =>
    intro pre cache m e hcf hlines hpre h hc hn hpn
    have hL := hlines ln List.mem_cons_self
    obtain ⟨elo, ehi⟩ := hcf.split pre ln rest rfl
    have toCache : ∀ c : Int, EdgeOK pre c → c.natAbs = 1 ∨ (cache.lookup c.natAbs).isSome := by
      intro c hc'
      rcases hc' with h1 | ⟨l', hl', hid⟩
      · exact Or.inl h1
      · right; rw [← hid]; exact hpre l' hl'
    have hcf' : ChildrenFirst ((pre ++ [ln]) ++ rest) := by simpa using hcf
    rw [makeNodes]
    by_cases hin : (cache.lookup ln.id).isSome = true
    · -- a line for an id that is already on the shelf: skipped
      have hmk : makeNode false vat ln cache m = (.ok cache, m) := by
        unfold makeNode
        rw [M.bind_eq_ok (assert_ok _ _ (by have := hL.id; obtain ⟨_, _, _, _, _, _, h2, _⟩ := hs.node _ _ hL.find hL.id; simp; omega))]
        simp only [hin, if_true]
        rfl
      rw [M.bind_eq_ok hmk]
      obtain ⟨added, m', e1, k1, q1, g1, c1, n1, a1⟩ := ih (pre ++ [ln]) cache m e hcf'
        (fun l hl => hlines l (List.mem_cons_of_mem _ hl))
        (by intro l' hl'
            rcases List.mem_append.mp hl' with h' | h'
            · exact hpre l' h'
            · simp at h'; subst h'; exact hin) h hc hn hpn
      exact ⟨added, m', e1, k1, q1, g1, c1, n1, by simpa using a1⟩
    · have hnew : cache.lookup ln.id = none := by
        cases hh : cache.lookup ln.id with
        | none => rfl
        | some x => simp [hh] at hin
      obtain ⟨name, j, hvat, hvar, hlm⟩ := hL.name
      obtain ⟨u, m5, r, emk, k5, g5, c5, q5⟩ := makeNode_spec hs hdom vat ln m e h hpn cache hc hnew hL.find hL.id
        (toCache _ elo) (toCache _ ehi) name j hvat hvar hlm
      rw [M.bind_eq_ok emk]
      have k5' : Kept m { m5 with ref := r } := GoodState.setRef_kept k5 g5
      have hn' : ((cache ++ [(ln.id, u)]).map (·.1)).Nodup := by
        rw [List.map_append, List.nodup_append]
        refine ⟨hn, by simp, ?_⟩
        intro a ha b hb hab
        simp at hb
        subst hb hab
        have := (dmp_lookup_isSome_of_mem_keys cache _).mpr ha
        rw [hnew] at this; cases this
      obtain ⟨added, m', e1, k1, q1, g1, c1, n1, a1⟩ := ih (pre ++ [ln]) (cache ++ [(ln.id, u)])
        { m5 with ref := r } (extInc e u.natAbs) hcf'
        (fun l hl => by
          have := hlines l (List.mem_cons_of_mem _ hl)
          exact ⟨this.id, this.find, by
            obtain ⟨nm, jj, a, b, c⟩ := this.name
            exact ⟨nm, jj, a, by show m5.tbl.vars[nm]? = some jj; rw [k5.frame.vars]; exact b, c⟩⟩)
        (by intro l' hl'
            rw [lookup_append_single]
            rcases List.mem_append.mp hl' with h' | h'
            · obtain ⟨x, hx⟩ := Option.isSome_iff_exists.mp (hpre l' h')
              rw [hx]; rfl
            · simp at h'; subst h'; rw [hnew]; simp) g5 c5 hn' (q5.congr rfl rfl)
      refine ⟨(ln.id, u) :: added, m', ?_, k5'.trans k1, q1, ?_, ?_, ?_, ?_⟩
      · rw [e1]; simp
      · rw [extAdd_extInc] at g1; simpa using g1
      · simpa using c1
      · simpa using n1
      · simpa using a1


/-! ### the roots, the release of the shelf's references -/

theorem rootsFromInts_spec {succ : List PEntry} {lm : List (Nat × Nat)} {n : Nat}
    (hs : SuccWF succ n) (hdom : ∀ k e, PEntry.find succ k = some e → k ≠ 1 → (lm.lookup e.lvl).isSome)
    (cache : List (Nat × Int)) :
    ∀ (ks : List Int) (m : Mgr) (e : Nat → Nat), GoodState m e → ShelfOK succ lm n m.tbl cache →
      (∀ k ∈ ks, k.natAbs = 1 ∨ (cache.lookup k.natAbs).isSome) →
      ∃ us r, rootsFromInts cache ks m = (.ok us, { m with ref := r }) ∧
        GoodState { m with ref := r } (extAdd e (us.map Int.natAbs)) ∧
        Forall2 (fun k u => (m.tbl.Mem u ∧ ∀ a, den m.tbl u a = evalL succ lm (n + 1) k a) ∧
          (k.natAbs ≠ 1 → cache.lookup k.natAbs = some (if k < 0 then -u else u))) ks us := by
  intro ks
  induction ks with
  | nil =>
    intro m e h _ _
    exact ⟨[], m.ref, rfl, by simpa [extAdd_nil] using h, .nil⟩
  | cons k rest ih =>
    intro m e h hc hres
    obtain ⟨u, r1, e1, g1, mu, _, du, lu, _⟩ :=
      nodeFromInt_spec hs hdom m e h cache hc k (hres k List.mem_cons_self)
    obtain ⟨us, r2, e2, g2, f2⟩ := ih { m with ref := r1 } _ g1 hc
      (fun k' hk' => hres k' (List.mem_cons_of_mem _ hk'))
    refine ⟨u :: us, r2, ?_, ?_, .cons ⟨⟨mu, du⟩, lu⟩ f2⟩
    · rw [rootsFromInts]
      refine (M.bind_eq_ok e1).trans ?_
      simp only [e2]
    · rw [extAdd_extInc] at g2; simpa using g2

/-- `ref()` of a held node is at least what the ledger says -/
theorem refOf_ge (m : Mgr) (e : Nat → Nat) (h : GoodState m e) (u : Int) (hu : m.tbl.Mem u) :
    ∃ c, refOf u m = (.ok c, m) ∧ e u.natAbs ≤ c := by
  have hg := h.exact.get hu
  exact ⟨_, refOf_eq m u _ hg, by omega⟩

/-- the references the shelf holds -/
def shelfRefs (c : List (Nat × Int)) : List Nat := c.map (·.2.natAbs)

theorem GoodState.permL {e : Nat → Nat} {l l' : List Nat} {m : Mgr} (h : GoodState m (extAdd e l))
    (hp : l.Perm l') : GoodState m (extAdd e l') := by rw [← extAdd_perm e hp]; exact h

/-- a shelf entry is fetched: one more reference on its node -/
theorem fetch_shelf (e : Nat → Nat) (cache : List (Nat × Int)) (hn : (cache.map (·.1)).Nodup)
    (k : Nat) (u0 : Int) (hm : (k, u0) ∈ cache) (hk1 : k ≠ 1) (m : Mgr) (L : List Nat)
    (hg : GoodState m (extAdd e L)) (hin : u0.natAbs ∈ L) :
    ∃ r, nodeFromInt cache (k : Int) m = (.ok u0, { m with ref := r }) ∧
      GoodState { m with ref := r } (extAdd e (u0.natAbs :: L)) := by
  have hlk := dmp_lookup_of_mem_nodup cache hn k u0 hm
  have hpos : 0 < extAdd e L u0.natAbs := by
    have : 0 < L.count u0.natAbs := List.count_pos_iff.mpr hin
    simp only [extAdd]; omega
  have hmem : m.tbl.Mem u0 := hg.exact.mem_of_ext_pos hpos
  obtain ⟨r, hw, g⟩ := dmp_wrap_spec m _ hg u0 hmem
  rw [extInc_extAdd] at g
  refine ⟨r, ?_, g⟩
  unfold DD.nodeFromInt
  have a1 : ¬ ((k : Int) = -1) := by omega
  have a2 : ¬ ((k : Int) = 1) := by omega
  have a3 : ¬ ((k : Int) < 0) := by omega
  have a4 : ((k : Int)).natAbs = k := by simp
  simp only [a1, a2, a3, a4, if_false]
  have hlook : (M.ofOption Err.key (cache.lookup k) : M Int) m = (.ok u0, m) := by rw [hlk]; rfl
  refine (M.bind_eq_ok hlook).trans ?_
  refine (M.bind_eq_ok hw).trans ?_
  rfl

theorem dropOpt_spec (e : Nat → Nat) (prev : Option Int) (m : Mgr) (L : List Nat)
    (hg : GoodState m (extAdd e (prev.toList.map Int.natAbs ++ L))) :
    ∃ r, dropOpt prev m = { m with ref := r } ∧ GoodState { m with ref := r } (extAdd e L) := by
  cases prev with
  | none => exact ⟨m.ref, rfl, by simpa using hg⟩
  | some p =>
    simp only [Option.toList, List.map_cons, List.map_nil, List.cons_append, List.nil_append] at hg
    obtain ⟨r, hd, g⟩ := dmp_drop_spec m _ hg p (extAdd_pos _ _ _)
    rw [extDec_extAdd] at g
    exact ⟨r, hd, g⟩

/-- `for uid in cache: u = _node_from_int(…); bdd.decref(u)` — in the `except` clause and after a
successful `try:` —: the shelf's references are given back, whatever the shelf holds -/
theorem releaseFailed_spec (e : Nat → Nat) (cache : List (Nat × Int)) (hn : (cache.map (·.1)).Nodup)
    (h1 : ∀ p ∈ cache, p.1 ≠ 1) :
    ∀ (ents : List (Nat × Int)) (prev : Option Int) (m : Mgr) (L : List Nat),
      (∀ p ∈ ents, p ∈ cache) →
      GoodState m (extAdd e (prev.toList.map Int.natAbs ++ (shelfRefs ents ++ L))) →
      ∃ last r, releaseFailed cache ents prev m = (.ok (), last, { m with ref := r }) ∧
        GoodState { m with ref := r } (extAdd e (last.toList.map Int.natAbs ++ L)) := by
  intro ents
  induction ents with
  | nil =>
    intro prev m L _ hg
    exact ⟨prev, m.ref, rfl, by simpa [shelfRefs] using hg⟩
  | cons p rest ih =>
    intro prev m L hsub hg
    obtain ⟨k, u0⟩ := p
    have hmem := hsub _ List.mem_cons_self
    obtain ⟨r1, e1, g1⟩ := fetch_shelf e cache hn k u0 hmem (h1 _ hmem) m _ hg
      (by simp [shelfRefs])
    have g1' : GoodState { m with ref := r1 }
        (extAdd e (prev.toList.map Int.natAbs ++ (u0.natAbs :: u0.natAbs :: (shelfRefs rest ++ L)))) := by
      apply g1.permL
      simp only [shelfRefs, List.map_cons, List.cons_append]
      exact List.perm_middle.symm
    obtain ⟨r2, ed, g2⟩ := dropOpt_spec e prev { m with ref := r1 } _ g1'
    obtain ⟨r3, hd3, g3⟩ := decref_ok_spec { m with ref := r2 } _ g2 u0 (extAdd_pos _ _ _)
    rw [extDec_extAdd] at g3
    obtain ⟨last, r4, e4, g4⟩ := ih (some u0) { m with ref := r3 } L
      (fun p hp => hsub p (List.mem_cons_of_mem _ hp))
      (by simpa using g3)
    refine ⟨last, r4, ?_, g4⟩
    rw [releaseFailed]
    simp only [e1, ed, hd3]
    exact e4

/-- the loop of the checks at the end of the `try:` (`load_order=False`) on ANY shelf that is held:
the `ref < 2` assertion passes for every entry; nothing is released -/
theorem checkLoop_false_spec (e : Nat → Nat) (cache : List (Nat × Int)) (hn : (cache.map (·.1)).Nodup)
    (h1 : ∀ p ∈ cache, p.1 ≠ 1) :
    ∀ (ents : List (Nat × Int)) (prev : Option Int) (m : Mgr) (L : List Nat),
      (∀ p ∈ ents, p ∈ cache) → (∀ p ∈ ents, p.2.natAbs ∈ L) →
      GoodState m (extAdd e (prev.toList.map Int.natAbs ++ L)) →
      ∃ last r, checkLoop false cache ents prev m = (.ok (), last, { m with ref := r }) ∧
        GoodState { m with ref := r } (extAdd e (last.toList.map Int.natAbs ++ L)) := by
  intro ents
  induction ents with
  | nil =>
    intro prev m L _ _ hg
    exact ⟨prev, m.ref, rfl, hg⟩
  | cons p rest ih =>
    intro prev m L hsub hheld hg
    obtain ⟨k, u0⟩ := p
    have hmem := hsub _ List.mem_cons_self
    have hin : u0.natAbs ∈ L := hheld _ List.mem_cons_self
    obtain ⟨r1, e1, g1⟩ := fetch_shelf e cache hn k u0 hmem (h1 _ hmem) m _ hg
      (List.mem_append_right _ hin)
    have g1' : GoodState { m with ref := r1 }
        (extAdd e (prev.toList.map Int.natAbs ++ (u0.natAbs :: L))) := by
      apply g1.permL
      exact List.perm_middle.symm
    obtain ⟨r2, ed, g2⟩ := dropOpt_spec e prev { m with ref := r1 } _ g1'
    have u0mem : ({ m with ref := r2 } : Mgr).tbl.Mem u0 := g2.exact.mem_of_ext_pos (extAdd_pos _ _ _)
    obtain ⟨c, hc1, hc2⟩ := refOf_ge { m with ref := r2 } _ g2 u0 u0mem
    have hc3 : 2 ≤ c := by
      have : 0 < L.count u0.natAbs := List.count_pos_iff.mpr hin
      have : 2 ≤ extAdd e (u0.natAbs :: L) u0.natAbs := by
        simp [extAdd]; omega
      omega
    have hbody : (refOf u0 >>= fun c => M.assert (decide (2 ≤ c)) >>= fun _ =>
        if false = true then M.assert (decide (3 ≤ c)) else pure ())
        { m with ref := r2 } = (.ok (), { m with ref := r2 }) := by
      refine (M.bind_eq_ok hc1).trans ?_
      refine (M.bind_eq_ok (assert_ok _ _ (by simpa using hc3))).trans ?_
      rfl
    obtain ⟨last, r4, e4, g4⟩ := ih (some u0) { m with ref := r2 } L
      (fun p hp => hsub p (List.mem_cons_of_mem _ hp)) (fun p hp => hheld p (List.mem_cons_of_mem _ hp))
      (by simpa using g2)
    refine ⟨last, r4, ?_, g4⟩
    rw [checkLoop]
    simp only [e1, ed]
    rw [hbody]
    exact e4

/-- the two loops over the shelf of a successful `load_json(load_order=False)`: the checks pass,
then every reference taken by `_make_node` is released; the `Function` still bound to the loop
variable is returned -/
theorem checkRelease_false_spec (e : Nat → Nat) (cache : List (Nat × Int)) (hn : (cache.map (·.1)).Nodup)
    (h1 : ∀ p ∈ cache, p.1 ≠ 1) (m : Mgr) (L : List Nat)
    (hg : GoodState m (extAdd e (shelfRefs cache ++ L))) :
    ∃ last0 r0 last r, checkLoop false cache cache none m = (.ok (), last0, { m with ref := r0 }) ∧
      releaseFailed cache cache last0 { m with ref := r0 } = (.ok (), last, { m with ref := r }) ∧
      GoodState { m with ref := r } (extAdd e (last.toList.map Int.natAbs ++ L)) := by
  obtain ⟨last0, r0, e0, g0⟩ := checkLoop_false_spec e cache hn h1 cache none m (shelfRefs cache ++ L)
    (fun _ h => h) (fun p hp => List.mem_append_left _ (List.mem_map.mpr ⟨p, hp, rfl⟩)) (by simpa using hg)
  obtain ⟨last, r, e1, g1⟩ := releaseFailed_spec e cache hn h1 cache last0 { m with ref := r0 } L
    (fun _ h => h) g0
  exact ⟨last0, r0, last, r, e0, e1, g1⟩

/-- the keys of a shelf whose entries are regular nodes of the file are not the terminal's -/
theorem shelfOK_ids {succ : List PEntry} {lm : List (Nat × Nat)} {n : Nat} {t : Tbl}
    {cache : List (Nat × Int)} (hn : (cache.map (·.1)).Nodup) (hc : ShelfOK succ lm n t cache) :
    ∀ p ∈ cache, p.1 ≠ 1 := by
  intro p hp
  have hlk := dmp_lookup_of_mem_nodup cache hn p.1 p.2 hp
  exact (hc p.1 p.2 hlk).2.2.1


/-! ### `declare`, the level tables of the loader, the roots container -/

theorem declare_nil (m : Mgr) : declare [] m = (.ok (), m) := by
  simp [declare, pure]
  rfl

theorem declare_cons (v : String) (vs : List String) (m : Mgr) :
    declare (v :: vs) m = match addVar v none m with
      | (.ok _, m1) => declare vs m1
      | (.error e, m1) => (.error e, m1) := by
  simp only [declare, List.forIn_cons, bind, M.bind']
  cases addVar v none m with
  | mk r m1 =>
    cases r with
    | ok a => simp [pure, M.pure']
    | error e => rfl

/-- `bdd.declare(*order)`: every name is declared afterwards; nodes, counts, unique table,
`roots` are untouched; known names keep their level -/
theorem declare_spec (names : List String) :
    ∀ (m : Mgr) (e : Nat → Nat), GoodState m e →
      ∃ m', declare names m = (.ok (), m') ∧ GoodState m' e ∧
        (∀ v ∈ names, (m'.tbl.vars[v]?).isSome) ∧
        (∀ (v : String) (i : Nat), m.tbl.vars[v]? = some i → m'.tbl.vars[v]? = some i) ∧
        m'.tbl.succ = m.tbl.succ ∧ m'.pred = m.pred ∧ m'.roots = m.roots := by
  induction names with
  | nil => intro m e h; exact ⟨m, declare_nil m, h, by simp, fun _ _ h => h, rfl, rfl, rfl⟩
  | cons v vs ih =>
    intro m e h
    rw [declare_cons]
    cases hex : m.tbl.vars[v]? with
    | some i =>
      rw [(addVar_existing m v i hex).1]
      obtain ⟨m', e1, g1, d1, k1, s1, p1, r1⟩ := ih m e h
      refine ⟨m', e1, g1, ?_, k1, s1, p1, r1⟩
      intro x hx
      rcases List.mem_cons.mp hx with h' | h'
      · subst h'; simp [k1 _ i hex]
      · exact d1 x h'
    | none =>
      rw [addVar_new m v hex h.order.l2v_none]
      have hgood := (addVar_good m e h v none (by intro l hl; cases hl)).1
      rw [addVar_new m v hex h.order.l2v_none] at hgood
      obtain ⟨_, _, _, hv, hmono, _⟩ := addVar_new_spec m h.inv h.order v hex _ rfl
      obtain ⟨m', e1, g1, d1, k1, s1, p1, r1⟩ := ih (addVarState m v) e hgood
      refine ⟨m', e1, g1, ?_, fun x i hx => k1 x i (hmono x i hx), s1, p1, r1⟩
      intro x hx
      rcases List.mem_cons.mp hx with h' | h'
      · subst h'; simp [k1 _ _ hv]
      · exact d1 x h'

/-- `context['var_at_level'] = {v: k for k, v in order.items()}` -/
theorem vat_eq (L : List (String × Nat)) :
    L.foldl (fun acc (x : String × Nat) => (x.2, x.1) :: acc) [] = (L.map fun x => (x.2, x.1)).reverse := by
  have : ∀ acc, L.foldl (fun acc (x : String × Nat) => (x.2, x.1) :: acc) acc
      = (L.map fun x => (x.2, x.1)).reverse ++ acc := by
    induction L with
    | nil => intro acc; rfl
    | cons a L ih => intro acc; simp [List.foldl_cons, ih]
  simpa using this []

theorem lookup_mem {α β : Type} [BEq α] [LawfulBEq α] (l : List (α × β)) (k : α) (v : β)
    (h : l.lookup k = some v) : (k, v) ∈ l := by
  induction l with
  | nil => simp at h
  | cons p rest ih =>
    obtain ⟨a, b⟩ := p
    rw [List.lookup_cons] at h
    by_cases hk : k = a
    · subst hk; simp at h; subst h; exact List.mem_cons_self
    · have : (k == a) = false := by simpa using hk
      rw [this] at h
      exact List.mem_cons_of_mem _ (ih h)

theorem lookup_isSome_of_mem {α β : Type} [BEq α] [LawfulBEq α] (l : List (α × β)) (k : α) (v : β)
    (h : (k, v) ∈ l) : (l.lookup k).isSome := by
  induction l with
  | nil => simp at h
  | cons p rest ih =>
    obtain ⟨a, b⟩ := p
    rw [List.lookup_cons]
    by_cases hk : k = a
    · subst hk; simp
    · have : (k == a) = false := by simpa using hk
      rw [this]
      rcases List.mem_cons.mp h with h' | h'
      · cases h'; exact absurd rfl hk
      · exact ih h'

theorem Roots.rebuild_rel {P : Int → Int → Prop} (r : Roots) (hn : r ≠ .none) (us : List Int)
    (h : Forall2 P r.values us) : RootsRel P r (r.rebuild us) ∧ (r.rebuild us).values = us := by
  cases r with
  | none => exact absurd rfl hn
  | list l => exact ⟨.list h, rfl⟩
  | dict d =>
    have key : ∀ (d : List (String × Int)) (us : List Int), Forall2 P (d.map (·.2)) us →
        Forall2 (fun a b => a.1 = b.1 ∧ P a.2 b.2) d ((d.map (·.1)).zip us) ∧
        (((d.map (·.1)).zip us).map (·.2)) = us := by
      intro d
      induction d with
      | nil => intro us h; cases h; exact ⟨.nil, rfl⟩
      | cons p d ih =>
        intro us h
        cases h with
        | cons a b =>
          obtain ⟨h1, h2⟩ := ih _ b
          exact ⟨.cons ⟨rfl, a⟩ h1, by simp [h2]⟩
    obtain ⟨h1, h2⟩ := key d us h
    exact ⟨.dict h1, h2⟩


/-! ### `_load_json`, `load_order=False` -/

/-! ### the `try` block of `_load_json` on its successful run -/

theorem makeNodesE_ok (lo : Bool) (vat : List (Nat × String)) :
    ∀ (ls : List JLine) (c : List (Nat × Int)) (m : Mgr) (c' : List (Nat × Int)) (m' : Mgr),
      makeNodes lo vat ls c m = (.ok c', m') → makeNodesE lo vat ls c m = (.ok (), c', m') := by
  intro ls
  induction ls with
  | nil =>
    intro c m c' m' h
    simp only [makeNodes, pure, M.pure', Prod.mk.injEq, Except.ok.injEq] at h
    obtain ⟨rfl, rfl⟩ := h
    rfl
  | cons ln rest ih =>
    intro c m c' m' h
    rw [makeNodes] at h
    obtain ⟨c1, m1, h1, h2⟩ := M.dmp_bind_ok h
    rw [makeNodesE, h1]
    exact ih c1 m1 c' m' h2

theorem jsonRoots_ok (f : JsonFile) (hn : f.roots ≠ .none) (cache : List (Nat × Int)) (m m' : Mgr)
    (us : List Int) (h : rootsFromInts cache f.roots.values m = (.ok us, m')) :
    jsonRoots f cache m = (.ok us, m') := by
  unfold jsonRoots
  have hks : (match f.roots with
      | .none => (M.throw .key : M (List Int))
      | r => pure r.values) m = (.ok f.roots.values, m) := by
    cases hr : f.roots with
    | none => exact absurd hr hn
    | list l => rfl
    | dict d => rfl
  exact (M.bind_eq_ok hks).trans h

theorem jsonHeader_false (f : JsonFile) (m m1 : Mgr)
    (h : declare (f.levelOfVar.map (·.1)) m = (.ok (), m1)) : jsonHeader f false m = (.ok (), m1) := by
  unfold jsonHeader
  refine (M.bind_eq_ok h).trans ?_
  rfl

theorem jsonHeader_true (f : JsonFile) (m m1 m2 : Mgr)
    (h : declare (f.levelOfVar.map (·.1)) m = (.ok (), m1))
    (h2 : reorder (some (f.levelOfVar.map fun (x : String × Nat) => (x.1, (x.2 : Int)))) m1 = (.ok (), m2)) :
    jsonHeader f true m = (.ok (), m2) := by
  unfold jsonHeader
  refine (M.bind_eq_ok h).trans ?_
  simp only [if_true]
  exact h2

theorem jsonTry_ok (f : JsonFile) (lo : Bool) (hn : f.roots ≠ .none) (m m1 m2 m3 m4 : Mgr)
    (cache : List (Nat × Int)) (us : List Int) (last : Option Int)
    (hh : jsonHeader f lo m = (.ok (), m1))
    (hm : makeNodes lo (f.levelOfVar.foldl (fun acc (x : String × Nat) => (x.2, x.1) :: acc) []) f.nodes [] m1
      = (.ok cache, m2))
    (hr : rootsFromInts cache f.roots.values m2 = (.ok us, m3))
    (hck : checkLoop lo cache cache none m3 = (.ok (), last, m4)) :
    jsonTry f lo m = (.ok us, cache, last, m4) := by
  unfold jsonTry
  simp only [hh, makeNodesE_ok lo _ _ _ _ _ _ hm, jsonRoots_ok f hn cache m2 m3 us hr, hck]

theorem loadJson_false_eq (f : JsonFile) (m : Mgr) :
    loadJson f false m = jsonFinish f false (jsonTry f false m) := by
  unfold loadJson
  rfl

theorem loadJson_true_eq (f : JsonFile) (m : Mgr) :
    loadJson f true m = jsonFinish f true (jsonTry f true { m with lastLen := none }) := by
  unfold loadJson
  simp only [if_true]
  refine (M.bind_eq_ok (show configure (some false) m = (.ok m.lastLen.isSome, { m with lastLen := none }) from ?_)).trans rfl
  simp [configure, bind, M.bind', M.get, M.set, pure, M.pure']

/-- what `_copy.load_json` needs of a JSON content besides `PickleWF f.toPickle`: children
come first, the roots are a container, every node line is the line its id resolves to -/
structure JsonWF (f : JsonFile) : Prop where
  wf : PickleWF f.toPickle
  order : ChildrenFirst f.nodes
  roots : f.roots ≠ .none
  res : RootsResolvable f.toPickle
  lines : ∀ ln ∈ f.nodes, ln.id ≠ 1 ∧ PEntry.find f.toPickle.succ ln.id = some ln.entry

theorem loadJson_false_spec (f : JsonFile) (hf : JsonWF f) (tgt : Mgr) (e : Nat → Nat)
    (hg : GoodState tgt e) (hpn : PredNodes tgt) (hroots : ∀ r ∈ tgt.roots, tgt.tbl.Mem r) :
    ∃ roots' m', loadJson f false tgt = (.ok roots', m') ∧
      GoodState m' (extAdd e (roots'.values.map Int.natAbs)) ∧ PredNodes m' ∧
      (∀ u n, tgt.tbl.node? u = some n → m'.tbl.node? u = some n) ∧
      RootsRel (fun u r => m'.tbl.Mem r ∧ ∀ α, denBy m'.tbl r α = evalJson f u α) f.roots roots' := by
  obtain ⟨hwf, hcf, hsome, hres, hlines⟩ := hf
  -- 1. declare
  obtain ⟨m1, ed, g1, hdecl, hmono, s1, p1, r1⟩ := declare_spec (f.levelOfVar.map (·.1)) tgt e hg
  have hpn1 : PredNodes m1 := hpn.congr p1 s1
  have hO := g1.order
  -- 2. the tables of the loader
  let vat := f.levelOfVar.foldl (fun acc (x : String × Nat) => (x.2, x.1) :: acc) []
  let lm : List (Nat × Nat) := f.levelOfVar.map fun p => (p.2, (m1.tbl.vars[p.1]?).getD 0)
  let succ := f.toPickle.succ
  let n := f.levelOfVar.length
  have hnames : ∀ var i, (var, i) ∈ f.levelOfVar → f.toPickle.nameAt i = some var := hwf.names
  have hsame : ∀ v v' i, (v, i) ∈ f.levelOfVar → (v', i) ∈ f.levelOfVar → v = v' := by
    intro v v' i h1 h2
    have a := hnames v i h1
    have b := hnames v' i h2
    rw [a] at b; cases b; rfl
  have hlmfacts : ∀ i j, lm.lookup i = some j →
      ∃ v, (v, i) ∈ f.levelOfVar ∧ m1.tbl.vars[v]? = some j := by
    intro i j hij
    have hm := lookup_mem lm i j hij
    simp only [lm, List.mem_map] at hm
    obtain ⟨⟨v, l⟩, hvl, heq⟩ := hm
    simp only [Prod.mk.injEq] at heq
    obtain ⟨rfl, hj⟩ := heq
    obtain ⟨jj, hjj⟩ := Option.isSome_iff_exists.mp (hdecl v (List.mem_map.mpr ⟨(v, l), hvl, rfl⟩))
    rw [hjj] at hj
    simp at hj
    subst hj
    exact ⟨v, hvl, hjj⟩
  have hlmdom : ∀ v i, (v, i) ∈ f.levelOfVar → (lm.lookup i).isSome := by
    intro v i hvi
    exact lookup_isSome_of_mem lm i ((m1.tbl.vars[v]?).getD 0) (List.mem_map.mpr ⟨(v, i), hvi, rfl⟩)
  have hvatfacts : ∀ i x, vat.lookup i = some x → (x, i) ∈ f.levelOfVar := by
    intro i x hix
    have hm := lookup_mem vat i x hix
    simp only [vat, vat_eq, List.mem_reverse, List.mem_map] at hm
    obtain ⟨⟨v, l⟩, hvl, heq⟩ := hm
    simp only [Prod.mk.injEq] at heq
    obtain ⟨rfl, rfl⟩ := heq
    exact hvl
  have hvatdom : ∀ v i, (v, i) ∈ f.levelOfVar → (vat.lookup i).isSome := by
    intro v i hvi
    apply lookup_isSome_of_mem vat i v
    simp only [vat, vat_eq, List.mem_reverse, List.mem_map]
    exact ⟨(v, i), hvi, rfl⟩
  have hdom : ∀ k en, PEntry.find succ k = some en → k ≠ 1 → (lm.lookup en.lvl).isSome := by
    intro k en he h1
    obtain ⟨var, hvar⟩ := hwf.lvls k en he h1
    exact hlmdom var en.lvl hvar
  have hlineOK : ∀ ln ∈ f.nodes, LineOK succ lm vat m1.tbl.vars ln := by
    intro ln hln
    obtain ⟨hid, hfind⟩ := hlines ln hln
    refine ⟨hid, hfind, ?_⟩
    obtain ⟨var, hvar⟩ := hwf.lvls ln.id _ hfind hid
    have hvar' : (var, ln.lvl) ∈ f.levelOfVar := hvar
    obtain ⟨x, hx⟩ := Option.isSome_iff_exists.mp (hvatdom var ln.lvl hvar')
    have hxv : x = var := hsame _ _ _ (hvatfacts _ _ hx) hvar'
    subst hxv
    obtain ⟨j, hj⟩ := Option.isSome_iff_exists.mp (hlmdom x ln.lvl hvar')
    obtain ⟨v, hv1, hv2⟩ := hlmfacts _ _ hj
    have : v = x := hsame _ _ _ hv1 hvar'
    subst this
    exact ⟨v, j, hx, hv2, hj⟩
  -- 3. the node lines
  obtain ⟨added, m2, emk, k2, pn2, g2, c2, n2, a2⟩ := makeNodes_spec hwf.succ hdom vat f.nodes [] [] m1 e
    (by simpa using hcf) hlineOK (by simp) g1 (by intro k u h; simp at h) (by simp) hpn1
  simp only [List.nil_append] at emk g2 c2 n2 a2
  -- 4. the roots
  have hks : ∀ k ∈ f.roots.values, k.natAbs = 1 ∨ (added.lookup k.natAbs).isSome := by
    intro k hk
    rcases hres k hk with h1 | ⟨en, hen, hid⟩
    · exact Or.inl h1
    · by_cases h1 : k.natAbs = 1
      · exact Or.inl h1
      right
      have hen' : en ∈ (⟨1, f.levelOfVar.length, none, none⟩ : PEntry) :: f.nodes.map JLine.entry := hen
      rcases List.mem_cons.mp hen' with h' | h'
      · subst h'; exact absurd hid.symm h1
      · obtain ⟨ln, hln, rfl⟩ := List.mem_map.mp h'
        have := a2 ln hln
        rw [← hid]; exact this
  obtain ⟨us, r3, er, g3, f3⟩ := rootsFromInts_spec hwf.succ hdom added f.roots.values m2 _ g2 c2 hks
  -- 5. the release of the shelf's references
  have g3' : GoodState { m2 with ref := r3 }
      (extAdd (extAdd e (us.map Int.natAbs)) (added.map (·.2.natAbs) ++ (none : Option Int).toList.map Int.natAbs)) := by
    rw [extAdd_append] at g3 ⊢
    have hp : (added.map (·.2.natAbs) ++ us.map Int.natAbs).Perm
        (us.map Int.natAbs ++ (added.map (·.2.natAbs) ++ (none : Option Int).toList.map Int.natAbs)) := by
      simp only [Option.toList, List.map_nil, List.append_nil]
      exact List.perm_append_comm
    rw [← extAdd_perm e hp]; exact g3
  obtain ⟨last0, r0, last, r4, eck, erl, g4⟩ := checkRelease_false_spec (extAdd e (us.map Int.natAbs)) added n2
    (shelfOK_ids n2 c2) { m2 with ref := r3 } [] (by simpa [shelfRefs] using g3')
  simp only [List.append_nil] at g4
  -- the last `Function` of the loop dies
  obtain ⟨r5, ed5, g5⟩ : ∃ r5, dropOpt last { m2 with ref := r4 } = { m2 with ref := r5 } ∧
      GoodState { m2 with ref := r5 } (extAdd e (us.map Int.natAbs)) := by
    cases last with
    | none => exact ⟨r4, rfl, by simpa [extAdd_nil] using g4⟩
    | some p =>
      simp only [Option.toList, List.map_cons, List.map_nil] at g4
      obtain ⟨r5, hd, hg5⟩ := dmp_drop_spec { m2 with ref := r4 } _ g4 p (extAdd_pos _ _ _)
      rw [extDec_extAdd, extAdd_nil] at hg5
      exact ⟨r5, hd, hg5⟩
  -- `assert_consistent`
  have K12 : Kept m1 m2 := k2
  have hroots2 : ∀ r ∈ ({ m2 with ref := r4 } : Mgr).roots, ({ m2 with ref := r4 } : Mgr).tbl.Mem r := by
    intro r hr
    have hr' : r ∈ m2.roots := hr
    rw [K12.frame.roots, r1] at hr'
    have h0 := hroots r hr'
    have h1 : m1.tbl.Mem r := by
      unfold Tbl.Mem Tbl.node? at h0 ⊢
      rw [s1]; exact h0
    exact K12.ext.mem h1
  have hac := assertConsistent_ok { m2 with ref := r4 } g4.inv (pn2.congr rfl rfl) hroots2
  -- the result
  obtain ⟨hrel, hvals⟩ := Roots.rebuild_rel (P := fun k u => m2.tbl.Mem u ∧
      ∀ a, den m2.tbl u a = evalL succ lm (n + 1) k a) f.roots hsome us (f3.imp fun _ _ h => h.1)
  have hl : LMOK succ lm m2.tbl.nvars := by
    constructor
    intro k en he h1
    obtain ⟨j, hj⟩ := Option.isSome_iff_exists.mp (hdom k en he h1)
    obtain ⟨v, _, hv2⟩ := hlmfacts _ _ hj
    exact ⟨j, hj, by rw [← K12.ext.nvars]; exact hO.lt v j hv2⟩
  have hn : NameOK f.toPickle lm m2.tbl := by
    intro i j hij
    obtain ⟨v, hv1, hv2⟩ := hlmfacts _ _ hij
    exact ⟨v, hnames v i hv1, by rw [K12.frame.l2v]; exact (hO.inv v j).mp hv2⟩
  refine ⟨f.roots.rebuild us, { m2 with ref := r5 }, ?_, by rw [hvals]; exact g5, pn2.congr rfl rfl, ?_, ?_⟩
  · rw [loadJson_false_eq, jsonTry_ok f false hsome tgt m1 m2 { m2 with ref := r3 } { m2 with ref := r0 }
      added us last0 (jsonHeader_false f tgt m1 ed) emk er eck]
    unfold jsonFinish
    simp only [erl, Bool.false_eq_true, if_false]
    have hfin : (liftE (Except.ok ()) >>= fun _ => dmpAssertConsistent >>= fun _ => (pure () : M Unit))
        { m2 with ref := r4 } = (.ok (), { m2 with ref := r4 }) := by
      refine (M.bind_eq_ok (show liftE (Except.ok ()) { m2 with ref := r4 } = (.ok (), { m2 with ref := r4 }) from rfl)).trans ?_
      refine (M.bind_eq_ok hac).trans ?_
      rfl
    rw [hfin]
    simp only [ed5]
  · intro u nd hnd
    apply K12.ext.nodes
    unfold Tbl.node? at hnd ⊢
    rw [s1]; exact hnd
  · apply hrel.imp
    intro k u ⟨h1, h2⟩
    refine ⟨h1, fun α => ?_⟩
    unfold denBy evalJson evalPickle
    show den m2.tbl u (m2.tbl.asg α) = _
    rw [h2, evalL_eq_evalN f.toPickle lm m2.tbl _ hl hn]
    rfl


/-- every node line `dump_json` writes is the line its id resolves to -/
theorem dumpJson_lines {m : Mgr} {roots : Roots} {f : JsonFile} (h : dumpJson m roots = .ok f) :
    ∀ ln ∈ f.nodes, ln.id ≠ 1 ∧ PEntry.find f.toPickle.succ ln.id = some ln.entry := by
  obtain ⟨_, _, _, cache, hc⟩ := dumpJson_parts h
  obtain ⟨j, _, _⟩ := dumpJsonRoots_spec m.tbl _ _ _ _ _ hc
    ⟨.nil, by simp, by simp, by intro r hr; simp at hr⟩
  intro ln hln
  obtain ⟨h1, hs⟩ := j.line ln hln
  refine ⟨h1, ?_⟩
  show PEntry.find (_ :: f.nodes.map JLine.entry) ln.id = _
  rw [find_lines _ _ h1]
  have hex : (f.nodes.find? (fun l => l.id == ln.id)).isSome := by
    rw [List.find?_isSome]; exact ⟨ln, hln, by simp⟩
  obtain ⟨ln', hln'⟩ := Option.isSome_iff_exists.mp hex
  have hid' : ln'.id = ln.id := by simpa using List.find?_some hln'
  obtain ⟨_, hs'⟩ := j.line ln' (List.mem_of_find?_eq_some hln')
  rw [hid', hs] at hs'
  simp only [Option.some.injEq, Nd.mk.injEq] at hs'
  rw [hln']
  simp [JLine.entry, hid', hs'.1, hs'.2.1, hs'.2.2]

/-- what `dump_json` writes is what `load_json` accepts -/
theorem dumpJson_jsonWF {m : Mgr} (hI : Inv m) (hv : DmpVarsOK m.tbl) {roots : Roots} {f : JsonFile}
    (h : dumpJson m roots = .ok f) : JsonWF f := by
  obtain ⟨nodes, hst, hr⟩ := dumpJson_stores h
  obtain ⟨_, hroots, hsome, _⟩ := dumpJson_parts h
  exact ⟨hst.wf hI.wf.toWF hv, dumpJson_childrenFirst h, by rw [hroots]; exact hsome,
    stores_resolvable hst (by show ∀ u ∈ f.roots.values, _; rw [hroots]; exact hr), dumpJson_lines h⟩

/-- C12, JSON, `load_order=False`, dynamic reordering not enabled in the receiving manager:
dump `roots` of `src` with `dump_json`, load the content into ANY good manager `tgt` (other
variable order, other variables, pre-existing nodes, references `e` held by the user): the
load succeeds; the result has the container shape of `roots`, every member denotes — by
variable name — the dumped function; the manager stays good with EXACT reference counts for
the ledger "`e` plus one reference per returned `Function`"; nothing of `tgt` is lost. -/
theorem json_roundtrip_off (src : Mgr) (hIs : Inv src) (hvs : DmpVarsOK src.tbl)
    (roots : Roots) (f : JsonFile) (hd : dumpJson src roots = .ok f)
    (tgt : Mgr) (e : Nat → Nat) (hg : GoodState tgt e) (hpn : PredNodes tgt)
    (hroots : ∀ r ∈ tgt.roots, tgt.tbl.Mem r) :
    ∃ roots' m', loadJson f false tgt = (.ok roots', m') ∧
      GoodState m' (extAdd e (roots'.values.map Int.natAbs)) ∧
      (∀ u n, tgt.tbl.node? u = some n → m'.tbl.node? u = some n) ∧
      LoadedAs src.tbl roots m'.tbl roots' := by
  obtain ⟨roots', m', el, g, _, N, R⟩ :=
    loadJson_false_spec f (dumpJson_jsonWF hIs hvs hd) tgt e hg hpn hroots
  obtain ⟨_, hroots', hev⟩ := dumpJson_spec hIs hvs hd
  refine ⟨roots', m', el, g, N, ?_⟩
  rw [hroots'] at R
  apply R.imp_mem
  intro u hu r ⟨h1, h2⟩
  exact ⟨h1, fun α => by rw [h2 α, hev α u hu]⟩


/-! ### `dd.autoref.BDD.load` of a pickle: one reference per returned `Function` -/

theorem Forall2.right_mem {α β : Type} {R : α → β → Prop} {l : List α} {l' : List β}
    (h : Forall2 R l l') : ∀ b ∈ l', ∃ a, R a b := by
  induction h with
  | nil => intro b hb; simp at hb
  | cons hab _ ih =>
    intro b hb
    rcases List.mem_cons.mp hb with h' | h'
    · subst h'; exact ⟨_, hab⟩
    · exact ih b h'

theorem RootsRel.right_mem {P : Int → Int → Prop} {a b : Roots} (h : RootsRel P a b) :
    ∀ r ∈ b.values, ∃ u, P u r := by
  cases h with
  | none => intro r hr; simp [Roots.values] at hr
  | list hl => exact hl.right_mem
  | dict hd =>
    intro r hr
    simp only [Roots.values, List.mem_map] at hr
    obtain ⟨p, hp, rfl⟩ := hr
    obtain ⟨q, hq⟩ := hd.right_mem p hp
    exact ⟨q.2, hq.2⟩

theorem wrapList_spec : ∀ (us : List Int) (m : Mgr) (ext : Nat → Nat), Inv m → RefExact m ext →
    (∀ u ∈ us, m.tbl.Mem u) →
    ∃ r, wrapList us m = (.ok (), { m with ref := r }) ∧ Inv { m with ref := r } ∧
      RefExact { m with ref := r } (extAdd ext (us.map Int.natAbs)) := by
  intro us
  induction us with
  | nil => intro m ext hI hr _; exact ⟨m.ref, rfl, hI, by simpa [extAdd_nil] using hr⟩
  | cons u rest ih =>
    intro m ext hI hr hm
    have hu := hm u List.mem_cons_self
    obtain ⟨c, _, he, hr'⟩ := incref_spec m ext u hr hu
    have hk := incref_kept m hI u
    rw [he] at hk
    have hmm : m.mem u = true := (Mgr.mem_iff m u).mpr hu
    obtain ⟨r, e2, I2, R2⟩ := ih { m with ref := m.ref.insert u.natAbs (c + 1) } _ hk.inv hr'
      (fun x hx => hm x (List.mem_cons_of_mem _ hx))
    refine ⟨r, ?_, I2, ?_⟩
    · rw [wrapList]
      simp only [dmpWrap, hmm, Bool.not_true, Bool.false_eq_true, if_false, he]
      exact e2
    · rw [extAdd_extInc] at R2; simpa using R2

/-- `C12_load_target_counts` for `dd.autoref.BDD.load` of a pickle: exact counts for the
ledger "user references plus one per returned `Function`" -/
theorem pickleAutoref_counts (ext : Nat → Nat) (f : PickleFile) (levels : Bool)
    (m : Mgr) (hI : Inv m) (hx : RefExact m ext) (hb : DmpVarsBij m.tbl) (hc : m.ctx = false)
    (hwf : PickleWF f) (hr : RootsResolvable f)
    (lm : List (Nat × Nat)) (m1 : Mgr)
    (hv : loadVars levels f.vars.length f.vars [] m = (.ok lm, m1))
    (hg : Contig m1.tbl)
    (hperm : levels = true → levelsPermutation f.vars = true) :
    ∃ roots' m', loadPickleAutoref f levels m = (.ok roots', m') ∧ Inv m' ∧
      RefExact m' (extAdd ext (roots'.values.map Int.natAbs)) ∧ LoadedFrom f m'.tbl roots' := by
  obtain ⟨roots', m2, e2, I2, R2, L2⟩ := pickle_load_counts ext f levels m hI hx hb hc hwf hr lm m1 hv hg hperm
  have hmem : ∀ u ∈ roots'.values, m2.tbl.Mem u := by
    intro u hu
    obtain ⟨_, h, _⟩ := RootsRel.right_mem L2 u hu
    exact h
  obtain ⟨r, e3, I3, R3⟩ := wrapList_spec roots'.values m2 ext I2 R2 hmem
  refine ⟨roots', { m2 with ref := r }, ?_, I3, R3, L2⟩
  unfold loadPickleAutoref
  rw [e2]
  simp only [e3]


end DD
