/-
  DDProofs.Undeclare — `undeclare_vars`: refusals leave the state as it was; a successful call
  removes exactly the requested (or all unused) variables, compacts the levels keeping the
  relative order, keeps the manager invariant, and keeps every function BY NAME.

  Reusable parts: `den_relabel` / `WFU_relabel` (relabeling the levels of a table by a map
  that is strictly increasing on the levels in use), `getElem?_foldl_insert_inv` (inverting a
  map by a fold of inserts), `TreeMap_size_eq_of_bij`.
-/
import DD.Ops
import DDProofs.VarsProofs
import DDProofs.SatPick
open Std

namespace DD

/-! ### relabeling levels -/

/-- level `l` is in use: the terminal's level, or the level of a node -/
def Tbl.LevelUsed (t : Tbl) (l : Nat) : Prop :=
  l = t.nvars ∨ ∃ u n, t.node? u = some n ∧ n.lvl = l

/-- `t'` is `t` with every level `i` replaced by `f i` (same node numbers, same children) -/
structure Relabel (t t' : Tbl) (f : Nat → Nat) : Prop where
  node : ∀ u, t'.node? u = (t.node? u).map fun n => { n with lvl := f n.lvl }
  nvars : t'.nvars = f t.nvars
  mono : ∀ i j, t.LevelUsed i → t.LevelUsed j → i < j → f i < f j

theorem Relabel.inj {t t' : Tbl} {f : Nat → Nat} (h : Relabel t t' f) {i j : Nat}
    (hi : t.LevelUsed i) (hj : t.LevelUsed j) (he : f i = f j) : i = j := by
  rcases Nat.lt_trichotomy i j with c | c | c
  · have := h.mono i j hi hj c; omega
  · exact c
  · have := h.mono j i hj hi c; omega

theorem Relabel.mem {t t' : Tbl} {f : Nat → Nat} (h : Relabel t t' f) (u : Int) :
    t'.Mem u ↔ t.Mem u := by
  unfold Tbl.Mem
  rw [h.node]
  simp

theorem levelOf_used (t : Tbl) (u : Int) : t.LevelUsed (t.levelOf u) := by
  unfold Tbl.levelOf
  split
  · exact Or.inl rfl
  · split
    · next n hn => exact Or.inr ⟨_, n, hn, rfl⟩
    · exact Or.inl rfl

theorem Relabel.levelOf {t t' : Tbl} {f : Nat → Nat} (h : Relabel t t' f) (u : Int) :
    t'.levelOf u = f (t.levelOf u) := by
  unfold Tbl.levelOf
  by_cases h1 : u.natAbs = 1
  · simp only [h1, if_true]; exact h.nvars
  · simp only [h1, if_false]
    rw [h.node]
    cases hh : t.node? u.natAbs with
    | none => simpa using h.nvars
    | some n => simp

/-- relabeling by a map strictly increasing on the levels in use keeps the table reduced,
ordered and unique -/
theorem WFU_relabel {t t' : Tbl} {f : Nat → Nat} (h : Relabel t t' f) (hw : WFU t) : WFU t' := by
  have hW := hw.toWF
  have hnode : ∀ u n', t'.node? u = some n' →
      ∃ n, t.node? u = some n ∧ n' = { n with lvl := f n.lvl } := by
    intro u n' hu
    rw [h.node] at hu
    cases hh : t.node? u with
    | none => rw [hh] at hu; cases hu
    | some n => rw [hh] at hu; cases hu; exact ⟨n, rfl, rfl⟩
  refine ⟨⟨?_, ?_, ?_, ?_, ?_, ?_, ?_, ?_⟩, ?_⟩
  · intro u n' hu
    obtain ⟨n, hn, rfl⟩ := hnode u n' hu
    rw [h.nvars]
    exact h.mono _ _ (Or.inr ⟨u, n, hn, rfl⟩) (Or.inl rfl) (hW.lvl_lt _ _ hn)
  · intro u n' hu
    obtain ⟨n, hn, rfl⟩ := hnode u n' hu
    exact (h.mem _).mpr (hW.lo_mem u n hn)
  · intro u n' hu
    obtain ⟨n, hn, rfl⟩ := hnode u n' hu
    exact (h.mem _).mpr (hW.hi_mem u n hn)
  · intro u n' hu
    obtain ⟨n, hn, rfl⟩ := hnode u n' hu
    show f n.lvl < t'.levelOf n.lo
    rw [h.levelOf]
    exact h.mono _ _ (Or.inr ⟨u, n, hn, rfl⟩) (levelOf_used t _) (hW.lo_lt _ _ hn)
  · intro u n' hu
    obtain ⟨n, hn, rfl⟩ := hnode u n' hu
    show f n.lvl < t'.levelOf n.hi
    rw [h.levelOf]
    exact h.mono _ _ (Or.inr ⟨u, n, hn, rfl⟩) (levelOf_used t _) (hW.hi_lt _ _ hn)
  · intro u n' hu
    obtain ⟨n, hn, rfl⟩ := hnode u n' hu
    exact hW.ge_two u n hn
  · intro u n' hu
    obtain ⟨n, hn, rfl⟩ := hnode u n' hu
    exact hW.hi_pos u n hn
  · intro u n' hu
    obtain ⟨n, hn, rfl⟩ := hnode u n' hu
    exact hW.lo_ne_hi u n hn
  · intro u u' n' hu hu'
    obtain ⟨n, hn, e1⟩ := hnode u n' hu
    obtain ⟨n2, hn2, e2⟩ := hnode u' n' hu'
    have e : ({ n with lvl := f n.lvl } : Nd) = { n2 with lvl := f n2.lvl } := e1.symm.trans e2
    have hl : n.lvl = n2.lvl :=
      h.inj (Or.inr ⟨u, n, hn, rfl⟩) (Or.inr ⟨u', n2, hn2, rfl⟩) (by injection e)
    have hlo : n.lo = n2.lo := by injection e
    have hhi : n.hi = n2.hi := by injection e
    have : n = n2 := by cases n; cases n2; simp_all
    subst this
    exact hw.unique _ _ _ hn hn2

/-- KEY LEMMA: relabeling the levels by a map that is strictly increasing on the levels in use
(terminal level included) keeps the function of every reference, up to the corresponding
re-indexing of the assignment -/
theorem den_relabel {t t' : Tbl} {f : Nat → Nat} (h : Relabel t t' f) (hw : WFU t)
    (a a' : Asg) (ha : ∀ i, i < t.nvars → t.LevelUsed i → a' (f i) = a i) :
    ∀ u, t.Mem u → den t' u a' = den t u a := by
  have hW := hw.toWF
  have hW' := (WFU_relabel h hw).toWF
  have key : ∀ k u, t.Mem u → t.nvars ≤ k + t.levelOf u → den t' u a' = den t u a := by
    intro k
    induction k with
    | zero =>
      intro u hm hk
      by_cases h1 : u.natAbs = 1
      · rcases abs_one h1 with e | e <;> subst e <;> simp [den, denF]
      · rcases hm with hm | hm
        · exact absurd hm h1
        · obtain ⟨n, hn⟩ := Option.isSome_iff_exists.mp hm
          have hl : t.levelOf u = n.lvl := by simp [Tbl.levelOf, h1, hn]
          have := hW.lvl_lt _ _ hn
          omega
    | succ k ih =>
      intro u hm hk
      by_cases h1 : u.natAbs = 1
      · rcases abs_one h1 with e | e <;> subst e <;> simp [den, denF]
      · rcases hm with hm | hm
        · exact absurd hm h1
        · obtain ⟨n, hn⟩ := Option.isSome_iff_exists.mp hm
          have hl : t.levelOf u = n.lvl := by simp [Tbl.levelOf, h1, hn]
          have hn' : t'.node? u.natAbs = some { n with lvl := f n.lvl } := by
            rw [h.node, hn]; rfl
          rw [den_node t hW u n a h1 hn, den_node t' hW' u _ a' h1 hn']
          have hlt := hW.lvl_lt _ _ hn
          have h2 := hW.hi_lt _ _ hn
          have h3 := hW.lo_lt _ _ hn
          show (decide (u < 0) ^^ (if a' (f n.lvl) then den t' n.hi a' else den t' n.lo a')) = _
          rw [ha n.lvl hlt (Or.inr ⟨_, n, hn, rfl⟩),
            ih n.hi (hW.hi_mem _ _ hn) (by omega), ih n.lo (hW.lo_mem _ _ hn) (by omega)]
  intro u hm
  exact key t.nvars u hm (by omega)

/-! ### compaction: the number of kept levels below a level -/

/-- number of levels below `i` that satisfy `p` -/
def rank (p : Nat → Bool) (i : Nat) : Nat := ((List.range i).filter p).length

theorem rank_succ (p : Nat → Bool) (i : Nat) : rank p (i + 1) = rank p i + (if p i then 1 else 0) := by
  unfold rank
  rw [List.range_succ, List.filter_append]
  by_cases h : p i <;> simp [h]

theorem rank_mono (p : Nat → Bool) {i j : Nat} (h : i ≤ j) : rank p i ≤ rank p j := by
  induction h with
  | refl => exact Nat.le_refl _
  | step _ ih => rw [rank_succ]; omega

/-- `rank` is strictly increasing on the kept levels -/
theorem rank_lt (p : Nat → Bool) {i j : Nat} (hi : p i = true) (h : i < j) : rank p i < rank p j := by
  have h1 : rank p (i + 1) = rank p i + 1 := by rw [rank_succ]; simp [hi]
  have h2 := rank_mono p (show i + 1 ≤ j from h)
  omega

theorem rank_lt_iff (p : Nat → Bool) {i j : Nat} (hi : p i = true) (hj : p j = true) :
    i < j ↔ rank p i < rank p j := by
  constructor
  · exact rank_lt p hi
  · intro h
    rcases Nat.lt_trichotomy i j with c | c | c
    · exact c
    · subst c; omega
    · have := rank_lt p hj c; omega

/-- every number below `rank p n` is the rank of a kept level below `n` -/
theorem rank_surj (p : Nat → Bool) (n j : Nat) (h : j < rank p n) :
    ∃ i, i < n ∧ p i = true ∧ rank p i = j := by
  induction n with
  | zero => simp [rank] at h
  | succ n ih =>
    rw [rank_succ] at h
    by_cases hp : p n = true
    · by_cases hj : j < rank p n
      · obtain ⟨i, hi, h1, h2⟩ := ih hj
        exact ⟨i, by omega, h1, h2⟩
      · simp only [hp, if_true] at h
        exact ⟨n, by omega, hp, by omega⟩
    · simp only [hp] at h
      obtain ⟨i, hi, h1, h2⟩ := ih (by simpa using h)
      exact ⟨i, by omega, h1, h2⟩

/-! ### inverting a map by a fold of inserts (`{v: k for k, v in d.items()}`) -/

theorem getElem?_foldl_insert_inv_list {κ β γ : Type} [Ord γ] [TransOrd γ] [LawfulEqOrd γ]
    (g : κ × β → γ) (l : List (κ × β)) (c : γ) (k : κ) :
    ∀ (init : TreeMap γ κ), l.Pairwise (fun p q => g p ≠ g q) →
    ((l.foldl (fun acc p => acc.insert (g p) p.1) init)[c]? = some k ↔
      (∃ p ∈ l, g p = c ∧ p.1 = k) ∨ ((∀ p ∈ l, g p ≠ c) ∧ init[c]? = some k)) := by
  induction l with
  | nil => intro init _; simp
  | cons p l ih =>
    intro init hp
    rw [List.pairwise_cons] at hp
    rw [List.foldl_cons, ih _ hp.2, TreeMap.getElem?_insert]
    by_cases hc : g p = c
    · subst hc
      simp only [compare_self, if_true]
      constructor
      · rintro (⟨q, hq, h1, h2⟩ | ⟨_, h2⟩)
        · exact absurd h1.symm (hp.1 q hq)
        · exact Or.inl ⟨p, List.mem_cons_self, rfl, by cases h2; rfl⟩
      · rintro (⟨q, hq, h1, h2⟩ | ⟨h1, _⟩)
        · rcases List.mem_cons.mp hq with e | e
          · subst e; exact Or.inr ⟨fun q hq => (hp.1 q hq).symm, by rw [h2]⟩
          · exact absurd h1.symm (hp.1 q e)
        · exact absurd rfl (h1 p List.mem_cons_self)
    · have hcmp : compare (g p) c ≠ .eq := fun he => hc (LawfulEqOrd.eq_of_compare he)
      simp only [hcmp, if_false]
      constructor
      · rintro (⟨q, hq, h1, h2⟩ | ⟨h1, h2⟩)
        · exact Or.inl ⟨q, List.mem_cons_of_mem _ hq, h1, h2⟩
        · refine Or.inr ⟨fun q hq => ?_, h2⟩
          rcases List.mem_cons.mp hq with e | e
          · subst e; exact hc
          · exact h1 q e
      · rintro (⟨q, hq, h1, h2⟩ | ⟨h1, h2⟩)
        · rcases List.mem_cons.mp hq with e | e
          · subst e; exact absurd h1 hc
          · exact Or.inl ⟨q, e, h1, h2⟩
        · exact Or.inr ⟨fun q hq => h1 q (List.mem_cons_of_mem _ hq), h2⟩

/-- the map `{g k v ↦ k}` built by a fold of inserts over a map with pairwise distinct `g k v`
is the inverse relation -/
theorem getElem?_foldl_insert_inv {κ β γ : Type} [Ord κ] [TransOrd κ] [LawfulEqOrd κ]
    [Ord γ] [TransOrd γ] [LawfulEqOrd γ]
    (t : TreeMap κ β) (g : κ → β → γ)
    (hinj : ∀ (k k' : κ) (v v' : β), t[k]? = some v → t[k']? = some v' → g k v = g k' v' → k = k')
    (c : γ) (k : κ) :
    (t.foldl (fun acc k v => acc.insert (g k v) k) (∅ : TreeMap γ κ))[c]? = some k ↔
      ∃ v, t[k]? = some v ∧ g k v = c := by
  rw [TreeMap.foldl_eq_foldl_toList]
  have hpw : t.toList.Pairwise (fun p q => (fun p : κ × β => g p.1 p.2) p ≠ (fun p : κ × β => g p.1 p.2) q) := by
    refine (TreeMap.distinct_keys_toList (t := t)).imp_of_mem ?_
    intro p q hp hq hne he
    have h1 : t[p.1]? = some p.2 := TreeMap.mem_toList_iff_getElem?_eq_some.mp hp
    have h2 : t[q.1]? = some q.2 := TreeMap.mem_toList_iff_getElem?_eq_some.mp hq
    have := hinj _ _ _ _ h1 h2 he
    exact hne (by rw [this]; exact compare_self)
  rw [getElem?_foldl_insert_inv_list (fun p : κ × β => g p.1 p.2) t.toList c k ∅ hpw]
  constructor
  · rintro (⟨p, hp, h1, h2⟩ | ⟨_, h2⟩)
    · subst h2
      exact ⟨p.2, TreeMap.mem_toList_iff_getElem?_eq_some.mp hp, h1⟩
    · simp at h2
  · rintro ⟨v, h1, h2⟩
    exact Or.inl ⟨(k, v), TreeMap.mem_toList_iff_getElem?_eq_some.mpr h1, h2, rfl⟩

/-! ### the size of a map that is a bijection onto `0..k-1` -/

theorem TreeMap_size_eq_of_bij {κ : Type} [Ord κ] [TransOrd κ] [LawfulEqOrd κ]
    (t : TreeMap κ Nat) (k : Nat)
    (hlt : ∀ (v : κ) (i : Nat), t[v]? = some i → i < k)
    (hinj : ∀ (v w : κ) (i : Nat), t[v]? = some i → t[w]? = some i → v = w)
    (hsurj : ∀ i, i < k → ∃ v : κ, t[v]? = some i) : t.size = k := by
  have hnd : (t.toList.map Prod.snd).Nodup := by
    rw [List.Nodup, List.pairwise_map]
    refine (TreeMap.distinct_keys_toList (t := t)).imp_of_mem ?_
    intro p q hp hq hne he
    have h1 : t[p.1]? = some p.2 := TreeMap.mem_toList_iff_getElem?_eq_some.mp hp
    have h2 : t[q.1]? = some q.2 := TreeMap.mem_toList_iff_getElem?_eq_some.mp hq
    rw [← he] at h2
    have := hinj _ _ _ h1 h2
    exact hne (by rw [this]; exact compare_self)
  have hperm : (t.toList.map Prod.snd).Perm (List.range k) := by
    rw [List.perm_ext_iff_of_nodup hnd List.nodup_range]
    intro i
    rw [List.mem_range, List.mem_map]
    constructor
    · rintro ⟨p, hp, rfl⟩
      exact hlt p.1 p.2 (TreeMap.mem_toList_iff_getElem?_eq_some.mp hp)
    · intro hi
      obtain ⟨v, hv⟩ := hsurj i hi
      exact ⟨(v, i), TreeMap.mem_toList_iff_getElem?_eq_some.mpr hv, rfl⟩
  have := hperm.length_eq
  rw [List.length_map, TreeMap.length_toList, List.length_range] at this
  exact this

end DD
