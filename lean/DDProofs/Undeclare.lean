/-
  DDProofs.Undeclare — `undeclare_vars`: refusals leave the state as it was; a successful call
  removes exactly the requested (or all unused) variables, compacts the levels keeping the
  relative order, keeps the manager invariant, and keeps every function BY NAME.

  Reusable parts: `den_relabel` / `WFU_relabel` (relabeling the levels of a table by a map
  that is strictly increasing on the levels in use), `getElem?_foldl_insert_inv` (inverting a
  map by a fold of inserts), `TreeMap_size_eq_of_bij`.
-/
import DD.Ops
import DDProofs.VarsProofs
import DDProofs.SatPick
open Std

namespace DD

/-! ### relabeling levels -/

/-- level `l` is in use: the terminal's level, or the level of a node -/
def Tbl.LevelUsed (t : Tbl) (l : Nat) : Prop :=
  l = t.nvars ∨ ∃ u n, t.node? u = some n ∧ n.lvl = l

/-- `t'` is `t` with every level `i` replaced by `f i` (same node numbers, same children) -/
structure Relabel (t t' : Tbl) (f : Nat → Nat) : Prop where
  node : ∀ u, t'.node? u = (t.node? u).map fun n => { n with lvl := f n.lvl }
  nvars : t'.nvars = f t.nvars
  mono : ∀ i j, t.LevelUsed i → t.LevelUsed j → i < j → f i < f j

theorem Relabel.inj {t t' : Tbl} {f : Nat → Nat} (h : Relabel t t' f) {i j : Nat}
    (hi : t.LevelUsed i) (hj : t.LevelUsed j) (he : f i = f j) : i = j := by
  rcases Nat.lt_trichotomy i j with c | c | c
  · have := h.mono i j hi hj c; omega
  · exact c
  · have := h.mono j i hj hi c; omega

theorem Relabel.mem {t t' : Tbl} {f : Nat → Nat} (h : Relabel t t' f) (u : Int) :
    t'.Mem u ↔ t.Mem u := by
  unfold Tbl.Mem
  rw [h.node]
  simp

theorem levelOf_used (t : Tbl) (u : Int) : t.LevelUsed (t.levelOf u) := by
  unfold Tbl.levelOf
  split
  · exact Or.inl rfl
  · split
    · next n hn => exact Or.inr ⟨_, n, hn, rfl⟩
    · exact Or.inl rfl

theorem Relabel.levelOf {t t' : Tbl} {f : Nat → Nat} (h : Relabel t t' f) (u : Int) :
    t'.levelOf u = f (t.levelOf u) := by
  unfold Tbl.levelOf
  by_cases h1 : u.natAbs = 1
  · simp only [h1, if_true]; exact h.nvars
  · simp only [h1, if_false]
    rw [h.node]
    cases hh : t.node? u.natAbs with
    | none => simpa using h.nvars
    | some n => simp

/-- relabeling by a map strictly increasing on the levels in use keeps the table reduced,
ordered and unique -/
theorem WFU_relabel {t t' : Tbl} {f : Nat → Nat} (h : Relabel t t' f) (hw : WFU t) : WFU t' := by
  have hW := hw.toWF
  have hnode : ∀ u n', t'.node? u = some n' →
      ∃ n, t.node? u = some n ∧ n' = { n with lvl := f n.lvl } := by
    intro u n' hu
    rw [h.node] at hu
    cases hh : t.node? u with
    | none => rw [hh] at hu; cases hu
    | some n => rw [hh] at hu; cases hu; exact ⟨n, rfl, rfl⟩
  refine ⟨⟨?_, ?_, ?_, ?_, ?_, ?_, ?_, ?_⟩, ?_⟩
  · intro u n' hu
    obtain ⟨n, hn, rfl⟩ := hnode u n' hu
    rw [h.nvars]
    exact h.mono _ _ (Or.inr ⟨u, n, hn, rfl⟩) (Or.inl rfl) (hW.lvl_lt _ _ hn)
  · intro u n' hu
    obtain ⟨n, hn, rfl⟩ := hnode u n' hu
    exact (h.mem _).mpr (hW.lo_mem u n hn)
  · intro u n' hu
    obtain ⟨n, hn, rfl⟩ := hnode u n' hu
    exact (h.mem _).mpr (hW.hi_mem u n hn)
  · intro u n' hu
    obtain ⟨n, hn, rfl⟩ := hnode u n' hu
    show f n.lvl < t'.levelOf n.lo
    rw [h.levelOf]
    exact h.mono _ _ (Or.inr ⟨u, n, hn, rfl⟩) (levelOf_used t _) (hW.lo_lt _ _ hn)
  · intro u n' hu
    obtain ⟨n, hn, rfl⟩ := hnode u n' hu
    show f n.lvl < t'.levelOf n.hi
    rw [h.levelOf]
    exact h.mono _ _ (Or.inr ⟨u, n, hn, rfl⟩) (levelOf_used t _) (hW.hi_lt _ _ hn)
  · intro u n' hu
    obtain ⟨n, hn, rfl⟩ := hnode u n' hu
    exact hW.ge_two u n hn
  · intro u n' hu
    obtain ⟨n, hn, rfl⟩ := hnode u n' hu
    exact hW.hi_pos u n hn
  · intro u n' hu
    obtain ⟨n, hn, rfl⟩ := hnode u n' hu
    exact hW.lo_ne_hi u n hn
  · intro u u' n' hu hu'
    obtain ⟨n, hn, e1⟩ := hnode u n' hu
    obtain ⟨n2, hn2, e2⟩ := hnode u' n' hu'
    have e : ({ n with lvl := f n.lvl } : Nd) = { n2 with lvl := f n2.lvl } := e1.symm.trans e2
    have hl : n.lvl = n2.lvl :=
      h.inj (Or.inr ⟨u, n, hn, rfl⟩) (Or.inr ⟨u', n2, hn2, rfl⟩) (by injection e)
    have hlo : n.lo = n2.lo := by injection e
    have hhi : n.hi = n2.hi := by injection e
    have : n = n2 := by cases n; cases n2; simp_all
    subst this
    exact hw.unique _ _ _ hn hn2

/-- KEY LEMMA: relabeling the levels by a map that is strictly increasing on the levels in use
(terminal level included) keeps the function of every reference, up to the corresponding
re-indexing of the assignment -/
theorem den_relabel {t t' : Tbl} {f : Nat → Nat} (h : Relabel t t' f) (hw : WFU t)
    (a a' : Asg) (ha : ∀ i, i < t.nvars → t.LevelUsed i → a' (f i) = a i) :
    ∀ u, t.Mem u → den t' u a' = den t u a := by
  have hW := hw.toWF
  have hW' := (WFU_relabel h hw).toWF
  have key : ∀ k u, t.Mem u → t.nvars ≤ k + t.levelOf u → den t' u a' = den t u a := by
    intro k
    induction k with
    | zero =>
      intro u hm hk
      by_cases h1 : u.natAbs = 1
      · rcases abs_one h1 with e | e <;> subst e <;> simp [den, denF]
      · rcases hm with hm | hm
        · exact absurd hm h1
        · obtain ⟨n, hn⟩ := Option.isSome_iff_exists.mp hm
          have hl : t.levelOf u = n.lvl := by simp [Tbl.levelOf, h1, hn]
          have := hW.lvl_lt _ _ hn
          omega
    | succ k ih =>
      intro u hm hk
      by_cases h1 : u.natAbs = 1
      · rcases abs_one h1 with e | e <;> subst e <;> simp [den, denF]
      · rcases hm with hm | hm
        · exact absurd hm h1
        · obtain ⟨n, hn⟩ := Option.isSome_iff_exists.mp hm
          have hl : t.levelOf u = n.lvl := by simp [Tbl.levelOf, h1, hn]
          have hn' : t'.node? u.natAbs = some { n with lvl := f n.lvl } := by
            rw [h.node, hn]; rfl
          rw [den_node t hW u n a h1 hn, den_node t' hW' u _ a' h1 hn']
          have hlt := hW.lvl_lt _ _ hn
          have h2 := hW.hi_lt _ _ hn
          have h3 := hW.lo_lt _ _ hn
          show (decide (u < 0) ^^ (if a' (f n.lvl) then den t' n.hi a' else den t' n.lo a')) = _
          rw [ha n.lvl hlt (Or.inr ⟨_, n, hn, rfl⟩),
            ih n.hi (hW.hi_mem _ _ hn) (by omega), ih n.lo (hW.lo_mem _ _ hn) (by omega)]
  intro u hm
  exact key t.nvars u hm (by omega)

/-! ### compaction: the number of kept levels below a level -/

/-- number of levels below `i` that satisfy `p` -/
def rank (p : Nat → Bool) (i : Nat) : Nat := ((List.range i).filter p).length

theorem rank_succ (p : Nat → Bool) (i : Nat) : rank p (i + 1) = rank p i + (if p i then 1 else 0) := by
  unfold rank
  rw [List.range_succ, List.filter_append]
  by_cases h : p i <;> simp [h]

theorem rank_mono (p : Nat → Bool) {i j : Nat} (h : i ≤ j) : rank p i ≤ rank p j := by
  induction h with
  | refl => exact Nat.le_refl _
  | step _ ih => rw [rank_succ]; omega

/-- `rank` is strictly increasing on the kept levels -/
theorem rank_lt (p : Nat → Bool) {i j : Nat} (hi : p i = true) (h : i < j) : rank p i < rank p j := by
  have h1 : rank p (i + 1) = rank p i + 1 := by rw [rank_succ]; simp [hi]
  have h2 := rank_mono p (show i + 1 ≤ j from h)
  omega

theorem rank_lt_iff (p : Nat → Bool) {i j : Nat} (hi : p i = true) (hj : p j = true) :
    i < j ↔ rank p i < rank p j := by
  constructor
  · exact rank_lt p hi
  · intro h
    rcases Nat.lt_trichotomy i j with c | c | c
    · exact c
    · subst c; omega
    · have := rank_lt p hj c; omega

/-- every number below `rank p n` is the rank of a kept level below `n` -/
theorem rank_surj (p : Nat → Bool) (n j : Nat) (h : j < rank p n) :
    ∃ i, i < n ∧ p i = true ∧ rank p i = j := by
  induction n with
  | zero => simp [rank] at h
  | succ n ih =>
    rw [rank_succ] at h
    by_cases hp : p n = true
    · by_cases hj : j < rank p n
      · obtain ⟨i, hi, h1, h2⟩ := ih hj
        exact ⟨i, by omega, h1, h2⟩
      · simp only [hp, if_true] at h
        exact ⟨n, by omega, hp, by omega⟩
    · simp only [hp] at h
      obtain ⟨i, hi, h1, h2⟩ := ih (by simpa using h)
      exact ⟨i, by omega, h1, h2⟩

/-! ### inverting a map by a fold of inserts (`{v: k for k, v in d.items()}`) -/

theorem getElem?_foldl_insert_inv_list {κ β γ : Type} [Ord γ] [TransOrd γ] [LawfulEqOrd γ]
    (g : κ × β → γ) (l : List (κ × β)) (c : γ) (k : κ) :
    ∀ (init : TreeMap γ κ), l.Pairwise (fun p q => g p ≠ g q) →
    ((l.foldl (fun acc p => acc.insert (g p) p.1) init)[c]? = some k ↔
      (∃ p ∈ l, g p = c ∧ p.1 = k) ∨ ((∀ p ∈ l, g p ≠ c) ∧ init[c]? = some k)) := by
  induction l with
  | nil => intro init _; simp
  | cons p l ih =>
    intro init hp
    rw [List.pairwise_cons] at hp
    rw [List.foldl_cons, ih _ hp.2, TreeMap.getElem?_insert]
    by_cases hc : g p = c
    · subst hc
      simp only [compare_self, if_true]
      constructor
      · rintro (⟨q, hq, h1, h2⟩ | ⟨_, h2⟩)
        · exact absurd h1.symm (hp.1 q hq)
        · exact Or.inl ⟨p, List.mem_cons_self, rfl, by cases h2; rfl⟩
      · rintro (⟨q, hq, h1, h2⟩ | ⟨h1, _⟩)
        · rcases List.mem_cons.mp hq with e | e
          · subst e; exact Or.inr ⟨fun q hq => (hp.1 q hq).symm, by rw [h2]⟩
          · exact absurd h1.symm (hp.1 q e)
        · exact absurd rfl (h1 p List.mem_cons_self)
    · have hcmp : compare (g p) c ≠ .eq := fun he => hc (LawfulEqOrd.eq_of_compare he)
      simp only [hcmp, if_false]
      constructor
      · rintro (⟨q, hq, h1, h2⟩ | ⟨h1, h2⟩)
        · exact Or.inl ⟨q, List.mem_cons_of_mem _ hq, h1, h2⟩
        · refine Or.inr ⟨fun q hq => ?_, h2⟩
          rcases List.mem_cons.mp hq with e | e
          · subst e; exact hc
          · exact h1 q e
      · rintro (⟨q, hq, h1, h2⟩ | ⟨h1, h2⟩)
        · rcases List.mem_cons.mp hq with e | e
          · subst e; exact absurd h1 hc
          · exact Or.inl ⟨q, e, h1, h2⟩
        · exact Or.inr ⟨fun q hq => h1 q (List.mem_cons_of_mem _ hq), h2⟩

/-- the map `{g k v ↦ k}` built by a fold of inserts over a map with pairwise distinct `g k v`
is the inverse relation -/
theorem getElem?_foldl_insert_inv {κ β γ : Type} [Ord κ] [TransOrd κ] [LawfulEqOrd κ]
    [Ord γ] [TransOrd γ] [LawfulEqOrd γ]
    (t : TreeMap κ β) (g : κ → β → γ)
    (hinj : ∀ (k k' : κ) (v v' : β), t[k]? = some v → t[k']? = some v' → g k v = g k' v' → k = k')
    (c : γ) (k : κ) :
    (t.foldl (fun acc k v => acc.insert (g k v) k) (∅ : TreeMap γ κ))[c]? = some k ↔
      ∃ v, t[k]? = some v ∧ g k v = c := by
  rw [TreeMap.foldl_eq_foldl_toList]
  have hpw : t.toList.Pairwise (fun p q => (fun p : κ × β => g p.1 p.2) p ≠ (fun p : κ × β => g p.1 p.2) q) := by
    refine (TreeMap.distinct_keys_toList (t := t)).imp_of_mem ?_
    intro p q hp hq hne he
    have h1 : t[p.1]? = some p.2 := TreeMap.mem_toList_iff_getElem?_eq_some.mp hp
    have h2 : t[q.1]? = some q.2 := TreeMap.mem_toList_iff_getElem?_eq_some.mp hq
    have := hinj _ _ _ _ h1 h2 he
    exact hne (by rw [this]; exact compare_self)
  rw [getElem?_foldl_insert_inv_list (fun p : κ × β => g p.1 p.2) t.toList c k ∅ hpw]
  constructor
  · rintro (⟨p, hp, h1, h2⟩ | ⟨_, h2⟩)
    · subst h2
      exact ⟨p.2, TreeMap.mem_toList_iff_getElem?_eq_some.mp hp, h1⟩
    · simp at h2
  · rintro ⟨v, h1, h2⟩
    exact Or.inl ⟨(k, v), TreeMap.mem_toList_iff_getElem?_eq_some.mpr h1, h2, rfl⟩

/-! ### the size of a map that is a bijection onto `0..k-1` -/

theorem TreeMap_size_eq_of_bij {κ : Type} [Ord κ] [TransOrd κ] [LawfulEqOrd κ]
    (t : TreeMap κ Nat) (k : Nat)
    (hlt : ∀ (v : κ) (i : Nat), t[v]? = some i → i < k)
    (hinj : ∀ (v w : κ) (i : Nat), t[v]? = some i → t[w]? = some i → v = w)
    (hsurj : ∀ i, i < k → ∃ v : κ, t[v]? = some i) : t.size = k := by
  have hnd : (t.toList.map Prod.snd).Nodup := by
    rw [List.Nodup, List.pairwise_map]
    refine (TreeMap.distinct_keys_toList (t := t)).imp_of_mem ?_
    intro p q hp hq hne he
    have h1 : t[p.1]? = some p.2 := TreeMap.mem_toList_iff_getElem?_eq_some.mp hp
    have h2 : t[q.1]? = some q.2 := TreeMap.mem_toList_iff_getElem?_eq_some.mp hq
    rw [← he] at h2
    have := hinj _ _ _ h1 h2
    exact hne (by rw [this]; exact compare_self)
  have hperm : (t.toList.map Prod.snd).Perm (List.range k) := by
    rw [List.perm_ext_iff_of_nodup hnd List.nodup_range]
    intro i
    rw [List.mem_range, List.mem_map]
    constructor
    · rintro ⟨p, hp, rfl⟩
      exact hlt p.1 p.2 (TreeMap.mem_toList_iff_getElem?_eq_some.mp hp)
    · intro hi
      obtain ⟨v, hv⟩ := hsurj i hi
      exact ⟨(v, i), TreeMap.mem_toList_iff_getElem?_eq_some.mpr hv, rfl⟩
  have := hperm.length_eq
  rw [List.length_map, TreeMap.length_toList, List.length_range] at this
  exact this

/-! ### the level sets computed by `undeclare_vars` -/

theorem mem_foldl_dedup {α : Type} (c : α → Bool) (g : α → Nat) (l : List α) (x : Nat) :
    ∀ init : List Nat,
    (x ∈ l.foldl (fun acc p => if c p || acc.contains (g p) then acc else g p :: acc) init ↔
      x ∈ init ∨ ∃ p ∈ l, c p = false ∧ g p = x) := by
  induction l with
  | nil => intro init; simp
  | cons p l ih =>
    intro init
    rw [List.foldl_cons, ih]
    by_cases h1 : c p = true
    · simp only [h1, Bool.true_or, if_true]
      constructor
      · rintro (h | ⟨q, hq, h2, h3⟩)
        · exact Or.inl h
        · exact Or.inr ⟨q, List.mem_cons_of_mem _ hq, h2, h3⟩
      · rintro (h | ⟨q, hq, h2, h3⟩)
        · exact Or.inl h
        · rcases List.mem_cons.mp hq with e | e
          · subst e; rw [h1] at h2; cases h2
          · exact Or.inr ⟨q, e, h2, h3⟩
    · have h1' : c p = false := by simpa using h1
      simp only [h1', Bool.false_or]
      by_cases h2 : init.contains (g p) = true
      · simp only [h2, if_true]
        constructor
        · rintro (h | ⟨q, hq, h3, h4⟩)
          · exact Or.inl h
          · exact Or.inr ⟨q, List.mem_cons_of_mem _ hq, h3, h4⟩
        · rintro (h | ⟨q, hq, h3, h4⟩)
          · exact Or.inl h
          · rcases List.mem_cons.mp hq with e | e
            · subst e; subst h4; exact Or.inl (by simpa using h2)
            · exact Or.inr ⟨q, e, h3, h4⟩
      · simp only [h2]
        constructor
        · rintro (h | ⟨q, hq, h3, h4⟩)
          · rcases List.mem_cons.mp h with e | e
            · exact Or.inr ⟨p, List.mem_cons_self, h1', e.symm⟩
            · exact Or.inl e
          · exact Or.inr ⟨q, List.mem_cons_of_mem _ hq, h3, h4⟩
        · rintro (h | ⟨q, hq, h3, h4⟩)
          · exact Or.inl (List.mem_cons_of_mem _ h)
          · rcases List.mem_cons.mp hq with e | e
            · subst e; subst h4; exact Or.inl List.mem_cons_self
            · exact Or.inr ⟨q, e, h3, h4⟩

/-- `full_levels` before the `|=`: exactly the levels in use -/
theorem mem_undeclNodeLevels (t : Tbl) (l : Nat) : l ∈ undeclNodeLevels t ↔ t.LevelUsed l := by
  unfold undeclNodeLevels Tbl.LevelUsed
  rw [TreeMap.foldl_eq_foldl_toList]
  have := mem_foldl_dedup (fun _ : Nat × Nd => false) (fun p => p.2.lvl) t.succ.toList l [t.nvars]
  simp only [Bool.false_or] at this
  rw [this]
  simp only [List.mem_singleton, true_and]
  constructor
  · rintro (h | ⟨p, hp, h2⟩)
    · exact Or.inl h
    · exact Or.inr ⟨p.1, p.2, TreeMap.mem_toList_iff_getElem?_eq_some.mp hp, h2⟩
  · rintro (h | ⟨u, n, hn, h2⟩)
    · exact Or.inl h
    · exact Or.inr ⟨(u, n), TreeMap.mem_toList_iff_getElem?_eq_some.mpr hn, h2⟩

/-- the kept levels: the levels in use and, when names were given, the levels of the variables
that were not named -/
theorem mem_undeclFull (t : Tbl) (vrs : List String) (l : Nat) :
    l ∈ undeclFull t vrs ↔
      t.LevelUsed l ∨ (vrs ≠ [] ∧ ∃ v : String, v ∉ vrs ∧ t.vars[v]? = some l) := by
  unfold undeclFull
  by_cases he : vrs = []
  · subst he
    simp [mem_undeclNodeLevels]
  · have : vrs.isEmpty = false := by cases vrs <;> simp_all
    simp only [this, Bool.false_eq_true, if_false]
    rw [TreeMap.foldl_eq_foldl_toList,
      mem_foldl_dedup (fun p : String × Nat => vrs.contains p.1) (fun p => p.2), mem_undeclNodeLevels]
    constructor
    · rintro (h | ⟨p, hp, h2, h3⟩)
      · exact Or.inl h
      · refine Or.inr ⟨he, p.1, by simpa using h2, ?_⟩
        rw [← h3]; exact TreeMap.mem_toList_iff_getElem?_eq_some.mp hp
    · rintro (h | ⟨_, v, h2, h3⟩)
      · exact Or.inl h
      · exact Or.inr ⟨(v, l), TreeMap.mem_toList_iff_getElem?_eq_some.mpr h3, by simpa using h2, rfl⟩

theorem undeclNewLevel?_eq (full : List Nat) (n i : Nat) :
    undeclNewLevel? full n i =
      if i < n ∧ i ∈ full then some (rank (fun j => full.contains j) i) else none := by
  unfold undeclNewLevel? rank
  by_cases h1 : i < n <;> by_cases h2 : i ∈ full <;> simp [h1, h2]

/-! ### the state after a successful `undeclare_vars` -/

section State
variable (m : Mgr) (full : List Nat)

/-- the relabeling of levels: `i ↦` number of kept levels below `i` -/
abbrev undeclMap (full : List Nat) : Nat → Nat := rank (fun j => full.contains j)

theorem undeclMap_lt {full : List Nat} {i j : Nat} (hi : i ∈ full) (h : i < j) :
    undeclMap full i < undeclMap full j :=
  rank_lt _ (by simpa using hi) h

theorem undeclMap_lt_iff {full : List Nat} {i j : Nat} (hi : i ∈ full) (hj : j ∈ full) :
    i < j ↔ undeclMap full i < undeclMap full j :=
  rank_lt_iff _ (by simpa using hi) (by simpa using hj)

theorem undeclMap_inj {full : List Nat} {i j : Nat} (hi : i ∈ full) (hj : j ∈ full)
    (h : undeclMap full i = undeclMap full j) : i = j := by
  rcases Nat.lt_trichotomy i j with c | c | c
  · have := undeclMap_lt hi c; omega
  · exact c
  · have := undeclMap_lt hj c; omega

/-- the new `vars`: the variables at kept levels, at the compacted level -/
theorem undeclState_vars (hO : OrderOK m.tbl) (v : String) (j : Nat) :
    (undeclState m full).tbl.vars[v]? = some j ↔
      ∃ l, m.tbl.vars[v]? = some l ∧ l ∈ full ∧ j = undeclMap full l := by
  show (m.tbl.vars.filterMap fun _ old => undeclNewLevel? full (1 + m.nvars) old)[v]? = some j ↔ _
  rw [TreeMap.getElem?_filterMap']
  cases hv : m.tbl.vars[v]? with
  | none => simp
  | some l =>
    have hl : l < 1 + m.nvars := by have := hO.lt v l hv; show l < 1 + m.tbl.nvars; omega
    simp only [Option.bind_some, undeclNewLevel?_eq, hl, true_and]
    by_cases hf : l ∈ full
    · simp only [hf, if_true]
      constructor
      · intro h; cases h; exact ⟨l, rfl, hf, rfl⟩
      · rintro ⟨l', h1, _, h3⟩; cases h1; rw [h3]
    · simp only [hf, if_false]
      constructor
      · intro h; cases h
      · rintro ⟨l', h1, h2, _⟩; cases h1; exact absurd h2 hf

theorem undeclState_vars_inj (hO : OrderOK m.tbl) (v w : String) (j : Nat)
    (hv : (undeclState m full).tbl.vars[v]? = some j)
    (hw : (undeclState m full).tbl.vars[w]? = some j) : v = w := by
  obtain ⟨l, h1, h2, h3⟩ := (undeclState_vars m full hO v j).mp hv
  obtain ⟨l', h1', h2', h3'⟩ := (undeclState_vars m full hO w j).mp hw
  have : l = l' := undeclMap_inj h2 h2' (h3.symm.trans h3')
  subst this
  have a := (hO.inv v l).mp h1
  have b := (hO.inv w l).mp h1'
  rw [a] at b; cases b; rfl

/-- the new `_level_to_var` is the inverse of the new `vars` -/
theorem undeclState_l2v (hO : OrderOK m.tbl) (v : String) (j : Nat) :
    (undeclState m full).tbl.l2v[j]? = some v ↔ (undeclState m full).tbl.vars[v]? = some j := by
  show ((undeclState m full).tbl.vars.foldl (fun acc var k => acc.insert k var) (∅ : TreeMap Nat String))[j]? = some v ↔ _
  rw [getElem?_foldl_insert_inv (undeclState m full).tbl.vars (fun _ k => k)
    (fun k k' i i' h1 h2 he => undeclState_vars_inj m full hO k k' i h1 (he ▸ h2)) j v]
  constructor
  · rintro ⟨i, h1, rfl⟩; exact h1
  · intro h; exact ⟨j, h, rfl⟩

/-- the number of variables left: the number of kept levels below the terminal's -/
theorem undeclState_nvars (hO : OrderOK m.tbl) :
    (undeclState m full).tbl.nvars = undeclMap full m.tbl.nvars := by
  apply TreeMap_size_eq_of_bij
  · intro v j hv
    obtain ⟨l, h1, h2, h3⟩ := (undeclState_vars m full hO v j).mp hv
    rw [h3]; exact undeclMap_lt h2 (hO.lt v l h1)
  · exact undeclState_vars_inj m full hO
  · intro j hj
    obtain ⟨l, hl, hp, hr⟩ := rank_surj _ _ _ hj
    obtain ⟨v, hv⟩ := hO.total l hl
    exact ⟨v, (undeclState_vars m full hO v j).mpr ⟨l, (hO.inv v l).mpr hv, by simpa using hp, hr.symm⟩⟩

theorem undeclState_order (hO : OrderOK m.tbl) : OrderOK (undeclState m full).tbl := by
  refine ⟨fun v i => (undeclState_l2v m full hO v i).symm, ?_, ?_⟩
  · intro v j hv
    obtain ⟨l, h1, h2, h3⟩ := (undeclState_vars m full hO v j).mp hv
    rw [undeclState_nvars m full hO, h3]; exact undeclMap_lt h2 (hO.lt v l h1)
  · intro j hj
    rw [undeclState_nvars m full hO] at hj
    obtain ⟨l, hl, hp, hr⟩ := rank_surj _ _ _ hj
    obtain ⟨v, hv⟩ := hO.total l hl
    exact ⟨v, (undeclState_l2v m full hO v j).mpr
      ((undeclState_vars m full hO v j).mpr ⟨l, (hO.inv v l).mpr hv, by simpa using hp, hr.symm⟩)⟩

/-- the new table is the old one with the levels relabeled by the compaction map -/
theorem undeclState_relabel (hW : WF m.tbl) (hO : OrderOK m.tbl)
    (hfull : ∀ l, m.tbl.LevelUsed l → l ∈ full) :
    Relabel m.tbl (undeclState m full).tbl (undeclMap full) := by
  refine ⟨?_, undeclState_nvars m full hO, fun i j hi _ h => undeclMap_lt (hfull i hi) h⟩
  intro u
  show (m.tbl.succ.map fun _ nd => { nd with lvl := (undeclNewLevel? full (1 + m.nvars) nd.lvl).getD 0 })[u]? = _
  rw [TreeMap.getElem?_map]
  show Option.map _ (m.tbl.node? u) = _
  cases hn : m.tbl.node? u with
  | none => rfl
  | some n =>
    have h1 : n.lvl < 1 + m.nvars := by have := hW.lvl_lt u n hn; show n.lvl < 1 + m.tbl.nvars; omega
    have h2 : n.lvl ∈ full := hfull _ (Or.inr ⟨u, n, hn, rfl⟩)
    simp only [undeclNewLevel?_eq, h1, h2, and_self, if_true, Option.getD_some, Option.map_some]

theorem undeclState_inv (hI : Inv m) (hO : OrderOK m.tbl)
    (hfull : ∀ l, m.tbl.LevelUsed l → l ∈ full) : Inv (undeclState m full) := by
  have hR := undeclState_relabel m full hI.wf.toWF hO hfull
  have hwf := WFU_relabel hR hI.wf
  refine ⟨hwf, ?_, hI.freeGe, ?_, hI.refOne, ?_, ?_⟩
  · intro n u
    show ((undeclState m full).tbl.succ.foldl (fun acc u nd => acc.insert nd.key u) (∅ : TreeMap (List Int) Nat))[n.key]? = some u ↔ _
    rw [getElem?_foldl_insert_inv (undeclState m full).tbl.succ (fun _ nd => nd.key)
      (fun k k' v v' h1 h2 he => by
        have := Nd.key_inj he
        subst this
        exact hwf.unique k k' v h1 h2) n.key u]
    constructor
    · rintro ⟨v, h1, h2⟩
      rw [← Nd.key_inj h2]; exact h1
    · intro h; exact ⟨n, h, rfl⟩
  · show (undeclState m full).tbl.node? m.minFree = none
    rw [hR.node, hI.free]; rfl
  · intro u n hn
    rw [hR.node] at hn
    cases hh : m.tbl.node? u with
    | none => rw [hh] at hn; cases hn
    | some n0 => exact hI.refDom u n0 hh
  · intro g u v w hc
    have : (∅ : TreeMap (List Int) Int)[iteKey g u v]? = some w := hc
    simp at this

/-- every reference keeps its function BY NAME -/
theorem undeclState_denN (hI : Inv m) (hO : OrderOK m.tbl)
    (hfull : ∀ l, m.tbl.LevelUsed l → l ∈ full) (u : Int) (hu : m.tbl.Mem u) :
    (undeclState m full).tbl.Mem u ∧
      ∀ σ, denN (undeclState m full).tbl u σ = denN m.tbl u σ := by
  have hR := undeclState_relabel m full hI.wf.toWF hO hfull
  refine ⟨(hR.mem u).mpr hu, fun σ => ?_⟩
  unfold denN
  refine den_relabel hR hI.wf _ _ ?_ u hu
  intro i hi hused
  unfold Tbl.lift Tbl.nameOf
  obtain ⟨v, hv⟩ := hO.total i hi
  have h1 : (undeclState m full).tbl.l2v[undeclMap full i]? = some v :=
    (undeclState_l2v m full hO v _).mpr
      ((undeclState_vars m full hO v _).mpr ⟨i, (hO.inv v i).mpr hv, hfull i hused, rfl⟩)
  rw [h1, hv]

end State

/-! ### `undeclare_vars` -/

/-- a node sits at level `l` -/
def Tbl.LevelHasNode (t : Tbl) (l : Nat) : Prop := ∃ u n, t.node? u = some n ∧ n.lvl = l

/-- the names `undeclare_vars(*vrs)` returns -/
def undeclRemoved (t : Tbl) (vrs : List String) : List String :=
  (t.vars.toList.filter fun p => !(undeclFull t vrs).contains p.2).map (·.1)

/-- REFUSALS: a name that is not declared, or a variable whose level carries a node, makes
`undeclare_vars` raise `ValueError`; the state is unchanged -/
theorem undeclare_refuses (m : Mgr) (vrs : List String)
    (h : ∃ v ∈ vrs, m.tbl.vars[v]? = none ∨
      ∃ l, m.tbl.vars[v]? = some l ∧ m.tbl.LevelHasNode l) :
    undeclareVars vrs m = (.error .value, m) := by
  unfold undeclareVars
  by_cases h1 : (vrs.any fun v => !m.tbl.vars.contains v) = true
  · simp only [h1, if_true]
  · simp only [h1, Bool.false_eq_true, if_false]
    rw [if_pos]
    obtain ⟨v, hv, hc⟩ := h
    rw [List.any_eq_true]
    refine ⟨v, hv, ?_⟩
    rcases hc with hc | ⟨l, hl, u, n, hn, hnl⟩
    · simp only [hc]
    · simp only [hl]
      rw [List.contains_iff_mem]
      exact (mem_undeclNodeLevels m.tbl l).mpr (Or.inr ⟨u, n, hn, hnl⟩)

/-- SUCCESS: with every named variable declared and at a level without nodes, the call returns
`undeclRemoved` and leaves the state `undeclState` -/
theorem undeclare_ok (m : Mgr) (hW : WF m.tbl) (hO : OrderOK m.tbl) (vrs : List String)
    (hvrs : ∀ v ∈ vrs, ∃ l, m.tbl.vars[v]? = some l ∧ ¬ m.tbl.LevelHasNode l) :
    undeclareVars vrs m =
      (.ok (undeclRemoved m.tbl vrs), undeclState m (undeclFull m.tbl vrs)) := by
  unfold undeclareVars
  have h1 : (vrs.any fun v => !m.tbl.vars.contains v) = false := by
    rw [List.any_eq_false]
    intro v hv
    obtain ⟨l, hl, _⟩ := hvrs v hv
    rw [TreeMap.contains_eq_isSome_getElem?, hl]; simp
  have h2 : ∀ v ∈ vrs, ∀ l, m.tbl.vars[v]? = some l → (undeclNodeLevels m.tbl).contains l = false := by
    intro v hv l' hl'
    obtain ⟨l, hl, hno⟩ := hvrs v hv
    have e : l = l' := by rw [hl] at hl'; exact Option.some.inj hl'
    rw [← e, ← Bool.not_eq_true, List.contains_iff_mem, mem_undeclNodeLevels]
    rintro (h | h)
    · have := hO.lt v l hl; omega
    · exact hno h
  have h3 : (m.tbl.succ.toList.any fun p =>
      (undeclNewLevel? (undeclFull m.tbl vrs) (1 + m.nvars) p.2.lvl).isNone) = false := by
    rw [List.any_eq_false]
    intro p hp
    have hn : m.tbl.node? p.1 = some p.2 := TreeMap.mem_toList_iff_getElem?_eq_some.mp hp
    have a : p.2.lvl < 1 + m.nvars := by
      have := hW.lvl_lt _ _ hn; show p.2.lvl < 1 + m.tbl.nvars; omega
    have b : p.2.lvl ∈ undeclFull m.tbl vrs :=
      (mem_undeclFull _ _ _).mpr (Or.inl (Or.inr ⟨p.1, p.2, hn, rfl⟩))
    simp [undeclNewLevel?_eq, a, b]
  simp only [h1, h3, Bool.false_eq_true, if_false]
  rw [if_neg]
  · rfl
  · rw [Bool.not_eq_true, List.any_eq_false]
    intro v hv
    obtain ⟨l, hl, _⟩ := hvrs v hv
    simp only [hl]
    rw [h2 v hv l hl]; simp

theorem mem_undeclRemoved (t : Tbl) (vrs : List String) (v : String) :
    v ∈ undeclRemoved t vrs ↔ ∃ l, t.vars[v]? = some l ∧ l ∉ undeclFull t vrs := by
  unfold undeclRemoved
  rw [List.mem_map]
  constructor
  · rintro ⟨p, hp, rfl⟩
    rw [List.mem_filter] at hp
    exact ⟨p.2, TreeMap.mem_toList_iff_getElem?_eq_some.mp hp.1, by simpa using hp.2⟩
  · rintro ⟨l, h1, h2⟩
    exact ⟨(v, l), List.mem_filter.mpr ⟨TreeMap.mem_toList_iff_getElem?_eq_some.mpr h1, by simpa using h2⟩, rfl⟩

theorem undeclRemoved_nodup (t : Tbl) (vrs : List String) : (undeclRemoved t vrs).Nodup := by
  unfold undeclRemoved
  rw [List.Nodup, List.pairwise_map]
  refine List.Pairwise.filter _ ?_
  refine (TreeMap.distinct_keys_toList (t := t.vars)).imp ?_
  intro p q hne he
  exact hne (by rw [he]; exact compare_self)

/-- the removed names: exactly the named ones, or (no name given) exactly the variables whose
level carries no node -/
theorem undeclRemoved_spec (t : Tbl) (hO : OrderOK t) (vrs : List String)
    (hvrs : ∀ v ∈ vrs, ∃ l, t.vars[v]? = some l ∧ ¬ t.LevelHasNode l) (v : String) :
    v ∈ undeclRemoved t vrs ↔
      if vrs = [] then (∃ l, t.vars[v]? = some l ∧ ¬ t.LevelHasNode l) else v ∈ vrs := by
  rw [mem_undeclRemoved]
  have hused : ∀ l, t.vars[v]? = some l → (t.LevelUsed l ↔ t.LevelHasNode l) := by
    intro l hl
    constructor
    · rintro (h | h)
      · have := hO.lt v l hl; omega
      · exact h
    · exact Or.inr
  by_cases he : vrs = []
  · simp only [he, if_true]
    constructor
    · rintro ⟨l, h1, h2⟩
      refine ⟨l, h1, fun hn => h2 ?_⟩
      exact (mem_undeclFull _ _ _).mpr (Or.inl ((hused l h1).mpr hn))
    · rintro ⟨l, h1, h2⟩
      refine ⟨l, h1, fun hm => ?_⟩
      rcases (mem_undeclFull _ _ _).mp hm with h | ⟨h, _⟩
      · exact h2 ((hused l h1).mp h)
      · exact h rfl
  · simp only [he, if_false]
    constructor
    · rintro ⟨l, h1, h2⟩
      by_cases hv : v ∈ vrs
      · exact hv
      · exact absurd ((mem_undeclFull _ _ _).mpr (Or.inr ⟨he, v, hv, h1⟩)) h2
    · intro hv
      obtain ⟨l, h1, h2⟩ := hvrs v hv
      refine ⟨l, h1, fun hm => ?_⟩
      rcases (mem_undeclFull _ _ _).mp hm with h | ⟨_, w, hw, hwl⟩
      · exact h2 ((hused l h1).mp h)
      · have a := (hO.inv v l).mp h1
        have b := (hO.inv w l).mp hwl
        rw [a] at b; cases b; exact hw hv

/-- SPECIFICATION of a successful `undeclare_vars(*vrs)` -/
theorem undeclare_spec (m : Mgr) (hI : Inv m) (hO : OrderOK m.tbl) (vrs : List String)
    (hvrs : ∀ v ∈ vrs, ∃ l, m.tbl.vars[v]? = some l ∧ ¬ m.tbl.LevelHasNode l) :
    ∃ (rm : List String) (m' : Mgr) (f : Nat → Nat),
      undeclareVars vrs m = (.ok rm, m') ∧
      -- the removed names
      (∀ v, v ∈ rm ↔
        if vrs = [] then (∃ l, m.tbl.vars[v]? = some l ∧ ¬ m.tbl.LevelHasNode l) else v ∈ vrs) ∧
      (∀ v ∈ rm, m.tbl.vars.contains v = true) ∧ rm.Nodup ∧
      -- the other variables are kept, at the compacted level `f l`
      (∀ (v : String) (j : Nat), m'.tbl.vars[v]? = some j ↔
        ∃ l, m.tbl.vars[v]? = some l ∧ v ∉ rm ∧ j = f l) ∧
      OrderOK m'.tbl ∧
      -- relative order kept
      (∀ (v w : String) (i j i' j' : Nat), m.tbl.vars[v]? = some i → m.tbl.vars[w]? = some j →
        m'.tbl.vars[v]? = some i' → m'.tbl.vars[w]? = some j' → (i < j ↔ i' < j')) ∧
      Inv m' ∧
      -- same node numbers, same children, levels relabeled by a map increasing on the used levels
      Relabel m.tbl m'.tbl f ∧
      -- every reference keeps its function by name
      (∀ u, m.tbl.Mem u → m'.tbl.Mem u ∧ ∀ σ, denN m'.tbl u σ = denN m.tbl u σ) ∧
      m'.ref = m.ref ∧ m'.minFree = m.minFree ∧ m'.cache.isEmpty = true ∧ m'.roots = m.roots := by
  have hfull : ∀ l, m.tbl.LevelUsed l → l ∈ undeclFull m.tbl vrs :=
    fun l h => (mem_undeclFull _ _ _).mpr (Or.inl h)
  have hvars := undeclState_vars m (undeclFull m.tbl vrs) hO
  refine ⟨_, _, undeclMap (undeclFull m.tbl vrs), undeclare_ok m hI.wf.toWF hO vrs hvrs,
    undeclRemoved_spec m.tbl hO vrs hvrs, ?_, undeclRemoved_nodup _ _, ?_, undeclState_order m _ hO, ?_,
    undeclState_inv m _ hI hO hfull, undeclState_relabel m _ hI.wf.toWF hO hfull,
    undeclState_denN m _ hI hO hfull, rfl, rfl, ?_, rfl⟩
  · intro v hv
    obtain ⟨l, hl, _⟩ := (mem_undeclRemoved _ _ _).mp hv
    rw [TreeMap.contains_eq_isSome_getElem?, hl]; rfl
  · intro v j
    rw [hvars, mem_undeclRemoved]
    constructor
    · rintro ⟨l, h1, h2, h3⟩
      exact ⟨l, h1, fun ⟨l', h4, h5⟩ => by rw [h1] at h4; cases h4; exact h5 h2, h3⟩
    · rintro ⟨l, h1, h2, h3⟩
      refine ⟨l, h1, ?_, h3⟩
      by_cases hm : l ∈ undeclFull m.tbl vrs
      · exact hm
      · exact absurd ⟨l, h1, hm⟩ h2
  · intro v w i j i' j' hv hw hv' hw'
    obtain ⟨l, h1, h2, h3⟩ := (hvars v i').mp hv'
    obtain ⟨l', h1', h2', h3'⟩ := (hvars w j').mp hw'
    rw [hv] at h1; cases h1
    rw [hw] at h1'; cases h1'
    rw [h3, h3']
    exact undeclMap_lt_iff h2 h2'
  · show (∅ : TreeMap (List Int) Int).isEmpty = true
    exact TreeMap.isEmpty_emptyc

/-- every call either is refused (ValueError, state unchanged) or succeeds as specified -/
theorem undeclare_cases (m : Mgr) (vrs : List String) :
    (∃ v ∈ vrs, m.tbl.vars[v]? = none ∨ ∃ l, m.tbl.vars[v]? = some l ∧ m.tbl.LevelHasNode l) ∨
    (∀ v ∈ vrs, ∃ l, m.tbl.vars[v]? = some l ∧ ¬ m.tbl.LevelHasNode l) := by
  by_cases h : ∃ v ∈ vrs, m.tbl.vars[v]? = none ∨ ∃ l, m.tbl.vars[v]? = some l ∧ m.tbl.LevelHasNode l
  · exact Or.inl h
  · refine Or.inr fun v hv => ?_
    cases hl : m.tbl.vars[v]? with
    | none => exact absurd ⟨v, hv, Or.inl hl⟩ h
    | some l => exact ⟨l, rfl, fun hn => h ⟨v, hv, Or.inr ⟨l, hl, hn⟩⟩⟩

end DD
