/-
  DDProofs.Reach4Image — `image` / `preimage` on ARBITRARY arguments, reordering enabled or not:
  the decorated bodies `_image_of` / `_preimage_of` (unknown nodes, undeclared names, overlapping
  or non-injective renamings, values that are no levels …) are `TotE`: whatever they return or
  raise, only nodes were added, the counts stay exact for the same ledger, and the internal
  signal comes only from an armed context.  (DDProofs.AutoImage proves `Kept` for reordering not
  enabled; this is the abort-aware form that the generic decorator theorems take.  What the
  result DENOTES is C13 / C09.)
-/
import DDProofs.DynRejectedOps
open Std

namespace DD

/-! ### read-only helpers -/

theorem topCofactorI_noSignal (t : Tbl) (u : Int) (i : Int) :
    topCofactorI t u i ≠ .error .needsReordering := by
  unfold topCofactorI
  split
  · split
    · simp
    · split <;> simp
  · exact topCofactor_noNR t u _

theorem varAtLevel_ro (i : Int) (m : Mgr) :
    (varAtLevel i m).2 = m ∧ (varAtLevel i m).1 ≠ .error .needsReordering := by
  unfold varAtLevel
  simp only [bind, M.bind', M.get]
  split
  · exact ⟨rfl, by simp [M.throw]⟩
  · unfold M.ofOption
    cases m.tbl.l2v[i.toNat]? with
    | none => exact ⟨rfl, by simp [M.throw]⟩
    | some v => exact ⟨rfl, by simp [pure, M.pure']⟩

theorem adjacentWarn_ro : ∀ (rn : List (Key × Key)) (m : Mgr),
    (adjacentWarn rn m).2 = m ∧ (adjacentWarn rn m).1 ≠ .error .needsReordering
  | [], m => ⟨rfl, by simp [adjacentWarn]⟩
  | (k, v) :: rest, m => by
    unfold adjacentWarn
    cases k with
    | name s => exact ⟨rfl, by simp⟩
    | lvl a =>
      cases v with
      | name s => exact ⟨rfl, by simp⟩
      | lvl b =>
        simp only
        split
        · exact adjacentWarn_ro rest m
        · obtain ⟨h1, n1⟩ := varAtLevel_ro a m
          generalize varAtLevel a m = r1 at h1 n1
          obtain ⟨x1, m1⟩ := r1
          simp only at h1
          subst h1
          cases x1 with
          | error e => exact ⟨rfl, by simpa using n1⟩
          | ok _ =>
            simp only
            obtain ⟨h2, n2⟩ := varAtLevel_ro b m1
            generalize varAtLevel b m1 = r2 at h2 n2
            obtain ⟨x2, m2⟩ := r2
            simp only at h2
            subst h2
            cases x2 with
            | error e => exact ⟨rfl, by simpa using n2⟩
            | ok _ => exact ⟨rfl, by simp⟩

theorem assertValidRename_ro (rn : List (Key × Key)) (m : Mgr) :
    (assertValidRename rn m).2 = m ∧ (assertValidRename rn m).1 ≠ .error .needsReordering := by
  unfold assertValidRename
  split
  · exact ⟨rfl, by simp⟩
  · obtain ⟨h1, n1⟩ := varAtLevel_ro 0 m
    generalize varAtLevel 0 m = r1 at h1 n1
    obtain ⟨x1, m1⟩ := r1
    simp only at h1
    subst h1
    cases x1 with
    | error e => exact ⟨rfl, by simpa using n1⟩
    | ok _ =>
      simp only
      split
      · exact ⟨rfl, by simp⟩
      · exact ⟨rfl, by simp⟩

theorem supportLevels_noSignal (t : Tbl) (u : Int) : supportLevels t u ≠ .error .needsReordering := by
  unfold supportLevels
  split
  · next e heq => intro h; cases h; exact supportF_noNR _ _ _ _ heq
  · simp

/-! ### the two node creations of `_image` / `_copy_bdd`, any argument -/

theorem stepK_setFire {m : Mgr} (hI : Inv m) (f : Option Nat) : StepK m { m with fireIn := f } :=
  ⟨hI.setFire f, Ext.refl _, ⟨rfl, rfl, rfl, rfl, rfl, rfl⟩, RefKeep.of_eq rfl rfl⟩

/-- `find_or_add(i, -1, 1)` for ANY integer `i` (negative: `ValueError` after the request) -/
theorem varNodeInt_totE (m : Mgr) (hI : Inv m) (i : Int) : TotE m (findOrAdd i (-1) 1 m) := by
  by_cases hneg : i < 0
  · unfold findOrAdd
    by_cases hc : m.ctx = true
    · rw [if_pos hc]
      rcases requestReordering_cases m with ⟨f, hr⟩ | ⟨f, hr, harm⟩
      · rw [hr]
        simp only [hneg, if_true]
        exact TotE.err (stepK_setFire hI f) .value (by simp)
      · rw [hr]
        exact ⟨stepK_setFire hI f, fun _ => ⟨hc, harm⟩⟩
    · rw [if_neg hc]
      simp only [hneg, if_true]
      exact TotE.same hI _ (by simp)
  · have : i = ((i.toNat : Nat) : Int) := by omega
    rw [this]
    exact varNode_totE m hI i.toNat

/-- `find_or_add(name, -1, 1)` with a `str` level: `TypeError` after the request -/
theorem findOrAddNonInt_totE_r4 (m : Mgr) (hI : Inv m) : TotE m (findOrAddNonInt m) := by
  unfold findOrAddNonInt
  by_cases hc : m.ctx = true
  · rw [if_pos hc]
    rcases requestReordering_cases m with ⟨f, hr⟩ | ⟨f, hr, harm⟩
    · rw [hr]
      exact TotE.err (stepK_setFire hI f) .type (by simp)
    · rw [hr]
      exact ⟨stepK_setFire hI f, fun _ => ⟨hc, harm⟩⟩
  · rw [if_neg hc]
    exact TotE.same hI _ (by simp)

/-! ### `_image` -/

/-- `_image(u, v, umap, vmap, qvars, …)` on ARBITRARY arguments, any memo, any fuel -/
theorem imageF_totE_r4 (umap vmap : Option (List (Int × Int))) (ubad vbad : List Int)
    (Q : List Nat) (fa : Bool) :
    ∀ (f : Nat) (u v : Int) (cache : HashMap (Int × Int) Int) (m : Mgr), Inv m → m.ctx = true →
      TotE m (imageF umap vmap ubad vbad Q fa f u v cache m) := by
  intro f
  induction f with
  | zero =>
    intro u v cache m hI _
    exact TotE.same hI _ (by simp [imageF])
  | succ f ih =>
    intro u v cache m hI hc
    have base : ∀ {β : Type} (r : Except Err β), r ≠ .error .needsReordering →
        TotE m ((r, m) : Except Err β × Mgr) := fun r hr => TotE.same hI r hr
    unfold imageF
    split
    · exact base _ (by simp)
    split
    · exact base _ (by simp)
    split
    · exact base _ (by simp)
    split
    · exact base _ (by simp)
    split
    · exact base _ (by simp)
    split
    · exact base _ (by simp)
    dsimp only
    split
    · next e heq => exact base _ (fun h => topCofactorI_noSignal _ _ _ (by rw [heq]; simpa using h))
    split
    · next e heq => exact base _ (fun h => topCofactorI_noSignal _ _ _ (by rw [heq]; simpa using h))
    next iu _ _ jv _ _ _ u0 u1 _ _ v0 v1 _ =>
    have k1 := ih u0 v0 cache m hI hc
    generalize imageF umap vmap ubad vbad Q fa f u0 v0 cache m = res1 at k1 ⊢
    obtain ⟨r1, m1⟩ := res1
    cases r1 with
    | error e => exact k1
    | ok pc =>
      obtain ⟨p, c1⟩ := pc
      simp only
      have s1 : StepK m m1 := k1.1
      have c1' : m1.ctx = true := by rw [s1.frame.ctx]; exact hc
      have k2 := ih u1 v1 c1 m1 s1.inv c1'
      generalize imageF umap vmap ubad vbad Q fa f u1 v1 c1 m1 = res2 at k2 ⊢
      obtain ⟨r2, m2⟩ := res2
      cases r2 with
      | error e => exact TotE.trans s1 k2
      | ok qc =>
        obtain ⟨q, c2⟩ := qc
        simp only
        have s12 : StepK m m2 := s1.trans k2.1
        have hI2 := k2.1.inv
        have hc2 : m2.ctx = true := by rw [k2.1.frame.ctx]; exact c1'
        -- the last step: quantify (an `ite`) or rebuild on the renamed variable
        have h3 : ∀ (z : Int), TotE m2
            (if 0 ≤ z ∧ Q.contains z.toNat = true then
              (if fa then ite p q (-1) m2 else ite p 1 q m2)
            else
              match (if ubad.contains z then findOrAddNonInt m2
                  else findOrAdd (mapLvl umap z) (-1) 1 m2) with
              | (.error e, m3) => (.error e, m3)
              | (.ok g, m3) => ite g q p m3) := by
          intro z
          split
          · split
            · exact ite_nested_totE m2 hI2 hc2 _ _ _
            · exact ite_nested_totE m2 hI2 hc2 _ _ _
          · have kk : TotE m2 (if ubad.contains z then findOrAddNonInt m2
                else findOrAdd (mapLvl umap z) (-1) 1 m2) := by
              split
              · exact findOrAddNonInt_totE_r4 m2 hI2
              · exact varNodeInt_totE m2 hI2 _
            generalize (if ubad.contains z then findOrAddNonInt m2
                else findOrAdd (mapLvl umap z) (-1) 1 m2) = rg at kk ⊢
            obtain ⟨rg1, m3⟩ := rg
            cases rg1 with
            | error e => exact kk
            | ok g =>
              simp only
              have hc3 : m3.ctx = true := by rw [kk.1.frame.ctx]; exact hc2
              exact TotE.trans kk.1 (ite_nested_totE m3 kk.1.inv hc3 _ _ _)
        have k3 := h3 (min (iu : Int) (mapLvl vmap jv))
        generalize (if 0 ≤ min (iu : Int) (mapLvl vmap jv) ∧ Q.contains (min (iu : Int) (mapLvl vmap jv)).toNat = true then
              (if fa then ite p q (-1) m2 else ite p 1 q m2)
            else
              match (if ubad.contains (min (iu : Int) (mapLvl vmap jv)) then findOrAddNonInt m2
                  else findOrAdd (mapLvl umap (min (iu : Int) (mapLvl vmap jv))) (-1) 1 m2) with
              | (.error e, m3) => (.error e, m3)
              | (.ok g, m3) => ite g q p m3) = res3 at k3 ⊢
        obtain ⟨r3, m3⟩ := res3
        cases r3 with
        | error e => exact TotE.trans s12 (k3.err_of rfl)
        | ok r => exact TotE.ok (s12.trans k3.1) _

/-- the decorated body `_image_of`: ANY arguments -/
theorem imageBody_totE_r4 (t s : Int) (rn : List (Key × Key)) (q : List Key) (fa : Bool)
    (m : Mgr) (hI : Inv m) (hc : m.ctx = true) : TotE m (imageBody t s rn q fa m) := by
  have base : ∀ (r : Except Err Int), r ≠ .error .needsReordering →
      TotE m ((r, m) : Except Err Int × Mgr) := fun r hr => TotE.same hI r hr
  unfold imageBody
  cases hq : mapToLevelE m.tbl q with
  | error e => exact base _ (fun h => mapToLevelE_noNR m.tbl q (by rw [hq]; simpa using h))
  | ok lv =>
    simp only
    split
    · exact base _ (by simp)
    obtain ⟨ha, hn⟩ := adjacentWarn_ro (resolveRename m.tbl rn) m
    generalize adjacentWarn (resolveRename m.tbl rn) m = r1 at ha hn
    obtain ⟨x1, m1⟩ := r1
    simp only at ha
    subst ha
    cases x1 with
    | error e => exact base _ (by simpa using hn)
    | ok _ =>
      simp only
      split
      · next e heq => exact base _ (fun h => supportLevels_noSignal _ _ (by rw [heq]; simpa using h))
      split
      · next e heq => exact base _ (fun h => supportLevels_noSignal _ _ (by rw [heq]; simpa using h))
      split
      · exact base _ (by simp)
      have k := imageF_totE_r4 (some (intPairs (resolveRename m1.tbl rn))) none
        (badKeys (resolveRename m1.tbl rn)) [] lv fa (2 * m1.nvars + 4) t s {} m1 hI hc
      generalize imageF (some (intPairs (resolveRename m1.tbl rn))) none
        (badKeys (resolveRename m1.tbl rn)) [] lv fa (2 * m1.nvars + 4) t s {} m1 = res at k ⊢
      obtain ⟨r, m2⟩ := res
      cases r with
      | error e => simp only; exact k.err_of rfl
      | ok rc => simp only; exact TotE.ok k.1 _

/-! ### `_preimage_of` -/

/-- `_copy_bdd` as `_preimage_of` calls it: ANY node, ANY level map, any memo -/
theorem copyBddK_totE_r4 (lm : List (Nat × Key)) :
    ∀ (fu : Nat) (u : Int) (cache : HashMap Nat Int) (m : Mgr), Inv m → m.ctx = true →
      TotE m (copyBddK lm fu u cache m) := by
  intro fu
  induction fu with
  | zero =>
    intro u cache m hI _
    exact TotE.same hI _ (by simp)
  | succ fu ih =>
    intro u cache m hI hc
    have base : ∀ {β : Type} (r : Except Err β), r ≠ .error .needsReordering →
        TotE m ((r, m) : Except Err β × Mgr) := fun r hr => TotE.same hI r hr
    unfold copyBddK
    split
    · exact base _ (by simp)
    split
    · split
      · exact base _ (by simp)
      · exact base _ (by simp)
    split
    · exact base _ (by simp)
    split
    · exact base _ (by simp)
    next n _ _ =>
    have k1 := ih n.lo cache m hI hc
    generalize copyBddK lm fu n.lo cache m = res1 at k1 ⊢
    obtain ⟨r1, m1⟩ := res1
    cases r1 with
    | error e => exact k1
    | ok pc =>
      obtain ⟨p, c1⟩ := pc
      simp only
      have s1 : StepK m m1 := k1.1
      have c1' : m1.ctx = true := by rw [s1.frame.ctx]; exact hc
      have k2 := ih n.hi c1 m1 s1.inv c1'
      generalize copyBddK lm fu n.hi c1 m1 = res2 at k2 ⊢
      obtain ⟨r2, m2⟩ := res2
      cases r2 with
      | error e => exact TotE.trans s1 k2
      | ok qc =>
        obtain ⟨q, c2⟩ := qc
        simp only
        have s12 : StepK m m2 := s1.trans k2.1
        have hI2 := k2.1.inv
        have hc2 : m2.ctx = true := by rw [k2.1.frame.ctx]; exact c1'
        have base2 : ∀ {β : Type} (r : Except Err β), r ≠ .error .needsReordering →
            TotE m ((r, m2) : Except Err β × Mgr) :=
          fun r hr => TotE.trans s12 (TotE.same hI2 r hr)
        split
        · exact base2 _ (by simp)
        split
        · exact base2 _ (by simp)
        split
        · exact base2 _ (by simp)
        next jnew _ =>
        cases jnew with
        | name nm =>
          simp only
          have k3 := findOrAddNonInt_totE_r4 m2 hI2
          generalize findOrAddNonInt m2 = res3 at k3 ⊢
          obtain ⟨r3, m3⟩ := res3
          cases r3 with
          | error e => exact TotE.trans s12 (k3.err_of rfl)
          | ok g =>
            simp only
            have hc3 : m3.ctx = true := by rw [k3.1.frame.ctx]; exact hc2
            have k4 := ite_nested_totE m3 k3.1.inv hc3 g q p
            generalize ite g q p m3 = res4 at k4 ⊢
            obtain ⟨r4, m4⟩ := res4
            have s4 : StepK m m4 := (s12.trans k3.1).trans k4.1
            cases r4 with
            | error e => exact TotE.trans (s12.trans k3.1) (k4.err_of rfl)
            | ok r =>
              simp only
              split
              · exact TotE.err s4 _ (by simp)
              · exact TotE.ok s4 _
        | lvl i =>
          simp only
          have k3 := varNodeInt_totE m2 hI2 i
          generalize findOrAdd i (-1) 1 m2 = res3 at k3 ⊢
          obtain ⟨r3, m3⟩ := res3
          cases r3 with
          | error e => exact TotE.trans s12 (k3.err_of rfl)
          | ok g =>
            simp only
            have hc3 : m3.ctx = true := by rw [k3.1.frame.ctx]; exact hc2
            have k4 := ite_nested_totE m3 k3.1.inv hc3 g q p
            generalize ite g q p m3 = res4 at k4 ⊢
            obtain ⟨r4, m4⟩ := res4
            have s4 : StepK m m4 := (s12.trans k3.1).trans k4.1
            cases r4 with
            | error e => exact TotE.trans (s12.trans k3.1) (k4.err_of rfl)
            | ok r =>
              simp only
              split
              · exact TotE.err s4 _ (by simp)
              · exact TotE.ok s4 _

/-- the branch of `_preimage_of` for partners that are not neighbours: ANY arguments -/
theorem preimageFallback_totE_r4 (t s : Int) (rn : List (Key × Key)) (q : List Nat)
    (fa : Bool) (m : Mgr) (hI : Inv m) (hc : m.ctx = true) :
    TotE m (preimageFallback t s rn q fa m) := by
  unfold preimageFallback
  have k1 := copyBddK_totE_r4 (preimageLevelMap m.nvars rn) (m.nvars + 2) s {} m hI hc
  generalize copyBddK (preimageLevelMap m.nvars rn) (m.nvars + 2) s {} m = res1 at k1 ⊢
  obtain ⟨r1, m1⟩ := res1
  cases r1 with
  | error e => exact k1.err_of rfl
  | ok rc =>
    obtain ⟨r, c⟩ := rc
    simp only
    have c1 : m1.ctx = true := by rw [k1.1.frame.ctx]; exact hc
    have k2 := ite_nested_totE m1 k1.1.inv c1 t r (-1)
    generalize ite t r (-1) m1 = res2 at k2 ⊢
    obtain ⟨r2, m2⟩ := res2
    cases r2 with
    | error e => exact TotE.trans k1.1 (k2.err_of rfl)
    | ok r2 =>
      simp only
      have c2 : m2.ctx = true := by rw [k2.1.frame.ctx]; exact c1
      exact TotE.trans (k1.1.trans k2.1) (quantify_nested_totE m2 k2.1.inv c2 r2 _ fa)

/-- the decorated body `_preimage_of`: ANY arguments -/
theorem preimageBody_totE_r4 (t s : Int) (rn : List (Key × Key)) (q : List Key)
    (fa : Bool) (m : Mgr) (hI : Inv m) (hc : m.ctx = true) : TotE m (preimageBody t s rn q fa m) := by
  have base : ∀ (r : Except Err Int), r ≠ .error .needsReordering →
      TotE m ((r, m) : Except Err Int × Mgr) := fun r hr => TotE.same hI r hr
  unfold preimageBody
  cases hq : mapToLevelE m.tbl q with
  | error e => exact base _ (fun h => mapToLevelE_noNR m.tbl q (by rw [hq]; simpa using h))
  | ok lv =>
    simp only
    obtain ⟨ha, hn⟩ := assertValidRename_ro (resolveRename m.tbl rn) m
    generalize assertValidRename (resolveRename m.tbl rn) m = r1 at ha hn
    obtain ⟨x1, m1⟩ := r1
    simp only at ha
    subst ha
    cases x1 with
    | error e => exact base _ (by simpa using hn)
    | ok _ =>
      simp only
      split
      · next e heq =>
        refine base _ (fun h => ?_)
        simp only [Except.error.injEq] at h
        subst h
        unfold preimageFused at heq
        split at heq
        · cases heq
        split at heq
        · cases heq
        split at heq
        · next e' hs =>
          simp only [Except.error.injEq] at heq
          subst heq
          exact supportLevels_noSignal _ _ hs
        · cases heq
      split
      · have k := imageF_totE_r4 none (some (intPairs (resolveRename m1.tbl rn))) []
          (badKeys (resolveRename m1.tbl rn)) lv fa (2 * m1.nvars + 4) t s {} m1 hI hc
        generalize imageF none (some (intPairs (resolveRename m1.tbl rn))) []
          (badKeys (resolveRename m1.tbl rn)) lv fa (2 * m1.nvars + 4) t s {} m1 = res at k ⊢
        obtain ⟨r, m2⟩ := res
        cases r with
        | error e =>
          simp only
          by_cases hf : e = .fuel
          · subst hf
            simp only [if_true]
            exact TotE.err k.1 _ (by simp)
          · simp only [hf, if_false]
            exact k.err_of rfl
        | ok rc => simp only; exact TotE.ok k.1 _
      · exact preimageFallback_totE_r4 t s _ lv fa m1 hI hc

end DD
