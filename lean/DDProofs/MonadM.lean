/-
  DDProofs.MonadM — stepping lemmas for the model monad `M` (state persists on error).
-/
import DD.Basic
open Std

namespace DD

theorem M.bind_eq {α β} (x : M α) (f : α → M β) (m : Mgr) :
    (x >>= f) m = match x m with
      | (.ok a, m') => f a m'
      | (.error e, m') => (.error e, m') := rfl

theorem M.bind_ok {α β} {x : M α} {f : α → M β} {m m1 : Mgr} {a : α} (h : x m = (.ok a, m1)) :
    (x >>= f) m = f a m1 := by rw [M.bind_eq, h]

theorem M.bind_err {α β} {x : M α} {f : α → M β} {m m1 : Mgr} {e : Err} (h : x m = (.error e, m1)) :
    (x >>= f) m = (.error e, m1) := by rw [M.bind_eq, h]

theorem M.pure_eq {α} (a : α) (m : Mgr) : (pure a : M α) m = (.ok a, m) := rfl
theorem M.get_eq (m : Mgr) : M.get m = (.ok m, m) := rfl
theorem M.set_eq (m' m : Mgr) : M.set m' m = (.ok (), m') := rfl
theorem M.modify_eq (f : Mgr → Mgr) (m : Mgr) : M.modify f m = (.ok (), f m) := rfl
theorem M.throw_eq {α} (e : Err) (m : Mgr) : (M.throw e : M α) m = (.error e, m) := rfl
theorem M.assert_true (e : Err) (m : Mgr) : M.assert true e m = (.ok (), m) := rfl
theorem M.assert_false (e : Err) (m : Mgr) : M.assert false e m = (.error e, m) := rfl
theorem M.ofOption_some {α} (e : Err) (a : α) (m : Mgr) : M.ofOption e (some a) m = (.ok a, m) := rfl
theorem M.ofOption_none {α} (e : Err) (m : Mgr) : (M.ofOption e none : M α) m = (.error e, m) := rfl

/-- a successful sequence: both parts succeeded -/
theorem M.bind_ok_inv {α β} {x : M α} {f : α → M β} {m m' : Mgr} {b : β}
    (h : (x >>= f) m = (.ok b, m')) : ∃ a m1, x m = (.ok a, m1) ∧ f a m1 = (.ok b, m') := by
  rw [M.bind_eq] at h
  generalize x m = r at h
  obtain ⟨r, m1⟩ := r
  cases r with
  | ok a => exact ⟨a, m1, rfl, h⟩
  | error e => cases h

theorem M.assert_ok_inv {b : Bool} {e : Err} {m m' : Mgr} {u : Unit}
    (h : M.assert b e m = (.ok u, m')) : b = true ∧ m = m' := by
  cases b with
  | true => cases h; exact ⟨rfl, rfl⟩
  | false => cases h

theorem M.ofOption_ok_inv {α} {e : Err} {o : Option α} {m m' : Mgr} {a : α}
    (h : M.ofOption e o m = (.ok a, m')) : o = some a ∧ m = m' := by
  cases o with
  | some x => cases h; exact ⟨rfl, rfl⟩
  | none => cases h

theorem M.get_ok_inv {m m' a : Mgr} (h : M.get m = (.ok a, m')) : m = a ∧ m = m' := by
  cases h; exact ⟨rfl, rfl⟩

/-- an outcome that is either a success satisfying `Q` or the model's report that the recorded
iteration schedule does not fit (`MODEL-SCHEDULE-MISMATCH`, not a behaviour of the code) -/
def OkOrSched {α} (Q : α → Mgr → Prop) : Except Err α × Mgr → Prop
  | (.ok a, m') => Q a m'
  | (.error e, _) => e = .sched

theorem OkOrSched.mono {α} {Q Q' : α → Mgr → Prop} (h : ∀ a m, Q a m → Q' a m)
    {r : Except Err α × Mgr} (hr : OkOrSched Q r) : OkOrSched Q' r := by
  obtain ⟨r, m⟩ := r
  cases r with
  | ok a => exact h a m hr
  | error e => exact hr

/-- sequencing two steps that can only fail by schedule mismatch -/
theorem OkOrSched.bind {α β} {x : M α} {f : α → M β} {m : Mgr} {Q : α → Mgr → Prop}
    {Q' : β → Mgr → Prop} (hx : OkOrSched Q (x m))
    (hf : ∀ a m1, Q a m1 → OkOrSched Q' (f a m1)) : OkOrSched Q' ((x >>= f) m) := by
  rw [M.bind_eq]
  generalize x m = r at hx
  obtain ⟨r, m1⟩ := r
  cases r with
  | ok a => exact hf a m1 hx
  | error e => exact hx

end DD
