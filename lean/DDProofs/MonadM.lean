/-
  DDProofs.MonadM — stepping lemmas for the model monad `M` (state persists on error).
-/
import DD.Basic
open Std

namespace DD

theorem M.bind_eq {α β} (x : M α) (f : α → M β) (m : Mgr) :
    (x >>= f) m = match x m with
      | (.ok a, m') => f a m'
      | (.error e, m') => (.error e, m') := rfl

theorem M.bind_ok {α β} {x : M α} {f : α → M β} {m m1 : Mgr} {a : α} (h : x m = (.ok a, m1)) :
    (x >>= f) m = f a m1 := by rw [M.bind_eq, h]

theorem M.bind_err {α β} {x : M α} {f : α → M β} {m m1 : Mgr} {e : Err} (h : x m = (.error e, m1)) :
    (x >>= f) m = (.error e, m1) := by rw [M.bind_eq, h]

theorem M.pure_eq {α} (a : α) (m : Mgr) : (pure a : M α) m = (.ok a, m) := rfl
theorem M.get_eq (m : Mgr) : M.get m = (.ok m, m) := rfl
theorem M.set_eq (m' m : Mgr) : M.set m' m = (.ok (), m') := rfl
theorem M.modify_eq (f : Mgr → Mgr) (m : Mgr) : M.modify f m = (.ok (), f m) := rfl
theorem M.throw_eq {α} (e : Err) (m : Mgr) : (M.throw e : M α) m = (.error e, m) := rfl
theorem M.assert_true (e : Err) (m : Mgr) : M.assert true e m = (.ok (), m) := rfl
theorem M.assert_false (e : Err) (m : Mgr) : M.assert false e m = (.error e, m) := rfl
theorem M.ofOption_some {α} (e : Err) (a : α) (m : Mgr) : M.ofOption e (some a) m = (.ok a, m) := rfl
theorem M.ofOption_none {α} (e : Err) (m : Mgr) : (M.ofOption e none : M α) m = (.error e, m) := rfl

/-- a successful sequence: both parts succeeded -/
theorem M.bind_ok_inv {α β} {x : M α} {f : α → M β} {m m' : Mgr} {b : β}
    (h : (x >>= f) m = (.ok b, m')) : ∃ a m1, x m = (.ok a, m1) ∧ f a m1 = (.ok b, m') := by
  rw [M.bind_eq] at h
  generalize x m = r at h
  obtain ⟨r, m1⟩ := r
  cases r with
  | ok a => exact ⟨a, m1, rfl, h⟩
  | error e => cases h

theorem M.assert_ok_inv {b : Bool} {e : Err} {m m' : Mgr} {u : Unit}
    (h : M.assert b e m = (.ok u, m')) : b = true ∧ m = m' := by
  cases b with
  | true => cases h; exact ⟨rfl, rfl⟩
  | false => cases h

theorem M.ofOption_ok_inv {α} {e : Err} {o : Option α} {m m' : Mgr} {a : α}
    (h : M.ofOption e o m = (.ok a, m')) : o = some a ∧ m = m' := by
  cases o with
  | some x => cases h; exact ⟨rfl, rfl⟩
  | none => cases h

theorem M.get_ok_inv {m m' a : Mgr} (h : M.get m = (.ok a, m')) : m = a ∧ m = m' := by
  cases h; exact ⟨rfl, rfl⟩

/-- an outcome that is either a success satisfying `Q` or an exception satisfying `E` -/
def OkOr {α} (E : Err → Prop) (Q : α → Mgr → Prop) : Except Err α × Mgr → Prop
  | (.ok a, m') => Q a m'
  | (.error e, _) => E e

theorem OkOr.mono {α} {E : Err → Prop} {Q Q' : α → Mgr → Prop} (h : ∀ a m, Q a m → Q' a m)
    {r : Except Err α × Mgr} (hr : OkOr E Q r) : OkOr E Q' r := by
  obtain ⟨r, m⟩ := r
  cases r with
  | ok a => exact h a m hr
  | error e => exact hr

theorem OkOr.monoE {α} {E E' : Err → Prop} {Q : α → Mgr → Prop} (h : ∀ e, E e → E' e)
    {r : Except Err α × Mgr} (hr : OkOr E Q r) : OkOr E' Q r := by
  obtain ⟨r, m⟩ := r
  cases r with
  | ok a => exact hr
  | error e => exact h e hr

/-- sequencing -/
theorem OkOr.bind {α β} {E : Err → Prop} {x : M α} {f : α → M β} {m : Mgr} {Q : α → Mgr → Prop}
    {Q' : β → Mgr → Prop} (hx : OkOr E Q (x m))
    (hf : ∀ a m1, Q a m1 → OkOr E Q' (f a m1)) : OkOr E Q' ((x >>= f) m) := by
  rw [M.bind_eq]
  generalize x m = r at hx
  obtain ⟨r, m1⟩ := r
  cases r with
  | ok a => exact hf a m1 hx
  | error e => exact hx

/-- no exception allowed: the call returns normally -/
theorem OkOr.total {α} {Q : α → Mgr → Prop} {r : Except Err α × Mgr}
    (h : OkOr (fun _ => False) Q r) : ∃ a m', r = (.ok a, m') ∧ Q a m' := by
  obtain ⟨r, m⟩ := r
  cases r with
  | ok a => exact ⟨a, m, rfl, h⟩
  | error e => exact h.elim

/-- an outcome that is either a success satisfying `Q` or the model's report that the recorded
iteration schedule does not fit (`MODEL-SCHEDULE-MISMATCH`, not a behaviour of the code) -/
abbrev OkOrSched {α} (Q : α → Mgr → Prop) : Except Err α × Mgr → Prop :=
  OkOr (fun e => e = Err.sched) Q

theorem OkOrSched.mono {α} {Q Q' : α → Mgr → Prop} (h : ∀ a m, Q a m → Q' a m)
    {r : Except Err α × Mgr} (hr : OkOrSched Q r) : OkOrSched Q' r := OkOr.mono h hr

/-- sequencing two steps that can only fail by schedule mismatch -/
theorem OkOrSched.bind {α β} {x : M α} {f : α → M β} {m : Mgr} {Q : α → Mgr → Prop}
    {Q' : β → Mgr → Prop} (hx : OkOrSched Q (x m))
    (hf : ∀ a m1, Q a m1 → OkOrSched Q' (f a m1)) : OkOrSched Q' ((x >>= f) m) := OkOr.bind hx hf

end DD
