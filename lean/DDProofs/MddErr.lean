import DDProofs.MddApplyTotal
import DDProofs.MddGcSched

/-!
# The recorded allocator schedule, and what a failed call leaves

* the schedule field does not enter any invariant (`setSched`);
* ACCEPTANCE: `_allocate` with a recorded `_free.pop()` result `p` succeeds with `p` whenever `p`
  is an element of `_free` — the model's `MODEL-SCHEDULE-MISMATCH` is reported only for a recorded
  pop that is NOT in `_free`; so for every choice the real `set.pop()` can make there is a schedule
  that makes the model follow it;
* only `_allocate` reads or changes the schedule;
* a call that raises leaves the manager as it was: `find_or_add` (its checks precede every
  mutation), `ite` (an operand that is not a node is looked up before anything is created; with
  nodes as operands nothing can fail), `apply`, `incref`, `decref`, `collect_garbage` (a root that
  is not counted is looked up before anything is removed).
-/

namespace DD
open Std

/-! ### the schedule field is ghost -/

theorem MInv.setSched {m : MddMgr} (h : MInv m) (s : List Nat) : MInv { m with sched := s } :=
  ⟨h.wf, h.pred, h.refOne, h.refDom, h.maxGe, h.maxOK, h.freeOK, h.freeNodup, h.cache⟩

theorem MInv.of_setSched {m : MddMgr} {s : List Nat} (h : MInv { m with sched := s }) : MInv m :=
  ⟨h.wf, h.pred, h.refOne, h.refDom, h.maxGe, h.maxOK, h.freeOK, h.freeNodup, h.cache⟩

theorem MRefExact.setSched {m : MddMgr} {ext : Nat → Nat} (h : MRefExact m ext) (s : List Nat) :
    MRefExact { m with sched := s } ext := ⟨h.cnt, h.extZero⟩

theorem MRefExact.of_setSched {m : MddMgr} {ext : Nat → Nat} {s : List Nat}
    (h : MRefExact { m with sched := s } ext) : MRefExact m ext := ⟨h.cnt, h.extZero⟩

theorem RefKeys.setSched {m : MddMgr} (h : RefKeys m) (s : List Nat) : RefKeys { m with sched := s } := h

theorem RefKeys.of_setSched {m : MddMgr} {s : List Nat} (h : RefKeys { m with sched := s }) :
    RefKeys m := h

theorem MddMgr.setSched_self (m : MddMgr) {s : List Nat} (h : m.sched = s) :
    ({ m with sched := s } : MddMgr) = m := by
  cases m; cases h; rfl

/-! ### acceptance -/

/-- `_allocate`, all cases: with an empty `_free` the next number is taken and the schedule is
not consulted; with a recorded pop `p ∈ _free` the number `p` is taken (ACCEPTED); with no
recorded pop the least element is taken -/
theorem mAllocate_accepts (m : MddMgr) :
    (m.free = [] → mAllocate m = (.ok (m.max + 1), { m with max := m.max + 1 })) ∧
    (∀ p rest, m.sched = p :: rest → p ∈ m.free →
      mAllocate m = (.ok p, { m with free := m.free.erase p, sched := rest })) ∧
    (∀ f0 tl, m.free = f0 :: tl → m.sched = [] →
      mAllocate m = (.ok f0, { m with free := m.free.erase f0 })) := by
  refine ⟨?_, ?_, ?_⟩
  · intro hf; unfold mAllocate; rw [hf]
  · intro p rest hs hp
    unfold mAllocate
    cases hf : m.free with
    | nil => rw [hf] at hp; cases hp
    | cons f0 tl =>
      simp only
      rw [hs]
      simp only
      have : (f0 :: tl).contains p = true := by rw [← hf]; simpa using hp
      rw [← hf] at this ⊢
      rw [if_pos this]
  · intro f0 tl hf hs
    unfold mAllocate
    rw [hf]
    simp only
    rw [hs]

/-- the model's schedule mismatch is reported exactly for a recorded pop that is not in `_free`,
and then nothing has changed -/
theorem mAllocate_err (m : MddMgr) (e : Err) (m' : MddMgr) (h : mAllocate m = (.error e, m')) :
    m' = m ∧ e = .sched ∧ ∃ p rest, m.sched = p :: rest ∧ m.free ≠ [] ∧ p ∉ m.free := by
  unfold mAllocate at h
  split at h
  · cases h
  · next f0 tl hf =>
    split at h
    · cases h
    · next p rest hs =>
      split at h
      · cases h
      · next hc =>
        cases h
        refine ⟨rfl, rfl, p, rest, hs, by rw [hf]; simp, ?_⟩
        intro hp
        exact hc (by simpa using hp)

/-- for EVERY element `p` of `_free` there is a schedule under which `_allocate` takes `p` -/
theorem mAllocate_any_choice (m : MddMgr) (p : Nat) (hp : p ∈ m.free) :
    ∃ sch, mAllocate { m with sched := sch } =
      (.ok p, { m with free := m.free.erase p, sched := [] }) :=
  ⟨[p], (mAllocate_accepts { m with sched := [p] }).2.1 p [] rfl hp⟩

/-! ### only `_allocate` touches the schedule -/

theorem mAllocate_sched_nil (m : MddMgr) (r : Except Err Nat) (m' : MddMgr) (h : mAllocate m = (r, m'))
    (hs : m.sched = []) : m'.sched = [] := by
  unfold mAllocate at h
  split at h
  · cases h; exact hs
  · split at h
    · cases h; exact hs
    · next p rest hp => rw [hs] at hp; cases hp

theorem mIncref_sched (u : Int) (m : MddMgr) (r : Except Err Unit) (m' : MddMgr)
    (h : mIncref u m = (r, m')) : m'.sched = m.sched := by
  unfold mIncref at h
  split at h <;> (cases h; rfl)

theorem mDecref_sched (u : Int) (m : MddMgr) (r : Except Err Unit) (m' : MddMgr)
    (h : mDecref u m = (r, m')) : m'.sched = m.sched := by
  unfold mDecref at h
  split at h
  · cases h; rfl
  · split at h <;> (cases h; rfl)

theorem mIncrefAll_sched : ∀ (l : List Int) (m : MddMgr) (r : Except Err Unit) (m' : MddMgr),
    mIncrefAll l m = (r, m') → m'.sched = m.sched := by
  intro l
  induction l with
  | nil => intro m r m' h; simp only [mIncrefAll] at h; cases h; rfl
  | cons k rest ih =>
    intro m r m' h
    unfold mIncrefAll at h
    split at h
    · next m1 h1 => rw [ih m1 r m' h, mIncref_sched k m _ m1 h1]
    · next e m1 h1 => cases h; exact mIncref_sched k m _ _ h1

theorem mFindOrMake_sched_nil (i : Nat) (L : List Int) (m : MddMgr) (r : Except Err Nat) (m' : MddMgr)
    (h : mFindOrMake i L m = (r, m')) (hs : m.sched = []) : m'.sched = [] := by
  unfold mFindOrMake at h
  simp only at h
  split at h
  · cases h; exact hs
  · split at h
    · next e m1 ha => cases h; exact mAllocate_sched_nil m _ _ ha hs
    · next u m1 ha =>
      have hs1 := mAllocate_sched_nil m _ _ ha hs
      split at h
      · cases h; exact hs1
      · split at h
        · next e m3 hinc => cases h; rw [mIncrefAll_sched _ _ _ _ hinc]; exact hs1
        · next m3 hinc => cases h; rw [mIncrefAll_sched _ _ _ _ hinc]; exact hs1

theorem mFindOrAddCore_sched_nil (i : Nat) (nodes : List Int) (m : MddMgr) (r : Except Err Int)
    (m' : MddMgr) (h : mFindOrAddCore i nodes m = (r, m')) (hs : m.sched = []) : m'.sched = [] := by
  unfold mFindOrAddCore at h
  split at h
  · cases h; exact hs
  · split at h
    · cases h; exact hs
    · split at h
      · cases h; exact hs
      · split at h
        · cases h; exact hs
        · split at h
          · cases h; exact hs
          · split at h
            · simp only at h
              split at h
              · cases h; exact hs
              · split at h
                · next e m1 hm => cases h; exact mFindOrMake_sched_nil _ _ _ _ _ hm hs
                · next u m1 hm => cases h; exact mFindOrMake_sched_nil _ _ _ _ _ hm hs
            · split at h
              · cases h; exact hs
              · split at h
                · next e m1 hm => cases h; exact mFindOrMake_sched_nil _ _ _ _ _ hm hs
                · next u m1 hm => cases h; exact mFindOrMake_sched_nil _ _ _ _ _ hm hs

theorem mFindOrAdd_sched_nil (i : Int) (nodes : List Int) (m : MddMgr) (r : Except Err Int)
    (m' : MddMgr) (h : mFindOrAdd i nodes m = (r, m')) (hs : m.sched = []) : m'.sched = [] := by
  unfold mFindOrAdd at h
  split at h
  · cases h; exact hs
  · exact mFindOrAddCore_sched_nil _ _ _ _ _ h hs

theorem mGcStep_sched (u : Int) (work : List Int) (m : MddMgr) (r : Except Err (List Int)) (m' : MddMgr)
    (h : mGcStep u work m = (r, m')) : m'.sched = m.sched := by
  unfold mGcStep at h
  split at h
  · cases h; rfl
  · split at h
    · cases h; rfl
    · split at h
      · cases h; rfl
      · simp only at h
        split at h
        · cases h; rfl
        · split at h
          · cases h; rfl
          · have hrel : ∀ (x : MddMgr) r4 m4, mRelease u.toNat x = (r4, m4) → m4.sched = x.sched := by
              intro x r4 m4 h4
              unfold mRelease at h4
              split at h4
              · cases h4; rfl
              · split at h4
                · cases h4; rfl
                · split at h4
                  · cases h4; rfl
                  · split at h4 <;> (cases h4; rfl)
            split at h
            · next e m4 h4 =>
              cases h
              have e4 := hrel _ _ _ h4
              exact e4
            · next m4 h4 =>
              have e4 := hrel _ _ _ h4
              split at h
              · cases h; exact e4
              · split at h
                · cases h; exact e4
                · split at h
                  · cases h; exact e4
                  · rw [(mGcKids_sched _ _ _ _ _ h).1]; exact e4

theorem mGcLoop_sched : ∀ (f : Nat) (work : List Int) (m : MddMgr) (r : Except Err Unit) (m' : MddMgr),
    mGcLoop f work m = (r, m') → m'.sched = m.sched := by
  intro f
  induction f with
  | zero =>
    intro work m r m' h
    cases work with
    | nil => simp only [mGcLoop] at h; cases h; rfl
    | cons u rest => simp only [mGcLoop] at h; cases h; rfl
  | succ f ih =>
    intro work m r m' h
    cases work with
    | nil => simp only [mGcLoop] at h; cases h; rfl
    | cons u rest =>
      simp only [mGcLoop] at h
      split at h
      · next e m1 h1 => cases h; exact mGcStep_sched _ _ _ _ _ h1
      · next work1 m1 h1 => rw [ih _ _ _ _ h, mGcStep_sched _ _ _ _ _ h1]

/-- `{abs(u) for u in roots if not self.ref(u)}` changes nothing, whatever it returns; when it
returns, every root is counted -/
theorem mUnusedOf_state : ∀ (rs : List Int) (m : MddMgr) (r : Except Err (List Int)) (m1 : MddMgr),
    mUnusedOf rs m = (r, m1) →
    m1 = m ∧ ((∃ un, r = .ok un) → ∀ y, y ∈ rs → m.ref.contains y.natAbs = true) := by
  intro rs
  induction rs with
  | nil =>
    intro m r m1 h
    simp only [mUnusedOf] at h
    cases h
    exact ⟨rfl, fun _ y hy => by cases hy⟩
  | cons u rest ih =>
    intro m r m1 h
    unfold mUnusedOf at h
    split at h
    · cases h; exact ⟨rfl, fun ⟨un, hun⟩ => by cases hun⟩
    · next c hc =>
      have hcu : m.ref.contains u.natAbs = true := by
        rw [TreeMap.contains_eq_isSome_getElem?, hc]; rfl
      split at h
      · next e m1' hrest =>
        cases h
        exact ⟨(ih _ _ _ hrest).1, fun ⟨un, hun⟩ => by cases hun⟩
      · next r' m1' hrest =>
        obtain ⟨hm, hall⟩ := ih _ _ _ hrest
        have hall' := hall ⟨r', rfl⟩
        have hfin : ∀ y, y ∈ u :: rest → m.ref.contains y.natAbs = true := by
          intro y hy
          rcases List.mem_cons.mp hy with rfl | hy
          · exact hcu
          · exact hall' y hy
        split at h <;> (cases h; exact ⟨hm, fun _ => hfin⟩)

theorem mCollectGarbage_sched (roots : Option (List Int)) (m : MddMgr) (r : Except Err Unit)
    (m' : MddMgr) (h : mCollectGarbage roots m = (r, m')) : m'.sched = m.sched := by
  rw [mCollectGarbage_eq] at h
  split at h
  · next e m1 hun => cases h; rw [(mUnusedOf_state _ _ _ _ hun).1]
  · next un m1 hun =>
    obtain ⟨hm1, _⟩ := mUnusedOf_state _ _ _ _ hun
    subst hm1
    split at h
    · next e m2 hl => cases h; exact mGcLoop_sched _ _ _ _ _ hl
    · next m2 hl =>
      cases h
      exact (mGcLoop_sched _ _ _ _ _ hl : m2.sched = _)

/-! ### what a failed call leaves -/

/-- `find_or_add`'s inner step: under the invariant, with successors that are nodes, the only
failure is the model's schedule mismatch, reported before anything is changed -/
theorem mFindOrMake_err (m : MddMgr) (h : MInv m) (i : Nat) (L : List Int)
    (hmem : ∀ k ∈ L, m.tbl.Mem k) (e : Err) (m' : MddMgr)
    (hr : mFindOrMake i L m = (.error e, m')) : m' = m ∧ e = .sched := by
  unfold mFindOrMake at hr
  simp only at hr
  split at hr
  · cases hr
  · split at hr
    · next e1 m1 ha =>
      cases hr
      obtain ⟨a, b, _⟩ := mAllocate_err m _ _ ha
      exact ⟨a, b⟩
    · next u m1 ha =>
      exfalso
      have A := mAllocate_spec m h u m1 ha
      have hnm : m1.mem ((u : Nat) : Int) = false := by
        show m1.tbl.mem ((u : Nat) : Int) = false
        rw [A.tbl, MTbl.mem_false_iff m.tbl h.term]
        rintro (h1 | h1)
        · have := A.ge_two; simp at h1; omega
        · simp only [Int.natAbs_natCast] at h1; rw [A.fresh] at h1; cases h1
      rw [hnm] at hr
      simp only [Bool.false_eq_true, if_false] at hr
      obtain ⟨m3, hinc, _⟩ := mIncrefAll_tot L ({ m1 with
          tbl := { m1.tbl with succ := m1.tbl.succ.insert u ⟨i, L⟩ }
          pred := m1.pred.insert (MNd.key ⟨i, L⟩) u
          ref := m1.ref.insert u 0 } : MddMgr) (by
        intro k hk
        show (m1.ref.insert u 0).contains k.natAbs = true
        rw [TreeMap.contains_insert, A.ref]
        simp [h.refMem (hmem k hk)])
      rw [hinc] at hr
      cases hr

/-- a `find_or_add` that raises — whatever the arguments — has changed nothing -/
theorem mFindOrAddCore_err (m : MddMgr) (h : MInv m) (i : Nat) (nodes : List Int) (e : Err)
    (m' : MddMgr) (hr : mFindOrAddCore i nodes m = (.error e, m')) : m' = m := by
  unfold mFindOrAddCore at hr
  split at hr
  · cases hr; rfl
  · split at hr
    · cases hr; rfl
    · split at hr
      · cases hr; rfl
      · split at hr
        · cases hr; rfl
        · next n0 tl _hlen =>
          split at hr
          · cases hr; rfl
          · next hall =>
            have hmem : ∀ k ∈ n0 :: tl, m.tbl.Mem k := by
              intro k hk
              have : ((n0 :: tl).all m.mem) = true := by simpa using hall
              rw [List.all_eq_true] at this
              exact (MTbl.mem_iff m.tbl h.term k).mp (this k hk)
            split at hr
            · simp only at hr
              split at hr
              · cases hr
              · split at hr
                · next e1 m1 hm =>
                  cases hr
                  exact (mFindOrMake_err m h i _ (by
                    intro k hk
                    rw [List.mem_map] at hk
                    obtain ⟨c, hc, rfl⟩ := hk
                    exact MTbl.mem_neg (hmem c hc)) _ _ hm).1
                · cases hr
            · split at hr
              · cases hr
              · split at hr
                · next e1 m1 hm => cases hr; exact (mFindOrMake_err m h i _ hmem _ _ hm).1
                · cases hr

theorem mFindOrAdd_err (m : MddMgr) (h : MInv m) (i : Int) (nodes : List Int) (e : Err)
    (m' : MddMgr) (hr : mFindOrAdd i nodes m = (.error e, m')) : m' = m := by
  unfold mFindOrAdd at hr
  split at hr
  · cases hr; rfl
  · exact mFindOrAddCore_err m h _ _ _ _ hr

theorem MTbl.mem_of_levelOf? (t : MTbl) (u : Int) (l : Nat) (h : t.levelOf? u = some l) : t.Mem u := by
  unfold MTbl.levelOf? at h
  split at h
  · next h1 => exact Or.inl h1
  · right
    show (t.succ[u.natAbs]?).isSome = true
    cases hs : t.succ[u.natAbs]? with
    | none => rw [hs] at h; cases h
    | some n => rfl

/-- `ite` with an operand that is not a node: `g = ±1` and a hit in the computed table return at
once, otherwise `level_of` raises `KeyError` before anything is created — in every case the
manager is untouched -/
theorem mIte_nonmember (m : MddMgr) (g u v : Int)
    (hn : ¬ (m.tbl.Mem g ∧ m.tbl.Mem u ∧ m.tbl.Mem v)) (r : Except Err Int) (m' : MddMgr)
    (hr : mIte g u v m = (r, m')) : m' = m := by
  unfold mIte mIteF at hr
  split at hr
  · cases hr; rfl
  · split at hr
    · cases hr; rfl
    · split at hr
      · cases hr; rfl
      · split at hr
        · cases hr; rfl
        · next lg hlg =>
          split at hr
          · cases hr; rfl
          · next lu hlu =>
            split at hr
            · cases hr; rfl
            · next lv hlv =>
              exact absurd ⟨MTbl.mem_of_levelOf? _ _ _ hlg, MTbl.mem_of_levelOf? _ _ _ hlu,
                MTbl.mem_of_levelOf? _ _ _ hlv⟩ hn

/-- an `ite` that raises (anything but the model's own schedule report) has changed nothing -/
theorem mIte_err (m : MddMgr) (h : MInv m) (g u v : Int) (e : Err) (m' : MddMgr)
    (hr : mIte g u v m = (.error e, m')) (he : e ≠ .sched) : m' = m := by
  by_cases hm : m.tbl.Mem g ∧ m.tbl.Mem u ∧ m.tbl.Mem v
  · exfalso
    rcases mIte_okOrSched m h g u v hm.1 hm.2.1 hm.2.2 with ⟨w, m'', hok, _⟩ | ⟨m'', hbad, _⟩
    · rw [hok] at hr; cases hr
    · rw [hbad] at hr; cases hr; exact he rfl
  · exact mIte_nonmember m g u v hm _ _ hr

/-- a successful `ite`: the operands are nodes, or the manager is untouched -/
theorem mIte_ok_cases (m : MddMgr) (g u v w : Int) (m' : MddMgr)
    (hr : mIte g u v m = (.ok w, m')) :
    (m.tbl.Mem g ∧ m.tbl.Mem u ∧ m.tbl.Mem v) ∨ m' = m := by
  by_cases hm : m.tbl.Mem g ∧ m.tbl.Mem u ∧ m.tbl.Mem v
  · exact Or.inl hm
  · exact Or.inr (mIte_nonmember m g u v hm _ _ hr)

/-- an `apply` that raises (anything but the model's own schedule report) has changed nothing -/
theorem mApply_err (m : MddMgr) (h : MInv m) (op : String) (u : Int) (v w : Option Int) (e : Err)
    (m' : MddMgr) (hr : mApply op u v w m = (.error e, m')) (he : e ≠ .sched) : m' = m := by
  unfold mApply at hr
  split at hr
  · cases hr; rfl
  · split at hr
    · cases hr; rfl
    · split at hr
      · cases hr; rfl
      · split at hr
        · cases hr; rfl
        · split at hr
          · cases hr; rfl
          · split at hr
            · cases hr
            · split at hr
              · cases hr; rfl
              · simp only at hr
                split at hr
                · cases hr; rfl
                · split at hr
                  · exact mIte_err m h _ _ _ _ _ hr he
                  · cases hr; rfl
            · cases hr; rfl
            · split at hr <;> (cases hr; rfl)
            · cases hr; rfl

theorem mIncref_err (u : Int) (m : MddMgr) (e : Err) (m' : MddMgr)
    (hr : mIncref u m = (.error e, m')) : m' = m := by
  unfold mIncref at hr
  split at hr <;> cases hr
  rfl

theorem mDecref_err (u : Int) (m : MddMgr) (e : Err) (m' : MddMgr)
    (hr : mDecref u m = (.error e, m')) : m' = m := by
  unfold mDecref at hr
  split at hr
  · cases hr; rfl
  · split at hr <;> cases hr

/-- a `collect_garbage(roots)` that raises has changed nothing: the only possible failure is the
`KeyError` of `self.ref(u)` for a root that is not counted, before the loop starts -/
theorem mCollectGarbage_err (m : MddMgr) (ext : Nat → Nat) (h : MInv m) (hx : MRefExact m ext)
    (hk : RefKeys m) (roots : Option (List Int)) (e : Err) (m' : MddMgr)
    (hr : mCollectGarbage roots m = (.error e, m')) : m' = m := by
  have hr0 := hr
  rw [mCollectGarbage_eq] at hr
  split at hr
  · next e1 m1 hun => cases hr; exact (mUnusedOf_state _ _ _ _ hun).1
  · next un m1 hun =>
    exfalso
    obtain ⟨_, hall⟩ := mUnusedOf_state _ _ _ _ hun
    obtain ⟨m2, hok, _⟩ := mCollectGarbage_total m ext h hx roots
      (fun r hrr => hk.mem' r (hall ⟨un, rfl⟩ r hrr))
    rw [hok] at hr0
    cases hr0

/-! ### successful calls and the schedule -/

theorem mIte_ok_sched_nil (m : MddMgr) (h : MInv m) (hs : m.sched = []) (g u v w : Int) (m' : MddMgr)
    (hr : mIte g u v m = (.ok w, m')) : m'.sched = [] := by
  rcases mIte_ok_cases m g u v w m' hr with ⟨mg, mu, mv⟩ | heq
  · obtain ⟨w2, m2, e2, _, hs2⟩ := mIte_total m h hs g u v mg mu mv
    rw [hr] at e2
    cases e2
    exact hs2
  · rw [heq]; exact hs

theorem mApply_ok_sched_nil (m : MddMgr) (h : MInv m) (hs : m.sched = []) (op : String) (u : Int)
    (v w : Option Int) (r : Int) (m' : MddMgr) (hr : mApply op u v w m = (.ok r, m')) :
    m'.sched = [] := by
  unfold mApply at hr
  split at hr
  · cases hr
  · split at hr
    · cases hr
    · split at hr
      · cases hr
      · split at hr
        · cases hr
        · split at hr
          · cases hr
          · split at hr
            · cases hr; exact hs
            · split at hr
              · cases hr
              · simp only at hr
                split at hr
                · cases hr
                · split at hr
                  · exact mIte_ok_sched_nil m h hs _ _ _ _ _ hr
                  · cases hr
            · cases hr
            · split at hr <;> cases hr
            · cases hr

theorem MddMgr.setSched_setSched_self (m : MddMgr) (hs : m.sched = []) (sch : List Nat) :
    ({ ({ m with sched := sch } : MddMgr) with sched := [] } : MddMgr) = m := by
  cases m; cases hs; rfl

end DD
