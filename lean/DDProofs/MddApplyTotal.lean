/-
  DDProofs.MddApplyTotal — `MDD.apply(op, u, v, w)` returns normally for every implemented alias
  of the regenerated table, given as many operands as the connective takes, all nodes of the
  manager.
-/
import DDProofs.MddIteTotal
import DDProps.Tables
open Std

namespace DD

theorem docConn_allOps (op : String) (c : Conn) (h : docConn op = some c) :
    Gen.allOps.contains op = true := by
  unfold docConn at h
  split at h <;> first | decide | (cases h)

/-- the vocabulary obligation on the regenerated table (`decide`) -/
theorem mddVocabComplete : vocabComplete Gen.mddApplyTable = true := by decide

/-- as many operands as the connective takes -/
def ArgsShape (c : Conn) (v w : Option Int) : Prop :=
  (c.arity = 1 → v = none ∧ w = none) ∧ (c.arity = 2 → v.isSome = true ∧ w = none) ∧
  (c.arity = 3 → v.isSome = true ∧ w.isSome = true)

theorem Conn.arity_cases (c : Conn) : c.arity = 1 ∨ c.arity = 2 ∨ c.arity = 3 := by
  cases c <;> simp [Conn.arity]

theorem vocab_op (op : String) (c : Conn) (hc : docConn op = some c) :
    ((Gen.mddApplyTable.filter fun r => r.aliases.contains op).length = 1) ∧
    ((c.arity == 1) = Gen.unaryOps.contains op) ∧ ((c.arity == 2) = Gen.binaryOps.contains op) ∧
    ((c.arity == 3) = Gen.ternaryOps.contains op) := by
  have hv := mddVocabComplete
  unfold vocabComplete at hv
  simp only [Bool.and_eq_true] at hv
  obtain ⟨⟨h1, _⟩, h3⟩ := hv
  have hop : op ∈ Gen.allOps := by simpa using docConn_allOps op c hc
  have a1 := List.all_eq_true.mp h1 op hop
  have a3 := List.all_eq_true.mp h3 op hop
  rw [hc] at a3
  simp only [Bool.and_eq_true, beq_iff_eq] at a1 a3
  exact ⟨a1, a3.1.1, a3.1.2, a3.2⟩

theorem findRow_of_filter {op : String} : ∀ (tbl : List ApplyRow),
    0 < (tbl.filter fun r => r.aliases.contains op).length → ∃ row, findRow op tbl = some row := by
  intro tbl
  induction tbl with
  | nil => intro h; simp at h
  | cons r rest ih =>
    intro h
    unfold findRow
    by_cases hc : r.aliases.contains op = true
    · simp only [hc, if_true]; exact ⟨r, rfl⟩
    · simp only [hc, Bool.false_eq_true, if_false]
      apply ih
      have hc' : r.aliases.contains op = false := by simpa using hc
      rw [List.filter_cons, hc'] at h
      simpa using h

theorem arity_ok (op : String) (c : Conn) (hc : docConn op = some c) (v w : Option Int)
    (hs : ArgsShape c v w) : assertOperatorArity op v w = .ok () := by
  obtain ⟨_, hu, hb, ht⟩ := vocab_op op c hc
  unfold assertOperatorArity
  rw [docConn_allOps op c hc]
  simp only [Bool.not_true, Bool.false_eq_true, if_false]
  rcases c.arity_cases with h1 | h1 | h1
  · have hm : Gen.unaryOps.contains op = true := by rw [← hu, h1]; rfl
    obtain ⟨hv, hw⟩ := hs.1 h1
    subst hv hw
    rw [hm]
    rfl
  · have hnu : Gen.unaryOps.contains op = false := by rw [← hu, h1]; rfl
    have hm : Gen.binaryOps.contains op = true := by rw [← hb, h1]; rfl
    obtain ⟨hv, hw⟩ := hs.2.1 h1
    subst hw
    obtain ⟨x, rfl⟩ := Option.isSome_iff_exists.mp hv
    rw [hnu, hm]
    rfl
  · have hnu : Gen.unaryOps.contains op = false := by rw [← hu, h1]; rfl
    have hnb : Gen.binaryOps.contains op = false := by rw [← hb, h1]; rfl
    have hm : Gen.ternaryOps.contains op = true := by rw [← ht, h1]; rfl
    obtain ⟨hv, hw⟩ := hs.2.2 h1
    obtain ⟨x, rfl⟩ := Option.isSome_iff_exists.mp hv
    obtain ⟨y, rfl⟩ := Option.isSome_iff_exists.mp hw
    rw [hnu, hnb, hm]
    rfl

theorem atomVal_ok (u v w : Int) (x : Atom) (h : atomOk x = true) : ∃ r, atomVal u v w x = .ok r := by
  cases x <;> first | exact ⟨_, rfl⟩ | (simp [atomOk] at h)

/-- `apply` on an implemented alias, with the operands the connective takes: the outcome of the
model is the outcome of one `ite` call (or the negated reference) -/
theorem mApply_okOrSched (m : MddMgr) (h : MInv m) (op : String) (c : Conn)
    (hc : docConn op = some c) (hprop : c ≠ .forall_ ∧ c ≠ .exists_)
    (u : Int) (v w : Option Int) (hs : ArgsShape c v w) (mu : m.tbl.Mem u)
    (mv : ∀ x, v = some x → m.tbl.Mem x) (mw : ∀ x, w = some x → m.tbl.Mem x) :
    (∃ r m', mApply op u v w m = (.ok r, m') ∧ ApplyOK m c u v w r m') ∨
    (∃ m', mApply op u v w m = (.error .sched, m') ∧ m.sched ≠ []) := by
  have hW := h.wf.toMWF
  obtain ⟨hfil, _, _, _⟩ := vocab_op op c hc
  obtain ⟨row, hrow⟩ := findRow_of_filter Gen.mddApplyTable (by rw [hfil]; exact Nat.one_pos)
  have hsound := mddRow_sound_of_find hrow
  -- whatever `apply` returns normally satisfies `ApplyOK`
  have hok : ∀ r m', mApply op u v w m = (.ok r, m') → ApplyOK m c u v w r m' :=
    fun r m' hr => mApply_spec m h op c hc u v w r m' hr
  -- it remains to see that the only possible error is the schedule mismatch
  have hmemu : m.mem u = true := (MTbl.mem_iff m.tbl h.term u).mpr mu
  have hnv : mddOptNotMem m v = false := by
    cases v with
    | none => rfl
    | some x => simp [mddOptNotMem, MddMgr.mem, (MTbl.mem_iff m.tbl h.term x).mpr (mv x rfl)]
  have hnw : mddOptNotMem m w = false := by
    cases w with
    | none => rfl
    | some x => simp [mddOptNotMem, MddMgr.mem, (MTbl.mem_iff m.tbl h.term x).mpr (mw x rfl)]
  suffices hT : (∃ r m', mApply op u v w m = (.ok r, m')) ∨
      (∃ m', mApply op u v w m = (.error .sched, m') ∧ m.sched ≠ []) by
    rcases hT with ⟨r, m', hr⟩ | hT
    · exact Or.inl ⟨r, m', hr, hok r m' hr⟩
    · exact Or.inr hT
  unfold mApply
  rw [arity_ok op c hc v w hs]
  simp only [hmemu, Bool.not_true, Bool.false_eq_true, if_false, hnv, hnw, hrow]
  unfold mddRowSound at hsound
  rw [hc] at hsound
  cases htempl : row.templ with
  | neg => exact Or.inl ⟨_, _, rfl⟩
  | quant a b d => rw [htempl] at hsound; cases c <;> simp at hsound
  | notImpl =>
    rw [htempl] at hsound
    exfalso
    cases c <;> simp at hsound <;> simp_all
  | bad => rw [htempl] at hsound; cases c <;> simp at hsound
  | ite x y z =>
    rw [htempl] at hsound
    have hs' : (c != .forall_ && c != .exists_ && c != .not &&
        atomOk x && atomOk y && atomOk z &&
        ((atomUsesW x || atomUsesW y || atomUsesW z) == (c.arity == 3)) &&
        bools.all fun u => bools.all fun v => bools.all fun w =>
          (if atomB u v w x then atomB u v w y else atomB u v w z) == c.eval u v w) = true := by
      cases c <;> simpa using hsound
    simp only [Bool.and_eq_true, bne_iff_ne, ne_eq, beq_iff_eq] at hs'
    obtain ⟨⟨⟨⟨⟨⟨⟨_, _⟩, hnot⟩, hox⟩, hoy⟩, hoz⟩, huse⟩, _⟩ := hs'
    -- not unary: the second operand is there
    have har : c.arity = 2 ∨ c.arity = 3 := by
      rcases c.arity_cases with h1 | h1 | h1
      · exfalso; cases c <;> simp [Conn.arity] at h1 <;> simp_all
      · exact Or.inl h1
      · exact Or.inr h1
    have hvs : v.isSome = true := by
      rcases har with h1 | h1
      · exact (hs.2.1 h1).1
      · exact (hs.2.2 h1).1
    obtain ⟨vv, rfl⟩ := Option.isSome_iff_exists.mp hvs
    simp only
    -- the third operand, when the template reads it
    have hwx : ∃ ww, (if (decide (x = Atom.w) || decide (x = Atom.nw) || decide (y = Atom.w) ||
        decide (y = Atom.nw) || decide (z = Atom.w) || decide (z = Atom.nw)) = true then w
        else some (w.getD 0)) = some ww ∧
        (∀ q : Atom, (q = x ∨ q = y ∨ q = z) → atomUsesW q = true → m.tbl.Mem ww) := by
      by_cases hneeds : (decide (x = Atom.w) || decide (x = Atom.nw) || decide (y = Atom.w) ||
          decide (y = Atom.nw) || decide (z = Atom.w) || decide (z = Atom.nw)) = true
      · rw [if_pos hneeds]
        have hu3 : (atomUsesW x || atomUsesW y || atomUsesW z) = true := by
          simp only [Bool.or_eq_true, decide_eq_true_eq] at hneeds
          rcases hneeds with ((((h1 | h1) | h1) | h1) | h1) | h1 <;> subst h1 <;> simp [atomUsesW]
        have h3 : c.arity = 3 := by
          rw [hu3] at huse
          simpa using huse.symm
        obtain ⟨ww, hww⟩ := Option.isSome_iff_exists.mp (hs.2.2 h3).2
        exact ⟨ww, hww, fun _ _ _ => mw ww hww⟩
      · rw [if_neg hneeds]
        refine ⟨w.getD 0, rfl, ?_⟩
        intro q hq hqu
        exfalso
        apply hneeds
        rcases hq with rfl | rfl | rfl <;> cases q <;> simp [atomUsesW] at hqu <;> simp
    obtain ⟨ww, hww, hwmem⟩ := hwx
    rw [hww]
    simp only
    obtain ⟨a', ha⟩ := atomVal_ok u vv ww x hox
    obtain ⟨b', hb⟩ := atomVal_ok u vv ww y hoy
    obtain ⟨c', hcc⟩ := atomVal_ok u vv ww z hoz
    rw [ha, hb, hcc]
    simp only
    have mvv := mv vv rfl
    have A := denM_atomVal m.tbl hW u vv ww x a' (fun _ => 0) false mu mvv
    have mema : ∀ (q : Atom) (r : Int), (q = x ∨ q = y ∨ q = z) → atomVal u vv ww q = .ok r → m.tbl.Mem r := by
      intro q r hq hqr
      cases q <;> simp only [atomVal, Except.ok.injEq] at hqr <;> try subst hqr
      · exact mu
      · exact mvv
      · exact hwmem _ hq rfl
      · exact MTbl.mem_neg mu
      · exact MTbl.mem_neg mvv
      · exact MTbl.mem_neg (hwmem _ hq rfl)
      · exact Or.inl rfl
      · exact Or.inl rfl
      · cases hqr
    rcases mIte_okOrSched m h a' b' c' (mema x a' (Or.inl rfl) ha) (mema y b' (Or.inr (Or.inl rfl)) hb)
        (mema z c' (Or.inr (Or.inr rfl)) hcc) with ⟨r, m', hr, _⟩ | ⟨m', hr, hne⟩
    · exact Or.inl ⟨r, m', hr⟩
    · exact Or.inr ⟨m', hr, hne⟩

/-- with no recorded schedule: total -/
theorem mApply_total (m : MddMgr) (h : MInv m) (hs0 : m.sched = []) (op : String) (c : Conn)
    (hc : docConn op = some c) (hprop : c ≠ .forall_ ∧ c ≠ .exists_)
    (u : Int) (v w : Option Int) (hs : ArgsShape c v w) (mu : m.tbl.Mem u)
    (mv : ∀ x, v = some x → m.tbl.Mem x) (mw : ∀ x, w = some x → m.tbl.Mem x) :
    ∃ r m', mApply op u v w m = (.ok r, m') ∧ ApplyOK m c u v w r m' := by
  rcases mApply_okOrSched m h op c hc hprop u v w hs mu mv mw with ⟨r, m', hr, hok⟩ | ⟨_, _, hne⟩
  · exact ⟨r, m', hr, hok⟩
  · exact absurd hs0 hne

end DD
