/-
  DDProofs.Capacity3Cofactor — `_cofactor` / `BDD.cofactor` / `let` with Boolean values, with
  `max_nodes = cap`: the twin over `findOrAdd` is the model; three-outcome specification over ANY
  `find_or_add` with one; instance `max_nodes = cap`; the decorated call keeps `DynInv` after ANY
  outcome.
-/
import DD.Capacity3Cofactor
import DDProofs.Capacity3Quantify
import DDProofs.DynCofactor
open Std

namespace DD

theorem cofactorFG_model (values : List (Nat × Bool)) :
    ∀ f u ov c, cofactorFG findOrAdd values f u ov c = cofactorF values f u ov c := by
  intro f
  induction f with
  | zero => intros; rfl
  | succ f ih =>
    intro u ov c
    funext m
    unfold cofactorFG cofactorF
    simp only [ih]
    rfl

theorem cofactorG_model : cofactorG findOrAdd = cofactor := by
  funext u d
  unfold cofactorG cofactor cofactorBodyG cofactorBody
  simp only [cofactorFG_model]
  rfl

/-- GENERIC: `_cofactor` over a `find_or_add` with a three-outcome specification has one (the
proof of `cofactorF_out`, third outcome carried along) -/
theorem cofactorFG_outX (E : Err → Prop) (foa : Int → Int → Int → M Int) (hfoa : FoaX E foa)
    (values : List (Nat × Bool)) :
    ∀ (f : Nat) (m : Mgr) (u : Int) (ordvar : List Nat) (cache : HashMap Int Int),
    Inv m → m.tbl.Mem u → CofMemo values m.tbl cache →
    (∀ j, (values.lookup j).isSome = true → m.tbl.levelOf u ≤ j → j ∈ ordvar) →
    m.nvars + 1 ≤ f + m.tbl.levelOf u →
    OutcomeX2 E m (fun r c m' => CofMemo values m'.tbl c ∧ CofEntry values m'.tbl u r)
      (cofactorFG foa values f u ordvar cache m) := by
  intro f
  induction f with
  | zero =>
    intro m u ordvar cache hI hu _ _ hf
    have := levelOf_le m.tbl hI.wf.toWF u
    have : m.nvars = m.tbl.nvars := rfl
    omega
  | succ f ih =>
    intro m u ordvar cache hI hu hmemo hord hf
    have hW := hI.wf.toWF
    unfold cofactorFG
    by_cases h1 : u.natAbs = 1
    · simp only [h1, if_true]
      exact ⟨StepK.refl hI, hmemo, hu, hu, Nat.le_refl _, fun a => den_term_any _ u h1 _ _⟩
    · simp only [h1, if_false]
      cases hc : cache[u]? with
      | some r => exact ⟨StepK.refl hI, hmemo, hmemo u r hc⟩
      | none =>
        simp only
        obtain ⟨n, hn⟩ := mem_node hu h1
        have hn' : m.tbl.succ[u.natAbs]? = some n := hn
        rw [hn']
        simp only [node_succ_ne_zero hW hn, if_false]
        have hlu := levelOf_node m.tbl u n h1 hn
        have hlo := hW.lo_lt _ _ hn
        have hhi := hW.hi_lt _ _ hn
        have hltn := hW.lvl_lt _ _ hn
        have hnv : m.nvars = m.tbl.nvars := rfl
        have hord' : ∀ j, (values.lookup j).isSome = true → n.lvl ≤ j →
            j ∈ ordvar.dropWhile (· < n.lvl) := by
          intro j hj hle
          exact mem_dropWhile_of_not _ j ordvar (hord j hj (by omega)) (by simpa using hle)
        generalize ordvar.dropWhile (· < n.lvl) = ov at hord' ⊢
        by_cases hemp : ov.isEmpty = true
        · simp only [hemp, if_true]
          refine ⟨StepK.refl hI, hmemo, hu, hu, Nat.le_refl _, ?_⟩
          intro a
          apply den_agree_ge m.tbl hW u hu
          intro i hi _
          simp only [ovr]
          cases hl : values.lookup i with
          | none => rfl
          | some b =>
            exfalso
            have := hord' i (by simp [hl]) (by omega)
            rw [List.isEmpty_iff.mp hemp] at this
            cases this
        · simp only [hemp, Bool.false_eq_true, if_false]
          cases hl : values.lookup n.lvl with
          | some val =>
            simp only
            have hcm : m.tbl.Mem (if val then n.hi else n.lo) := by
              cases val
              · exact hW.lo_mem _ _ hn
              · exact hW.hi_mem _ _ hn
            have hcl : n.lvl < m.tbl.levelOf (if val then n.hi else n.lo) := by
              cases val
              · exact hlo
              · exact hhi
            rcases (ih m (if val then n.hi else n.lo) ov cache
              hI hcm hmemo (fun j hj hle => hord' j hj (by omega)) (by omega)).cases with
              ⟨r0, c1, m1, he1, hs1, hm1, hp1⟩ | ⟨e1, m1, he1, hs1, ha1, hx1⟩
            rotate_left
            · rw [he1]; exact OutcomeX2.fail0 hs1 ha1 hx1
            rw [he1]
            simp only
            have hW1 := hs1.inv.wf.toWF
            have hn1 : m1.tbl.node? u.natAbs = some n := hs1.ext.nodes _ _ hn
            have hent : CofEntry values m1.tbl u (if u < 0 then -r0 else r0) := by
              refine ⟨hs1.ext.mem hu, mem_flip u hp1.mr, ?_, ?_⟩
              · rw [levelOf_flip, hs1.ext.levelOf hu, hlu]
                have := hp1.lvl
                rw [hs1.ext.levelOf hcm] at this
                omega
              · intro a
                rw [den_flip m1.tbl hW1 r0 u a hp1.mr, hp1.den a,
                  den_node m1.tbl hW1 u n _ h1 hn1]
                have : ovr values a n.lvl = val := by simp [ovr, hl]
                rw [this]
                cases val <;> rfl
            exact ⟨hs1, hm1.insert hent, hent⟩
          | none =>
            simp only
            rcases (ih m n.lo ov cache
              hI (hW.lo_mem _ _ hn) hmemo (fun j hj hle => hord' j hj (by omega)) (by omega)).cases with
              ⟨p, c1, m1, he1, hs1, hm1, hp1⟩ | ⟨e1, m1, he1, hs1, ha1, hx1⟩
            rotate_left
            · rw [he1]; exact OutcomeX2.fail0 hs1 ha1 hx1
            rw [he1]
            simp only
            have hW1 := hs1.inv.wf.toWF
            have hhim1 : m1.tbl.Mem n.hi := hs1.ext.mem (hW.hi_mem _ _ hn)
            have hhil1 : m1.tbl.levelOf n.hi = m.tbl.levelOf n.hi :=
              hs1.ext.levelOf (hW.hi_mem _ _ hn)
            rcases (ih m1 n.hi ov c1
              hs1.inv hhim1 hm1
              (fun j hj hle => hord' j hj (by omega)) (by rw [hs1.nvars]; omega)).cases with
              ⟨q, c2, m2, he2, hs2, hm2, hp2⟩ | ⟨e2, m2, he2, hs2, ha2, hx2⟩
            rotate_left
            · rw [he2]; exact OutcomeX2.fail hs1 hs2 ha2 hx2
            rw [he2]
            simp only
            have hW2 := hs2.inv.wf.toWF
            have hp1' := hp1.ext hW1 hs2.ext
            have hs12 := hs1.trans hs2
            have hlp : n.lvl < m2.tbl.levelOf p := by
              have := hp1'.lvl
              rw [hs12.ext.levelOf (hW.lo_mem _ _ hn)] at this
              omega
            have hlq : n.lvl < m2.tbl.levelOf q := by
              have := hp2.lvl
              rw [hs12.ext.levelOf (hW.hi_mem _ _ hn)] at this
              omega
            rcases (hfoa m2 n.lvl p q hs2.inv
              (by rw [hs12.nvars]; exact hltn) hp1'.mr hp2.mr hlp hlq).cases2 with
              ⟨r3, m3, he3, hk3, hp3⟩ | ⟨e3, m3, he3, hk3, ha3, hx3⟩
            rotate_left
            · rw [he3]; exact OutcomeX2.fail hs12 hk3 ha3 hx3
            rw [he3]
            simp only
            have hs3 := hs12.trans hk3
            have hW3 := hp3.inv.wf.toWF
            have hn3 : m3.tbl.node? u.natAbs = some n := hs3.ext.nodes _ _ hn
            have hp1'' := hp1'.ext hW2 hp3.ext
            have hp2'' := hp2.ext hW2 hp3.ext
            have hent : CofEntry values m3.tbl u (if u < 0 then -r3 else r3) := by
              refine ⟨hs3.ext.mem hu, mem_flip u hp3.mem, ?_, ?_⟩
              · rw [levelOf_flip, hs3.ext.levelOf hu, hlu]; exact hp3.lvl
              · intro a
                rw [den_flip m3.tbl hW3 r3 u a hp3.mem, hp3.den a,
                  den_node m3.tbl hW3 u n _ h1 hn3,
                  ← den_ext hp3.ext hW2 q a hp2.mr, ← den_ext hp3.ext hW2 p a hp1'.mr,
                  hp1''.den a, hp2''.den a]
                have : ovr values a n.lvl = a n.lvl := by simp [ovr, hl]
                rw [this]
            exact ⟨hs3, ((hm2.ext hW2 hp3.ext).insert hent), hent⟩


/-- body of `cofactor` for ANY node and ANY dictionary -/
theorem cofactorBodyG_totE (E : Err → Prop) (foa : Int → Int → Int → M Int) (hfoa : FoaX E foa)
    (m : Mgr) (hI : Inv m) (u : Int) (values : List (Key × Bool)) :
    TotE m (cofactorBodyG foa u values m) := by
  unfold cofactorBodyG
  cases hlv : mapToLevelE m.tbl (values.map (·.1)) with
  | error e =>
    exact TotE.same hI _ (by
      intro h; cases h
      exact mapToLevelE_noNR _ _ hlv)
  | ok lv =>
    simp only
    by_cases hu : m.tbl.Mem u
    · have hmem : m.mem u = true := (Mgr.mem_iff m u).mpr hu
      simp only [hmem, Bool.not_true, Bool.false_eq_true, if_false]
      have h := cofactorFG_outX E foa hfoa ((lv.zip (values.map (·.2))).reverse) (m.nvars + 2) m u
        (sortNat (dedup lv)) {} hI hu (CofMemo.empty _ _)
        (fun j hj _ => (mem_ordvar j lv).mpr (lookup_zip_reverse_mem lv _ j hj)) (by omega)
      have ht := (OutcomeX.toE h).tot
      split
      · next heq => exact ht.err_of heq
      · next heq => exact TotE.ok (ht.step_of heq) _
    · have hm : m.mem u = false := (Tbl.mem_false_iff _ _).mpr hu
      simp only [hm, Bool.not_false, if_true]
      exact TotE.same hI _ (by simp)

/-- `_cofactor` with `max_nodes = cap` -/
theorem cofactorCapF_outX (cap : Nat) (values : List (Nat × Bool)) (f : Nat) (m : Mgr) (u : Int)
    (ordvar : List Nat) (cache : HashMap Int Int) (hI : Inv m) (hu : m.tbl.Mem u)
    (hmemo : CofMemo values m.tbl cache)
    (hord : ∀ j, (values.lookup j).isSome = true → m.tbl.levelOf u ≤ j → j ∈ ordvar)
    (hf : m.nvars + 1 ≤ f + m.tbl.levelOf u) :
    OutcomeX2 (fun e => e = .runtime) m
      (fun r c m' => CofMemo values m'.tbl c ∧ CofEntry values m'.tbl u r)
      (cofactorFG (findOrAddCap cap) values f u ordvar cache m) :=
  cofactorFG_outX _ _ (findOrAddCap_foaX cap) values f m u ordvar cache hI hu hmemo hord hf

/-- `BDD.cofactor` with capacity: ANY node, ANY dictionary, whatever it returns or raises -/
theorem cofactorCap_total_dyn (cap : Nat) (ext : Nat → Nat) (m : Mgr) (hD : DynInv ext m)
    (u : Int) (values : List (Key × Bool)) : DynTotal ext m (cofactorCap cap u values m) :=
  tryToReorder_total_dyn ext (siftContract ext) _
    (fun m0 hI _ _ => cofactorBodyG_totE _ _ (findOrAddCap_foaX cap) m0 hI u values) m hD

/-- `BDD.let({name: bool}, u)` with capacity -/
theorem letBoolsCap_total_dyn (cap : Nat) (ext : Nat → Nat) (m : Mgr) (hD : DynInv ext m)
    (d : List (Key × Bool)) (u : Int) : DynTotal ext m (letBoolsG (cofactorCap cap) d u m) := by
  unfold letBoolsG
  split
  · exact DynTotal.same hD _ (by simp [pure, M.pure'])
  · exact cofactorCap_total_dyn cap ext m hD u _

theorem letBoolsG_model (d : List (Key × Bool)) (u : Int) :
    letBoolsG cofactor d u = letOp (.bools d) u := by
  unfold letBoolsG letOp
  cases d <;> rfl

end DD
