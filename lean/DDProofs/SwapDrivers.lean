/-
  DDProofs.SwapDrivers — the abstract contract `SwapOK` / `SiftEnv` of DDProofs.OrderAbs,
  discharged by `swapBody_spec` and the collection specification of DDProofs.GcSpec; the public
  entry point `swap(x, y)` (names or levels, either order, with or without the initial full
  collection).
-/
import DDProofs.SwapFull
import DDProofs.ShiftAbs
open Std

namespace DD

/-- the state predicate kept by every reordering operation: the invariant, the name maps, exact
counts w.r.t. the ledger `ext` of externally held references, reordering requests not armed
(explicit reordering; inside `_try_to_reorder` the request is disabled by `_last_len = None`),
and every element of `bdd.roots` held -/
structure ReorderInv (ext : Nat → Nat) (m : Mgr) : Prop where
  inv : Inv m
  order : OrderOK m.tbl
  refExact : RefExact m ext
  off : m.ctx = false ∨ m.lastLen = none
  rootsHeld : ∀ r ∈ m.roots, 0 < ext r.natAbs

/-- every externally held reference denotes the same function of the variable names -/
def HeldSame (ext : Nat → Nat) (m m' : Mgr) : Prop :=
  ∀ u : Nat, 0 < ext u → ∀ a, denN m'.tbl (u : Int) a = denN m.tbl (u : Int) a

/-- what every reordering operation keeps between the state before and after: held references
denote the same functions, the same names are declared, and the fields other than the node
table, the counters, the order and the consumed schedule are untouched -/
structure ReorderRel (ext : Nat → Nat) (m m' : Mgr) : Prop where
  held : HeldSame ext m m'
  names : ∀ v : String, m'.tbl.vars.contains v = m.tbl.vars.contains v
  nvars : m'.nvars = m.nvars
  roots : m'.roots = m.roots
  ctx : m'.ctx = m.ctx
  lastLen : m'.lastLen = m.lastLen
  sched : m.sched = [] → m'.sched = []

theorem ReorderRel.refl (ext : Nat → Nat) (m : Mgr) : ReorderRel ext m m :=
  ⟨fun _ _ _ => rfl, fun _ => rfl, rfl, rfl, rfl, rfl, fun h => h⟩

theorem ReorderRel.trans {ext : Nat → Nat} {a b c : Mgr} (h1 : ReorderRel ext a b)
    (h2 : ReorderRel ext b c) : ReorderRel ext a c :=
  ⟨fun u hu x => (h2.held u hu x).trans (h1.held u hu x), fun v => (h2.names v).trans (h1.names v),
   h2.nvars.trans h1.nvars, h2.roots.trans h1.roots, h2.ctx.trans h1.ctx, h2.lastLen.trans h1.lastLen,
   fun h => h2.sched (h1.sched h)⟩

theorem ReorderInv.held_mem {ext : Nat → Nat} {m : Mgr} (h : ReorderInv ext m) {u : Nat}
    (hu : 0 < ext u) : m.tbl.Mem (u : Int) := by
  simpa [Tbl.Mem] using h.refExact.mem_of_ext_pos hu

/-- the only exception allowed: the model's schedule-mismatch report -/
abbrev SchedErr : Err → Prop := fun e => e = Err.sched
/-- no exception allowed -/
abbrev NoErr : Err → Prop := fun _ => False

theorem swapOK (ext : Nat → Nat) : SwapOK SchedErr (ReorderInv ext) (ReorderRel ext) := by
  refine ⟨ReorderRel.refl ext, fun a b c h1 h2 => h1.trans h2, fun m h => h.order, ?_, ?_⟩
  · intro m h r hr
    have := h.refExact.mem_of_ext_pos (h.rootsHeld r hr)
    exact (Mgr.mem_iff m r).mpr this
  · intro m i h hi
    refine OkOr.mono ?_ (swapBody_spec m ext h.inv h.order h.refExact h.off i hi)
    intro r m' ⟨hp, hsch⟩
    refine ⟨⟨hp.inv, hp.order, hp.refExact, ?_, ?_⟩,
      ⟨?_, hp.names, hp.exch.nvars, hp.exch.roots, hp.ctx, hp.lastLen, hsch⟩, hp.exch, hp.sizes⟩
    · rw [hp.ctx, hp.lastLen]; exact h.off
    · rw [hp.exch.roots]; exact h.rootsHeld
    · intro u hu a
      obtain ⟨h0, h1⟩ := hp.held u hu
      exact hp.denN _ h0 h1 a

/-- with no recorded schedule (the model iterates in ascending order) nothing can fail -/
theorem swapOK0 (ext : Nat → Nat) :
    SwapOK NoErr (fun m => ReorderInv ext m ∧ m.sched = []) (ReorderRel ext) := by
  refine ⟨ReorderRel.refl ext, fun a b c h1 h2 => h1.trans h2, fun m h => h.1.order,
    fun m h => (swapOK ext).roots m h.1, ?_⟩
  intro m i h hi
  obtain ⟨r, m', hrun, hp, hs'⟩ :=
    swapBody_total m ext h.1.inv h.1.order h.1.refExact h.1.off i hi h.2
  rw [hrun]
  refine ⟨⟨⟨hp.inv, hp.order, hp.refExact, ?_, ?_⟩, hs'⟩,
    ⟨?_, hp.names, hp.exch.nvars, hp.exch.roots, hp.ctx, hp.lastLen, fun _ => hs'⟩, hp.exch, hp.sizes⟩
  · rw [hp.ctx, hp.lastLen]; exact h.1.off
  · rw [hp.exch.roots]; exact h.1.rootsHeld
  · intro u hu a
    obtain ⟨h0, h1⟩ := hp.held u hu
    exact hp.denN _ h0 h1 a

/-- a collection keeps `ReorderInv` and the denotation of every held reference -/
theorem gcSub_keeps {ext : Nat → Nat} {m m' : Mgr} (h : ReorderInv ext m) (hI : Inv m')
    (hR : RefExact m' ext) (hs : GcSub m m') : ReorderInv ext m' ∧ ReorderRel ext m m' := by
  have hv : m'.tbl.vars = m.tbl.vars := hs.vars
  have hl : m'.tbl.l2v = m.tbl.l2v := hs.l2v
  have hn : m'.tbl.nvars = m.tbl.nvars := by show m'.tbl.vars.size = _; rw [hv]; rfl
  refine ⟨⟨hI, ?_, hR, ?_, ?_⟩, ⟨?_, fun v => by rw [hv], hn, hs.roots, hs.ctx, hs.lastLen,
    fun h0 => by rw [hs.sched]; exact h0⟩⟩
  · exact ⟨fun v i => by rw [hv, hl]; exact h.order.inv v i,
      fun v i => by rw [hv, hn]; exact h.order.lt v i,
      fun i => by rw [hn, hl]; exact h.order.total i⟩
  · rw [hs.ctx, hs.lastLen]; exact h.off
  · rw [hs.roots]; exact h.rootsHeld
  · intro u hu a
    have h1 : m'.tbl.Mem (u : Int) := by simpa [Tbl.Mem] using hR.mem_of_ext_pos hu
    unfold denN Tbl.lift Tbl.nameOf
    rw [hl]
    exact den_sub hs hI.wf.toWF _ h1 _

theorem siftEnv (ext : Nat → Nat) : SiftEnv SchedErr (ReorderInv ext) (ReorderRel ext) := by
  refine { toSwapOK := swapOK ext, gc := ?_, sched := ?_ }
  · intro m h
    obtain ⟨m', hrun, hp⟩ := collectGarbage_spec m ext h.inv h.refExact
    obtain ⟨a, b⟩ := gcSub_keeps h hp.inv hp.refExact hp.sub
    exact ⟨m', hrun, a, b, hp.sub.vars⟩
  · intro m s h hs0
    exact ⟨⟨h.inv.setSched s, h.order, h.refExact.congr rfl rfl, h.off, h.rootsHeld⟩,
      ⟨fun u _ a => rfl, fun _ => rfl, rfl, rfl, rfl, rfl, hs0⟩⟩

/-! ### the public entry point `swap(x, y, all_levels=None)` -/

/-- the argument denotes the level `i` (a declared name at that level, or the number itself) -/
def Resolves (m : Mgr) (a : VarOrLevel) (i : Nat) : Prop :=
  match a with
  | .name s => m.tbl.vars[s]? = some i
  | .level j => j = (i : Int)

theorem resolveVL_ok {m : Mgr} {a : VarOrLevel} {i : Nat} (h : Resolves m a i) :
    resolveVL a m = (.ok (i : Int), m) := by
  unfold resolveVL
  rw [M.bind_ok (M.get_eq m)]
  cases a with
  | name s =>
    have h' : m.tbl.vars[s]? = some i := h
    simp only [h', M.ofOption_some, M.bind_eq, M.pure_eq]
  | level j =>
    have h' : j = (i : Int) := h
    subst h'; rfl

/-- `swap(x, y, levels)` on arguments that denote two adjacent levels, in either order -/
theorem swap_eq_body (m : Mgr) (xa ya : VarOrLevel) (x a b : Nat) (hx : x + 1 < m.nvars)
    (ha : Resolves m xa a) (hb : Resolves m ya b) (hab : (a = x ∧ b = x + 1) ∨ (a = x + 1 ∧ b = x)) :
    swap xa ya true m = swapBody x (x + 1) m := by
  unfold swap
  simp only [Bool.not_true, Bool.false_eq_true, if_false]
  rw [M.bind_ok (resolveVL_ok ha), M.bind_ok (resolveVL_ok hb), M.bind_ok (M.get_eq m)]
  have hn : m.nvars = m.tbl.nvars := rfl
  rcases hab with ⟨rfl, rfl⟩ | ⟨rfl, rfl⟩
  · have h1 : (decide (0 ≤ (a : Int)) && decide ((a : Int) < (m.nvars : Int))) = true := by
      simp; omega
    have h2 : (decide (0 ≤ ((a + 1 : Nat) : Int)) && decide (((a + 1 : Nat) : Int) < (m.nvars : Int))) = true := by
      simp; omega
    have h3 : ¬ ((a : Int) > ((a + 1 : Nat) : Int)) := by omega
    simp only [h1, h2, h3, Bool.not_true, Bool.false_eq_true, if_false]
    have h4 : ¬ ((a : Int) ≥ ((a + 1 : Nat) : Int)) := by omega
    have h5 : ¬ (((a + 1 : Nat) : Int) - (a : Int) ≠ 1) := by omega
    simp only [h4, h5, if_false, Int.toNat_natCast]
  · have h1 : (decide (0 ≤ (b : Int)) && decide ((b : Int) < (m.nvars : Int))) = true := by
      simp; omega
    have h2 : (decide (0 ≤ ((b + 1 : Nat) : Int)) && decide (((b + 1 : Nat) : Int) < (m.nvars : Int))) = true := by
      simp; omega
    have h3 : (((b + 1 : Nat) : Int) > (b : Int)) := by omega
    simp only [h1, h2, h3, Bool.not_true, Bool.false_eq_true, if_false, if_true]
    have h4 : ¬ ((b : Int) ≥ ((b + 1 : Nat) : Int)) := by omega
    have h5 : ¬ (((b + 1 : Nat) : Int) - (b : Int) ≠ 1) := by omega
    simp only [h4, h5, if_false, Int.toNat_natCast]

/-- without `all_levels` the call first runs a full collection -/
theorem swap_public_eq (xa ya : VarOrLevel) (m : Mgr) :
    swap xa ya false m = (collectGarbage none >>= fun _ => swap xa ya true) m := by
  unfold swap
  simp only [Bool.not_false, if_true, Bool.not_true, Bool.false_eq_true, if_false]

/-- **`swap(x, y)`** (public form: names or levels of two adjacent levels, in either order, preceded
by the full collection): returns normally for every schedule, keeps `ReorderInv`, exchanges
exactly the two names, every held reference keeps its denotation, returns `(len after the
collection, len at the end)`. -/
theorem swap_public_spec (ext : Nat → Nat) (m : Mgr) (h : ReorderInv ext m) (xa ya : VarOrLevel)
    (x a b : Nat) (hx : x + 1 < m.nvars) (ha : Resolves m xa a) (hb : Resolves m ya b)
    (hab : (a = x ∧ b = x + 1) ∨ (a = x + 1 ∧ b = x)) :
    OkOrSched (fun r m' => ReorderInv ext m' ∧ ReorderRel ext m m' ∧ Exch m m' x ∧ r.2 = m'.len ∧
        r.1 ≤ m.len)
      (swap xa ya false m) := by
  rw [swap_public_eq]
  obtain ⟨mg, hrun, hp⟩ := collectGarbage_spec m ext h.inv h.refExact
  rw [M.bind_ok hrun]
  obtain ⟨hg, hsame⟩ := gcSub_keeps h hp.inv hp.refExact hp.sub
  have hv : mg.tbl.vars = m.tbl.vars := hp.sub.vars
  have hn : mg.nvars = m.nvars := by show mg.tbl.vars.size = _; rw [hv]; rfl
  have ha' : Resolves mg xa a := by
    cases xa with
    | name s => show mg.tbl.vars[s]? = some a; rw [hv]; exact ha
    | level j => exact ha
  have hb' : Resolves mg ya b := by
    cases ya with
    | name s => show mg.tbl.vars[s]? = some b; rw [hv]; exact hb
    | level j => exact hb
  rw [swap_eq_body mg xa ya x a b (by rw [hn]; exact hx) ha' hb' hab]
  refine OkOr.mono ?_ ((swapOK ext).step mg x hg (by rw [hn]; exact hx))
  intro r m' ⟨hP', hR', hE, hr⟩
  refine ⟨hP', hsame.trans hR', ⟨?_, hE.nvars.trans hn, hE.roots.trans hp.sub.roots⟩, ?_, ?_⟩
  · intro j; rw [hE.l2v j, hp.sub.l2v]
  · rw [hr]
  · rw [hr]
    have := hp.sub.size
    show mg.tbl.succ.size + 1 ≤ m.tbl.succ.size + 1
    omega

end DD
