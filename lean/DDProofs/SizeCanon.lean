/-
  DDProofs.SizeCanon — the number of nodes is determined by the variable order and the functions
  of the externally held references (needed for the size assertions of sifting, C07).

  Two managers with the invariant, exact counts for the same ledger, no unreferenced node,
  the same number of variables, in which every held reference denotes the same function of the
  LEVELS, have the same number of nodes: `len_determined`.
  Proof: every node is reachable from a held reference (C06), reachability transports the relation
  "denotes the same function" from one table to the other (cofactors of equal functions are equal,
  and a node sits at the least level its function depends on), and by canonicity this relation is
  a bijection between the two node sets.
-/
import DDProofs.SwapSem
import DDProofs.GcSpec
open Std

namespace DD

/-! ### dependence on levels -/

/-- the denotation reads only the levels below `nvars` -/
theorem den_agree (t : Tbl) (hw : WF t) :
    ∀ k u, t.Mem u → t.nvars ≤ k + t.levelOf u → ∀ a b : Asg, (∀ i, i < t.nvars → a i = b i) →
      den t u a = den t u b := by
  intro k
  induction k with
  | zero =>
    intro u hm hk a b _
    by_cases h1 : u.natAbs = 1
    · rcases abs_one h1 with h | h <;> subst h
      · rw [den_one, den_one]
      · rw [den_neg_one, den_neg_one]
    · rcases hm with hm | hm
      · exact absurd hm h1
      · obtain ⟨n, hn⟩ := Option.isSome_iff_exists.mp hm
        have := levelOf_node t u n h1 hn
        have := hw.lvl_lt _ _ hn
        omega
  | succ k ih =>
    intro u hm hk a b hab
    by_cases h1 : u.natAbs = 1
    · rcases abs_one h1 with h | h <;> subst h
      · rw [den_one, den_one]
      · rw [den_neg_one, den_neg_one]
    · rcases hm with hm | hm
      · exact absurd hm h1
      · obtain ⟨n, hn⟩ := Option.isSome_iff_exists.mp hm
        have hl := levelOf_node t u n h1 hn
        rw [den_node t hw u n a h1 hn, den_node t hw u n b h1 hn]
        have h2 := hw.hi_lt _ _ hn
        have h3 := hw.lo_lt _ _ hn
        rw [ih n.hi (hw.hi_mem _ _ hn) (by omega) a b hab, ih n.lo (hw.lo_mem _ _ hn) (by omega) a b hab,
          hab n.lvl (hw.lvl_lt _ _ hn)]

theorem den_agree' (t : Tbl) (hw : WF t) (u : Int) (hm : t.Mem u) (a b : Asg)
    (hab : ∀ i, i < t.nvars → a i = b i) : den t u a = den t u b :=
  den_agree t hw t.nvars u hm (by omega) a b hab

/-- a stored node depends on its own level -/
theorem node_depends (t : Tbl) (hw : WFU t) (u : Int) (hu : t.Mem u) (h1 : u.natAbs ≠ 1) :
    ∃ b : Asg, den t u (upd b (t.levelOf u) true) ≠ den t u (upd b (t.levelOf u) false) := by
  have hW := hw.toWF
  rcases hu with hu' | hu'
  · exact absurd hu' h1
  obtain ⟨n, hn⟩ := Option.isSome_iff_exists.mp hu'
  rw [levelOf_node t u n h1 hn]
  apply Classical.byContradiction
  intro hall
  have hall' : ∀ b : Asg, den t u (upd b n.lvl true) = den t u (upd b n.lvl false) := by
    intro b
    apply Classical.byContradiction
    intro hne
    exact hall ⟨b, hne⟩
  have : n.hi = n.lo := by
    apply (canonical t hw n.hi n.lo (hW.hi_mem _ _ hn) (hW.lo_mem _ _ hn)).mp
    intro a
    have e1 := den_node t hW u n (upd a n.lvl true) h1 hn
    have e2 := den_node t hW u n (upd a n.lvl false) h1 hn
    simp only [upd_same, if_true] at e1
    simp only [upd_same] at e2
    rw [den_indep' t hW n.hi (hW.hi_mem _ _ hn) n.lvl true a (hW.hi_lt _ _ hn)] at e1
    rw [den_indep' t hW n.lo (hW.lo_mem _ _ hn) n.lvl false a (hW.lo_lt _ _ hn)] at e2
    have := hall' a
    rw [e1, e2] at this
    simp only [Bool.false_eq_true, if_false] at this
    cases hd : decide (u < 0) <;> simp [hd] at this <;> exact this
  exact hW.lo_ne_hi _ _ hn this.symm

/-! ### the same function in two tables -/

/-- `r1` in `t1` and `r2` in `t2` denote the same function of the levels -/
def SameFn (t1 t2 : Tbl) (r1 r2 : Int) : Prop :=
  t1.Mem r1 ∧ t2.Mem r2 ∧ ∀ b : Asg, den t1 r1 b = den t2 r2 b

theorem SameFn.symm {t1 t2 : Tbl} {r1 r2 : Int} (h : SameFn t1 t2 r1 r2) : SameFn t2 t1 r2 r1 :=
  ⟨h.2.1, h.1, fun b => (h.2.2 b).symm⟩

theorem SameFn.neg {t1 t2 : Tbl} (h1 : WF t1) (h2 : WF t2) {r1 r2 : Int} (h : SameFn t1 t2 r1 r2) :
    SameFn t1 t2 (-r1) (-r2) :=
  ⟨mem_neg h.1, mem_neg h.2.1, fun b => by
    rw [den_neg t1 h1 r1 b h.1, den_neg t2 h2 r2 b h.2.1, h.2.2 b]⟩

/-- one direction of `same_level` -/
theorem SameFn.level_le {t1 t2 : Tbl} (h1 : WFU t1) (h2 : WFU t2) (hn : t1.nvars = t2.nvars)
    {r1 r2 : Int} (h : SameFn t1 t2 r1 r2) : t2.levelOf r2 ≤ t1.levelOf r1 := by
  apply Classical.byContradiction
  intro hlt
  have hlt' : t1.levelOf r1 < t2.levelOf r2 := by omega
  have hle := levelOf_le t2 h2.toWF r2
  have h11 : r1.natAbs ≠ 1 := by
    intro e; rw [levelOf_term t1 r1 e] at hlt'; omega
  obtain ⟨b, hb⟩ := node_depends t1 h1 r1 h.1 h11
  apply hb
  rw [h.2.2, h.2.2, den_indep' t2 h2.toWF r2 h.2.1 _ true b hlt',
    den_indep' t2 h2.toWF r2 h.2.1 _ false b hlt']

/-- equal functions sit at the same level -/
theorem SameFn.level_eq {t1 t2 : Tbl} (h1 : WFU t1) (h2 : WFU t2) (hn : t1.nvars = t2.nvars)
    {r1 r2 : Int} (h : SameFn t1 t2 r1 r2) : t1.levelOf r1 = t2.levelOf r2 := by
  have a := h.level_le h1 h2 hn
  have b := h.symm.level_le h2 h1 hn.symm
  omega

/-- the cofactors of equal functions are equal functions -/
theorem SameFn.cof {t1 t2 : Tbl} (h1 : WFU t1) (h2 : WFU t2) (hn : t1.nvars = t2.nvars)
    {r1 r2 : Int} (h : SameFn t1 t2 r1 r2) (l : Nat) (hl : l = t1.levelOf r1) (hln : l < t1.nvars) :
    SameFn t1 t2 (cof t1 l r1).1 (cof t2 l r2).1 ∧ SameFn t1 t2 (cof t1 l r1).2 (cof t2 l r2).2 := by
  have hl2 : l = t2.levelOf r2 := by rw [hl]; exact h.level_eq h1 h2 hn
  obtain ⟨a0, a1, la0, la1, da⟩ := cof_spec t1 h1.toWF l r1 h.1 (by omega) hln
  obtain ⟨b0, b1, lb0, lb1, db⟩ := cof_spec t2 h2.toWF l r2 h.2.1 (by omega) (by omega)
  refine ⟨⟨a0, b0, fun b => ?_⟩, ⟨a1, b1, fun b => ?_⟩⟩
  · have e1 := da (upd b l false)
    have e2 := db (upd b l false)
    simp only [upd_same, Bool.false_eq_true, if_false] at e1 e2
    rw [den_indep' t1 h1.toWF _ a0 l false b la0] at e1
    rw [den_indep' t2 h2.toWF _ b0 l false b lb0] at e2
    rw [← e1, ← e2, h.2.2]
  · have e1 := da (upd b l true)
    have e2 := db (upd b l true)
    simp only [upd_same, if_true] at e1 e2
    rw [den_indep' t1 h1.toWF _ a1 l true b la1] at e1
    rw [den_indep' t2 h2.toWF _ b1 l true b lb1] at e2
    rw [← e1, ← e2, h.2.2]

/-- every node reachable from the held references of `t1` has a counterpart in `t2` -/
theorem reach_same {t1 t2 : Tbl} (h1 : WFU t1) (h2 : WFU t2) (hn : t1.nvars = t2.nvars)
    (S : Nat → Prop) (hS : ∀ s, S s → SameFn t1 t2 (s : Int) (s : Int)) :
    ∀ u, GcReach t1 S u → ∃ r2, SameFn t1 t2 (u : Int) r2 := by
  intro u hu
  induction hu with
  | root hs => exact ⟨_, hS _ hs⟩
  | @lo k n _ hk ih =>
    obtain ⟨r2, hr2⟩ := ih
    have hk2 := h1.toWF.ge_two _ _ hk
    have h11 : ((k : Nat) : Int).natAbs ≠ 1 := by simp; omega
    have hk' : t1.node? ((k : Nat) : Int).natAbs = some n := by simpa using hk
    have hl := levelOf_node t1 (k : Int) n h11 hk'
    have hc := (hr2.cof h1 h2 hn n.lvl hl.symm (h1.toWF.lvl_lt _ _ hk)).1
    rw [cof_at t1 n.lvl (k : Int) n h11 hk' rfl] at hc
    have hpos : ¬ ((k : Int) < 0) := by omega
    simp only [hpos, if_false] at hc
    by_cases hs : 0 ≤ n.lo
    · exact ⟨_, by rw [show ((n.lo.natAbs : Nat) : Int) = n.lo by omega]; exact hc⟩
    · have := hc.neg h1.toWF h2.toWF
      exact ⟨_, by rw [show ((n.lo.natAbs : Nat) : Int) = -n.lo by omega]; exact this⟩
  | @hi k n _ hk ih =>
    obtain ⟨r2, hr2⟩ := ih
    have hk2 := h1.toWF.ge_two _ _ hk
    have h11 : ((k : Nat) : Int).natAbs ≠ 1 := by simp; omega
    have hk' : t1.node? ((k : Nat) : Int).natAbs = some n := by simpa using hk
    have hl := levelOf_node t1 (k : Int) n h11 hk'
    have hc := (hr2.cof h1 h2 hn n.lvl hl.symm (h1.toWF.lvl_lt _ _ hk)).2
    rw [cof_at t1 n.lvl (k : Int) n h11 hk' rfl] at hc
    have hpos : ¬ ((k : Int) < 0) := by omega
    simp only [hpos, if_false] at hc
    by_cases hs : 0 ≤ n.hi
    · exact ⟨_, by rw [show ((n.hi.natAbs : Nat) : Int) = n.hi by omega]; exact hc⟩
    · have := hc.neg h1.toWF h2.toWF
      exact ⟨_, by rw [show ((n.hi.natAbs : Nat) : Int) = -n.hi by omega]; exact this⟩

/-- the counterpart of a stored node is a stored node (with a regular reference) -/
theorem SameFn.node {t1 t2 : Tbl} (h1 : WFU t1) (h2 : WFU t2) (hn : t1.nvars = t2.nvars)
    {k : Nat} {n : Nd} (hk : t1.node? k = some n) {r2 : Int} (h : SameFn t1 t2 (k : Int) r2) :
    ∃ k2 : Nat, r2 = (k2 : Int) ∧ (t2.node? k2).isSome := by
  have hk2 := h1.toWF.ge_two _ _ hk
  have h11 : ((k : Nat) : Int).natAbs ≠ 1 := by simp; omega
  have hk' : t1.node? ((k : Nat) : Int).natAbs = some n := by simpa using hk
  have hl := levelOf_node t1 (k : Int) n h11 hk'
  have hlt := h1.toWF.lvl_lt _ _ hk
  have hle := h.level_eq h1 h2 hn
  -- sign: both are true under the all-true assignment
  have s1 := den_alltrue t1 h1.toWF t1.nvars (k : Int) h.1 (by omega)
  have s2 := den_alltrue t2 h2.toWF t2.nvars r2 h.2.1 (by omega)
  rw [h.2.2] at s1
  have hpos : 0 < r2 := by
    have : decide (0 < r2) = decide (0 < (k : Int)) := s2.symm.trans s1
    have hk0 : 0 < (k : Int) := by omega
    rw [decide_eq_true hk0] at this
    exact of_decide_eq_true this
  have h21 : r2.natAbs ≠ 1 := by
    intro e
    rw [levelOf_term t2 r2 e] at hle
    omega
  refine ⟨r2.natAbs, by omega, ?_⟩
  rcases h.2.1 with hm | hm
  · exact absurd hm h21
  · exact hm

/-! ### counting -/

theorem length_le_of_inj_rel (Rl : Nat → Nat → Prop) : ∀ (l1 l2 : List Nat), l1.Nodup →
    (∀ a ∈ l1, ∃ b ∈ l2, Rl a b) → (∀ a a' b, Rl a b → Rl a' b → a = a') →
    l1.length ≤ l2.length := by
  intro l1
  induction l1 with
  | nil => intros; simp
  | cons a rest ih =>
    intro l2 hnd hex hinj
    rw [List.nodup_cons] at hnd
    obtain ⟨b, hb, hab⟩ := hex a List.mem_cons_self
    have hrest : ∀ a' ∈ rest, ∃ b' ∈ l2.erase b, Rl a' b' := by
      intro a' ha'
      obtain ⟨b', hb', hab'⟩ := hex a' (List.mem_cons_of_mem _ ha')
      refine ⟨b', ?_, hab'⟩
      have hne : b' ≠ b := by
        intro e; subst e
        have := hinj a a' b' hab hab'
        subst this
        exact hnd.1 ha'
      exact (List.mem_erase_of_ne hne).2 hb'
    have := ih (l2.erase b) hnd.2 hrest hinj
    have hlen : (l2.erase b).length = l2.length - 1 := by rw [List.length_erase]; simp [hb]
    have hpos : 1 ≤ l2.length := List.length_pos_of_mem hb
    simp only [List.length_cons]
    omega

theorem succ_keys_nodup (t : Tbl) : t.succ.keys.Nodup := by
  have := TreeMap.distinct_keys (t := t.succ)
  unfold List.Nodup
  refine this.imp ?_
  intro a b hab e
  apply hab
  rw [e]
  exact compare_self

theorem mem_succ_keys (t : Tbl) (k : Nat) : k ∈ t.succ.keys ↔ (t.node? k).isSome := by
  rw [TreeMap.mem_keys, TreeMap.mem_iff_isSome_getElem?]
  rfl

/-- **The number of nodes is determined by the order and the held functions.** -/
theorem len_determined (m1 m2 : Mgr) (ext : Nat → Nat) (hI1 : Inv m1) (hI2 : Inv m2)
    (hR1 : RefExact m1 ext) (hR2 : RefExact m2 ext)
    (hz1 : ∀ k : Nat, m1.ref[k]? ≠ some 0) (hz2 : ∀ k : Nat, m2.ref[k]? ≠ some 0)
    (hn : m1.tbl.nvars = m2.tbl.nvars)
    (hden : ∀ u : Nat, 0 < ext u → ∀ b : Asg, den m1.tbl (u : Int) b = den m2.tbl (u : Int) b) :
    m1.len = m2.len := by
  have key : ∀ (ma mb : Mgr), Inv ma → Inv mb → RefExact ma ext → RefExact mb ext →
      (∀ k : Nat, ma.ref[k]? ≠ some 0) → ma.tbl.nvars = mb.tbl.nvars →
      (∀ u : Nat, 0 < ext u → ∀ b : Asg, den ma.tbl (u : Int) b = den mb.tbl (u : Int) b) →
      ma.tbl.succ.size ≤ mb.tbl.succ.size := by
    intro ma mb hIa hIb hRa hRb hza hnab hd
    have hS : ∀ s, GcHeld ext s → SameFn ma.tbl mb.tbl (s : Int) (s : Int) := by
      intro s hs
      refine ⟨?_, ?_, hd s hs⟩
      · simpa [Tbl.Mem] using hRa.mem_of_ext_pos hs
      · simpa [Tbl.Mem] using hRb.mem_of_ext_pos hs
    have hreach : ∀ k n, ma.tbl.node? k = some n → GcReach ma.tbl (GcHeld ext) k :=
      fun k n hk => survivor_reachable (GcSub.refl ma) hIa.toInvS hRa hza n.lvl k n hk rfl
    rw [← TreeMap.length_keys, ← TreeMap.length_keys]
    refine length_le_of_inj_rel (fun a b => SameFn ma.tbl mb.tbl (a : Int) (b : Int))
      _ _ (succ_keys_nodup ma.tbl) ?_ ?_
    · intro k hk
      obtain ⟨n, hkn⟩ := Option.isSome_iff_exists.mp ((mem_succ_keys _ _).mp hk)
      obtain ⟨r2, hr2⟩ := reach_same hIa.wf hIb.wf hnab (GcHeld ext) hS k (hreach k n hkn)
      obtain ⟨k2, rfl, hk2⟩ := hr2.node hIa.wf hIb.wf hnab hkn
      exact ⟨k2, (mem_succ_keys _ _).mpr hk2, hr2⟩
    · intro a a' b hab hab'
      have : (a : Int) = (a' : Int) := by
        apply (canonical ma.tbl hIa.wf _ _ hab.1 hab'.1).mp
        intro x
        rw [hab.2.2, hab'.2.2]
      omega
  have a := key m1 m2 hI1 hI2 hR1 hR2 hz1 hn hden
  have b := key m2 m1 hI2 hI1 hR2 hR1 hz2 hn.symm (fun u hu x => (hden u hu x).symm)
  show m1.tbl.succ.size + 1 = m2.tbl.succ.size + 1
  omega

end DD
