/-
  DDProofs.DynSchedKeep — what a reordering leaves behind WHATEVER its outcome, the model's own
  schedule-mismatch report included; and: the schedule left is a SUFFIX of the schedule given.

  C07 states the outcome of `swap` / `_shift` / sifting / `_sort_to_order` as `OkOrSched Q r`:
  returned with `Q`, or the model raised `.sched`; about the STATE after `.sched` it says nothing.
  Here `KS ext m0 r` says: if the call returned, OR raised `.sched`, the state satisfies the
  reordering invariant `ReorderInv ext` and is related to `m0` by `RelS ext` — every held
  reference denotes the same function of the variable names, same declared names, `nvars`,
  `roots`, `ctx`, `_last_len`, and the remaining schedule is a suffix of `m0.sched`.  (`.sched` is
  raised only by `takeSwapOrders` / `takeSiftOrder`, between two swaps, where nothing but the
  schedule has changed since the last completed swap.)

  Consequences: `reorder_keepS` (every outcome of `reorder(bdd)` with two variables is one of
  these two); `reorder_sched_suffix`; and, in DDProofs.DynSchedTotal, "every decorated call,
  whatever it returns or raises — `.sched` included — keeps the manager and every held reference".
-/
import DDProofs.SwapLevelsDrivers
import DDProofs.SiftFinal
open Std

namespace DD

/-- what every reordering keeps, with the consumed schedule: `ReorderRel` with "the schedule left
is a suffix of the schedule given" instead of "an empty schedule stays empty" -/
structure RelS (ext : Nat → Nat) (m m' : Mgr) : Prop where
  held : HeldSame ext m m'
  names : ∀ v : String, m'.tbl.vars.contains v = m.tbl.vars.contains v
  nvars : m'.nvars = m.nvars
  roots : m'.roots = m.roots
  ctx : m'.ctx = m.ctx
  lastLen : m'.lastLen = m.lastLen
  sched : m'.sched <:+ m.sched

theorem RelS.refl (ext : Nat → Nat) (m : Mgr) : RelS ext m m :=
  ⟨fun _ _ _ => rfl, fun _ => rfl, rfl, rfl, rfl, rfl, List.suffix_refl _⟩

theorem RelS.trans {ext : Nat → Nat} {a b c : Mgr} (h1 : RelS ext a b) (h2 : RelS ext b c) :
    RelS ext a c :=
  ⟨fun u hu x => (h2.held u hu x).trans (h1.held u hu x), fun v => (h2.names v).trans (h1.names v),
   h2.nvars.trans h1.nvars, h2.roots.trans h1.roots, h2.ctx.trans h1.ctx, h2.lastLen.trans h1.lastLen,
   h2.sched.trans h1.sched⟩

theorem RelS.toRel {ext : Nat → Nat} {m m' : Mgr} (h : RelS ext m m') : ReorderRel ext m m' :=
  ⟨h.held, h.names, h.nvars, h.roots, h.ctx, h.lastLen, fun h0 => by
    have := h.sched; rw [h0] at this; exact List.suffix_nil.mp this⟩

theorem RelS.ofRel {ext : Nat → Nat} {m m' : Mgr} (h : ReorderRel ext m m') (hs : m'.sched <:+ m.sched) :
    RelS ext m m' :=
  ⟨h.held, h.names, h.nvars, h.roots, h.ctx, h.lastLen, hs⟩

/-- only the schedule changed, to a suffix -/
theorem RelS.setSched (ext : Nat → Nat) (m : Mgr) (s : List SchedItem) (hs : s <:+ m.sched) :
    RelS ext m { m with sched := s } :=
  ⟨fun _ _ _ => rfl, fun _ => rfl, rfl, rfl, rfl, rfl, hs⟩

/-- the outcome of a reordering started (possibly after other steps) from `m0`: if it returned or
raised the model's `.sched`, the state satisfies the reordering invariant and is related to `m0` -/
def KS {α} (ext : Nat → Nat) (m0 : Mgr) : Except Err α × Mgr → Prop
  | (.ok _, m') => ReorderInv ext m' ∧ RelS ext m0 m'
  | (.error e, m') => e = Err.sched → ReorderInv ext m' ∧ RelS ext m0 m'

/-! ### composing -/

theorem KS.bind {α β} {ext : Nat → Nat} {m0 : Mgr} {x : M α} {f : α → M β} {m : Mgr}
    (h : KS ext m0 (x m))
    (hf : ∀ a m1, x m = (.ok a, m1) → ReorderInv ext m1 → RelS ext m0 m1 → KS ext m0 (f a m1)) :
    KS ext m0 ((x >>= f) m) := by
  rw [M.bind_eq]
  generalize hx : x m = r at h hf
  obtain ⟨r, m1⟩ := r
  cases r with
  | ok a => exact hf a m1 rfl h.1 h.2
  | error e => exact h

/-- a step that never changes the state -/
theorem KS.bind_read {γ β} {ext : Nat → Nat} {m0 : Mgr} (c : M γ) (hc : ∀ m, (c m).2 = m)
    {f : γ → M β} {m : Mgr} (hP : ReorderInv ext m) (hR : RelS ext m0 m)
    (hf : ∀ r, c m = (.ok r, m) → KS ext m0 (f r m)) : KS ext m0 ((c >>= f) m) := by
  rw [M.bind_eq]
  have h2 := hc m
  generalize hcm : c m = rc at hf h2
  obtain ⟨rc, mc⟩ := rc
  simp only at h2
  subst h2
  cases rc with
  | ok r => exact hf r rfl
  | error e => exact fun _ => ⟨hP, hR⟩

theorem KS.pure {α} {ext : Nat → Nat} {m0 : Mgr} (r : α) {m : Mgr} (hP : ReorderInv ext m)
    (hR : RelS ext m0 m) : KS ext m0 ((pure r : M α) m) := ⟨hP, hR⟩

theorem KS.same {α} {ext : Nat → Nat} {m0 : Mgr} (r : Except Err α) {m : Mgr} (hP : ReorderInv ext m)
    (hR : RelS ext m0 m) : KS ext m0 (r, m) := by
  cases r with
  | ok a => exact ⟨hP, hR⟩
  | error e => exact fun _ => ⟨hP, hR⟩

/-- a computation that never changes the state -/
theorem KS.of_read {α} {ext : Nat → Nat} {m0 : Mgr} (c : M α) (hc : ∀ m, (c m).2 = m) {m : Mgr}
    (hP : ReorderInv ext m) (hR : RelS ext m0 m) : KS ext m0 (c m) := by
  have h2 := hc m
  generalize c m = rc at h2
  obtain ⟨rc, mc⟩ := rc
  simp only at h2
  subst h2
  exact KS.same rc hP hR

/-- relative to an earlier state -/
theorem KS.from {α} {ext : Nat → Nat} {m0 m : Mgr} {r : Except Err α × Mgr} (h : KS ext m r)
    (hR : RelS ext m0 m) : KS ext m0 r := by
  obtain ⟨r, m'⟩ := r
  cases r with
  | ok a => exact ⟨h.1, hR.trans h.2⟩
  | error e => exact fun he => ⟨(h he).1, hR.trans (h he).2⟩

/-! ### `swap` -/

theorem ks_setSched_self (m : Mgr) : ({ m with sched := m.sched } : Mgr) = m := rfl

/-- `takeSwapOrders` changes nothing but the schedule, to a suffix — whatever it answers -/
theorem takeSwapOrders_cases (x y : Nat) (m : Mgr) :
    ∃ s, s <:+ m.sched ∧ (takeSwapOrders x y m).2 = { m with sched := s } := by
  unfold takeSwapOrders
  simp only [M.bind_eq, M.get_eq]
  cases hs : m.sched with
  | nil => exact ⟨[], List.suffix_refl _, by simp only [M.pure_eq]; rw [← hs]⟩
  | cons it rest =>
    cases it with
    | sift names =>
      refine ⟨SchedItem.sift names :: rest, List.suffix_refl _, ?_⟩
      simp only [M.throw_eq]
      rw [← hs]
    | swap lv =>
      refine ⟨rest, List.suffix_cons _ _, ?_⟩
      simp only [M.bind_eq, M.set_eq]
      split <;> rfl

theorem takeSiftOrder_cases (m : Mgr) :
    ∃ s, s <:+ m.sched ∧ (takeSiftOrder m).2 = { m with sched := s } := by
  unfold takeSiftOrder
  simp only [M.bind_eq, M.get_eq]
  cases hs : m.sched with
  | nil => exact ⟨[], List.suffix_refl _, by simp only [M.pure_eq]; rw [← hs]⟩
  | cons it rest =>
    cases it with
    | swap lv =>
      refine ⟨SchedItem.swap lv :: rest, List.suffix_refl _, ?_⟩
      simp only [M.throw_eq]
      rw [← hs]
    | sift names =>
      refine ⟨rest, List.suffix_cons _ _, ?_⟩
      simp only [M.bind_eq, M.set_eq]
      split <;> rfl

/-- `swap` on two adjacent valid levels: every outcome -/
theorem swapBody_keepS (ext : Nat → Nat) (m : Mgr) (h : ReorderInv ext m) (x : Nat)
    (hx : x + 1 < m.nvars) : KS ext m (swapBody x (x + 1) m) := by
  have hstep := (swapOK ext).step m x h hx
  unfold swapBody at hstep ⊢
  rw [M.bind_ok (M.get_eq m), M.bind_eq] at hstep ⊢
  have hts := takeSwapOrders_spec x (x + 1) m
  obtain ⟨s, hsuf, hst⟩ := takeSwapOrders_cases x (x + 1) m
  generalize hres : takeSwapOrders x (x + 1) m = res at hts hstep hst ⊢
  obtain ⟨r, m1⟩ := res
  simp only at hst
  subst hst
  cases r with
  | error e =>
    exact fun _ => ⟨h.setSched' s, RelS.setSched ext m s hsuf⟩
  | ok oo =>
    obtain ⟨ox, oy⟩ := oo
    obtain ⟨_, hox, hoy⟩ := hts
    simp only at hstep ⊢
    obtain ⟨r, m', hW, _, hs'⟩ := swapWith_spec m ext s h.inv h.order h.refExact h.off x hx ox oy hox hoy
    rw [hW] at hstep ⊢
    exact ⟨hstep.1, RelS.ofRel hstep.2.1 (by rw [hs']; exact hsuf)⟩

/-- `swap(x, y, all_levels)` with ANY arguments: every outcome -/
theorem swap_given_keepS (ext : Nat → Nat) (m : Mgr) (h : ReorderInv ext m) (xa ya : VarOrLevel) :
    KS ext m (swap xa ya true m) := by
  rcases swap_given_normal_form xa ya m with ⟨e, h1, _⟩ | ⟨x, hx, h1, _⟩
  · rw [h1]; exact KS.same _ h (RelS.refl ext m)
  · rw [h1]; exact swapBody_keepS ext m h x hx

theorem gc_keepS (ext : Nat → Nat) (m : Mgr) (h : ReorderInv ext m) :
    ∃ mg, collectGarbage none m = (.ok (), mg) ∧ ReorderInv ext mg ∧ RelS ext m mg := by
  obtain ⟨mg, hrun, hp⟩ := collectGarbage_spec m ext h.inv h.refExact
  obtain ⟨hg, hrel⟩ := gcSub_keeps h hp.inv hp.refExact hp.sub
  exact ⟨mg, hrun, hg, RelS.ofRel hrel (by rw [hp.sub.sched]; exact List.suffix_refl _)⟩

/-- the public `swap(x, y)` (full collection first) -/
theorem swap_public_keepS (ext : Nat → Nat) (m : Mgr) (h : ReorderInv ext m) (xa ya : VarOrLevel) :
    KS ext m (swap xa ya false m) := by
  obtain ⟨mg, hrun, hg, hrel⟩ := gc_keepS ext m h
  have e1 : swap xa ya false m = swap xa ya true mg := by
    unfold swap
    simp only [Bool.not_false, if_true, Bool.not_true, Bool.false_eq_true, if_false]
    rw [M.bind_ok hrun]
  rw [e1]
  exact (swap_given_keepS ext mg hg xa ya).from hrel

/-! ### `_shift`, sifting, `_sort_to_order`, `reorder_to_pairs` -/

theorem shiftLoop_keepS (ext : Nat → Nat) (m0 : Mgr) : ∀ (f : Nat) (i e d : Int)
    (sizes : List (Nat × Nat)) (m : Mgr), ReorderInv ext m → RelS ext m0 m →
    KS ext m0 (shiftLoop f i e d sizes m) := by
  intro f
  induction f with
  | zero =>
    intro i e d sizes m h hR
    unfold shiftLoop
    split
    · exact KS.pure sizes h hR
    · exact fun he => by cases he
  | succ f ih =>
    intro i e d sizes m h hR
    unfold shiftLoop
    split
    · exact KS.pure sizes h hR
    · refine KS.bind ((swap_given_keepS ext m h _ _).from hR) ?_
      rintro ⟨oldn, n⟩ m1 _ h1 hR1
      exact ih _ _ _ _ m1 h1 hR1

theorem ks_assert_read (b : Bool) (e : Err) : ∀ m, (M.assert b e m).2 = m := by
  intro m; cases b <;> rfl

theorem ks_get_read : ∀ m, (M.get m).2 = m := fun _ => rfl

theorem ks_ofOption_read {α} (e : Err) (o : Option α) : ∀ m, (M.ofOption e o m).2 = m := by
  intro m; cases o <;> rfl

theorem shift_keepS (ext : Nat → Nat) (m0 m : Mgr) (h : ReorderInv ext m) (hR : RelS ext m0 m)
    (s e : Nat) : KS ext m0 (shift s e m) := by
  unfold shift
  refine KS.bind_read M.get ks_get_read h hR (fun mm hm => ?_)
  obtain ⟨rfl, _⟩ := M.get_ok_inv hm
  refine KS.bind_read _ (ks_assert_read _ _) h hR (fun _ _ => ?_)
  refine KS.bind_read _ (ks_assert_read _ _) h hR (fun _ _ => ?_)
  exact shiftLoop_keepS ext m0 _ _ _ _ _ m h hR

theorem ks_levelOfVar_read (v : String) : ∀ m, (levelOfVar v m).2 = m := by
  intro m
  unfold levelOfVar
  rw [M.bind_ok (M.get_eq m)]
  exact ks_ofOption_read _ _ m

theorem reorderVar_keepS (ext : Nat → Nat) (m0 m : Mgr) (h : ReorderInv ext m) (hR : RelS ext m0 m)
    (var : String) : KS ext m0 (reorderVar var m) := by
  unfold reorderVar
  refine KS.bind_read M.get ks_get_read h hR (fun mm hm => ?_)
  obtain ⟨rfl, _⟩ := M.get_ok_inv hm
  split
  · exact fun he => by cases he
  refine KS.bind_read _ (ks_assert_read _ _) h hR (fun _ _ => ?_)
  refine KS.bind_read _ (ks_levelOfVar_read var) h hR (fun level _ => ?_)
  refine KS.bind (shift_keepS ext m0 m h hR _ _) ?_
  rintro _ m1 _ h1 hR1
  refine KS.bind (shift_keepS ext m0 m1 h1 hR1 _ _) ?_
  rintro sizes m2 _ h2 hR2
  refine KS.bind_read _ (ks_ofOption_read _ _) h2 hR2 (fun k _ => ?_)
  refine KS.bind (shift_keepS ext m0 m2 h2 hR2 _ _) ?_
  rintro _ m3 _ h3 hR3
  refine KS.bind_read M.get ks_get_read h3 hR3 (fun mm hm => ?_)
  obtain ⟨rfl, _⟩ := M.get_ok_inv hm
  refine KS.bind_read _ (ks_assert_read _ _) h3 hR3 (fun _ _ => ?_)
  refine KS.bind_read _ (ks_assert_read _ _) h3 hR3 (fun _ _ => ?_)
  exact KS.pure k h3 hR3

theorem siftVars_keepS (ext : Nat → Nat) (m0 : Mgr) : ∀ (names : List String) (m : Mgr),
    ReorderInv ext m → RelS ext m0 m → KS ext m0 (siftVars names m) := by
  intro names
  induction names with
  | nil => intro m h hR; exact KS.pure () h hR
  | cons v rest ih =>
    intro m h hR
    unfold siftVars
    refine KS.bind (reorderVar_keepS ext m0 m h hR v) ?_
    rintro _ m1 _ h1 hR1
    exact ih m1 h1 hR1

/-- `_apply_sifting`: every outcome -/
theorem applySifting_keepS (ext : Nat → Nat) (m : Mgr) (h : ReorderInv ext m) :
    KS ext m (applySifting m) := by
  obtain ⟨mg, hrun, hg, hrel⟩ := gc_keepS ext m h
  unfold applySifting
  rw [M.bind_ok hrun, M.bind_ok (M.get_eq mg), M.bind_eq]
  obtain ⟨s, hsuf, hst⟩ := takeSiftOrder_cases mg
  generalize hts : takeSiftOrder mg = rt at hst
  obtain ⟨rt, mt⟩ := rt
  simp only at hst
  subst hst
  have hgs : ReorderInv ext { mg with sched := s } := hg.setSched' s
  have hRs : RelS ext m { mg with sched := s } := hrel.trans (RelS.setSched ext mg s hsuf)
  cases rt with
  | error e => exact fun _ => ⟨hgs, hRs⟩
  | ok names =>
    simp only
    split
    · exact fun he => by cases he
    · refine KS.bind (siftVars_keepS ext m names _ hgs hRs) ?_
      rintro _ m1 _ h1 hR1
      refine KS.bind_read M.get ks_get_read h1 hR1 (fun mm hm => ?_)
      obtain ⟨rfl, _⟩ := M.get_ok_inv hm
      exact KS.of_read _ (ks_assert_read _ _) h1 hR1

theorem ks_checkRoots_read : ∀ m, (checkRoots m).2 = m := by
  intro m
  unfold checkRoots
  rw [M.bind_ok (M.get_eq m)]
  have : ∀ (l : List Int) (m1 : Mgr), (checkRootsL m l m1).2 = m1 := by
    intro l
    induction l with
    | nil => intro m1; rfl
    | cons r rest ih =>
      intro m1
      unfold checkRootsL
      split
      · rfl
      · exact ih m1
  exact this _ _

theorem ks_varAtLevel_read (i : Int) : ∀ m, (varAtLevel i m).2 = m := by
  intro m
  unfold varAtLevel
  rw [M.bind_ok (M.get_eq m)]
  split
  · rfl
  · exact ks_ofOption_read _ _ m

theorem sortStep_keepS (ext : Nat → Nat) (m0 m : Mgr) (h : ReorderInv ext m) (hR : RelS ext m0 m)
    (order : List (String × Int)) (i : Nat) : KS ext m0 (sortStep order i m) := by
  unfold sortStep
  refine KS.bind_read _ ks_checkRoots_read h hR (fun _ _ => ?_)
  refine KS.bind_read _ (ks_varAtLevel_read _) h hR (fun x _ => ?_)
  refine KS.bind_read _ (ks_varAtLevel_read _) h hR (fun y _ => ?_)
  refine KS.bind_read _ (ks_ofOption_read _ _) h hR (fun p _ => ?_)
  refine KS.bind_read _ (ks_ofOption_read _ _) h hR (fun q _ => ?_)
  split
  · refine KS.bind ((swap_given_keepS ext m h _ _).from hR) ?_
    rintro _ m1 _ h1 hR1
    exact KS.pure () h1 hR1
  · exact KS.pure () h hR

theorem sortInner_keepS (ext : Nat → Nat) (m0 : Mgr) (order : List (String × Int)) :
    ∀ (l : List Nat) (m : Mgr), ReorderInv ext m → RelS ext m0 m → KS ext m0 (sortInner order l m) := by
  intro l
  induction l with
  | nil => intro m h hR; exact KS.pure () h hR
  | cons i rest ih =>
    intro m h hR
    unfold sortInner
    refine KS.bind (sortStep_keepS ext m0 m h hR order i) ?_
    rintro _ m1 _ h1 hR1
    exact ih m1 h1 hR1

theorem sortOuter_keepS (ext : Nat → Nat) (m0 : Mgr) (order : List (String × Int)) (n : Nat) :
    ∀ (k : Nat) (m : Mgr), ReorderInv ext m → RelS ext m0 m → KS ext m0 (sortOuter order n k m) := by
  intro k
  induction k with
  | zero => intro m h hR; exact KS.pure () h hR
  | succ k ih =>
    intro m h hR
    unfold sortOuter
    refine KS.bind (sortInner_keepS ext m0 order _ m h hR) ?_
    rintro _ m1 _ h1 hR1
    exact ih m1 h1 hR1

theorem sortToOrder_keepS (ext : Nat → Nat) (m : Mgr) (h : ReorderInv ext m)
    (order : List (String × Int)) : KS ext m (sortToOrder order m) := by
  unfold sortToOrder
  rw [M.bind_ok (M.get_eq m)]
  split
  · exact fun he => by cases he
  · exact sortOuter_keepS ext m order _ _ m h (RelS.refl ext m)

/-- **`reorder(bdd)` / `reorder(bdd, order)`, every outcome**: if the call returns, or the model
reports a schedule mismatch, the reordering invariant holds, every held reference denotes the same
function of the names, and the schedule left is a suffix of the schedule given -/
theorem reorder_keepS (ext : Nat → Nat) (m : Mgr) (h : ReorderInv ext m)
    (order : Option (List (String × Int))) : KS ext m (reorder order m) := by
  cases order with
  | none => exact applySifting_keepS ext m h
  | some o => exact sortToOrder_keepS ext m h o

theorem pairStep_keepS (ext : Nat → Nat) (m0 m : Mgr) (h : ReorderInv ext m) (hR : RelS ext m0 m)
    (x y : String) : KS ext m0 (pairStep x y m) := by
  unfold pairStep
  refine KS.bind_read _ (ks_levelOfVar_read x) h hR (fun jx _ => ?_)
  refine KS.bind_read _ (ks_levelOfVar_read y) h hR (fun jy _ => ?_)
  simp only
  generalize (if jx ≤ jy then jy - jx else jx - jy) = k
  refine KS.bind_read _ (ks_assert_read _ _) h hR (fun _ _ => ?_)
  by_cases hk : k ≠ 1
  · simp only [if_pos hk]
    by_cases hgt : jx > jy
    · simp only [if_pos hgt]
      refine KS.bind (shift_keepS ext m0 m h hR _ _) ?_
      rintro _ m1 _ h1 hR1
      exact KS.pure () h1 hR1
    · simp only [if_neg hgt]
      refine KS.bind (shift_keepS ext m0 m h hR _ _) ?_
      rintro _ m1 _ h1 hR1
      exact KS.pure () h1 hR1
  · simp only [if_neg hk]
    exact KS.pure () h hR

theorem reorderToPairs_keepS (ext : Nat → Nat) (m0 : Mgr) : ∀ (pairs : List (String × String))
    (m : Mgr), ReorderInv ext m → RelS ext m0 m → KS ext m0 (reorderToPairs pairs m) := by
  intro pairs
  induction pairs with
  | nil => intro m h hR; exact KS.pure () h hR
  | cons p rest ih =>
    intro m h hR
    obtain ⟨x, y⟩ := p
    unfold reorderToPairs
    refine KS.bind (pairStep_keepS ext m0 m h hR x y) ?_
    rintro _ m1 _ h1 hR1
    exact ih m1 h1 hR1

/-- sifting with two variables: the call returns or reports `.sched` (C07), and in BOTH cases the
state satisfies the reordering invariant, related to the start state by `RelS` -/
theorem sift_every_outcome (ext : Nat → Nat) (m : Mgr) (h : ReorderInv ext m) (h2 : 2 ≤ m.nvars) :
    ∃ r m', reorder none m = (r, m') ∧ (r = .ok () ∨ r = .error .sched) ∧
      ReorderInv ext m' ∧ RelS ext m m' := by
  have hk := reorder_keepS ext m h none
  have hn := applySifting_never_raises ext m h h2
  change OkOrSched _ (reorder none m) at hn
  generalize reorder none m = res at hk hn
  obtain ⟨r, m'⟩ := res
  cases r with
  | ok u => exact ⟨.ok (), m', rfl, Or.inl rfl, hk.1, hk.2⟩
  | error e =>
    have he : e = Err.sched := hn
    subst he
    exact ⟨_, m', rfl, Or.inr rfl, (hk rfl).1, (hk rfl).2⟩

/-- the schedule left by a reordering that returns (or reports a mismatch) is a suffix of the
schedule it was given: the model consumes the recorded orders front to back -/
theorem reorder_sched_suffix (ext : Nat → Nat) (m : Mgr) (h : ReorderInv ext m)
    (order : Option (List (String × Int))) (r : Except Err Unit) (m' : Mgr)
    (hrun : reorder order m = (r, m')) (hr : r = .ok () ∨ r = .error .sched) :
    m'.sched <:+ m.sched := by
  have hk := reorder_keepS ext m h order
  rw [hrun] at hk
  rcases hr with rfl | rfl
  · exact hk.2.sched
  · exact (hk rfl).2.sched

end DD
