/-
  DDProofs.Reach — "for EVERY history": user operations `UOp`, the interpreter `runOp`
  dispatching to the model functions, the ghost ledger of user-held references, and

    `step_inv`      : `GoodState m ext → OpGuard m ext op → GoodState (runOp op m).2 (ledger op m ext)`
                      for EVERY operation and EVERY argument, accepted or rejected,
    `step_mem`      : every operation except the collection keeps every reference valid, same function,
    `step_held`     : every operation (the collection and the user's own `decref` included) keeps
                      every reference the user holds valid, with the same function,
    `reachable_inv` : every state reached from the empty manager by a guarded history is `GoodState`.

  Dynamic reordering stays disabled (`configure` is not a `UOp`): `lastLen = none` is part of
  `GoodState`.  The guard `OpGuard` excludes exactly the three documented caller obligations the
  code does not check (DESIGN 2.2): raw `find_or_add` at a level not above its children, `decref`
  of a reference the user does not hold, `add_var(name, level)` leaving a gap (finding F7).
-/
import DDProofs.ReachTotal
import DDProofs.GcSched
import DDProofs.SatPick
open Std

namespace DD

/-! ### operations -/

/-- results of user operations -/
inductive Res
  | ref (u : Int)
  | lvl (n : Nat)
  | unit
deriving Repr, DecidableEq, Inhabited

/-- the public surface covered by the "every history" theorems; ARBITRARY arguments -/
inductive UOp
  | declare (name : String) (level : Option Int)          -- `add_var(name, level=None)`
  | var (name : String)                                   -- `bdd.var(name)`
  | findOrAdd (i : Int) (v w : Int)                       -- `find_or_add(i, v, w)`
  | ite (g u v : Int)                                     -- `bdd.ite(g, u, v)`
  | apply (op : String) (u : Int) (v w : Option Int)      -- `bdd.apply(op, u, v, w)`: any string, any arity
  | neg (u : Int)                                         -- `bdd.apply('not', u)`
  | cofactor (u : Int) (values : List (Key × Bool))       -- `bdd.cofactor(u, values)` / `let` with Booleans
  | quantify (u : Int) (qvars : List Key) (forall_ : Bool) -- `bdd.quantify` / `exist` / `forall`
  | compose (f : Int) (varSub : List (String × Int))      -- `bdd.compose(f, var_sub)` / `let` with nodes
  | rename (u : Int) (dvars : List (String × String))     -- `bdd.rename(u, dvars)` / `let` with names
  | let_ (d : LetArg) (u : Int)                           -- `bdd.let(definitions, u)`
  | incref (u : Int)
  | decref (u : Int)
  | collectGarbage
deriving Inhabited

def mapRes {α : Type} (f : α → Res) (x : Except Err α × Mgr) : Except Err Res × Mgr :=
  (match x.1 with
    | .ok a => .ok (f a)
    | .error e => .error e, x.2)

/-- one user call on the model -/
def runOp : UOp → Mgr → Except Err Res × Mgr
  | .declare name level, m => mapRes .lvl (addVar name level m)
  | .var name, m => mapRes .ref (var name m)
  | .findOrAdd i v w, m => mapRes .ref (findOrAdd i v w m)
  | .ite g u v, m => mapRes .ref (ite g u v m)
  | .apply op u v w, m => mapRes .ref (apply op u v w m)
  | .neg u, m => mapRes .ref (apply "not" u none none m)
  | .cofactor u values, m => mapRes .ref (cofactor u values m)
  | .quantify u qvars fa, m => mapRes .ref (quantify u qvars fa m)
  | .compose f varSub, m => mapRes .ref (compose f varSub m)
  | .rename u dvars, m => mapRes .ref (rename u dvars m)
  | .let_ d u, m => mapRes .ref (letOp d u m)
  | .incref u, m => mapRes (fun _ => .unit) (incref u m)
  | .decref u, m => mapRes (fun _ => .unit) (decref u m)
  | .collectGarbage, m => mapRes (fun _ => .unit) (collectGarbage none m)

/-- the ghost ledger of references the user holds: changed by the user's own
`incref` / `decref` of an existing node only -/
def ledger : UOp → Mgr → (Nat → Nat) → (Nat → Nat)
  | .incref u, m, ext => if m.mem u then extInc ext u.natAbs else ext
  | .decref u, m, ext => if m.mem u then extDec ext u.natAbs else ext
  | _, _, ext => ext

/-- the documented caller obligations that the code does not check -/
def OpGuard (m : Mgr) (ext : Nat → Nat) : UOp → Prop
  | .findOrAdd i v w => 0 ≤ i → FoaGuard m i.toNat v w
  | .decref u => m.tbl.Mem u → 0 < ext u.natAbs
  | .declare name level =>
    match level with
    | none => True
    | some l => m.tbl.vars[name]? = none → l ≤ (m.nvars : Int)
  | _ => True

theorem OpGuard.declare {m : Mgr} {ext : Nat → Nat} {name : String} {level : Option Int}
    (hg : OpGuard m ext (.declare name level)) :
    ∀ l : Int, level = some l → m.tbl.vars[name]? = none → l ≤ (m.nvars : Int) := by
  intro l hl
  subst hl
  exact hg

instance (m : Mgr) (i : Nat) (v w : Int) : Decidable (FoaGuard m i v w) := by
  unfold FoaGuard; infer_instance

instance (m : Mgr) (ext : Nat → Nat) (op : UOp) : Decidable (OpGuard m ext op) := by
  cases op with
  | declare name level =>
    cases level with
    | none => exact isTrue trivial
    | some l => simp only [OpGuard]; infer_instance
  | findOrAdd i v w => simp only [OpGuard]; infer_instance
  | decref u => simp only [OpGuard]; infer_instance
  | _ => exact isTrue trivial

/-! ### the invariant of reachable states -/

/-- what holds in every state reached by a guarded history -/
structure GoodState (m : Mgr) (ext : Nat → Nat) : Prop where
  inv : Inv m
  order : OrderOK m.tbl
  exact : RefExact m ext
  off : m.lastLen = none
  ctx : m.ctx = false

theorem goodState_iff (m : Mgr) (ext : Nat → Nat) :
    GoodState m ext ↔ (Inv m ∧ OrderOK m.tbl ∧ RefExact m ext ∧ m.lastLen = none ∧ m.ctx = false) :=
  ⟨fun h => ⟨h.inv, h.order, h.exact, h.off, h.ctx⟩, fun ⟨a, b, c, d, e⟩ => ⟨a, b, c, d, e⟩⟩

theorem GoodState.lite {m : Mgr} {ext : Nat → Nat} (h : GoodState m ext) : Lite ext m :=
  h.inv.lite h.exact h.off

theorem OrderOK.congr {t t' : Tbl} (h : OrderOK t) (hv : t'.vars = t.vars) (hl : t'.l2v = t.l2v) :
    OrderOK t' := by
  have hn : t'.nvars = t.nvars := by simp only [Tbl.nvars, hv]
  exact ⟨by rw [hv, hl]; exact h.inv, by rw [hv, hn]; exact h.lt, by rw [hn, hl]; exact h.total⟩

/-- a `Kept` step with exact counts leads to a good state again -/
theorem GoodState.of_kept {m m' : Mgr} {ext ext' : Nat → Nat} (h : GoodState m ext) (k : Kept m m')
    (hr : RefExact m' ext') : GoodState m' ext' :=
  ⟨k.inv, h.order.congr k.frame.vars k.frame.l2v, hr, k.off h.off, by rw [k.frame.ctx]; exact h.ctx⟩

theorem GoodState.init : GoodState ({} : Mgr) (fun _ => 0) := by
  refine ⟨Inv.init, OrderOK.empty, ⟨?_, ?_, ?_⟩, rfl, rfl⟩
  · intro u
    show ((({} : TreeMap Nat Nat).insert 1 1)[u]?).isSome ↔ (u = 1 ∨ ((({} : Tbl).node? u).isSome))
    rw [TreeMap.getElem?_insert]
    by_cases h : u = 1
    · subst h; simp
    · have : ¬ (1 = u) := fun hh => h hh.symm
      simp [h, this, Tbl.node?]
  · intro u c hc
    have hc' : ((({} : TreeMap Nat Nat).insert 1 1)[u]?) = some c := hc
    rw [TreeMap.getElem?_insert] at hc'
    by_cases h : u = 1
    · subst h
      simp at hc'
      subst hc'
      have : indeg ({} : Tbl) 1 = 0 := by
        cases hz : indeg ({} : Tbl) 1 with
        | zero => rfl
        | succ z =>
          obtain ⟨k, n, hk, -⟩ := indeg_pos (t := ({} : Tbl)) (u := 1) (by omega)
          simp [Tbl.node?] at hk
      simp [this]
    · have : ¬ (1 = u) := fun hh => h hh.symm
      simp [this] at hc'
  · intro u _; rfl

/-! ### `add_var` -/

theorem RefExact.congr_nodes {m m' : Mgr} {ext : Nat → Nat} (h : RefExact m ext)
    (h1 : ∀ k, m'.tbl.node? k = m.tbl.node? k) (h2 : m'.ref = m.ref) : RefExact m' ext := by
  refine ⟨?_, ?_, ?_⟩
  · intro u; rw [h2, h1]; exact h.dom u
  · intro u c hc; rw [h2] at hc; rw [indeg_congr h1]; exact h.cnt u c hc
  · intro u hu; rw [h2] at hu; exact h.extZero u hu

/-- `add_var(name, level)` under the no-gap guard: nothing happens (existing variable with its own
level or no level; every refused call), or a NEW variable is appended at the bottom level -/
theorem addVar_cases (m : Mgr) (hO : OrderOK m.tbl) (name : String) (level : Option Int)
    (hg : ∀ l : Int, level = some l → m.tbl.vars[name]? = none → l ≤ (m.nvars : Int)) :
    (addVar name level m).2 = m ∨
    (m.tbl.vars[name]? = none ∧ addVar name level m = (.ok m.nvars, addVarState m name)) := by
  cases hex : m.tbl.vars[name]? with
  | some vl =>
    left
    cases level with
    | none => simp [addVar, bind, M.bind', M.get, hex, pure, M.pure']
    | some l =>
      by_cases hl : l = vl
      · simp [addVar, bind, M.bind', M.get, hex, pure, M.pure', hl]
      · simp [addVar, bind, M.bind', M.get, hex, hl, M.throw]
  | none =>
    cases level with
    | none =>
      right
      exact ⟨rfl, addVar_new m name hex hO.l2v_none⟩
    | some l =>
      by_cases hneg : l < 0
      · left
        simp [addVar, bind, M.bind', M.get, hex, hneg, M.throw]
      · cases hl : m.tbl.l2v[l.toNat]? with
        | some other =>
          left
          simp [addVar, bind, M.bind', M.get, hex, hneg, hl, M.throw]
        | none =>
          right
          refine ⟨rfl, ?_⟩
          have hle := hg l rfl hex
          have hge : m.nvars ≤ l.toNat := by
            rcases Nat.lt_or_ge l.toNat m.nvars with h | h
            · obtain ⟨v, hv⟩ := hO.total l.toNat h
              rw [hl] at hv; cases hv
            · exact h
          have heq : l.toNat = m.nvars := by omega
          rw [heq] at hl
          simp only [addVar, bind, M.bind', M.get, hex, Option.getD_some, hneg, if_false, pure, M.pure',
            hl, M.set, heq]
          rfl

theorem addVar_good (m : Mgr) (ext : Nat → Nat) (h : GoodState m ext) (name : String) (level : Option Int)
    (hg : ∀ l : Int, level = some l → m.tbl.vars[name]? = none → l ≤ (m.nvars : Int)) :
    GoodState (addVar name level m).2 ext ∧
    ∀ u, m.tbl.Mem u → (addVar name level m).2.tbl.Mem u ∧
      ∀ a, den (addVar name level m).2.tbl u a = den m.tbl u a := by
  rcases addVar_cases m h.order name level hg with he | ⟨hnew, he⟩
  · rw [he]; exact ⟨h, fun u hu => ⟨hu, fun _ => rfl⟩⟩
  · rw [he]
    show GoodState (addVarState m name) ext ∧ _
    obtain ⟨hI, hO, -, -, -, hden, -, -⟩ := addVar_new_spec m h.inv h.order name hnew _ rfl
    exact ⟨⟨hI, hO, h.exact.congr_nodes (fun _ => rfl) rfl, h.off, h.ctx⟩, hden⟩

/-! ### `incref` / `decref` -/

theorem ref_none_of_not_mem {m : Mgr} {ext : Nat → Nat} (hr : RefExact m ext) {u : Int} (hu : ¬ m.tbl.Mem u) :
    m.ref[u.natAbs]? = none := by
  cases hh : m.ref[u.natAbs]? with
  | none => rfl
  | some c => exact absurd ((hr.dom u.natAbs).mp (by simp [hh])) hu

theorem incref_good (m : Mgr) (ext : Nat → Nat) (h : GoodState m ext) (u : Int) :
    GoodState (incref u m).2 (if m.mem u then extInc ext u.natAbs else ext) ∧
    (incref u m).2.tbl = m.tbl := by
  by_cases hu : m.tbl.Mem u
  · have hm : m.mem u = true := (Mgr.mem_iff m u).mpr hu
    obtain ⟨c, -, he, hr'⟩ := incref_spec m ext u h.exact hu
    have hk := incref_kept m h.inv u
    rw [he] at hk ⊢
    simp only [hm, if_true]
    exact ⟨h.of_kept hk hr', trivial⟩
  · have hm : m.mem u = false := (Tbl.mem_false_iff _ _).mpr hu
    rw [incref_not_mem m u (ref_none_of_not_mem h.exact hu)]
    simp only [hm, Bool.false_eq_true, if_false]
    exact ⟨h, trivial⟩

theorem decref_good (m : Mgr) (ext : Nat → Nat) (h : GoodState m ext) (u : Int)
    (hg : m.tbl.Mem u → 0 < ext u.natAbs) :
    GoodState (decref u m).2 (if m.mem u then extDec ext u.natAbs else ext) ∧
    (decref u m).2.tbl = m.tbl := by
  by_cases hu : m.tbl.Mem u
  · have hm : m.mem u = true := (Mgr.mem_iff m u).mpr hu
    obtain ⟨c, -, he, hr'⟩ := decref_spec m ext u h.exact (hg hu)
    have hk := decref_kept m h.inv u
    rw [he] at hk ⊢
    simp only [hm, if_true]
    exact ⟨h.of_kept hk hr', trivial⟩
  · have hm : m.mem u = false := (Tbl.mem_false_iff _ _).mpr hu
    rw [decref_not_mem m u (ref_none_of_not_mem h.exact hu)]
    simp only [hm, Bool.false_eq_true, if_false]
    exact ⟨h, trivial⟩

/-! ### the collection -/

theorem collectGarbage_good (m : Mgr) (ext : Nat → Nat) (h : GoodState m ext) :
    ∃ m', collectGarbage none m = (.ok (), m') ∧ GcFullPost m ext m' ∧ GoodState m' ext := by
  obtain ⟨m', he, hp⟩ := collectGarbage_spec m ext h.inv h.exact
  refine ⟨m', he, hp, hp.inv, h.order.congr hp.sub.vars hp.sub.l2v, hp.refExact, ?_, ?_⟩
  · rw [hp.sub.lastLen]; exact h.off
  · rw [hp.sub.ctx]; exact h.ctx

/-! ### one step -/

/-- every operation other than the ledger operations, the collection and `add_var` is a `Kept`
step with the same ledger -/
theorem runOp_kept (m : Mgr) (ext : Nat → Nat) (h : GoodState m ext) (op : UOp) (hg : OpGuard m ext op) :
    (∃ name level, op = .declare name level) ∨ op = .collectGarbage ∨
    (Kept m (runOp op m).2 ∧ RefExact (runOp op m).2 (ledger op m ext)) := by
  have hL := h.lite
  cases op with
  | declare name level => exact Or.inl ⟨name, level, rfl⟩
  | collectGarbage => exact Or.inr (Or.inl rfl)
  | var name =>
    exact Or.inr (Or.inr ⟨var_total m ext h.inv h.exact h.off name, (var_lite ext name m hL).1.exact⟩)
  | findOrAdd i v w =>
    exact Or.inr (Or.inr ⟨findOrAdd_kept m h.inv h.off i v w hg, (findOrAdd_lite ext m hL i v w).1.exact⟩)
  | ite g u v =>
    exact Or.inr (Or.inr ⟨ite_total m h.inv h.off g u v, (ite_lite ext g u v m hL).1.exact⟩)
  | apply o u v w =>
    exact Or.inr (Or.inr ⟨apply_total' m ext h.inv h.exact h.off o u v w, (apply_lite ext o u v w m hL).exact⟩)
  | neg u =>
    exact Or.inr (Or.inr ⟨apply_total' m ext h.inv h.exact h.off "not" u none none,
      (apply_lite ext "not" u none none m hL).exact⟩)
  | cofactor u values =>
    exact Or.inr (Or.inr ⟨cofactor_total m ext h.inv h.exact h.off u values,
      (cofactor_lite ext u values m hL).1.exact⟩)
  | quantify u qvars fa =>
    exact Or.inr (Or.inr ⟨quantify_total m ext h.inv h.exact h.off u qvars fa,
      (quantify_lite ext u qvars fa m hL).1.exact⟩)
  | compose f varSub =>
    exact Or.inr (Or.inr ⟨compose_total m ext h.inv h.exact h.off f varSub,
      (compose_lite ext f varSub m hL).1.exact⟩)
  | rename u dvars =>
    exact Or.inr (Or.inr ⟨rename_total m ext h.inv h.exact h.off u dvars,
      (rename_lite ext u dvars m hL).1.exact⟩)
  | let_ d u =>
    exact Or.inr (Or.inr ⟨letOp_total m ext h.inv h.exact h.off d u,
      (letOp_lite ext d u m hL).1.exact⟩)
  | incref u =>
    have := incref_good m ext h u
    exact Or.inr (Or.inr ⟨incref_kept m h.inv u, this.1.exact⟩)
  | decref u =>
    have := decref_good m ext h u hg
    exact Or.inr (Or.inr ⟨decref_kept m h.inv u, this.1.exact⟩)

/-- **`step_inv`**: EVERY operation with EVERY argument — accepted or rejected by the code —
leads from a good state to a good state (C17's core; the induction step of every "for all
histories" statement). -/
theorem step_inv (m : Mgr) (ext : Nat → Nat) (op : UOp) (h : GoodState m ext) (hg : OpGuard m ext op) :
    GoodState (runOp op m).2 (ledger op m ext) := by
  rcases runOp_kept m ext h op hg with ⟨name, level, rfl⟩ | rfl | ⟨hk, hr⟩
  · exact (addVar_good m ext h name level hg.declare).1
  · obtain ⟨m', he, -, hgood⟩ := collectGarbage_good m ext h
    show GoodState (collectGarbage none m).2 ext
    rw [he]; exact hgood
  · exact h.of_kept hk hr

/-- every operation except the collection keeps EVERY reference (held or not) valid, with the
same function -/
theorem step_mem (m : Mgr) (ext : Nat → Nat) (op : UOp) (h : GoodState m ext) (hg : OpGuard m ext op)
    (hop : op ≠ .collectGarbage) (u : Int) (hu : m.tbl.Mem u) :
    (runOp op m).2.tbl.Mem u ∧ ∀ a, den (runOp op m).2.tbl u a = den m.tbl u a := by
  rcases runOp_kept m ext h op hg with ⟨name, level, rfl⟩ | rfl | ⟨hk, -⟩
  · exact (addVar_good m ext h name level hg.declare).2 u hu
  · exact absurd rfl hop
  · exact hk.den h.inv u hu

/-- **`step_held`**: every operation — the collection and the user's own `decref` included — keeps
every reference the user holds (`ext > 0` before the call) valid, with the same function -/
theorem step_held (m : Mgr) (ext : Nat → Nat) (op : UOp) (h : GoodState m ext) (hg : OpGuard m ext op)
    (u : Int) (hu : 0 < ext u.natAbs) :
    m.tbl.Mem u ∧ (runOp op m).2.tbl.Mem u ∧ ∀ a, den (runOp op m).2.tbl u a = den m.tbl u a := by
  have hm : m.tbl.Mem u := h.exact.mem_of_ext_pos hu
  refine ⟨hm, ?_⟩
  by_cases hop : op = .collectGarbage
  · subst hop
    obtain ⟨m', he, hp, -⟩ := collectGarbage_good m ext h
    show (collectGarbage none m).2.tbl.Mem u ∧ ∀ a, den (collectGarbage none m).2.tbl u a = den m.tbl u a
    rw [he]
    have hmem : m'.tbl.Mem u :=
      reach_survives hp.sub hp.inv.toInvS hp.refExact h.inv.toInvS (GcReach.root hu)
    exact ⟨hmem, fun a => hp.den_eq u hmem a⟩
  · exact step_mem m ext op h hg hop u hm

/-- a REJECTED call (any operation, any argument) is a `Kept` step — it changed nothing, or only
added nodes — and does not touch the user's ledger -/
theorem rejected_kept (m : Mgr) (ext : Nat → Nat) (op : UOp) (h : GoodState m ext) (hg : OpGuard m ext op)
    (e : Err) (hrej : (runOp op m).1 = .error e) :
    Kept m (runOp op m).2 ∧ ledger op m ext = ext := by
  rcases runOp_kept m ext h op hg with ⟨name, level, rfl⟩ | rfl | ⟨hk, -⟩
  · rcases addVar_cases m h.order name level hg.declare with he | ⟨-, he⟩
    · refine ⟨?_, rfl⟩
      show Kept m (addVar name level m).2
      rw [he]; exact Kept.refl h.inv
    · exfalso
      simp only [runOp, mapRes, he] at hrej
      cases hrej
  · exfalso
    obtain ⟨m', he, -, -⟩ := collectGarbage_good m ext h
    simp only [runOp, mapRes, he] at hrej
    cases hrej
  · refine ⟨hk, ?_⟩
    cases op with
    | incref u =>
      by_cases hu : m.tbl.Mem u
      · exfalso
        obtain ⟨c, -, he, -⟩ := incref_spec m ext u h.exact hu
        simp only [runOp, mapRes, he] at hrej
        cases hrej
      · have hm : m.mem u = false := (Tbl.mem_false_iff _ _).mpr hu
        simp [ledger, hm]
    | decref u =>
      by_cases hu : m.tbl.Mem u
      · exfalso
        obtain ⟨c, -, he, -⟩ := decref_spec m ext u h.exact (hg hu)
        simp only [runOp, mapRes, he] at hrej
        cases hrej
      · have hm : m.mem u = false := (Tbl.mem_false_iff _ _).mpr hu
        simp [ledger, hm]
    | _ => rfl

/-! ### histories -/

/-- a state of a history: the manager and the user's ledger -/
structure St where
  m : Mgr
  ext : Nat → Nat

/-- the empty manager, nothing held -/
def St.init : St := ⟨{}, fun _ => 0⟩

def step (op : UOp) (s : St) : St := ⟨(runOp op s.m).2, ledger op s.m s.ext⟩

def run : List UOp → St → St
  | [], s => s
  | op :: ops, s => run ops (step op s)

/-- every call of the history respects the caller obligations at the state it is issued in -/
def OpsGuarded : List UOp → St → Prop
  | [], _ => True
  | op :: ops, s => OpGuard s.m s.ext op ∧ OpsGuarded ops (step op s)

/-- the answers of the calls of a history, in order -/
def results : List UOp → St → List (Except Err Res)
  | [], _ => []
  | op :: ops, s => (runOp op s.m).1 :: results ops (step op s)

instance decOpsGuarded : (ops : List UOp) → (s : St) → Decidable (OpsGuarded ops s)
  | [], _ => isTrue trivial
  | op :: ops, s => by
    unfold OpsGuarded
    exact @instDecidableAnd _ _ _ (decOpsGuarded ops (step op s))

theorem run_append (a b : List UOp) (s : St) : run (a ++ b) s = run b (run a s) := by
  induction a generalizing s with
  | nil => rfl
  | cons op a ih => exact ih (step op s)

theorem opsGuarded_append (a b : List UOp) (s : St) :
    OpsGuarded (a ++ b) s ↔ (OpsGuarded a s ∧ OpsGuarded b (run a s)) := by
  induction a generalizing s with
  | nil => simp [OpsGuarded, run]
  | cons op a ih =>
    simp only [List.cons_append, OpsGuarded, run, ih (step op s), and_assoc]

/-- a guarded history from ANY good state ends in a good state -/
theorem run_inv (ops : List UOp) (s : St) (h : GoodState s.m s.ext) (hg : OpsGuarded ops s) :
    GoodState (run ops s).m (run ops s).ext := by
  induction ops generalizing s with
  | nil => exact h
  | cons op ops ih => exact ih (step op s) (step_inv s.m s.ext op h hg.1) hg.2

/-- **`reachable_inv`**: every state reached from the empty manager by a guarded history of
user operations — whatever their arguments, whichever of them were rejected — is a good state. -/
theorem reachable_inv (ops : List UOp) (hg : OpsGuarded ops St.init) :
    GoodState (run ops St.init).m (run ops St.init).ext :=
  run_inv ops St.init GoodState.init hg

/-- a reference the user holds and does not release stays valid and keeps its function through
ANY guarded continuation of the history -/
theorem run_held (ops : List UOp) (s : St) (h : GoodState s.m s.ext) (hg : OpsGuarded ops s) (u : Int)
    (hheld : ∀ (pre : List UOp) (post : List UOp), ops = pre ++ post → 0 < (run pre s).ext u.natAbs) :
    (run ops s).m.tbl.Mem u ∧ ∀ a, den (run ops s).m.tbl u a = den s.m.tbl u a := by
  induction ops generalizing s with
  | nil => exact ⟨h.exact.mem_of_ext_pos (hheld [] [] rfl), fun _ => rfl⟩
  | cons op ops ih =>
    have h0 : 0 < s.ext u.natAbs := hheld [] (op :: ops) rfl
    obtain ⟨-, -, hd1⟩ := step_held s.m s.ext op h hg.1 u h0
    obtain ⟨hm2, hd2⟩ := ih (step op s) (step_inv s.m s.ext op h hg.1) hg.2
      (fun pre post he => hheld (op :: pre) post (by rw [he]; rfl))
    exact ⟨hm2, fun a => (hd2 a).trans (hd1 a)⟩

/-! ### functions by variable NAME -/

/-- two references that agree as functions of the variable NAMES agree as functions of the levels
(every level below `nvars` has a name of its own) -/
theorem den_of_denN_tbl {t : Tbl} (hw : WF t) (hO : OrderOK t) (u v : Int) (hu : t.Mem u) (hv : t.Mem v)
    (h : ∀ σ, denN t u σ = denN t v σ) : ∀ a, den t u a = den t v a := by
  intro a
  let σ : AsgN := fun name => match t.vars[name]? with
    | some i => a i
    | none => false
  have hl : ∀ i, i < t.nvars → t.lift σ i = a i := by
    intro i hi
    obtain ⟨x, hx⟩ := hO.total i hi
    have hxx := (hO.inv x i).mpr hx
    simp [Tbl.lift, Tbl.nameOf, hx, σ, hxx]
  have := h σ
  unfold denN at this
  rw [den_agree_ge t hw u hu _ a (fun i _ hi => hl i hi),
    den_agree_ge t hw v hv _ a (fun i _ hi => hl i hi)] at this
  exact this

end DD
