/-
  DDProofs.ApiXCopyProofs — `dd._copy.copy_bdd` / `copy_bdds_from` (the copy through the public
  `Function` interface, `DD.xcopyF`): with reordering not enabled in the target and every variable
  of the support declared there, the call returns normally, the target keeps its invariant and
  only gains nodes, and the result denotes the same function of the variable NAMES (the statement
  of C11, for any two orders); copies of regular references are regular; and the counts stay
  exact (`Lite`), which is what the autoref layer needs.
-/
import DD.ApiXCopy
import DDProofs.ReachTotal
open Std

namespace DD

theorem Kept.toStep {m m' : Mgr} (h : Kept m m') : Step m m' := ⟨h.inv, h.ext, h.frame⟩

/-- how the source levels of the support are found in the target: through the variable NAME -/
def XLook (lm : List (Nat × Nat)) (S : Tbl) (t : Tbl) (u : Int) : Prop :=
  ∀ i, InSupp S u i → ∃ (v : String) (j : Nat),
    S.l2v[i]? = some v ∧ t.vars[v]? = some j ∧ lm.lookup i = some j ∧ j < t.nvars

theorem XLook.frame {lm : List (Nat × Nat)} {S : Tbl} {m m' : Mgr} {u : Int}
    (h : XLook lm S m.tbl u) (hs : Step m m') : XLook lm S m'.tbl u := by
  intro i hi
  obtain ⟨v, j, h1, h2, h3, h4⟩ := h i hi
  have hn : m'.tbl.nvars = m.tbl.nvars := hs.nvars
  exact ⟨v, j, h1, by rw [hs.frame.vars]; exact h2, h3, by rw [hn]; exact h4⟩

/-- `_copy._copy_bdd`: the analogue of `copyBddF_spec` -/
theorem xcopyF_spec (S : Tbl) (hS : WF S) (lm : List (Nat × Nat)) :
    ∀ (fu : Nat) (m : Mgr) (u : Int) (cache : HashMap Nat Int),
    Inv m → m.lastLen = none → S.Mem u → CMemo lm S m.tbl cache → XLook lm S m.tbl u →
    S.nvars + 1 ≤ fu + S.levelOf u →
    ∃ r c' m', xcopyF S fu u cache m = (.ok (r, c'), m') ∧ Step m m' ∧
      CMemo lm S m'.tbl c' ∧ CPost lm S m'.tbl u r := by
  intro fu
  induction fu with
  | zero =>
    intro m u cache _ _ hu _ _ hfu
    have := levelOf_le S hS u
    omega
  | succ fu ih =>
    intro m u cache hI hoff hu hmemo hlm hfu
    have hW := hI.wf.toWF
    unfold xcopyF
    by_cases hu1 : u = 1
    · subst hu1
      simp only [if_true]
      exact ⟨1, cache, m, rfl, Step.refl hI, hmemo, Or.inl rfl, Iff.rfl,
        fun a => by rw [den_one, den_one]⟩
    rw [if_neg hu1]
    by_cases hu2 : u = -1
    · subst hu2
      simp only [if_true]
      exact ⟨-1, cache, m, rfl, Step.refl hI, hmemo, Or.inl rfl, Iff.rfl,
        fun a => by rw [den_neg_one, den_neg_one]⟩
    rw [if_neg hu2]
    have h1 : u.natAbs ≠ 1 := by omega
    cases hc : cache[u.natAbs]? with
    | some r =>
      simp only
      obtain ⟨_, hp⟩ := hmemo _ r hc
      have hrpos : 0 < r := hp.sign.mpr (by omega)
      exact ⟨_, cache, m, rfl, Step.refl hI, hmemo, hp.flip hS hW hu hrpos⟩
    | none =>
      simp only
      obtain ⟨n, hn⟩ := mem_node hu h1
      have hn' : S.succ[u.natAbs]? = some n := hn
      rw [hn']
      simp only
      have hlu := levelOf_node S u n h1 hn
      have hlo := hS.lo_lt _ _ hn
      have hhi := hS.hi_lt _ _ hn
      have hlom := hS.lo_mem _ _ hn
      have hhim := hS.hi_mem _ _ hn
      obtain ⟨p, c1, m1, he1, hs1, hm1, hp1⟩ := ih m n.lo cache hI hoff hlom hmemo
        (fun i hi => hlm i (.lo h1 hn hi)) (by omega)
      rw [he1]
      simp only
      have hW1 := hs1.inv.wf.toWF
      obtain ⟨q, c2, m2, he2, hs2, hm2, hp2⟩ := ih m1 n.hi c1 hs1.inv (hs1.off hoff) hhim hm1
        (XLook.frame (fun i hi => hlm i (.hi h1 hn hi)) hs1) (by omega)
      rw [he2]
      simp only
      have hW2 := hs2.inv.wf.toWF
      have hs12 := hs1.trans hs2
      have hp1_2 := hp1.ext hW1 hs2.ext
      have hqpos : 0 < q := hp2.sign.mpr (hS.hi_pos _ _ hn)
      obtain ⟨name, jnew, hname, hvar, hj, hjlt⟩ := hlm n.lvl (.here h1 hn)
      rw [hname]
      simp only
      have hn2 : m2.tbl.nvars = m.tbl.nvars := hs12.nvars
      have hjlt2 : jnew < m2.nvars := by show jnew < m2.tbl.nvars; rw [hn2]; exact hjlt
      obtain ⟨g, m3, he3, hk3, hg3, hd3⟩ := var_spec m2 hs2.inv (hs12.off hoff) name jnew
        (by rw [hs12.frame.vars]; exact hvar) hjlt2
      have hs3 := hk3.toStep
      rw [he3]
      simp only
      have hW3 := hs3.inv.wf.toWF
      have hs123 := hs12.trans hs3
      have hp1_3 := hp1_2.ext hW2 hs3.ext
      have hp2_3 := hp2.ext hW2 hs3.ext
      obtain ⟨r, m4, he4, hp4⟩ := ite_spec_off m3 hs3.inv (hs123.off hoff) g q p
        hg3 hp2_3.mr hp1_3.mr
      rw [he4]
      simp only
      have hs4 := hs123.trans hp4.step
      have hW4 := hp4.inv.wf.toWF
      have hrpos : 0 < r := by
        apply pos_of_den_alltrue m4.tbl hW4 r hp4.mem
        rw [hp4.den, hd3]
        simp only [if_true]
        have := den_alltrue m3.tbl hW3 m3.tbl.nvars q hp2_3.mr (by omega)
        rw [this]; simpa using hqpos
      have hnn : S.node? ((u.natAbs : Int)).natAbs = some n := by simpa using hn
      have hu0 := mem_ne_zero hS hu
      have hpos : CPost lm S m4.tbl (u.natAbs : Int) r := by
        refine ⟨hp4.mem, ?_, ?_⟩
        · have : 0 < u.natAbs := by omega
          constructor
          · intro _; omega
          · intro _; exact hrpos
        · intro a
          rw [hp4.den a, den_node S hS (u.natAbs : Int) n _ (by simpa using h1) hnn,
            hp1_3.den a, hp2_3.den a, hd3 a]
          have h2 : ¬ ((u.natAbs : Int) < 0) := by omega
          have h3 : cmap lm a n.lvl = a jnew := by simp [cmap, hj]
          simp [h2, h3]
      have hk : 0 < u.natAbs := by omega
      exact ⟨_, _, m4, rfl, hs4,
        (((hm2.ext hW2 hs3.ext).ext hW3 hp4.ext).insert hk hpos),
        hpos.flip hS hW4 hu hrpos⟩

/-- `dd._copy.copy_bdd(u, target)`: `s` is the node table of the manager of `u`, `m` the target;
every variable of the support of `u` is declared in the target.  The copy denotes the same
function of the variable names (for ANY two orders); the target keeps its invariant and only
gains nodes. -/
theorem xcopyBody_spec (s : Tbl) (hS : WF s) (hVs : VarsBij s) (m : Mgr) (hI : Inv m)
    (hoff : m.lastLen = none) (hVm : VarsBij m.tbl) (u : Int) (hu : s.Mem u)
    (hsup : ∀ i v, InSupp s u i → s.l2v[i]? = some v → m.tbl.vars.contains v = true) :
    ∃ r m', xcopyBody s u m = (.ok r, m') ∧ Inv m' ∧ Ext m.tbl m'.tbl ∧ m'.tbl.Mem r ∧
      Frame m m' ∧ (0 < r ↔ 0 < u) ∧ denName m'.tbl r = denName s u := by
  have hname : ∀ i, InSupp s u i → ∃ v, s.l2v[i]? = some v := by
    intro i hi
    obtain ⟨v, hv⟩ := hVs.onto i (hi.lt_nvars hS)
    exact ⟨v, hVs.v2l _ _ hv⟩
  have hlook : ∀ i v, InSupp s u i → s.l2v[i]? = some v →
      ∃ j, (copyMap s m.tbl).lookup i = some j ∧ m.tbl.vars[v]? = some j := by
    intro i v hi hv
    obtain ⟨j, hj⟩ := (vars_contains_iff m.tbl v).mp (hsup i v hi hv)
    refine ⟨j, ?_, hj⟩
    unfold copyMap
    apply lookup_filterMap_unique (fun x => m.tbl.vars[x]?) v i j hj
    · exact TreeMap.mem_toList_iff_getElem?_eq_some.mpr (hVs.l2v _ _ hv)
    · intro v' hv'
      exact hVs.inj (TreeMap.mem_toList_iff_getElem?_eq_some.mp hv') (hVs.l2v _ _ hv)
  obtain ⟨r, c', m1, he, hs, _, hp⟩ := xcopyF_spec s hS (copyMap s m.tbl)
    (s.nvars + 2) m u {} hI hoff hu (CMemo.empty _ _ _)
    (by
      intro i hi
      obtain ⟨v, hv⟩ := hname i hi
      obtain ⟨j, hj, hjv⟩ := hlook i v hi hv
      exact ⟨v, j, hv, hjv, hj, hVm.lt _ _ hjv⟩)
    (by omega)
  refine ⟨r, m1, ?_, hs.inv, hs.ext, hp.mr, hs.frame, hp.sign, ?_⟩
  · unfold xcopyBody
    rw [he]
  · funext a
    show den m1.tbl r (nameAsg m1.tbl a) = den s u (nameAsg s a)
    rw [hp.den]
    apply den_agree_supp s hS u hu
    intro i hi
    obtain ⟨v, hv⟩ := hname i hi
    obtain ⟨j, hj, hjv⟩ := hlook i v hi hv
    have hl2v : m1.tbl.l2v = m.tbl.l2v := hs.frame.l2v
    simp [cmap, hj, nameAsg, hv, hl2v, hVm.v2l _ _ hjv]

/-! ### `copy_bdds_from`: one memo for all roots -/

/-- the loop `[copy_bdd(u, target, cache) for u in roots]` -/
theorem xcopyList_spec (S : Tbl) (hS : WF S) (lm : List (Nat × Nat)) :
    ∀ (us : List Int) (m : Mgr) (cache : HashMap Nat Int),
    Inv m → m.lastLen = none → (∀ u ∈ us, S.Mem u) → CMemo lm S m.tbl cache →
    (∀ u ∈ us, XLook lm S m.tbl u) →
    ∃ rs m', xcopyList S us cache m = (.ok rs, m') ∧ Step m m' ∧ rs.length = us.length ∧
      ∀ p ∈ us.zip rs, CPost lm S m'.tbl p.1 p.2 := by
  intro us
  induction us with
  | nil =>
    intro m cache hI _ _ _ _
    exact ⟨[], m, rfl, Step.refl hI, rfl, fun p hp => by cases hp⟩
  | cons u us ih =>
    intro m cache hI hoff hmem hmemo hlook
    obtain ⟨r, c1, m1, he1, hs1, hm1, hp1⟩ := xcopyF_spec S hS lm (S.nvars + 2) m u cache hI hoff
      (hmem u List.mem_cons_self) hmemo (hlook u List.mem_cons_self) (by omega)
    obtain ⟨rs, m2, he2, hs2, hlen, hall⟩ := ih m1 c1 hs1.inv (hs1.off hoff)
      (fun x hx => hmem x (List.mem_cons_of_mem _ hx)) hm1
      (fun x hx => (hlook x (List.mem_cons_of_mem _ hx)).frame hs1)
    refine ⟨r :: rs, m2, ?_, hs1.trans hs2, by simp [hlen], ?_⟩
    · simp only [xcopyList, he1, he2]
    · intro p hp
      rw [List.zip_cons_cons] at hp
      rcases List.mem_cons.mp hp with h | h
      · subst h
        exact hp1.ext hs1.inv.wf.toWF hs2.ext
      · exact hall p h

/-- `dd._copy.copy_bdds_from(roots, target)`: every element of the result denotes, by variable
name, the function of the corresponding root (one memo serves all roots) -/
theorem xcopyList_denName (s : Tbl) (hS : WF s) (hVs : VarsBij s) (m : Mgr) (hI : Inv m)
    (hoff : m.lastLen = none) (hVm : VarsBij m.tbl) (us : List Int) (hu : ∀ u ∈ us, s.Mem u)
    (hsup : ∀ u ∈ us, ∀ i v, InSupp s u i → s.l2v[i]? = some v → m.tbl.vars.contains v = true) :
    ∃ rs m', xcopyList s us {} m = (.ok rs, m') ∧ Inv m' ∧ Ext m.tbl m'.tbl ∧ Frame m m' ∧
      rs.length = us.length ∧
      ∀ p ∈ us.zip rs, m'.tbl.Mem p.2 ∧ (0 < p.2 ↔ 0 < p.1) ∧ denName m'.tbl p.2 = denName s p.1 := by
  have hname : ∀ u ∈ us, ∀ i, InSupp s u i → ∃ v, s.l2v[i]? = some v := by
    intro u _ i hi
    obtain ⟨v, hv⟩ := hVs.onto i (hi.lt_nvars hS)
    exact ⟨v, hVs.v2l _ _ hv⟩
  have hlook : ∀ u ∈ us, ∀ i v, InSupp s u i → s.l2v[i]? = some v →
      ∃ j, (copyMap s m.tbl).lookup i = some j ∧ m.tbl.vars[v]? = some j := by
    intro u hu' i v hi hv
    obtain ⟨j, hj⟩ := (vars_contains_iff m.tbl v).mp (hsup u hu' i v hi hv)
    refine ⟨j, ?_, hj⟩
    unfold copyMap
    apply lookup_filterMap_unique (fun x => m.tbl.vars[x]?) v i j hj
    · exact TreeMap.mem_toList_iff_getElem?_eq_some.mpr (hVs.l2v _ _ hv)
    · intro v' hv'
      exact hVs.inj (TreeMap.mem_toList_iff_getElem?_eq_some.mp hv') (hVs.l2v _ _ hv)
  obtain ⟨rs, m1, he, hs, hlen, hall⟩ := xcopyList_spec s hS (copyMap s m.tbl) us m {} hI hoff hu
    (CMemo.empty _ _ _)
    (by
      intro u hu' i hi
      obtain ⟨v, hv⟩ := hname u hu' i hi
      obtain ⟨j, hj, hjv⟩ := hlook u hu' i v hi hv
      exact ⟨v, j, hv, hjv, hj, hVm.lt _ _ hjv⟩)
  refine ⟨rs, m1, he, hs.inv, hs.ext, hs.frame, hlen, fun p hp => ?_⟩
  have hpu : p.1 ∈ us := (List.of_mem_zip hp).1
  have hpost := hall p hp
  refine ⟨hpost.mr, hpost.sign, ?_⟩
  funext a
  show den m1.tbl p.2 (nameAsg m1.tbl a) = den s p.1 (nameAsg s a)
  rw [hpost.den]
  apply den_agree_supp s hS p.1 (hu p.1 hpu)
  intro i hi
  obtain ⟨v, hv⟩ := hname p.1 hpu i hi
  obtain ⟨j, hj, hjv⟩ := hlook p.1 hpu i v hi hv
  have hl2v : m1.tbl.l2v = m.tbl.l2v := hs.frame.l2v
  simp [cmap, hj, nameAsg, hv, hl2v, hVm.v2l _ _ hjv]

/-! ### counts: the state stays `Lite` for ARBITRARY arguments -/

theorem xcopyF_lite (ext : Nat → Nat) (src : Tbl) :
    ∀ (fu : Nat) (u : Int) (cache : HashMap Nat Int) (m : Mgr), Lite ext m →
    LiteOut ext (xcopyF src fu u cache m) := by
  intro fu
  induction fu with
  | zero => intro u cache m h; exact h.err _ (by simp)
  | succ fu ih =>
    intro u cache m h
    unfold xcopyF
    split
    · exact h.ok _
    split
    · exact h.ok _
    split
    · exact h.ok _
    split
    · exact h.err _ (by simp)
    split
    · next heq => exact (ih _ _ _ h).of_eq heq
    next heq =>
    have h1 := (ih _ _ _ h).of_eq heq
    split
    · next heq => exact (ih _ _ _ h1.1).of_eq heq
    next heq =>
    have h2 := (ih _ _ _ h1.1).of_eq heq
    split
    · exact h2.1.err _ (by simp)
    split
    · next heq => exact ((var_lite ext _ _ h2.1).of_eq heq).reErr
    next heq =>
    have h3 := (var_lite ext _ _ h2.1).of_eq heq
    split
    · next heq => exact ((ite_lite ext _ _ _ _ h3.1).of_eq heq).reErr
    next heq =>
    have h4 := (ite_lite ext _ _ _ _ h3.1).of_eq heq
    exact h4.1.ok _

theorem xcopyBody_lite (ext : Nat → Nat) (s : Tbl) (u : Int) (m : Mgr) (h : Lite ext m) :
    LiteOut ext (xcopyBody s u m) := by
  unfold xcopyBody
  have h1 := xcopyF_lite ext s (s.nvars + 2) u {} m h
  generalize xcopyF s (s.nvars + 2) u {} m = res at h1 ⊢
  obtain ⟨r, m1⟩ := res
  cases r with
  | error e => exact h1.reErr
  | ok rc => exact ⟨h1.1, by simp⟩

end DD
