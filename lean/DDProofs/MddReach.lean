/-
  DDProofs.MddReach — the states reachable from `MDD(dvars)` by calls of the user: successful
  ones (`find_or_add` with ordered successors, `ite`, `apply`, `incref`, `decref` of a held
  reference, `collect_garbage`) AND failed ones, for EVERY behaviour of `_free.pop()`: the calls
  that allocate run under an arbitrary recorded schedule `sch` of pops (installed before the call,
  what is left dropped afterwards — as the driver does), and every choice the real `set.pop()`
  can make is realised by some schedule (`mAllocate_accepts`).  All reachable states satisfy the
  invariant, have exact counts for the ledger of references the user holds, and keys of `_ref`
  that are nodes; a failed call leaves the state it found.
-/
import DDProofs.MddLedger
import DDProofs.MddErr
open Std

namespace DD

/-- states reachable from `MDD(dvars)`, with the ledger of the references the user holds -/
inductive MReach (dv : List MVar) : MddMgr → (Nat → Nat) → Prop
  | init : MReach dv (MddMgr.new (some dv)) (fun _ => 0)
  /-- `find_or_add` (successors below the level), for any recorded pops `sch` -/
  | foaS {m ext} (sch : List Nat) (i : Int) (nodes : List Int) (r : Int) (m1 : MddMgr) :
      MReach dv m ext → (∀ k ∈ nodes, i.toNat < m.tbl.levelOf k) →
      mFindOrAdd i nodes { m with sched := sch } = (.ok r, m1) →
      MReach dv { m1 with sched := [] } ext
  /-- any `ite` that returns, for any recorded pops -/
  | iteS {m ext} (sch : List Nat) (g u v w : Int) (m1 : MddMgr) :
      MReach dv m ext → mIte g u v { m with sched := sch } = (.ok w, m1) →
      MReach dv { m1 with sched := [] } ext
  | applyS {m ext} (sch : List Nat) (op : String) (c : Conn) (u : Int) (v w : Option Int) (r : Int)
      (m1 : MddMgr) :
      MReach dv m ext → docConn op = some c →
      mApply op u v w { m with sched := sch } = (.ok r, m1) → MReach dv { m1 with sched := [] } ext
  | incref {m ext} (u : Int) (m' : MddMgr) :
      MReach dv m ext → m.tbl.Mem u → mIncref u m = (.ok (), m') → MReach dv m' (mExtInc ext u)
  | decref {m ext} (u : Int) (m' : MddMgr) :
      MReach dv m ext → m.tbl.Mem u → 0 < ext u.natAbs →
      mDecref u m = (.ok (), m') → MReach dv m' (mExtDec ext u)
  | gc {m ext} (roots : Option (List Int)) (m' : MddMgr) :
      MReach dv m ext → mCollectGarbage roots m = (.ok (), m') → MReach dv m' ext
  /-- calls that raise, whatever their arguments (for `ite` / `apply`: anything but the model's own
  report that the recorded pops do not fit, which is not a behaviour of the code) -/
  | foaFail {m ext} (sch : List Nat) (i : Int) (nodes : List Int) (e : Err) (m1 : MddMgr) :
      MReach dv m ext → mFindOrAdd i nodes { m with sched := sch } = (.error e, m1) →
      MReach dv { m1 with sched := [] } ext
  | iteFail {m ext} (sch : List Nat) (g u v : Int) (e : Err) (m1 : MddMgr) :
      MReach dv m ext → mIte g u v { m with sched := sch } = (.error e, m1) → e ≠ .sched →
      MReach dv { m1 with sched := [] } ext
  | applyFail {m ext} (sch : List Nat) (op : String) (u : Int) (v w : Option Int) (e : Err)
      (m1 : MddMgr) :
      MReach dv m ext → mApply op u v w { m with sched := sch } = (.error e, m1) → e ≠ .sched →
      MReach dv { m1 with sched := [] } ext
  | increfFail {m ext} (u : Int) (e : Err) (m1 : MddMgr) :
      MReach dv m ext → mIncref u m = (.error e, m1) → MReach dv m1 ext
  | decrefFail {m ext} (u : Int) (e : Err) (m1 : MddMgr) :
      MReach dv m ext → mDecref u m = (.error e, m1) → MReach dv m1 ext
  | gcFail {m ext} (roots : Option (List Int)) (e : Err) (m1 : MddMgr) :
      MReach dv m ext → mCollectGarbage roots m = (.error e, m1) → MReach dv m1 ext

/-- every reachable state satisfies the invariant, has exact counts, the variables given at
construction, no stale key in `_ref`, and no recorded schedule left -/
theorem MReach.all {dv : List MVar} {m : MddMgr} {ext : Nat → Nat} (h : MReach dv m ext) :
    MInv m ∧ MRefExact m ext ∧ m.tbl.vars = dv ∧ RefKeys m ∧ m.sched = [] := by
  induction h with
  | init => exact ⟨MInv.init dv, MRefExact.init dv, rfl, RefKeys.init dv, rfl⟩
  | foaS sch i nodes r m1 _ hlt hr ih =>
    obtain ⟨hi, hx, hv, hk, hs⟩ := ih
    have hk1 := mFindOrAdd_rk _ _ _ _ _ hr (hk.setSched sch)
    unfold mFindOrAdd at hr
    split at hr
    · simp at hr
    · have F := mFindOrAddCore_spec _ (hi.setSched sch) i.toNat nodes hlt r m1 hr
      exact ⟨F.inv.setSched [], (F.exact _ (hx.setSched sch)).setSched [], F.ext.vars.symm.trans hv,
        hk1.setSched [], rfl⟩
  | iteS sch g u v w m1 _ hr ih =>
    obtain ⟨hi, hx, hv, hk, hs⟩ := ih
    rcases mIte_ok_cases _ g u v w m1 hr with ⟨mg, mu, mv⟩ | heq
    · have hk1 := mIte_rk _ _ _ _ _ _ hr (hk.setSched sch)
      have I := mIte_spec _ (hi.setSched sch) g u v mg mu mv w m1 hr
      exact ⟨I.inv.setSched [], (I.exact _ (hx.setSched sch)).setSched [], I.ext.vars.symm.trans hv,
        hk1.setSched [], rfl⟩
    · rw [heq, MddMgr.setSched_setSched_self _ hs]
      exact ⟨hi, hx, hv, hk, hs⟩
  | applyS sch op c u v w r m1 _ hc hr ih =>
    obtain ⟨hi, hx, hv, hk, hs⟩ := ih
    have hk1 := mApply_rk _ _ _ _ _ _ _ hr (hk.setSched sch)
    have A := mApply_spec _ (hi.setSched sch) op c hc u v w r m1 hr
    exact ⟨A.inv.setSched [], (A.exact _ (hx.setSched sch)).setSched [], A.ext.vars.symm.trans hv,
      hk1.setSched [], rfl⟩
  | incref u m' _ hu hr ih =>
    obtain ⟨hi, hx, hv, hk, hs⟩ := ih
    have I := mIncref_inv u _ hi _ m' hr
    exact ⟨I.1, mIncref_exact u _ _ hu hx m' hr, by rw [I.2]; exact hv, mIncref_rk _ _ _ _ hr hk,
      by rw [mIncref_sched _ _ _ _ hr]; exact hs⟩
  | decref u m' _ hu hheld hr ih =>
    obtain ⟨hi, hx, hv, hk, hs⟩ := ih
    have I := mDecref_inv u _ hi _ m' hr
    exact ⟨I.1, mDecref_exact u _ _ hu hheld hx m' hr, by rw [I.2]; exact hv, mDecref_rk _ _ _ _ hr hk,
      by rw [mDecref_sched _ _ _ _ hr]; exact hs⟩
  | gc roots m' _ hr ih =>
    obtain ⟨hi, hx, hv, hk, hs⟩ := ih
    have G := mddGc_spec _ _ hi hx roots m' hr
    exact ⟨G.inv, G.exact, G.sub.vars.trans hv, mCollectGarbage_rk _ _ _ hr hk,
      by rw [mCollectGarbage_sched _ _ _ _ hr]; exact hs⟩
  | foaFail sch i nodes e m1 _ hr ih =>
    obtain ⟨hi, hx, hv, hk, hs⟩ := ih
    rw [mFindOrAdd_err _ (hi.setSched sch) i nodes e m1 hr, MddMgr.setSched_setSched_self _ hs]
    exact ⟨hi, hx, hv, hk, hs⟩
  | iteFail sch g u v e m1 _ hr he ih =>
    obtain ⟨hi, hx, hv, hk, hs⟩ := ih
    rw [mIte_err _ (hi.setSched sch) g u v e m1 hr he, MddMgr.setSched_setSched_self _ hs]
    exact ⟨hi, hx, hv, hk, hs⟩
  | applyFail sch op u v w e m1 _ hr he ih =>
    obtain ⟨hi, hx, hv, hk, hs⟩ := ih
    rw [mApply_err _ (hi.setSched sch) op u v w e m1 hr he, MddMgr.setSched_setSched_self _ hs]
    exact ⟨hi, hx, hv, hk, hs⟩
  | increfFail u e m1 _ hr ih => rw [mIncref_err u _ e m1 hr]; exact ih
  | decrefFail u e m1 _ hr ih => rw [mDecref_err u _ e m1 hr]; exact ih
  | gcFail roots e m1 _ hr ih =>
    obtain ⟨hi, hx, hv, hk, hs⟩ := ih
    rw [mCollectGarbage_err _ _ hi hx hk roots e m1 hr]
    exact ⟨hi, hx, hv, hk, hs⟩

theorem MReach.inv {dv : List MVar} {m : MddMgr} {ext : Nat → Nat} (h : MReach dv m ext) :
    MInv m ∧ MRefExact m ext ∧ m.tbl.vars = dv :=
  ⟨h.all.1, h.all.2.1, h.all.2.2.1⟩

/-- in every reachable state the keys of `_ref` are nodes -/
theorem MReach.refKeys {dv : List MVar} {m : MddMgr} {ext : Nat → Nat} (h : MReach dv m ext) :
    RefKeys m := h.all.2.2.2.1

/-- between calls no recorded schedule is left -/
theorem MReach.sched_nil {dv : List MVar} {m : MddMgr} {ext : Nat → Nat} (h : MReach dv m ext) :
    m.sched = [] := h.all.2.2.2.2

/-! ### the calls without a recorded schedule (least-element pops) -/

theorem MReach.foa {dv : List MVar} {m : MddMgr} {ext : Nat → Nat} (i : Int) (nodes : List Int)
    (r : Int) (m' : MddMgr) (h : MReach dv m ext) (hlt : ∀ k ∈ nodes, i.toNat < m.tbl.levelOf k)
    (hr : mFindOrAdd i nodes m = (.ok r, m')) : MReach dv m' ext := by
  have hs := h.sched_nil
  have hs' := mFindOrAdd_sched_nil _ _ _ _ _ hr hs
  have := MReach.foaS [] i nodes r m' h hlt (by rw [MddMgr.setSched_self m hs]; exact hr)
  rw [MddMgr.setSched_self m' hs'] at this
  exact this

theorem MReach.ite {dv : List MVar} {m : MddMgr} {ext : Nat → Nat} (g u v w : Int) (m' : MddMgr)
    (h : MReach dv m ext) (hr : mIte g u v m = (.ok w, m')) : MReach dv m' ext := by
  have hs := h.sched_nil
  have hs' := mIte_ok_sched_nil m h.inv.1 hs g u v w m' hr
  have := MReach.iteS [] g u v w m' h (by rw [MddMgr.setSched_self m hs]; exact hr)
  rw [MddMgr.setSched_self m' hs'] at this
  exact this

theorem MReach.apply {dv : List MVar} {m : MddMgr} {ext : Nat → Nat} (op : String) (c : Conn) (u : Int)
    (v w : Option Int) (r : Int) (m' : MddMgr) (h : MReach dv m ext) (hc : docConn op = some c)
    (hr : mApply op u v w m = (.ok r, m')) : MReach dv m' ext := by
  have hs := h.sched_nil
  have hs' := mApply_ok_sched_nil m h.inv.1 hs op u v w r m' hr
  have := MReach.applyS [] op c u v w r m' h hc (by rw [MddMgr.setSched_self m hs]; exact hr)
  rw [MddMgr.setSched_self m' hs'] at this
  exact this

/-- a failed call (for `ite` / `apply`: anything but the model's schedule report) leaves the
manager it found — the failing constructors of `MReach` add no state -/
theorem MReach.failed_unchanged {dv : List MVar} {m : MddMgr} {ext : Nat → Nat} (h : MReach dv m ext)
    (sch : List Nat) (e : Err) (m1 : MddMgr) :
    (∀ i nodes, mFindOrAdd i nodes { m with sched := sch } = (.error e, m1) →
      ({ m1 with sched := [] } : MddMgr) = m) ∧
    (∀ g u v, mIte g u v { m with sched := sch } = (.error e, m1) → e ≠ .sched →
      ({ m1 with sched := [] } : MddMgr) = m) ∧
    (∀ op u v w, mApply op u v w { m with sched := sch } = (.error e, m1) → e ≠ .sched →
      ({ m1 with sched := [] } : MddMgr) = m) ∧
    (∀ u, mIncref u m = (.error e, m1) → m1 = m) ∧
    (∀ u, mDecref u m = (.error e, m1) → m1 = m) ∧
    (∀ roots, mCollectGarbage roots m = (.error e, m1) → m1 = m) := by
  obtain ⟨hi, hx, _, hk, hs⟩ := h.all
  refine ⟨?_, ?_, ?_, ?_, ?_, ?_⟩
  · intro i nodes hr
    rw [mFindOrAdd_err _ (hi.setSched sch) i nodes e m1 hr, MddMgr.setSched_setSched_self _ hs]
  · intro g u v hr he
    rw [mIte_err _ (hi.setSched sch) g u v e m1 hr he, MddMgr.setSched_setSched_self _ hs]
  · intro op u v w hr he
    rw [mApply_err _ (hi.setSched sch) op u v w e m1 hr he, MddMgr.setSched_setSched_self _ hs]
  · intro u hr; exact mIncref_err u _ e m1 hr
  · intro u hr; exact mDecref_err u _ e m1 hr
  · intro roots hr; exact mCollectGarbage_err _ _ hi hx hk roots e m1 hr

end DD
