/-
  DDProofs.MddReach — exact counts under `incref` / `decref`, and the states reachable from
  `MDD(dvars)` by successful calls (`find_or_add` with ordered successors, `ite`, `apply`,
  `incref`, `decref` of a held reference, `collect_garbage`): all of them satisfy the invariant
  and have exact counts for the ledger of references the user holds.
-/
import DDProofs.MddGc
open Std

namespace DD

/-- the ledger after taking one more reference to `u` -/
def mExtInc (ext : Nat → Nat) (u : Int) : Nat → Nat := fun x => if x = u.natAbs then ext x + 1 else ext x
/-- the ledger after releasing one reference to `u` -/
def mExtDec (ext : Nat → Nat) (u : Int) : Nat → Nat := fun x => if x = u.natAbs then ext x - 1 else ext x

theorem mIncref_exact (u : Int) (m : MddMgr) (ext : Nat → Nat) (hu : m.tbl.Mem u)
    (hx : MRefExact m ext) (m' : MddMgr) (hi : mIncref u m = (.ok (), m')) :
    MRefExact m' (mExtInc ext u) := by
  unfold mIncref at hi
  split at hi
  · simp at hi
  · next c hc =>
    simp only [Prod.mk.injEq, true_and] at hi
    subst hi
    have hcnt := hx.cnt u.natAbs hu
    rw [hc] at hcnt
    simp only [Option.some.injEq] at hcnt
    constructor
    · intro x hxm
      show (m.ref.insert u.natAbs (c + 1))[x]? = some (m.tbl.indeg (m.max + 1) x + mExtInc ext u x)
      rw [natmap_getElem?_insert]
      unfold mExtInc
      by_cases hux : u.natAbs = x
      · subst hux
        simp only [if_true, Option.some.injEq]
        omega
      · have : ¬ x = u.natAbs := fun e => hux e.symm
        simp only [hux, this, if_false]
        exact hx.cnt x hxm
    · intro x hx1 hxn
      unfold mExtInc
      have hne : ¬ x = u.natAbs := by
        intro e; subst e
        rcases hu with h1 | h1
        · exact hx1 h1
        · have : m.tbl.node? u.natAbs = none := hxn
          rw [this] at h1; cases h1
      simp only [hne, if_false]
      exact hx.extZero x hx1 hxn

theorem mDecref_exact (u : Int) (m : MddMgr) (ext : Nat → Nat) (hu : m.tbl.Mem u)
    (hheld : 0 < ext u.natAbs)
    (hx : MRefExact m ext) (m' : MddMgr) (hi : mDecref u m = (.ok (), m')) :
    MRefExact m' (mExtDec ext u) := by
  unfold mDecref at hi
  split at hi
  · simp at hi
  · next c hc =>
    have hcnt := hx.cnt u.natAbs hu
    rw [hc] at hcnt
    simp only [Option.some.injEq] at hcnt
    split at hi
    · omega
    · simp only [Prod.mk.injEq, true_and] at hi
      subst hi
      constructor
      · intro x hxm
        show (m.ref.insert u.natAbs (c - 1))[x]? = some (m.tbl.indeg (m.max + 1) x + mExtDec ext u x)
        rw [natmap_getElem?_insert]
        unfold mExtDec
        by_cases hux : u.natAbs = x
        · subst hux
          simp only [if_true, Option.some.injEq]
          omega
        · have : ¬ x = u.natAbs := fun e => hux e.symm
          simp only [hux, this, if_false]
          exact hx.cnt x hxm
      · intro x hx1 hxn
        unfold mExtDec
        have hne : ¬ x = u.natAbs := by
          intro e; subst e
          rcases hu with h1 | h1
          · exact hx1 h1
          · have : m.tbl.node? u.natAbs = none := hxn
            rw [this] at h1; cases h1
        simp only [hne, if_false]
        exact hx.extZero x hx1 hxn

/-- a fresh `MDD(dvars)` has exact counts for the empty ledger -/
theorem MRefExact.init (dv : List MVar) : MRefExact (MddMgr.new (some dv)) (fun _ => 0) := by
  constructor
  · intro u hu
    have hnone : ∀ p, (MddMgr.new (some dv)).tbl.node? p = none := by
      intro p; simp [MddMgr.new, MTbl.node?]
    rcases hu with rfl | h1
    · have : (MddMgr.new (some dv)).tbl.indeg ((MddMgr.new (some dv)).max + 1) 1 = 0 := by
        unfold MTbl.indeg
        simp [MddMgr.new, sumRange, MTbl.node?, edgesInto]
      rw [this]
      simp [MddMgr.new]
    · rw [hnone u] at h1; cases h1
  · intro _ _ _; rfl

/-- states reachable from `MDD(dvars)` by successful calls, with the ledger of the references
the user holds -/
inductive MReach (dv : List MVar) : MddMgr → (Nat → Nat) → Prop
  | init : MReach dv (MddMgr.new (some dv)) (fun _ => 0)
  | foa {m ext} (i : Int) (nodes : List Int) (r : Int) (m' : MddMgr) :
      MReach dv m ext → (∀ k ∈ nodes, i.toNat < m.tbl.levelOf k) →
      mFindOrAdd i nodes m = (.ok r, m') → MReach dv m' ext
  | ite {m ext} (g u v w : Int) (m' : MddMgr) :
      MReach dv m ext → m.tbl.Mem g → m.tbl.Mem u → m.tbl.Mem v →
      mIte g u v m = (.ok w, m') → MReach dv m' ext
  | apply {m ext} (op : String) (c : Conn) (u : Int) (v w : Option Int) (r : Int) (m' : MddMgr) :
      MReach dv m ext → docConn op = some c →
      mApply op u v w m = (.ok r, m') → MReach dv m' ext
  | incref {m ext} (u : Int) (m' : MddMgr) :
      MReach dv m ext → m.tbl.Mem u → mIncref u m = (.ok (), m') → MReach dv m' (mExtInc ext u)
  | decref {m ext} (u : Int) (m' : MddMgr) :
      MReach dv m ext → m.tbl.Mem u → 0 < ext u.natAbs →
      mDecref u m = (.ok (), m') → MReach dv m' (mExtDec ext u)
  | gc {m ext} (roots : Option (List Int)) (m' : MddMgr) :
      MReach dv m ext → mCollectGarbage roots m = (.ok (), m') → MReach dv m' ext

/-- every reachable state satisfies the invariant, has exact counts, and the variables given
at construction -/
theorem MReach.inv {dv : List MVar} {m : MddMgr} {ext : Nat → Nat} (h : MReach dv m ext) :
    MInv m ∧ MRefExact m ext ∧ m.tbl.vars = dv := by
  induction h with
  | init => exact ⟨MInv.init dv, MRefExact.init dv, rfl⟩
  | foa i nodes r m' _ hlt hr ih =>
    obtain ⟨hi, hx, hv⟩ := ih
    unfold mFindOrAdd at hr
    split at hr
    · simp at hr
    · have F := mFindOrAddCore_spec _ hi i.toNat nodes hlt r m' hr
      exact ⟨F.inv, F.exact _ hx, F.ext.vars.symm.trans hv⟩
  | ite g u v w m' _ mg mu mv hr ih =>
    obtain ⟨hi, hx, hv⟩ := ih
    have I := mIte_spec _ hi g u v mg mu mv w m' hr
    exact ⟨I.inv, I.exact _ hx, I.ext.vars.symm.trans hv⟩
  | apply op c u v w r m' _ hc hr ih =>
    obtain ⟨hi, hx, hv⟩ := ih
    have A := mApply_spec _ hi op c hc u v w r m' hr
    exact ⟨A.inv, A.exact _ hx, A.ext.vars.symm.trans hv⟩
  | incref u m' _ hu hr ih =>
    obtain ⟨hi, hx, hv⟩ := ih
    have I := mIncref_inv u _ hi _ m' hr
    exact ⟨I.1, mIncref_exact u _ _ hu hx m' hr, by rw [I.2]; exact hv⟩
  | decref u m' _ hu hheld hr ih =>
    obtain ⟨hi, hx, hv⟩ := ih
    have I := mDecref_inv u _ hi _ m' hr
    exact ⟨I.1, mDecref_exact u _ _ hu hheld hx m' hr, by rw [I.2]; exact hv⟩
  | gc roots m' _ hr ih =>
    obtain ⟨hi, hx, hv⟩ := ih
    have G := mddGc_spec _ _ hi hx roots m' hr
    exact ⟨G.inv, G.exact, G.sub.vars.trans hv⟩

end DD
