/-
  DDProofs.LexComments — comments are skipped: a comment inserted between two tokens (or
  before the first / after the last) does not change the token string; the lexer's answer does
  not depend on the fuel of the model; a comment in front of ANY text is dropped.
-/
import DDProofs.LexLayout
namespace DD

/-! ### a comment between tokens -/

/-- inserting the blank `c` into the gap after a token keeps the layout admissible: always when
something precedes it in the gap, and at the front of the gap when the token text does not
clash with the first character of `c` -/
theorem piecesOk_insert (nx : Option Char) (t : Tok) (sp : String) (g₁ g₂ : List Blank) (c : Blank)
    (ps₂ : List Piece) (hc : c.ok = true) (hfront : g₁ = [] → sepOk sp.toList (some c.first) = true) :
    ∀ ps₁ : List Piece, piecesOk nx (ps₁ ++ ⟨t, sp, g₁ ++ g₂⟩ :: ps₂) = true →
    piecesOk nx (ps₁ ++ ⟨t, sp, g₁ ++ c :: g₂⟩ :: ps₂) = true
  | [], h => by
    simp only [List.nil_append, piecesOk, Bool.and_eq_true, List.all_append, List.all_cons] at h ⊢
    obtain ⟨⟨⟨hts, hg⟩, hsep⟩, hrest⟩ := h
    refine ⟨⟨⟨hts, ⟨hg.1, hc, hg.2⟩⟩, ?_⟩, hrest⟩
    cases g₁ with
    | nil => simpa [nextChar] using hfront rfl
    | cons b g => simpa [nextChar] using hsep
  | q :: ps₁, h => by
    simp only [List.cons_append, piecesOk, Bool.and_eq_true] at h ⊢
    obtain ⟨⟨hq, hsep⟩, hrest⟩ := h
    refine ⟨⟨hq, ?_⟩, piecesOk_insert nx t sp g₁ g₂ c ps₂ hc hfront ps₁ hrest⟩
    cases hqg : q.gap with
    | cons b g => rw [hqg] at hsep; simpa [nextChar] using hsep
    | nil =>
      rw [hqg] at hsep
      cases ps₁ with
      | nil => simpa [nextChar] using hsep
      | cons r ps₁ => simpa [nextChar] using hsep

/-- COMMENTS ARE SKIPPED (between tokens).  In an admissible text, insert a comment (or any
other blank) `c` anywhere into the blanks that follow a token — `(* … *)` even directly after
the token and also where there was no blank at all; `\* … ⏎` directly after any token text it
does not clash with (every text but `/`): the token string is unchanged. -/
theorem tokenize_insert_blank (lead : List Blank) (fin : Option (List Char)) (t : Tok) (sp : String)
    (g₁ g₂ : List Blank) (c : Blank) (ps₁ ps₂ : List Piece)
    (hl : lead.all Blank.ok = true) (hfin : finOk fin = true) (hc : c.ok = true)
    (hfront : g₁ = [] → sepOk sp.toList (some c.first) = true)
    (h : piecesOk (finChars fin).head? (ps₁ ++ ⟨t, sp, g₁ ++ g₂⟩ :: ps₂) = true) :
    tokenize (String.ofList (layoutChars lead (ps₁ ++ ⟨t, sp, g₁ ++ c :: g₂⟩ :: ps₂) (finChars fin))) =
    tokenize (String.ofList (layoutChars lead (ps₁ ++ ⟨t, sp, g₁ ++ g₂⟩ :: ps₂) (finChars fin))) := by
  rw [tokenize_pieces lead _ fin hl hfin h,
    tokenize_pieces lead _ fin hl hfin (piecesOk_insert _ t sp g₁ g₂ c ps₂ hc hfront ps₁ h)]
  simp

/-- … and before the first token -/
theorem tokenize_insert_lead (l₁ l₂ : List Blank) (c : Blank) (fin : Option (List Char)) (ps : List Piece)
    (hl : (l₁ ++ l₂).all Blank.ok = true) (hfin : finOk fin = true) (hc : c.ok = true)
    (h : piecesOk (finChars fin).head? ps = true) :
    tokenize (String.ofList (layoutChars (l₁ ++ c :: l₂) ps (finChars fin))) =
    tokenize (String.ofList (layoutChars (l₁ ++ l₂) ps (finChars fin))) := by
  have hl' : (l₁ ++ c :: l₂).all Blank.ok = true := by
    simp only [List.all_append, List.all_cons, Bool.and_eq_true] at hl ⊢
    exact ⟨hl.1, hc, hl.2⟩
  rw [tokenize_pieces _ ps fin hl hfin h, tokenize_pieces _ ps fin hl' hfin h]

/-- a `\*` line comment may follow every token text but `/` (`/\` is the conjunction) -/
theorem sepOk_line_comment (t : Tok) (sp : String) (hok : t.lexOk = true) (hsp : sp ∈ t.spellings) :
    sepOk sp.toList (some '\\') = (sp != "/") := by
  have hne := spelling_ne_nil t sp hok hsp
  have hn : isNameChar '\\' = false := by decide
  have hd : isDigitU '\\' = false := by decide
  have hrow : ∀ t', sp ∈ rowSpellings t' → sepOk sp.toList (some '\\') = (sp != "/") := by
    intro t' h
    obtain ⟨r, hr, _, rfl⟩ := mem_rowSpellings h
    have : ∀ r ∈ Gen.spellings, sepOk r.1.toList (some '\\') = (r.1 != "/") := by decide
    exact this r hr
  have hword : ∀ w : List Char, wordOk w = true → sepOk w (some '\\') = true := by
    intro w hw
    cases w with
    | nil => simp [wordOk] at hw
    | cons c cs =>
      simp only [wordOk, Bool.and_eq_true] at hw
      simp [sepOk, clash, hw.1, hn]
  have hwne : ∀ s : String, wordOk s.toList = true → (s != "/") = true := by
    intro s hw
    simp only [bne_iff_ne, ne_eq]
    rintro rfl
    exact absurd hw (by decide)
  have hkw : ∀ ty, sp ∈ kwSpellings ty → sepOk sp.toList (some '\\') = (sp != "/") := by
    intro ty h
    have hw := (mem_kwSpellings h).1
    rw [hword _ hw, hwne _ hw]
  cases t with
  | name s =>
    simp only [Tok.spellings, List.mem_singleton] at hsp
    subst hsp
    simp only [Tok.lexOk, Bool.and_eq_true] at hok
    rw [hword _ hok.1, hwne _ hok.1]
  | number d =>
    simp only [Tok.spellings, List.mem_singleton] at hsp
    subst hsp
    simp only [Tok.lexOk] at hok
    cases hs : sp.toList with
    | nil => exact absurd hs hne
    | cons c cs =>
      have hc : isDigitU c = true := by
        simp only [digitsOk, hs, List.isEmpty_cons, Bool.not_false, Bool.true_and, List.all_eq_true] at hok
        exact hok c (by simp)
      have : (sp != "/") = true := by
        simp only [bne_iff_ne, ne_eq]
        rintro rfl
        simp at hs
        rw [← hs.1] at hc
        exact absurd hc (by decide)
      simp [sepOk, clash, digit_not_nameStart hc, hc, hd, this]
  | bad => simp [Tok.lexOk] at hok
  | ite => exact hkw _ hsp
  | tt => exact hkw _ hsp
  | ff => exact hkw _ hsp
  | op o => exact hrow _ hsp
  | lparen => exact hrow _ hsp
  | rparen => exact hrow _ hsp
  | comma => exact hrow _ hsp
  | colon => exact hrow _ hsp
  | div => exact hrow _ hsp
  | «at» => exact hrow _ hsp
  | not => exact hrow _ hsp
  | forall_ => exact hrow _ hsp
  | exists_ => exact hrow _ hsp
  | rename => exact hrow _ hsp


/-! ### the fuel of the model does not matter -/

theorem skipLine_length (cs : List Char) : (skipLine cs).length ≤ cs.length := by
  induction cs with
  | nil => simp [skipLine]
  | cons c cs ih =>
    simp only [skipLine]
    split
    · exact Nat.le_refl _
    · simp only [List.length_cons]; omega

theorem closeComment_length : ∀ (cs rest : List Char), closeComment cs = some rest → rest.length < cs.length := by
  intro cs
  fun_induction closeComment cs with
  | case1 => intro rest h; cases h
  | case2 rest' =>
    intro rest h
    simp only [Option.some.injEq] at h
    subst h
    simp only [List.length_cons]; omega
  | case3 c cs _ ih =>
    intro rest h
    have := ih rest h
    simp only [List.length_cons]; omega

theorem longestSpelling_pos (cs : List Char) :
    ∀ (tbl : List (String × String × String)) (best : Option ((String × String) × Nat)),
    (∀ r ∈ tbl, r.1.toList ≠ []) → (∀ row n, best = some (row, n) → 0 < n) →
    ∀ row n, longestSpelling cs tbl best = some (row, n) → 0 < n := by
  intro tbl
  induction tbl with
  | nil => intro best _ hb row n h; exact hb row n h
  | cons r tbl ih =>
    intro best hne hb row n h
    obtain ⟨sp, ty, val⟩ := r
    have hsp : 0 < sp.toList.length := List.length_pos_iff.mpr (hne (sp, ty, val) (by simp))
    simp only [longestSpelling] at h
    refine ih _ (fun r hr => hne r (by simp [hr])) ?_ row n h
    intro row' n' hb'
    split at hb'
    · cases best with
      | none => simp only [Option.some.injEq, Prod.mk.injEq] at hb'; omega
      | some b =>
        obtain ⟨rw0, m⟩ := b
        simp only at hb'
        split at hb'
        · simp only [Option.some.injEq, Prod.mk.injEq] at hb'; omega
        · exact hb row' n' hb'
    · exact hb row' n' hb'

theorem spellings_nonempty : ∀ r ∈ Gen.spellings, r.1.toList ≠ [] := by decide

theorem dropWhile_shorter (p : Char → Bool) (c : Char) (cs : List Char) (h : p c = true) :
    ((c :: cs).dropWhile p).length ≤ cs.length := by
  rw [List.dropWhile_cons_of_pos h]
  exact (List.dropWhile_sublist p).length_le

/-- the answer of the tokenizer does not depend on the fuel, once there is enough of it -/
theorem tokenizeF_fuel : ∀ (n : Nat) (cs : List Char), cs.length ≤ n →
    ∀ f f', cs.length < f → cs.length < f' → tokenizeF f cs = tokenizeF f' cs := by
  intro n
  induction n with
  | zero =>
    intro cs hn f f' hf hf'
    have : cs = [] := List.eq_nil_of_length_eq_zero (by omega)
    subst this
    obtain ⟨f0, rfl⟩ := fuel_succ hf
    obtain ⟨f0', rfl⟩ := fuel_succ hf'
    simp [tokenizeF]
  | succ n ih =>
    intro cs hn f f' hf hf'
    obtain ⟨f0, rfl⟩ := fuel_succ hf
    obtain ⟨f0', rfl⟩ := fuel_succ hf'
    cases cs with
    | nil => simp [tokenizeF]
    | cons c cs =>
      simp only [List.length_cons] at hn hf hf'
      have step : ∀ R : List Char, R.length ≤ cs.length → tokenizeF f0 R = tokenizeF f0' R :=
        fun R hR => ih R (by omega) f0 f0' (by omega) (by omega)
      rw [tokenizeF, tokenizeF]
      cases h1 : Gen.lexIgnore.toList.contains c
      · simp only [Bool.false_eq_true, if_false]
        cases h2 : isNameStart c
        · simp only [Bool.false_eq_true, if_false]
          cases h3 : (c == '\\' && cs.head? == some '*')
          · simp only [Bool.false_eq_true, if_false]
            cases h4 : (c == '\n')
            · simp only [Bool.false_eq_true, if_false]
              generalize hcc : (if (c == '(' && cs.head? == some '*') = true then closeComment cs.tail else none) = o
              cases o with
              | some rest =>
                simp only
                apply step
                split at hcc
                · have := closeComment_length _ _ hcc
                  have := List.length_tail (l := cs)
                  omega
                · simp at hcc
              | none =>
                simp only
                generalize hls : longestSpelling (c :: cs) Gen.spellings none = ls
                cases ls with
                | some b =>
                  obtain ⟨⟨ty, val⟩, k⟩ := b
                  simp only
                  cases tokOfRow ty val with
                  | none => rfl
                  | some t =>
                    simp only
                    congr 1
                    apply step
                    have hk := longestSpelling_pos (c :: cs) Gen.spellings none spellings_nonempty
                      (by intro _ _ h; cases h) _ _ hls
                    simp only [List.length_drop, List.length_cons]; omega
                | none =>
                  simp only
                  cases h5 : isDigitU c
                  · simp only [Bool.false_eq_true, if_false]
                  · simp only [if_true]
                    congr 1
                    exact step _ (dropWhile_shorter _ _ _ h5)
            · simp only [if_true]
              exact step _ (Nat.le_refl _)
          · simp only [if_true]
            exact step _ (skipLine_length _)
        · simp only [if_true]
          congr 1
          exact step _ (dropWhile_shorter _ _ _ (nameStart_nameChar h2))
      · simp only [if_true]
        exact step _ (Nat.le_refl _)

theorem tokenize_eq (cs : List Char) (f : Nat) (hf : cs.length < f) :
    tokenize (String.ofList cs) = tokenizeF f cs := by
  unfold tokenize
  rw [String.toList_ofList, ← String.length_toList, String.toList_ofList]
  exact tokenizeF_fuel cs.length cs (Nat.le_refl _) _ _ (Nat.lt_succ_self _) hf


theorem tokenize_toList (s : String) (f : Nat) (hf : s.toList.length < f) : tokenize s = tokenizeF f s.toList := by
  have := tokenize_eq s.toList f hf
  rwa [String.ofList_toList] at this

/-! ### a comment in front of ANY text -/

/-- COMMENTS ARE SKIPPED (in front of any text, well-formed or not): `(* body *)` -/
theorem tokenize_block_comment (body s : String) (hb : hasClose body.toList = false) :
    tokenize ("(*" ++ body ++ "*)" ++ s) = tokenize s := by
  have e : ("(*" ++ body ++ "*)" ++ s).toList = '(' :: '*' :: (body.toList ++ '*' :: ')' :: s.toList) := by
    simp [String.toList_append]
  rw [tokenize_toList _ ((s.toList.length + body.toList.length + 4) + 1) (by rw [e]; simp; omega), e,
    tokenizeF_block _ _ _ hb]
  exact (tokenize_toList s _ (by omega)).symm

/-- COMMENTS ARE SKIPPED (in front of any text): `\* body ⏎` -/
theorem tokenize_line_comment (body s : String) (hb : body.toList.contains '\n' = false) :
    tokenize ("\\*" ++ body ++ "\n" ++ s) = tokenize s := by
  have e : ("\\*" ++ body ++ "\n" ++ s).toList = '\\' :: '*' :: (body.toList ++ '\n' :: s.toList) := by
    simp [String.toList_append]
  rw [tokenize_toList _ ((s.toList.length + body.toList.length + 3) + 1 + 1) (by rw [e]; simp; omega), e,
    tokenizeF_lineComment, skipLine_star, skipLine_body _ _ hb, tokenizeF_newline]
  exact (tokenize_toList s _ (by omega)).symm

/-- a `\*` comment without newline swallows the rest of the text -/
theorem tokenize_line_comment_end (body : String) (hb : body.toList.contains '\n' = false) :
    tokenize ("\\*" ++ body) = [] := by
  have e : ("\\*" ++ body).toList = finChars (some body.toList) := by
    simp [String.toList_append, finChars]
  rw [tokenize_toList _ _ (Nat.lt_succ_self _), e]
  exact tokenizeF_fin (some body.toList) (by simpa [finOk] using hb) _ (by rw [← e]; exact Nat.lt_succ_self _)

/-- UNTERMINATED COMMENT at the start: `(`, then the illegal character `*` -/
theorem tokenize_open_comment_start (body : String) (hb : closeComment body.toList = none) :
    tokenize ("(*" ++ body) = [.lparen, .bad] := by
  have e : ("(*" ++ body).toList = '(' :: '*' :: body.toList := by simp [String.toList_append]
  rw [tokenize_toList _ (body.toList.length + 1 + 2) (by rw [e]; simp), e]
  exact tokenizeF_open_comment _ _ hb

/-- COMMENTS ARE SKIPPED (after well-spelled tokens, before ANY text): the tokens, then the
tokens of the rest -/
theorem tokenize_tokens_comment_rest (lead : List Blank) (ps : List Piece) (c : Blank) (k : List Char)
    (hl : lead.all Blank.ok = true) (hc : c.ok = true) (h : piecesOk (some c.first) ps = true) :
    tokenize (String.ofList (layoutChars lead ps (c.chars ++ k))) =
      ps.map (·.tok) ++ tokenize (String.ofList k) := by
  apply tokenize_layoutChars lead ps (c.chars ++ k) _ hl (by rw [Blank.chars_head]; exact h)
  intro f' hf'
  apply step_blank c hc k _ f' hf'
  intro f'' hf''
  exact (tokenize_eq k f'' hf'').symm

end DD
