/-
  DDProofs.SwapRef — reference counts through `swap` (C07 / C06).

  While an x-node is being rebuilt its old children have already been `decref`ed although the
  stored edges are still there, so counts are exact only up to a known discrepancy:
  `RefBut m ext d` :  `ref u + d u = indeg u + ext u (+1 for the terminal)`.
  `d = 0` is `RefExact` (DDProofs.RefCount).  Effect of every primitive of the swap on `RefBut`.
-/
import DDProofs.RefCount
import DDProofs.SwapMid
open Std

namespace DD

/-- counts exact up to the discrepancy `d` (edges that have been `decref`ed but are still stored) -/
structure RefBut (m : Mgr) (ext d : Nat → Nat) : Prop where
  dom : ∀ u, (m.ref[u]?).isSome ↔ (u = 1 ∨ (m.tbl.node? u).isSome)
  cnt : ∀ u c, m.ref[u]? = some c → c + d u = indeg m.tbl u + ext u + (if u = 1 then 1 else 0)
  extZero : ∀ u, m.ref[u]? = none → ext u = 0

theorem RefExact.toBut {m : Mgr} {ext : Nat → Nat} (h : RefExact m ext) : RefBut m ext (fun _ => 0) :=
  ⟨h.dom, fun u c hc => by simpa using h.cnt u c hc, h.extZero⟩

theorem RefBut.toExact {m : Mgr} {ext d : Nat → Nat} (h : RefBut m ext d) (h0 : ∀ k, d k = 0) :
    RefExact m ext :=
  ⟨h.dom, fun u c hc => by have := h.cnt u c hc; rw [h0] at this; simpa using this, h.extZero⟩

theorem RefBut.congrD {m : Mgr} {ext d d' : Nat → Nat} (h : RefBut m ext d) (he : ∀ k, d' k = d k) :
    RefBut m ext d' :=
  ⟨h.dom, fun u c hc => by rw [he]; exact h.cnt u c hc, h.extZero⟩

theorem RefBut.get {m : Mgr} {ext d : Nat → Nat} (h : RefBut m ext d) {u : Int} (hu : m.tbl.Mem u) :
    ∃ c, m.ref[u.natAbs]? = some c ∧
      c + d u.natAbs = indeg m.tbl u.natAbs + ext u.natAbs + (if u.natAbs = 1 then 1 else 0) := by
  have : (m.ref[u.natAbs]?).isSome := (h.dom _).mpr hu
  obtain ⟨c, hc⟩ := Option.isSome_iff_exists.mp this
  exact ⟨c, hc, h.cnt _ _ hc⟩

/-- only fields other than `tbl.succ` and `ref` changed -/
theorem RefBut.congr {m m' : Mgr} {ext d : Nat → Nat} (h : RefBut m ext d)
    (h1 : m'.tbl.succ = m.tbl.succ) (h2 : m'.ref = m.ref) : RefBut m' ext d := by
  have hn : ∀ k, m'.tbl.node? k = m.tbl.node? k := fun k => by unfold Tbl.node?; rw [h1]
  have hi : ∀ k, indeg m'.tbl k = indeg m.tbl k := fun k => indeg_congr hn k
  exact ⟨fun u => by rw [h2, hn]; exact h.dom u, fun u c hc => by rw [hi]; rw [h2] at hc; exact h.cnt u c hc,
    fun u hu => by rw [h2] at hu; exact h.extZero u hu⟩

theorem RefExact.congrSucc {m m' : Mgr} {ext : Nat → Nat} (h : RefExact m ext)
    (h1 : m'.tbl.succ = m.tbl.succ) (h2 : m'.ref = m.ref) : RefExact m' ext :=
  (h.toBut.congr h1 h2).toExact (fun _ => rfl)

/-! ### in-degree when one node gets a new triple -/

theorem indeg_replace {t : Tbl} {u : Nat} {n : Nd} (hn : t.node? u = some n) (nd : Nd) (k : Nat) :
    indeg { t with succ := t.succ.insert u nd } k + edgeCount n k = indeg t k + edgeCount nd k := by
  let t0 : Tbl := { t with succ := t.succ.erase u }
  have h0 : t0.node? u = none := by simp [t0, Tbl.node?]
  have hother : ∀ j, j ≠ u → t.node? j = t0.node? j := by
    intro j hj
    have : ¬ u = j := fun e => hj e.symm
    simp [t0, Tbl.node?, TreeMap.getElem?_erase, this]
  have a1 : t0.AddedAt t u n := ⟨h0, hn, hother⟩
  have a2 : t0.AddedAt { t with succ := t.succ.insert u nd } u nd := by
    refine ⟨h0, by rw [node?_insert]; simp, ?_⟩
    intro j hj
    rw [node?_insert]
    have : ¬ u = j := fun e => hj e.symm
    simp only [this, if_false]
    exact hother j hj
  rw [indeg_added a1 k, indeg_added a2 k]
  omega

/-! ### the primitives -/

theorem RefBut.decref {m m' : Mgr} {ext d d' : Nat → Nat} (h : RefBut m ext d) (v : Int)
    (hv : m.tbl.Mem v) (hroom : d v.natAbs + 1 ≤ indeg m.tbl v.natAbs)
    (hrun : DD.decref v m = (.ok (), m'))
    (hd' : ∀ k, d' k = d k + (if k = v.natAbs then 1 else 0)) : RefBut m' ext d' := by
  obtain ⟨c, hc, hcnt⟩ := h.get hv
  obtain ⟨c0, rfl⟩ : ∃ c0, c = c0 + 1 := ⟨c - 1, by omega⟩
  rw [decref_eq m v c0 hc] at hrun
  cases hrun
  refine ⟨?_, ?_, ?_⟩
  · intro k
    show ((m.ref.insert v.natAbs c0)[k]?).isSome ↔ _
    rw [TreeMap.getElem?_insert]
    by_cases hk : v.natAbs = k
    · subst hk; simpa [Tbl.Mem] using hv
    · simpa [hk] using h.dom k
  · intro k c
    show (m.ref.insert v.natAbs c0)[k]? = some c → _
    rw [TreeMap.getElem?_insert, hd']
    by_cases hk : v.natAbs = k
    · subst hk; simp; intro e; omega
    · have : ¬ k = v.natAbs := fun e => hk e.symm
      simp only [compare_eq_iff_eq, hk, if_false, this, Nat.add_zero]
      exact h.cnt k c
  · intro k
    show (m.ref.insert v.natAbs c0)[k]? = none → _
    rw [TreeMap.getElem?_insert]
    by_cases hk : v.natAbs = k
    · simp [hk]
    · simpa [hk] using h.extZero k

theorem RefBut.incref {m m' : Mgr} {ext d d' : Nat → Nat} (h : RefBut m ext d) (p : Int)
    (hp : m.tbl.Mem p) (hrun : DD.incref p m = (.ok (), m'))
    (hd' : ∀ k, d' k + (if k = p.natAbs then 1 else 0) = d k) : RefBut m' ext d' := by
  obtain ⟨c, hc, hcnt⟩ := h.get hp
  rw [incref_eq m p c hc] at hrun
  cases hrun
  refine ⟨?_, ?_, ?_⟩
  · intro k
    show ((m.ref.insert p.natAbs (c + 1))[k]?).isSome ↔ _
    rw [TreeMap.getElem?_insert]
    by_cases hk : p.natAbs = k
    · subst hk; simpa [Tbl.Mem] using hp
    · simpa [hk] using h.dom k
  · intro k c'
    show (m.ref.insert p.natAbs (c + 1))[k]? = some c' → _
    rw [TreeMap.getElem?_insert]
    have := hd' k
    by_cases hk : p.natAbs = k
    · subst hk; simp at this ⊢; intro e; omega
    · have hk' : ¬ k = p.natAbs := fun e => hk e.symm
      simp only [compare_eq_iff_eq, hk, if_false]
      simp only [hk', if_false, Nat.add_zero] at this
      rw [this]
      exact h.cnt k c'
  · intro k
    show (m.ref.insert p.natAbs (c + 1))[k]? = none → _
    rw [TreeMap.getElem?_insert]
    by_cases hk : p.natAbs = k
    · simp [hk]
    · simpa [hk] using h.extZero k

/-- one node gets a new triple (`setNode`): the discrepancy absorbs the change of its edges -/
theorem RefBut.setNode {m m' : Mgr} {ext d d' : Nat → Nat} (h : RefBut m ext d) {u : Nat} {n : Nd}
    (hn : m.tbl.node? u = some n) (nd : Nd)
    (hm' : m'.tbl.succ = m.tbl.succ.insert u nd) (hr : m'.ref = m.ref)
    (hd' : ∀ k, d' k + edgeCount n k = d k + edgeCount nd k) : RefBut m' ext d' := by
  have hnode : ∀ k, m'.tbl.node? k = if u = k then some nd else m.tbl.node? k := by
    intro k
    have : m'.tbl.node? k = ({ m.tbl with succ := m.tbl.succ.insert u nd } : Tbl).node? k := by
      unfold Tbl.node?; rw [hm']
    rw [this, node?_insert]
  have hindeg : ∀ k, indeg m'.tbl k + edgeCount n k = indeg m.tbl k + edgeCount nd k := by
    intro k
    have : indeg m'.tbl k = indeg ({ m.tbl with succ := m.tbl.succ.insert u nd } : Tbl) k :=
      indeg_congr (fun j => by unfold Tbl.node?; rw [hm']) k
    rw [this]
    exact indeg_replace hn nd k
  refine ⟨?_, ?_, ?_⟩
  · intro k
    rw [hr, hnode, h.dom]
    by_cases hk : u = k
    · subst hk; simp [hn]
    · simp [hk]
  · intro k c hc
    rw [hr] at hc
    have := h.cnt k c hc
    have := hindeg k
    have := hd' k
    omega
  · intro k hk
    rw [hr] at hk
    exact h.extZero k hk

/-- `find_or_add` keeps `RefBut`: a created node starts at 0 and its children gain one each -/
theorem RefBut.foa {m : Mgr} {ext d : Nat → Nat} (h : RefBut m ext d) (i : Nat) (v w : Int)
    (hmem : ∀ k n, m.tbl.node? k = some n → m.tbl.Mem n.lo ∧ m.tbl.Mem n.hi)
    (hd0 : d m.minFree = 0) : RefBut (findOrAddCore i v w m).2 ext d := by
  have hdom : ∀ u : Int, m.tbl.Mem u → (m.ref[u.natAbs]?).isSome := fun u hu => (h.dom _).mpr hu
  rcases findOrAddCore_cases m i v w hdom with hs | ⟨hmv, hmw, h2, hfree, n, c1, c2, hlo, hhi, -, hc1, hc2, hs⟩
  · rw [hs]; exact h
  rw [hs]
  have hne : ∀ u : Int, m.tbl.Mem u → m.minFree ≠ u.natAbs := by
    intro u hu he
    rcases hu with hu | hu
    · omega
    · rw [← he, hfree] at hu; simp at hu
  have hrf : m.ref[m.minFree]? = none := by
    cases hx : m.ref[m.minFree]? with
    | none => rfl
    | some c =>
      have := (h.dom m.minFree).mp (by simp [hx])
      rcases this with h1 | h1
      · omega
      · simp [hfree] at h1
  have hadd : m.tbl.AddedAt { m.tbl with succ := m.tbl.succ.insert m.minFree n } m.minFree n :=
    ⟨hfree, by simp [Tbl.node?], fun j hj => by
      simp only [Tbl.node?, TreeMap.getElem?_insert]
      have : ¬ m.minFree = j := fun h => hj h.symm
      simp [this]⟩
  obtain ⟨cv, gv, ev⟩ := h.get hmv
  obtain ⟨cw, gw, ew⟩ := h.get hmw
  rw [TreeMap.getElem?_insert] at hc1
  simp only [hne v hmv, compare_eq_iff_eq, if_false, gv, Option.some.injEq] at hc1
  rw [TreeMap.getElem?_insert, TreeMap.getElem?_insert] at hc2
  simp only [hne w hmw, compare_eq_iff_eq, if_false, gw] at hc2
  have e0 := h.extZero _ hrf
  have hi0 : indeg m.tbl m.minFree = 0 := by
    cases hz : indeg m.tbl m.minFree with
    | zero => rfl
    | succ z =>
      exfalso
      obtain ⟨k, nn, hk, hkk⟩ := indeg_pos (t := m.tbl) (u := m.minFree) (by omega)
      rcases hkk with hkk | hkk
      · exact hne _ (hmem _ _ hk).1 hkk.symm
      · exact hne _ (hmem _ _ hk).2 hkk.symm
  refine ⟨?_, ?_, ?_⟩
  · intro u
    show ((((m.ref.insert m.minFree 0).insert v.natAbs (c1 + 1)).insert w.natAbs (c2 + 1))[u]?).isSome ↔
      (u = 1 ∨ (({ m.tbl with succ := m.tbl.succ.insert m.minFree n } : Tbl).node? u).isSome)
    simp only [TreeMap.getElem?_insert, Tbl.node?, compare_eq_iff_eq]
    have := h.dom u
    simp only [Tbl.node?] at this
    by_cases h1 : w.natAbs = u
    · have hh := hne w hmw
      rw [h1] at hh
      simp only [h1, hh, if_true, if_false, Option.isSome_some, true_iff]
      rw [← h1]; exact hmw
    · by_cases h2 : v.natAbs = u
      · have hh := hne v hmv
        rw [h2] at hh
        simp only [h1, h2, hh, if_true, if_false, Option.isSome_some, true_iff]
        rw [← h2]; exact hmv
      · by_cases h3 : m.minFree = u
        · simp only [h1, h2, h3, if_true, if_false, Option.isSome_some, or_true]
        · simp only [h1, h2, h3, if_false]; exact this
  · intro u c
    show (((m.ref.insert m.minFree 0).insert v.natAbs (c1 + 1)).insert w.natAbs (c2 + 1))[u]? = some c →
      c + d u = indeg ({ m.tbl with succ := m.tbl.succ.insert m.minFree n } : Tbl) u + ext u +
        (if u = 1 then 1 else 0)
    rw [indeg_added hadd u]
    simp only [TreeMap.getElem?_insert, compare_eq_iff_eq, edgeCount, hlo, hhi]
    by_cases h1 : w.natAbs = u
    · by_cases h2 : v.natAbs = u
      · have hvw : v.natAbs = w.natAbs := h2.trans h1.symm
        rw [if_pos hvw] at hc2
        rw [h2] at ev gv
        rw [h1] at ew gw
        simp only [h1, h2, if_true, Option.some.injEq] at hc2 ⊢
        intro hc; omega
      · have hvw : ¬ v.natAbs = w.natAbs := fun h => h2 (h.trans h1)
        rw [if_neg hvw] at hc2
        rw [h1] at ew gw
        simp only [h1, h2, if_true, if_false, Option.some.injEq] at hc2 ⊢
        intro hc; omega
    · by_cases h2 : v.natAbs = u
      · rw [h2] at ev gv
        simp only [h1, h2, if_true, if_false, Option.some.injEq]
        intro hc; omega
      · by_cases h3 : m.minFree = u
        · rw [h3] at hi0 e0 hd0
          have : u ≠ 1 := by omega
          simp only [h1, h2, h3, this, if_true, if_false, Option.some.injEq]
          intro hc; omega
        · simp only [h1, h2, h3, if_false]
          intro hc
          have := h.cnt u c hc
          omega
  · intro u
    show (((m.ref.insert m.minFree 0).insert v.natAbs (c1 + 1)).insert w.natAbs (c2 + 1))[u]? = none → ext u = 0
    simp only [TreeMap.getElem?_insert, compare_eq_iff_eq]
    by_cases h1 : w.natAbs = u
    · simp [h1]
    · by_cases h2 : v.natAbs = u
      · simp [h1, h2]
      · by_cases h3 : m.minFree = u
        · simp [h1, h2, h3]
        · simp only [h1, h2, h3, if_false]
          exact h.extZero u

/-- relabelling a node (same children, other level) keeps the counts exact -/
theorem RefExact.relabel {m m' : Mgr} {ext : Nat → Nat} (h : RefExact m ext) {u : Nat} {n : Nd}
    (hn : m.tbl.node? u = some n) (nd : Nd) (hlo : nd.lo = n.lo) (hhi : nd.hi = n.hi)
    (hm' : m'.tbl.succ = m.tbl.succ.insert u nd) (hr : m'.ref = m.ref) : RefExact m' ext := by
  refine (h.toBut.setNode hn nd hm' hr (d' := fun _ => 0) ?_).toExact (fun _ => rfl)
  intro k
  simp [edgeCount, hlo, hhi]

end DD
