/-
  DDProofs.LoadJson2Few — `_copy.load_json(file, bdd, load_order=False)` on ANY content from
  EVERY state as between two calls (`LoadStart`: dynamic reordering enabled or not, ANY number of
  declared variables).

  `load_json` declares the file's variables first.  With at least two variables after that, the
  run is the one of DDProofs.LoadJson2Dyn (`DynInv` holds from there).  With FEWER than two — the
  file names at most one variable and the manager declares none other — a reordering request
  that fires inside `bdd.var` / `bdd.ite` of `_make_node` makes `reorder(bdd)` raise (sifting
  needs two variables: `ValueError`), after its collection; the decorator lets that exception
  through with `_last_len = None`, `_make_node` fails, and the `except` clause of `_load_json`
  releases the shelf.  The state is again as between two calls for the caller's ledger, every
  held reference keeps its function; dynamic reordering has been switched OFF by the failed
  sifting (the behaviour of the decorator, DDProofs.Reach3 `tryToReorder_few`).
-/
import DDProofs.LoadJson2Order
import DDProofs.LoadJson2Dyn
import DDProofs.Reach3
open Std
namespace DD

theorem LoadStart.stepK {e : Nat → Nat} {m m' : Mgr} (h : LoadStart e m) (hs : StepK m m') :
    LoadStart e m' :=
  ⟨hs.inv, h.order.frame hs.frame, (hs.keep e h.refs).1, by rw [hs.frame.ctx]; exact h.ctx,
    by rw [hs.frame.sched]; exact h.sched, by rw [hs.frame.roots]; exact h.roots⟩

theorem LoadStart.dynInv {e : Nat → Nat} {m : Mgr} (h : LoadStart e m) (h2 : 2 ≤ m.nvars) : DynInv e m :=
  ⟨h.inv, h.order, h.refs, h.ctx, h.sched, h.roots, h2⟩

/-! ### `declare` from any between-calls state -/

theorem addVar_loadStart (e : Nat → Nat) (m : Mgr) (h : LoadStart e m) (v : String)
    (hnew : m.tbl.vars[v]? = none) :
    LoadStart e (addVarState m v) ∧
      (∀ u, m.tbl.Mem u → (addVarState m v).tbl.Mem u ∧ ∀ σ, denN (addVarState m v).tbl u σ = denN m.tbl u σ) := by
  obtain ⟨hI, hO', hn, hv, hmono, hden, _, _⟩ := addVar_new_spec m h.inv h.order v hnew _ rfl
  refine ⟨⟨hI, hO', h.refs.congr_nodes (fun _ => rfl) rfl, h.ctx, h.sched, h.roots⟩, ?_⟩
  intro u hu
  obtain ⟨hmem, hd⟩ := hden u hu
  refine ⟨hmem, fun σ => ?_⟩
  unfold denN
  rw [hd]
  apply den_agree_ge m.tbl h.inv.wf.toWF u hu
  intro i _ hi'
  apply lift_agree' σ m.tbl.nvars _ i hi'
  intro j hj
  obtain ⟨x, hx⟩ := h.order.total j hj
  have h1 : m.tbl.vars[x]? = some j := (h.order.inv x j).mpr hx
  rw [hx]
  exact (hO'.inv x j).mp (hmono x j h1)

/-- `bdd.declare(*order)` from any between-calls state -/
theorem declare_loadStart (e : Nat → Nat) (names : List String) :
    ∀ (m : Mgr), LoadStart e m →
      ∃ m', declare names m = (.ok (), m') ∧ LoadStart e m' ∧
        (∀ (v : String) (i : Nat), m.tbl.vars[v]? = some i → m'.tbl.vars[v]? = some i) ∧
        m'.roots = m.roots ∧ m'.lastLen = m.lastLen ∧
        (∀ u, m.tbl.Mem u → m'.tbl.Mem u ∧ ∀ σ, denN m'.tbl u σ = denN m.tbl u σ) ∧
        m.nvars ≤ m'.nvars := by
  induction names with
  | nil =>
    intro m h
    exact ⟨m, declare_nil m, h, fun _ _ h => h, rfl, rfl, fun u hu => ⟨hu, fun _ => rfl⟩, Nat.le_refl _⟩
  | cons v vs ih =>
    intro m h
    rw [declare_cons]
    cases hex : m.tbl.vars[v]? with
    | some i =>
      rw [(addVar_existing m v i hex).1]
      exact ih m h
    | none =>
      rw [addVar_new m v hex h.order.l2v_none]
      obtain ⟨hD, hden⟩ := addVar_loadStart e m h v hex
      obtain ⟨_, _, hn1, _, hmono, _⟩ := addVar_new_spec m h.inv h.order v hex _ rfl
      obtain ⟨m', e1, g1, k1, r1, l1, q1, n1⟩ := ih (addVarState m v) hD
      refine ⟨m', e1, g1, fun x i hx => k1 x i (hmono x i hx), r1, l1, ?_, ?_⟩
      · intro u hu
        obtain ⟨a1, a2⟩ := hden u hu
        obtain ⟨b1, b2⟩ := q1 u a1
        exact ⟨b1, fun σ => (b2 σ).trans (a2 σ)⟩
      · have : (addVarState m v).nvars = m.nvars + 1 := hn1
        omega

/-! ### the decorator with fewer than two variables, the registered roots held -/

/-- what a decorated call with arbitrary arguments leaves when fewer than two variables are
declared: never the signal; the state as between two calls for the same ledger; the same
variables and roots; every held reference kept by name; reordering not switched ON -/
structure FewOut {α : Type} (e : Nat → Nat) (m : Mgr) (res : Except Err α × Mgr) : Prop where
  noSignal : res.1 ≠ .error .needsReordering
  start : LoadStart e res.2
  nvars : res.2.nvars = m.nvars
  names : ∀ s : String, res.2.tbl.vars.contains s = m.tbl.vars.contains s
  roots : res.2.roots = m.roots
  held : ∀ w, HeldX e w → res.2.tbl.Mem w ∧ ∀ σ, denN res.2.tbl w σ = denN m.tbl w σ
  switch : res.2.lastLen.isSome = true → m.lastLen.isSome = true

theorem FewOut.ofStepK {α : Type} {e : Nat → Nat} {m m' : Mgr} (h : LoadStart e m) (hs : StepK m m')
    (r : Except Err α) (hr : r ≠ .error .needsReordering) : FewOut e m (r, m') :=
  ⟨hr, h.stepK hs, hs.nvars, hs.names, hs.frame.roots,
    fun w hw =>
      have hm := hw.mem h.refs
      ⟨hs.ext.mem hm, fun σ => hs.denN h.inv.wf.toWF hm σ⟩,
    fun hh => by rw [hs.frame.lastLen] at hh; exact hh⟩

/-- GENERIC: the decorator around a body that accepts arbitrary arguments (`TotE`), fewer than
two variables declared, whatever the switch, the registered roots held by the caller -/
theorem tryToReorder_fewL {α : Type} (e : Nat → Nat) (f : M α)
    (hbody : ∀ m0 : Mgr, Inv m0 → m0.ctx = true → OrderOK m0.tbl → TotE m0 (f m0))
    (m : Mgr) (h : LoadStart e m) (hfew : m.nvars < 2) : FewOut e m (tryToReorder f m) := by
  have h1 := hbody { m with ctx := true } (h.inv.setCtx true) rfl h.order
  generalize hres : f { m with ctx := true } = res at h1
  obtain ⟨r, m1⟩ := res
  have hs' : StepK m { m1 with ctx := m.ctx } := h1.1.ofCtx true
  cases r with
  | ok a =>
    rw [tryToReorder_ok f m a m1 hres]
    exact FewOut.ofStepK h hs' _ (fun hh => by cases hh)
  | error er =>
    by_cases he : er = .needsReordering
    · subst he
      -- the request fired: `_last_len = None`, then `reorder(bdd)` raises
      have hg := h.stepK hs'
      have hG2 : LoadStart e { m1 with ctx := m.ctx, lastLen := none } :=
        ⟨⟨hg.inv.wf, hg.inv.pred, hg.inv.freeGe, hg.inv.free, hg.inv.refOne, hg.inv.refDom, hg.inv.cache⟩,
          hg.order, hg.refs.congr rfl rfl, hg.ctx, hg.sched, hg.roots⟩
      have hR2 : ReorderInv e { m1 with ctx := m.ctx, lastLen := none } :=
        ⟨hG2.inv, hG2.order, hG2.refs, Or.inl hG2.ctx, hG2.roots⟩
      have hn2 : ({ m1 with ctx := m.ctx, lastLen := none } : Mgr).nvars < 2 := by
        show m1.nvars < 2
        have : m1.nvars = m.nvars := hs'.nvars
        omega
      obtain ⟨e', mb, hsift, hrej, hRb, hrel⟩ := sift_few_result e _ hR2 hG2.sched hn2
      rw [tryToReorder_sift_err f m m1 mb e' h.ctx hres hsift]
      have hGb : LoadStart e mb :=
        ⟨hRb.inv, hRb.order, hRb.refExact, by rw [hrel.ctx]; exact hG2.ctx, hrel.sched hG2.sched,
          hRb.rootsHeld⟩
      refine ⟨fun hh => by cases hh; exact hrej.ne_signal rfl, hGb, ?_, ?_, ?_, fun w hw => ?_, fun hh => ?_⟩
      · rw [hrel.nvars]; exact hs'.nvars
      · intro s; rw [hrel.names s]; exact hs'.names s
      · rw [hrel.roots]; exact hs'.frame.roots
      · have hm := hw.mem h.refs
        refine ⟨hw.mem hGb.refs, fun σ => ?_⟩
        rw [heldX_denN_of_heldSame hG2.inv hRb.inv hG2.refs hRb.refExact hrel.held hw σ]
        exact hs'.denN h.inv.wf.toWF hm σ
      · rw [hrel.lastLen] at hh; cases hh
    · rw [tryToReorder_err f m er m1 hres he]
      exact FewOut.ofStepK h hs' _ (fun hh => by cases hh; exact he rfl)

/-! ### the calculus of `_load_json` with fewer than two variables -/

/-- the state between two steps of the loader: `LoadStart` for the caller's ledger plus the
loader's, the registered roots held by the CALLER, fewer than two variables -/
structure FewL (e : Nat → Nat) (l : List Nat) (m : Mgr) : Prop where
  start : LoadStart (extAdd e l) m
  roots0 : ∀ r ∈ m.roots, 0 < e r.natAbs
  few : m.nvars < 2

/-- what the loader keeps for its caller: names, roots, held references by name; dynamic
reordering is not switched ON (a failed sifting switches it off) -/
structure FewLeft (e : Nat → Nat) (m m' : Mgr) : Prop where
  names : ∀ s : String, m.tbl.vars.contains s = true → m'.tbl.vars.contains s = true
  roots : m'.roots = m.roots
  held : ∀ w, HeldX e w → m.tbl.Mem w → m'.tbl.Mem w ∧ ∀ σ, denN m'.tbl w σ = denN m.tbl w σ
  switch : m'.lastLen.isSome = true → m.lastLen.isSome = true

theorem FewLeft.refl (e : Nat → Nat) (m : Mgr) : FewLeft e m m :=
  ⟨fun _ h => h, rfl, fun _ _ hm => ⟨hm, fun _ => rfl⟩, fun h => h⟩

theorem FewLeft.trans {e : Nat → Nat} {a b c : Mgr} (h1 : FewLeft e a b) (h2 : FewLeft e b c) :
    FewLeft e a c :=
  ⟨fun s h => h2.names s (h1.names s h), h2.roots.trans h1.roots,
    fun w hw hm =>
      have a1 := h1.held w hw hm
      have a2 := h2.held w hw a1.1
      ⟨a2.1, fun σ => (a2.2 σ).trans (a1.2 σ)⟩,
    fun h => h1.switch (h2.switch h)⟩

def fewCalc (e : Nat → Nat) : LCalc e where
  G := fun l m => FewL e l m
  K := FewLeft e
  inv := fun h => h.start.inv
  exact := fun h => h.start.refs
  refl := FewLeft.refl e
  trans := FewLeft.trans
  setRef := fun l' _ h hI hr =>
    ⟨⟨hI, h.start.order, hr, h.start.ctx, h.start.sched,
        fun x hx => by have := h.roots0 x hx; simp only [extAdd]; omega⟩, h.roots0, h.few⟩
  kRef := fun _ _ => ⟨fun _ h => h, rfl, fun _ _ hm => ⟨hm, fun _ => rfl⟩, fun h => h⟩

theorem fewCalc_of_fewOut {α : Type} (e : Nat → Nat) (x : M α)
    (h : ∀ e' m, LoadStart e' m → m.nvars < 2 → FewOut e' m (x m)) : PrimOK (fewCalc e) x := by
  intro l m hg
  have hg' : FewL e l m := hg
  have F := h (extAdd e l) m hg'.start hg'.few
  refine ⟨F.noSignal, ⟨fun s hs => by rw [F.names s]; exact hs, F.roots,
    fun w hw _ => F.held w (DynL.heldX0 hw), F.switch⟩, ?_⟩
  show FewL e l (x m).2
  exact ⟨F.start, fun r hr => by rw [F.roots] at hr; exact hg'.roots0 r hr, by rw [F.nvars]; exact hg'.few⟩

theorem fewCalc_var (e : Nat → Nat) (name : String) : PrimOK (fewCalc e) (var name) :=
  fewCalc_of_fewOut e _ (fun e' m h hfew => by
    rw [var_eq]
    exact tryToReorder_fewL e' _ (fun m0 hI _ _ => varBody_totE m0 hI name) m h hfew)

theorem fewCalc_ite (e : Nat → Nat) (g u v : Int) : PrimOK (fewCalc e) (ite g u v) :=
  fewCalc_of_fewOut e _ (fun e' m h hfew =>
    tryToReorder_fewL e' _ (fun m0 hI _ _ => iteRaw_totE m0 hI g u v) m h hfew)

/-! ### `load_json(load_order=False)`, any content, from every between-calls state -/

/-- what `load_json(load_order=False)` leaves behind, whatever the content, the outcome, the
switch and the number of variables: never the internal signal; names, `bdd.roots`, held
references by name; the state as between two calls with the counts exact for the caller's ledger
plus ONE reference per returned `Function` — for the caller's ledger itself when the call raised;
dynamic reordering is not switched on, and it is exactly what it was when at least two variables
are declared once the line `level_of_var` is read -/
structure JsonLeavesStart (f : JsonFile) (e : Nat → Nat) (m : Mgr) (out : Except Err Roots × Mgr) : Prop where
  noSignal : out.1 ≠ .error .needsReordering
  names : ∀ s : String, m.tbl.vars.contains s = true → out.2.tbl.vars.contains s = true
  roots : out.2.roots = m.roots
  held : ∀ w, HeldX e w → out.2.tbl.Mem w ∧ ∀ σ, denN out.2.tbl w σ = denN m.tbl w σ
  switch : out.2.lastLen.isSome = true → m.lastLen.isSome = true
  switchKept : 2 ≤ (declare (f.levelOfVar.map (·.1)) m).2.nvars → out.2.lastLen.isSome = m.lastLen.isSome
  state : match out.1 with
    | .ok roots => LoadStart (extAdd e (roots.values.map Int.natAbs)) out.2
    | .error _ => LoadStart e out.2

theorem DynInv.loadStart' {e : Nat → Nat} {m : Mgr} (h : DynInv e m) : LoadStart e m :=
  ⟨h.inv, h.order, h.refs, h.ctx, h.sched, h.roots⟩

theorem loadJson_false_any_start (f : JsonFile) (m : Mgr) (e : Nat → Nat) (h : LoadStart e m) :
    JsonLeavesStart f e m (loadJson f false m) := by
  rw [loadJson_false_eq]
  obtain ⟨m1, ed, S1, hmono, r1, l1, q1, -⟩ := declare_loadStart e (f.levelOfVar.map (·.1)) m h
  have hnames1 : ∀ s : String, m.tbl.vars.contains s = true → m1.tbl.vars.contains s = true := by
    intro s hs
    rw [TreeMap.contains_eq_isSome_getElem?] at hs ⊢
    obtain ⟨i, hi⟩ := Option.isSome_iff_exists.mp hs
    rw [hmono s i hi]; rfl
  have hheld1 : ∀ w, HeldX e w → m1.tbl.Mem w ∧ ∀ σ, denN m1.tbl w σ = denN m.tbl w σ :=
    fun w hw => q1 w (hw.mem h.refs)
  have hm1 : (declare (f.levelOfVar.map (·.1)) m).2 = m1 := by rw [ed]
  rw [jsonTry_header_ok f false m m1 (jsonHeader_false f m m1 ed)]
  by_cases h2 : 2 ≤ m1.nvars
  · -- the run of DDProofs.LoadJson2Dyn from `m1`
    have D1 : DynInv e m1 := S1.dynInv h2
    have g1 : (dynCalc e).G [] m1 := ⟨by rw [extAdd_nil]; exact D1, D1.roots⟩
    have hshelf := makeNodesE_anyC (C := dynCalc e) (F := fun _ => True) (Stable.true _)
      (dynCalc_var e) (dynCalc_ite e)
      (f.levelOfVar.foldl (fun acc (x : String × Nat) => (x.2, x.1) :: acc) []) f.nodes [] m1
      (by simp) (by simp) (by simpa [shelfRefs] using g1) trivial
    obtain ⟨hn, mb, kb, hcase⟩ := finish_afterHeaderC (dynCalc e) f false m1 hshelf
    have kb' : DynLeft e m1 mb := kb
    have fin : ∀ (r : Except Err Roots), r ≠ .error .needsReordering →
        (match r with
          | .ok roots => LoadStart (extAdd e (roots.values.map Int.natAbs)) mb
          | .error _ => LoadStart e mb) → JsonLeavesStart f e m (r, mb) := by
      intro r hr hst
      refine ⟨hr, fun s hs => kb'.names s (hnames1 s hs), kb'.roots.trans r1, fun w hw => ?_,
        fun hh => ?_, fun _ => ?_, hst⟩
      · obtain ⟨a1, a2⟩ := hheld1 w hw
        obtain ⟨b1, b2⟩ := kb'.held w hw a1
        exact ⟨b1, fun σ => (b2 σ).trans (a2 σ)⟩
      · show m.lastLen.isSome = true
        rw [← l1, ← kb'.enabled]; exact hh
      · show mb.lastLen.isSome = m.lastLen.isSome
        rw [kb'.enabled, l1]
    rcases hcase with ⟨roots, heq, g⟩ | ⟨er, heq, g⟩
    · have g' : DynL e (roots.values.map Int.natAbs) mb := g
      rw [heq] at hn ⊢
      exact fin _ hn g'.dyn.loadStart'
    · have g' : DynL e [] mb := g
      rw [heq] at hn ⊢
      have := g'.dyn.loadStart'
      rw [extAdd_nil] at this
      exact fin _ hn this
  · -- fewer than two variables
    have hfew : m1.nvars < 2 := by omega
    have g1 : (fewCalc e).G [] m1 := ⟨by rw [extAdd_nil]; exact S1, S1.roots, hfew⟩
    have hshelf := makeNodesE_anyC (C := fewCalc e) (F := fun _ => True) (Stable.true _)
      (fewCalc_var e) (fewCalc_ite e)
      (f.levelOfVar.foldl (fun acc (x : String × Nat) => (x.2, x.1) :: acc) []) f.nodes [] m1
      (by simp) (by simp) (by simpa [shelfRefs] using g1) trivial
    obtain ⟨hn, mb, kb, hcase⟩ := finish_afterHeaderC (fewCalc e) f false m1 hshelf
    have kb' : FewLeft e m1 mb := kb
    have fin : ∀ (r : Except Err Roots), r ≠ .error .needsReordering →
        (match r with
          | .ok roots => LoadStart (extAdd e (roots.values.map Int.natAbs)) mb
          | .error _ => LoadStart e mb) → JsonLeavesStart f e m (r, mb) := by
      intro r hr hst
      refine ⟨hr, fun s hs => kb'.names s (hnames1 s hs), kb'.roots.trans r1, fun w hw => ?_,
        fun hh => ?_, fun h2' => ?_, hst⟩
      · obtain ⟨a1, a2⟩ := hheld1 w hw
        obtain ⟨b1, b2⟩ := kb'.held w hw a1
        exact ⟨b1, fun σ => (b2 σ).trans (a2 σ)⟩
      · show m.lastLen.isSome = true
        rw [← l1]; exact kb'.switch hh
      · rw [hm1] at h2'; exact absurd h2' h2
    rcases hcase with ⟨roots, heq, g⟩ | ⟨er, heq, g⟩
    · have g' : FewL e (roots.values.map Int.natAbs) mb := g
      rw [heq] at hn ⊢
      exact fin _ hn g'.start
    · have g' : FewL e [] mb := g
      rw [heq] at hn ⊢
      have := g'.start
      rw [extAdd_nil] at this
      exact fin _ hn this

/-- `declare` only adds variables -/
theorem declare_nvars_le (names : List String) (m : Mgr) (e : Nat → Nat) (h : LoadStart e m) :
    m.nvars ≤ (declare names m).2.nvars := by
  obtain ⟨m1, ed, _, _, _, _, _, hn⟩ := declare_loadStart e names m h
  rw [ed]; exact hn

end DD
