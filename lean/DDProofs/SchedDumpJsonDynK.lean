/-
  DDProofs.SchedDumpJsonDynK — `_copy.load_json(load_order=False)` into a manager with dynamic
  reordering enabled and ANY recorded schedule, the branch in which the `try:` body fails with the
  model's `.sched`: WHAT THE FAILED LOAD LEAVES BEHIND.  DDProofs.SchedDumpJsonDyn concludes for
  that branch only that the load raises.  Here: every outcome of the decorated `var` / `ite`
  (`var_total_dynK`, `ite_total_dynK`: `DynKeptW`, the `.sched` outcome included) is followed
  through `_make_node` (the temporaries die), the loop over the node lines (the shelf holds one
  reference per node made so far), and `except BaseException:` (the shelf's references are given
  back): the manager is again as between two calls, for the caller's ledger, every held reference
  keeps its function of the variable names, the declared names stay declared.
-/
import DDProofs.SchedDumpJsonDyn
open Std
namespace DD.S

/-- what a step of the loader keeps when it ends in the model's schedule error (the switch of
dynamic reordering is not among it: `_try_to_reorder` had switched it off for the sifting) -/
structure DynKeepsW (ext : Nat → Nat) (m m' : Mgr) : Prop where
  names : ∀ s, m'.tbl.vars.contains s = m.tbl.vars.contains s
  roots : m'.roots = m.roots
  held : ∀ w, HeldX ext w → m'.tbl.Mem w ∧ ∀ σ, denN m'.tbl w σ = denN m.tbl w σ

theorem DynKeeps.toW {ext : Nat → Nat} {m m' : Mgr} (h : DynKeeps ext m m') : DynKeepsW ext m m' :=
  ⟨h.names, h.roots, h.held⟩

theorem DynKeepsW.trans {ext ext' : Nat → Nat} {m m1 m2 : Mgr} (h1 : DynKeepsW ext m m1)
    (h2 : DynKeepsW ext' m1 m2) (hmono : ∀ w, HeldX ext w → HeldX ext' w) : DynKeepsW ext m m2 :=
  ⟨fun s => (h2.names s).trans (h1.names s), h2.roots.trans h1.roots,
    fun w hw => ⟨(h2.held w (hmono w hw)).1, fun σ => ((h2.held w (hmono w hw)).2 σ).trans ((h1.held w hw).2 σ)⟩⟩

/-- `_make_node` (`load_order=False`), EVERY outcome of the decorated `var` / `ite`: the documented
shelf entry; or the model's schedule error, the temporaries released, everything kept -/
theorem makeNode_dynK {f : PickleFile} (hw : PickleWF f) (vat : List (Nat × String)) (ln : JLine)
    (e0 : Nat → Nat) (l : List Nat) (m : Mgr) (h : DynL e0 l m) (hk : KeysOK m)
    (cache : List (Nat × Int)) (hc : ShelfN f m.tbl cache)
    (hheld : ∀ k u, cache.lookup k = some u → u.natAbs ∈ l)
    (hnew : cache.lookup ln.id = none)
    (hline : PEntry.find f.succ ln.id = some ⟨ln.id, ln.lvl, some ln.lo, some ln.hi⟩) (hid : ln.id ≠ 1)
    (hlo : ln.lo.natAbs = 1 ∨ (cache.lookup ln.lo.natAbs).isSome)
    (hhi : ln.hi.natAbs = 1 ∨ (cache.lookup ln.hi.natAbs).isSome)
    (name : String) (hvat : vat.lookup ln.lvl = some name) (hname : f.nameAt ln.lvl = some name)
    (hdecl : m.tbl.vars.contains name = true) :
    (∃ u m', makeNode false vat ln cache m = (.ok (cache ++ [(ln.id, u)]), m') ∧
      DynL e0 (u.natAbs :: l) m' ∧ KeysOK m' ∧ ShelfN f m'.tbl (cache ++ [(ln.id, u)]) ∧
      DynKeeps (extAdd e0 l) m m') ∨
    (∃ m', makeNode false vat ln cache m = (.error .sched, m') ∧ DynL e0 l m' ∧ KeysOK m' ∧
      ShelfN f m'.tbl cache ∧ DynKeepsW (extAdd e0 l) m m') := by
  obtain ⟨v', w', hv', hw', hlvl, hwpos, hk2, _⟩ := hw.succ.node _ _ hline hid
  simp only [Option.some.injEq] at hv' hw'
  subst hv' hw'
  -- low, high
  obtain ⟨lo, r1, elo, g1, mlo, slo, dlo, _⟩ := nodeFromInt_dyn hw e0 l m h cache hc ln.lo hlo
  obtain ⟨hi, r2, ehi, g2, mhi, shi, dhi, _⟩ :=
    nodeFromInt_dyn hw e0 _ { m with ref := r1 } g1 cache hc ln.hi hhi
  let m2 : Mgr := { m with ref := r2 }
  have hasrt : M.assert (decide (1 < ln.id)) .assertion m = (.ok (), m) := assert_ok _ _ (by simp; omega)
  have hnm : (M.ofOption Err.key (vat.lookup ln.lvl) : M String) { m with ref := r2 } = (.ok name, m2) := by
    rw [hvat]; rfl
  -- `bdd.var(var)`: the documented result, or the model's schedule mismatch
  rcases (C09_var_transparent_anySchedule _ m2 g2.dyn name hdecl).cases with ⟨g, m3, evar, p3⟩ | ⟨m3, evar, _⟩
  rotate_left
  · right
    -- `bdd.var` ended in the model's schedule error: the two temporaries die, everything is kept
    have K := (var_total_dynK _ m2 g2.dyn name).2.1
    rw [evar] at K
    have g3 : DynL e0 (hi.natAbs :: lo.natAbs :: l) m3 :=
      ⟨K.inv, by intro r hr; rw [K.roots] at hr; exact h.roots0 r hr⟩
    obtain ⟨r4, ed4, g4⟩ := dropD e0 _ m3 hi g3
    obtain ⟨r5, ed5, g5⟩ := dropD e0 _ { m3 with ref := r4 } lo g4
    have k2 : KeysOK m2 := hk.congr rfl
    have k3 : KeysOK m3 := by have := ksm_bddVar name m2 k2; rw [evar] at this; exact this
    refine ⟨{ m3 with ref := r5 }, ?_, g5, k3.congr rfl, ?_, ?_⟩
    · unfold makeNode
      refine (M.bind_eq_ok hasrt).trans ?_
      simp only [hnew, Option.isSome_none, Bool.false_eq_true, if_false]
      refine (M.bind_eq_ok elo).trans ?_
      refine (withTemps_eq (r := .error .sched) (m1 := { m3 with ref := r4 }) ?_).trans ?_
      · refine (M.bind_eq_ok ehi).trans ?_
        refine (withTemps_eq (r := .error .sched) (m1 := m3) ?_).trans ?_
        · refine (M.bind_eq_ok hnm).trans ?_
          exact M.bind_eq_err evar
        · simp only [dropList]
          rw [ed4]
      · simp only [dropList]
        rw [ed5]
    · intro k y hky
      obtain ⟨a1, a2, a3, a4, a5⟩ := hc k y hky
      have hy0 : HeldX (extAdd e0 l) y := h.heldX (hheld k y hky)
      have hy3 : HeldX (extAdd e0 (hi.natAbs :: lo.natAbs :: l)) y := heldX_cons (heldX_cons hy0 _) _
      obtain ⟨b1, b2⟩ := K.held y hy3
      exact ⟨a1, b1, a3, a4, fun σ => by
        show denN m3.tbl y σ = _
        rw [b2 σ]; exact a5 σ⟩
    · refine ⟨fun s => K.names s, K.roots, fun w hw0 => ?_⟩
      have hw3 : HeldX (extAdd e0 (hi.natAbs :: lo.natAbs :: l)) w := heldX_cons (heldX_cons hw0 _) _
      exact K.held w hw3
  have g3 : DynL e0 (hi.natAbs :: lo.natAbs :: l) m3 :=
    ⟨p3.inv, by intro r hr; rw [p3.roots] at hr; exact h.roots0 r hr⟩
  obtain ⟨r4, ewg, g4⟩ := wrapD e0 _ m3 g3 g p3.doc.1
  let m4 : Mgr := { m3 with ref := r4 }
  -- `bdd.ite(g, high, low)`
  have Hhi3 : HeldX (extAdd e0 (hi.natAbs :: lo.natAbs :: l)) hi := heldX_head _ _ _
  have Hlo3 : HeldX (extAdd e0 (hi.natAbs :: lo.natAbs :: l)) lo := heldX_cons (heldX_head _ _ _) _
  have hmhi4' : m4.tbl.Mem hi := (p3.held hi Hhi3).1
  have hmlo4' : m4.tbl.Mem lo := (p3.held lo Hlo3).1
  rcases (C09_ite_transparent_anySchedule _ m4 g4.dyn g hi lo (heldX_head _ _ _)
    (heldX_cons Hhi3 _) (heldX_cons Hlo3 _)).cases with ⟨u, m5, eite, p5⟩ | ⟨m5, eite, _⟩
  rotate_left
  · right
    -- `bdd.ite` ended in the model's schedule error: the three temporaries die, everything is kept
    have K := (ite_total_dynK _ m4 g4.dyn g hi lo).2.1
    rw [eite] at K
    have g5 : DynL e0 (g.natAbs :: hi.natAbs :: lo.natAbs :: l) m5 :=
      ⟨K.inv, by intro r hr; rw [K.roots, p3.roots] at hr; exact h.roots0 r hr⟩
    obtain ⟨r6, ed6, g6⟩ := dropD e0 _ m5 g g5
    obtain ⟨r7, ed7, g7⟩ := dropD e0 _ { m5 with ref := r6 } hi g6
    obtain ⟨r8, ed8, g8⟩ := dropD e0 _ { m5 with ref := r7 } lo g7
    have k2 : KeysOK m2 := hk.congr rfl
    have k3 : KeysOK m3 := by have := ksm_bddVar name m2 k2; rw [evar] at this; exact this
    have k5 : KeysOK m5 := by
      have := ksm_bddIte g hi lo m4 (k3.congr rfl); rw [eite] at this; exact this
    refine ⟨{ m5 with ref := r8 }, ?_, g8, k5.congr rfl, ?_, ?_⟩
    · have inner3 : (containsCheck g >>= fun _ => containsCheck hi >>= fun _ => containsCheck lo >>= fun _ =>
          ite g hi lo >>= fun u => dmpWrap u >>= fun _ => withTemps [u]
            (M.assert (decide (0 ≤ u)) >>= fun _ => incref u >>= fun _ =>
              (pure (cache ++ [(ln.id, u)]) : M (List (Nat × Int))))) m4
          = (.error .sched, m5) := by
        refine (M.bind_eq_ok (containsCheck_ok g m4 p3.doc.1)).trans ?_
        refine (M.bind_eq_ok (containsCheck_ok hi m4 hmhi4')).trans ?_
        refine (M.bind_eq_ok (containsCheck_ok lo m4 hmlo4')).trans ?_
        exact M.bind_eq_err eite
      unfold makeNode
      refine (M.bind_eq_ok hasrt).trans ?_
      simp only [hnew, Option.isSome_none, Bool.false_eq_true, if_false]
      refine (M.bind_eq_ok elo).trans ?_
      refine (withTemps_eq (r := .error .sched) (m1 := { m5 with ref := r7 }) ?_).trans ?_
      · refine (M.bind_eq_ok ehi).trans ?_
        refine (withTemps_eq (r := .error .sched) (m1 := { m5 with ref := r6 }) ?_).trans ?_
        · refine (M.bind_eq_ok hnm).trans ?_
          refine (M.bind_eq_ok evar).trans ?_
          refine (M.bind_eq_ok ewg).trans ?_
          refine (withTemps_eq inner3).trans ?_
          simp only [dropList]
          rw [ed6]
        · simp only [dropList]
          rw [ed7]
      · simp only [dropList]
        rw [ed8]
    · intro k y hky
      obtain ⟨a1, a2, a3, a4, a5⟩ := hc k y hky
      have hy0 : HeldX (extAdd e0 l) y := h.heldX (hheld k y hky)
      have hy3 : HeldX (extAdd e0 (hi.natAbs :: lo.natAbs :: l)) y := heldX_cons (heldX_cons hy0 _) _
      have hy4 := heldX_cons hy3 g.natAbs
      obtain ⟨b1, b2⟩ := p3.held y hy3
      obtain ⟨c1, c2⟩ := K.held y hy4
      exact ⟨a1, c1, a3, a4, fun σ => by
        show denN m5.tbl y σ = _
        rw [c2 σ, show m4.tbl = m3.tbl from rfl, b2 σ]; exact a5 σ⟩
    · refine ⟨fun s => ?_, ?_, fun w hw0 => ?_⟩
      · show m5.tbl.vars.contains s = _
        rw [K.names s]
        show m3.tbl.vars.contains s = _
        rw [p3.names s]
      · show m5.roots = m.roots
        rw [K.roots]
        show m3.roots = _
        rw [p3.roots]
      · have hw3 : HeldX (extAdd e0 (hi.natAbs :: lo.natAbs :: l)) w := heldX_cons (heldX_cons hw0 _) _
        obtain ⟨b1, b2⟩ := p3.held w hw3
        obtain ⟨c1, c2⟩ := K.held w (heldX_cons hw3 _)
        exact ⟨c1, fun σ => by rw [c2 σ, show m4.tbl = m3.tbl from rfl, b2 σ]⟩
  left
  have g5 : DynL e0 (g.natAbs :: hi.natAbs :: lo.natAbs :: l) m5 :=
    ⟨p5.inv, by intro r hr; rw [p5.roots, p3.roots] at hr; exact h.roots0 r hr⟩
  obtain ⟨r6, ewu, g6⟩ := wrapD e0 _ m5 g5 u p5.doc.1
  obtain ⟨r7, ewu2, g7⟩ := wrapD e0 _ { m5 with ref := r6 } g6 u p5.doc.1
  -- the releases
  obtain ⟨r8, ed8, g8⟩ := dropD e0 _ { m5 with ref := r7 } u g7
  obtain ⟨r9, ed9, g9⟩ := dropD e0 _ { m5 with ref := r8 } g (g8.perm (List.Perm.swap _ _ _))
  obtain ⟨r10, ed10, g10⟩ := dropD e0 _ { m5 with ref := r9 } hi (g9.perm (List.Perm.swap _ _ _))
  obtain ⟨r11, ed11, g11⟩ := dropD e0 _ { m5 with ref := r10 } lo (g10.perm (List.Perm.swap _ _ _))
  -- meaning of the operands where `ite` runs
  have hmhi4 : m4.tbl.Mem hi := (p3.held hi Hhi3).1
  have hmlo4 : m4.tbl.Mem lo := (p3.held lo Hlo3).1
  have dhi4 : ∀ σ, denN m4.tbl hi σ = evalPickle f ln.hi σ := fun σ => by
    rw [show m4.tbl = m3.tbl from rfl, (p3.held hi Hhi3).2 σ]; exact dhi σ
  have dlo4 : ∀ σ, denN m4.tbl lo σ = evalPickle f ln.lo σ := fun σ => by
    rw [show m4.tbl = m3.tbl from rfl, (p3.held lo Hlo3).2 σ]; exact dlo σ
  have dg4 : ∀ σ, denN m4.tbl g σ = σ name := p3.doc.2
  have du : ∀ σ, denN m5.tbl u σ = evalPickle f (ln.id : Int) σ := by
    intro σ
    rw [p5.doc.2 σ, dg4 σ, dhi4 σ, dlo4 σ]
    obtain ⟨x, hx, hev⟩ := evalPickle_node hw (ln.id : Int) σ _ ln.lo ln.hi (by simpa using hid)
      (by simpa using hline) rfl rfl
    rw [hname] at hx
    cases hx
    rw [hev]
    have : ¬ ((ln.id : Int) < 0) := by omega
    simp [this]
  have hupos : 0 < u := by
    have h1' := den_alltrue m5.tbl p5.inv.inv.wf.toWF m5.tbl.nvars u p5.doc.1 (by omega)
    have h2' := den_alltrue m4.tbl g4.dyn.inv.wf.toWF m4.tbl.nvars hi hmhi4 (by omega)
    have h3' := p5.doc.2 (fun _ => true)
    unfold denN at h3'
    rw [lift_allTrue, lift_allTrue] at h3'
    have h4' := dg4 (fun _ => true)
    unfold denN at h4'
    rw [lift_allTrue] at h4'
    rw [h4'] at h3'
    simp only [if_true] at h3'
    rw [h1', h2'] at h3'
    have : 0 < hi := shi.mpr hwpos
    simpa [this] using h3'
  refine ⟨u, { m5 with ref := r11 }, ?_, g11, ?_, ?_, ?_⟩
  · -- the computation
    have hmu5 := p5.doc.1
    have inner4 : (M.assert (decide (0 ≤ u)) >>= fun _ => incref u >>= fun _ =>
        (pure (cache ++ [(ln.id, u)]) : M (List (Nat × Int)))) { m5 with ref := r6 }
        = (.ok (cache ++ [(ln.id, u)]), { m5 with ref := r7 }) := by
      refine (M.bind_eq_ok (assert_ok _ _ (by simp; omega))).trans ?_
      have hinc : incref u { m5 with ref := r6 } = (.ok (), { m5 with ref := r7 }) := by
        have := ewu2
        unfold dmpWrap at this
        have hm : ({ m5 with ref := r6 } : Mgr).mem u = true := (Mgr.mem_iff _ u).mpr hmu5
        simpa [hm] using this
      exact (M.bind_eq_ok hinc).trans rfl
    have inner3 : (containsCheck g >>= fun _ => containsCheck hi >>= fun _ => containsCheck lo >>= fun _ =>
        ite g hi lo >>= fun u => dmpWrap u >>= fun _ => withTemps [u]
          (M.assert (decide (0 ≤ u)) >>= fun _ => incref u >>= fun _ =>
            (pure (cache ++ [(ln.id, u)]) : M (List (Nat × Int))))) m4
        = (.ok (cache ++ [(ln.id, u)]), { m5 with ref := r8 }) := by
      refine (M.bind_eq_ok (containsCheck_ok g m4 p3.doc.1)).trans ?_
      refine (M.bind_eq_ok (containsCheck_ok hi m4 hmhi4)).trans ?_
      refine (M.bind_eq_ok (containsCheck_ok lo m4 hmlo4)).trans ?_
      refine (M.bind_eq_ok eite).trans ?_
      refine (M.bind_eq_ok ewu).trans ?_
      refine (withTemps_eq inner4).trans ?_
      simp only [dropList]
      rw [ed8]
    unfold makeNode
    refine (M.bind_eq_ok (assert_ok _ _ (by simp; omega))).trans ?_
    simp only [hnew, Option.isSome_none, Bool.false_eq_true, if_false]
    refine (M.bind_eq_ok elo).trans ?_
    refine (withTemps_eq (r := .ok (cache ++ [(ln.id, u)])) (m1 := { m5 with ref := r10 }) ?_).trans ?_
    · refine (M.bind_eq_ok ehi).trans ?_
      refine (withTemps_eq (r := .ok (cache ++ [(ln.id, u)])) (m1 := { m5 with ref := r9 }) ?_).trans ?_
      · have hnm : (M.ofOption Err.key (vat.lookup ln.lvl) : M String) { m with ref := r2 } = (.ok name, m2) := by
          rw [hvat]; rfl
        refine (M.bind_eq_ok hnm).trans ?_
        refine (M.bind_eq_ok evar).trans ?_
        refine (M.bind_eq_ok ewg).trans ?_
        refine (withTemps_eq inner3).trans ?_
        simp only [dropList]
        rw [ed9]
      · simp only [dropList]
        rw [ed10]
    · simp only [dropList]
      rw [ed11]
  · -- the unique table
    have k2 : KeysOK m2 := hk.congr rfl
    have k3 : KeysOK m3 := by have := ksm_bddVar name m2 k2; rw [evar] at this; exact this
    have k5 : KeysOK m5 := by
      have := ksm_bddIte g hi lo m4 (k3.congr rfl); rw [eite] at this; exact this
    exact k5.congr rfl
  · -- the shelf
    intro k x hkx
    rw [lookup_append_single] at hkx
    cases hck : cache.lookup k with
    | some y =>
      rw [hck] at hkx
      simp only [Option.some.injEq] at hkx
      subst hkx
      obtain ⟨a1, a2, a3, a4, a5⟩ := hc k y hck
      have hy0 : HeldX (extAdd e0 l) y := h.heldX (hheld k y hck)
      have hy3 : HeldX (extAdd e0 (hi.natAbs :: lo.natAbs :: l)) y := heldX_cons (heldX_cons hy0 _) _
      have hy4 := heldX_cons hy3 g.natAbs
      obtain ⟨b1, b2⟩ := p3.held y hy3
      obtain ⟨c1, c2⟩ := p5.held y hy4
      exact ⟨a1, c1, a3, a4, fun σ => by
        rw [c2 σ, show m4.tbl = m3.tbl from rfl, b2 σ]; exact a5 σ⟩
    | none =>
      rw [hck] at hkx
      simp only at hkx
      split at hkx
      · rename_i hkk
        simp only [Option.some.injEq] at hkx
        subst hkx hkk
        exact ⟨hupos, p5.doc.1, hid, by simp [hline], du⟩
      · cases hkx
  · -- what is kept
    refine ⟨?_, ?_, ?_, ?_⟩
    · show m5.lastLen.isSome = m.lastLen.isSome
      rw [p5.enabled]
      show m3.lastLen.isSome = _
      rw [p3.enabled]
    · intro s
      show m5.tbl.vars.contains s = _
      rw [p5.names s]
      show m3.tbl.vars.contains s = _
      rw [p3.names s]
    · show m5.roots = m.roots
      rw [p5.roots]
      show m3.roots = _
      rw [p3.roots]
    · intro w hw0
      have hw3 : HeldX (extAdd e0 (hi.natAbs :: lo.natAbs :: l)) w := heldX_cons (heldX_cons hw0 _) _
      obtain ⟨b1, b2⟩ := p3.held w hw3
      obtain ⟨c1, c2⟩ := p5.held w (heldX_cons hw3 _)
      exact ⟨c1, fun σ => by rw [c2 σ, show m4.tbl = m3.tbl from rfl, b2 σ]⟩

/-- the loop over the node lines as `jsonTry` runs it, EVERY outcome: it goes through; or a
decorated call ended in the model's schedule error at some line — then the shelf holds one
reference per node made so far, and everything is kept -/
theorem makeNodesE_dynK {f : PickleFile} (hw : PickleWF f) (vat : List (Nat × String)) (e0 : Nat → Nat) :
    ∀ (rest pre : List JLine) (cache : List (Nat × Int)) (m : Mgr) (l : List Nat),
      ChildrenFirst (pre ++ rest) → (∀ ln ∈ rest, LineN f vat m.tbl.vars ln) →
      (∀ l' ∈ pre, (cache.lookup l'.id).isSome) → DynL e0 l m → KeysOK m → ShelfN f m.tbl cache →
      (∀ k u, cache.lookup k = some u → u.natAbs ∈ l) → (cache.map (·.1)).Nodup →
      (makeNodesE false vat rest cache m).1 = .ok () ∨
      (∃ added m', makeNodesE false vat rest cache m = (.error .sched, cache ++ added, m') ∧
        DynL e0 (added.map (·.2.natAbs) ++ l) m' ∧ KeysOK m' ∧ ShelfN f m'.tbl (cache ++ added) ∧
        DynKeepsW (extAdd e0 l) m m' ∧ ((cache ++ added).map (·.1)).Nodup) := by
  intro rest
  induction rest with
  | nil =>
    intro pre cache m l _ _ hpre h hk hc _ hn
    exact Or.inl rfl
  | cons ln rest ih =>
    intro pre cache m l hcf hlines hpre h hk hc hheld hn
    have hL := hlines ln List.mem_cons_self
    obtain ⟨elo, ehi⟩ := hcf.split pre ln rest rfl
    have toCache : ∀ c : Int, EdgeOK pre c → c.natAbs = 1 ∨ (cache.lookup c.natAbs).isSome := by
      intro c hc'
      rcases hc' with h1 | ⟨l', hl', hid⟩
      · exact Or.inl h1
      · right; rw [← hid]; exact hpre l' hl'
    have hcf' : ChildrenFirst ((pre ++ [ln]) ++ rest) := by simpa using hcf
    rw [makeNodesE]
    by_cases hin : (cache.lookup ln.id).isSome = true
    · have hmk : makeNode false vat ln cache m = (.ok cache, m) := by
        unfold makeNode
        rw [M.bind_eq_ok (assert_ok _ _ (by have := hL.id; obtain ⟨_, _, _, _, _, _, h2, _⟩ := hw.succ.node _ _ hL.find hL.id; simp; omega))]
        simp only [hin, if_true]
        rfl
      simp only [hmk]
      exact ih (pre ++ [ln]) cache m l hcf'
        (fun l hl => hlines l (List.mem_cons_of_mem _ hl))
        (by intro l' hl'
            rcases List.mem_append.mp hl' with h' | h'
            · exact hpre l' h'
            · simp at h'; subst h'; exact hin) h hk hc hheld hn
    · have hnew : cache.lookup ln.id = none := by
        cases hh : cache.lookup ln.id with
        | none => rfl
        | some x => simp [hh] at hin
      obtain ⟨name, hvat, hname, hdecl⟩ := hL.name
      rcases makeNode_dynK hw vat ln e0 l m h hk cache hc hheld hnew hL.find hL.id
        (toCache _ elo) (toCache _ ehi) name hvat hname hdecl with
        ⟨u, m5, emk, g5, k5, c5, q5⟩ | ⟨m', emk, gL, kk, cS, qW⟩
      rotate_left
      · simp only [emk]
        exact Or.inr ⟨[], m', by simp, by simpa using gL, kk, by simpa using cS, qW, by simpa using hn⟩
      simp only [emk]
      have hn' : ((cache ++ [(ln.id, u)]).map (·.1)).Nodup := by
        rw [List.map_append, List.nodup_append]
        refine ⟨hn, by simp, ?_⟩
        intro a ha b hb hab
        simp at hb
        subst hb hab
        have := (dmp_lookup_isSome_of_mem_keys cache _).mpr ha
        rw [hnew] at this; cases this
      rcases ih (pre ++ [ln]) (cache ++ [(ln.id, u)])
        m5 (u.natAbs :: l) hcf'
        (fun l hl => by
          have := hlines l (List.mem_cons_of_mem _ hl)
          exact ⟨this.id, this.find, by
            obtain ⟨nm, a, b, c⟩ := this.name
            exact ⟨nm, a, b, by rw [q5.names nm]; exact c⟩⟩)
        (by intro l' hl'
            rw [lookup_append_single]
            rcases List.mem_append.mp hl' with h' | h'
            · obtain ⟨x, hx⟩ := Option.isSome_iff_exists.mp (hpre l' h')
              rw [hx]; rfl
            · simp at h'; subst h'; rw [hnew]; simp) g5 k5 c5
        (by intro k x hkx
            rw [lookup_append_single] at hkx
            cases hck : cache.lookup k with
            | some y =>
              rw [hck] at hkx
              simp only [Option.some.injEq] at hkx
              subst hkx
              exact List.mem_cons_of_mem _ (hheld k y hck)
            | none =>
              rw [hck] at hkx
              simp only at hkx
              split at hkx
              · simp only [Option.some.injEq] at hkx
                subst hkx
                exact List.mem_cons_self
              · cases hkx) hn' with hok | ⟨added, m', e1, g1, k1, c1, q1, n1⟩
      · exact Or.inl hok
      refine Or.inr ⟨(ln.id, u) :: added, m', ?_, ?_, k1, ?_,
        q5.toW.trans q1 (fun w hw => heldX_cons hw _), ?_⟩
      · rw [e1]; simp
      · apply g1.perm
        simp only [List.map_cons, List.cons_append]
        exact List.perm_middle
      · simpa using c1
      · simpa using n1

theorem jsonTry_err_nodes (f : JsonFile) (m m1 : Mgr) (e : Err) (cache : List (Nat × Int)) (m2 : Mgr)
    (hh : jsonHeader f false m = (.ok (), m1))
    (hm : makeNodesE false (f.levelOfVar.foldl (fun acc (x : String × Nat) => (x.2, x.1) :: acc) [])
      f.nodes [] m1 = (.error e, cache, m2)) :
    jsonTry f false m = (.error e, cache, none, m2) := by
  unfold jsonTry
  simp only [hh, hm]

/-- **what a load that failed with the model's schedule error leaves behind**
(`load_json(load_order=False)`, reordering possibly enabled, any recorded schedule): if the `try:`
body of `_load_json` fails with `.sched`, then `load_json` raises that error and the manager is
again as between two calls for the caller's OWN ledger (`DynInv ext`: invariant, exact counts —
every reference the loader took was given back), the unique table has no stray key, the names that
were declared and the names of the file are declared, the registered roots are the same, and every
reference the caller holds is still a node with the same function of the variable names -/
theorem loadJson_dyn_failK (f : JsonFile) (hf : JsonWF f) (tgt : Mgr) (ext : Nat → Nat)
    (hD : DynInv ext tgt) (hpn : PredNodes tgt) (htry : (jsonTry f false tgt).1 = .error .sched) :
    ∃ m', loadJson f false tgt = (.error .sched, m') ∧ DynInv ext m' ∧ PredNodes m' ∧
      (∀ (v : String), tgt.tbl.vars.contains v = true → m'.tbl.vars.contains v = true) ∧
      (∀ v ∈ f.levelOfVar.map (·.1), m'.tbl.vars.contains v = true) ∧
      m'.roots = tgt.roots ∧
      (∀ w, HeldX ext w → m'.tbl.Mem w ∧ ∀ σ, denN m'.tbl w σ = denN tgt.tbl w σ) := by
  obtain ⟨hwf, hcf, hsome, hres, hlines⟩ := hf
  -- 1. declare
  obtain ⟨m1, ed, D1, hdecl, hmono, s1, p1, r1, l1, q1⟩ := declare_dyn ext (f.levelOfVar.map (·.1)) tgt hD
  have hk1 : KeysOK m1 := hpn.keysOK.congr p1
  have L1 : DynL ext [] m1 := ⟨by rw [extAdd_nil]; exact D1, D1.roots⟩
  -- 2. the table of the loader
  let vat := f.levelOfVar.foldl (fun acc (x : String × Nat) => (x.2, x.1) :: acc) []
  have hnames : ∀ var i, (var, i) ∈ f.levelOfVar → f.toPickle.nameAt i = some var := hwf.names
  have hsame : ∀ v v' i, (v, i) ∈ f.levelOfVar → (v', i) ∈ f.levelOfVar → v = v' := by
    intro v v' i h1 h2
    have a := hnames v i h1
    have b := hnames v' i h2
    rw [a] at b; cases b; rfl
  have hvatfacts : ∀ i x, vat.lookup i = some x → (x, i) ∈ f.levelOfVar := by
    intro i x hix
    have hm := lookup_mem vat i x hix
    simp only [vat, vat_eq, List.mem_reverse, List.mem_map] at hm
    obtain ⟨⟨v, l⟩, hvl, heq⟩ := hm
    simp only [Prod.mk.injEq] at heq
    obtain ⟨rfl, rfl⟩ := heq
    exact hvl
  have hvatdom : ∀ v i, (v, i) ∈ f.levelOfVar → (vat.lookup i).isSome := by
    intro v i hvi
    apply lookup_isSome_of_mem vat i v
    simp only [vat, vat_eq, List.mem_reverse, List.mem_map]
    exact ⟨(v, i), hvi, rfl⟩
  have hlineN : ∀ ln ∈ f.nodes, LineN f.toPickle vat m1.tbl.vars ln := by
    intro ln hln
    obtain ⟨hid, hfind⟩ := hlines ln hln
    refine ⟨hid, hfind, ?_⟩
    obtain ⟨var, hvar⟩ := hwf.lvls ln.id _ hfind hid
    have hvar' : (var, ln.lvl) ∈ f.levelOfVar := hvar
    obtain ⟨x, hx⟩ := Option.isSome_iff_exists.mp (hvatdom var ln.lvl hvar')
    have hxv : x = var := hsame _ _ _ (hvatfacts _ _ hx) hvar'
    subst hxv
    refine ⟨x, hx, hnames x ln.lvl hvar', ?_⟩
    rw [TreeMap.contains_eq_isSome_getElem?]
    exact hdecl x (List.mem_map.mpr ⟨(x, ln.lvl), hvar', rfl⟩)
  -- 3. the node lines, every outcome
  rcases makeNodesE_dynK hwf vat ext f.nodes [] [] m1 []
    (by simpa using hcf) hlineN (by simp) L1 hk1 (by intro k u h; simp at h) (by intro k u h; simp at h) (by simp) with
    hok | ⟨added, m2, emk, L2, hk2, c2, qW, n2⟩
  · -- the loop went through: then the `try:` body does not fail with `.sched`
    exfalso
    rcases makeNodes_dyn hwf vat ext f.nodes [] [] m1 []
      (by simpa using hcf) hlineN (by simp) L1 hk1 (by intro k u h; simp at h) (by intro k u h; simp at h) (by simp) with
      ⟨added, m2, emk, L2, hk2, c2, q2, n2, a2⟩ | hfail
    rotate_left
    · have := makeNodesE_fails vat f.nodes [] m1 hfail
      rw [hok] at this
      cases this
    simp only [List.nil_append, List.append_nil] at emk L2 c2 n2 a2
    -- 4. the roots
    have hks : ∀ k ∈ f.roots.values, k.natAbs = 1 ∨ (added.lookup k.natAbs).isSome := by
      intro k hk
      rcases hres k hk with h1 | ⟨en, hen, hid⟩
      · exact Or.inl h1
      · by_cases h1 : k.natAbs = 1
        · exact Or.inl h1
        right
        have hen' : en ∈ (⟨1, f.levelOfVar.length, none, none⟩ : PEntry) :: f.nodes.map JLine.entry := hen
        rcases List.mem_cons.mp hen' with h' | h'
        · subst h'; exact absurd hid.symm h1
        · obtain ⟨ln, hln, rfl⟩ := List.mem_map.mp h'
          have := a2 ln hln
          rw [← hid]; exact this
    obtain ⟨us, r3, er, L3, f3⟩ := rootsFromInts_dyn hwf ext added f.roots.values m2 _ L2 c2 hks
    have L3' : DynL ext (added.map (·.2.natAbs) ++ (none : Option Int).toList.map Int.natAbs ++ us.map Int.natAbs)
        { m2 with ref := r3 } := by
      apply L3.perm
      simp only [Option.toList, List.map_nil, List.append_nil]
      exact List.perm_append_comm
    have hids := shelfN_ids n2 c2
    obtain ⟨last0, r0, eck, L0⟩ := checkLoop_dyn ext added n2 hids added none { m2 with ref := r3 }
      (shelfRefs added ++ us.map Int.natAbs) (fun _ h => h)
      (fun p hp => List.mem_append_left _ (List.mem_map.mpr ⟨p, hp, rfl⟩))
      (by simpa [shelfRefs] using L3')
    rw [jsonTry_ok f false hsome tgt m1 m2 { m2 with ref := r3 } { m2 with ref := r0 }
      added us last0 (jsonHeader_false f tgt m1 ed) emk er eck] at htry
    cases htry
  -- a decorated call ended in `.sched`: the handler gives the shelf's references back
  simp only [List.nil_append, List.append_nil] at emk L2 c2 n2
  rw [extAdd_nil] at qW
  have etry : jsonTry f false tgt = (.error .sched, added, none, m2) :=
    jsonTry_err_nodes f tgt m1 .sched added m2 (jsonHeader_false f tgt m1 ed) emk
  have L2' : DynL ext ((none : Option Int).toList.map Int.natAbs ++ (shelfRefs added ++ [])) m2 := by
    simpa [shelfRefs] using L2
  obtain ⟨last, r4, erl, L4⟩ := releaseFailed_dyn ext added n2 (shelfN_ids n2 c2) added none m2 []
    (fun _ h => h) L2'
  obtain ⟨r5, ed5, L5⟩ : ∃ r5, dropOpt last { m2 with ref := r4 } = { m2 with ref := r5 } ∧
      DynL ext [] { m2 with ref := r5 } := dropOptD ext last { m2 with ref := r4 } [] L4
  have hk5 : KeysOK ({ m2 with ref := r5 } : Mgr) := hk2.congr rfl
  have D5 : DynInv ext ({ m2 with ref := r5 } : Mgr) := by
    have := L5.dyn
    rw [extAdd_nil] at this
    exact this
  refine ⟨{ m2 with ref := r5 }, ?_, D5, hk5.predNodes D5.inv, ?_, ?_, ?_, ?_⟩
  · rw [loadJson_false_eq, etry]
    unfold jsonFinish
    simp only [erl, ed5]
  · intro v hv
    show m2.tbl.vars.contains v = true
    rw [qW.names v]
    rw [TreeMap.contains_eq_isSome_getElem?] at hv ⊢
    obtain ⟨i, hi⟩ := Option.isSome_iff_exists.mp hv
    rw [hmono v i hi]; rfl
  · intro v hv
    show m2.tbl.vars.contains v = true
    rw [qW.names v, TreeMap.contains_eq_isSome_getElem?]
    exact hdecl v hv
  · show m2.roots = _
    rw [qW.roots, r1]
  · intro w hw0
    have hw1 : m1.tbl.Mem w ∧ ∀ σ, denN m1.tbl w σ = denN tgt.tbl w σ := q1 w (hw0.mem hD.refs)
    obtain ⟨b1, b2⟩ := qW.held w hw0
    exact ⟨b1, fun σ => (b2 σ).trans (hw1.2 σ)⟩

end DD.S
