/-
  DDProofs.SwapLevelsFresh — two facts about the third loop of `swap` (`moveDep`) that the
  specification of DDProofs.SwapDep does not export, read off the code of a SUCCESSFUL run:

  * `moveDep_garbage_inv` : every element of `garbage` is a child of a rebuilt node
    (`garbage.add(abs(v)); garbage.add(w)`);
  * `moveDep_fresh_inv` : `xfresh` is COMPLETE — a node that is at the lower level after the loop
    either was there, with the same triple, before the loop, or is in `xfresh`
    (`if self._succ[abs(p)][0] == y: xfresh.add(abs(p))`, same for `q`).
-/
import DDProofs.SwapDep
open Std

namespace DD

/-! ### the node table through the primitive steps -/

theorem incref_tbl_eq (u : Int) (m : Mgr) : (incref u m).2.tbl = m.tbl := by
  unfold incref
  split <;> rfl

theorem incref_tbl_of {u : Int} {m m' : Mgr} {r : Except Err Unit} (h : incref u m = (r, m')) :
    m'.tbl = m.tbl := by
  have := incref_tbl_eq u m
  rw [h] at this
  exact this

theorem decref_tbl_eq (u : Int) (m : Mgr) : (decref u m).2.tbl = m.tbl := by
  unfold decref
  split
  · rfl
  · split <;> rfl

theorem requestReordering_tbl_eq (m : Mgr) : (requestReordering m).2.tbl = m.tbl := by
  unfold requestReordering
  split
  · rfl
  · split
    · split <;> rfl
    · split <;> rfl

/-- a successful `find_or_add` leaves every entry of `_succ` as it was, except possibly ONE new
entry, at a number that was free, of the requested level, which is the node returned -/
theorem findOrAddCore_tbl_inv {i : Nat} {a b : Int} {m m' : Mgr} {r : Int}
    (h : findOrAddCore i a b m = (.ok r, m')) (k : Nat) :
    m'.tbl.node? k = m.tbl.node? k ∨
    (m.tbl.node? k = none ∧ k = r.natAbs ∧ 2 ≤ k ∧ ∃ nd, m'.tbl.node? k = some nd ∧ nd.lvl = i) := by
  unfold findOrAddCore at h
  dsimp only at h
  have hr0 : ∀ u : Nat, ((if b < 0 then (-1 : Int) else 1) * (u : Int)).natAbs = u := by
    intro u; split <;> simp
  generalize (if b < 0 then -a else a) = v' at h
  generalize (if b < 0 then -b else b) = w' at h
  generalize (if b < 0 then (-1 : Int) else 1) = r0 at h hr0
  split at h
  · cases h
  split at h
  · cases h
  split at h
  · cases h
  split at h
  · cases h; exact Or.inl rfl
  split at h
  · cases h; exact Or.inl rfl
  split at h
  · cases h
  split at h
  · cases h
  rename_i hle hcont
  split at h
  · cases h
  rename_i u2 m2 heq2
  split at h
  · cases h
  rename_i u3 m3 heq3
  cases h
  have e2 := incref_tbl_of heq2
  have e3 := incref_tbl_of heq3
  have ht : m'.tbl.succ = m.tbl.succ.insert m.minFree ⟨i, v', w'⟩ := by
    show m'.tbl.succ = _
    rw [e3, e2]
  by_cases hk : k = m.minFree
  · right
    subst hk
    have hfree : m.tbl.node? m.minFree = none := by
      have hc : m.tbl.succ.contains m.minFree = false := by
        cases hcc : m.tbl.succ.contains m.minFree with
        | false => rfl
        | true => exact absurd hcc hcont
      show m.tbl.succ[m.minFree]? = none
      rw [TreeMap.contains_eq_isSome_getElem?] at hc
      cases hh : m.tbl.succ[m.minFree]? with
      | none => rfl
      | some v => rw [hh] at hc; cases hc
    refine ⟨hfree, (hr0 _).symm, by omega, ⟨i, v', w'⟩, ?_, rfl⟩
    show m'.tbl.succ[m.minFree]? = _
    rw [ht, TreeMap.getElem?_insert_self]
  · left
    show m'.tbl.succ[k]? = m.tbl.succ[k]?
    rw [ht, TreeMap.getElem?_insert]
    have : compare m.minFree k ≠ .eq := by
      intro hc; exact hk (Nat.compare_eq_eq.mp hc).symm
    simp [this]

theorem findOrAdd_tbl_inv {i : Nat} {a b : Int} {m m' : Mgr} {r : Int}
    (h : findOrAdd (i : Int) a b m = (.ok r, m')) (k : Nat) :
    m'.tbl.node? k = m.tbl.node? k ∨
    (m.tbl.node? k = none ∧ k = r.natAbs ∧ 2 ≤ k ∧ ∃ nd, m'.tbl.node? k = some nd ∧ nd.lvl = i) := by
  unfold findOrAdd at h
  have hnn : ¬ ((i : Int) < 0) := by omega
  by_cases hc : m.ctx = true
  · simp only [hc, if_true] at h
    have et := requestReordering_tbl_eq m
    generalize requestReordering m = rr at h et
    obtain ⟨r1, m1⟩ := rr
    cases r1 with
    | error e => cases h
    | ok u1 =>
      simp only [hnn, if_false, Int.toNat_natCast] at h et
      have := findOrAddCore_tbl_inv h k
      rw [et] at this
      exact this
  · simp only [hc, Bool.false_eq_true, if_false, hnn, Int.toNat_natCast] at h
    exact findOrAddCore_tbl_inv h k

/-- `_swap_cofactor` only reads -/
theorem swapCofactor_state {u : Int} {y : Nat} {m m' : Mgr} {r : Nat × Int × Int}
    (h : swapCofactor u y m = (.ok r, m')) : m' = m := by
  unfold swapCofactor at h
  rw [M.bind_ok (M.get_eq m)] at h
  split at h
  · split at h
    · cases h; rfl
    · cases h
  · obtain ⟨n, m1, h1, h⟩ := M.bind_ok_inv h
    have e1 := (M.ofOption_ok_inv h1).2
    subst e1
    split at h <;> (cases h; rfl)

theorem depCofactors_state {v w : Int} {y : Nat} {m m' : Mgr} {r : Int × Int × Int × Int}
    (h : depCofactors v w y m = (.ok r, m')) : m' = m := by
  unfold depCofactors at h
  obtain ⟨⟨iv, v0, v1⟩, m1, h1, h⟩ := M.bind_ok_inv h
  obtain ⟨⟨iw, w0, w1⟩, m2, h2, h⟩ := M.bind_ok_inv h
  obtain ⟨_, m3, h3, h⟩ := M.bind_ok_inv h
  obtain ⟨_, m4, h4, h⟩ := M.bind_ok_inv h
  have e1 := swapCofactor_state h1
  have e2 := swapCofactor_state h2
  have e3 := (M.assert_ok_inv h3).2
  have e4 := (M.assert_ok_inv h4).2
  cases h
  rw [← e4, ← e3, e2, e1]

theorem lowHighLevel_inv {u : Int} {m m' : Mgr} {l : Nat} (h : lowHighLevel u m = (.ok l, m')) :
    m' = m ∧ m.tbl.levelOf? u = some l := by
  unfold lowHighLevel at h
  rw [M.bind_ok (M.get_eq m)] at h
  obtain ⟨e1, e2⟩ := M.ofOption_ok_inv h
  exact ⟨e2.symm, e1⟩

theorem setNode_inv {u : Nat} {nd : Nd} {m m' : Mgr} {r : Unit} (h : setNode u nd m = (.ok r, m')) :
    m'.tbl = { m.tbl with succ := m.tbl.succ.insert u nd } := by
  unfold setNode at h
  rw [M.bind_ok (M.get_eq m)] at h
  obtain ⟨_, m1, h1, h⟩ := M.bind_ok_inv h
  have e1 := (M.assert_ok_inv h1).2
  subst e1
  cases h
  rfl

/-! ### one rebuilt node -/

/-- a successful `moveDepStep`: every node other than `u` that is at level `y` afterwards was
there with the same triple before, or is in the returned `fresh` list -/
theorem moveDepStep_fresh_inv {x y u : Nat} {v w : Int} {m m' : Mgr} {fr : List Nat}
    (h : moveDepStep x y u v w m = (.ok fr, m')) (k : Nat) (hku : k ≠ u) (nk : Nd)
    (hk : m'.tbl.node? k = some nk) (hl : nk.lvl = y) :
    m.tbl.node? k = some nk ∨ k ∈ fr := by
  unfold moveDepStep at h
  rw [M.bind_ok (M.get_eq m)] at h
  obtain ⟨n, m1, h1, g1⟩ := M.bind_ok_inv h
  clear h
  have e1 := (M.ofOption_ok_inv h1).2; subst e1
  obtain ⟨_, m2, h2, g2⟩ := M.bind_ok_inv g1
  clear g1
  have e2 := (M.assert_ok_inv h2).2; subst e2
  obtain ⟨_, m3, h3, g3⟩ := M.bind_ok_inv g2
  clear g2
  have e3 := (M.assert_ok_inv h3).2; subst e3
  obtain ⟨_, m4, h4, g4⟩ := M.bind_ok_inv g3
  clear g3
  have t4 : m4.tbl = m.tbl := by have := decref_tbl_eq v m; rw [h4] at this; exact this
  obtain ⟨_, m5, h5, g5⟩ := M.bind_ok_inv g4
  clear g4
  have t5 : m5.tbl = m.tbl := by have := decref_tbl_eq w m4; rw [h5] at this; rw [this, t4]
  obtain ⟨⟨v0, v1, w0, w1⟩, m6, h6, g6⟩ := M.bind_ok_inv g5
  clear g5
  have e6 := depCofactors_state h6; subst e6
  simp only at g6
  obtain ⟨p, m7, h7, g7⟩ := M.bind_ok_inv g6
  clear g6
  obtain ⟨q, m8, h8, g8⟩ := M.bind_ok_inv g7
  clear g7
  obtain ⟨_, m9, h9, g9⟩ := M.bind_ok_inv g8
  clear g8
  have e9 := (M.assert_ok_inv h9).2; subst e9
  obtain ⟨_, m10, h10, g10⟩ := M.bind_ok_inv g9
  clear g9
  have e10 := (M.assert_ok_inv h10).2; subst e10
  obtain ⟨lp, m11, h11, g11⟩ := M.bind_ok_inv g10
  clear g10
  obtain ⟨e11, hlp⟩ := lowHighLevel_inv h11; subst e11
  obtain ⟨lq, m12, h12, g12⟩ := M.bind_ok_inv g11
  clear g11
  obtain ⟨e12, hlq⟩ := lowHighLevel_inv h12; subst e12
  obtain ⟨_, m13, h13, g13⟩ := M.bind_ok_inv g12
  clear g12
  have t13 := setNode_inv h13
  obtain ⟨_, m14, h14, g14⟩ := M.bind_ok_inv g13
  clear g13
  have t14 : m14.tbl = m13.tbl := by have := incref_tbl_eq p m13; rw [h14] at this; exact this
  obtain ⟨_, m15, h15, g15⟩ := M.bind_ok_inv g14
  clear g14
  have t15 : m15.tbl = m14.tbl := by have := incref_tbl_eq q m14; rw [h15] at this; exact this
  cases g15
  -- the node `k ≠ u` in the state after the two `find_or_add`s
  have hk8 : m12.tbl.node? k = some nk := by
    have : m'.tbl.node? k = m12.tbl.node? k := by
      show m'.tbl.succ[k]? = m12.tbl.succ[k]?
      rw [t15, t14, t13]
      show (m12.tbl.succ.insert u _)[k]? = _
      rw [TreeMap.getElem?_insert]
      have : compare u k ≠ .eq := fun hc => hku (Nat.compare_eq_eq.mp hc).symm
      simp [this]
    rw [← this]; exact hk
  have hk1 : k ≠ 1 → m12.tbl.levelOf? ((k : Nat) : Int) = some y := by
    intro h1
    unfold Tbl.levelOf?
    simp only [Int.natAbs_natCast, h1, if_false]
    have : m12.tbl.succ[k]? = some nk := hk8
    rw [this]; simp [hl]
  have y_eq : ((y : Nat) : Int).toNat = y := by simp
  rcases findOrAdd_tbl_inv h8 k with e8 | ⟨hnone8, hkq, hk2, _⟩
  · rcases findOrAdd_tbl_inv h7 k with e7 | ⟨hnone7, hkp, hk2, _⟩
    · left
      rw [← t5, ← e7, ← e8]; exact hk8
    · -- `k = |p|`, created by the first `find_or_add`
      right
      have hlp' : m12.tbl.levelOf? p = some y := by
        have := hk1 (by omega)
        unfold Tbl.levelOf? at this ⊢
        rw [← hkp]
        simpa using this
      rw [hlp'] at hlp
      cases hlp
      simp [hkp]
  · right
    have hlq' : m12.tbl.levelOf? q = some y := by
      have := hk1 (by omega)
      unfold Tbl.levelOf? at this ⊢
      rw [← hkq]
      simpa using this
    rw [hlq'] at hlq
    cases hlq
    simp [hkq]

/-- … and no entry of `_succ` disappears in the step -/
theorem moveDepStep_keeps {x y u : Nat} {v w : Int} {m m' : Mgr} {fr : List Nat}
    (h : moveDepStep x y u v w m = (.ok fr, m')) (k : Nat) (hk : (m.tbl.node? k).isSome) :
    (m'.tbl.node? k).isSome := by
  unfold moveDepStep at h
  rw [M.bind_ok (M.get_eq m)] at h
  obtain ⟨n, m1, h1, g1⟩ := M.bind_ok_inv h
  clear h
  have e1 := (M.ofOption_ok_inv h1).2; subst e1
  obtain ⟨_, m2, h2, g2⟩ := M.bind_ok_inv g1
  clear g1
  have e2 := (M.assert_ok_inv h2).2; subst e2
  obtain ⟨_, m3, h3, g3⟩ := M.bind_ok_inv g2
  clear g2
  have e3 := (M.assert_ok_inv h3).2; subst e3
  obtain ⟨_, m4, h4, g4⟩ := M.bind_ok_inv g3
  clear g3
  have t4 : m4.tbl = m.tbl := by have := decref_tbl_eq v m; rw [h4] at this; exact this
  obtain ⟨_, m5, h5, g5⟩ := M.bind_ok_inv g4
  clear g4
  have t5 : m5.tbl = m.tbl := by have := decref_tbl_eq w m4; rw [h5] at this; rw [this, t4]
  obtain ⟨⟨v0, v1, w0, w1⟩, m6, h6, g6⟩ := M.bind_ok_inv g5
  clear g5
  have e6 := depCofactors_state h6; subst e6
  simp only at g6
  obtain ⟨p, m7, h7, g7⟩ := M.bind_ok_inv g6
  clear g6
  obtain ⟨q, m8, h8, g8⟩ := M.bind_ok_inv g7
  clear g7
  obtain ⟨_, m9, h9, g9⟩ := M.bind_ok_inv g8
  clear g8
  have e9 := (M.assert_ok_inv h9).2; subst e9
  obtain ⟨_, m10, h10, g10⟩ := M.bind_ok_inv g9
  clear g9
  have e10 := (M.assert_ok_inv h10).2; subst e10
  obtain ⟨lp, m11, h11, g11⟩ := M.bind_ok_inv g10
  clear g10
  obtain ⟨e11, hlp⟩ := lowHighLevel_inv h11; subst e11
  obtain ⟨lq, m12, h12, g12⟩ := M.bind_ok_inv g11
  clear g11
  obtain ⟨e12, hlq⟩ := lowHighLevel_inv h12; subst e12
  obtain ⟨_, m13, h13, g13⟩ := M.bind_ok_inv g12
  clear g12
  have t13 := setNode_inv h13
  obtain ⟨_, m14, h14, g14⟩ := M.bind_ok_inv g13
  clear g13
  have t14 : m14.tbl = m13.tbl := by have := incref_tbl_eq p m13; rw [h14] at this; exact this
  obtain ⟨_, m15, h15, g15⟩ := M.bind_ok_inv g14
  clear g14
  have t15 : m15.tbl = m14.tbl := by have := incref_tbl_eq q m14; rw [h15] at this; exact this
  cases g15
  have k7 : (m7.tbl.node? k).isSome := by
    rcases findOrAdd_tbl_inv h7 k with e | ⟨hn, _⟩
    · rw [e, t5]; exact hk
    · rw [t5] at hn; rw [hn] at hk; cases hk
  have k8 : (m12.tbl.node? k).isSome := by
    rcases findOrAdd_tbl_inv h8 k with e | ⟨hn, _⟩
    · rw [e]; exact k7
    · rw [hn] at k7; cases k7
  show (m'.tbl.succ[k]?).isSome
  rw [t15, t14, t13]
  show ((m12.tbl.succ.insert u _)[k]?).isSome
  rw [TreeMap.getElem?_insert]
  split
  · rfl
  · exact k8

/-! ### the loop -/

/-- every element of `garbage` is a child of an entry of the list that is not in `done` -/
theorem moveDep_garbage_inv {x y : Nat} {done : List Nat} :
    ∀ (l : List (Nat × Int × Int)) {m m' : Mgr} {g xf : List Nat},
    moveDep x y done l m = (.ok (g, xf), m') →
    ∀ r ∈ g, ∃ t ∈ l, done.contains t.1 = false ∧ (t.2.1.natAbs = r ∨ t.2.2.natAbs = r) := by
  intro l
  induction l with
  | nil =>
    intro m m' g xf h r hr
    unfold moveDep at h
    cases h
    cases hr
  | cons t rest ih =>
    intro m m' g xf h r hr
    obtain ⟨u, v, w⟩ := t
    unfold moveDep at h
    by_cases hd : done.contains u = true
    · rw [if_pos hd] at h
      obtain ⟨t', ht', h1, h2⟩ := ih h r hr
      exact ⟨t', List.mem_cons_of_mem _ ht', h1, h2⟩
    · rw [if_neg hd] at h
      obtain ⟨fr, m1, h1, h⟩ := M.bind_ok_inv h
      obtain ⟨⟨g', xf'⟩, m2, h2, h⟩ := M.bind_ok_inv h
      cases h
      rcases mem_pushNew_or hr with hr | rfl
      · rcases mem_pushNew_or hr with hr | rfl
        · obtain ⟨t', ht', h1', h2'⟩ := ih h2 r hr
          exact ⟨t', List.mem_cons_of_mem _ ht', h1', h2'⟩
        · exact ⟨(u, v, w), List.mem_cons_self, by simpa using hd, Or.inl rfl⟩
      · exact ⟨(u, v, w), List.mem_cons_self, by simpa using hd, Or.inr rfl⟩

/-- `xfresh` is complete: a node at level `y` after the loop, not among the listed ones, was
there with the same triple before the loop, or is in `xfresh`; and no entry disappears -/
theorem moveDep_fresh_inv {x y : Nat} {done : List Nat} :
    ∀ (l : List (Nat × Int × Int)) {m m' : Mgr} {g xf : List Nat},
    moveDep x y done l m = (.ok (g, xf), m') →
    (∀ k, (m.tbl.node? k).isSome → (m'.tbl.node? k).isSome) ∧
    ∀ k, (∀ t ∈ l, t.1 ≠ k) → ∀ nk, m'.tbl.node? k = some nk → nk.lvl = y →
      m.tbl.node? k = some nk ∨ k ∈ xf := by
  intro l
  induction l with
  | nil =>
    intro m m' g xf h
    unfold moveDep at h
    cases h
    exact ⟨fun _ h => h, fun k _ nk hk _ => Or.inl hk⟩
  | cons t rest ih =>
    intro m m' g xf h
    obtain ⟨u, v, w⟩ := t
    unfold moveDep at h
    by_cases hd : done.contains u = true
    · rw [if_pos hd] at h
      obtain ⟨a, b⟩ := ih h
      exact ⟨a, fun k hk => b k (fun t ht => hk t (List.mem_cons_of_mem _ ht))⟩
    · rw [if_neg hd] at h
      obtain ⟨fr, m1, h1, h⟩ := M.bind_ok_inv h
      obtain ⟨⟨g', xf'⟩, m2, h2, h⟩ := M.bind_ok_inv h
      cases h
      obtain ⟨a, b⟩ := ih h2
      refine ⟨fun k hk => a k (moveDepStep_keeps h1 k hk), ?_⟩
      intro k hk nk hnk hl
      have hku : k ≠ u := fun e => hk (u, v, w) List.mem_cons_self e.symm
      rcases b k (fun t ht => hk t (List.mem_cons_of_mem _ ht)) nk hnk hl with h3 | h3
      · rcases moveDepStep_fresh_inv h1 k hku nk h3 hl with h4 | h4
        · exact Or.inl h4
        · exact Or.inr (List.mem_append_left _ h4)
      · exact Or.inr (List.mem_append_right _ h3)

end DD
