/-
  DDProofs.SubstWrappers — the public entry points `cofactor`, `quantify`, `compose`,
  `rename`, `let` (inside the decorator `_try_to_reorder`, reordering not enabled):
  `_map_to_level`, sorting of the levels, and the specifications of the recursions.
-/
import DDProofs.Compose
open Std

namespace DD

/-! ### small list facts -/

theorem mem_dedup_nat (a : Nat) : ∀ l : List Nat, a ∈ dedup l ↔ a ∈ l := by
  intro l
  induction l with
  | nil => simp [dedup]
  | cons b l ih =>
    simp only [dedup]
    split
    · next hc =>
      have hb : b ∈ l := by
        have : b ∈ dedup l := by simpa using hc
        exact (by
          -- `dedup l` only holds elements of `l`
          clear ih hc
          induction l with
          | nil => simp [dedup] at this
          | cons c l ih' =>
            simp only [dedup] at this
            split at this
            · exact List.mem_cons_of_mem _ (ih' this)
            · rcases List.mem_cons.mp this with h | h
              · subst h; exact List.mem_cons_self
              · exact List.mem_cons_of_mem _ (ih' h))
      rw [ih]
      constructor
      · intro h; exact List.mem_cons_of_mem _ h
      · intro h
        rcases List.mem_cons.mp h with h | h
        · subst h; exact hb
        · exact h
    · rw [List.mem_cons, List.mem_cons, ih]

theorem mem_insertSorted_nat (x a : Nat) : ∀ l : List Nat, x ∈ insertSorted a l ↔ x = a ∨ x ∈ l := by
  intro l
  induction l with
  | nil => simp [insertSorted]
  | cons b l ih =>
    simp only [insertSorted]
    split
    · simp
    · rw [List.mem_cons, ih, List.mem_cons]
      constructor
      · rintro (h | h | h)
        · exact Or.inr (Or.inl h)
        · exact Or.inl h
        · exact Or.inr (Or.inr h)
      · rintro (h | h | h)
        · exact Or.inr (Or.inl h)
        · exact Or.inl h
        · exact Or.inr (Or.inr h)

theorem mem_sortNat_nat (x : Nat) : ∀ l : List Nat, x ∈ sortNat l ↔ x ∈ l := by
  intro l
  induction l with
  | nil => simp [sortNat]
  | cons b l ih =>
    have : sortNat (b :: l) = insertSorted b (sortNat l) := rfl
    rw [this, mem_insertSorted_nat, ih, List.mem_cons]

/-- the sorted duplicate-free list has the same elements -/
theorem mem_ordvar (x : Nat) (l : List Nat) : x ∈ sortNat (dedup l) ↔ x ∈ l := by
  rw [mem_sortNat_nat, mem_dedup_nat]

theorem lookup_some_mem {α β} [BEq α] [LawfulBEq α] (k : α) (v : β) :
    ∀ l : List (α × β), l.lookup k = some v → (k, v) ∈ l := by
  intro l
  induction l with
  | nil => intro h; simp at h
  | cons p l ih =>
    intro h
    obtain ⟨k', v'⟩ := p
    rw [List.lookup_cons] at h
    split at h
    · next heq =>
      have : k = k' := by simpa using heq
      subst this
      cases h
      exact List.mem_cons_self
    · exact List.mem_cons_of_mem _ (ih h)

theorem mapME_ok {α β} (f : α → Except Err β) (g : α → β) :
    ∀ l : List α, (∀ x, x ∈ l → f x = .ok (g x)) → mapME f l = .ok (l.map g) := by
  intro l
  induction l with
  | nil => intro _; rfl
  | cons a l ih =>
    intro h
    simp only [mapME, h a List.mem_cons_self, ih (fun x hx => h x (List.mem_cons_of_mem _ hx)),
      List.map_cons]

/-! ### `_map_to_level` -/

/-- the level of a declared variable (0 when not declared) -/
def lvlOf (t : Tbl) (s : String) : Nat := (t.vars[s]?).getD 0

theorem lvlOf_eq {t : Tbl} {s : String} {l : Nat} (h : t.vars[s]? = some l) : lvlOf t s = l := by
  simp [lvlOf, h]

theorem vars_contains_iff (t : Tbl) (s : String) :
    t.vars.contains s = true ↔ ∃ l, t.vars[s]? = some l := by
  rw [TreeMap.contains_eq_isSome_getElem?]
  exact Option.isSome_iff_exists

/-- `_map_to_level` of a set / dict whose keys are declared variable names -/
theorem mapToLevelE_names (t : Tbl) (names : List String)
    (h : ∀ s, s ∈ names → t.vars.contains s = true) :
    mapToLevelE t (names.map Key.name) = .ok (names.map (lvlOf t)) := by
  cases names with
  | nil => rfl
  | cons s rest =>
    have hs := h s List.mem_cons_self
    have hall : mapME (keyVarLevel t) ((s :: rest).map Key.name) =
        .ok (((s :: rest).map Key.name).map fun k => match k with
          | .name s => lvlOf t s
          | .lvl _ => 0) := by
      apply mapME_ok
      intro k hk
      obtain ⟨s', hs', rfl⟩ := List.mem_map.mp hk
      obtain ⟨l, hl⟩ := (vars_contains_iff t s').mp (h s' hs')
      simp [keyVarLevel, hl, lvlOf]
    simp only [mapToLevelE, List.map_cons, hs, Bool.not_true, Bool.false_eq_true, if_false]
    simp only [List.map_cons] at hall
    rw [hall]
    simp [List.map_map, Function.comp_def]

/-- `_map_to_level` of a set / dict whose keys are valid levels -/
theorem mapToLevelE_levels (t : Tbl) (ls : List Nat)
    (h : ∀ i, i ∈ ls → t.l2v.contains i = true) :
    mapToLevelE t (ls.map fun (i : Nat) => Key.lvl (i : Int)) = .ok ls := by
  cases ls with
  | nil => rfl
  | cons i rest =>
    have hall : ((i :: rest).map fun (i : Nat) => Key.lvl (i : Int)).all (keyIsLevel t) = true := by
      rw [List.all_eq_true]
      intro k hk
      obtain ⟨i', hi', rfl⟩ := List.mem_map.mp hk
      simp [keyIsLevel, h i' hi']
    simp only [List.map_cons] at hall
    simp only [mapToLevelE, List.map_cons, Bool.not_false, if_true, hall]
    simp [List.map_map, Function.comp_def]

/-! ### the decorator around a body that only adds nodes -/

theorem Step.ofCtx {m m1 : Mgr} (hs : Step { m with ctx := true } m1) :
    Step m { m1 with ctx := m.ctx } :=
  ⟨hs.inv.setCtx _, hs.ext,
   ⟨hs.frame.vars, hs.frame.l2v, hs.frame.lastLen, rfl, hs.frame.sched, hs.frame.roots⟩⟩

/-- a decorated operation whose body succeeds -/
theorem decorated_ok {α} (body : M α) (m : Mgr) (a : α) (m1 : Mgr)
    (h : body { m with ctx := true } = (.ok a, m1)) (hs : Step { m with ctx := true } m1) :
    tryToReorder body m = (.ok a, { m1 with ctx := m.ctx }) ∧ Step m { m1 with ctx := m.ctx } :=
  ⟨tryToReorder_ok body m a m1 h, hs.ofCtx⟩

/-! ### `cofactor` -/

theorem lookup_zip_reverse_mem (lv : List Nat) (vs : List Bool) (j : Nat)
    (h : (((lv.zip vs).reverse).lookup j).isSome = true) : j ∈ lv := by
  obtain ⟨b, hb⟩ := Option.isSome_iff_exists.mp h
  have := lookup_some_mem j b _ hb
  rw [List.mem_reverse] at this
  exact (List.of_mem_zip this).1

/-- `BDD.cofactor(u, values)`, reordering not enabled: the keys are mapped to levels `lv` by
`_map_to_level`; the result denotes `u` under the assignment overridden by the dictionary -/
theorem cofactor_spec (m : Mgr) (hI : Inv m) (hoff : m.lastLen = none) (u : Int)
    (hu : m.tbl.Mem u) (values : List (Key × Bool)) (lv : List Nat)
    (hlv : mapToLevelE m.tbl (values.map (·.1)) = .ok lv) :
    ∃ r m', cofactor u values m = (.ok r, m') ∧ Inv m' ∧ Ext m.tbl m'.tbl ∧ m'.tbl.Mem r ∧
      Frame m m' ∧
      ∀ a, den m'.tbl r a = den m.tbl u (ovr ((lv.zip (values.map (·.2))).reverse) a) := by
  have hI0 : Inv { m with ctx := true } := hI.setCtx true
  obtain ⟨r, c', m1, he, hs, _, hp⟩ := cofactorF_spec ((lv.zip (values.map (·.2))).reverse)
    (m.nvars + 2) { m with ctx := true } u (sortNat (dedup lv)) {} hI0 hoff hu
    (CofMemo.empty _ _)
    (fun j hj _ => (mem_ordvar j lv).mpr (lookup_zip_reverse_mem lv _ j hj))
    (by show m.nvars + 1 ≤ _; omega)
  have hb : cofactorBody u values { m with ctx := true } = (.ok r, m1) := by
    unfold cofactorBody
    have hmem : ({ m with ctx := true } : Mgr).mem u = true := (Mgr.mem_iff m u).mpr hu
    simp only [hlv, hmem, Bool.not_true, Bool.false_eq_true, if_false]
    have : ({ m with ctx := true } : Mgr).nvars = m.nvars := rfl
    rw [this, he]
  obtain ⟨hres, hst⟩ := decorated_ok _ m r m1 hb hs
  refine ⟨r, _, hres, hst.inv, hst.ext, hp.mr, hst.frame, ?_⟩
  intro a
  rw [hp.den a]
  exact den_ext hs.ext hI.wf.toWF u _ hu

/-! ### `quantify` -/

/-- `BDD.quantify(u, qvars, forall)`, reordering not enabled: with `lv` the levels that
`_map_to_level` computes for `qvars`, the result is the quantification of `u` over `lv` -/
theorem quantify_spec (m : Mgr) (hI : Inv m) (hoff : m.lastLen = none) (u : Int)
    (hu : m.tbl.Mem u) (qvars : List Key) (fa : Bool) (lv : List Nat)
    (hlv : mapToLevelE m.tbl qvars = .ok lv) :
    ∃ r m', quantify u qvars fa m = (.ok r, m') ∧ Inv m' ∧ Ext m.tbl m'.tbl ∧ m'.tbl.Mem r ∧
      Frame m m' ∧ m.tbl.levelOf u ≤ m'.tbl.levelOf r ∧
      ∀ a, den m'.tbl r a = true ↔ qsem fa lv (den m.tbl u) a := by
  have hI0 : Inv { m with ctx := true } := hI.setCtx true
  obtain ⟨r, c', m1, he, hs, _, hp⟩ := quantifyF_spec lv fa
    (m.nvars + 2) { m with ctx := true } u (sortNat (dedup lv)) {} hI0 hoff hu
    (QMemo.empty _ _ _)
    (fun j hj _ => (mem_ordvar j lv).mpr hj)
    (by show m.nvars + 1 ≤ _; omega)
  have hb : quantifyBody u qvars fa { m with ctx := true } = (.ok r, m1) := by
    unfold quantifyBody
    simp only [hlv]
    have : ({ m with ctx := true } : Mgr).nvars = m.nvars := rfl
    rw [this, he]
  obtain ⟨hres, hst⟩ := decorated_ok _ m r m1 hb hs
  refine ⟨r, _, hres, hst.inv, hst.ext, hp.mr, hst.frame, ?_, ?_⟩
  · have := hp.lvl
    rw [hs.ext.levelOf hu] at this
    exact this
  · intro a
    rw [hp.den a, den_ext_fun hs.ext hI.wf.toWF u hu]

end DD
