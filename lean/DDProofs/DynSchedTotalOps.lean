/-
  DDProofs.DynSchedTotalOps — the decorated operations with ARBITRARY arguments under an arbitrary
  recorded schedule, EVERY outcome accounted for (`DynTotalK`, DDProofs.DynSchedTotal): never the
  internal signal; `DynInvS`, the names, the roots and every held reference kept whatever is
  returned or raised — the model's `.sched` included; reordering enabled iff it was, unless the
  exception is `.sched`; the schedule left is a suffix of the schedule given.
  Same `*_totE` lemmas as DDProofs.DynRejectedOps / DynSchedOps.
-/
import DDProofs.DynSchedTotal
open Std

namespace DD

/-! ### ARBITRARY arguments (rejected calls), every schedule, EVERY outcome (the model's `.sched` included) -/

theorem ite_total_dynK (ext : Nat → Nat) (m : Mgr) (hD : DynInvS ext m)
    (g u v : Int) : DynTotalK ext m (ite g u v m) :=
  tryToReorder_total_dynK ext (iteRaw g u v)
    (fun m0 hI _ _ => iteRaw_totE m0 hI g u v) m hD

theorem var_total_dynK (ext : Nat → Nat) (m : Mgr) (hD : DynInvS ext m)
    (name : String) : DynTotalK ext m (var name m) := by
  rw [var_eq]
  exact tryToReorder_total_dynK ext _
    (fun m0 hI _ _ => varBody_totE m0 hI name) m hD

theorem quantify_total_dynK (ext : Nat → Nat) (m : Mgr) (hD : DynInvS ext m)
    (u : Int) (qvars : List Key) (fa : Bool) : DynTotalK ext m (quantify u qvars fa m) :=
  tryToReorder_total_dynK ext (quantifyBody u qvars fa)
    (fun m0 hI hc _ => quantifyBody_totE m0 hI hc u qvars fa) m hD

theorem cofactor_total_dynK (ext : Nat → Nat) (m : Mgr) (hD : DynInvS ext m)
    (u : Int) (values : List (Key × Bool)) : DynTotalK ext m (cofactor u values m) :=
  tryToReorder_total_dynK ext (cofactorBody u values)
    (fun m0 hI _ _ => cofactorBody_totE m0 hI u values) m hD

theorem compose_total_dynK (ext : Nat → Nat) (m : Mgr) (hD : DynInvS ext m)
    (f : Int) (varSub : List (String × Int)) : DynTotalK ext m (compose f varSub m) :=
  tryToReorder_total_dynK ext (composeBody f varSub)
    (fun m0 hI hc _ => composeBody_totE m0 hI hc f varSub) m hD

theorem rename_total_dynK (ext : Nat → Nat) (m : Mgr) (hD : DynInvS ext m)
    (u : Int) (dvars : List (String × String)) : DynTotalK ext m (rename u dvars m) :=
  tryToReorder_total_dynK ext (renameBody u dvars)
    (fun m0 hI hc _ => renameBody_totE m0 hI hc u dvars) m hD

theorem letOp_total_dynK (ext : Nat → Nat) (m : Mgr) (hD : DynInvS ext m)
    (d : LetArg) (u : Int) : DynTotalK ext m (letOp d u m) := by
  unfold letOp
  split
  · exact DynTotalK.same hD _ (by simp)
  · exact DynTotalK.same hD _ (by simp)
  · exact DynTotalK.same hD _ (by simp)
  · exact cofactor_total_dynK ext m hD _ _
  · exact compose_total_dynK ext m hD _ _
  · exact rename_total_dynK ext m hD _ _

theorem cube_total_dynK (ext : Nat → Nat) (m : Mgr) (hD : DynInvS ext m)
    (dvars : List (String × Bool)) : DynTotalK ext m (cube dvars m) := by
  rw [cube_eq]
  exact tryToReorder_total_dynK ext _
    (fun m0 hI hc _ => cubeBody_totE m0 hI hc dvars) m hD

theorem copyBdd_total_dynK (ext : Nat → Nat) (m : Mgr) (hD : DynInvS ext m)
    (src : Tbl) (u : Int) : DynTotalK ext m (copyBdd src u m) :=
  tryToReorder_total_dynK ext (copyBddBody src u)
    (fun m0 hI hc _ => copyBddBody_totE src m0 hI hc u) m hD

theorem addExpr_total_dynK (ext : Nat → Nat) (m : Mgr) (hD : DynInvS ext m)
    (s : String) : DynTotalK ext m (addExpr s m) :=
  tryToReorder_total_dynK ext (addExprToks (tokenize s))
    (fun m0 hI hc _ => addExprToks_totE (tokenize s) m0 hI hc) m hD

theorem apply_total_dynK (ext : Nat → Nat) (m : Mgr) (hD : DynInvS ext m)
    (op : String) (u : Int) (v w : Option Int) : DynTotalK ext m (apply op u v w m) := by
  have same : ∀ e : Err, e ≠ .needsReordering →
      DynTotalK ext m ((.error e, m) : Except Err Int × Mgr) :=
    fun e he => DynTotalK.same hD _ (by simpa using he)
  unfold apply
  split
  · next e heq =>
    refine same e ?_
    intro he; subst he
    unfold assertOperatorArity at heq
    repeat' split at heq
    all_goals simp at heq
  split
  · exact same _ (by simp)
  split
  · exact same _ (by simp)
  split
  · exact same _ (by simp)
  split
  · exact same _ (by simp)
  split
  · exact DynTotalK.same hD _ (by simp)
  · split
    · exact same _ (by simp)
    split
    · exact same _ (by simp)
    split
    · exact ite_total_dynK ext m hD _ _ _
    · exact same _ (fun he => by subst he; exact atomVal_noNR _ _ _ _ (by assumption))
    · exact same _ (fun he => by subst he; exact atomVal_noNR _ _ _ _ (by assumption))
    · exact same _ (fun he => by subst he; exact atomVal_noNR _ _ _ _ (by assumption))
  · split
    · exact same _ (by simp)
    split
    · split
      · next e heq => exact same e (fun he => by subst he; exact support_noNR _ _ heq)
      · exact quantify_total_dynK ext m hD _ _ _
    · exact same _ (fun he => by subst he; exact atomVal_noNR _ _ _ _ (by assumption))
    · exact same _ (fun he => by subst he; exact atomVal_noNR _ _ _ _ (by assumption))
  · exact same _ (by simp)
  · exact same _ (by simp)


/-- the documented result AND every outcome accounted for: what the any-schedule transparency
theorem (`DynOutS`) and the every-outcome theorem (`DynTotalK`) give together -/
theorem DynResultK.of {α} {ext : Nat → Nat} {Doc : Tbl → α → Tbl → Prop} {m : Mgr}
    {res : Except Err α × Mgr} (hS : DynOutS ext Doc m res) (hT : DynTotalK ext m res) :
    DynResultK ext Doc m res := by
  obtain ⟨r, m'⟩ := res
  cases r with
  | ok r => exact ⟨hS, hT.2.1.sched⟩
  | error e =>
    refine ⟨fun h => hT.1 (by rw [h]), hT.2.1, ?_⟩
    rcases hT.2.2 with h | ⟨h, h'⟩
    · exact Or.inl h
    · exact Or.inr ⟨by cases h; rfl, h'⟩

end DD
