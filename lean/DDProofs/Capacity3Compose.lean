/-
  DDProofs.Capacity3Compose — `_compose` / `_vector_compose` / `BDD.compose` / `let` with functions,
  with `max_nodes = cap`: the twins are the model; `_compose` has a three-outcome specification over
  ANY `find_or_add` / nested `ite` with one (proof of `composeF_out`, third outcome carried along);
  `_vector_compose` only calls `ite` and the node of a variable, both total on arbitrary integers;
  the decorated call keeps `DynInv` after ANY outcome.
-/
import DD.Capacity3Compose
import DDProofs.Capacity3Cofactor
import DDProofs.DynSubst
open Std

namespace DD

theorem composeFG_model (j : Nat) :
    ∀ fu f g c, composeFG findOrAdd ite j fu f g c = composeF j fu f g c := by
  intro fu
  induction fu with
  | zero => intros; rfl
  | succ fu ih =>
    intro f g c
    funext m
    unfold composeFG composeF
    simp only [ih]
    rfl

theorem subOrVarG_model : subOrVarG findOrAdd = subOrVar := rfl

theorem vectorComposeFG_model (sub : List (Nat × Int)) :
    ∀ fu f c, vectorComposeFG findOrAdd ite sub fu f c = vectorComposeF sub fu f c := by
  intro fu
  induction fu with
  | zero => intros; rfl
  | succ fu ih =>
    intro f c
    funext m
    unfold vectorComposeFG vectorComposeF
    simp only [ih, subOrVarG_model]
    rfl

theorem composeG_model : composeG findOrAdd ite = compose := by
  funext f d
  unfold composeG compose composeBodyG composeBody
  simp only [composeFG_model, vectorComposeFG_model]
  rfl

theorem letRefsG_model (d : List (String × Int)) (u : Int) :
    letRefsG compose d u = letOp (.refs d) u := by
  unfold letRefsG letOp
  cases d <;> rfl

/-- the nested `ite` is total on ARBITRARY integers inside a context -/
def IteTotX (iteX : Int → Int → Int → M Int) : Prop :=
  ∀ (m : Mgr), Inv m → m.ctx = true → ∀ g u v : Int, TotE m (iteX g u v m)

/-- the node of the variable at ANY level through `foa` -/
def VarTotX (foa : Int → Int → Int → M Int) : Prop :=
  ∀ (m : Mgr), Inv m → ∀ j : Nat, TotE m (foa (j : Int) (-1) 1 m)

theorem iteCap_totX (cap : Nat) : IteTotX (iteCap cap) :=
  fun m hI hc g u v => TotE.nested hc (iteCapRaw_totE cap m hI g u v)

theorem findOrAddCap_varTotX (cap : Nat) : VarTotX (findOrAddCap cap) := by
  intro m hI j
  rcases findOrAddCap_cases cap (j : Int) (-1) 1 m with h | ⟨f, h⟩
  · rw [h]; exact varNode_totE m hI j
  · rw [h]; exact TotE.err (StepK.setFire hI f) _ (by decide)

/-- GENERIC: `_compose` over a `find_or_add` / nested `ite` with three-outcome specifications -/
theorem composeFG_outX (E : Err → Prop) (foa iteX : Int → Int → Int → M Int)
    (hfoa : FoaX E foa) (hite : IteNestedX E iteX) (j : Nat) :
    ∀ (fu : Nat) (m : Mgr) (f g : Int) (cache : HashMap (Int × Int) Int),
    Inv m → Quiet m → m.tbl.Mem f → m.tbl.Mem g → KMemo j m.tbl cache →
    2 * m.nvars + 1 ≤ fu + m.tbl.levelOf f + m.tbl.levelOf g →
    OutcomeX2 E m (fun r c m' => KMemo j m'.tbl c ∧ KPost j m'.tbl f g r)
      (composeFG foa iteX j fu f g cache m) := by
  intro fu
  induction fu with
  | zero =>
    intro m f g cache hI _ hf hg _ hfu
    have := levelOf_le m.tbl hI.wf.toWF f
    have := levelOf_le m.tbl hI.wf.toWF g
    have : m.nvars = m.tbl.nvars := rfl
    omega
  | succ fu ih =>
    intro m f g cache hI hq hf hg hmemo hfu
    have hW := hI.wf.toWF
    have hnv : m.nvars = m.tbl.nvars := rfl
    unfold composeFG
    by_cases h1 : f.natAbs = 1
    · simp only [h1, if_true]
      exact OutcomeX2.ok (StepK.refl hI) ⟨hmemo, hf, hg, hf, Nat.min_le_left _ _,
        fun a => den_term_any _ f h1 _ _⟩
    · simp only [h1, if_false]
      cases hc : cache[(f, g)]? with
      | some r => exact OutcomeX2.ok (StepK.refl hI) ⟨hmemo, hmemo f g r hc⟩
      | none =>
        simp only
        obtain ⟨n, hn⟩ := mem_node hf h1
        have hn' : m.tbl.succ[f.natAbs]? = some n := hn
        rw [hn']
        simp only [node_succ_ne_zero hW hn, if_false]
        have hlf := levelOf_node m.tbl f n h1 hn
        have hlo := hW.lo_lt _ _ hn
        have hhi := hW.hi_lt _ _ hn
        have hlom := hW.lo_mem _ _ hn
        have hhim := hW.hi_mem _ _ hn
        have hltn := hW.lvl_lt _ _ hn
        by_cases hjlt : j < n.lvl
        · simp only [hjlt, if_true]
          refine OutcomeX2.ok (StepK.refl hI) ⟨hmemo, hf, hg, hf, Nat.min_le_left _ _, ?_⟩
          intro a
          exact (den_indep' m.tbl hW f hf j _ a (by omega)).symm
        · simp only [hjlt, if_false]
          by_cases hjeq : n.lvl = j
          · simp only [hjeq, if_true]
            rcases (hite m hI hq g n.hi n.lo hg hhim hlom).cases2 with
              ⟨r0, m1, he1, hs1, hp1⟩ | ⟨e1, m1, he1, hs1, ha1, hx1⟩
            rotate_left
            · rw [he1]; exact OutcomeX2.fail0 hs1 ha1 hx1
            rw [he1]
            simp only
            have hW1 := hp1.inv.wf.toWF
            have hn1 : m1.tbl.node? f.natAbs = some n := hs1.ext.nodes _ _ hn
            have hent : KPost j m1.tbl f g (if f < 0 then -r0 else r0) := by
              refine ⟨hs1.ext.mem hf, hs1.ext.mem hg, mem_flip f hp1.mem, ?_, ?_⟩
              · rw [levelOf_flip, hs1.ext.levelOf hf, hs1.ext.levelOf hg, hlf]
                have := hp1.lvl
                omega
              · intro a
                rw [den_flip m1.tbl hW1 r0 f a hp1.mem, hp1.den a,
                  den_node m1.tbl hW1 f n _ h1 hn1, hjeq, upd_same,
                  den_ext hs1.ext hW g a hg, den_ext hs1.ext hW n.hi _ hhim,
                  den_ext hs1.ext hW n.lo _ hlom,
                  den_indep' m.tbl hW n.hi hhim j _ a (by omega),
                  den_indep' m.tbl hW n.lo hlom j _ a (by omega)]
            exact OutcomeX2.ok hs1 ⟨(hmemo.ext hW hs1.ext).insert hent, hent⟩
          · simp only [hjeq, if_false]
            have hnj : n.lvl < j := by omega
            rw [Tbl.levelOf?_eq _ _ hg]
            simp only
            generalize hz : min n.lvl (m.tbl.levelOf g) = z
            have hzf : z ≤ m.tbl.levelOf f := by omega
            have hzg : z ≤ m.tbl.levelOf g := by omega
            have hzn : z < m.tbl.nvars := by omega
            obtain ⟨f0, f1, hcf, mf0, mf1, lf0, lf1, df⟩ := topCofactor_spec m.tbl hW f hf z hzf hzn
            obtain ⟨g0, g1, hcg, mg0, mg1, lg0, lg1, dg⟩ := topCofactor_spec m.tbl hW g hg z hzg hzn
            obtain ⟨lf0', lf1'⟩ := topCofactor_lvl m.tbl hW f z f0 f1 hcf
            obtain ⟨lg0', lg1'⟩ := topCofactor_lvl m.tbl hW g z g0 g1 hcg
            rw [hcf, hcg]
            simp only
            rcases (ih m f0 g0 cache hI hq mf0 mg0 hmemo (by omega)).cases with
              ⟨p, c1, m1, he1, hs1, hm1, hp1⟩ | ⟨e1, m1, he1, hs1, ha1, hx1⟩
            rotate_left
            · rw [he1]; exact OutcomeX2.fail0 hs1 ha1 hx1
            rw [he1]
            simp only
            have hW1 := hs1.inv.wf.toWF
            rcases (ih m1 f1 g1 c1 hs1.inv (hq.step hs1)
              (hs1.ext.mem mf1) (hs1.ext.mem mg1) hm1
              (by rw [hs1.nvars, hs1.ext.levelOf mf1, hs1.ext.levelOf mg1]; omega)).cases with
              ⟨q, c2, m2, he2, hs2, hm2, hp2⟩ | ⟨e2, m2, he2, hs2, ha2, hx2⟩
            rotate_left
            · rw [he2]; exact OutcomeX2.fail hs1 hs2 ha2 hx2
            rw [he2]
            simp only
            have hW2 := hs2.inv.wf.toWF
            have hs12 := hs1.trans hs2
            have hp1_2 := hp1.ext hW1 hs2.ext
            have hlp : z < m2.tbl.levelOf p := by
              have := hp1_2.lvl
              rw [hs12.ext.levelOf mf0, hs12.ext.levelOf mg0] at this
              omega
            have hlq : z < m2.tbl.levelOf q := by
              have := hp2.lvl
              rw [hs12.ext.levelOf mf1, hs12.ext.levelOf mg1] at this
              omega
            rcases (hfoa m2 z p q hs2.inv
              (by rw [hs12.nvars]; exact hzn) hp1_2.mr hp2.mr hlp hlq).cases2 with
              ⟨r, m3, he3, hk3, hp3⟩ | ⟨e3, m3, he3, hk3, ha3, hx3⟩
            rotate_left
            · rw [he3]; exact OutcomeX2.fail hs12 hk3 ha3 hx3
            rw [he3]
            simp only
            have hs3 := hs12.trans hk3
            have hW3 := hp3.inv.wf.toWF
            have hp1_3 := hp1_2.ext hW2 hp3.ext
            have hp2_3 := hp2.ext hW2 hp3.ext
            have hzj : z ≠ j := by omega
            have hent : KPost j m3.tbl f g r := by
              refine ⟨hs3.ext.mem hf, hs3.ext.mem hg, hp3.mem, ?_, ?_⟩
              · rw [hs3.ext.levelOf hf, hs3.ext.levelOf hg]
                have := hp3.lvl
                omega
              · intro a
                rw [hp3.den a, ← den_ext hp3.ext hW2 q a hp2.mr,
                  ← den_ext hp3.ext hW2 p a hp1_2.mr, hp1_3.den a, hp2_3.den a,
                  den_ext hs3.ext hW f _ hf, den_ext hs3.ext hW g a hg,
                  den_ext hs3.ext hW f1 _ mf1, den_ext hs3.ext hW g1 a mg1,
                  den_ext hs3.ext hW f0 _ mf0, den_ext hs3.ext hW g0 a mg0,
                  df, dg a, upd_other _ _ _ _ hzj]
                cases a z <;> simp
            exact OutcomeX2.ok hs3 ⟨(hm2.ext hW2 hp3.ext).insert hent, hent⟩

theorem subOrVarG_totE (foa : Int → Int → Int → M Int) (hvar : VarTotX foa) (sub : List (Nat × Int))
    (i : Nat) (m : Mgr) (hI : Inv m) : TotE m (subOrVarG foa sub i m) := by
  unfold subOrVarG
  split
  · exact TotE.same hI _ (by simp)
  · exact hvar m hI i

/-- `_vector_compose` for ANY node, ANY substitution, any memo -/
theorem vectorComposeFG_totE (foa iteX : Int → Int → Int → M Int) (hvar : VarTotX foa)
    (hiteT : IteTotX iteX) (sub : List (Nat × Int)) :
    ∀ (fu : Nat) (f : Int) (cache : HashMap Nat Int) (m : Mgr), Inv m → m.ctx = true →
    TotE m (vectorComposeFG foa iteX sub fu f cache m) := by
  intro fu
  induction fu with
  | zero => intro f cache m hI _; exact TotE.same hI _ (by simp)
  | succ fu ih =>
    intro f cache m hI hc
    unfold vectorComposeFG
    split
    · exact TotE.same hI _ (by simp)
    split
    · split <;> exact TotE.same hI _ (by simp)
    split
    · exact TotE.same hI _ (by simp)
    split
    · exact TotE.same hI _ (by simp)
    split
    · next heq => exact (ih _ _ m hI hc).err_of heq
    next heq =>
    have s1 : StepK m _ := (ih _ _ m hI hc).step_of heq
    have c1 := hc; rw [← s1.frame.ctx] at c1
    split
    · next heq => exact ((ih _ _ _ s1.inv c1).err_of heq).trans s1
    next heq =>
    have s2 : StepK m _ := s1.trans ((ih _ _ _ s1.inv c1).step_of heq)
    have c2 := hc; rw [← s2.frame.ctx] at c2
    split
    · next heq => exact ((subOrVarG_totE foa hvar _ _ _ s2.inv).err_of heq).trans s2
    next heq =>
    have s3 : StepK m _ := s2.trans ((subOrVarG_totE foa hvar _ _ _ s2.inv).step_of heq)
    have c3 := hc; rw [← s3.frame.ctx] at c3
    split
    · next heq => exact ((hiteT _ s3.inv c3 _ _ _).err_of heq).trans s3
    next heq =>
    exact TotE.ok (s3.trans ((hiteT _ s3.inv c3 _ _ _).step_of heq)) _

theorem composeFG_top_totE (foa iteX : Int → Int → Int → M Int) (hiteT : IteTotX iteX)
    (j : Nat) (fu : Nat) (f g : Int) (m : Mgr) (hI : Inv m)
    (hc : m.ctx = true) (hg : ¬ m.tbl.Mem g) : TotE m (composeFG foa iteX j (fu + 1) f g {} m) := by
  unfold composeFG
  split
  · exact TotE.same hI _ (by simp)
  split
  · exact TotE.same hI _ (by simp)
  split
  · exact TotE.same hI _ (by simp)
  split
  · exact TotE.same hI _ (by simp)
  split
  · exact TotE.same hI _ (by simp)
  split
  · split
    · next heq => exact (hiteT m hI hc _ _ _).err_of heq
    · next heq => exact TotE.ok ((hiteT m hI hc _ _ _).step_of heq) _
  · rw [levelOf?_none_of_not_mem _ _ hg]
    exact TotE.same hI _ (by simp)

/-- the body of `compose` for ANY node and ANY dictionary -/
theorem composeBodyG_totE (E : Err → Prop) (foa iteX : Int → Int → Int → M Int)
    (hfoa : FoaX E foa) (hite : IteNestedX E iteX) (hvar : VarTotX foa) (hiteT : IteTotX iteX)
    (m : Mgr) (hI : Inv m) (hc : m.ctx = true) (f : Int)
    (varSub : List (String × Int)) : TotE m (composeBodyG foa iteX f varSub m) := by
  unfold composeBodyG
  split
  · next v g =>
    cases hlv : levelOfVarE m.tbl v with
    | error e =>
      exact TotE.same hI _ (by
        intro h; cases h
        exact levelOfVarE_noNR _ _ hlv)
    | ok j =>
      simp only
      have ht : TotE m (composeFG foa iteX j (2 * m.nvars + 4) f g {} m) := by
        by_cases hf : m.tbl.Mem f
        · by_cases hg : m.tbl.Mem g
          · exact (OutcomeX.toE (composeFG_outX E foa iteX hfoa hite j (2 * m.nvars + 4) m f g {} hI
              (Or.inl hc) hf hg (KMemo.empty _ _) (by omega))).tot
          · exact composeFG_top_totE foa iteX hiteT j (2 * m.nvars + 3) f g m hI hc hg
        · obtain ⟨h1, h2⟩ := not_mem_cases hf
          have : composeFG foa iteX j (2 * m.nvars + 4) f g {} m = (.error .key, m) := by
            show composeFG foa iteX j ((2 * m.nvars + 3) + 1) f g {} m = _
            unfold composeFG
            simp only [h1, if_false, hashMap_empty_get, h2]
          rw [this]
          exact TotE.same hI _ (by simp)
      split
      · next heq => exact ht.err_of heq
      · next heq => exact TotE.ok (ht.step_of heq) _
  · cases hsub : mapME (subLevelE m.tbl) varSub with
    | error e =>
      exact TotE.same hI _ (by
        intro h; cases h
        exact mapME_noNR _ (subLevelE_noNR _) _ hsub)
    | ok sub =>
      simp only
      have ht := vectorComposeFG_totE foa iteX hvar hiteT sub (m.nvars + 2) f {} m hI hc
      split
      · next heq => exact ht.err_of heq
      · next heq => exact TotE.ok (ht.step_of heq) _

/-- `BDD.compose` with capacity: ANY node, ANY dictionary, whatever it returns or raises -/
theorem composeCap_total_dyn (cap : Nat) (ext : Nat → Nat) (m : Mgr) (hD : DynInv ext m)
    (f : Int) (varSub : List (String × Int)) : DynTotal ext m (composeCap cap f varSub m) :=
  tryToReorder_total_dyn ext (siftContract ext) _
    (fun m0 hI hc _ => composeBodyG_totE _ _ _ (findOrAddCap_foaX cap) (iteCap_nestedX cap)
      (findOrAddCap_varTotX cap) (iteCap_totX cap) m0 hI hc f varSub) m hD

theorem letRefsCap_total_dyn (cap : Nat) (ext : Nat → Nat) (m : Mgr) (hD : DynInv ext m)
    (d : List (String × Int)) (u : Int) : DynTotal ext m (letRefsG (composeCap cap) d u m) := by
  unfold letRefsG
  split
  · exact DynTotal.same hD _ (by simp [pure, M.pure'])
  · exact composeCap_total_dyn cap ext m hD u _

end DD
