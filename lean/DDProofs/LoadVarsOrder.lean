/-
  DDProofs.LoadVarsOrder — the first loop of `_load_pickle` and the order tables.

  `levels=False`: every `add_var(var)` appends at the bottom, so `OrderOK` is kept after every
  step, whatever the content and whatever the outcome.

  `levels=True`: `add_var(var, i)` puts the variable at the level of the file; between two steps
  the levels may have a gap (F7).  After the pre-check (`levelsCompatible`: every pair of the file
  agrees with the manager) and for a file whose pairs are a bijection onto `0..n-1` (`VarsWF`:
  distinct names — it is a dict —, distinct levels, all below `n`), the loop cannot fail and
  ends with the union of `0..k-1` and `0..n-1` filled: `OrderOK` again.
-/
import DDProofs.DumpProofs
open Std
namespace DD

/-! ### counting -/

theorem nodup_lt_length_le : ∀ (n : Nat) (l : List Nat), l.Nodup → (∀ x ∈ l, x < n) → l.length ≤ n := by
  intro n
  induction n with
  | zero =>
    intro l _ h
    cases l with
    | nil => simp
    | cons a l => have := h a List.mem_cons_self; omega
  | succ n ih =>
    intro l hn h
    have hn' : (l.erase n).Nodup := hn.erase n
    have h' : ∀ x ∈ l.erase n, x < n := by
      intro x hx
      obtain ⟨h1, h2⟩ := hn.mem_erase_iff.mp hx
      have := h x h2
      omega
    have := ih _ hn' h'
    by_cases hm : n ∈ l
    · rw [List.length_erase_of_mem hm] at this
      omega
    · rw [List.erase_of_not_mem hm] at this
      omega

theorem nodup_lt_covers : ∀ (n : Nat) (l : List Nat), l.Nodup → (∀ x ∈ l, x < n) → l.length = n →
    ∀ i, i < n → i ∈ l := by
  intro n
  induction n with
  | zero => intro l _ _ _ i hi; omega
  | succ n ih =>
    intro l hn h hl i hi
    have hm : n ∈ l := by
      apply Classical.byContradiction
      intro hm
      have : l.length ≤ n := nodup_lt_length_le n l hn (fun x hx => by
        have := h x hx
        have : x ≠ n := fun he => hm (he ▸ hx)
        omega)
      omega
    by_cases hin : i = n
    · subst hin; exact hm
    have hn' : (l.erase n).Nodup := hn.erase n
    have h' : ∀ x ∈ l.erase n, x < n := by
      intro x hx
      obtain ⟨h1, h2⟩ := hn.mem_erase_iff.mp hx
      have := h x h2
      omega
    have hl' : (l.erase n).length = n := by rw [List.length_erase_of_mem hm]; omega
    exact List.mem_of_mem_erase (ih _ hn' h' hl' i (by omega))

theorem length_of_mem_iff_lt (n : Nat) (l : List Nat) (hn : l.Nodup) (h : ∀ x, x ∈ l ↔ x < n) :
    l.length = n := by
  have hp : l.Perm (List.range n) :=
    (List.perm_ext_iff_of_nodup hn List.nodup_range).mpr (fun a => by rw [h a, List.mem_range])
  rw [hp.length_eq, List.length_range]

theorem natKeys_nodup {β : Type} (t : TreeMap Nat β) : t.keys.Nodup := by
  have := t.distinct_keys
  exact this.imp (fun {a b} h he => h (by subst he; exact Std.ReflCmp.compare_self))

/-- the level table has exactly the levels below `M` -/
theorem l2v_size_of_cover (t : Tbl) (M : Nat) (h1 : ∀ i v, t.l2v[i]? = some v → i < M)
    (h2 : ∀ i, i < M → (t.l2v[i]?).isSome) : t.l2v.size = M := by
  rw [← TreeMap.length_keys]
  apply length_of_mem_iff_lt M _ (natKeys_nodup _)
  intro x
  rw [TreeMap.mem_keys, TreeMap.mem_iff_isSome_getElem?]
  constructor
  · intro h
    obtain ⟨v, hv⟩ := Option.isSome_iff_exists.mp h
    exact h1 x v hv
  · exact h2 x

theorem OrderOK.sizes {t : Tbl} (h : OrderOK t) : t.vars.size = t.l2v.size := by
  have := l2v_size_of_cover t t.nvars
    (fun i v hv => h.lt v i ((h.inv v i).mpr hv))
    (fun i hi => by obtain ⟨v, hv⟩ := h.total i hi; simp [hv])
  rw [this]; rfl

/-- consistent tables whose levels are exactly `0..M-1` -/
theorem orderOK_of_cover (t : Tbl) (M : Nat) (hb : DmpVarsBij t) (hs : t.vars.size = t.l2v.size)
    (h1 : ∀ i v, t.l2v[i]? = some v → i < M) (h2 : ∀ i, i < M → (t.l2v[i]?).isSome) : OrderOK t := by
  have hM : t.nvars = M := by
    show t.vars.size = M
    rw [hs]; exact l2v_size_of_cover t M h1 h2
  refine ⟨hb, ?_, ?_⟩
  · intro v i hv
    rw [hM]; exact h1 i v ((hb v i).mp hv)
  · intro i hi
    rw [hM] at hi
    exact Option.isSome_iff_exists.mp (h2 i hi)

/-! ### `add_var` -/

/-- a refused `add_var` changes nothing -/
theorem addVar_err_same (m m' : Mgr) (var : String) (lvl : Option Int) (e : Err)
    (h : addVar var lvl m = (.error e, m')) : m' = m := by
  unfold addVar at h
  simp only [bind, M.bind', M.get, pure] at h
  cases hv : m.tbl.vars[var]? with
  | some vl =>
    simp only [hv] at h
    cases lvl with
    | none => simp [M.pure'] at h
    | some l =>
      by_cases hl : l = (vl : Int)
      · simp [M.pure', hl] at h
      · simp [M.throw, hl] at h
        exact h.2.symm
  | none =>
    simp only [hv] at h
    by_cases hneg : lvl.getD (m.nvars : Int) < 0
    · simp [hneg, M.bind', M.throw] at h
      exact h.2.symm
    · simp only [hneg, if_false] at h
      cases hl : m.tbl.l2v[(lvl.getD (m.nvars : Int)).toNat]? with
      | some x =>
        simp [hl, M.throw] at h
        exact h.2.symm
      | none => simp [hl, M.bind', M.set, M.pure'] at h

/-- `add_var(var)` (next free level): the order tables stay a bijection onto `0..n-1`, whatever
the outcome -/
theorem addVar_none_orderOK (m : Mgr) (hI : Inv m) (hO : OrderOK m.tbl) (var : String) :
    OrderOK (addVar var none m).2.tbl := by
  cases hex : m.tbl.vars[var]? with
  | some i => rw [(addVar_existing m var i hex).1]; exact hO
  | none =>
    rw [addVar_new m var hex hO.l2v_none]
    exact (addVar_new_spec m hI hO var hex _ rfl).2.1

/-- the first loop of `_load_pickle` with `levels=False`: ANY list of pairs, any outcome -/
theorem loadVars_false_orderOK (n : Nat) :
    ∀ (vs : List (String × Nat)) (lm : List (Nat × Nat)) (m : Mgr), Inv m → OrderOK m.tbl →
      OrderOK (loadVars false n vs lm m).2.tbl := by
  intro vs
  induction vs with
  | nil => intro lm m _ hO; exact hO
  | cons x rest ih =>
    intro lm m hI hO
    obtain ⟨var, i⟩ := x
    simp only [loadVars]
    split
    · exact hO
    · have k1 := addVar_none_orderOK m hI hO var
      simp only [Bool.false_eq_true, if_false]
      cases h1 : addVar var none m with
      | mk r1 m1 =>
        rw [h1] at k1
        cases r1 with
        | error e => exact k1
        | ok j => exact ih _ m1 (addVar_inv hI h1) k1

/-! ### `levels=True` -/

/-- the pairs of a pickle's `vars` form a bijection onto `0..n-1` -/
structure VarsWF (vs : List (String × Nat)) : Prop where
  names : (vs.map (·.1)).Nodup
  levels : (vs.map (·.2)).Nodup
  bound : ∀ var i, (var, i) ∈ vs → i < vs.length

theorem VarsWF.covers {vs : List (String × Nat)} (h : VarsWF vs) (i : Nat) (hi : i < vs.length) :
    ∃ v, (v, i) ∈ vs := by
  have := nodup_lt_covers vs.length (vs.map (·.2)) h.levels
    (fun x hx => by
      obtain ⟨⟨v, l⟩, hm, rfl⟩ := List.mem_map.mp hx
      exact h.bound v l hm)
    (by simp) i hi
  obtain ⟨⟨v, l⟩, hm, rfl⟩ := List.mem_map.mp this
  exact ⟨v, hm⟩

/-- the pre-check of the file's own levels, and distinct names (`vars` is a dict), give `VarsWF` -/
theorem VarsWF.of_perm {vs : List (String × Nat)} (hn : (vs.map (·.1)).Nodup)
    (hp : levelsPermutation vs = true) : VarsWF vs := by
  have hperm := (levelsPermutation_iff vs).mp hp
  refine ⟨hn, hperm.nodup_iff.mpr List.nodup_range, ?_⟩
  intro var i hm
  have : i ∈ vs.map (·.2) := List.mem_map.mpr ⟨(var, i), hm, rfl⟩
  exact List.mem_range.mp (hperm.mem_iff.mp this)

theorem VarsWF.perm {vs : List (String × Nat)} (h : VarsWF vs) : levelsPermutation vs = true := by
  rw [levelsPermutation_iff]
  apply (List.perm_ext_iff_of_nodup h.levels List.nodup_range).mpr
  intro l
  rw [List.mem_range]
  constructor
  · intro hl
    obtain ⟨⟨v, l'⟩, hm, rfl⟩ := List.mem_map.mp hl
    exact h.bound v l' hm
  · intro hl
    obtain ⟨v, hv⟩ := h.covers l hl
    exact List.mem_map.mpr ⟨(v, l), hv, rfl⟩

/-- the tables while the file's variables are being declared at the file's levels: consistent,
every level is an old one (`< k`) or a level of the file, the old levels are all there -/
structure LVInv (k : Nat) (F : List (String × Nat)) (t : Tbl) : Prop where
  bij : DmpVarsBij t
  sz : t.vars.size = t.l2v.size
  lvl : ∀ i v, t.l2v[i]? = some v → i < k ∨ ∃ v', (v', i) ∈ F
  low : ∀ i, i < k → (t.l2v[i]?).isSome

theorem LVInv.init {t : Tbl} (h : OrderOK t) (F : List (String × Nat)) : LVInv t.nvars F t :=
  ⟨h.inv, h.sizes, fun i v hv => Or.inl (h.lt v i ((h.inv v i).mpr hv)),
    fun i hi => by obtain ⟨v, hv⟩ := h.total i hi; simp [hv]⟩

/-- what the pre-check gives for the pairs still to be declared -/
def CompatS (t : Tbl) (vs : List (String × Nat)) : Prop :=
  ∀ var i, (var, i) ∈ vs → (∀ j, t.vars[var]? = some j → j = i) ∧ (t.vars[var]? = none → t.l2v[i]? = none)

theorem compatS_of_levelsCompatible {t : Tbl} (hb : DmpVarsBij t) {vs : List (String × Nat)}
    (h : levelsCompatible t vs = true) : CompatS t vs := by
  intro var i hm
  obtain ⟨h1, h2⟩ := (levelsCompatible_iff t vs).mp h var i hm
  refine ⟨h1, fun hn => ?_⟩
  cases hl : t.l2v[i]? with
  | none => rfl
  | some v' =>
    have := h2 hn v' hl
    subst this
    rw [(hb v' i).mpr hl] at hn
    cases hn

/-- one step: `add_var(var, i)` for a compatible pair -/
theorem addVar_some_step (m : Mgr) (var : String) (i : Nat)
    (h1 : ∀ j, m.tbl.vars[var]? = some j → j = i) (h2 : m.tbl.vars[var]? = none → m.tbl.l2v[i]? = none) :
    addVar var (some (i : Int)) m = (.ok i, m) ∧ m.tbl.vars[var]? = some i ∨
    (m.tbl.vars[var]? = none ∧ m.tbl.l2v[i]? = none ∧
      addVar var (some (i : Int)) m = (.ok i, { m with tbl := { m.tbl with
        vars := m.tbl.vars.insert var i, l2v := m.tbl.l2v.insert i var } })) := by
  cases hv : m.tbl.vars[var]? with
  | some j =>
    have := h1 j hv
    subst this
    exact Or.inl ⟨(addVar_existing m var j hv).2, rfl⟩
  | none =>
    refine Or.inr ⟨rfl, h2 hv, ?_⟩
    unfold addVar
    have h0 : ¬ ((i : Int) < 0) := by omega
    simp [bind, M.bind', M.get, hv, h0, h2 hv, M.set, pure, M.pure']

theorem loadVars_true_ok (n k : Nat) (F : List (String × Nat)) :
    ∀ (vs : List (String × Nat)) (lm : List (Nat × Nat)) (m : Mgr),
      (vs.map (·.1)).Nodup → (vs.map (·.2)).Nodup → (∀ var i, (var, i) ∈ vs → i < n) →
      (∀ var i, (var, i) ∈ vs → (var, i) ∈ F) → LVInv k F m.tbl → CompatS m.tbl vs →
      ∃ lm' m', loadVars true n vs lm m = (.ok lm', m') ∧ LVInv k F m'.tbl ∧
        (∀ var i, (var, i) ∈ vs → m'.tbl.vars[var]? = some i) ∧
        (∀ (v : String) (l : Nat), m.tbl.vars[v]? = some l → m'.tbl.vars[v]? = some l) := by
  intro vs
  induction vs with
  | nil => intro lm m _ _ _ _ hL _; exact ⟨lm, m, rfl, hL, by simp, fun _ _ h => h⟩
  | cons x rest ih =>
    intro lm m hn1 hn2 hb hF hL hC
    obtain ⟨var, i⟩ := x
    have hi : i < n := hb var i List.mem_cons_self
    obtain ⟨c1, c2⟩ := hC var i List.mem_cons_self
    simp only [List.map_cons, List.nodup_cons, List.mem_map, not_exists, not_and] at hn1 hn2
    have hrestC : ∀ (m1 : Mgr), (∀ v, v ≠ var → m1.tbl.vars[v]? = m.tbl.vars[v]?) →
        (∀ l, l ≠ i → m1.tbl.l2v[l]? = m.tbl.l2v[l]?) → CompatS m1.tbl rest := by
      intro m1 hv hl v l hm
      have hvne : v ≠ var := fun he => hn1.1 (v, l) hm he
      have hlne : l ≠ i := fun he => hn2.1 (v, l) hm he
      obtain ⟨a1, a2⟩ := hC v l (List.mem_cons_of_mem _ hm)
      rw [hv v hvne, hl l hlne]
      exact ⟨a1, a2⟩
    rw [loadVars]
    simp only [hi, not_true_eq_false, if_false, if_true]
    rcases addVar_some_step m var i c1 c2 with ⟨hav, hv⟩ | ⟨hv, hl, hav⟩
    · rw [hav]
      obtain ⟨lm', m', e1, L1, N1, M1⟩ := ih ((i, i) :: lm) m hn1.2 hn2.2
        (fun v l h => hb v l (List.mem_cons_of_mem _ h)) (fun v l h => hF v l (List.mem_cons_of_mem _ h))
        hL (hrestC m (fun _ _ => rfl) (fun _ _ => rfl))
      refine ⟨lm', m', e1, L1, ?_, M1⟩
      intro v l hm
      rcases List.mem_cons.mp hm with heq | hm'
      · simp only [Prod.mk.injEq] at heq
        obtain ⟨rfl, rfl⟩ := heq
        exact M1 _ _ hv
      · exact N1 v l hm'
    · rw [hav]
      let m1 : Mgr := { m with tbl := { m.tbl with
        vars := m.tbl.vars.insert var i, l2v := m.tbl.l2v.insert i var } }
      have hvars : ∀ v, m1.tbl.vars[v]? = if var = v then some i else m.tbl.vars[v]? := by
        intro v
        show (m.tbl.vars.insert var i)[v]? = _
        rw [TreeMap.getElem?_insert]
        by_cases h : var = v <;> simp [h]
      have hl2v : ∀ l, m1.tbl.l2v[l]? = if i = l then some var else m.tbl.l2v[l]? := by
        intro l
        show (m.tbl.l2v.insert i var)[l]? = _
        rw [TreeMap.getElem?_insert]
        by_cases h : i = l <;> simp [h]
      have L1 : LVInv k F m1.tbl := by
        refine ⟨?_, ?_, ?_, ?_⟩
        · intro v l
          rw [hvars, hl2v]
          by_cases h1 : var = v <;> by_cases h2 : i = l
          · subst h1 h2; simp
          · subst h1
            have : m.tbl.l2v[l]? ≠ some var := by
              intro h'; rw [← hL.bij] at h'; rw [hv] at h'; cases h'
            simp [h2, this]
          · subst h2
            have : m.tbl.vars[v]? ≠ some i := by
              intro h'; rw [hL.bij] at h'; rw [hl] at h'; cases h'
            simp [h1, this]
          · simp [h1, h2, hL.bij v l]
        · show (m.tbl.vars.insert var i).size = (m.tbl.l2v.insert i var).size
          rw [TreeMap.size_insert, TreeMap.size_insert]
          have a : m.tbl.vars.contains var = false := by
            rw [TreeMap.contains_eq_isSome_getElem?, hv]; rfl
          have b : m.tbl.l2v.contains i = false := by
            rw [TreeMap.contains_eq_isSome_getElem?, hl]; rfl
          simp [a, b, hL.sz]
        · intro l v hlv
          rw [hl2v] at hlv
          by_cases h2 : i = l
          · subst h2; exact Or.inr ⟨var, hF var i List.mem_cons_self⟩
          · simp only [h2, if_false] at hlv; exact hL.lvl l v hlv
        · intro l hlk
          rw [hl2v]
          by_cases h2 : i = l
          · simp [h2]
          · simp only [h2, if_false]; exact hL.low l hlk
      obtain ⟨lm', m', e1, L2, N1, M1⟩ := ih ((i, i) :: lm) m1 hn1.2 hn2.2
        (fun v l h => hb v l (List.mem_cons_of_mem _ h)) (fun v l h => hF v l (List.mem_cons_of_mem _ h))
        L1 (hrestC m1 (fun v hne => by rw [hvars]; simp [Ne.symm hne])
          (fun l hne => by rw [hl2v]; simp [Ne.symm hne]))
      refine ⟨lm', m', e1, L2, ?_, ?_⟩
      · intro v l hm
        rcases List.mem_cons.mp hm with heq | hm'
        · simp only [Prod.mk.injEq] at heq
          obtain ⟨rfl, rfl⟩ := heq
          exact M1 _ _ (by rw [hvars]; simp)
        · exact N1 v l hm'
      · intro v l hvl
        apply M1
        rw [hvars]
        by_cases h1 : var = v
        · subst h1; rw [hv] at hvl; cases hvl
        · simp [h1, hvl]

/-- `levels=True` (the default of `BDD.load`) into a manager whose order is a bijection and that
passes the pre-check — a fresh manager, or one that has some of the file's variables at the
file's levels and nothing else in the way: the declaration loop cannot fail and ends with the
order a bijection onto `0..max(k, n)-1` again, every pair of the file in place -/
theorem loadVars_true_total (F : List (String × Nat)) (hF : VarsWF F) (m : Mgr) (hO : OrderOK m.tbl)
    (hc : levelsCompatible m.tbl F = true) :
    ∃ lm m1, loadVars true F.length F [] m = (.ok lm, m1) ∧ OrderOK m1.tbl ∧
      (∀ var i, (var, i) ∈ F → m1.tbl.vars[var]? = some i) ∧
      (∀ (v : String) (l : Nat), m.tbl.vars[v]? = some l → m1.tbl.vars[v]? = some l) := by
  obtain ⟨lm, m1, e1, L1, N1, M1⟩ := loadVars_true_ok F.length m.tbl.nvars F F [] m hF.names hF.levels
    hF.bound (fun _ _ h => h) (LVInv.init hO F) (compatS_of_levelsCompatible hO.inv hc)
  refine ⟨lm, m1, e1, ?_, N1, M1⟩
  apply orderOK_of_cover m1.tbl (max m.tbl.nvars F.length) L1.bij L1.sz
  · intro i v hv
    rcases L1.lvl i v hv with h | ⟨v', hv'⟩
    · omega
    · have := hF.bound v' i hv'; omega
  · intro i hi
    by_cases hk : i < m.tbl.nvars
    · exact L1.low i hk
    · obtain ⟨v, hv⟩ := hF.covers i (by omega)
      rw [(L1.bij v i).mp (N1 v i hv)]; rfl

/-- a fresh manager passes the pre-check -/
theorem levelsCompatible_fresh (vs : List (String × Nat)) : levelsCompatible ({} : Mgr).tbl vs = true := by
  rw [levelsCompatible_iff]
  intro var i _
  refine ⟨fun j hj => ?_, fun _ v' hv' => ?_⟩
  · have : ({} : Mgr).tbl.vars[var]? = none := by show ({} : TreeMap String Nat)[var]? = none; simp
    rw [this] at hj; cases hj
  · have : ({} : Mgr).tbl.l2v[i]? = none := by show ({} : TreeMap Nat String)[i]? = none; simp
    rw [this] at hv'; cases hv'

end DD
