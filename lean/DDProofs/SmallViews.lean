/-
  DDProofs.SmallViews — `len(bdd)`, `len(u)` (`Function.__len__` / `dag_size`) and the exact
  shape of the graph behind `_to_dot` (C18).
-/
import DDProofs.SatProofs
import DDProofs.GcSpec
import DD.Auto
import DDProofs.OrderAbs
open Std

namespace DD

/-- the references `u > 0` of a manager, in ascending order: the terminal, then the keys of
`_succ` -/
def Tbl.nodeList (t : Tbl) : List Nat := 1 :: t.succ.keys

theorem Tbl.mem_nodeList (t : Tbl) (u : Nat) : u ∈ t.nodeList ↔ t.Mem (u : Int) := by
  unfold Tbl.nodeList Tbl.Mem
  rw [List.mem_cons, TreeMap.mem_keys, TreeMap.mem_iff_isSome_getElem?]
  simp [Tbl.node?]

theorem Tbl.nodeList_sorted (t : Tbl) (hw : WF t) : t.nodeList.Pairwise (· < ·) := by
  unfold Tbl.nodeList
  rw [List.pairwise_cons]
  constructor
  · intro k hk
    rw [TreeMap.mem_keys, TreeMap.mem_iff_isSome_getElem?] at hk
    obtain ⟨n, hn⟩ := Option.isSome_iff_exists.mp hk
    have := hw.ge_two k n (by simpa [Tbl.node?] using hn)
    omega
  · exact (TreeMap.ordered_keys (t := t.succ)).imp (fun h => Nat.compare_eq_lt.mp h)

theorem Tbl.nodeList_length (t : Tbl) : t.nodeList.length = t.succ.size + 1 := by
  unfold Tbl.nodeList
  rw [List.length_cons, TreeMap.length_keys]

/-- `len(bdd)` counts exactly the references `u > 0` of the manager (terminal included) -/
theorem len_eq_card (m : Mgr) (hw : WF m.tbl) :
    ∃ l : List Nat, l.Pairwise (· < ·) ∧ (∀ u : Nat, u ∈ l ↔ m.tbl.Mem (u : Int)) ∧ m.len = l.length :=
  ⟨m.tbl.nodeList, m.tbl.nodeList_sorted hw, m.tbl.mem_nodeList, (m.tbl.nodeList_length).symm⟩

/-- after a full collection `len(bdd)` is the number of nodes reachable from the nodes the user
holds (terminal included) -/
theorem len_after_gc (m : Mgr) (ext : Nat → Nat) (hi : Inv m) (hr : RefExact m ext) :
    ∃ (m' : Mgr) (l : List Nat), collectGarbage none m = (.ok (), m') ∧ l.Pairwise (· < ·) ∧
      (∀ u : Nat, u ∈ l ↔ (u = 1 ∨ GcReach m.tbl (GcHeld ext) u)) ∧ m'.len = l.length ∧
      m'.len ≤ m.len := by
  obtain ⟨m', hrun, hp⟩ := collectGarbage_spec m ext hi hr
  refine ⟨m', m'.tbl.nodeList, hrun, m'.tbl.nodeList_sorted hp.inv.wf.toWF, ?_,
    (m'.tbl.nodeList_length).symm, ?_⟩
  · intro u
    rw [Tbl.mem_nodeList, ← hp.mem_iff hi.toInvS u]
    simp [Tbl.Mem]
  · have := hp.sub.size; simp only [Mgr.len]; omega

/-- `Function.__len__` / `dag_size` on a live handle: returns (state untouched) the number of
nodes reachable from the handle's node, the terminal included -/
theorem fLen_spec (a : AMgr) (hw : WF a.m.tbl) (hs : Nat) (s : Int)
    (hh : a.handles[hs]? = some s) (hm : a.m.tbl.Mem s) :
    ∃ l : List Nat, fLen hs a = (.ok l.length, a) ∧ l.Pairwise (· < ·) ∧
      (∀ v, v ∈ l ↔ Reach a.m.tbl s.natAbs v) ∧ 1 ∈ l := by
  obtain ⟨l, e, p, hl⟩ := descendants_spec' hw [s] (by simpa using hm)
  refine ⟨l, ?_, p, fun v => by rw [hl]; simp, (hl 1).mpr ⟨s, by simp, reach_term hw s hm⟩⟩
  simp only [fLen, bind, AM.bind', nodeOwn, hh, AM.liftE, e, pure, AM.pure']

/-- `Function.level` and `Function.var` on a live handle: pure reads; the level is `levelOf`
(number of variables for the terminal), the variable is `None` for the terminal and otherwise
the name `var_at_level(level)` — the `t.nameOf n.lvl` of the Shannon expansion `C18_expand_spec` -/
theorem fLevel_fVar_spec (a : AMgr) (hw : WF a.m.tbl) (hv : VarsOK a.m.tbl) (hs : Nat) (s : Int)
    (hh : a.handles[hs]? = some s) (hm : a.m.tbl.Mem s) :
    fLevel hs a = (.ok (a.m.tbl.levelOf s), a) ∧
    (s.natAbs = 1 → fVar hs a = (.ok none, a)) ∧
    (∀ n, s.natAbs ≠ 1 → a.m.tbl.succ[s.natAbs]? = some n →
      fVar hs a = (.ok (some (a.m.tbl.nameOf n.lvl)), a) ∧
      varAtLevel (n.lvl : Int) a.m = (.ok (a.m.tbl.nameOf n.lvl), a.m)) := by
  refine ⟨?_, ?_, ?_⟩
  · rcases hm.cases with h1 | ⟨h1, n, hn⟩
    · have h1' : s.natAbs = 1 := h1
      simp only [fLevel, bind, AM.bind', nodeOwn, hh, AM.liftE, succOf, h1', if_true, pure, AM.pure',
        levelOf_term _ _ h1']
    · have hn' : a.m.tbl.succ[s.natAbs]? = some n := by simpa [Tbl.node?] using hn
      simp only [fLevel, bind, AM.bind', nodeOwn, hh, AM.liftE, succOf, h1, if_false, hn', pure,
        AM.pure', levelOf_node _ _ _ h1 hn]
  · intro h1
    simp only [fVar, bind, AM.bind', nodeOwn, hh, AM.liftE, succOf, h1, if_true, pure, AM.pure']
  · intro n h1 hn
    have hlt : n.lvl < a.m.tbl.nvars := hw.lvl_lt _ _ (by simpa [Tbl.node?] using hn)
    have hva := varAtLevel_ok a.m n.lvl _ (hv.l2v_eq hlt)
    refine ⟨?_, hva⟩
    simp only [fVar, bind, AM.bind', nodeOwn, hh, AM.liftE, succOf, h1, if_false, hn, AM.liftM, hva,
      pure, AM.pure']

/-! ### the graph behind `_to_dot` -/

theorem edgesOf_terminal (t : Tbl) (hw : WF t) : edgesOf t 1 = [] := by
  have h0 : t.succ[1]? = none := by
    cases h : t.succ[1]? with
    | none => rfl
    | some n => exact absurd rfl (hw.node_ne_one h)
  simp [edgesOf, h0]

theorem edgesOf_node (t : Tbl) (x : Nat) (n : Nd) (hn : t.succ[x]? = some n) :
    edgesOf t x = [(x, n.lo.natAbs, false, decide (n.lo < 0)), (x, n.hi.natAbs, true, false)] := by
  simp [edgesOf, hn, loEdge, hiEdge]

/-- `_to_dot(roots, bdd)`, exact content: the vertices are the descendants of the roots, each
ONCE (ascending list), each with its level (the rank it is drawn in); the edges are, for each
non-terminal vertex in that order, its low edge then its high edge, nothing else -/
theorem toDot_some_shape {t : Tbl} (hw : WF t) (roots : List Int) (hne : roots ≠ [])
    (hm : ∀ r ∈ roots, t.Mem r) :
    ∃ ns, descendants t roots = .ok ns ∧ ns.Pairwise (· < ·) ∧
      (∀ v, v ∈ ns ↔ ∃ r ∈ roots, Reach t r.natAbs v) ∧
      toDot t (some roots) = .ok (ns.map (nodeEntry t), ns.flatMap (edgesOf t)) := by
  obtain ⟨ns, e, p, s⟩ := descendants_spec' hw roots hm
  have h1 : 1 ∈ ns := by
    cases roots with
    | nil => exact absurd rfl hne
    | cons r rest => exact (s 1).mpr ⟨r, by simp, reach_term hw r (hm r (by simp))⟩
  have hmem : ∀ x ∈ ns, t.Mem (x : Int) := by
    intro x hx
    obtain ⟨r, hr, hreach⟩ := (s x).mp hx
    exact hreach.mem hw (mem_natAbs (hm r hr))
  refine ⟨ns, e, p, s, ?_⟩
  rw [show toDot t (some roots) = graphOf t ns from by simp [toDot, e, h1]]
  exact graphOf_eq hw ns hmem

/-- `_to_dot(None, bdd)`: the same over all nodes of the manager -/
theorem toDot_none_shape {t : Tbl} (hw : WF t) :
    toDot t none = .ok (t.nodeList.map (nodeEntry t), t.nodeList.flatMap (edgesOf t)) := by
  have hm : ∀ x ∈ t.nodeList, t.Mem (x : Int) := fun x hx => (t.mem_nodeList x).mp hx
  simp only [toDot]
  exact graphOf_eq hw _ hm

end DD
