/-
  DDProofs.MddConvFull — `bdd_to_mdd` as a whole: preparation (DDProofs.MddPrep) + main loop
  (DDProofs.MddBddSide) + which nodes end up in `umap`.
-/
import DDProofs.MddPrep
import DDProofs.SwapPop
open Std

namespace DD

/-! ### the keys of `umap` -/

theorem b2mLoop_keys (rm : List Nat) (btv : List (String × MVar)) :
    ∀ (ord : List Nat) (mdd : MddMgr) (umap : List (Nat × Int)) (mb : Mgr) (out : B2MOut) (mb' : Mgr),
      b2mLoop rm btv ord mdd umap mb = (.ok out, mb') →
      (∀ x, (umap.lookup x).isSome = true → (out.umap.lookup x).isSome = true) ∧
      (∀ u, u ∈ ord → rm.contains u = false → (out.umap.lookup u).isSome = true) := by
  intro ord
  induction ord with
  | nil =>
    intro mdd umap mb out mb' hr
    simp only [b2mLoop, Prod.mk.injEq, Except.ok.injEq] at hr
    obtain ⟨ho, _⟩ := hr
    subst ho
    exact ⟨fun _ h => h, fun u hu => by cases hu⟩
  | cons u rest ih =>
    intro mdd umap mb out mb' hr
    unfold b2mLoop at hr
    split at hr
    · next hrm =>
      obtain ⟨h1, h2⟩ := ih mdd umap mb out mb' hr
      refine ⟨h1, ?_⟩
      intro u' hu' hrm'
      rcases List.mem_cons.mp hu' with rfl | hu'
      · rw [hrm'] at hrm; cases hrm
      · exact h2 u' hu' hrm'
    · split at hr
      · simp at hr
      · next var succs mb1 hside =>
        split at hr
        · simp at hr
        · next r mdd1 hfoa =>
          obtain ⟨h1, h2⟩ := ih mdd1 _ mb1 out mb' hr
          have hkeep : ∀ x, (umap.lookup x).isSome = true →
              (((u, r) :: umap.filter (fun p => p.1 ≠ u)).lookup x).isSome = true := by
            intro x hx
            rw [lookup_cons_filter]
            by_cases hxu : x = u
            · simp [hxu]
            · simp only [hxu, if_false]; exact hx
          refine ⟨fun x hx => h1 x (hkeep x hx), ?_⟩
          intro u' hu' hrm'
          rcases List.mem_cons.mp hu' with rfl | hu'
          · apply h1
            rw [lookup_cons_filter]; simp
          · exact h2 u' hu' hrm'

/-! ### the order of `bdd.levels()` lists every node -/

theorem bddLevelsOrder_mem (t : Tbl) (hw : WF t) (rec : Option (List Nat)) (ord : List Nat)
    (h : bddLevelsOrder t rec = .ok ord) (u : Nat) :
    u ∈ ord ↔ (t.node? u).isSome = true := by
  have hd : u ∈ (List.range t.nvars).reverse.flatMap (nodesAt t) ↔ (t.node? u).isSome = true := by
    rw [List.mem_flatMap]
    constructor
    · rintro ⟨j, _, hm⟩
      obtain ⟨n, hn, _⟩ := (mem_nodesAt t j u).mp hm
      rw [hn]; rfl
    · intro hs
      obtain ⟨n, hn⟩ := Option.isSome_iff_exists.mp hs
      refine ⟨n.lvl, ?_, (mem_nodesAt t n.lvl u).mpr ⟨n, hn, rfl⟩⟩
      rw [List.mem_reverse, List.mem_range]
      exact hw.lvl_lt _ _ hn
  unfold bddLevelsOrder at h
  simp only at h
  split at h
  · cases h; exact hd
  · next l =>
    split at h
    · next hc =>
      cases h
      simp only [Bool.and_eq_true] at hc
      obtain ⟨hp, _⟩ := hc
      unfold isPerm at hp
      simp only [Bool.and_eq_true, List.all_eq_true] at hp
      obtain ⟨⟨_, h1⟩, h2⟩ := hp
      rw [← hd]
      constructor
      · intro hu; simpa using h1 u hu
      · intro hu; simpa using h2 u hu
    · cases h

/-! ### the nodes left out (`rm`) are not referenced from outside -/

theorem b2mRm_mem (m : Mgr) (btv : List (String × MVar)) (zones : List (String × Nat × Nat)) :
    ∀ (us rm : List Nat), b2mRm m btv zones us = .ok rm →
      ∀ u, u ∈ rm → ∃ rc, m.ref[u]? = some rc ∧ rc ≤ (bddPreds m.tbl u).length := by
  intro us
  induction us with
  | nil => intro rm h u hu; simp only [b2mRm, Except.ok.injEq] at h; subst h; cases hu
  | cons u0 rest ih =>
    intro rm h u hu
    unfold b2mRm at h
    split at h
    · cases h
    · next b hb =>
      split at h
      · cases h
      · next r hr =>
        simp only [Except.ok.injEq] at h
        subst h
        by_cases hbt : b = true
        · subst hbt
          simp only [if_true] at hu
          rcases List.mem_cons.mp hu with rfl | hu
          · unfold b2mRmOne at hb
            simp only at hb
            split at hb
            · cases hb
            · next rc hrc =>
              split at hb
              · cases hb
              · next hgt => exact ⟨rc, hrc, by omega⟩
          · exact ih r hr u hu
        · have : b = false := by cases b <;> simp_all
          subst this
          simp only [Bool.false_eq_true, if_false] at hu
          exact ih r hr u hu

/-! ### the whole call -/

/-- what a successful `bdd_to_mdd(bdd, dvars)` guarantees -/
structure B2MOK (ext : Nat → Nat) (dvars : List MVar) (mb : Mgr) (out : B2MOut) (mb' : Mgr) : Prop where
  /-- the MDD manager satisfies its invariant and has the variables `dvars` -/
  mdd : MInv out.mdd
  vars : out.mdd.tbl.vars = dvars
  /-- the BDD manager keeps its invariant and the bits are in zones -/
  bdd : Inv mb'
  zone : ZoneOK dvars mb'.tbl
  /-- every `umap` entry is right, for both signs of the BDD reference -/
  umap : ∀ (u : Nat) (r : Int), out.umap.lookup u = some r →
    mb'.tbl.Mem (u : Int) ∧ out.mdd.tbl.Mem r ∧
    ∀ (s : Int), s.natAbs = u → ∀ α, MValid out.mdd.tbl α →
      denM out.mdd.tbl (flip r s) α = denN mb'.tbl s (bitsOfInts dvars α)
  /-- the BDD functions are intact: every held reference is still a node and denotes the same
  function of the variable names -/
  held : ∀ u : Nat, 0 < ext u → mb'.tbl.Mem (u : Int) ∧
    ∀ a, denN mb'.tbl (u : Int) a = denN mb.tbl (u : Int) a
  /-- the terminal and every node that the code's own test finds referenced from outside its zone
  (count above the number of its predecessors, after the collection and the reordering) is mapped -/
  mapped : (out.umap.lookup 1).isSome = true ∧
    ∃ m2 : Mgr, Ext m2.tbl mb'.tbl ∧ ∀ (u : Nat) (c : Nat), (m2.tbl.node? u).isSome = true →
      m2.ref[u]? = some c → (bddPreds m2.tbl u).length < c → (out.umap.lookup u).isSome = true

/-- C15, conversion: for a BDD manager satisfying the reordering invariant (manager invariant,
name maps, exact counts for the ledger `ext`, roots held) with dynamic reordering not enabled,
and a proper `dvars` (levels `0..n-1`, bit lists partitioning the declared variables),
every successful `bdd_to_mdd` — for any recorded iteration orders — is correct. -/
theorem bddToMdd_spec (ext : Nat → Nat) (mb : Mgr) (h : ReorderInv ext mb) (hoff : mb.lastLen = none)
    (dvars : List MVar) (hd : DvarsOK mb.tbl dvars) (lev : Option (List Nat))
    (out : B2MOut) (mb' : Mgr) (hr : bddToMdd dvars lev mb = (.ok out, mb')) :
    B2MOK ext dvars mb out mb' := by
  obtain ⟨p, m2, ord, hp, ho, hloop⟩ := bddToMdd_unfold dvars lev mb out mb' hr
  have P := b2mPrepare_spec ext mb h hoff dvars hd p m2 hp
  have hW2 := P.inv.inv.wf.toWF
  have hordm : ∀ u, u ∈ ord ↔ (m2.tbl.node? u).isSome = true := by
    intro u
    have := bddLevelsOrder_mem p.tbl (by rw [P.tbl]; exact hW2) lev ord ho u
    rw [P.tbl] at this
    exact this
  rw [P.btv] at hloop
  obtain ⟨hB, hM, hV, hU⟩ := b2mLoop_bdd_sound dvars m2 P.inv.inv P.off P.zone p.rm ord
    (fun u hu _ => (hordm u).mp hu) out mb' hloop
  obtain ⟨hk1, hk2⟩ := b2mLoop_keys p.rm (b2mBitToVar dvars) ord _ _ m2 out mb' hloop
  refine ⟨hM, hV, hB.inv, hB.zone, hU, ?_, ?_, m2, hB.ext, ?_⟩
  · intro u hu
    obtain ⟨hm2, hden⟩ := P.held u hu
    refine ⟨hB.ext.mem hm2, ?_⟩
    intro a
    rw [← hden a]
    unfold denN
    rw [den_ext hB.ext hW2 (u : Int) _ hm2, lift_congr hB.frame.l2v]
  · apply hk1; simp [List.lookup_cons]
  · intro u c hn hc hlt
    apply hk2 u ((hordm u).mpr hn)
    -- not left out: the nodes in `rm` have a count not above the number of predecessors
    cases hcon : p.rm.contains u with
    | false => rfl
    | true =>
      exfalso
      have hmem : u ∈ p.rm := by simpa using hcon
      -- `rm` comes out of `b2mRm` on the manager `m2`
      unfold b2mPrepare at hp
      split at hp
      · cases hp
      · split at hp
        · cases hp
        · split at hp
          · cases hp
          · next m2' _ =>
            split at hp
            · cases hp
            · next zones _ =>
              split at hp
              · cases hp
              · split at hp
                · cases hp
                · next rm hrm =>
                  simp only [Prod.mk.injEq, Except.ok.injEq] at hp
                  obtain ⟨hpe, hme⟩ := hp
                  subst hpe hme
                  obtain ⟨rc, h1, h2⟩ := b2mRm_mem _ _ _ _ _ hrm u hmem
                  rw [hc] at h1
                  cases h1
                  omega

end DD
