/-
  DDProofs.MddConvFull — `bdd_to_mdd` as a whole: preparation (DDProofs.MddPrep) + main loop
  (DDProofs.MddBddSide) + which nodes end up in `umap`.
-/
import DDProofs.MddPrep
import DDProofs.SwapPop
open Std

namespace DD

/-! ### the keys of `umap` -/

theorem b2mLoop_keys (rm : List Nat) (btv : List (String × MVar)) :
    ∀ (ord : List Nat) (mdd : MddMgr) (umap : List (Nat × Int)) (mb : Mgr) (out : B2MOut) (mb' : Mgr),
      b2mLoop rm btv ord mdd umap mb = (.ok out, mb') →
      (∀ x, (umap.lookup x).isSome = true → (out.umap.lookup x).isSome = true) ∧
      (∀ u, u ∈ ord → rm.contains u = false → (out.umap.lookup u).isSome = true) := by
  intro ord
  induction ord with
  | nil =>
    intro mdd umap mb out mb' hr
    simp only [b2mLoop, Prod.mk.injEq, Except.ok.injEq] at hr
    obtain ⟨ho, _⟩ := hr
    subst ho
    exact ⟨fun _ h => h, fun u hu => by cases hu⟩
  | cons u rest ih =>
    intro mdd umap mb out mb' hr
    unfold b2mLoop at hr
    split at hr
    · next hrm =>
      obtain ⟨h1, h2⟩ := ih mdd umap mb out mb' hr
      refine ⟨h1, ?_⟩
      intro u' hu' hrm'
      rcases List.mem_cons.mp hu' with rfl | hu'
      · rw [hrm'] at hrm; cases hrm
      · exact h2 u' hu' hrm'
    · split at hr
      · simp at hr
      · next var succs mb1 hside =>
        split at hr
        · simp at hr
        · next r mdd1 hfoa =>
          obtain ⟨h1, h2⟩ := ih mdd1 _ mb1 out mb' hr
          have hkeep : ∀ x, (umap.lookup x).isSome = true →
              (((u, r) :: umap.filter (fun p => p.1 ≠ u)).lookup x).isSome = true := by
            intro x hx
            rw [lookup_cons_filter]
            by_cases hxu : x = u
            · simp [hxu]
            · simp only [hxu, if_false]; exact hx
          refine ⟨fun x hx => h1 x (hkeep x hx), ?_⟩
          intro u' hu' hrm'
          rcases List.mem_cons.mp hu' with rfl | hu'
          · apply h1
            rw [lookup_cons_filter]; simp
          · exact h2 u' hu' hrm'

/-! ### the order of `bdd.levels()` lists every node -/

theorem bddLevelsOrder_mem (t : Tbl) (hw : WF t) (rec : Option (List Nat)) (ord : List Nat)
    (h : bddLevelsOrder t rec = .ok ord) (u : Nat) :
    u ∈ ord ↔ (t.node? u).isSome = true := by
  have hd : u ∈ (List.range t.nvars).reverse.flatMap (nodesAt t) ↔ (t.node? u).isSome = true := by
    rw [List.mem_flatMap]
    constructor
    · rintro ⟨j, _, hm⟩
      obtain ⟨n, hn, _⟩ := (mem_nodesAt t j u).mp hm
      rw [hn]; rfl
    · intro hs
      obtain ⟨n, hn⟩ := Option.isSome_iff_exists.mp hs
      refine ⟨n.lvl, ?_, (mem_nodesAt t n.lvl u).mpr ⟨n, hn, rfl⟩⟩
      rw [List.mem_reverse, List.mem_range]
      exact hw.lvl_lt _ _ hn
  unfold bddLevelsOrder at h
  simp only at h
  split at h
  · cases h; exact hd
  · next l =>
    split at h
    · next hc =>
      cases h
      simp only [Bool.and_eq_true] at hc
      obtain ⟨hp, _⟩ := hc
      unfold isPerm at hp
      simp only [Bool.and_eq_true, List.all_eq_true] at hp
      obtain ⟨⟨_, h1⟩, h2⟩ := hp
      rw [← hd]
      constructor
      · intro hu; simpa using h1 u hu
      · intro hu; simpa using h2 u hu
    · cases h

/-! ### the nodes left out (`rm`) are not referenced from outside -/

theorem b2mRm_mem (m : Mgr) (btv : List (String × MVar)) (zones : List (String × Nat × Nat)) :
    ∀ (us rm : List Nat), b2mRm m btv zones us = .ok rm →
      ∀ u, u ∈ rm → ∃ rc, m.ref[u]? = some rc ∧ rc ≤ (bddPreds m.tbl u).length := by
  intro us
  induction us with
  | nil => intro rm h u hu; simp only [b2mRm, Except.ok.injEq] at h; subst h; cases hu
  | cons u0 rest ih =>
    intro rm h u hu
    unfold b2mRm at h
    split at h
    · cases h
    · next b hb =>
      split at h
      · cases h
      · next r hr =>
        simp only [Except.ok.injEq] at h
        subst h
        by_cases hbt : b = true
        · subst hbt
          simp only [if_true] at hu
          rcases List.mem_cons.mp hu with rfl | hu
          · unfold b2mRmOne at hb
            simp only at hb
            split at hb
            · cases hb
            · next rc hrc =>
              split at hb
              · cases hb
              · next hgt => exact ⟨rc, hrc, by omega⟩
          · exact ih r hr u hu
        · have : b = false := by cases b <;> simp_all
          subst this
          simp only [Bool.false_eq_true, if_false] at hu
          exact ih r hr u hu

/-! ### predecessors and in-degree -/

theorem foldl_bddPreds (u : Nat) : ∀ (l : List (Nat × Nd)) (acc : List Nat),
    l.foldl (fun acc p => if p.2.lo.natAbs = u ∨ p.2.hi.natAbs = u then acc ++ [p.1] else acc) acc =
      acc ++ (l.filter (fun p => decide (p.2.lo.natAbs = u ∨ p.2.hi.natAbs = u))).map (·.1) := by
  intro l
  induction l with
  | nil => intro acc; simp
  | cons p rest ih =>
    intro acc
    simp only [List.foldl_cons, ih]
    by_cases h : p.2.lo.natAbs = u ∨ p.2.hi.natAbs = u
    · simp [h]
    · simp [h]

theorem bddPreds_eq (t : Tbl) (u : Nat) :
    bddPreds t u =
      (t.succ.toList.filter (fun p => decide (p.2.lo.natAbs = u ∨ p.2.hi.natAbs = u))).map (·.1) := by
  unfold bddPreds
  rw [TreeMap.foldl_eq_foldl_toList]
  rw [foldl_bddPreds u t.succ.toList []]
  simp

theorem mem_bddPreds (t : Tbl) (u k : Nat) (hk : k ∈ bddPreds t u) :
    ∃ n, t.node? k = some n ∧ (n.lo.natAbs = u ∨ n.hi.natAbs = u) := by
  rw [bddPreds_eq] at hk
  simp only [List.mem_map, List.mem_filter, decide_eq_true_eq] at hk
  obtain ⟨⟨k', n⟩, ⟨hm, hl⟩, rfl⟩ := hk
  exact ⟨n, TreeMap.mem_toList_iff_getElem?_eq_some.mp hm, hl⟩

theorem nodup_bddPreds (t : Tbl) (u : Nat) : (bddPreds t u).Nodup := by
  rw [bddPreds_eq]
  have h := TreeMap.distinct_keys_toList (t := t.succ)
  have h2 := h.filter (fun p => decide (p.2.lo.natAbs = u ∨ p.2.hi.natAbs = u))
  unfold List.Nodup
  rw [List.pairwise_map]
  refine h2.imp ?_
  intro a b hab e
  apply hab
  rw [e]
  exact compare_self

/-- a duplicate-free list of slots below `b`, each with at least one edge to `u`, is not longer
than the number of edges to `u` from the slots below `b` -/
theorem length_le_indegUpTo (t : Tbl) (u : Nat) : ∀ (b : Nat) (l : List Nat), l.Nodup →
    (∀ k ∈ l, k < b ∧ 0 < slotCount t u k) → l.length ≤ indegUpTo t u b := by
  intro b
  induction b with
  | zero =>
    intro l _ h
    cases l with
    | nil => simp
    | cons x xs => have := (h x (by simp)).1; omega
  | succ b ih =>
    intro l hnd h
    show l.length ≤ indegUpTo t u b + slotCount t u b
    by_cases hb : b ∈ l
    · have h1 := ih (l.erase b) (hnd.erase b) (by
        intro k hk
        have hk' := (hnd.mem_erase_iff).mp hk
        have := h k hk'.2
        exact ⟨by omega, this.2⟩)
      have h2 := List.length_erase_of_mem hb
      have h3 := (h b hb).2
      have : 0 < l.length := List.length_pos_of_mem hb
      omega
    · have h1 := ih l hnd (by
        intro k hk
        have := h k hk
        have : k ≠ b := fun e => hb (e ▸ hk)
        exact ⟨by omega, (h k hk).2⟩)
      omega

/-- the number of distinct predecessors of a node does not exceed its in-degree -/
theorem bddPreds_le_indeg (t : Tbl) (u : Nat) : (bddPreds t u).length ≤ indeg t u := by
  unfold indeg
  apply length_le_indegUpTo t u t.bound _ (nodup_bddPreds t u)
  intro k hk
  obtain ⟨n, hn, he⟩ := mem_bddPreds t u k hk
  refine ⟨t.lt_bound hn, ?_⟩
  unfold slotCount edgeCount
  rw [hn]
  rcases he with he | he <;> simp [he] <;> omega

/-! ### the whole call -/

/-- what a successful `bdd_to_mdd(bdd, dvars)` guarantees -/
structure B2MOK (ext : Nat → Nat) (dvars : List MVar) (mb : Mgr) (out : B2MOut) (mb' : Mgr) : Prop where
  /-- the MDD manager satisfies its invariant and has the variables `dvars` -/
  mdd : MInv out.mdd
  vars : out.mdd.tbl.vars = dvars
  /-- the BDD manager keeps its invariant and the bits are in zones -/
  bdd : Inv mb'
  zone : ZoneOK dvars mb'.tbl
  /-- every `umap` entry is right, for both signs of the BDD reference -/
  umap : ∀ (u : Nat) (r : Int), out.umap.lookup u = some r →
    mb'.tbl.Mem (u : Int) ∧ out.mdd.tbl.Mem r ∧
    ∀ (s : Int), s.natAbs = u → ∀ α, MValid out.mdd.tbl α →
      denM out.mdd.tbl (flip r s) α = denN mb'.tbl s (bitsOfInts dvars α)
  /-- the BDD functions are intact: every held reference is still a node and denotes the same
  function of the variable names -/
  held : ∀ u : Nat, 0 < ext u → mb'.tbl.Mem (u : Int) ∧
    ∀ a, denN mb'.tbl (u : Int) a = denN mb.tbl (u : Int) a
  /-- every BDD node the user holds (and the terminal) has an image -/
  mapped : (out.umap.lookup 1).isSome = true ∧
    ∀ u : Nat, 0 < ext u → (out.umap.lookup u).isSome = true
  /-- the MDD manager is a state reachable from `MDD(dvars)` by `find_or_add` calls (each loop
  iteration is one), the user holding no reference yet: in particular its counts are exact, so
  `incref`, `collect_garbage` and the other operations apply to it -/
  reach : MReach dvars out.mdd (fun _ => 0)
  /-- the BDD manager still satisfies the whole reordering invariant for the same ledger, so a
  second conversion (or any other operation) applies to it -/
  reorder : ReorderInv ext mb'
  /-- the declared variable names are the same -/
  names : ∀ v : String, mb'.tbl.vars.contains v = mb.tbl.vars.contains v

theorem B2MOK.exact {ext : Nat → Nat} {dvars : List MVar} {mb : Mgr} {out : B2MOut} {mb' : Mgr}
    (h : B2MOK ext dvars mb out mb') : MRefExact out.mdd (fun _ => 0) := h.reach.inv.2.1

/-- the MDD manager returned by the conversion has no recorded schedule left, so the total forms
of the `ite` / `apply` theorems apply to it -/
theorem B2MOK.sched {ext : Nat → Nat} {dvars : List MVar} {mb : Mgr} {out : B2MOut} {mb' : Mgr}
    (h : B2MOK ext dvars mb out mb') : out.mdd.sched = [] := h.reach.sched_nil

/-- C15, conversion: for a BDD manager satisfying the reordering invariant (manager invariant,
name maps, exact counts for the ledger `ext`, roots held), dynamic reordering enabled or not,
and a proper `dvars` (levels `0..n-1`, bit lists partitioning the declared variables),
every successful `bdd_to_mdd` — for any recorded iteration orders — is correct. -/
theorem bddToMdd_spec (ext : Nat → Nat) (mb : Mgr) (h : ReorderInv ext mb)
    (dvars : List MVar) (hd : DvarsOK mb.tbl dvars) (lev : Option (List Nat))
    (out : B2MOut) (mb' : Mgr) (hr : bddToMdd dvars lev mb = (.ok out, mb')) :
    B2MOK ext dvars mb out mb' := by
  obtain ⟨p, m2, ord, hp, ho, hloop⟩ := bddToMdd_unfold dvars lev mb out mb' hr
  have P := b2mPrepare_spec ext mb h dvars hd p m2 hp
  have hW2 := P.inv.inv.wf.toWF
  have hordm : ∀ u, u ∈ ord ↔ (m2.tbl.node? u).isSome = true := by
    intro u
    have := bddLevelsOrder_mem p.tbl (by rw [P.tbl]; exact hW2) lev ord ho u
    rw [P.tbl] at this
    exact this
  rw [P.btv] at hloop
  obtain ⟨hB, hM, hV, hR, hU⟩ := b2mLoop_bdd_sound dvars m2 P.inv.inv P.zone p.rm ord
    (fun u hu _ => (hordm u).mp hu) out mb' hloop
  obtain ⟨hk1, hk2⟩ := b2mLoop_keys p.rm (b2mBitToVar dvars) ord _ _ m2 out mb' hloop
  refine ⟨hM, hV, hB.inv, hB.zone, hU, ?_, ⟨?_, ?_⟩, hR, by rw [hB.eq]; exact P.inv, by rw [hB.eq]; exact P.names⟩
  · intro u hu
    have hmb : mb' = m2 := hB.eq
    subst hmb
    exact P.held u hu
  · apply hk1; simp [List.lookup_cons]
  · intro u hu
    have hmemu : m2.tbl.Mem (u : Int) := (P.held u hu).1
    by_cases hu1 : u = 1
    · subst hu1; apply hk1; simp [List.lookup_cons]
    have hn : (m2.tbl.node? u).isSome = true := by
      rcases hmemu with h1 | h1
      · exact absurd (by simpa using h1) hu1
      · simpa using h1
    have hc := P.inv.refExact.get hmemu
    simp only [Int.natAbs_natCast] at hc
    have hlt : (bddPreds m2.tbl u).length <
        indeg m2.tbl u + ext u + (if u = 1 then 1 else 0) := by
      have := bddPreds_le_indeg m2.tbl u
      omega
    apply hk2 u ((hordm u).mpr hn)
    -- not left out: the nodes in `rm` have a count not above the number of predecessors
    cases hcon : p.rm.contains u with
    | false => rfl
    | true =>
      exfalso
      have hmem : u ∈ p.rm := by simpa using hcon
      -- `rm` comes out of `b2mRm` on the manager `m2`
      unfold b2mPrepare at hp
      split at hp
      · cases hp
      · split at hp
        · cases hp
        · split at hp
          · cases hp
          · next m2' _ =>
            split at hp
            · cases hp
            · next zones _ =>
              split at hp
              · cases hp
              · split at hp
                · cases hp
                · next rm hrm =>
                  simp only [Prod.mk.injEq, Except.ok.injEq] at hp
                  obtain ⟨hpe, hme⟩ := hp
                  subst hpe hme
                  obtain ⟨rc, h1, h2⟩ := b2mRm_mem _ _ _ _ _ hrm u hmem
                  rw [hc] at h1
                  cases h1
                  omega

end DD
