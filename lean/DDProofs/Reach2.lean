/-
  DDProofs.Reach2 — "for EVERY history", REORDERINGS included (dynamic reordering not enabled).

  `UOp2` embeds the user operations `UOp` of DDProofs.Reach and adds the explicit reordering
  calls and the removal of variables, all with ARBITRARY arguments:

    `.swap sch x y`        `bdd.swap(x, y)`        names or levels, any values
    `.sift sch`            `reorder(bdd)`          Rudell sifting, any number of variables
    `.reorderTo sch order` `reorder(bdd, order)`   any dictionary
    `.undeclare names`     `bdd.undeclare_vars(*names)`

  `sch` is the recorded iteration order of the Python sets the call walks through (`[]` = the
  model's default, ascending).  The only guard on these four is about the MODEL, not about the
  caller: the recorded orders must be possible ones, i.e. the model must not answer
  `MODEL-SCHEDULE-MISMATCH` (`OpGuard2`; with `sch = []` it never does: `guard2_default`).
  Bad arguments are not excluded: a swap of non-adjacent levels or unknown names, sifting one
  variable, an order that is no bijection, names in use — these calls RAISE, some of them after
  a collection or after some swaps, and the theorems cover the state they leave.

    `step2_inv`      : `Good2 m ext → OpGuard2 m ext op → Good2 (runOp2 op m).2 (ledger2 op m ext)`
    `step2_held`     : every reference the user holds stays a node, under the same number, with the
                       same function of the variable NAMES (levels move), and its counter still is
                       stored edges + the user's references (the ledger entry changes only by the
                       user's own `incref`/`decref`: `ledger2_eq`)
    `reachable2_inv` : every state reached from the empty manager by a guarded history is `Good2`.
-/
import DDProofs.Reach
import DDProofs.Reach2Order
import DDProofs.DynSift
open Std

namespace DD

/-! ### operations -/

/-- the user operations of DDProofs.Reach plus explicit reorderings and `undeclare_vars` -/
inductive UOp2
  | base (op : UOp)
  | swap (sch : List SchedItem) (x y : VarOrLevel)                  -- `bdd.swap(x, y)`
  | sift (sch : List SchedItem)                                     -- `reorder(bdd)`
  | reorderTo (sch : List SchedItem) (order : List (String × Int))  -- `reorder(bdd, order)`
  | undeclare (vrs : List String)                                   -- `bdd.undeclare_vars(*vrs)`
deriving Inhabited

/-- run `f` with the recorded iteration orders `sch`; what is left of them is dropped -/
def withSched {α : Type} (sch : List SchedItem) (f : M α) (g : α → Res) (m : Mgr) :
    Except Err Res × Mgr :=
  ((mapRes g (f { m with sched := sch })).1, { (f { m with sched := sch }).2 with sched := [] })

/-- one call on the model -/
def runOp2 : UOp2 → Mgr → Except Err Res × Mgr
  | .base op, m => runOp op m
  | .swap sch x y, m => withSched sch (swap x y false) (fun _ => .unit) m
  | .sift sch, m => withSched sch (reorder none) (fun _ => .unit) m
  | .reorderTo sch o, m => withSched sch (reorder (some o)) (fun _ => .unit) m
  | .undeclare vrs, m => mapRes (fun _ => .unit) (undeclareVars vrs m)

/-- the ghost ledger: only the user's own `incref` / `decref` change it -/
def ledger2 : UOp2 → Mgr → (Nat → Nat) → (Nat → Nat)
  | .base op, m, ext => ledger op m ext
  | _, _, ext => ext

/-- the model's report that a recorded iteration order is impossible -/
def isSchedErr {α : Type} : Except Err α → Bool
  | .error .sched => true
  | _ => false

theorem isSchedErr_false {α : Type} {r : Except Err α} (h : isSchedErr r = false) :
    r ≠ .error .sched := by
  intro hh; subst hh; cases h

theorem isSchedErr_of_ne {α : Type} {r : Except Err α} (h : r ≠ .error .sched) :
    isSchedErr r = false := by
  cases r with
  | ok a => rfl
  | error e => cases e <;> first | rfl | exact absurd rfl h

/-- the caller obligations of the embedded operations (DDProofs.Reach); for the reordering calls
only: the recorded iteration orders are possible ones -/
def OpGuard2 (m : Mgr) (ext : Nat → Nat) : UOp2 → Prop
  | .base op => OpGuard m ext op
  | .swap sch x y => isSchedErr (swap x y false { m with sched := sch }).1 = false
  | .sift sch => isSchedErr (reorder none { m with sched := sch }).1 = false
  | .reorderTo sch o => isSchedErr (reorder (some o) { m with sched := sch }).1 = false
  | .undeclare _ => True

instance (m : Mgr) (ext : Nat → Nat) (op : UOp2) : Decidable (OpGuard2 m ext op) := by
  cases op <;> simp only [OpGuard2] <;> infer_instance

/-! ### the invariant -/

/-- what holds in every state reached by a guarded history: `GoodState` (invariant, order maps,
exact counts, reordering not enabled, not inside a context), no recorded schedule left, no
registered roots -/
structure Good2 (m : Mgr) (ext : Nat → Nat) : Prop where
  good : GoodState m ext
  sched : m.sched = []
  roots : m.roots = []

theorem Good2.init : Good2 ({} : Mgr) (fun _ => 0) := ⟨GoodState.init, rfl, rfl⟩

theorem Good2.reorderInv {m : Mgr} {ext : Nat → Nat} (h : Good2 m ext) (sch : List SchedItem) :
    ReorderInv ext { m with sched := sch } :=
  ⟨h.good.inv.setSched sch, h.good.order, h.good.exact.congr rfl rfl, Or.inl h.good.ctx,
    fun r hr => by rw [show ({ m with sched := sch } : Mgr).roots = m.roots from rfl, h.roots] at hr; cases hr⟩

/-- a reference the user holds: still a node, same function of the variable names -/
def Held2 (ext : Nat → Nat) (m m' : Mgr) : Prop :=
  ∀ u : Int, 0 < ext u.natAbs → m'.tbl.Mem u ∧ ∀ σ : AsgN, denN m'.tbl u σ = denN m.tbl u σ

/-! ### the embedded operations -/

/-- a step that only adds nodes and keeps the order keeps the meaning by name -/
theorem held2_of_kept {m m' : Mgr} (hI : Inv m) (h : Kept m m') (ext : Nat → Nat)
    (hr : RefExact m ext) : Held2 ext m m' := by
  intro u hu
  obtain ⟨hm, hd⟩ := h.den hI u (hr.mem_of_ext_pos hu)
  exact ⟨hm, fun σ => denN_of_same_l2v h.frame.l2v u σ hd⟩

/-- `add_var` under the no-gap guard keeps `sched`, `roots` and — the names of the existing
levels stay — the meaning by name of every node -/
theorem addVar_frame2 (m : Mgr) (ext : Nat → Nat) (hI : Inv m) (hO : OrderOK m.tbl)
    (hr : RefExact m ext) (name : String) (level : Option Int)
    (hg : ∀ l : Int, level = some l → m.tbl.vars[name]? = none → l ≤ (m.nvars : Int)) :
    (addVar name level m).2.sched = m.sched ∧ (addVar name level m).2.roots = m.roots ∧
    Held2 ext m (addVar name level m).2 := by
  rcases addVar_cases m hO name level hg with he | ⟨hnew, he⟩
  · rw [he]
    exact ⟨rfl, rfl, fun u hu => ⟨hr.mem_of_ext_pos hu, fun _ => rfl⟩⟩
  · rw [he]
    refine ⟨rfl, rfl, fun u hu => ?_⟩
    have hmu : m.tbl.Mem u := hr.mem_of_ext_pos hu
    obtain ⟨-, hO', -, -, hmono, hden, -, -⟩ := addVar_new_spec m hI hO name hnew _ rfl
    obtain ⟨hmem, hd⟩ := hden u hmu
    refine ⟨hmem, fun σ => ?_⟩
    show denN (addVarState m name).tbl u σ = denN m.tbl u σ
    unfold denN
    rw [hd]
    apply den_agree_ge m.tbl hI.wf.toWF u hmu
    intro i _ hi'
    unfold Tbl.lift Tbl.nameOf
    obtain ⟨v, hv⟩ := hO.total i hi'
    have h1 : m.tbl.vars[v]? = some i := (hO.inv v i).mpr hv
    rw [hv, (hO'.inv v i).mp (hmono v i h1)]

/-- the embedded operations keep `sched` and `roots`, and every node the user holds with its
function by name -/
theorem runOp_frame2 (m : Mgr) (ext : Nat → Nat) (h : GoodState m ext) (op : UOp) (hg : OpGuard m ext op) :
    (runOp op m).2.sched = m.sched ∧ (runOp op m).2.roots = m.roots ∧
    Held2 ext m (runOp op m).2 := by
  rcases runOp_kept m ext h op hg with ⟨name, level, rfl⟩ | rfl | ⟨hk, -⟩
  · exact addVar_frame2 m ext h.inv h.order h.exact name level hg.declare
  · obtain ⟨m', he, hp, -⟩ := collectGarbage_good m ext h
    show (collectGarbage none m).2.sched = _ ∧ (collectGarbage none m).2.roots = _ ∧
      Held2 _ _ (collectGarbage none m).2
    rw [he]
    refine ⟨hp.sub.sched, hp.sub.roots, fun u hpos => ?_⟩
    have hmem : m'.tbl.Mem u :=
      reach_survives hp.sub hp.inv.toInvS hp.refExact h.inv.toInvS (GcReach.root hpos)
    exact ⟨hmem, fun σ => denN_of_same_l2v hp.sub.l2v u σ (fun a => hp.den_eq u hmem a)⟩
  · exact ⟨hk.frame.sched, hk.frame.roots, held2_of_kept h.inv hk ext h.exact⟩

/-! ### the reordering calls -/

/-- `reorder(bdd)` with ANY number of variables, for every recorded schedule: unless the model
reports a schedule mismatch, the call — returning (two variables or more) or raising (fewer) —
leaves the reordering invariant and every held reference with its function -/
theorem sift_keep (ext : Nat → Nat) (m : Mgr) (h : ReorderInv ext m) :
    KeepOr SchedErr (fun m' => ReorderInv ext m' ∧ ReorderRel ext m m') (reorder none m) := by
  by_cases h2 : 2 ≤ m.nvars
  · exact KeepOr.of_okOr (applySifting_never_raises ext m h h2) (fun _ m' hp => ⟨hp.1.1, hp.2⟩)
  · obtain ⟨mg, hrun, hp⟩ := collectGarbage_spec m ext h.inv h.refExact
    obtain ⟨hg, hrel⟩ := gcSub_keeps h hp.inv hp.refExact hp.sub
    have hn : mg.nvars < 2 := by rw [hrel.nvars]; omega
    obtain ⟨e, mb, hres, hcase⟩ := sift_few_vars m mg hrun hg.order hn
    rw [hres]
    rcases hcase with he | ⟨hne, s, rfl, hs0⟩
    · exact Or.inl he
    · refine Or.inr ⟨hne, ⟨hg.inv.setSched s, hg.order, hg.refExact.congr rfl rfl, hg.off, hg.rootsHeld⟩,
        hrel.trans ⟨fun _ _ _ => rfl, fun _ => rfl, rfl, rfl, rfl, rfl, hs0⟩⟩

/-- `bdd.swap(x, y)` with ANY arguments, for every recorded schedule -/
theorem swap_keep (ext : Nat → Nat) (m : Mgr) (h : ReorderInv ext m) (xa ya : VarOrLevel) :
    KeepOr SchedErr (fun m' => ReorderInv ext m' ∧ ReorderRel ext m m') (swap xa ya false m) := by
  obtain ⟨mg, hrun, hp⟩ := collectGarbage_spec m ext h.inv h.refExact
  obtain ⟨hg, hrel⟩ := gcSub_keeps h hp.inv hp.refExact hp.sub
  exact swapPublic_keep (swapOK ext) m xa ya ⟨mg, hrun, hg, hrel⟩

/-- `reorder(bdd, order)` with ANY dictionary, for every recorded schedule -/
theorem reorderTo_keepR (ext : Nat → Nat) (m : Mgr) (h : ReorderInv ext m) (o : List (String × Int)) :
    KeepOr SchedErr (fun m' => ReorderInv ext m' ∧ ReorderRel ext m m') (reorder (some o) m) :=
  (reorderTo_keep (swapOK ext) o m h).mono (fun _ hp => ⟨hp.1, hp.2.1⟩)

/-- with no recorded schedule the model never reports a mismatch — whatever the arguments -/
theorem no_sched_report (ext : Nat → Nat) (m : Mgr) (h : ReorderInv ext m) (hs : m.sched = []) :
    (∀ xa ya, isSchedErr (swap xa ya false m).1 = false) ∧
    isSchedErr (reorder none m).1 = false ∧
    (∀ o, isSchedErr (reorder (some o) m).1 = false) := by
  have hgc : ∃ mg, collectGarbage none m = (.ok (), mg) ∧ (ReorderInv ext mg ∧ mg.sched = []) ∧
      ReorderRel ext m mg := by
    obtain ⟨mg, hrun, hp⟩ := collectGarbage_spec m ext h.inv h.refExact
    obtain ⟨hg, hrel⟩ := gcSub_keeps h hp.inv hp.refExact hp.sub
    exact ⟨mg, hrun, ⟨hg, hrel.sched hs⟩, hrel⟩
  refine ⟨fun xa ya => ?_, ?_, fun o => ?_⟩
  · exact isSchedErr_of_ne (swapPublic_keep (swapOK0 ext) m xa ya hgc).total.2
  · by_cases h2 : 2 ≤ m.nvars
    · obtain ⟨m', hrun, -⟩ := applySifting_total_default ext m h h2 hs
      show isSchedErr (applySifting m).1 = false
      rw [hrun]; rfl
    · obtain ⟨mg, hrun, ⟨hg, hsg⟩, hrel⟩ := hgc
      have hn : mg.nvars < 2 := by rw [hrel.nvars]; omega
      obtain ⟨e, mb, hres, hcase⟩ := sift_few_vars m mg hrun hg.order hn
      rw [hres]
      rcases hcase with he | ⟨hne, -⟩
      · -- the only source of the report is `takeSiftOrder`, which succeeds without a schedule
        exfalso
        subst he
        have ht : takeSiftOrder mg = (.ok mg.tbl.vars.keys, mg) := by
          unfold takeSiftOrder
          simp only [M.bind_eq, M.get_eq, hsg, M.pure_eq]
        have : ∃ e' mb', reorder none m = (.error e', mb') ∧ e' ≠ .sched := by
          show ∃ e' mb', applySifting m = (.error e', mb') ∧ e' ≠ .sched
          unfold applySifting
          rw [M.bind_ok hrun, M.bind_ok (M.get_eq mg), M.bind_ok ht]
          have hsz : mg.nvars = mg.tbl.vars.size := rfl
          have hlen : mg.tbl.vars.keys.length = mg.tbl.vars.size := TreeMap.length_keys
          cases hk : mg.tbl.vars.keys with
          | nil => exact ⟨.other, _, by simp only [List.isEmpty_nil, if_true]; rfl, by decide⟩
          | cons v rest =>
            rw [hk] at hlen
            have hrest : rest = [] := by
              cases rest with
              | nil => rfl
              | cons w r2 => simp only [List.length_cons] at hlen; omega
            subst hrest
            have h1 : mg.nvars = 1 := by
              simp only [List.length_cons, List.length_nil] at hlen; omega
            have hv : mg.tbl.vars.contains v = true := by
              have : v ∈ mg.tbl.vars.keys := by rw [hk]; exact List.mem_cons_self
              rw [TreeMap.mem_keys] at this
              exact TreeMap.contains_iff_mem.mpr this
            have hrv := reorderVar_one mg hg.order h1 v hv
            simp only [List.isEmpty_cons, Bool.false_eq_true, if_false]
            unfold siftVars
            rw [M.bind_err (M.bind_err hrv)]
            exact ⟨.value, _, rfl, by decide⟩
        obtain ⟨e', mb', hres', hne'⟩ := this
        rw [hres] at hres'
        cases hres'
        exact hne' rfl
      · exact isSchedErr_of_ne (fun hh => by cases hh; exact hne.ne_sched rfl)
  · exact isSchedErr_of_ne (reorderTo_keep (swapOK0 ext) o m ⟨h, hs⟩).total.2

/-- from C07's state predicate and relation back to the invariant of histories -/
theorem good2_of_reorder {α : Type} (m : Mgr) (ext : Nat → Nat) (h : Good2 m ext) (sch : List SchedItem)
    (f : M α) (g : α → Res)
    (hk : KeepOr SchedErr (fun m' => ReorderInv ext m' ∧ ReorderRel ext { m with sched := sch } m')
      (f { m with sched := sch }))
    (hg : isSchedErr (f { m with sched := sch }).1 = false) :
    Good2 (withSched sch f g m).2 ext ∧ ReorderRel ext m (withSched sch f g m).2 := by
  obtain ⟨hR, hrel⟩ := hk.sched (isSchedErr_false hg)
  show Good2 { (f { m with sched := sch }).2 with sched := [] } ext ∧
    ReorderRel ext m { (f { m with sched := sch }).2 with sched := [] }
  generalize (f { m with sched := sch }).2 = m' at hR hrel ⊢
  have hl : m'.lastLen = m.lastLen := hrel.lastLen
  have hc : m'.ctx = m.ctx := hrel.ctx
  have hr : m'.roots = m.roots := hrel.roots
  refine ⟨⟨⟨hR.inv.setSched [], hR.order, hR.refExact.congr rfl rfl, ?_, ?_⟩, rfl, ?_⟩, ?_⟩
  · show m'.lastLen = none
    rw [hl]; exact h.good.off
  · show m'.ctx = false
    rw [hc]; exact h.good.ctx
  · show m'.roots = []
    rw [hr]; exact h.roots
  · exact ⟨hrel.held, hrel.names, hrel.nvars, hr, hc, hl, fun _ => rfl⟩

/-- the three reordering calls as steps -/
theorem reorder_step (m : Mgr) (ext : Nat → Nat) (h : Good2 m ext) (op : UOp2) (hg : OpGuard2 m ext op)
    (hop : (∃ sch x y, op = .swap sch x y) ∨ (∃ sch, op = .sift sch) ∨ (∃ sch o, op = .reorderTo sch o)) :
    Good2 (runOp2 op m).2 ext ∧ ReorderRel ext m (runOp2 op m).2 := by
  rcases hop with ⟨sch, x, y, rfl⟩ | ⟨sch, rfl⟩ | ⟨sch, o, rfl⟩
  · exact good2_of_reorder m ext h sch _ _ (swap_keep ext _ (h.reorderInv sch) x y) hg
  · exact good2_of_reorder m ext h sch _ _ (sift_keep ext _ (h.reorderInv sch)) hg
  · exact good2_of_reorder m ext h sch _ _ (reorderTo_keepR ext _ (h.reorderInv sch) o) hg

/-- what the reordering relation means for a held reference -/
theorem held2_of_rel {m m' : Mgr} {ext : Nat → Nat} (h : Good2 m ext) (h' : Good2 m' ext)
    (hrel : ReorderRel ext m m') : Held2 ext m m' := by
  intro u hu
  have hx : HeldX ext u := Or.inr hu
  exact ⟨hx.mem h'.good.exact, fun σ =>
    heldX_denN_of_heldSame h.good.inv h'.good.inv h.good.exact h'.good.exact hrel.held hx σ⟩

/-! ### `undeclare_vars` -/

/-- `undeclare_vars` with ANY names: refused with nothing changed, or the unused variables are
removed — levels compacted, same nodes, same counts, every reference with its function by name -/
theorem undeclare_step (m : Mgr) (ext : Nat → Nat) (h : Good2 m ext) (vrs : List String) :
    ((undeclareVars vrs m).1 = .error .value ∧ (undeclareVars vrs m).2 = m) ∨
    ((∃ rm, (undeclareVars vrs m).1 = .ok rm) ∧ Good2 (undeclareVars vrs m).2 ext ∧
      ∀ u, m.tbl.Mem u → (undeclareVars vrs m).2.tbl.Mem u ∧
        ∀ σ, denN (undeclareVars vrs m).2.tbl u σ = denN m.tbl u σ) := by
  rcases undeclare_cases m vrs with hbad | hok
  · left
    rw [undeclare_refuses m vrs hbad]
    exact ⟨rfl, rfl⟩
  · right
    obtain ⟨rm, m', f, hrun, -, -, -, -, hO', -, hI', hrl, hden, href, -, -, hroots⟩ :=
      undeclare_spec m h.good.inv h.good.order vrs hok
    have hrun2 := undeclare_ok m h.good.inv.wf.toWF h.good.order vrs hok
    rw [hrun2] at hrun
    obtain ⟨-, rfl⟩ := Prod.mk.inj hrun
    rw [hrun2]
    refine ⟨⟨_, rfl⟩, ⟨⟨hI', hO', h.good.exact.of_relabel hrl href, ?_, ?_⟩, ?_, ?_⟩, hden⟩
    · exact h.good.off
    · exact h.good.ctx
    · exact h.sched
    · exact h.roots

/-! ### one step -/

/-- **`step2_inv`**: every operation — reorderings included — with every argument, accepted or
rejected, leads from a good state to a good state -/
theorem step2_inv (m : Mgr) (ext : Nat → Nat) (op : UOp2) (h : Good2 m ext) (hg : OpGuard2 m ext op) :
    Good2 (runOp2 op m).2 (ledger2 op m ext) := by
  cases op with
  | base o =>
    obtain ⟨hs, hr, -⟩ := runOp_frame2 m ext h.good o hg
    exact ⟨step_inv m ext o h.good hg, hs.trans h.sched, hr.trans h.roots⟩
  | swap sch x y => exact (reorder_step m ext h _ hg (Or.inl ⟨sch, x, y, rfl⟩)).1
  | sift sch => exact (reorder_step m ext h _ hg (Or.inr (Or.inl ⟨sch, rfl⟩))).1
  | reorderTo sch o => exact (reorder_step m ext h _ hg (Or.inr (Or.inr ⟨sch, o, rfl⟩))).1
  | undeclare vrs =>
    show Good2 (undeclareVars vrs m).2 ext
    rcases undeclare_step m ext h vrs with ⟨-, he⟩ | ⟨-, hgood, -⟩
    · rw [he]; exact h
    · exact hgood

/-- every operation keeps every reference the user holds: still a node, same function BY NAME -/
theorem step2_heldSame (m : Mgr) (ext : Nat → Nat) (op : UOp2) (h : Good2 m ext) (hg : OpGuard2 m ext op) :
    Held2 ext m (runOp2 op m).2 := by
  have hmem : ∀ u : Int, 0 < ext u.natAbs → m.tbl.Mem u := fun u hu => h.good.exact.mem_of_ext_pos hu
  cases op with
  | base o =>
    intro u hu
    exact (runOp_frame2 m ext h.good o hg).2.2 u hu
  | swap sch x y =>
    obtain ⟨h', hrel⟩ := reorder_step m ext h _ hg (Or.inl ⟨sch, x, y, rfl⟩)
    exact held2_of_rel h h' hrel
  | sift sch =>
    obtain ⟨h', hrel⟩ := reorder_step m ext h _ hg (Or.inr (Or.inl ⟨sch, rfl⟩))
    exact held2_of_rel h h' hrel
  | reorderTo sch o =>
    obtain ⟨h', hrel⟩ := reorder_step m ext h _ hg (Or.inr (Or.inr ⟨sch, o, rfl⟩))
    exact held2_of_rel h h' hrel
  | undeclare vrs =>
    intro u hu
    show (undeclareVars vrs m).2.tbl.Mem u ∧ ∀ σ, denN (undeclareVars vrs m).2.tbl u σ = denN m.tbl u σ
    rcases undeclare_step m ext h vrs with ⟨-, he⟩ | ⟨-, -, hden⟩
    · rw [he]; exact ⟨hmem u hu, fun _ => rfl⟩
    · exact hden u (hmem u hu)

/-- the ledger entry of `k` changes only by the user's own `incref` / `decref` of `k` -/
theorem ledger2_eq (op : UOp2) (m : Mgr) (ext : Nat → Nat) (k : Nat)
    (h : ∀ v : Int, v.natAbs = k → op ≠ .base (.incref v) ∧ op ≠ .base (.decref v)) :
    ledger2 op m ext k = ext k := by
  cases op with
  | base o =>
    cases o with
    | incref v =>
      show (if m.mem v then extInc ext v.natAbs else ext) k = ext k
      split
      · unfold extInc
        by_cases hk : k = v.natAbs
        · exact absurd rfl (h v hk.symm).1
        · simp only [hk, if_false]
      · rfl
    | decref v =>
      show (if m.mem v then extDec ext v.natAbs else ext) k = ext k
      split
      · unfold extDec
        by_cases hk : k = v.natAbs
        · exact absurd rfl (h v hk.symm).2
        · simp only [hk, if_false]
      · rfl
    | _ => rfl
  | _ => rfl

/-- **`step2_held`**: across EVERY step — a reordering, a collection, a rejected call, the user's
own `decref` — a reference `u` the user holds (ledger > 0) is a node before and after, under the
same number, denotes the same function of the variable NAMES, and its counter is again
`stored edges + the user's references (+ 1 for the terminal)` for the ledger after the step -/
theorem step2_held (m : Mgr) (ext : Nat → Nat) (op : UOp2) (h : Good2 m ext) (hg : OpGuard2 m ext op)
    (u : Int) (hu : 0 < ext u.natAbs) :
    m.tbl.Mem u ∧ (runOp2 op m).2.tbl.Mem u ∧
    (∀ σ, denN (runOp2 op m).2.tbl u σ = denN m.tbl u σ) ∧
    (runOp2 op m).2.ref[u.natAbs]? =
      some (indeg (runOp2 op m).2.tbl u.natAbs + ledger2 op m ext u.natAbs +
        (if u.natAbs = 1 then 1 else 0)) := by
  obtain ⟨hm', hd⟩ := step2_heldSame m ext op h hg u hu
  exact ⟨h.good.exact.mem_of_ext_pos hu, hm', hd, (step2_inv m ext op h hg).good.exact.get hm'⟩

/-- a REJECTED call (any operation, any argument) does not touch the user's ledger -/
theorem rejected2_ledger (m : Mgr) (ext : Nat → Nat) (op : UOp2) (h : Good2 m ext) (hg : OpGuard2 m ext op)
    (e : Err) (hrej : (runOp2 op m).1 = .error e) : ledger2 op m ext = ext := by
  cases op with
  | base o => exact (rejected_kept m ext o h.good hg e hrej).2
  | _ => rfl

/-! ### histories -/

def step2 (op : UOp2) (s : St) : St := ⟨(runOp2 op s.m).2, ledger2 op s.m s.ext⟩

def run2 : List UOp2 → St → St
  | [], s => s
  | op :: ops, s => run2 ops (step2 op s)

/-- every call of the history respects the obligations at the state it is issued in -/
def Ops2Guarded : List UOp2 → St → Prop
  | [], _ => True
  | op :: ops, s => OpGuard2 s.m s.ext op ∧ Ops2Guarded ops (step2 op s)

/-- the answers of the calls of a history, in order -/
def results2 : List UOp2 → St → List (Except Err Res)
  | [], _ => []
  | op :: ops, s => (runOp2 op s.m).1 :: results2 ops (step2 op s)

instance decOps2Guarded : (ops : List UOp2) → (s : St) → Decidable (Ops2Guarded ops s)
  | [], _ => isTrue trivial
  | op :: ops, s => by
    unfold Ops2Guarded
    exact @instDecidableAnd _ _ _ (decOps2Guarded ops (step2 op s))

theorem run2_append (a b : List UOp2) (s : St) : run2 (a ++ b) s = run2 b (run2 a s) := by
  induction a generalizing s with
  | nil => rfl
  | cons op a ih => exact ih (step2 op s)

theorem ops2Guarded_append (a b : List UOp2) (s : St) :
    Ops2Guarded (a ++ b) s ↔ (Ops2Guarded a s ∧ Ops2Guarded b (run2 a s)) := by
  induction a generalizing s with
  | nil => simp [Ops2Guarded, run2]
  | cons op a ih =>
    simp only [List.cons_append, Ops2Guarded, run2, ih (step2 op s), and_assoc]

/-- a history of embedded operations is a history -/
theorem run2_base (ops : List UOp) (s : St) : run2 (ops.map .base) s = run ops s := by
  induction ops generalizing s with
  | nil => rfl
  | cons op ops ih => exact ih (step op s)

theorem ops2Guarded_base (ops : List UOp) (s : St) :
    Ops2Guarded (ops.map .base) s ↔ OpsGuarded ops s := by
  induction ops generalizing s with
  | nil => exact Iff.rfl
  | cons op ops ih => exact and_congr Iff.rfl (ih (step op s))

/-- a guarded history from ANY good state ends in a good state -/
theorem run2_inv (ops : List UOp2) (s : St) (h : Good2 s.m s.ext) (hg : Ops2Guarded ops s) :
    Good2 (run2 ops s).m (run2 ops s).ext := by
  induction ops generalizing s with
  | nil => exact h
  | cons op ops ih => exact ih (step2 op s) (step2_inv s.m s.ext op h hg.1) hg.2

/-- **`reachable2_inv`**: every state reached from the empty manager by a guarded history of user
operations, collections, level swaps, siftings, reorderings to a given order, declarations and
removals of variables — whatever their arguments, whichever of them were rejected — is good. -/
theorem reachable2_inv (ops : List UOp2) (hg : Ops2Guarded ops St.init) :
    Good2 (run2 ops St.init).m (run2 ops St.init).ext :=
  run2_inv ops St.init Good2.init hg

/-- a reference the user holds and does not release stays a node and keeps its function of the
variable NAMES through ANY guarded continuation of the history, reorderings included -/
theorem run2_held (ops : List UOp2) (s : St) (h : Good2 s.m s.ext) (hg : Ops2Guarded ops s) (u : Int)
    (hheld : ∀ (pre post : List UOp2), ops = pre ++ post → 0 < (run2 pre s).ext u.natAbs) :
    (run2 ops s).m.tbl.Mem u ∧ ∀ σ, denN (run2 ops s).m.tbl u σ = denN s.m.tbl u σ := by
  induction ops generalizing s with
  | nil => exact ⟨h.good.exact.mem_of_ext_pos (hheld [] [] rfl), fun _ => rfl⟩
  | cons op ops ih =>
    have h0 : 0 < s.ext u.natAbs := hheld [] (op :: ops) rfl
    obtain ⟨-, hd1⟩ := step2_heldSame s.m s.ext op h hg.1 u h0
    obtain ⟨hm2, hd2⟩ := ih (step2 op s) (step2_inv s.m s.ext op h hg.1) hg.2
      (fun pre post he => hheld (op :: pre) post (by rw [he]; rfl))
    exact ⟨hm2, fun σ => (hd2 σ).trans (hd1 σ)⟩

/-- with the default iteration order (`sch = []`) the guard of a reordering call holds in every
good state: the obligations on reorderings are about recorded schedules only -/
theorem guard2_default (m : Mgr) (ext : Nat → Nat) (h : Good2 m ext) :
    (∀ x y, OpGuard2 m ext (.swap [] x y)) ∧ OpGuard2 m ext (.sift []) ∧
    (∀ o, OpGuard2 m ext (.reorderTo [] o)) ∧ (∀ vrs, OpGuard2 m ext (.undeclare vrs)) := by
  obtain ⟨a, b, c⟩ := no_sched_report ext { m with sched := [] } (h.reorderInv []) rfl
  exact ⟨fun x y => a x y, b, fun o => c o, fun _ => trivial⟩

/-- two references that agree as functions of the variable NAMES are the same reference, in every
good state -/
theorem canonical_by_name {m : Mgr} {ext : Nat → Nat} (h : Good2 m ext) (u v : Int)
    (hu : m.tbl.Mem u) (hv : m.tbl.Mem v) :
    (∀ σ, denN m.tbl u σ = denN m.tbl v σ) ↔ u = v := by
  constructor
  · intro hs
    exact (canonical _ h.good.inv.wf u v hu hv).mp
      (den_of_denN_tbl h.good.inv.wf.toWF h.good.order u v hu hv hs)
  · rintro rfl σ; rfl

end DD
