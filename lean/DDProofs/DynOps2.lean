/-
  DDProofs.DynOps2 — more instances of the generic transparency theorem: `compose`
  (`let` with references), `rename` (`let` with names), `let`, and `apply` for the binary
  propositional connectives of the regenerated table.
-/
import DDProofs.DynOps
open Std

namespace DD

/-! ### `compose` -/

/-- the name assignment seen by the operand of a simultaneous substitution `{name: g}` -/
def subN (t : Tbl) (varSub : List (String × Int)) (σ : AsgN) : AsgN := fun s =>
  match varSub.lookup s with
  | some g => denN t g σ
  | none => σ s

/-- documented result of `compose(f, var_sub)` (= `let` with references), by name -/
def ComposeDoc (varSub : List (String × Int)) (f : Int) (t : Tbl) (r : Int) (t' : Tbl) : Prop :=
  t'.Mem r ∧ ∀ σ, denN t' r σ = denN t f (subN t varSub σ)

/-- the level-indexed substitution read on name assignments -/
theorem vsub_lift {t : Tbl} (hO : OrderOK t) (varSub : List (String × Int))
    (hdecl : ∀ p ∈ varSub, t.vars.contains p.1 = true) (σ : AsgN) {i : Nat} (hi : i < t.nvars) :
    vsub t (subOf t varSub) (t.lift σ) i = t.lift (subN t varSub σ) i := by
  show _ = subN t varSub σ (t.nameOf i)
  unfold vsub subN subOf
  rw [lookup_lvlOf hO hi varSub hdecl]
  cases varSub.lookup (t.nameOf i) <;> rfl

/-- body of `compose` inside a context: the level-indexed documented result, or abort -/
theorem composeBody_out_lvl (m0 : Mgr) (hI0 : Inv m0) (hq : Quiet m0) (f : Int)
    (hf : m0.tbl.Mem f) (varSub : List (String × Int))
    (hdecl : ∀ p ∈ varSub, m0.tbl.vars.contains p.1 = true)
    (hmem : ∀ p ∈ varSub, m0.tbl.Mem p.2) :
    Outcome m0 (fun r m1 => m1.tbl.Mem r ∧
        ∀ a, den m1.tbl r a = den m0.tbl f (vsub m0.tbl (subOf m0.tbl varSub) a))
      (composeBody f varSub m0) := by
  have hW := hI0.wf.toWF
  by_cases hlen : varSub.length = 1
  · match varSub, hlen, hdecl, hmem with
    | [(v, g)], _, hdecl, hmem =>
      obtain ⟨j, hj⟩ := (vars_contains_iff m0.tbl v).mp (hdecl (v, g) List.mem_cons_self)
      have hg : m0.tbl.Mem g := hmem (v, g) List.mem_cons_self
      unfold composeBody
      simp only [levelOfVarE_ok hj]
      rcases (composeF_out j (2 * m0.nvars + 4) m0 f g {} hI0 hq hf hg (KMemo.empty _ _)
        (by omega)).cases with ⟨r, c, m1, he, hs, _, hp⟩ | ⟨m1, he, hs, ha⟩
      rotate_left
      · rw [he]; exact ⟨rfl, hs, ha⟩
      rw [he]
      refine ⟨hs, hp.mr, fun a => ?_⟩
      rw [hp.den a, den_ext hs.ext hW g a hg, den_ext hs.ext hW f _ hf]
      simp only [subOf, List.map_cons, List.map_nil, lvlOf_eq hj]
      rw [vsub_single]
  · have hsm : SubMem m0.tbl (subOf m0.tbl varSub) := by
      intro i g hl
      have := lookup_some_mem i g _ hl
      obtain ⟨p, hp, heq⟩ := List.mem_map.mp this
      cases heq
      exact hmem p hp
    have hmap : mapME (subLevelE m0.tbl) varSub = .ok (subOf m0.tbl varSub) := by
      apply mapME_ok
      intro p hp
      obtain ⟨l, hl⟩ := (vars_contains_iff m0.tbl p.1).mp (hdecl p hp)
      simp [subLevelE, levelOfVarE, hl, lvlOf]
    have hb : composeBody f varSub m0 =
        (match vectorComposeF (subOf m0.tbl varSub) (m0.nvars + 2) f {} m0 with
         | (.error e, m1) => (.error e, m1)
         | (.ok (r, _), m1) => (.ok r, m1)) := by
      unfold composeBody
      split
      · next v g => simp at hlen
      · simp only [hmap]
        generalize vectorComposeF (subOf m0.tbl varSub) (m0.nvars + 2) f {} m0 = res
        rcases res with ⟨_ | ⟨_, _⟩, _⟩ <;> rfl
    rw [hb]
    rcases (vectorComposeF_out (subOf m0.tbl varSub) (m0.nvars + 2) m0 f {} hI0 hq hf hsm
      (VMemo.empty _ _) (by omega)).cases with ⟨r, c, m1, he, hs, _, hp⟩ | ⟨m1, he, hs, ha⟩
    rotate_left
    · rw [he]; exact ⟨rfl, hs, ha⟩
    rw [he]
    refine ⟨hs, hp.mr, fun a => ?_⟩
    rw [hp.den a, den_ext hs.ext hW f _ hf, vsub_ext hs.ext hW hsm]

theorem composeBody_out (m0 : Mgr) (hI0 : Inv m0) (hq : Quiet m0) (hO : OrderOK m0.tbl) (f : Int)
    (hf : m0.tbl.Mem f) (varSub : List (String × Int))
    (hdecl : ∀ p ∈ varSub, m0.tbl.vars.contains p.1 = true)
    (hmem : ∀ p ∈ varSub, m0.tbl.Mem p.2) :
    Outcome m0 (fun r m1 => ComposeDoc varSub f m0.tbl r m1.tbl) (composeBody f varSub m0) := by
  have hW := hI0.wf.toWF
  refine (composeBody_out_lvl m0 hI0 hq f hf varSub hdecl hmem).mono ?_
  intro r m1 hs ⟨hr, hd⟩
  refine ⟨hr, fun σ => ?_⟩
  have hl : m1.tbl.lift σ = m0.tbl.lift σ := by
    unfold Tbl.lift Tbl.nameOf; rw [hs.frame.l2v]
  unfold denN
  rw [hd, hl]
  apply den_agree_ge m0.tbl hW f hf
  intro i _ hi
  exact vsub_lift hO varSub hdecl σ hi

/-- C09 for `compose` (`let` with references): the operand and the substituted references are
held by the user, the substituted names are declared -/
theorem compose_transparent (ext : Nat → Nat) (hS : SiftContract ext) (m : Mgr)
    (hD : DynInv ext m) (f : Int) (hf : HeldX ext f) (varSub : List (String × Int))
    (hdecl : ∀ p ∈ varSub, m.tbl.vars.contains p.1 = true)
    (hheld : ∀ p ∈ varSub, HeldX ext p.2) :
    ∃ r m', compose f varSub m = (.ok r, m') ∧ DynPostG ext (ComposeDoc varSub f) m r m' := by
  unfold compose
  refine tryToReorder_transparent ext hS (composeBody f varSub) (f :: varSub.map (·.2))
    (fun t => ∀ p ∈ varSub, t.vars.contains p.1 = true) (ComposeDoc varSub f) ?_ ?_ ?_ m hD ?_ hdecl
  · intro m0 hI0 hc hO hpre hmem
    exact composeBody_out m0 hI0 (Or.inl hc) hO f (hmem f List.mem_cons_self) varSub hpre
      (fun p hp => hmem p.2 (List.mem_cons_of_mem _ (List.mem_map.mpr ⟨p, hp, rfl⟩)))
  · intro t t' hB hpre p hp
    rw [hB.names p.1]; exact hpre p hp
  · intro t t' r t'' hB _ hd
    refine ⟨hd.1, fun σ => ?_⟩
    rw [hd.2 σ, (hB.ops f List.mem_cons_self).2]
    have : subN t' varSub σ = subN t varSub σ := by
      funext s
      unfold subN
      cases hl : varSub.lookup s with
      | none => rfl
      | some g =>
        have hg : g ∈ f :: varSub.map (·.2) :=
          List.mem_cons_of_mem _ (List.mem_map.mpr ⟨(s, g), lookup_some_mem s g _ hl, rfl⟩)
        exact (hB.ops g hg).2 σ
    rw [this]
  · intro w hw
    rcases List.mem_cons.mp hw with rfl | hw
    · exact hf
    · obtain ⟨p, hp, rfl⟩ := List.mem_map.mp hw
      exact hheld p hp

/-! ### `rename` -/

theorem OrderOK.varsBij {t : Tbl} (h : OrderOK t) : VarsBij t :=
  ⟨fun v i hv => (h.inv v i).mp hv, fun i v hl => (h.inv v i).mpr hl, h.lt,
   fun i hi => by
     obtain ⟨v, hv⟩ := h.total i hi
     exact ⟨v, (h.inv v i).mpr hv⟩⟩

/-- documented result of `rename(u, dvars)` (= `let` with names), by name: every variable is
read at its target name -/
def RenameDoc (dvars : List (String × String)) (u : Int) (t : Tbl) (r : Int) (t' : Tbl) : Prop :=
  t'.Mem r ∧ ∀ σ, denN t' r σ = denN t u (fun s => σ (tgtName dvars s))

theorem renameBody_out (m0 : Mgr) (hI0 : Inv m0) (hq : Quiet m0) (hO : OrderOK m0.tbl) (u : Int)
    (hu : m0.tbl.Mem u) (dvars : List (String × String))
    (hd : ∀ p ∈ dvars, m0.tbl.vars.contains p.2 = true) :
    Outcome m0 (fun r m1 => RenameDoc dvars u m0.tbl r m1.tbl) (renameBody u dvars m0) := by
  have hW := hI0.wf.toWF
  have hV := hO.varsBij
  have hmem : m0.mem u = true := (Mgr.mem_iff m0 u).mpr hu
  -- the level-indexed statement implies the statement by name
  have hname : ∀ (r : Int) (m1 : Mgr), StepK m0 m1 → m1.tbl.Mem r →
      (∀ a, den m1.tbl r a = den m0.tbl u (fun i => a (renLevel m0.tbl dvars i))) →
      RenameDoc dvars u m0.tbl r m1.tbl := by
    intro r m1 hs hr hden
    refine ⟨hr, fun σ => ?_⟩
    have hl : m1.tbl.lift σ = m0.tbl.lift σ := by
      unfold Tbl.lift Tbl.nameOf; rw [hs.frame.l2v]
    unfold denN
    rw [hden, hl]
    apply den_agree_ge m0.tbl hW u hu
    intro i _ hi
    obtain ⟨v, hv⟩ := hO.total i hi
    show m0.tbl.lift σ (renLevel m0.tbl dvars i) = σ (tgtName dvars (m0.tbl.nameOf i))
    have hvd : m0.tbl.vars.contains v = true :=
      (vars_contains_iff _ _).mpr ⟨i, (hO.inv v i).mpr hv⟩
    obtain ⟨l, hl'⟩ := (vars_contains_iff m0.tbl _).mp (tgtName_declared m0.tbl dvars hd v hvd)
    simp only [renLevel, hv, OrderOK.nameOf_eq hv, lvlOf_eq hl']
    show σ (m0.tbl.nameOf l) = _
    rw [hO.nameOf_level hl']
  by_cases hemp : dvars.isEmpty = true
  · have hb : renameBody u dvars m0 = (.ok u, m0) := by
      unfold renameBody
      simp only [hmem, Bool.not_true, Bool.false_eq_true, if_false, hemp, if_true]
    rw [hb]
    refine ⟨StepK.refl hI0, hname u m0 (StepK.refl hI0) hu ?_⟩
    intro a
    apply den_agree_ge m0.tbl hW u hu
    intro i _ hlt
    obtain ⟨v, hv⟩ := hV.onto i hlt
    have hd0 : dvars = [] := List.isEmpty_iff.mp hemp
    simp [renLevel, hV.v2l _ _ hv, hd0, tgtName, lvlOf, hv]
  · generalize hlm : (m0.tbl.vars.toList.map fun vl => (vl.2, lvlOf m0.tbl (tgtName dvars vl.1))) = lm
    have hlook : ∀ i v, m0.tbl.vars[v]? = some i →
        lm.lookup i = some (lvlOf m0.tbl (tgtName dvars v)) := by
      intro i v hv; rw [← hlm]; exact renameMap_lookup m0.tbl hV dvars i v hv
    have htl : ∀ v, m0.tbl.vars.contains v = true →
        lvlOf m0.tbl (tgtName dvars v) < m0.tbl.nvars := by
      intro v hv
      obtain ⟨l, hl⟩ := (vars_contains_iff m0.tbl _).mp (tgtName_declared m0.tbl dvars hd v hv)
      rw [lvlOf_eq hl]; exact hV.lt _ _ hl
    have hb : renameBody u dvars m0 =
        (match copyBddF none lm (m0.nvars + 2) u {} m0 with
         | (.error e, m1) => (.error e, m1)
         | (.ok (r, _), m1) => (.ok r, m1)) := by
      unfold renameBody
      simp only [hmem, Bool.not_true, Bool.false_eq_true, if_false, hemp,
        renameMap_ok m0.tbl dvars hd, hlm]
      generalize copyBddF none lm (m0.nvars + 2) u {} m0 = res
      rcases res with ⟨_ | ⟨_, _⟩, _⟩ <;> rfl
    rw [hb]
    rcases (copyBddF_out none lm m0.tbl hW (m0.nvars + 2) m0 u {} hI0 hq (Ext.refl _) hu
      (CMemo.empty _ _ _)
      (by
        intro i hi
        obtain ⟨v, hv⟩ := hV.onto i (hi.lt_nvars hW)
        exact ⟨_, hlook i v hv, htl v ((vars_contains_iff _ _).mpr ⟨i, hv⟩)⟩)
      (by show m0.tbl.nvars + 1 ≤ _; have : m0.nvars = m0.tbl.nvars := rfl; omega)).cases with
      ⟨r, c, m1, he, hs, _, hp⟩ | ⟨m1, he, hs, ha⟩
    rotate_left
    · rw [he]; exact ⟨rfl, hs, ha⟩
    rw [he]
    refine ⟨hs, hname r m1 hs hp.mr ?_⟩
    intro a
    rw [hp.den a]
    apply den_agree_ge m0.tbl hW u hu
    intro i _ hlt
    obtain ⟨v, hv⟩ := hV.onto i hlt
    simp [cmap, hlook i v hv, renLevel, hV.v2l _ _ hv]

/-- C09 for `rename` (`let` with names): the target names are declared -/
theorem rename_transparent (ext : Nat → Nat) (hS : SiftContract ext) (m : Mgr)
    (hD : DynInv ext m) (u : Int) (hu : HeldX ext u) (dvars : List (String × String))
    (hd : ∀ p ∈ dvars, m.tbl.vars.contains p.2 = true) :
    ∃ r m', rename u dvars m = (.ok r, m') ∧ DynPostG ext (RenameDoc dvars u) m r m' := by
  unfold rename
  refine tryToReorder_transparent ext hS (renameBody u dvars) [u]
    (fun t => ∀ p ∈ dvars, t.vars.contains p.2 = true) (RenameDoc dvars u) ?_ ?_ ?_ m hD ?_ hd
  · intro m0 hI0 hc hO hpre hmem
    exact renameBody_out m0 hI0 (Or.inl hc) hO u (hmem u (by simp)) dvars hpre
  · intro t t' hB hpre p hp
    rw [hB.names p.2]; exact hpre p hp
  · intro t t' r t'' hB _ hdoc
    refine ⟨hdoc.1, fun σ => ?_⟩
    rw [hdoc.2 σ, (hB.ops u (by simp)).2]
  · intro w hw
    simp only [List.mem_cons, List.not_mem_nil, or_false] at hw
    subst hw; exact hu

end DD
