/-
  DDProofs.AutoCore — discharge of the hypotheses of the autoref theorems
  (`CoreKeeps`) from the core theorems, for managers in which dynamic reordering is
  not enabled (`lastLen = none`, mode `off = true`), and for `collect_garbage` in
  every mode.

  The core theorems give `Inv`, `Ext`, `Frame` (DDProofs.Total: `ite_total`,
  `apply_total`, …) and exact counts through `find_or_add` (DDProofs.RefCount).
  What is added here: exact counts through `_ite` (`iteF_refExact_auto`), and the
  packaging into `CoreKeeps`.
-/
import DDProofs.AutoProofs
import DDProofs.AutoTemps
import DDProofs.Total
import DDProofs.SubstWrappers
open Std

namespace DD

/-- closedness, disabled reordering and exact counts after a computation that never
raises the reordering signal -/
def RKpost (ext : Nat → Nat) {α : Type} (res : Except Err α × Mgr) : Prop :=
  res.2.tbl.Closed ∧ res.2.lastLen = none ∧ RefExact res.2 ext ∧ res.1 ≠ .error .needsReordering

theorem topCofactor_ne_signal (t : Tbl) (u : Int) (i : Nat) :
    topCofactor t u i ≠ .error .needsReordering := by
  unfold topCofactor
  split
  · simp
  · split
    · simp
    · split
      · simp
      · split
        · simp
        · split <;> simp

/-- `find_or_add` keeps every stored edge pointing to a stored node -/
theorem findOrAddCore_closed (m : Mgr) (ext : Nat → Nat) (i : Nat) (v w : Int)
    (hc : m.tbl.Closed) (hr : RefExact m ext) : (findOrAddCore i v w m).2.tbl.Closed := by
  rcases findOrAddCore_cases m i v w (fun u hu => hr.isSome u hu) with h | ⟨hv, hw, _, hfree, n, c1, c2, hlo, hhi, _, _, _, h⟩
  · rw [h]; exact hc
  · rw [h]
    have hext : Ext m.tbl { m.tbl with succ := m.tbl.succ.insert m.minFree n } := ext_insert m.tbl m.minFree n hfree
    intro k x hk
    have hk' : ({ m.tbl with succ := m.tbl.succ.insert m.minFree n } : Tbl).node? k = some x := hk
    rw [node?_insert] at hk'
    by_cases hkk : m.minFree = k
    · rw [if_pos hkk] at hk'
      cases hk'
      constructor
      · have : m.tbl.Mem n.lo := by
          show n.lo.natAbs = 1 ∨ _
          rw [hlo]; exact hv
        exact hext.mem this
      · have : m.tbl.Mem n.hi := by
          show n.hi.natAbs = 1 ∨ _
          rw [hhi]; exact hw
        exact hext.mem this
    · rw [if_neg hkk] at hk'
      obtain ⟨h1, h2⟩ := hc k x hk'
      exact ⟨hext.mem h1, hext.mem h2⟩

theorem findOrAddCore_lastLen (m : Mgr) (ext : Nat → Nat) (i : Nat) (v w : Int) (hr : RefExact m ext) :
    (findOrAddCore i v w m).2.lastLen = m.lastLen := by
  rcases findOrAddCore_cases m i v w (fun u hu => hr.isSome u hu) with h | ⟨_, _, _, _, n, c1, c2, _, _, _, _, _, h⟩
  · rw [h]
  · rw [h]

theorem incref_err_key {u : Int} {m m' : Mgr} {e : Err} (h : incref u m = (.error e, m')) : e = .key := by
  unfold incref at h
  split at h
  · cases h; rfl
  · cases h

theorem findOrAddCore_ne_signal (m : Mgr) (i : Nat) (v w : Int) :
    (findOrAddCore i v w m).1 ≠ .error .needsReordering := by
  unfold findOrAddCore
  split
  · simp
  split
  · simp
  split
  · simp
  dsimp only
  generalize (if w < 0 then -v else v) = v'
  generalize (if w < 0 then -w else w) = w'
  generalize (if w < 0 then (-1:Int) else 1) = r
  split
  · simp
  split
  · simp
  split
  · simp
  split
  · simp
  split
  · next e m2 heq => rw [incref_err_key heq]; simp
  · split
    · next e m3 heq => rw [incref_err_key heq]; simp
    · simp

/-- with reordering not enabled, `find_or_add` is the raw operation after the test of the level -/
theorem findOrAdd_off_eq (m : Mgr) (ho : m.lastLen = none) (i : Int) (v w : Int) :
    findOrAdd i v w m = if i < 0 then (.error .value, m) else findOrAddCore i.toNat v w m := by
  have hq : requestReordering m = (.ok (), m) := by unfold requestReordering; rw [ho]
  unfold findOrAdd
  by_cases hc : m.ctx = true
  · simp only [hc, if_true, hq]
  · simp only [hc, Bool.false_eq_true, if_false]

theorem findOrAdd_rk (ext : Nat → Nat) (m : Mgr) (i v w : Int)
    (hc : m.tbl.Closed) (ho : m.lastLen = none) (hr : RefExact m ext) :
    RKpost ext (findOrAdd i v w m) := by
  rw [findOrAdd_off_eq m ho]
  split
  · exact ⟨hc, ho, hr, by simp⟩
  · exact ⟨findOrAddCore_closed m ext _ v w hc hr,
      by rw [findOrAddCore_lastLen m ext _ v w hr]; exact ho,
      findOrAddCore_refExact_of_closed m ext _ v w hc hr, findOrAddCore_ne_signal m _ v w⟩

/-- exact counts through `_ite` (reordering not enabled): every state change inside is a
`find_or_add` or an insertion into the computed table -/
theorem iteF_refExact_auto (ext : Nat → Nat) : ∀ (f : Nat) (m : Mgr) (g u v : Int),
    m.tbl.Closed → m.lastLen = none → RefExact m ext → RKpost ext (iteF f g u v m) := by
  intro f
  induction f with
  | zero =>
    intro m g u v hc ho hr
    exact ⟨hc, ho, hr, by simp [iteF]⟩
  | succ f ih =>
    intro m g u v hc ho hr
    have hbase : ∀ (e : Err), e ≠ .needsReordering →
        RKpost ext ((Except.error e, m) : Except Err Int × Mgr) :=
      fun e he => ⟨hc, ho, hr, by simpa using he⟩
    unfold iteF
    by_cases hg1 : g = 1
    · simp only [hg1, if_true]
      exact ⟨hc, ho, hr, by simp⟩
    · simp only [hg1, if_false]
      by_cases hgm1 : g = -1
      · simp only [hgm1, if_true]
        exact ⟨hc, ho, hr, by simp⟩
      · simp only [hgm1, if_false]
        cases hcache : m.cache[iteKey g u v]? with
        | some w =>
          simp only
          exact ⟨hc, ho, hr, by simp⟩
        | none =>
          simp only
          split
          · next lg lu lv _ _ _ =>
            split
            · next g0 g1 u0 u1 v0 v1 _ _ _ =>
              have h1 := ih m g0 u0 v0 hc ho hr
              generalize iteF f g0 u0 v0 m = res1 at h1 ⊢
              obtain ⟨r1, m1⟩ := res1
              cases r1 with
              | error e => exact h1
              | ok p =>
                simp only
                have h2 := ih m1 g1 u1 v1 h1.1 h1.2.1 h1.2.2.1
                generalize iteF f g1 u1 v1 m1 = res2 at h2 ⊢
                obtain ⟨r2, m2⟩ := res2
                cases r2 with
                | error e => exact h2
                | ok q =>
                  simp only
                  have h3 := findOrAdd_rk ext m2 (↑(min lg (min lu lv))) p q h2.1 h2.2.1 h2.2.2.1
                  generalize findOrAdd (↑(min lg (min lu lv))) p q m2 = res3 at h3 ⊢
                  obtain ⟨r3, m3⟩ := res3
                  cases r3 with
                  | error e => exact h3
                  | ok w =>
                    simp only
                    exact ⟨h3.1, h3.2.1, ⟨h3.2.2.1.dom, h3.2.2.1.cnt, h3.2.2.1.extZero⟩, by simp⟩
            all_goals
              refine hbase _ (fun h => ?_)
              subst h
              first
                | exact absurd (by assumption) (topCofactor_ne_signal m.tbl g _)
                | exact absurd (by assumption) (topCofactor_ne_signal m.tbl u _)
                | exact absurd (by assumption) (topCofactor_ne_signal m.tbl v _)
          · exact hbase _ (by simp)

theorem RKpost.setCtx {ext : Nat → Nat} {α : Type} {r : Except Err α} {m1 : Mgr} (c : Bool)
    (h : RKpost ext (r, m1)) : RKpost ext (r, { m1 with ctx := c }) :=
  ⟨h.1, h.2.1, ⟨h.2.2.1.dom, h.2.2.1.cnt, h.2.2.1.extZero⟩, h.2.2.2⟩

/-- the decorator around a body that never signals (reordering not enabled) -/
theorem tryToReorder_rk {α : Type} (ext : Nat → Nat) (f : M α) (m : Mgr)
    (h : RKpost ext (f { m with ctx := true })) : RKpost ext (tryToReorder f m) := by
  generalize hres : f { m with ctx := true } = res at h
  obtain ⟨r, m1⟩ := res
  cases r with
  | ok a => rw [tryToReorder_ok f m a m1 hres]; exact h.setCtx _
  | error e =>
    have hne : e ≠ .needsReordering := fun he => h.2.2.2 (by rw [he])
    rw [tryToReorder_err f m e m1 hres hne]; exact h.setCtx _

theorem ite_rk (ext : Nat → Nat) (m : Mgr) (g u v : Int)
    (hc : m.tbl.Closed) (ho : m.lastLen = none) (hr : RefExact m ext) : RKpost ext (ite g u v m) := by
  unfold ite
  apply tryToReorder_rk
  have : iteRaw g u v { m with ctx := true } = iteF (m.nvars + 2) g u v { m with ctx := true } := by
    simp [iteRaw, bind, M.bind', M.get, Mgr.nvars]
  rw [this]
  exact iteF_refExact_auto ext _ _ g u v hc ho ⟨hr.dom, hr.cnt, hr.extZero⟩

/-- a step that only adds nodes and keeps the order keeps the meaning (by name) of every node -/
theorem heldExt_of_kept {m m' : Mgr} (hI : Inv m) (h : Kept m m') (ext : Nat → Nat) :
    HeldExt m.tbl m'.tbl ext := by
  intro u hu _
  obtain ⟨hm, hd⟩ := h.den hI u hu
  exact ⟨hm, fun σ => denN_of_same_l2v h.frame.l2v u σ hd⟩

/-- packaging: `Kept` (invariant, extension, frame) and exact counts give `CoreKeepsAt` -/
theorem coreKeepsAt_of_kept {α : Type} {off : Bool} {op : M α} {m : Mgr}
    (hk : Inv m → ModeOK off m → Kept m (op m).2)
    (hr : ∀ ext, Inv m → ModeOK off m → RefExact m ext → RefExact (op m).2 ext) :
    CoreKeepsAt off m op := by
  intro ext hm hi hc r m' he
  have h2 : (op m).2 = m' := by rw [he]
  have k := hk hi hm
  rw [h2] at k
  have r' := hr ext hi hm hc
  rw [h2] at r'
  exact ⟨k.inv, r', heldExt_of_kept hi k ext, fun ho => by rw [k.frame.lastLen]; exact hm ho⟩

/-- `BDD.ite(g, u, v)` on ARBITRARY integers, reordering not enabled -/
theorem ite_keepsOff (g u v : Int) : CoreKeeps true (ite g u v) :=
  ⟨fun m => coreKeepsAt_of_kept
    (fun hi hm => ite_total m hi (hm rfl) g u v)
    (fun ext hi hm hc => (ite_rk ext m g u v hi.wf.toWF.closed (hm rfl) hc).2.2.1)⟩

/-- an operator alias that does not quantify -/
def NonQuant (op : String) : Prop :=
  ∀ row, findRow op Gen.applyTable = some row → ∀ fa f b, row.templ ≠ .quant fa f b

/-- exact counts through `apply` for the aliases that do not quantify -/
theorem apply_refExact_nq (ext : Nat → Nat) (m : Mgr) (op : String) (u : Int) (v w : Option Int)
    (hnq : NonQuant op) (hc : m.tbl.Closed) (ho : m.lastLen = none) (hr : RefExact m ext) :
    RefExact (apply op u v w m).2 ext := by
  unfold apply
  cases assertOperatorArity op v w with
  | error e => exact hr
  | ok _ =>
    simp only
    split
    · exact hr
    · split
      · exact hr
      · split
        · exact hr
        · cases hrow : findRow op Gen.applyTable with
          | none => exact hr
          | some row =>
            simp only
            cases ht : row.templ with
            | neg => exact hr
            | notImpl => exact hr
            | bad => exact hr
            | quant fa f b => exact absurd ht (hnq row hrow fa f b)
            | ite a b c =>
              simp only
              cases v with
              | none => exact hr
              | some vv =>
                simp only
                split
                · exact hr
                · split
                  · exact (ite_rk ext m _ _ _ hc ho hr).2.2.1
                  · exact hr
                  · exact hr
                  · exact hr

/-- `BDD.apply(op, u, v, w)` with ANY arity and operands, for the aliases that do not quantify
(reordering not enabled) -/
theorem apply_keepsOff (op : String) (u : Int) (v w : Option Int) (hnq : NonQuant op) :
    CoreKeeps true (apply op u v w) :=
  ⟨fun m => coreKeepsAt_of_kept
    (fun hi hm => apply_total m hi (hm rfl) op u v w hnq)
    (fun ext hi hm hc => apply_refExact_nq ext m op u v w hnq hi.wf.toWF.closed (hm rfl) hc)⟩

/-- the aliases that `Function.__invert__ / __and__ / __or__ / implies / equiv` and `__le__` use -/
theorem nonQuant_not : NonQuant "not" := by
  intro row h; simp [Gen.applyTable, findRow] at h; subst h; intro fa f b; simp
theorem nonQuant_or : NonQuant "or" := by
  intro row h; simp [Gen.applyTable, findRow] at h; subst h; intro fa f b; simp
theorem nonQuant_and : NonQuant "and" := by
  intro row h; simp [Gen.applyTable, findRow] at h; subst h; intro fa f b; simp
theorem nonQuant_implies : NonQuant "implies" := by
  intro row h; simp [Gen.applyTable, findRow] at h; subst h; intro fa f b; simp
theorem nonQuant_equiv : NonQuant "equiv" := by
  intro row h; simp [Gen.applyTable, findRow] at h; subst h; intro fa f b; simp

/-! ### `var` -/

theorem kept_setCtx {m m1 : Mgr} (h : Kept { m with ctx := true } m1) : Kept m { m1 with ctx := m.ctx } :=
  ⟨h.inv.setCtx _, h.ext,
   ⟨h.frame.vars, h.frame.l2v, h.frame.lastLen, rfl, h.frame.sched, h.frame.roots⟩⟩

/-- the decorator around a body that is `Kept` and never signals -/
theorem tryToReorder_kept {α : Type} (f : M α) (m : Mgr)
    (hk : Kept { m with ctx := true } (f { m with ctx := true }).2)
    (hs : (f { m with ctx := true }).1 ≠ .error .needsReordering) :
    Kept m (tryToReorder f m).2 := by
  generalize hres : f { m with ctx := true } = res at hk hs
  obtain ⟨r, m1⟩ := res
  cases r with
  | ok a => rw [tryToReorder_ok f m a m1 hres]; exact kept_setCtx hk
  | error e =>
    have hne : e ≠ .needsReordering := fun he => hs (by rw [he])
    rw [tryToReorder_err f m e m1 hres hne]; exact kept_setCtx hk

/-- the body of `var` -/
def varBody (name : String) : M Int := do
  let m ← M.get
  match m.tbl.vars[name]? with
  | none => M.throw .value
  | some j => findOrAdd j (-1) 1

theorem var_eq (name : String) : var name = tryToReorder (varBody name) := rfl

theorem varBody_eq (name : String) (m : Mgr) (ho : m.lastLen = none) :
    varBody name m = match m.tbl.vars[name]? with
      | none => (.error .value, m)
      | some j => findOrAddCore j (-1) 1 m := by
  unfold varBody
  show (match m.tbl.vars[name]? with | none => M.throw .value | some j => findOrAdd (↑j) (-1) 1) m = _
  cases m.tbl.vars[name]? with
  | none => rfl
  | some j =>
    simp only
    rw [findOrAdd_off_eq m ho]
    have : ¬ ((j : Int) < 0) := by omega
    simp [this]

theorem foaGuard_terminals (m : Mgr) (j : Nat) : FoaGuard m j (-1) 1 := by
  intro hj _ _
  have h1 : m.tbl.levelOf (-1) = m.tbl.nvars := by simp [Tbl.levelOf]
  have h2 : m.tbl.levelOf 1 = m.tbl.nvars := by simp [Tbl.levelOf]
  rw [h1, h2]; exact ⟨hj, hj⟩

theorem varBody_kept_rk (name : String) (m : Mgr) (ext : Nat → Nat) (hi : Inv m)
    (ho : m.lastLen = none) (hc : RefExact m ext) :
    Kept m (varBody name m).2 ∧ RKpost ext (varBody name m) := by
  have hcl : m.tbl.Closed := hi.wf.toWF.closed
  rw [varBody_eq name m ho]
  cases m.tbl.vars[name]? with
  | none => exact ⟨Kept.refl hi, hcl, ho, hc, by simp⟩
  | some j =>
    exact ⟨findOrAddCore_total m hi j (-1) 1 (foaGuard_terminals m j),
      findOrAddCore_closed m ext j (-1) 1 hcl hc,
      by rw [findOrAddCore_lastLen m ext j (-1) 1 hc]; exact ho,
      findOrAddCore_refExact_of_closed m ext j (-1) 1 hcl hc, findOrAddCore_ne_signal m j (-1) 1⟩

/-- `BDD.var(name)` for ANY name, reordering not enabled -/
theorem var_keepsOff (name : String) : CoreKeeps true (var name) := by
  refine ⟨fun m => coreKeepsAt_of_kept (fun hi hm => ?_) (fun ext hi hm hc => ?_)⟩
  · rw [var_eq]
    have ho : ({ m with ctx := true } : Mgr).lastLen = none := hm rfl
    apply tryToReorder_kept
    · rw [varBody_eq name _ ho]
      cases ({ m with ctx := true } : Mgr).tbl.vars[name]? with
      | none => exact Kept.refl (hi.setCtx true)
      | some j => exact findOrAddCore_total _ (hi.setCtx true) j (-1) 1 (foaGuard_terminals _ j)
    · rw [varBody_eq name _ ho]
      cases ({ m with ctx := true } : Mgr).tbl.vars[name]? with
      | none => simp
      | some j => exact findOrAddCore_ne_signal _ j (-1) 1
  · rw [var_eq]
    have ho : ({ m with ctx := true } : Mgr).lastLen = none := hm rfl
    have hc' : RefExact { m with ctx := true } ext := ⟨hc.dom, hc.cnt, hc.extZero⟩
    exact (tryToReorder_rk ext (varBody name) m
      (varBody_kept_rk name _ ext (hi.setCtx true) ho hc').2).2.2.1

/-! ### `collect_garbage` (every mode) -/

theorem gc_keeps {off : Bool} : CoreKeeps off (collectGarbage none) := by
  refine ⟨fun m ext hm hi hc r m' he => ?_⟩
  obtain ⟨m2, h2, hp⟩ := collectGarbage_spec m ext hi hc
  rw [h2] at he
  cases he
  refine ⟨hp.inv, hp.refExact, ?_, fun ho => by rw [hp.sub.lastLen]; exact hm ho⟩
  intro u hu hpos
  have hs : u.natAbs = 1 ∨ (m'.tbl.node? u.natAbs).isSome :=
    reach_survives hp.sub hp.inv.toInvS hp.refExact hi.toInvS (GcReach.root hpos)
  have hmem : m'.tbl.Mem u := hs
  refine ⟨hmem, fun σ => denN_of_same_l2v hp.sub.l2v u σ (fun a => ?_)⟩
  exact den_sub hp.sub hp.inv.wf.toWF u hmem a

/-! ### `quantify` -/

/-- exact counts through `_quantify` (reordering not enabled) -/
theorem quantifyF_rk (ext : Nat → Nat) (Q : List Nat) (fa : Bool) :
    ∀ (f : Nat) (m : Mgr) (u : Int) (ordvar : List Nat) (cache : HashMap Int Int),
    m.tbl.Closed → m.lastLen = none → RefExact m ext →
    RKpost ext (quantifyF Q fa f u ordvar cache m) := by
  intro f
  induction f with
  | zero =>
    intro m u ordvar cache hc ho hr
    exact ⟨hc, ho, hr, by simp [quantifyF]⟩
  | succ f ih =>
    intro m u ordvar cache hc ho hr
    have hbase : ∀ {β : Type} (r : Except Err β), r ≠ .error .needsReordering →
        RKpost ext ((r, m) : Except Err β × Mgr) := fun r he => ⟨hc, ho, hr, he⟩
    unfold quantifyF
    split
    · exact hbase _ (by simp)
    split
    · exact hbase _ (by simp)
    split
    · exact hbase _ (by simp)
    split
    · exact hbase _ (by simp)
    dsimp only
    split
    · exact hbase _ (by simp)
    next n _ _ _ =>
    generalize (if u < 0 then -n.lo else n.lo) = v
    generalize (if u < 0 then -n.hi else n.hi) = w
    generalize List.dropWhile (fun x => decide (x < n.lvl)) ordvar = ov
    have h1 := ih m v ov cache hc ho hr
    generalize quantifyF Q fa f v ov cache m = res1 at h1 ⊢
    obtain ⟨r1, m1⟩ := res1
    cases r1 with
    | error e => exact h1
    | ok pc =>
      obtain ⟨p, c1⟩ := pc
      simp only
      have h2 := ih m1 w ov c1 h1.1 h1.2.1 h1.2.2.1
      generalize quantifyF Q fa f w ov c1 m1 = res2 at h2 ⊢
      obtain ⟨r2, m2⟩ := res2
      cases r2 with
      | error e => exact h2
      | ok qc =>
        obtain ⟨q, c2⟩ := qc
        simp only
        have h3 : RKpost ext (if Q.contains n.lvl then
            (if fa then ite p q (-1) m2 else ite p 1 q m2) else findOrAdd n.lvl p q m2) := by
          split
          · split
            · exact ite_rk ext m2 _ _ _ h2.1 h2.2.1 h2.2.2.1
            · exact ite_rk ext m2 _ _ _ h2.1 h2.2.1 h2.2.2.1
          · exact findOrAdd_rk ext m2 _ p q h2.1 h2.2.1 h2.2.2.1
        generalize (if Q.contains n.lvl then
            (if fa then ite p q (-1) m2 else ite p 1 q m2) else findOrAdd n.lvl p q m2) = res3 at h3 ⊢
        obtain ⟨r3, m3⟩ := res3
        cases r3 with
        | error e =>
          refine ⟨h3.1, h3.2.1, h3.2.2.1, ?_⟩
          intro h
          simp only [Except.error.injEq] at h
          exact h3.2.2.2 (by rw [h])
        | ok r => exact ⟨h3.1, h3.2.1, h3.2.2.1, by simp⟩

theorem mapME_err {α β : Type} (f : α → Except Err β) : ∀ (l : List α) (e : Err),
    mapME f l = .error e → ∃ a, f a = .error e
  | [], e, h => by simp [mapME] at h
  | a :: l, e, h => by
    unfold mapME at h
    cases hfa : f a with
    | error e' =>
      rw [hfa] at h
      simp only [Except.error.injEq] at h
      exact ⟨a, by rw [hfa, h]⟩
    | ok b =>
      rw [hfa] at h
      simp only at h
      cases hl : mapME f l with
      | error e' =>
        rw [hl] at h
        simp only [Except.error.injEq] at h
        exact mapME_err f l e (by rw [hl, h])
      | ok bs => rw [hl] at h; cases h

theorem keyVarLevel_err (t : Tbl) (k : Key) (e : Err) (h : keyVarLevel t k = .error e) : e = .key := by
  unfold keyVarLevel at h
  split at h
  · split at h
    · cases h
    · cases h; rfl
  · cases h; rfl

theorem ite_ne' {α : Type} {c : Prop} [Decidable c] {x y z : α} (hx : x ≠ z) (hy : y ≠ z) :
    (if c then x else y) ≠ z := by
  split <;> assumption

theorem mapToLevelE_ne_signal (t : Tbl) (keys : List Key) :
    mapToLevelE t keys ≠ .error .needsReordering := by
  cases keys with
  | nil => simp [mapToLevelE]
  | cons k0 rest =>
    unfold mapToLevelE
    dsimp only
    refine ite_ne' (ite_ne' (by simp) (by simp)) ?_
    intro h
    obtain ⟨a, ha⟩ := mapME_err _ _ _ h
    have := keyVarLevel_err t a _ ha
    cases this

theorem setCtx_back (m : Mgr) : ({ ({ m with ctx := true } : Mgr) with ctx := m.ctx } : Mgr) = m := rfl

/-- the body of `quantify`: `Kept` for a stored operand, exact counts for any operand -/
theorem quantifyBody_rk (ext : Nat → Nat) (m : Mgr) (u : Int) (q : List Key) (fa : Bool)
    (hc : m.tbl.Closed) (ho : m.lastLen = none) (hr : RefExact m ext) :
    RKpost ext (quantifyBody u q fa m) := by
  unfold quantifyBody
  cases hl : mapToLevelE m.tbl q with
  | error e =>
    simp only
    exact ⟨hc, ho, hr, fun h => by
      simp only [Except.error.injEq] at h
      exact mapToLevelE_ne_signal m.tbl q (by rw [hl, h])⟩
  | ok lv =>
    simp only
    have h1 := quantifyF_rk ext lv fa (m.nvars + 2) m u (sortNat (dedup lv)) {} hc ho hr
    generalize quantifyF lv fa (m.nvars + 2) u (sortNat (dedup lv)) {} m = res at h1 ⊢
    obtain ⟨r, m1⟩ := res
    cases r with
    | error e =>
      refine ⟨h1.1, h1.2.1, h1.2.2.1, ?_⟩
      intro h
      simp only [Except.error.injEq] at h
      exact h1.2.2.2 (by rw [h])
    | ok rc => exact ⟨h1.1, h1.2.1, h1.2.2.1, by simp⟩

/-- `BDD.quantify(u, qvars, forall)` for a stored operand and ANY keys, reordering not enabled -/
theorem quantify_keepsAtOff (m : Mgr) (u : Int) (hu : m.tbl.Mem u) (q : List Key) (fa : Bool) :
    CoreKeepsAt true m (quantify u q fa) := by
  refine coreKeepsAt_of_kept (fun hi hm => ?_) (fun ext hi hm hc => ?_)
  · cases hl : mapToLevelE m.tbl q with
    | ok lv =>
      obtain ⟨r, m', he, hI', hE, _, hF, _⟩ := quantify_spec m hi (hm rfl) u hu q fa lv hl
      rw [he]; exact ⟨hI', hE, hF⟩
    | error e =>
      have hb : quantifyBody u q fa { m with ctx := true } = (.error e, { m with ctx := true }) := by
        unfold quantifyBody
        show (match mapToLevelE m.tbl q with | .error e => _ | .ok lv => _) = _
        rw [hl]
      have hne : e ≠ .needsReordering := fun h => mapToLevelE_ne_signal m.tbl q (by rw [hl, h])
      unfold quantify
      rw [tryToReorder_err _ m e _ hb hne, setCtx_back]
      exact Kept.refl hi
  · unfold quantify
    have hc' : RefExact { m with ctx := true } ext := ⟨hc.dom, hc.cnt, hc.extZero⟩
    exact (tryToReorder_rk ext _ m
      (quantifyBody_rk ext _ u q fa hi.wf.toWF.closed (hm rfl) hc')).2.2.1

/-! ### the autoref methods, reordering not enabled: no hypothesis left -/

theorem aVar_keepsOff (name : String) (h : Nat) : AKeeps true h (aVar name h) :=
  aVar_keeps name (var_keepsOff name) h

theorem aIte_keepsOff (hg hu hv h : Nat) : AKeeps true h (aIte hg hu hv h) :=
  aIte_keeps ite_keepsOff hg hu hv h

/-- `BDD.apply` with every alias that does not quantify -/
theorem aApply_keepsOff (op : String) (hnq : NonQuant op) (hu : Nat) (hv hw : Option Nat) (h : Nat) :
    AKeeps true h (aApply op hu hv hw h) :=
  aApply_keeps op (fun u v w => apply_keepsOff op u v w hnq) hu hv hw h

theorem aQuantify_keepsOff (hu : Nat) (q : List Key) (fa : Bool) (h : Nat) :
    AKeeps true h (aQuantify hu q fa h) :=
  aQuantify_keeps q fa (fun m u hm => quantify_keepsAtOff m u hm q fa) hu h

/-- `~f`, `f & g`, `f | g`, `f.implies(g)`, `f.equiv(g)` -/
theorem fApply_keepsOff (op : String) (hnq : NonQuant op) (hs : Nat) (ho : Option Nat) (h : Nat) :
    AKeeps true h (fApply op hs ho h) :=
  fApply_keeps op (fun u v => apply_keepsOff op u v none hnq) hs ho h

/-- `f <= g`: the three temporaries are released, nothing else changes -/
theorem fLe_keepsOff (hs ho : Nat) : AKeeps0 true (fLe hs ho) :=
  fLe_keeps0 (fun u => apply_keepsOff "not" u none none nonQuant_not)
    (fun u v => apply_keepsOff "or" u (some v) none nonQuant_or) hs ho

theorem fLt_keepsOff (hs ho : Nat) : AKeeps0 true (fLt hs ho) :=
  fLt_keeps0 (fun u => apply_keepsOff "not" u none none nonQuant_not)
    (fun u v => apply_keepsOff "or" u (some v) none nonQuant_or) hs ho

/-- `collect_garbage()`: no hypothesis, in every mode -/
theorem aCollectGarbage_keepsAll {off : Bool} (h : Nat) : AKeeps off h aCollectGarbage :=
  aCollectGarbage_keeps gc_keeps h

/-! ### shutdown: no hypothesis when a collection ran after the last `Function` died -/

/-- once every `Function` is gone, `collect_garbage()` succeeds and leaves only the terminal,
whose count is its own reference -/
theorem autoref_collect_empties {off : Bool} (a : AMgr) (hi : AInv off a)
    (he : a.handles.isEmpty = true) :
    ∃ m', collectGarbage none a.m = (.ok (), m') ∧ Inv m' ∧ (∀ u : Nat, m'.tbl.node? u = none) ∧
      (∀ k : Nat, m'.ref[k]? = if k = 1 then some 1 else none) := by
  have hext0 : hext a = fun _ => 0 := funext fun k => hcount_of_isEmpty _ _ he
  obtain ⟨m', hg, hp⟩ := collectGarbage_spec a.m (hext a) hi.inv hi.counts
  have hr := hp.refExact
  rw [hext0] at hr
  have hnone := no_nodes_of_no_ext m' hp.inv
    (fun u n hn => by
      have h2 := hp.inv.wf.ge_two u n hn
      rw [hr.lookup u, if_pos (Or.inr (by rw [hn]; rfl))]
      have : ¬ u = 1 := by omega
      simp [this])
    (fun u n _ => hp.noZero u)
  refine ⟨m', hg, hp.inv, hnone, fun k => ?_⟩
  rw [hr.lookup k, indeg_zero_of_no_nodes m'.tbl hnone k]
  by_cases hk : k = 1
  · subst hk; simp
  · simp [hk, hnone k]

/-- the shutdown check of a manager that stores only the terminal with its own reference -/
theorem shutdown_of_empty (m : Mgr) (hnone : ∀ u : Nat, m.tbl.node? u = none)
    (href : ∀ k : Nat, m.ref[k]? = if k = 1 then some 1 else none) :
    ∃ m', shutdown m = (.ok (), m') ∧ (∀ u : Nat, m'.tbl.node? u = none) ∧
      (∀ (k c : Nat), m'.ref[k]? = some c → c = 0) := by
  have h1 : m.ref[((1 : Int).natAbs)]? = some (0 + 1) := by
    have := href 1; simpa using this
  have hd : decref 1 m = (.ok (), { m with ref := m.ref.insert 1 0 }) := decref_eq m 1 0 h1
  have href1 : ∀ k : Nat, (m.ref.insert 1 0)[k]? = if k = 1 then some 0 else none := by
    intro k
    by_cases hk : k = 1
    · subst hk; rw [TreeMap.getElem?_insert_self]; rfl
    · rw [getElem?_insert_ne _ _ _ _ hk, href k]; simp [hk]
  -- the collection finds nothing to do
  have hroots : ∀ r ∈ gcRoots none { m with ref := m.ref.insert 1 0 },
      (({ m with ref := m.ref.insert 1 0 } : Mgr).ref[r.natAbs]?).isSome := by
    intro r hr'
    exact (gcRoots_none_mem _ r.natAbs).mp ⟨r, hr', rfl⟩
  obtain ⟨L, hL, _, hmem⟩ := unusedOf_spec { m with ref := m.ref.insert 1 0 } _ hroots
  have hLnil : L = [] := by
    cases L with
    | nil => rfl
    | cons k rest =>
      obtain ⟨r, _, _, h0, hk1⟩ := (hmem k).mp List.mem_cons_self
      have : (m.ref.insert 1 0)[k]? = some 0 := h0
      rw [href1 k, if_neg hk1] at this
      cases this
  subst hLnil
  have hgc : collectGarbage none { m with ref := m.ref.insert 1 0 } =
      (.ok (), gcFinish { m with ref := m.ref.insert 1 0 }) := by
    rw [collectGarbage_eq]
    simp only [gcBody, hL, gcLoop]
    show (if (gcFinish _).len ≤ _ then _ else _) = _
    rw [if_pos (by simp [gcFinish, Mgr.len])]
  have hzero : ∀ (k c : Nat), (gcFinish { m with ref := m.ref.insert 1 0 }).ref[k]? = some c → c = 0 := by
    intro k c hk
    have hk' : (m.ref.insert 1 0)[k]? = some c := hk
    rw [href1 k] at hk'
    split at hk' <;> cases hk'
    rfl
  refine ⟨gcFinish { m with ref := m.ref.insert 1 0 }, ?_, hnone, hzero⟩
  have hany : ((gcFinish { m with ref := m.ref.insert 1 0 }).ref.toList.any
      (fun (kv : Nat × Nat) => kv.2 != 0)) = false := by
    rw [List.any_eq_false]
    intro kv hkv
    have := hzero kv.1 kv.2 (TreeMap.mem_toList_iff_getElem?_eq_some.mp hkv)
    simp [this]
  unfold shutdown
  change M.bind' (refOf 1) _ m = _
  unfold M.bind'
  rw [refOf_eq m 1 _ h1]
  simp only
  change M.bind' (if 0 + 1 > 0 then decref 1 else pure ()) _ m = _
  unfold M.bind'
  rw [if_pos (by omega), hd]
  simp only
  change M.bind' (collectGarbage none) _ _ = _
  unfold M.bind'
  rw [hgc]
  simp only
  change M.bind' M.get _ _ = _
  unfold M.bind' M.get
  simp only
  unfold M.assert
  rw [hany]
  rfl

/-- all `Function`s dropped, then `collect_garbage()`, then the manager dies: the shutdown check
(`dd.bdd.BDD.__del__`) passes, only the terminal is left, every count is zero -/
theorem autoref_collect_then_shutdown {off : Bool} (a : AMgr) (hi : AInv off a)
    (he : a.handles.isEmpty = true) :
    ∃ m1 m2, collectGarbage none a.m = (.ok (), m1) ∧ (∀ u : Nat, m1.tbl.node? u = none) ∧
      shutdown m1 = (.ok (), m2) ∧ (∀ u : Nat, m2.tbl.node? u = none) ∧
      (∀ (k c : Nat), m2.ref[k]? = some c → c = 0) := by
  obtain ⟨m1, hg, _, hn1, hr1⟩ := autoref_collect_empties a hi he
  obtain ⟨m2, hs, hn2, hz2⟩ := shutdown_of_empty m1 hn1 hr1
  exact ⟨m1, m2, hg, hn1, hs, hn2, hz2⟩

/-! ### `cube` (reordering not enabled): a loop of `var` and `apply "and"` inside the decorator -/

/-- everything the autoref layer needs from a core computation, for every start state with
reordering not enabled, plus: the reordering signal is never raised -/
def Good {α : Type} (x : M α) : Prop :=
  ∀ (m : Mgr) (ext : Nat → Nat), Inv m → m.lastLen = none → RefExact m ext →
    Inv (x m).2 ∧ (x m).2.lastLen = none ∧ RefExact (x m).2 ext ∧
    HeldExt m.tbl (x m).2.tbl ext ∧ (x m).1 ≠ .error .needsReordering

theorem HeldExt.trans {t t' t'' : Tbl} {ext : Nat → Nat} (h1 : HeldExt t t' ext)
    (h2 : HeldExt t' t'' ext) : HeldExt t t'' ext := by
  intro u hu hp
  obtain ⟨m1, d1⟩ := h1 u hu hp
  obtain ⟨m2, d2⟩ := h2 u m1 hp
  exact ⟨m2, fun σ => (d2 σ).trans (d1 σ)⟩

theorem Good.pure {α : Type} (v : α) : Good (pure v : M α) :=
  fun m ext hi ho hr => ⟨hi, ho, hr, HeldExt.refl _ _, by
    show (Except.ok v : Except Err α) ≠ _
    simp⟩

theorem Good.bind {α β : Type} {x : M α} {f : α → M β} (hx : Good x) (hf : ∀ v, Good (f v)) :
    Good (x >>= f) := by
  intro m ext hi ho hr
  obtain ⟨i1, o1, r1, h1, n1⟩ := hx m ext hi ho hr
  have e : (x >>= f) m = M.bind' x f m := rfl
  rw [e]
  unfold M.bind'
  generalize x m = res at i1 o1 r1 h1 n1
  obtain ⟨r, m1⟩ := res
  cases r with
  | error e' =>
    refine ⟨i1, o1, r1, h1, ?_⟩
    intro h
    have h' : e' = Err.needsReordering := by simpa using h
    exact n1 (by rw [h'])
  | ok v =>
    obtain ⟨i2, o2, r2, h2, n2⟩ := hf v m1 ext i1 o1 r1
    exact ⟨i2, o2, r2, h1.trans h2, n2⟩

theorem Good.forIn {α β : Type} (f : α → β → M (ForInStep β)) (hf : ∀ a b, Good (f a b)) :
    ∀ (l : List α) (b : β), Good (forIn l b f)
  | [], b => by
    show Good (Pure.pure b : M β)
    exact Good.pure b
  | a :: l, b => by
    rw [List.forIn_cons]
    refine Good.bind (hf a b) fun s => ?_
    cases s with
    | done b' => exact Good.pure b'
    | yield b' => exact Good.forIn f hf l b'

theorem Good.tryToReorder {α : Type} {f : M α} (hf : Good f) : Good (tryToReorder f) := by
  intro m ext hi ho hr
  obtain ⟨i1, o1, r1, h1, n1⟩ := hf { m with ctx := true } ext (hi.setCtx true) ho
    ⟨hr.dom, hr.cnt, hr.extZero⟩
  generalize hres : f { m with ctx := true } = res at i1 o1 r1 h1 n1
  obtain ⟨r, m1⟩ := res
  have key : Inv { m1 with ctx := m.ctx } ∧ ({ m1 with ctx := m.ctx } : Mgr).lastLen = none ∧
      RefExact { m1 with ctx := m.ctx } ext ∧ HeldExt m.tbl ({ m1 with ctx := m.ctx } : Mgr).tbl ext :=
    ⟨i1.setCtx _, o1, ⟨r1.dom, r1.cnt, r1.extZero⟩, h1⟩
  cases r with
  | ok a =>
    rw [tryToReorder_ok f m a m1 hres]
    exact ⟨key.1, key.2.1, key.2.2.1, key.2.2.2, by simp⟩
  | error e =>
    have hne : e ≠ .needsReordering := fun he => n1 (by rw [he])
    rw [tryToReorder_err f m e m1 hres hne]
    exact ⟨key.1, key.2.1, key.2.2.1, key.2.2.2, by simpa using hne⟩

/-- from `CoreKeeps true` and "never signals" -/
theorem Good.of_keeps {α : Type} {x : M α} (hk : CoreKeeps true x)
    (hn : ∀ (m : Mgr) (ext : Nat → Nat), Inv m → m.lastLen = none → RefExact m ext →
      (x m).1 ≠ .error .needsReordering) : Good x := by
  intro m ext hi ho hr
  obtain ⟨a, b, c, d⟩ := hk.keeps m ext (fun _ => ho) hi hr (x m).1 (x m).2 rfl
  exact ⟨a, d rfl, b, c, hn m ext hi ho hr⟩

theorem var_good (name : String) : Good (var name) :=
  Good.of_keeps (var_keepsOff name) fun m ext hi ho hr => by
    rw [var_eq]
    exact (tryToReorder_rk ext (varBody name) m
      (varBody_kept_rk name _ ext (hi.setCtx true) ho ⟨hr.dom, hr.cnt, hr.extZero⟩).2).2.2.2

theorem atomVal_ne_signal (u v w : Int) (a : Atom) : atomVal u v w a ≠ .error .needsReordering := by
  cases a <;> simp [atomVal]

theorem assertOperatorArity_ne_signal (op : String) (v w : Option Int) :
    assertOperatorArity op v w ≠ .error .needsReordering := by
  unfold assertOperatorArity
  repeat (first | (apply ite_ne') | simp)

/-- `apply` never raises the reordering signal when reordering is not enabled (aliases that do
not quantify) -/
theorem apply_ne_signal_nq (ext : Nat → Nat) (m : Mgr) (op : String) (u : Int) (v w : Option Int)
    (hnq : NonQuant op) (hc : m.tbl.Closed) (ho : m.lastLen = none) (hr : RefExact m ext) :
    (apply op u v w m).1 ≠ .error .needsReordering := by
  unfold apply
  cases hA : assertOperatorArity op v w with
  | error e =>
    simp only
    intro h
    have h' : e = Err.needsReordering := by simpa using h
    subst h'
    exact assertOperatorArity_ne_signal op v w hA
  | ok _ =>
    simp only
    split
    · simp
    · split
      · simp
      · split
        · simp
        · cases hrow : findRow op Gen.applyTable with
          | none => simp
          | some row =>
            simp only
            cases ht : row.templ with
            | neg => simp
            | notImpl => simp
            | bad => simp
            | quant fa f b => exact absurd ht (hnq row hrow fa f b)
            | ite a b c =>
              simp only
              cases v with
              | none => simp
              | some vv =>
                simp only
                split
                · simp
                · split
                  · exact (ite_rk ext m _ _ _ hc ho hr).2.2.2
                  all_goals
                    intro h
                    have h' := h
                    simp only [Except.error.injEq] at h'
                    subst h'
                    exact absurd (by assumption) (atomVal_ne_signal _ _ _ _)

theorem apply_good (op : String) (hnq : NonQuant op) (u : Int) (v w : Option Int) :
    Good (apply op u v w) :=
  Good.of_keeps (apply_keepsOff op u v w hnq) fun m ext hi ho hr =>
    apply_ne_signal_nq ext m op u v w hnq hi.wf.toWF.closed ho hr

theorem cube_good (d : List (String × Bool)) : Good (cube d) := by
  unfold cube
  apply Good.tryToReorder
  refine Good.bind (Good.forIn _ (fun x r => ?_) d 1) fun r => Good.pure r
  obtain ⟨name, val⟩ := x
  refine Good.bind (var_good name) fun u => ?_
  refine Good.bind (apply_good "and" nonQuant_and _ _ _) fun r' => Good.pure _

/-- `BDD.cube(dvars)` for ANY names, reordering not enabled -/
theorem cube_keepsOff (d : List (String × Bool)) : CoreKeeps true (cube d) := by
  refine ⟨fun m ext hm hi hc r m' he => ?_⟩
  obtain ⟨a, b, c, e, _⟩ := cube_good d m ext hi (hm rfl) hc
  rw [he] at a b c e
  exact ⟨a, c, e, fun _ => b⟩

theorem aCube_keepsOff (d : List (String × Bool)) (h : Nat) : AKeeps true h (aCube d h) :=
  wrapResult_keeps (cube_keepsOff d) h

end DD
