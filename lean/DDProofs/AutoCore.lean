/-
  DDProofs.AutoCore — discharge of the hypotheses of the autoref theorems
  (`CoreKeeps` / `CoreKeepsAt`) from the core theorems, for managers in which dynamic
  reordering is not enabled (`lastLen = none`, mode `off = true`), and for
  `collect_garbage` in every mode.

  Sources: `*_total` (DDProofs.Total, ReachTotal: `Kept` for ARBITRARY arguments),
  `*_lite` (DDProofs.ReachLite: exact counts, the signal is never raised), C06
  (`collectGarbage_spec`), C07 (`applySifting_total_default`, `sortToOrder_exact`),
  C11 (`copyBdd_spec`), C14 (`addVar_good`).
-/
import DDProofs.AutoProofs
import DDProofs.AutoTemps
import DDProofs.ReachTotal
import DDProofs.GcSched
import DDProps.C07
open Std

namespace DD

/-! ### local copies of three lemmas of DDProofs.Reach
(written when `DDProofs.Reach` and `DDProofs.SiftFinal` both defined `DD.den_of_denN`; the names are
disjoint now — DDProps/All.lean — and the copies are kept under their own names) -/

theorem OrderOK.congr_auto {t t' : Tbl} (h : OrderOK t) (hv : t'.vars = t.vars) (hl : t'.l2v = t.l2v) :
    OrderOK t' := by
  have hn : t'.nvars = t.nvars := by simp only [Tbl.nvars, hv]
  exact ⟨by rw [hv, hl]; exact h.inv, by rw [hv, hn]; exact h.lt, by rw [hn, hl]; exact h.total⟩

theorem RefExact.congr_nodes_auto {m m' : Mgr} {ext : Nat → Nat} (h : RefExact m ext)
    (h1 : ∀ k, m'.tbl.node? k = m.tbl.node? k) (h2 : m'.ref = m.ref) : RefExact m' ext := by
  refine ⟨?_, ?_, ?_⟩
  · intro u; rw [h2, h1]; exact h.dom u
  · intro u c hc; rw [h2] at hc; rw [indeg_congr h1]; exact h.cnt u c hc
  · intro u hu; rw [h2] at hu; exact h.extZero u hu

/-- `add_var(name, level)` under the no-gap guard: nothing happens, or a NEW variable is appended
at the bottom level -/
theorem addVar_cases_auto (m : Mgr) (hO : OrderOK m.tbl) (name : String) (level : Option Int)
    (hg : ∀ l : Int, level = some l → m.tbl.vars[name]? = none → l ≤ (m.nvars : Int)) :
    (addVar name level m).2 = m ∨
    (m.tbl.vars[name]? = none ∧ addVar name level m = (.ok m.nvars, addVarState m name)) := by
  cases hex : m.tbl.vars[name]? with
  | some vl =>
    left
    cases level with
    | none => simp [addVar, bind, M.bind', M.get, hex, pure, M.pure']
    | some l =>
      by_cases hl : l = vl
      · simp [addVar, bind, M.bind', M.get, hex, pure, M.pure', hl]
      · simp [addVar, bind, M.bind', M.get, hex, hl, M.throw]
  | none =>
    cases level with
    | none =>
      right
      exact ⟨rfl, addVar_new m name hex hO.l2v_none⟩
    | some l =>
      by_cases hneg : l < 0
      · left
        simp [addVar, bind, M.bind', M.get, hex, hneg, M.throw]
      · cases hl : m.tbl.l2v[l.toNat]? with
        | some other =>
          left
          simp [addVar, bind, M.bind', M.get, hex, hneg, hl, M.throw]
        | none =>
          right
          refine ⟨rfl, ?_⟩
          have hle := hg l rfl hex
          have hge : m.nvars ≤ l.toNat := by
            rcases Nat.lt_or_ge l.toNat m.nvars with h | h
            · obtain ⟨v, hv⟩ := hO.total l.toNat h
              rw [hl] at hv; cases hv
            · exact h
          have heq : l.toNat = m.nvars := by omega
          rw [heq] at hl
          simp only [addVar, bind, M.bind', M.get, hex, Option.getD_some, hneg, if_false, pure, M.pure',
            hl, M.set, heq]
          rfl

/-- (as `VarsBij.ofOrderOK` of DDProps.C05) -/
theorem varsBij_of_orderOK {t : Tbl} (h : OrderOK t) : VarsBij t :=
  ⟨fun v i hv => (h.inv v i).mp hv, fun i v hl => (h.inv v i).mpr hl, h.lt,
   fun i hi => by obtain ⟨v, hv⟩ := h.total i hi; exact ⟨v, (h.inv v i).mpr hv⟩⟩

/-- every variable of the support of `u` in the source is declared in the target (as `CopyPre`
of DDProofs.DynCopy) -/
def CopyPreA (s : Tbl) (u : Int) (t : Tbl) : Prop :=
  ∀ i v, InSupp s u i → s.l2v[i]? = some v → t.vars.contains v = true

/-! ### packaging -/

/-- a step that only adds nodes and keeps the order keeps the meaning (by name) of every node -/
theorem heldExt_of_kept {m m' : Mgr} (hI : Inv m) (h : Kept m m') (ext : Nat → Nat) :
    HeldExt m.tbl m'.tbl ext := by
  intro u hu _
  obtain ⟨hm, hd⟩ := h.den hI u hu
  exact ⟨hm, fun σ => denN_of_same_l2v h.frame.l2v u σ hd⟩

theorem AutoMInv.of_kept {off : Bool} {ext : Nat → Nat} {m m' : Mgr} (h : AutoMInv off ext m) (k : Kept m m')
    (hr : RefExact m' ext) : AutoMInv off ext m' :=
  ⟨k.inv, h.order.congr_auto k.frame.vars k.frame.l2v, hr, by rw [k.frame.ctx]; exact h.ctx,
   by rw [k.frame.sched]; exact h.sched, by rw [k.frame.roots]; exact h.roots,
   h.mode.transfer k.frame.lastLen (by rw [Mgr.nvars, Mgr.nvars, k.ext.nvars]; exact Nat.le_refl _)⟩

theorem AutoMInv.lite {ext : Nat → Nat} {m : Mgr} (h : AutoMInv true ext m) : Lite ext m :=
  h.inv.lite h.counts (h.mode rfl)

/-- `Kept` for every state with exact counts and reordering not enabled, plus exact counts
afterwards, is all `CoreKeepsAt true` asks for -/
theorem keepsAtOff_of {α : Type} {op : M α} {m : Mgr}
    (hk : ∀ ext, Inv m → RefExact m ext → m.lastLen = none → Kept m (op m).2)
    (hl : ∀ ext, Lite ext m → RefExact (op m).2 ext) : CoreKeepsAt true m op := by
  intro ext hm r m' he
  have h2 : (op m).2 = m' := by rw [he]
  have k := hk ext hm.inv hm.counts (hm.mode rfl)
  have r' := hl ext hm.lite
  rw [h2] at k r'
  exact ⟨hm.of_kept k r', heldExt_of_kept hm.inv k ext⟩

/-- `AutoMInv true` without the flag (inside a decorated call the flag is set) -/
structure MInvC (ext : Nat → Nat) (m : Mgr) : Prop where
  inv : Inv m
  order : OrderOK m.tbl
  counts : RefExact m ext
  sched : m.sched = []
  roots : m.roots = []
  off : m.lastLen = none

theorem AutoMInv.toC {ext : Nat → Nat} {m : Mgr} (h : AutoMInv true ext m) : MInvC ext m :=
  ⟨h.inv, h.order, h.counts, h.sched, h.roots, h.mode rfl⟩

/-! ### the decorated operations, ARBITRARY arguments, reordering not enabled -/

theorem ite_keepsOff (g u v : Int) : CoreKeeps true (ite g u v) :=
  ⟨fun m => keepsAtOff_of (fun _ hi _ ho => ite_total m hi ho g u v)
    (fun ext hl => (ite_lite ext g u v m hl).1.exact)⟩

/-- `apply` with ANY operator string (quantifier aliases included), arity and operands -/
theorem apply_keepsOff (op : String) (u : Int) (v w : Option Int) : CoreKeeps true (apply op u v w) :=
  ⟨fun m => keepsAtOff_of (fun ext hi hr ho => apply_total' m ext hi hr ho op u v w)
    (fun ext hl => (apply_lite ext op u v w m hl).exact)⟩

theorem var_keepsOff (name : String) : CoreKeeps true (var name) :=
  ⟨fun m => keepsAtOff_of (fun ext hi hr ho => var_total m ext hi hr ho name)
    (fun ext hl => (var_lite ext name m hl).1.exact)⟩

theorem quantify_keepsOff (u : Int) (q : List Key) (fa : Bool) : CoreKeeps true (quantify u q fa) :=
  ⟨fun m => keepsAtOff_of (fun ext hi hr ho => quantify_total m ext hi hr ho u q fa)
    (fun ext hl => (quantify_lite ext u q fa m hl).1.exact)⟩

/-- `let` with Booleans / nodes / names: ANY node, ANY dictionary -/
theorem letOp_keepsOff (d : LetArg) (u : Int) : CoreKeeps true (letOp d u) :=
  ⟨fun m => keepsAtOff_of (fun ext hi hr ho => letOp_total m ext hi hr ho d u)
    (fun ext hl => (letOp_lite ext d u m hl).1.exact)⟩

/-- the raw `find_or_add` under its documented guard (level above both children) -/
theorem findOrAdd_keepsAtOff (m : Mgr) (i v w : Int) (hg : 0 ≤ i → FoaGuard m i.toNat v w) :
    CoreKeepsAt true m (findOrAdd i v w) :=
  keepsAtOff_of (fun _ hi _ ho => findOrAdd_kept m hi ho i v w hg)
    (fun ext hl => (findOrAdd_lite ext m hl i v w).1.exact)

/-! ### `copy_bdd` into this manager -/

theorem copyBddBody_lite (ext : Nat → Nat) (s : Tbl) (u : Int) (m : Mgr) (h : Lite ext m) :
    LiteOut ext (copyBddBody s u m) := by
  unfold copyBddBody
  have h1 := copyBddF_lite ext (some s) (copyMap s m.tbl) (s.nvars + 2) u {} m h
  generalize copyBddF (some s) (copyMap s m.tbl) (s.nvars + 2) u {} m = res at h1 ⊢
  obtain ⟨r, m1⟩ := res
  cases r with
  | error e => exact h1.reErr
  | ok rc => exact ⟨h1.1, by simp⟩

/-- `copy_bdd(u, source, this)`: source well-formed, `u` a node of it, every variable of the
support of `u` declared here (the caller's obligation; otherwise `KeyError` half-way) -/
theorem copyBdd_keepsAtOff (s : Tbl) (hS : WF s) (hOs : OrderOK s) (u : Int) (hu : s.Mem u) (m : Mgr)
    (hO : OrderOK m.tbl) (hsup : CopyPreA s u m.tbl) : CoreKeepsAt true m (copyBdd s u) :=
  keepsAtOff_of
    (fun _ hi _ ho => by
      obtain ⟨r, m', he, hI', hE, _, hF, _⟩ :=
        copyBdd_spec s hS (varsBij_of_orderOK hOs) m hi ho (varsBij_of_orderOK hO) u hu hsup
      rw [he]; exact ⟨hI', hE, hF⟩)
    (fun ext hl => (tryToReorder_lite ext _ (copyBddBody_lite ext s u) m hl).1.exact)

/-! ### `collect_garbage` (every mode) -/

theorem gc_keeps {off : Bool} : CoreKeeps off (collectGarbage none) := by
  refine ⟨fun m ext hm r m' he => ?_⟩
  obtain ⟨m2, h2, hp⟩ := collectGarbage_spec m ext hm.inv hm.counts
  rw [h2] at he
  cases he
  refine ⟨⟨hp.inv, hm.order.congr_auto hp.sub.vars hp.sub.l2v, hp.refExact, by rw [hp.sub.ctx]; exact hm.ctx,
    by rw [hp.sub.sched]; exact hm.sched, by rw [hp.sub.roots]; exact hm.roots,
    hm.mode.transfer hp.sub.lastLen (by simp only [Mgr.nvars, Tbl.nvars, hp.sub.vars]; exact Nat.le_refl _)⟩, ?_⟩
  intro u hu hpos
  have hmem : m'.tbl.Mem u :=
    reach_survives hp.sub hp.inv.toInvS hp.refExact hm.inv.toInvS (GcReach.root hpos)
  exact ⟨hmem, fun σ => denN_of_same_l2v hp.sub.l2v u σ (fun a => hp.den_eq u hmem a)⟩

/-! ### `add_var` / `declare` (every mode: they never reorder) -/

/-- the level assignments of two orders agree below `n` when the names of these levels agree -/
theorem lift_agree {t t' : Tbl} (σ : AsgN) (n : Nat)
    (h : ∀ i, i < n → t'.l2v[i]? = t.l2v[i]?) : ∀ i, i < n → t'.lift σ i = t.lift σ i := by
  intro i hi
  unfold Tbl.lift Tbl.nameOf
  rw [h i hi]

theorem addVar_ne_signal (m : Mgr) (name : String) (level : Option Int) :
    (addVar name level m).1 ≠ .error .needsReordering := by
  cases hex : m.tbl.vars[name]? with
  | some vl =>
    cases level with
    | none => simp [addVar, bind, M.bind', M.get, hex, pure, M.pure']
    | some l =>
      by_cases hl : l = vl
      · simp [addVar, bind, M.bind', M.get, hex, pure, M.pure', hl]
      · simp [addVar, bind, M.bind', M.get, hex, hl, M.throw]
  | none =>
    by_cases hneg : level.getD (m.nvars : Int) < 0
    · simp [addVar, bind, M.bind', M.get, hex, hneg, M.throw]
    · cases hl : m.tbl.l2v[(level.getD (m.nvars : Int)).toNat]? with
      | some o => simp [addVar, bind, M.bind', M.get, hex, hneg, hl, M.throw]
      | none => simp [addVar, bind, M.bind', M.get, hex, hneg, hl, M.set, pure, M.pure']

/-- `add_var(name, level)` under the no-gap guard (finding F7), any mode: invariant, order, exact
counts and all switches are kept; the names of the existing levels stay, so every node keeps its
meaning by name; the signal is never raised -/
theorem addVar_effect (m : Mgr) (ext : Nat → Nat) (hi : Inv m) (hO : OrderOK m.tbl) (hr : RefExact m ext)
    (name : String) (level : Option Int)
    (hg : ∀ l : Int, level = some l → m.tbl.vars[name]? = none → l ≤ (m.nvars : Int)) :
    Inv (addVar name level m).2 ∧ OrderOK (addVar name level m).2.tbl ∧
    RefExact (addVar name level m).2 ext ∧ (addVar name level m).2.ctx = m.ctx ∧
    (addVar name level m).2.sched = m.sched ∧ (addVar name level m).2.roots = m.roots ∧
    (addVar name level m).2.lastLen = m.lastLen ∧
    HeldExt m.tbl (addVar name level m).2.tbl ext ∧
    (addVar name level m).1 ≠ .error .needsReordering ∧
    m.nvars ≤ (addVar name level m).2.nvars := by
  have hns : (addVar name level m).1 ≠ .error .needsReordering := addVar_ne_signal m name level
  rcases addVar_cases_auto m hO name level hg with hsame | ⟨hnew, hrun⟩
  · rw [hsame]
    exact ⟨hi, hO, hr, rfl, rfl, rfl, rfl, HeldExt.refl _ _, hns, Nat.le_refl _⟩
  · have hnv : m.nvars ≤ (addVar name level m).2.nvars := by
      rw [hrun]
      have := (addVar_new_spec m hi hO name hnew _ rfl).2.2.1
      show m.tbl.nvars ≤ (addVarState m name).tbl.nvars
      omega
    refine ⟨?_, ?_, ?_, ?_, ?_, ?_, ?_, ?_, hns, hnv⟩ <;> rw [hrun] <;> simp only
    all_goals
      obtain ⟨hI, hO', hn, _, hmono, hden, _, _⟩ := addVar_new_spec m hi hO name hnew _ rfl
    · exact hI
    · exact hO'
    · exact hr.congr_nodes_auto (fun _ => rfl) rfl
    · rfl
    · rfl
    · rfl
    · rfl
    · intro u hu _
      obtain ⟨hmem, hd⟩ := hden u hu
      refine ⟨hmem, fun σ => ?_⟩
      unfold denN
      rw [hd]
      apply den_agree_ge m.tbl hi.wf.toWF u hu
      intro i _ hi'
      apply lift_agree σ m.tbl.nvars _ i hi'
      intro j hj
      obtain ⟨v, hv⟩ := hO.total j hj
      have h1 : m.tbl.vars[v]? = some j := (hO.inv v j).mpr hv
      rw [hv]
      exact (hO'.inv v j).mp (hmono v j h1)

theorem addVar_keepsAt {off : Bool} (m : Mgr) (name : String) (level : Option Int)
    (hg : ∀ l : Int, level = some l → m.tbl.vars[name]? = none → l ≤ (m.nvars : Int)) :
    CoreKeepsAt off m (addVar name level) := by
  intro ext hm r m' he
  obtain ⟨a, b, c, d, e, f, g, h, _, hn'⟩ := addVar_effect m ext hm.inv hm.order hm.counts name level hg
  rw [he] at a b c d e f g h hn'
  exact ⟨⟨a, b, c, by rw [d]; exact hm.ctx, by rw [e]; exact hm.sched, by rw [f]; exact hm.roots,
    hm.mode.transfer g hn'⟩, h⟩

/-! ### shutdown: no hypothesis when a collection ran after the last `Function` died -/

/-- once every `Function` is gone, `collect_garbage()` succeeds and leaves only the terminal,
whose count is its own reference -/
theorem autoref_collect_empties {off : Bool} (a : AMgr) (hi : AInv off a)
    (he : a.handles.isEmpty = true) :
    ∃ m', collectGarbage none a.m = (.ok (), m') ∧ Inv m' ∧ (∀ u : Nat, m'.tbl.node? u = none) ∧
      (∀ k : Nat, m'.ref[k]? = if k = 1 then some 1 else none) := by
  have hext0 : hext a = fun _ => 0 := funext fun k => hcount_of_isEmpty _ _ he
  obtain ⟨m', hg, hp⟩ := collectGarbage_spec a.m (hext a) hi.inv hi.counts
  have hr := hp.refExact
  rw [hext0] at hr
  have hnone := no_nodes_of_no_ext m' hp.inv
    (fun u n hn => by
      have h2 := hp.inv.wf.ge_two u n hn
      rw [hr.lookup u, if_pos (Or.inr (by rw [hn]; rfl))]
      have : ¬ u = 1 := by omega
      simp [this])
    (fun u n _ => hp.noZero u)
  refine ⟨m', hg, hp.inv, hnone, fun k => ?_⟩
  rw [hr.lookup k, indeg_zero_of_no_nodes m'.tbl hnone k]
  by_cases hk : k = 1
  · subst hk; simp
  · simp [hk, hnone k]

/-- the shutdown check of a manager that stores only the terminal with its own reference -/
theorem shutdown_of_empty (m : Mgr) (hnone : ∀ u : Nat, m.tbl.node? u = none)
    (href : ∀ k : Nat, m.ref[k]? = if k = 1 then some 1 else none) :
    ∃ m', shutdown m = (.ok (), m') ∧ (∀ u : Nat, m'.tbl.node? u = none) ∧
      (∀ (k c : Nat), m'.ref[k]? = some c → c = 0) := by
  have h1 : m.ref[((1 : Int).natAbs)]? = some (0 + 1) := by
    have := href 1; simpa using this
  have hd : decref 1 m = (.ok (), { m with ref := m.ref.insert 1 0 }) := decref_eq m 1 0 h1
  have href1 : ∀ k : Nat, (m.ref.insert 1 0)[k]? = if k = 1 then some 0 else none := by
    intro k
    by_cases hk : k = 1
    · subst hk; rw [TreeMap.getElem?_insert_self]; rfl
    · rw [getElem?_insert_ne _ _ _ _ hk, href k]; simp [hk]
  -- the collection finds nothing to do
  have hroots : ∀ r ∈ gcRoots none { m with ref := m.ref.insert 1 0 },
      (({ m with ref := m.ref.insert 1 0 } : Mgr).ref[r.natAbs]?).isSome := by
    intro r hr'
    exact (gcRoots_none_mem _ r.natAbs).mp ⟨r, hr', rfl⟩
  obtain ⟨L, hL, _, hmem⟩ := unusedOf_spec { m with ref := m.ref.insert 1 0 } _ hroots
  have hLnil : L = [] := by
    cases L with
    | nil => rfl
    | cons k rest =>
      obtain ⟨r, _, _, h0, hk1⟩ := (hmem k).mp List.mem_cons_self
      have : (m.ref.insert 1 0)[k]? = some 0 := h0
      rw [href1 k, if_neg hk1] at this
      cases this
  subst hLnil
  have hgc : collectGarbage none { m with ref := m.ref.insert 1 0 } =
      (.ok (), gcFinish { m with ref := m.ref.insert 1 0 }) := by
    rw [collectGarbage_eq]
    simp only [gcBody, hL, gcLoop]
    show (if (gcFinish _).len ≤ _ then _ else _) = _
    rw [if_pos (by simp [gcFinish, Mgr.len])]
  have hzero : ∀ (k c : Nat), (gcFinish { m with ref := m.ref.insert 1 0 }).ref[k]? = some c → c = 0 := by
    intro k c hk
    have hk' : (m.ref.insert 1 0)[k]? = some c := hk
    rw [href1 k] at hk'
    split at hk' <;> cases hk'
    rfl
  refine ⟨gcFinish { m with ref := m.ref.insert 1 0 }, ?_, hnone, hzero⟩
  have hany : ((gcFinish { m with ref := m.ref.insert 1 0 }).ref.toList.any
      (fun (kv : Nat × Nat) => kv.2 != 0)) = false := by
    rw [List.any_eq_false]
    intro kv hkv
    have := hzero kv.1 kv.2 (TreeMap.mem_toList_iff_getElem?_eq_some.mp hkv)
    simp [this]
  unfold shutdown
  change M.bind' (refOf 1) _ m = _
  unfold M.bind'
  rw [refOf_eq m 1 _ h1]
  simp only
  change M.bind' (if 0 + 1 > 0 then decref 1 else pure ()) _ m = _
  unfold M.bind'
  rw [if_pos (by omega), hd]
  simp only
  change M.bind' (collectGarbage none) _ _ = _
  unfold M.bind'
  rw [hgc]
  simp only
  change M.bind' M.get _ _ = _
  unfold M.bind' M.get
  simp only
  unfold M.assert
  rw [hany]
  rfl

/-- all `Function`s dropped, then `collect_garbage()`, then the manager dies: the shutdown check
(`dd.bdd.BDD.__del__`) passes, only the terminal is left, every count is zero -/
theorem autoref_collect_then_shutdown {off : Bool} (a : AMgr) (hi : AInv off a)
    (he : a.handles.isEmpty = true) :
    ∃ m1 m2, collectGarbage none a.m = (.ok (), m1) ∧ (∀ u : Nat, m1.tbl.node? u = none) ∧
      shutdown m1 = (.ok (), m2) ∧ (∀ u : Nat, m2.tbl.node? u = none) ∧
      (∀ (k c : Nat), m2.ref[k]? = some c → c = 0) := by
  obtain ⟨m1, hg, _, hn1, hr1⟩ := autoref_collect_empties a hi he
  obtain ⟨m2, hs, hn2, hz2⟩ := shutdown_of_empty m1 hn1 hr1
  exact ⟨m1, m2, hg, hn1, hs, hn2, hz2⟩

/-! ### loops inside one call: `cube`, `declare` -/

/-- everything the autoref layer needs from a core computation, for every start state with
reordering not enabled, plus: the reordering signal is never raised -/
def Good {α : Type} (x : M α) : Prop :=
  ∀ (m : Mgr) (ext : Nat → Nat), MInvC ext m →
    MInvC ext (x m).2 ∧ HeldExt m.tbl (x m).2.tbl ext ∧ (x m).1 ≠ .error .needsReordering ∧
    (x m).2.ctx = m.ctx

theorem HeldExt.trans {t t' t'' : Tbl} {ext : Nat → Nat} (h1 : HeldExt t t' ext)
    (h2 : HeldExt t' t'' ext) : HeldExt t t'' ext := by
  intro u hu hp
  obtain ⟨m1, d1⟩ := h1 u hu hp
  obtain ⟨m2, d2⟩ := h2 u m1 hp
  exact ⟨m2, fun σ => (d2 σ).trans (d1 σ)⟩

theorem Good.pure {α : Type} (v : α) : Good (pure v : M α) :=
  fun m ext hm => ⟨hm, HeldExt.refl _ _, by
    show (Except.ok v : Except Err α) ≠ _
    simp, rfl⟩

theorem Good.bind {α β : Type} {x : M α} {f : α → M β} (hx : Good x) (hf : ∀ v, Good (f v)) :
    Good (x >>= f) := by
  intro m ext hm
  obtain ⟨i1, h1, n1, c1⟩ := hx m ext hm
  have e : (x >>= f) m = M.bind' x f m := rfl
  rw [e]
  unfold M.bind'
  generalize x m = res at i1 h1 n1 c1
  obtain ⟨r, m1⟩ := res
  cases r with
  | error e' =>
    refine ⟨i1, h1, ?_, c1⟩
    intro h
    have h' : e' = Err.needsReordering := by simpa using h
    exact n1 (by rw [h'])
  | ok v =>
    obtain ⟨i2, h2, n2, c2⟩ := hf v m1 ext i1
    exact ⟨i2, h1.trans h2, n2, c2.trans c1⟩

theorem Good.forIn {α β : Type} (f : α → β → M (ForInStep β)) (hf : ∀ a b, Good (f a b)) :
    ∀ (l : List α) (b : β), Good (forIn l b f)
  | [], b => by
    show Good (Pure.pure b : M β)
    exact Good.pure b
  | a :: l, b => by
    rw [List.forIn_cons]
    refine Good.bind (hf a b) fun s => ?_
    cases s with
    | done b' => exact Good.pure b'
    | yield b' => exact Good.forIn f hf l b'

theorem MInvC.setCtx {ext : Nat → Nat} {m : Mgr} (h : MInvC ext m) (c : Bool) : MInvC ext { m with ctx := c } :=
  ⟨h.inv.setCtx c, h.order, ⟨h.counts.dom, h.counts.cnt, h.counts.extZero⟩, h.sched, h.roots, h.off⟩

theorem Good.tryToReorder {α : Type} {f : M α} (hf : Good f) : Good (tryToReorder f) := by
  intro m ext hm
  obtain ⟨i1, h1, n1, _⟩ := hf { m with ctx := true } ext (hm.setCtx true)
  generalize hres : f { m with ctx := true } = res at i1 h1 n1
  obtain ⟨r, m1⟩ := res
  cases r with
  | ok a =>
    rw [tryToReorder_ok f m a m1 hres]
    exact ⟨i1.setCtx _, h1, by simp, rfl⟩
  | error e =>
    have hne : e ≠ .needsReordering := fun he => n1 (by rw [he])
    rw [tryToReorder_err f m e m1 hres hne]
    exact ⟨i1.setCtx _, h1, by simpa using hne, rfl⟩

/-- from `Kept` + `Lite` -/
theorem Good.of_total {α : Type} {x : M α}
    (hk : ∀ (m : Mgr) ext, Inv m → RefExact m ext → m.lastLen = none → Kept m (x m).2)
    (hl : ∀ (m : Mgr) ext, Lite ext m → LiteOut ext (x m)) : Good x := by
  intro m ext hm
  have k := hk m ext hm.inv hm.counts hm.off
  have l := hl m ext (hm.inv.lite hm.counts hm.off)
  exact ⟨⟨k.inv, hm.order.congr_auto k.frame.vars k.frame.l2v, l.1.exact,
    by rw [k.frame.sched]; exact hm.sched, by rw [k.frame.roots]; exact hm.roots, l.1.off⟩,
    heldExt_of_kept hm.inv k ext, l.2, k.frame.ctx⟩

theorem var_good (name : String) : Good (var name) :=
  Good.of_total (fun m ext hi hr ho => var_total m ext hi hr ho name) (fun m ext hl => var_lite ext name m hl)

theorem atomVal_ne_signal (u v w : Int) (a : Atom) : atomVal u v w a ≠ .error .needsReordering := by
  cases a <;> simp [atomVal]

theorem assertOperatorArity_ne_signal (op : String) (v w : Option Int) :
    assertOperatorArity op v w ≠ .error .needsReordering := by
  unfold assertOperatorArity
  repeat' split
  all_goals simp

/-- an operator alias that does not quantify -/
def NonQuant (op : String) : Prop :=
  ∀ row, findRow op Gen.applyTable = some row → ∀ fa f b, row.templ ≠ .quant fa f b

theorem nonQuant_and : NonQuant "and" := by
  intro row h; simp [Gen.applyTable, findRow] at h; subst h; intro fa f b; simp

/-- `apply` never raises the reordering signal when reordering is not enabled (aliases that do
not quantify) -/
theorem apply_ne_signal_nq (ext : Nat → Nat) (m : Mgr) (op : String) (u : Int) (v w : Option Int)
    (hnq : NonQuant op) (hl : Lite ext m) :
    (apply op u v w m).1 ≠ .error .needsReordering := by
  unfold apply
  cases hA : assertOperatorArity op v w with
  | error e =>
    simp only
    intro h
    have h' : e = Err.needsReordering := by simpa using h
    subst h'
    exact assertOperatorArity_ne_signal op v w hA
  | ok _ =>
    simp only
    split
    · simp
    · split
      · simp
      · split
        · simp
        · cases hrow : findRow op Gen.applyTable with
          | none => simp
          | some row =>
            simp only
            cases ht : row.templ with
            | neg => simp
            | notImpl => simp
            | bad => simp
            | quant fa f b => exact absurd ht (hnq row hrow fa f b)
            | ite a b c =>
              simp only
              cases v with
              | none => simp
              | some vv =>
                simp only
                split
                · simp
                · split
                  · exact (ite_lite ext _ _ _ m hl).2
                  all_goals
                    intro h
                    have h' := h
                    simp only [Except.error.injEq] at h'
                    subst h'
                    exact absurd (by assumption) (atomVal_ne_signal _ _ _ _)

theorem apply_good (op : String) (hnq : NonQuant op) (u : Int) (v w : Option Int) :
    Good (apply op u v w) :=
  Good.of_total (fun m ext hi hr ho => apply_total' m ext hi hr ho op u v w)
    (fun m ext hl => ⟨apply_lite ext op u v w m hl, apply_ne_signal_nq ext m op u v w hnq hl⟩)

theorem cube_good (d : List (String × Bool)) : Good (cube d) := by
  unfold cube
  apply Good.tryToReorder
  refine Good.bind (Good.forIn _ (fun x r => ?_) d 1) fun r => Good.pure r
  obtain ⟨name, val⟩ := x
  refine Good.bind (var_good name) fun u => ?_
  refine Good.bind (apply_good "and" nonQuant_and _ _ _) fun r' => Good.pure _

theorem Good.keeps {α : Type} {x : M α} (h : Good x) : CoreKeeps true x := by
  refine ⟨fun m ext hm r m' he => ?_⟩
  obtain ⟨a, b, _, c⟩ := h m ext hm.toC
  rw [he] at a b c
  exact ⟨⟨a.inv, a.order, a.counts, by rw [c]; exact hm.ctx, a.sched, a.roots,
    fun _ => a.off⟩, b⟩

/-- `BDD.cube(dvars)` for ANY names, reordering not enabled -/
theorem cube_keepsOff (d : List (String × Bool)) : CoreKeeps true (cube d) := (cube_good d).keeps

theorem addVar_autoGood (name : String) : Good (addVar name none) := by
  intro m ext hm
  obtain ⟨a, b, c, d, e, f, g, h, n, _⟩ := addVar_effect m ext hm.inv hm.order hm.counts name none
    (fun l hl => nomatch hl)
  exact ⟨⟨a, b, c, by rw [e]; exact hm.sched, by rw [f]; exact hm.roots, by rw [g]; exact hm.off⟩, h, n, d⟩

/-- `declare(*names)`: any names, reordering not enabled -/
theorem declare_keepsOff (names : List String) : CoreKeeps true (declare names) := by
  apply Good.keeps
  unfold declare
  exact Good.bind (Good.forIn _ (fun v _ => Good.bind (addVar_autoGood v) fun _ => Good.pure _) names _)
    fun _ => Good.pure _

/-! ### the autoref methods, reordering not enabled: no hypothesis left -/

theorem aVar_keepsOff (name : String) (h : Nat) : AKeeps true h (aVar name h) :=
  aVar_keeps name (var_keepsOff name) h

theorem aIte_keepsOff (hg hu hv h : Nat) : AKeeps true h (aIte hg hu hv h) :=
  aIte_keeps ite_keepsOff hg hu hv h

/-- `BDD.apply` with EVERY alias, the quantifier aliases included -/
theorem aApply_keepsOff (op : String) (hu : Nat) (hv hw : Option Nat) (h : Nat) :
    AKeeps true h (aApply op hu hv hw h) :=
  aApply_keeps op (fun u v w => apply_keepsOff op u v w) hu hv hw h

theorem aQuantify_keepsOff (hu : Nat) (q : List Key) (fa : Bool) (h : Nat) :
    AKeeps true h (aQuantify hu q fa h) :=
  aQuantify_keeps q fa (fun m u _ => (quantify_keepsOff u q fa).at m) hu h

/-- `let` in its three forms (the values of the `Function` form may even belong to another
manager: the wrapper does not test them, the core operation is total) -/
theorem aLet_keepsOff (d : ALetArg) (hu h : Nat) : AKeeps true h (aLet d hu h) :=
  aLet_keeps letOp_keepsOff d hu h

theorem aCube_keepsOff (d : List (String × Bool)) (h : Nat) : AKeeps true h (aCube d h) :=
  aCube_keeps d (cube_keepsOff d) h

/-- `~f`, `f & g`, `f | g`, `f.implies(g)`, `f.equiv(g)` (any operator string) -/
theorem fApply_keepsOff (op : String) (hs : Nat) (ho : Option Nat) (h : Nat) :
    AKeeps true h (fApply op hs ho h) :=
  fApply_keeps op (fun u v => apply_keepsOff op u v none) hs ho h

/-- `f <= g`: the three temporaries are released, nothing else changes -/
theorem fLe_keepsOff (hs ho : Nat) : AKeeps0 true (fLe hs ho) :=
  fLe_keeps0 (fun u => apply_keepsOff "not" u none none)
    (fun b _ _ _ u v _ _ => (apply_keepsOff "or" u (some v) none).at b.m) hs ho

theorem fLt_keepsOff (hs ho : Nat) : AKeeps0 true (fLt hs ho) :=
  fLt_keeps0 (fun u => apply_keepsOff "not" u none none)
    (fun b _ _ _ u v _ _ => (apply_keepsOff "or" u (some v) none).at b.m) hs ho

/-- `collect_garbage()`: no hypothesis, in every mode -/
theorem aCollectGarbage_keepsAll {off : Bool} (h : Nat) : AKeeps off h aCollectGarbage :=
  aCollectGarbage_keeps gc_keeps h

theorem aDeclare_keepsOff (ns : List String) (h : Nat) : AKeeps true h (aDeclare ns) :=
  aDeclare_keeps ns (declare_keepsOff ns) h

/-- `add_var(name, level)` where the level leaves no gap (every mode) -/
theorem aAddVar_keepsAt' {off : Bool} (a : AMgr) (n : String) (l : Option Int)
    (hg : ∀ l' : Int, l = some l' → a.m.tbl.vars[n]? = none → l' ≤ (a.m.nvars : Int)) (h : Nat) :
    AKeepsAt off a h (aAddVar n l) :=
  aAddVar_keepsAt a n l (addVar_keepsAt a.m n l hg) h

/-- `find_or_add(var, low, high)` when the level of `var` is above both children -/
theorem aFindOrAdd_keepsAtOff (a : AMgr) (var : String) (hlow hhigh h : Nat)
    (hg : ∀ level lo hi, (levelOfVar var a.m).1 = .ok level → (nodeAny hlow a).1 = .ok lo →
      (nodeAny hhigh a).1 = .ok hi → FoaGuard a.m level lo hi) :
    AKeepsAt true a h (aFindOrAdd var hlow hhigh h) :=
  aFindOrAdd_keepsAt a var hlow hhigh h fun level lo hi h1 h2 h3 =>
    findOrAdd_keepsAtOff a.m level lo hi (fun _ => by simpa using hg level lo hi h1 h2 h3)

/-- `BDD.copy(u, other)` into this manager `a` from `src`: both satisfy the invariant, every
variable of the support of the copied node is declared here -/
theorem aCopyTo_keepsAtOff (a src : AMgr) {offS : Bool} (hsrc : AInv offS src) (hu h : Nat)
    (hpre : ∀ u, (nodeIn hu src).1 = .ok u → CopyPreA src.m.tbl u a.m.tbl) :
    AKeepsAt true a h (aCopyTo src hu h) := by
  intro hi
  refine aCopyTo_keepsAt a src hu h (fun u hu' => ?_) hi
  have hx : nodeIn hu src = (.ok u, (nodeIn hu src).2) := by
    rw [← hu']
  obtain ⟨_, hmem⟩ := nodeIn_ok hu src _ u hx
  exact copyBdd_keepsAtOff src.m.tbl hsrc.inv.wf.toWF hsrc.order u hmem a.m hi.order (hpre u hu')

theorem aCopyBddTo_keepsAtOff (a src : AMgr) {offS : Bool} (hsrc : AInv offS src) (hu h : Nat)
    (hpre : ∀ u, (nodeOwn hu src).1 = .ok u → CopyPreA src.m.tbl u a.m.tbl) :
    AKeepsAt true a h (aCopyBddTo src hu h) := by
  intro hi
  refine aCopyBddTo_keepsAt a src hu h (fun u hu' => ?_) hi
  have hmem : src.m.tbl.Mem u := by
    unfold nodeOwn at hu'
    cases hh : src.handles[hu]? with
    | none => rw [hh] at hu'; cases hu'
    | some v =>
      rw [hh] at hu'
      cases hu'
      exact hsrc.hmem hu u hh
  exact copyBdd_keepsAtOff src.m.tbl hsrc.inv.wf.toWF hsrc.order u hmem a.m hi.order (hpre u hu')

end DD
