/-
  DDProofs.DynApply — `apply` for the binary propositional connectives and for the ternary
  conditional of the regenerated table, and the three homogeneous forms of `let`, as instances
  of the transparency theorems; the refutation of the over-strong hypothesis `SiftSpec`.
-/
import DDProofs.DynOps2
import DDProofs.GcExample
open Std

namespace DD

theorem DynPostG.mono {α} {ext : Nat → Nat} {D D' : Tbl → α → Tbl → Prop} {m : Mgr} {r : α}
    {m' : Mgr} (h : DynPostG ext D m r m') (hd : D m.tbl r m'.tbl → D' m.tbl r m'.tbl) :
    DynPostG ext D' m r m' :=
  ⟨h.inv, hd h.doc, h.enabled, h.names, h.held, h.roots⟩

theorem HeldX.neg {ext : Nat → Nat} {u : Int} (h : HeldX ext u) : HeldX ext (-u) := by
  unfold HeldX at *
  simpa using h

theorem HeldX.one (ext : Nat → Nat) : HeldX ext 1 := Or.inl rfl
theorem HeldX.neg_one (ext : Nat → Nat) : HeldX ext (-1) := Or.inl rfl

/-- an operand atom of a table row is held when the operands are -/
theorem atomVal_held {ext : Nat → Nat} {u v w x : Int} {a : Atom} (h : atomVal u v w a = .ok x)
    (hu : HeldX ext u) (hv : HeldX ext v) (hw : HeldX ext w) : HeldX ext x := by
  cases a <;> simp only [atomVal, Except.ok.injEq] at h <;> try subst h
  · exact hu
  · exact hv
  · exact hw
  · exact hu.neg
  · exact hv.neg
  · exact hw.neg
  · exact HeldX.one ext
  · exact HeldX.neg_one ext
  · cases h

/-- the same for an atom that does not mention the third operand -/
theorem atomVal_held2 {ext : Nat → Nat} {u v w x : Int} {a : Atom} (h : atomVal u v w a = .ok x)
    (hnw : atomUsesW a = false) (hu : HeldX ext u) (hv : HeldX ext v) : HeldX ext x := by
  cases a <;> simp only [atomVal, Except.ok.injEq] at h <;> try subst h
  · exact hu
  · exact hv
  · simp [atomUsesW] at hnw
  · exact hu.neg
  · exact hv.neg
  · simp [atomUsesW] at hnw
  · exact HeldX.one ext
  · exact HeldX.neg_one ext
  · cases h

/-- documented result of `apply(op, u, v)` for a binary connective, by name -/
def ConnDoc (c : Conn) (u v : Int) (t : Tbl) (r : Int) (t' : Tbl) : Prop :=
  t'.Mem r ∧ ∀ σ, denN t' r σ = c.eval (denN t u σ) (denN t v σ) false

/-- C09 for `apply(op, u, v)`, every binary propositional alias of the vocabulary -/
theorem apply_binary_transparent (ext : Nat → Nat) (hS : SiftContract ext) (m : Mgr)
    (hD : DynInv ext m) (op : String) (c : Conn) (hc : docConn op = some c) (h2 : c.arity = 2)
    (hq1 : c ≠ .forall_) (hq2 : c ≠ .exists_) (hall : Gen.allOps.contains op = true)
    (u v : Int) (hu : HeldX ext u) (hv : HeldX ext v) :
    ∃ r m', apply op u (some v) none m = (.ok r, m') ∧ DynPostG ext (ConnDoc c u v) m r m' := by
  have hI := hD.inv
  have hW := hI.wf.toWF
  have mu : m.tbl.Mem u := hu.mem hD.refs
  have mv : m.tbl.Mem v := hv.mem hD.refs
  obtain ⟨row, a, b, d, hrow, ht, hoa, hob, hod, hwa, hwb, hwd, htab⟩ :=
    table_binary op c hc h2 hq1 hq2 hall
  have hv' := vocab_complete
  unfold vocabComplete at hv'
  simp only [Bool.and_eq_true, List.all_eq_true] at hv'
  have hmem : op ∈ Gen.allOps := by simpa using hall
  have har := hv'.2 op hmem
  rw [hc] at har
  simp only [h2, Bool.and_eq_true, beq_iff_eq] at har
  have hun : Gen.unaryOps.contains op = false := by
    have := har.1.1; simpa using this.symm
  have hbi : Gen.binaryOps.contains op = true := by
    have := har.1.2; simpa using this.symm
  have harity : assertOperatorArity op (some v) none = .ok () := by
    unfold assertOperatorArity
    rw [hall, hun, hbi]
    rfl
  obtain ⟨xa, hxa, mxa, dxa⟩ := atomVal_den m.tbl hW u v 0 mu mv a hoa hwa
  obtain ⟨xb, hxb, mxb, dxb⟩ := atomVal_den m.tbl hW u v 0 mu mv b hob hwb
  obtain ⟨xd, hxd, mxd, dxd⟩ := atomVal_den m.tbl hW u v 0 mu mv d hod hwd
  have heq : apply op u (some v) none m = ite xa xb xd m := by
    unfold apply
    have hmu : m.mem u = true := (Mgr.mem_iff m u).mpr mu
    have hmv : m.mem v = true := (Mgr.mem_iff m v).mpr mv
    simp only [harity, hmu, hmv, optNotMem, Bool.not_true, Bool.false_eq_true, if_false, hrow, ht,
      hwa, hwb, hwd, Bool.or_self, Option.getD_none, hxa, hxb, hxd]
  obtain ⟨r, m', he, hp⟩ := ite_transparent ext hS m hD xa xb xd
    (atomVal_held2 hxa hwa hu hv) (atomVal_held2 hxb hwb hu hv) (atomVal_held2 hxd hwd hu hv)
  refine ⟨r, m', by rw [heq]; exact he, hp.mono ?_⟩
  intro hd
  refine ⟨hd.1, fun σ => ?_⟩
  rw [hd.2 σ]
  unfold denN
  rw [dxa _ false, dxb _ false, dxd _ false]
  exact htab _ _ _

/-- documented result of `apply('ite', u, v, w)`, by name -/
def Ite3Doc (u v w : Int) (t : Tbl) (r : Int) (t' : Tbl) : Prop :=
  t'.Mem r ∧ ∀ σ, denN t' r σ = if denN t u σ then denN t v σ else denN t w σ

/-- C09 for `apply('ite', u, v, w)` -/
theorem apply_ite_transparent (ext : Nat → Nat) (hS : SiftContract ext) (m : Mgr)
    (hD : DynInv ext m) (op : String) (hc : docConn op = some .ite)
    (hall : Gen.allOps.contains op = true) (u v w : Int) (hu : HeldX ext u) (hv : HeldX ext v)
    (hw : HeldX ext w) :
    ∃ r m', apply op u (some v) (some w) m = (.ok r, m') ∧ DynPostG ext (Ite3Doc u v w) m r m' := by
  have hI := hD.inv
  have hW := hI.wf.toWF
  have mu : m.tbl.Mem u := hu.mem hD.refs
  have mv : m.tbl.Mem v := hv.mem hD.refs
  have mw : m.tbl.Mem w := hw.mem hD.refs
  obtain ⟨row, a, b, d, hrow, ht, hoa, hob, hod, husesw, htab⟩ := table_ternary op hc hall
  have hv' := vocab_complete
  unfold vocabComplete at hv'
  simp only [Bool.and_eq_true, List.all_eq_true] at hv'
  have hmem : op ∈ Gen.allOps := by simpa using hall
  have har := hv'.2 op hmem
  rw [hc] at har
  simp only [Conn.arity, Bool.and_eq_true, beq_iff_eq] at har
  have hun : Gen.unaryOps.contains op = false := by
    have := har.1.1; simpa using this.symm
  have hbi : Gen.binaryOps.contains op = false := by
    have := har.1.2; simpa using this.symm
  have hte : Gen.ternaryOps.contains op = true := by
    have := har.2; simpa using this.symm
  have harity : assertOperatorArity op (some v) (some w) = .ok () := by
    unfold assertOperatorArity
    rw [hall, hun, hbi, hte]
    rfl
  obtain ⟨xa, hxa, mxa, dxa⟩ := atomVal_den3 m.tbl hW u v w mu mv mw a hoa
  obtain ⟨xb, hxb, mxb, dxb⟩ := atomVal_den3 m.tbl hW u v w mu mv mw b hob
  obtain ⟨xd, hxd, mxd, dxd⟩ := atomVal_den3 m.tbl hW u v w mu mv mw d hod
  have heq : apply op u (some v) (some w) m = ite xa xb xd m := by
    unfold apply
    have hmu : m.mem u = true := (Mgr.mem_iff m u).mpr mu
    have hmv : m.mem v = true := (Mgr.mem_iff m v).mpr mv
    have hmw : m.mem w = true := (Mgr.mem_iff m w).mpr mw
    simp only [harity, hmu, hmv, hmw, optNotMem, Bool.not_true, Bool.false_eq_true, if_false, hrow, ht,
      husesw, if_true, hxa, hxb, hxd]
  obtain ⟨r, m', he, hp⟩ := ite_transparent ext hS m hD xa xb xd
    (atomVal_held hxa hu hv hw) (atomVal_held hxb hu hv hw) (atomVal_held hxd hu hv hw)
  refine ⟨r, m', by rw [heq]; exact he, hp.mono ?_⟩
  intro hd
  refine ⟨hd.1, fun σ => ?_⟩
  rw [hd.2 σ]
  unfold denN
  rw [dxa, dxb, dxd]
  exact htab _ _ _

/-! ### `let` -/

/-- C09 for `let` with Boolean values -/
theorem let_bools_transparent (ext : Nat → Nat) (hS : SiftContract ext) (m : Mgr)
    (hD : DynInv ext m) (u : Int) (hu : HeldX ext u) (vals : List (String × Bool))
    (hne : vals ≠ []) (hdecl : ∀ p ∈ vals, m.tbl.vars.contains p.1 = true) :
    ∃ r m', letOp (.bools (boolKeys vals)) u m = (.ok r, m') ∧
      DynPostG ext (CofDoc vals u) m r m' := by
  have : boolKeys vals ≠ [] := by
    intro h; apply hne
    cases vals with
    | nil => rfl
    | cons _ _ => simp [boolKeys] at h
  rw [letOp_bools _ this]
  exact cofactor_transparent ext hS m hD u hu vals hdecl

/-- C09 for `let` with references -/
theorem let_refs_transparent (ext : Nat → Nat) (hS : SiftContract ext) (m : Mgr)
    (hD : DynInv ext m) (f : Int) (hf : HeldX ext f) (varSub : List (String × Int))
    (hne : varSub ≠ []) (hdecl : ∀ p ∈ varSub, m.tbl.vars.contains p.1 = true)
    (hheld : ∀ p ∈ varSub, HeldX ext p.2) :
    ∃ r m', letOp (.refs varSub) f m = (.ok r, m') ∧
      DynPostG ext (ComposeDoc varSub f) m r m' := by
  rw [letOp_refs _ hne]
  exact compose_transparent ext hS m hD f hf varSub hdecl hheld

/-- C09 for `let` with names -/
theorem let_names_transparent (ext : Nat → Nat) (hS : SiftContract ext) (m : Mgr)
    (hD : DynInv ext m) (u : Int) (hu : HeldX ext u) (dvars : List (String × String))
    (hne : dvars ≠ []) (hd : ∀ p ∈ dvars, m.tbl.vars.contains p.2 = true) :
    ∃ r m', letOp (.names dvars) u m = (.ok r, m') ∧
      DynPostG ext (RenameDoc dvars u) m r m' := by
  rw [letOp_names _ hne]
  exact rename_transparent ext hS m hD u hu dvars hd

/-! ### `SiftSpec` of DDProofs.DynProofs is too strong -/

/-- `exM` (two variables, three nodes) with a recorded schedule whose next item is a swap order -/
def exBadSched : Mgr := { exM with sched := [.swap []] }

theorem exBadSched_fails : (reorder none exBadSched).1.toOption = none := by decide

/-- `SiftSpec` quantifies over every state satisfying `Inv`; `Inv` does not constrain the
recorded schedule (nor the name maps, nor exact counts), and sifting fails on a state whose
schedule does not start with a sifting order: `SiftSpec` is false, theorems conditional on it
are vacuous.  The transparency theorems of this development are conditional on
`SiftContract` instead. -/
theorem not_siftSpec : ¬ SiftSpec := by
  intro h
  have hI : Inv exBadSched := ⟨exM_inv.wf, exM_inv.pred, exM_inv.freeGe, exM_inv.free,
    exM_inv.refOne, exM_inv.refDom, exM_inv.cache⟩
  obtain ⟨m', hr, _⟩ := h.run exBadSched hI rfl (by decide)
  have := exBadSched_fails
  rw [hr] at this
  cases this

end DD
