/-
  DDProofs.MddPredShape — the unique table `_pred` never gets a stray entry: every operation used by
  `collect_garbage` and `swap` only erases entries or inserts the triple of a node.  Hence, from a
  manager whose `_pred` keys are all triples, `collect_garbage()` and `reorder(bdd, order)` lead to
  a manager with the same property, and with the invariant every entry is the triple of its node —
  what `assert_consistent()` checks.
-/
import DDProofs.MddTotalLoop
open Std

namespace DD

/-- every key of `_pred` is the triple `(level, low, high)` of some node record -/
def KeysShaped (m : Mgr) : Prop := ∀ (k : List Int) (u : Nat), m.pred[k]? = some u → ∃ n : Nd, n.key = k

/-- entries of the later table are entries of the earlier one, or have a triple as key -/
def PredLe (m m' : Mgr) : Prop :=
  ∀ (k : List Int) (u : Nat), m'.pred[k]? = some u → m.pred[k]? = some u ∨ ∃ n : Nd, n.key = k

theorem PredLe.refl (m : Mgr) : PredLe m m := fun _ _ h => Or.inl h

theorem PredLe.trans {a b c : Mgr} (h1 : PredLe a b) (h2 : PredLe b c) : PredLe a c := by
  intro k u h
  rcases h2 k u h with h | h
  · exact h1 k u h
  · exact Or.inr h

theorem PredLe.of_eq {m m' : Mgr} (h : m'.pred = m.pred) : PredLe m m' := by
  intro k u hk; rw [h] at hk; exact Or.inl hk

theorem KeysShaped.le {m m' : Mgr} (h : KeysShaped m) (hl : PredLe m m') : KeysShaped m' := by
  intro k u hk
  rcases hl k u hk with h1 | h1
  · exact h k u h1
  · exact h1

/-- with the invariant, shaped keys mean: every entry is the triple of its node -/
theorem KeysShaped.exact {m : Mgr} (h : KeysShaped m) (hI : Inv m) : PredExact m := by
  intro k u hk
  obtain ⟨n, hn⟩ := h k u hk
  subst hn
  exact ⟨n, (hI.pred n u).mp hk, rfl⟩

/-- a computation that keeps `_pred` within `PredLe`, whatever its outcome -/
def Shp {α} (x : M α) : Prop := ∀ m r m', x m = (r, m') → PredLe m m'

theorem Shp.pure {α} (a : α) : Shp (pure a : M α) := by
  intro m r m' h; cases h; exact PredLe.refl m

theorem Shp.get : Shp M.get := by
  intro m r m' h; cases h; exact PredLe.refl m

theorem Shp.throw {α} (e : Err) : Shp (M.throw e : M α) := by
  intro m r m' h; cases h; exact PredLe.refl m

theorem Shp.ofOption {α} (e : Err) (o : Option α) : Shp (M.ofOption e o) := by
  intro m r m' h
  cases o with
  | some a => cases h; exact PredLe.refl m
  | none => cases h; exact PredLe.refl m

theorem Shp.assert (b : Bool) (e : Err) : Shp (M.assert b e) := by
  intro m r m' h
  cases b with
  | true => cases h; exact PredLe.refl m
  | false => cases h; exact PredLe.refl m

theorem Shp.modify (f : Mgr → Mgr) (hf : ∀ m, PredLe m (f m)) : Shp (M.modify f) := by
  intro m r m' h; cases h; exact hf m

theorem Shp.bind {α β} {x : M α} {f : α → M β} (hx : Shp x) (hf : ∀ a, Shp (f a)) : Shp (x >>= f) := by
  intro m r m' h
  rw [M.bind_eq] at h
  cases hxm : x m with
  | mk r1 m1 =>
    rw [hxm] at h
    have h1 := hx m r1 m1 hxm
    cases r1 with
    | ok a => exact h1.trans (hf a m1 r m' h)
    | error e => cases h; exact h1

theorem Shp.ite {α} (c : Prop) [Decidable c] {x y : M α} (hx : Shp x) (hy : Shp y) :
    Shp (if c then x else y) := by
  split
  · exact hx
  · exact hy

theorem Shp.of_predEq {α} (x : M α) (h : ∀ m r m', x m = (r, m') → m'.pred = m.pred) : Shp x :=
  fun m r m' hx => PredLe.of_eq (h m r m' hx)

/-! ### the primitives -/

theorem Shp.incref (u : Int) : Shp (incref u) := by
  apply Shp.of_predEq
  intro m r m' h
  unfold DD.incref at h
  split at h <;> cases h <;> rfl

theorem Shp.decref (u : Int) : Shp (decref u) := by
  apply Shp.of_predEq
  intro m r m' h
  unfold DD.decref at h
  split at h
  · cases h; rfl
  · split at h <;> cases h <;> rfl

theorem Shp.refOf (u : Int) : Shp (refOf u) := by
  apply Shp.of_predEq
  intro m r m' h
  unfold DD.refOf at h
  split at h <;> cases h <;> rfl

theorem Shp.refOfExact (u : Int) : Shp (refOfExact u) := by
  apply Shp.of_predEq
  intro m r m' h
  unfold DD.refOfExact at h
  split at h
  · cases h; rfl
  · split at h <;> cases h <;> rfl

theorem predLe_insert (m : Mgr) (n : Nd) (u : Nat) (m' : Mgr) (h : m'.pred = m.pred.insert n.key u) :
    PredLe m m' := by
  intro k v hk
  rw [h, TreeMap.getElem?_insert] at hk
  split at hk
  · next heq => exact Or.inr ⟨n, (listInt_compare_eq _ _).mp heq⟩
  · exact Or.inl hk

theorem predLe_erase (m : Mgr) (key : List Int) (m' : Mgr) (h : m'.pred = m.pred.erase key) :
    PredLe m m' := by
  intro k v hk
  rw [h, TreeMap.getElem?_erase] at hk
  split at hk
  · cases hk
  · exact Or.inl hk

theorem Shp.requestReordering : Shp requestReordering := by
  apply Shp.of_predEq
  intro m r m' h
  unfold DD.requestReordering at h
  split at h
  · cases h; rfl
  · split at h
    · split at h <;> cases h <;> rfl
    · split at h <;> cases h <;> rfl

/-- the tail of `find_or_add` once the normalised children are fixed -/
theorem foa_tail_predLe (m : Mgr) (i : Nat) (v' w' : Int) (c : Int) (r : Except Err Int) (m' : Mgr)
    (h : (if v' = w' then ((Except.ok (c * v') : Except Err Int), m) else
      match m.pred[(⟨i, v', w'⟩ : Nd).key]? with
      | some u => (.ok (c * (u : Int)), m)
      | none =>
        if m.minFree ≤ 1 then (.error .assertion, m) else
        if m.tbl.succ.contains m.minFree then (.error .assertion, m) else
        match DD.incref v' { m with
            tbl := { m.tbl with succ := m.tbl.succ.insert m.minFree ⟨i, v', w'⟩ }
            pred := m.pred.insert (⟨i, v', w'⟩ : Nd).key m.minFree
            ref := m.ref.insert m.minFree 0
            minFree := nextFree (m.tbl.succ.insert m.minFree ⟨i, v', w'⟩)
              ((m.tbl.succ.insert m.minFree ⟨i, v', w'⟩).size + 2) m.minFree } with
        | (.error e, m2) => (.error e, m2)
        | (.ok _, m2) =>
          match DD.incref w' m2 with
          | (.error e, m3) => (.error e, m3)
          | (.ok _, m3) => (.ok (c * (m.minFree : Int)), m3)) = (r, m')) : PredLe m m' := by
  by_cases c1 : v' = w'
  · rw [if_pos c1] at h; cases h; exact PredLe.refl m
  · rw [if_neg c1] at h
    cases hp : m.pred[(⟨i, v', w'⟩ : Nd).key]? with
    | some u => rw [hp] at h; cases h; exact PredLe.refl m
    | none =>
      rw [hp] at h
      simp only at h
      by_cases c2 : m.minFree ≤ 1
      · rw [if_pos c2] at h; cases h; exact PredLe.refl m
      · rw [if_neg c2] at h
        by_cases c3 : m.tbl.succ.contains m.minFree = true
        · rw [if_pos c3] at h; cases h; exact PredLe.refl m
        · rw [if_neg c3] at h
          split at h
          · next e m2 hi1 =>
            cases h
            exact (predLe_insert m ⟨i, v', w'⟩ m.minFree _ rfl).trans (Shp.incref _ _ _ _ hi1)
          · next m2 hi1 =>
            have h1 := (predLe_insert m ⟨i, v', w'⟩ m.minFree _ rfl).trans (Shp.incref _ _ _ _ hi1)
            split at h
            · next e m3 hi2 => cases h; exact h1.trans (Shp.incref _ _ _ _ hi2)
            · next m3 hi2 => cases h; exact h1.trans (Shp.incref _ _ _ _ hi2)

theorem Shp.findOrAddCore (i : Nat) (v w : Int) : Shp (findOrAddCore i v w) := by
  intro m r m' h
  unfold DD.findOrAddCore at h
  by_cases c1 : m.nvars ≤ i
  · rw [if_pos c1] at h; cases h; exact PredLe.refl m
  · rw [if_neg c1] at h
    by_cases c2 : (!m.mem v) = true
    · rw [if_pos c2] at h; cases h; exact PredLe.refl m
    · rw [if_neg c2] at h
      by_cases c3 : (!m.mem w) = true
      · rw [if_pos c3] at h; cases h; exact PredLe.refl m
      · rw [if_neg c3] at h
        exact foa_tail_predLe m i _ _ _ r m' h

theorem Shp.findOrAdd (i : Int) (v w : Int) : Shp (findOrAdd i v w) := by
  intro m r m' h
  unfold DD.findOrAdd at h
  split at h
  · next e m1 hq =>
    cases h
    split at hq
    · exact Shp.requestReordering _ _ _ hq
    · cases hq
  · next m1 hq =>
    have h1 : PredLe m m1 := by
      split at hq
      · exact Shp.requestReordering _ _ _ hq
      · cases hq; exact PredLe.refl m
    split at h
    · cases h; exact h1
    · exact h1.trans (Shp.findOrAddCore _ _ _ _ _ _ h)

/-! ### the functions of `swap` and `collect_garbage` -/

macro "shp_step" : tactic => `(tactic| first
  | exact Shp.pure _ | exact Shp.get | exact Shp.throw _ | exact Shp.ofOption _ _
  | exact Shp.assert _ _ | exact Shp.incref _ | exact Shp.decref _ | exact Shp.refOf _
  | exact Shp.refOfExact _ | exact Shp.findOrAdd _ _ _
  | apply Shp.bind | apply Shp.ite | intro _)

theorem Shp.lowHighLevel (u : Int) : Shp (lowHighLevel u) := by
  unfold DD.lowHighLevel
  repeat shp_step

theorem Shp.swapCofactor (u : Int) (y : Nat) : Shp (swapCofactor u y) := by
  unfold DD.swapCofactor
  repeat shp_step

theorem Shp.setNode (u : Nat) (n : Nd) : Shp (setNode u n) := by
  intro m r m' h
  unfold DD.setNode at h
  rw [M.bind_ok (M.get_eq m)] at h
  cases hc : (!m.pred.contains n.key) with
  | false =>
    rw [hc, M.bind_err (M.assert_false _ m)] at h
    cases h; exact PredLe.refl m
  | true =>
    rw [hc, M.bind_ok (M.assert_true _ m), M.set_eq] at h
    cases h
    exact predLe_insert m n u _ rfl

theorem Shp.varAtLevel (i : Int) : Shp (varAtLevel i) := by
  unfold DD.varAtLevel
  repeat shp_step

theorem Shp.popLevel (j : Nat) : ∀ l, Shp (popLevel j l) := by
  intro l
  induction l with
  | nil => unfold DD.popLevel; exact Shp.pure _
  | cons u rest ih =>
    unfold DD.popLevel
    apply Shp.bind Shp.get; intro m
    apply Shp.bind (Shp.ofOption _ _); intro n
    apply Shp.bind (Shp.assert _ _); intro _
    apply Shp.bind (Shp.ofOption _ _); intro u'
    apply Shp.bind (Shp.modify _ (fun m => predLe_erase m n.key _ rfl)); intro _
    apply Shp.bind (Shp.assert _ _); intro _
    apply Shp.bind ih; intro r
    exact Shp.pure _

theorem Shp.moveUp (x y : Nat) : ∀ l, Shp (moveUp x y l) := by
  intro l
  induction l with
  | nil => unfold DD.moveUp; exact Shp.pure _
  | cons p rest ih =>
    obtain ⟨u, v, w⟩ := p
    unfold DD.moveUp
    apply Shp.bind Shp.get; intro m
    apply Shp.bind (Shp.ofOption _ _); intro n
    apply Shp.bind (Shp.assert _ _); intro _
    apply Shp.bind (Shp.setNode _ _); intro _
    exact ih

theorem Shp.moveIndep (x y : Nat) : ∀ l, Shp (moveIndep x y l) := by
  intro l
  induction l with
  | nil => unfold DD.moveIndep; exact Shp.pure _
  | cons p rest ih =>
    obtain ⟨u, v, w⟩ := p
    unfold DD.moveIndep
    apply Shp.bind Shp.get; intro m
    apply Shp.bind (Shp.ofOption _ _); intro n
    apply Shp.bind (Shp.assert _ _); intro _
    apply Shp.bind (Shp.assert _ _); intro _
    apply Shp.bind (Shp.lowHighLevel _); intro iv
    apply Shp.bind (Shp.lowHighLevel _); intro iw
    apply Shp.ite
    · exact ih
    · apply Shp.bind (Shp.setNode _ _); intro _
      apply Shp.bind ih; intro d
      exact Shp.pure _

theorem Shp.depCofactors (v w : Int) (y : Nat) : Shp (depCofactors v w y) := by
  unfold DD.depCofactors
  apply Shp.bind (Shp.swapCofactor _ _); intro p
  obtain ⟨iv, v0, v1⟩ := p
  apply Shp.bind (Shp.swapCofactor _ _); intro q
  obtain ⟨iw, w0, w1⟩ := q
  apply Shp.bind (Shp.assert _ _); intro _
  apply Shp.bind (Shp.assert _ _); intro _
  split <;> exact Shp.pure _

theorem Shp.moveDepStep (x y u : Nat) (v w : Int) : Shp (moveDepStep x y u v w) := by
  unfold DD.moveDepStep
  apply Shp.bind Shp.get; intro m
  apply Shp.bind (Shp.ofOption _ _); intro n
  apply Shp.bind (Shp.assert _ _); intro _
  apply Shp.bind (Shp.assert _ _); intro _
  apply Shp.bind (Shp.decref _); intro _
  apply Shp.bind (Shp.decref _); intro _
  apply Shp.bind (Shp.depCofactors _ _ _); intro c
  obtain ⟨v0, v1, w0, w1⟩ := c
  apply Shp.bind (Shp.findOrAdd _ _ _); intro p
  apply Shp.bind (Shp.findOrAdd _ _ _); intro q
  apply Shp.bind (Shp.assert _ _); intro _
  apply Shp.bind (Shp.assert _ _); intro _
  apply Shp.bind (Shp.lowHighLevel _); intro lp
  apply Shp.bind (Shp.lowHighLevel _); intro lq
  apply Shp.bind (Shp.setNode _ _); intro _
  apply Shp.bind (Shp.incref _); intro _
  apply Shp.bind (Shp.incref _); intro _
  exact Shp.pure _

theorem Shp.moveDep (x y : Nat) (done : List Nat) : ∀ l, Shp (moveDep x y done l) := by
  intro l
  induction l with
  | nil => unfold DD.moveDep; exact Shp.pure _
  | cons p rest ih =>
    obtain ⟨u, v, w⟩ := p
    unfold DD.moveDep
    apply Shp.ite
    · exact ih
    · apply Shp.bind (Shp.moveDepStep _ _ _ _ _); intro fresh
      apply Shp.bind ih; intro gx
      obtain ⟨g, xf⟩ := gx
      exact Shp.pure _

theorem Shp.checkOld (m0 : Mgr) (ok : Nat → Bool) : ∀ l, Shp (checkOld m0 ok l) := by
  intro l
  induction l with
  | nil => unfold DD.checkOld; exact Shp.pure _
  | cons p rest ih =>
    obtain ⟨u, v, w⟩ := p
    unfold DD.checkOld
    split
    · exact ih
    · apply Shp.bind (Shp.assert _ _); intro _
      exact ih

theorem Shp.checkFresh (m0 : Mgr) (y : Nat) : ∀ l, Shp (checkFresh m0 y l) := by
  intro l
  induction l with
  | nil => unfold DD.checkFresh; exact Shp.pure _
  | cons u rest ih =>
    unfold DD.checkFresh
    apply Shp.bind (Shp.ofOption _ _); intro n
    apply Shp.bind (Shp.assert _ _); intro _
    exact ih

theorem Shp.checkNewLevels (x y : Nat) (lx ly : List (Nat × Int × Int)) (xf : List Nat) :
    Shp (checkNewLevels x y lx ly xf) := by
  unfold DD.checkNewLevels
  apply Shp.bind Shp.get; intro m
  apply Shp.bind (Shp.checkOld _ _ _); intro _
  apply Shp.bind (Shp.checkFresh _ _ _); intro _
  exact Shp.checkOld _ _ _

theorem Shp.swapNodes (x y : Nat) (ox oy : List Nat) : Shp (swapNodes x y ox oy) := by
  unfold DD.swapNodes
  apply Shp.bind (Shp.popLevel _ _); intro lx
  apply Shp.bind (Shp.popLevel _ _); intro ly
  apply Shp.bind (Shp.moveUp _ _ _); intro _
  apply Shp.bind (Shp.moveIndep _ _ _); intro done
  apply Shp.bind (Shp.moveDep _ _ _ _); intro gx
  obtain ⟨g, xf⟩ := gx
  exact Shp.pure _

theorem Shp.exchangeNames (x y : Nat) : Shp (exchangeNames x y) := by
  unfold DD.exchangeNames
  apply Shp.bind (Shp.varAtLevel _); intro vx
  refine Shp.bind (Shp.modify _ ?_) ?_
  · intro m; exact PredLe.of_eq rfl
  intro _
  apply Shp.bind (Shp.varAtLevel _); intro vy
  refine Shp.modify _ ?_
  intro m; exact PredLe.of_eq rfl

theorem Shp.gcStep (u : Nat) (work : List Nat) : Shp (gcStep u work) := by
  have hrest : ∀ (_ : PUnit), Shp (do
      let m ← M.get
      let n ← M.ofOption .key (m.tbl.succ[u]?)
      M.modify fun m => { m with tbl := { m.tbl with succ := m.tbl.succ.erase u } }
      let u' ← M.ofOption .key (m.pred[n.key]?)
      M.modify fun m => { m with pred := m.pred.erase n.key }
      let uref ← M.ofOption .key (m.ref[u]?)
      M.modify fun m => { m with ref := m.ref.erase u, minFree := min u m.minFree }
      M.assert (u = u')
      M.assert (uref = 0)
      let m ← M.get
      M.assert (1 < m.minFree)
      DD.decref n.lo
      DD.decref n.hi
      let rv ← DD.refOf n.lo
      let work := if rv = 0 && n.lo.natAbs ≠ 1 then pushNew work n.lo.natAbs else work
      let rw ← DD.refOfExact n.hi
      let work := if rw = 0 && n.hi ≠ 1 then pushNew work n.hi.natAbs else work
      return work : M (List Nat)) := by
    intro _
    apply Shp.bind Shp.get; intro m
    apply Shp.bind (Shp.ofOption _ _); intro n
    refine Shp.bind (Shp.modify _ ?_) ?_
    · intro m; exact PredLe.of_eq rfl
    intro _
    apply Shp.bind (Shp.ofOption _ _); intro u'
    refine Shp.bind (Shp.modify _ ?_) ?_
    · intro m; exact predLe_erase m n.key _ rfl
    intro _
    apply Shp.bind (Shp.ofOption _ _); intro uref
    refine Shp.bind (Shp.modify _ ?_) ?_
    · intro m; exact PredLe.of_eq rfl
    intro _
    apply Shp.bind (Shp.assert _ _); intro _
    apply Shp.bind (Shp.assert _ _); intro _
    apply Shp.bind Shp.get; intro m2
    apply Shp.bind (Shp.assert _ _); intro _
    apply Shp.bind (Shp.decref _); intro _
    apply Shp.bind (Shp.decref _); intro _
    apply Shp.bind (Shp.refOf _); intro rv
    apply Shp.bind (Shp.refOfExact _); intro rw
    exact Shp.pure _
  unfold DD.gcStep
  by_cases hu : u = 1
  · subst hu
    simp only [↓reduceIte]
    apply Shp.bind (Shp.throw _)
    intro a; exact hrest a
  · simp only [hu, if_false]
    first
      | exact hrest ()
      | (apply Shp.bind (Shp.pure _); intro a; exact hrest a)

theorem Shp.gcLoop : ∀ (f : Nat) (work : List Nat), Shp (gcLoop f work) := by
  intro f
  induction f with
  | zero =>
    intro work
    cases work with
    | nil => unfold DD.gcLoop; exact Shp.pure _
    | cons u rest => unfold DD.gcLoop; exact Shp.throw _
  | succ f ih =>
    intro work
    cases work with
    | nil => unfold DD.gcLoop; exact Shp.pure _
    | cons u rest =>
      unfold DD.gcLoop
      apply Shp.bind (Shp.gcStep _ _); intro w
      exact ih w

theorem Shp.unusedOf : ∀ l, Shp (unusedOf l) := by
  intro l
  induction l with
  | nil => unfold DD.unusedOf; exact Shp.pure _
  | cons u rest ih =>
    unfold DD.unusedOf
    apply Shp.bind (Shp.refOf _); intro c
    apply Shp.bind ih; intro r
    split <;> exact Shp.pure _

theorem Shp.collectGarbage (roots : Option (List Int)) : Shp (collectGarbage roots) := by
  unfold DD.collectGarbage
  apply Shp.bind Shp.get; intro m
  apply Shp.bind (Shp.unusedOf _); intro unused
  apply Shp.bind (Shp.gcLoop _ _); intro _
  refine Shp.bind (Shp.modify _ ?_) ?_
  · intro m; exact PredLe.of_eq rfl
  intro _
  apply Shp.bind Shp.get; intro m2
  exact Shp.assert _ _

theorem Shp.swapWith (x y oldsize : Nat) (ox oy : List Nat) : Shp (swapWith x y oldsize ox oy) := by
  unfold DD.swapWith
  apply Shp.bind (Shp.swapNodes _ _ _ _); intro q
  obtain ⟨lx, ly, garbage, xfresh⟩ := q
  apply Shp.bind (Shp.exchangeNames _ _); intro _
  apply Shp.bind (Shp.collectGarbage _); intro _
  apply Shp.bind Shp.get; intro m
  apply Shp.bind (Shp.checkNewLevels _ _ _ _ _); intro _
  exact Shp.pure _

theorem Shp.takeSwapOrders (x y : Nat) : Shp (takeSwapOrders x y) := by
  apply Shp.of_predEq
  intro m r m' h
  unfold DD.takeSwapOrders at h
  rw [M.bind_ok (M.get_eq m)] at h
  cases hs : m.sched with
  | nil => rw [hs] at h; cases h; rfl
  | cons it rest =>
    rw [hs] at h
    cases it with
    | sift names => cases h; rfl
    | swap lv =>
      simp only at h
      rw [M.bind_ok (M.set_eq _ m)] at h
      split at h
      · cases h; rfl
      · cases h; rfl

theorem Shp.swapBody (x y : Nat) : Shp (swapBody x y) := by
  unfold DD.swapBody
  apply Shp.bind Shp.get; intro m
  apply Shp.bind (Shp.takeSwapOrders _ _); intro o
  obtain ⟨ox, oy⟩ := o
  exact Shp.swapWith _ _ _ _ _

end DD
