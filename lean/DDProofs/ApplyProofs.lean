/-
  DDProofs.ApplyProofs — the decorator `_try_to_reorder` when no request can fire,
  the public `ite`, and `apply` for the propositional connectives, derived from
  the regenerated table's `decide`d soundness.
-/
import DD.Apply
import DDProofs.Ite
import DDProps.Tables
open Std

namespace DD

theorem Inv.setCtx {m : Mgr} (h : Inv m) (c : Bool) : Inv { m with ctx := c } :=
  ⟨h.wf, h.pred, h.freeGe, h.free, h.refOne, h.refDom, h.cache⟩

/-- `with _ReorderingContext(bdd): return f()` when `f` succeeds -/
theorem withCtx_ok {α} (f : M α) (m : Mgr) (a : α) (m1 : Mgr)
    (h : f { m with ctx := true } = (.ok a, m1)) :
    withCtx f m = (.ok (some a), { m1 with ctx := m.ctx }) := by
  unfold withCtx
  simp only [h]

/-- the decorator is transparent when the body succeeds -/
theorem tryToReorder_ok {α} (f : M α) (m : Mgr) (a : α) (m1 : Mgr)
    (h : f { m with ctx := true } = (.ok a, m1)) :
    tryToReorder f m = (.ok a, { m1 with ctx := m.ctx }) := by
  unfold tryToReorder
  simp only [bind, M.bind', withCtx_ok f m a m1 h, pure, M.pure']

/-- the decorator passes other exceptions through (state kept, flag restored) -/
theorem tryToReorder_err {α} (f : M α) (m : Mgr) (e : Err) (m1 : Mgr)
    (h : f { m with ctx := true } = (.error e, m1)) (hne : e ≠ .needsReordering) :
    tryToReorder f m = (.error e, { m1 with ctx := m.ctx }) := by
  unfold tryToReorder withCtx
  simp only [bind, M.bind', h]
  have : (e = Err.needsReordering) = False := by simp [hne]
  simp [this]

/-- public `BDD.ite`, reordering not enabled: total, and the result is the if-then-else -/
theorem ite_spec_off (m : Mgr) (hI : Inv m) (hoff : m.lastLen = none) (g u v : Int)
    (hg : m.tbl.Mem g) (hu : m.tbl.Mem u) (hv : m.tbl.Mem v) :
    ∃ r m', ite g u v m = (.ok r, m') ∧ ItePost m g u v r m' := by
  have h := iteF_spec (m.nvars + 2) { m with ctx := true } g u v (hI.setCtx true) hg hu hv
    (by show m.nvars + 1 ≤ _; omega)
  have hraw : iteRaw g u v { m with ctx := true } = iteF (m.nvars + 2) g u v { m with ctx := true } := by
    simp [iteRaw, bind, M.bind', M.get, Mgr.nvars]
  generalize hres : iteF (m.nvars + 2) g u v { m with ctx := true } = res at h
  obtain ⟨r, m1⟩ := res
  cases r with
  | error e =>
    exfalso
    have := h.2.armed.2
    simp [hoff] at this
  | ok r =>
    refine ⟨r, { m1 with ctx := m.ctx }, ?_, ?_⟩
    · unfold ite
      exact tryToReorder_ok _ m r m1 (by rw [hraw, hres])
    · have hp : ItePost { m with ctx := true } g u v r m1 := h
      exact ⟨hp.inv.setCtx _, hp.ext, hp.mem, hp.lvl, hp.den,
        ⟨hp.frame.vars, hp.frame.l2v, hp.frame.lastLen, rfl, hp.frame.sched, hp.frame.roots⟩⟩

/-! ### reading the regenerated table -/

theorem findRow_some {op : String} : ∀ {tbl : List ApplyRow} {r : ApplyRow},
    findRow op tbl = some r → r ∈ tbl ∧ r.aliases.contains op = true := by
  intro tbl
  induction tbl with
  | nil => intro r h; simp [findRow] at h
  | cons x xs ih =>
    intro r h
    simp only [findRow] at h
    split at h
    · next hc => cases h; exact ⟨List.mem_cons_self, hc⟩
    · have := ih h; exact ⟨List.mem_cons_of_mem _ this.1, this.2⟩

theorem findRow_isSome_of_filter {op : String} : ∀ {tbl : List ApplyRow},
    (tbl.filter fun r => r.aliases.contains op).length = 1 → ∃ r, findRow op tbl = some r := by
  intro tbl
  induction tbl with
  | nil => intro h; simp at h
  | cons x xs ih =>
    intro h
    by_cases hc : x.aliases.contains op = true
    · exact ⟨x, by rw [findRow, if_pos hc]⟩
    · rw [findRow, if_neg hc]
      apply ih
      rw [List.filter_cons, if_neg (by simpa using hc)] at h
      exact h

/-- what the table says about a propositional binary alias -/
theorem table_binary (op : String) (c : Conn) (hc : docConn op = some c)
    (h2 : c.arity = 2) (hq1 : c ≠ .forall_) (hq2 : c ≠ .exists_) :
    Gen.allOps.contains op = true →
    ∃ row a b d, findRow op Gen.applyTable = some row ∧ row.templ = .ite a b d ∧
      atomOk a = true ∧ atomOk b = true ∧ atomOk d = true ∧
      atomUsesW a = false ∧ atomUsesW b = false ∧ atomUsesW d = false ∧
      ∀ u v w : Bool, (if atomB u v w a then atomB u v w b else atomB u v w d) = c.eval u v w := by
  intro hall
  have hv := vocab_complete
  unfold vocabComplete at hv
  simp only [Bool.and_eq_true, List.all_eq_true] at hv
  have hmem : op ∈ Gen.allOps := by simpa using hall
  have hone := hv.1.1 op hmem
  obtain ⟨row, hrow⟩ := findRow_isSome_of_filter (by simpa using hone)
  obtain ⟨hin, hal⟩ := findRow_some hrow
  have hs := applyTable_sound
  unfold tableSound at hs
  simp only [List.all_eq_true] at hs
  have hrs := hs row hin op (by simpa using hal)
  unfold rowSound at hrs
  rw [hc] at hrs
  cases ht : row.templ with
  | neg => rw [ht] at hrs; cases c <;> simp_all [Conn.arity]
  | quant fa f b => rw [ht] at hrs; cases c <;> simp_all [Conn.arity]
  | notImpl => rw [ht] at hrs; cases c <;> simp_all
  | bad => rw [ht] at hrs; cases c <;> simp_all
  | ite a b d =>
    rw [ht] at hrs
    refine ⟨row, a, b, d, hrow, ht, ?_⟩
    have hx : (c != Conn.forall_ && c != Conn.exists_ && c != Conn.not && atomOk a && atomOk b && atomOk d &&
        ((atomUsesW a || atomUsesW b || atomUsesW d) == (c.arity == 3)) &&
        bools.all fun u => bools.all fun v => bools.all fun w =>
          (if atomB u v w a then atomB u v w b else atomB u v w d) == c.eval u v w) = true := by
      cases c <;> simp_all
    simp only [Bool.and_eq_true, h2] at hx
    obtain ⟨⟨⟨⟨⟨_, hoa⟩, hob⟩, hod⟩, hw⟩, htab⟩ := hx
    have hw' : (atomUsesW a || atomUsesW b || atomUsesW d) = false := by
      simpa using hw
    simp only [Bool.or_eq_false_iff] at hw'
    refine ⟨hoa, hob, hod, hw'.1.1, hw'.1.2, hw'.2, ?_⟩
    intro u v w
    simp only [bools, List.all_cons, List.all_nil, Bool.and_true, Bool.and_eq_true, beq_iff_eq] at htab
    cases u <;> cases v <;> cases w <;> simp_all

/-- value of an operand atom that does not mention `w` -/
theorem atomVal_den (t : Tbl) (hw : WF t) (u v ww : Int) (hu : t.Mem u) (hv : t.Mem v)
    (a : Atom) (hok : atomOk a = true) (hnw : atomUsesW a = false) :
    ∃ x, atomVal u v ww a = .ok x ∧ t.Mem x ∧
      ∀ asg wb, den t x asg = atomB (den t u asg) (den t v asg) wb a := by
  cases a with
  | u => exact ⟨u, rfl, hu, fun _ _ => rfl⟩
  | v => exact ⟨v, rfl, hv, fun _ _ => rfl⟩
  | w => simp [atomUsesW] at hnw
  | nu => exact ⟨-u, rfl, mem_neg hu, fun asg _ => den_neg t hw u asg hu⟩
  | nv => exact ⟨-v, rfl, mem_neg hv, fun asg _ => den_neg t hw v asg hv⟩
  | nw => simp [atomUsesW] at hnw
  | one => exact ⟨1, rfl, Or.inl rfl, fun asg _ => den_one t asg⟩
  | mone => exact ⟨-1, rfl, Or.inl rfl, fun asg _ => den_neg_one t asg⟩
  | bad => simp [atomOk] at hok

/-- `apply(op, u, v)` for every propositional binary alias of the vocabulary: the result denotes
the documented connective of the operands (reordering not enabled) -/
theorem apply_binary_spec (m : Mgr) (hI : Inv m) (hoff : m.lastLen = none)
    (op : String) (c : Conn) (hc : docConn op = some c) (h2 : c.arity = 2)
    (hq1 : c ≠ .forall_) (hq2 : c ≠ .exists_) (hall : Gen.allOps.contains op = true)
    (u v : Int) (hu : m.tbl.Mem u) (hv : m.tbl.Mem v) :
    ∃ r m', apply op u (some v) none m = (.ok r, m') ∧ Inv m' ∧ Ext m.tbl m'.tbl ∧
      m'.tbl.Mem r ∧ Frame m m' ∧
      ∀ a, den m'.tbl r a = c.eval (den m.tbl u a) (den m.tbl v a) false := by
  have hW := hI.wf.toWF
  obtain ⟨row, a, b, d, hrow, ht, hoa, hob, hod, hwa, hwb, hwd, htab⟩ :=
    table_binary op c hc h2 hq1 hq2 hall
  -- arity check passes
  have hv' := vocab_complete
  unfold vocabComplete at hv'
  simp only [Bool.and_eq_true, List.all_eq_true] at hv'
  have hmem : op ∈ Gen.allOps := by simpa using hall
  have har := hv'.2 op hmem
  rw [hc] at har
  simp only [h2, Bool.and_eq_true, beq_iff_eq] at har
  have hun : Gen.unaryOps.contains op = false := by
    have := har.1.1; simpa using this.symm
  have hbi : Gen.binaryOps.contains op = true := by
    have := har.1.2; simpa using this.symm
  have harity : assertOperatorArity op (some v) none = .ok () := by
    unfold assertOperatorArity
    rw [hall, hun, hbi]
    rfl
  obtain ⟨xa, hxa, mxa, dxa⟩ := atomVal_den m.tbl hW u v 0 hu hv a hoa hwa
  obtain ⟨xb, hxb, mxb, dxb⟩ := atomVal_den m.tbl hW u v 0 hu hv b hob hwb
  obtain ⟨xd, hxd, mxd, dxd⟩ := atomVal_den m.tbl hW u v 0 hu hv d hod hwd
  obtain ⟨r, m', hite, hp⟩ := ite_spec_off m hI hoff xa xb xd mxa mxb mxd
  refine ⟨r, m', ?_, hp.inv, hp.ext, hp.mem, hp.frame, ?_⟩
  · unfold apply
    have hmu : m.mem u = true := (Mgr.mem_iff m u).mpr hu
    have hmv : m.mem v = true := (Mgr.mem_iff m v).mpr hv
    simp only [harity, hmu, hmv, optNotMem, Bool.not_true, Bool.false_eq_true, if_false, hrow, ht,
      hwa, hwb, hwd, Bool.or_self, Option.getD_none, hxa, hxb, hxd]
    exact hite
  · intro asg
    rw [hp.den asg, dxa asg false, dxb asg false, dxd asg false]
    exact htab _ _ _

end DD

namespace DD

/-- what the table says about a unary alias -/
theorem table_unary (op : String) (hc : docConn op = some .not) (hall : Gen.allOps.contains op = true) :
    ∃ row, findRow op Gen.applyTable = some row ∧ row.templ = .neg := by
  have hv := vocab_complete
  unfold vocabComplete at hv
  simp only [Bool.and_eq_true, List.all_eq_true] at hv
  have hmem : op ∈ Gen.allOps := by simpa using hall
  have hone := hv.1.1 op hmem
  obtain ⟨row, hrow⟩ := findRow_isSome_of_filter (by simpa using hone)
  obtain ⟨hin, hal⟩ := findRow_some hrow
  have hs := applyTable_sound
  unfold tableSound at hs
  simp only [List.all_eq_true] at hs
  have hrs := hs row hin op (by simpa using hal)
  unfold rowSound at hrs
  rw [hc] at hrs
  refine ⟨row, hrow, ?_⟩
  cases ht : row.templ <;> rw [ht] at hrs <;> simp_all

/-- `apply(op, u)` for every spelling of negation -/
theorem apply_not_spec (m : Mgr) (hI : Inv m) (op : String) (hc : docConn op = some .not)
    (hall : Gen.allOps.contains op = true) (u : Int) (hu : m.tbl.Mem u) :
    apply op u none none m = (.ok (-u), m) ∧ m.tbl.Mem (-u) ∧
      ∀ a, den m.tbl (-u) a = !den m.tbl u a := by
  obtain ⟨row, hrow, ht⟩ := table_unary op hc hall
  have hv' := vocab_complete
  unfold vocabComplete at hv'
  simp only [Bool.and_eq_true, List.all_eq_true] at hv'
  have hmem : op ∈ Gen.allOps := by simpa using hall
  have har := hv'.2 op hmem
  rw [hc] at har
  simp only [Conn.arity, Bool.and_eq_true, beq_iff_eq] at har
  have hun : Gen.unaryOps.contains op = true := by
    have := har.1.1; simpa using this.symm
  have harity : assertOperatorArity op none none = .ok () := by
    unfold assertOperatorArity
    rw [hall, hun]
    rfl
  refine ⟨?_, mem_neg hu, fun a => den_neg m.tbl hI.wf.toWF u a hu⟩
  unfold apply
  have hmu : m.mem u = true := (Mgr.mem_iff m u).mpr hu
  simp only [harity, hmu, optNotMem, Bool.not_true, Bool.false_eq_true, if_false, hrow, ht]

/-- what the table says about the ternary alias -/
theorem table_ternary (op : String) (hc : docConn op = some .ite) (hall : Gen.allOps.contains op = true) :
    ∃ row a b d, findRow op Gen.applyTable = some row ∧ row.templ = .ite a b d ∧
      atomOk a = true ∧ atomOk b = true ∧ atomOk d = true ∧
      (atomUsesW a || atomUsesW b || atomUsesW d) = true ∧
      ∀ u v w : Bool, (if atomB u v w a then atomB u v w b else atomB u v w d) = (if u then v else w) := by
  have hv := vocab_complete
  unfold vocabComplete at hv
  simp only [Bool.and_eq_true, List.all_eq_true] at hv
  have hmem : op ∈ Gen.allOps := by simpa using hall
  have hone := hv.1.1 op hmem
  obtain ⟨row, hrow⟩ := findRow_isSome_of_filter (by simpa using hone)
  obtain ⟨hin, hal⟩ := findRow_some hrow
  have hs := applyTable_sound
  unfold tableSound at hs
  simp only [List.all_eq_true] at hs
  have hrs := hs row hin op (by simpa using hal)
  unfold rowSound at hrs
  rw [hc] at hrs
  cases ht : row.templ with
  | neg => rw [ht] at hrs; simp_all
  | quant fa f b => rw [ht] at hrs; simp_all
  | notImpl => rw [ht] at hrs; simp_all
  | bad => rw [ht] at hrs; simp_all
  | ite a b d =>
    rw [ht] at hrs
    refine ⟨row, a, b, d, hrow, ht, ?_⟩
    simp only [Bool.and_eq_true, Conn.arity] at hrs
    obtain ⟨⟨⟨⟨⟨_, hoa⟩, hob⟩, hod⟩, hw⟩, htab⟩ := hrs
    refine ⟨hoa, hob, hod, by simpa using hw, ?_⟩
    intro u v w
    simp only [bools, List.all_cons, List.all_nil, Bool.and_true, Bool.and_eq_true, beq_iff_eq,
      Conn.eval] at htab
    cases u <;> cases v <;> cases w <;> simp_all

/-- value of an operand atom (three operands available) -/
theorem atomVal_den3 (t : Tbl) (hw : WF t) (u v w : Int) (hu : t.Mem u) (hv : t.Mem v) (hww : t.Mem w)
    (a : Atom) (hok : atomOk a = true) :
    ∃ x, atomVal u v w a = .ok x ∧ t.Mem x ∧
      ∀ asg, den t x asg = atomB (den t u asg) (den t v asg) (den t w asg) a := by
  cases a with
  | u => exact ⟨u, rfl, hu, fun _ => rfl⟩
  | v => exact ⟨v, rfl, hv, fun _ => rfl⟩
  | w => exact ⟨w, rfl, hww, fun _ => rfl⟩
  | nu => exact ⟨-u, rfl, mem_neg hu, fun asg => den_neg t hw u asg hu⟩
  | nv => exact ⟨-v, rfl, mem_neg hv, fun asg => den_neg t hw v asg hv⟩
  | nw => exact ⟨-w, rfl, mem_neg hww, fun asg => den_neg t hw w asg hww⟩
  | one => exact ⟨1, rfl, Or.inl rfl, fun asg => den_one t asg⟩
  | mone => exact ⟨-1, rfl, Or.inl rfl, fun asg => den_neg_one t asg⟩
  | bad => simp [atomOk] at hok

/-- `apply('ite', u, v, w)` -/
theorem apply_ite_spec (m : Mgr) (hI : Inv m) (hoff : m.lastLen = none)
    (op : String) (hc : docConn op = some .ite) (hall : Gen.allOps.contains op = true)
    (u v w : Int) (hu : m.tbl.Mem u) (hv : m.tbl.Mem v) (hw : m.tbl.Mem w) :
    ∃ r m', apply op u (some v) (some w) m = (.ok r, m') ∧ Inv m' ∧ Ext m.tbl m'.tbl ∧
      m'.tbl.Mem r ∧ Frame m m' ∧
      ∀ a, den m'.tbl r a = if den m.tbl u a then den m.tbl v a else den m.tbl w a := by
  have hW := hI.wf.toWF
  obtain ⟨row, a, b, d, hrow, ht, hoa, hob, hod, husesw, htab⟩ := table_ternary op hc hall
  have hv' := vocab_complete
  unfold vocabComplete at hv'
  simp only [Bool.and_eq_true, List.all_eq_true] at hv'
  have hmem : op ∈ Gen.allOps := by simpa using hall
  have har := hv'.2 op hmem
  rw [hc] at har
  simp only [Conn.arity, Bool.and_eq_true, beq_iff_eq] at har
  have hun : Gen.unaryOps.contains op = false := by
    have := har.1.1; simpa using this.symm
  have hbi : Gen.binaryOps.contains op = false := by
    have := har.1.2; simpa using this.symm
  have hte : Gen.ternaryOps.contains op = true := by
    have := har.2; simpa using this.symm
  have harity : assertOperatorArity op (some v) (some w) = .ok () := by
    unfold assertOperatorArity
    rw [hall, hun, hbi, hte]
    rfl
  obtain ⟨xa, hxa, mxa, dxa⟩ := atomVal_den3 m.tbl hW u v w hu hv hw a hoa
  obtain ⟨xb, hxb, mxb, dxb⟩ := atomVal_den3 m.tbl hW u v w hu hv hw b hob
  obtain ⟨xd, hxd, mxd, dxd⟩ := atomVal_den3 m.tbl hW u v w hu hv hw d hod
  obtain ⟨r, m', hite, hp⟩ := ite_spec_off m hI hoff xa xb xd mxa mxb mxd
  refine ⟨r, m', ?_, hp.inv, hp.ext, hp.mem, hp.frame, ?_⟩
  · unfold apply
    have hmu : m.mem u = true := (Mgr.mem_iff m u).mpr hu
    have hmv : m.mem v = true := (Mgr.mem_iff m v).mpr hv
    have hmw : m.mem w = true := (Mgr.mem_iff m w).mpr hw
    simp only [harity, hmu, hmv, hmw, optNotMem, Bool.not_true, Bool.false_eq_true, if_false, hrow, ht,
      husesw, if_true, hxa, hxb, hxd]
    exact hite
  · intro asg
    rw [hp.den asg, dxa asg, dxb asg, dxd asg]
    exact htab _ _ _

end DD
