/-
  DDProofs.SatExample — a concrete table (x ∧ y over the order x < y) meeting the hypotheses
  of the C10 / C18 theorems (non-vacuity).
-/
import DDProofs.SatPick
open Std

namespace DD

/-- variables `x` (level 0), `y` (level 1); node 2 = `y`, node 3 = `x ∧ y` -/
def exTbl : Tbl where
  succ := (({} : TreeMap Nat Nd).insert 2 ⟨1, -1, 1⟩).insert 3 ⟨0, -1, 2⟩
  vars := (({} : TreeMap String Nat).insert "x" 0).insert "y" 1
  l2v := (({} : TreeMap Nat String).insert 0 "x").insert 1 "y"

theorem exTbl_nvars : exTbl.nvars = 2 := by decide

theorem exTbl_node {u : Nat} {n : Nd} (h : exTbl.node? u = some n) :
    (u = 2 ∧ n = ⟨1, -1, 1⟩) ∨ (u = 3 ∧ n = ⟨0, -1, 2⟩) := by
  simp only [Tbl.node?, exTbl, TreeMap.getElem?_insert] at h
  split at h
  · next h3 => right; simp at h3; cases h; exact ⟨h3.symm, rfl⟩
  · split at h
    · next h2 => left; simp at h2; cases h; exact ⟨h2.symm, rfl⟩
    · simp at h

theorem exTbl_node2 : exTbl.node? 2 = some ⟨1, -1, 1⟩ := by decide
theorem exTbl_node3 : exTbl.node? 3 = some ⟨0, -1, 2⟩ := by decide

theorem exTbl_wfu : WFU exTbl := by
  have l1 : exTbl.levelOf 1 = 2 := by decide
  have lm1 : exTbl.levelOf (-1) = 2 := by decide
  have l2 : exTbl.levelOf 2 = 1 := by decide
  refine ⟨⟨?_, ?_, ?_, ?_, ?_, ?_, ?_, ?_⟩, ?_⟩
  · intro u n h; rcases exTbl_node h with ⟨rfl, rfl⟩ | ⟨rfl, rfl⟩ <;> simp [exTbl_nvars]
  · intro u n h; rcases exTbl_node h with ⟨rfl, rfl⟩ | ⟨rfl, rfl⟩ <;> decide
  · intro u n h; rcases exTbl_node h with ⟨rfl, rfl⟩ | ⟨rfl, rfl⟩ <;> decide
  · intro u n h; rcases exTbl_node h with ⟨rfl, rfl⟩ | ⟨rfl, rfl⟩ <;> simp [lm1]
  · intro u n h; rcases exTbl_node h with ⟨rfl, rfl⟩ | ⟨rfl, rfl⟩ <;> simp [l1, l2]
  · intro u n h; rcases exTbl_node h with ⟨rfl, rfl⟩ | ⟨rfl, rfl⟩ <;> simp
  · intro u n h; rcases exTbl_node h with ⟨rfl, rfl⟩ | ⟨rfl, rfl⟩ <;> simp
  · intro u n h; rcases exTbl_node h with ⟨rfl, rfl⟩ | ⟨rfl, rfl⟩ <;> simp
  · intro u u' n h h'
    rcases exTbl_node h with ⟨rfl, rfl⟩ | ⟨rfl, rfl⟩ <;>
      rcases exTbl_node h' with ⟨rfl, hn⟩ | ⟨rfl, hn⟩ <;> first | rfl | (simp at hn)

theorem exTbl_varsOK : VarsOK exTbl := by
  have n0 : exTbl.nameOf 0 = "x" := by decide
  have n1 : exTbl.nameOf 1 = "y" := by decide
  constructor
  · intro i hi
    rw [exTbl_nvars] at hi
    have : i = 0 ∨ i = 1 := by omega
    rcases this with rfl | rfl
    · exact ⟨"x", by decide⟩
    · exact ⟨"y", by decide⟩
  · intro i j hi hj h
    rw [exTbl_nvars] at hi hj
    have hi' : i = 0 ∨ i = 1 := by omega
    have hj' : j = 0 ∨ j = 1 := by omega
    rcases hi' with rfl | rfl <;> rcases hj' with rfl | rfl <;> first | rfl | (rw [n0, n1] at h; simp at h) | (rw [n1, n0] at h; simp at h)

theorem exTbl_mem3 : exTbl.Mem 3 := by decide
theorem exTbl_mem_neg3 : exTbl.Mem (-3) := by decide

end DD
