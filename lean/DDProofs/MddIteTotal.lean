/-
  DDProofs.MddIteTotal — `MDD.find_or_add` (with valid arguments), `MDD.ite` and `MDD.apply` return
  normally on a manager satisfying the invariant: none of the code's assertions or lookups can
  fail.  The only other outcome of the MODEL is its own report `MODEL-SCHEDULE-MISMATCH` (a
  recorded `_free.pop()` result that is not in `_free` — not a behaviour of the code); with no
  recorded schedule the calls are total.
-/
import DDProofs.MddFuel
open Std

namespace DD

/-- outcome of a model computation w.r.t. the recorded allocator schedule: an error can only be
the schedule mismatch, and only when a schedule was recorded; an empty schedule stays empty -/
def TotP {α} (m : MddMgr) (res : Except Err α × MddMgr) : Prop :=
  (∀ e, res.1 = .error e → e = Err.sched ∧ m.sched ≠ []) ∧ (m.sched = [] → res.2.sched = [])

theorem TotP.of_ok {α} {m m' : MddMgr} (a : α) (hs : m.sched = [] → m'.sched = []) :
    TotP m ((.ok a : Except Err α), m') := by
  refine And.intro (fun e h => ?_) hs
  simp at h

theorem TotP.of_err {α} {m m' : MddMgr} {e : Err} (he : e = Err.sched ∧ m.sched ≠ [])
    (hs : m.sched = [] → m'.sched = []) : TotP m ((.error e : Except Err α), m') := by
  refine And.intro (fun e' h => ?_) hs
  simp only [Except.error.injEq] at h
  subst h; exact he

theorem TotP.ok_same {α} (m : MddMgr) (a : α) : TotP m ((.ok a : Except Err α), m) :=
  TotP.of_ok a (fun h => h)

theorem TotP.err {α} {m m' : MddMgr} {e : Err} (h : TotP m ((.error e : Except Err α), m')) :
    e = Err.sched ∧ m.sched ≠ [] := h.1 e rfl

theorem mAllocate_tot (m : MddMgr) : TotP m (mAllocate m) := by
  unfold mAllocate
  split
  · exact TotP.of_ok _ (fun h => h)
  · split
    · next hs => exact TotP.of_ok _ (fun _ => hs)
    · next p rest hs =>
      split
      · exact TotP.of_ok _ (fun h => by rw [hs] at h; cases h)
      · exact TotP.of_err ⟨rfl, by rw [hs]; simp⟩ (fun h => h)

theorem mIncrefAll_tot : ∀ (l : List Int) (m : MddMgr), (∀ k ∈ l, m.ref.contains k.natAbs = true) →
    ∃ m', mIncrefAll l m = (.ok (), m') ∧ m'.sched = m.sched := by
  intro l
  induction l with
  | nil => intro m _; exact ⟨m, rfl, rfl⟩
  | cons k rest ih =>
    intro m h
    have hk := h k (by simp)
    rw [TreeMap.contains_eq_isSome_getElem?] at hk
    obtain ⟨c, hc⟩ := Option.isSome_iff_exists.mp hk
    unfold mIncrefAll
    have h1 : mIncref k m = (.ok (), { m with ref := m.ref.insert k.natAbs (c + 1) }) := by
      unfold mIncref; rw [hc]
    rw [h1]
    simp only
    obtain ⟨m', hm', hs⟩ := ih ({ m with ref := m.ref.insert k.natAbs (c + 1) }) (by
      intro k' hk'
      show (m.ref.insert k.natAbs (c + 1)).contains k'.natAbs = true
      rw [TreeMap.contains_insert]
      simp [h k' (List.mem_cons_of_mem _ hk')])
    exact ⟨m', hm', hs⟩

theorem mFindOrMake_tot (m : MddMgr) (h : MInv m) (i : Nat) (L : List Int)
    (hmem : ∀ k ∈ L, m.tbl.Mem k) : TotP m (mFindOrMake i L m) := by
  unfold mFindOrMake
  simp only
  cases hp : m.pred[(MNd.key ⟨i, L⟩)]? with
  | some u => exact TotP.ok_same m u
  | none =>
    simp only
    have hA := mAllocate_tot m
    cases ha : mAllocate m with
    | mk r m1 =>
      rw [ha] at hA
      cases r with
      | error e => exact TotP.of_err hA.err hA.2
      | ok u =>
        simp only
        have A := mAllocate_spec m h u m1 ha
        have hnm : m1.mem ((u : Nat) : Int) = false := by
          show m1.tbl.mem ((u : Nat) : Int) = false
          rw [A.tbl, MTbl.mem_false_iff m.tbl h.term]
          rintro (h1 | h1)
          · have := A.ge_two; simp at h1; omega
          · simp only [Int.natAbs_natCast] at h1; rw [A.fresh] at h1; cases h1
        rw [hnm]
        simp only [Bool.false_eq_true, if_false]
        obtain ⟨m3, hinc, hs3⟩ := mIncrefAll_tot L ({ m1 with
            tbl := { m1.tbl with succ := m1.tbl.succ.insert u ⟨i, L⟩ }
            pred := m1.pred.insert (MNd.key ⟨i, L⟩) u
            ref := m1.ref.insert u 0 } : MddMgr) (by
          intro k hk
          show (m1.ref.insert u 0).contains k.natAbs = true
          rw [TreeMap.contains_insert, A.ref]
          simp [h.refMem (hmem k hk)])
        rw [hinc]
        refine TotP.of_ok _ (fun hs => ?_)
        rw [hs3]
        exact hA.2 hs

theorem arity_some {t : MTbl} {i : Nat} (h : 0 < t.arity i) : ∃ var, t.varAt? i = some var ∧ var.len = t.arity i := by
  unfold MTbl.arity at h ⊢
  cases hv : t.varAt? i with
  | none => rw [hv] at h; simp at h
  | some var => exact ⟨var, rfl, rfl⟩

theorem mFindOrAddCore_tot (m : MddMgr) (h : MInv m) (i : Nat) (nodes : List Int)
    (hi : i < m.tbl.nvars) (hlen : nodes.length = m.tbl.arity i) (hne : nodes ≠ [])
    (hmem : ∀ k ∈ nodes, m.tbl.Mem k) : TotP m (mFindOrAddCore i nodes m) := by
  have hpos : 0 < m.tbl.arity i := by
    rw [← hlen]; exact List.length_pos_iff.mpr hne
  obtain ⟨var, hvar, hvl⟩ := arity_some hpos
  unfold mFindOrAddCore
  have h1 : ¬ m.tbl.nvars ≤ i := by omega
  simp only [h1, if_false, hvar]
  have h2 : ¬ nodes.length ≠ var.len := by rw [hvl]; simpa using hlen
  simp only [h2, if_false]
  cases nodes with
  | nil => exact absurd rfl hne
  | cons n0 tl =>
    simp only
    have hall : ((n0 :: tl).all m.mem) = true := by
      rw [List.all_eq_true]
      intro k hk
      exact (MTbl.mem_iff m.tbl h.term k).mpr (hmem k hk)
    simp only [hall, Bool.not_true, Bool.false_eq_true, if_false]
    split
    · split
      · exact TotP.ok_same m _
      · have T := mFindOrMake_tot m h i ((n0 :: tl).map fun u => -u) (by
          intro k hk
          rw [List.mem_map] at hk
          obtain ⟨c, hc, rfl⟩ := hk
          exact MTbl.mem_neg (hmem c hc))
        cases hmk : mFindOrMake i ((n0 :: tl).map fun u => -u) m with
        | mk r m1 =>
          rw [hmk] at T
          cases r with
          | error e => exact TotP.of_err T.err T.2
          | ok u => exact TotP.of_ok _ T.2
    · split
      · exact TotP.ok_same m _
      · have T := mFindOrMake_tot m h i (n0 :: tl) hmem
        cases hmk : mFindOrMake i (n0 :: tl) m with
        | mk r m1 =>
          rw [hmk] at T
          cases r with
          | error e => exact TotP.of_err T.err T.2
          | ok u => exact TotP.of_ok _ T.2

/-- `_top_cofactor` returns normally at a level that carries a variable -/
theorem mTopCofactor_ok (t : MTbl) (hw : MWF t) (u : Int) (z : Nat) (hm : t.Mem u)
    (hz : z ≤ t.levelOf u) (hpos : 0 < t.arity z) : ∃ l, mTopCofactor t u z = .ok l := by
  obtain ⟨var, hvar, _⟩ := arity_some hpos
  unfold mTopCofactor
  rw [hvar]
  simp only
  by_cases h1 : u.natAbs = 1
  · simp only [h1, if_true]; exact ⟨_, rfl⟩
  · simp only [h1, if_false]
    rcases hm with hm | hm
    · exact absurd hm h1
    · obtain ⟨n, hn⟩ := Option.isSome_iff_exists.mp hm
      have hn' : t.succ[u.natAbs]? = some n := hn
      rw [hn']
      simp only
      have hl := t.levelOf_node u n h1 hn
      by_cases hlt : z < n.lvl
      · simp only [hlt, if_true]; exact ⟨_, rfl⟩
      · have heq : z = n.lvl := by omega
        subst heq
        simp only [Nat.lt_irrefl, if_false, if_true]
        have hany : n.kids.any (fun k => k == 0) = false := by
          rw [List.any_eq_false]
          intro k hk
          have := t.mem_ne_zero hw (hw.kids_mem _ _ hn k hk)
          simpa using this
        rw [hany]
        simp only [Bool.false_eq_true, if_false]
        have hu0 : u ≠ 0 := t.mem_ne_zero hw (Or.inr hm)
        by_cases hp : 0 < u
        · simp only [hp, if_true]; exact ⟨_, rfl⟩
        · have : u < 0 := by omega
          simp only [hp, if_false, this, if_true]; exact ⟨_, rfl⟩

/-- a level that carries a node carries a variable with at least one value -/
theorem arity_pos_of_node {t : MTbl} (hw : MWF t) {u : Nat} {n : MNd} (hn : t.node? u = some n) :
    0 < t.arity n.lvl := by
  rw [← hw.kids_len _ _ hn]
  obtain ⟨k0, rest, hk, _⟩ := hw.head_pos _ _ hn
  rw [hk]; simp

/-- recursion hypothesis of the totality proof -/
def IteTot (rec : Int → Int → Int → MM Int) (nv bound : Nat) : Prop :=
  ∀ m g u v, MInv m → m.tbl.nvars = nv → m.tbl.Mem g → m.tbl.Mem u → m.tbl.Mem v →
    bound ≤ min (m.tbl.levelOf g) (min (m.tbl.levelOf u) (m.tbl.levelOf v)) →
    TotP m (rec g u v m)

theorem mIteList_tot (rec : Int → Int → Int → MM Int) (hs : IteSound rec) (nv bound : Nat)
    (hf : IteTot rec nv bound) :
    ∀ (gs us vs : List Int) (m : MddMgr), MInv m → m.tbl.nvars = nv →
      (∀ x ∈ gs, m.tbl.Mem x ∧ bound ≤ m.tbl.levelOf x) →
      (∀ x ∈ us, m.tbl.Mem x ∧ bound ≤ m.tbl.levelOf x) →
      (∀ x ∈ vs, m.tbl.Mem x ∧ bound ≤ m.tbl.levelOf x) →
      TotP m (mIteList rec gs us vs m) := by
  intro gs
  induction gs with
  | nil => intro us vs m _ _ _ _ _; unfold mIteList; exact TotP.ok_same m _
  | cons g0 gs ih =>
    intro us vs m h hnv hg hu hv
    unfold mIteList
    split
    · next u0 us' v0 vs' =>
      have mg := hg g0 (by simp)
      have mu := hu u0 (by simp)
      have mv := hv v0 (by simp)
      have T0 := hf m g0 u0 v0 h hnv mg.1 mu.1 mv.1 (by omega)
      cases hr1 : rec g0 u0 v0 m with
      | mk r m1 =>
        rw [hr1] at T0
        cases r with
        | error e => exact TotP.of_err T0.err T0.2
        | ok w =>
          simp only
          have R := hs m g0 u0 v0 h mg.1 mu.1 mv.1 w m1 hr1
          have tr : ∀ x, (m.tbl.Mem x ∧ bound ≤ m.tbl.levelOf x) →
              (m1.tbl.Mem x ∧ bound ≤ m1.tbl.levelOf x) := by
            intro x hx
            exact ⟨R.ext.mem hx.1, by rw [R.ext.levelOf hx.1]; exact hx.2⟩
          have T1 := ih us' vs' m1 R.inv (by rw [← R.ext.nvars]; exact hnv)
            (fun x hx => tr x (hg x (List.mem_cons_of_mem _ hx)))
            (fun x hx => tr x (hu x (List.mem_cons_of_mem _ hx)))
            (fun x hx => tr x (hv x (List.mem_cons_of_mem _ hx)))
          cases hr2 : mIteList rec gs us' vs' m1 with
          | mk r2 m2 =>
            rw [hr2] at T1
            have hs1 : m.sched = [] → m1.sched = [] := T0.2
            cases r2 with
            | error e =>
              obtain ⟨a, b⟩ := T1.err
              exact TotP.of_err ⟨a, fun hc => b (hs1 hc)⟩ (fun hs0 => T1.2 (hs1 hs0))
            | ok ws => exact TotP.of_ok _ (fun hs0 => T1.2 (hs1 hs0))
    · exact TotP.ok_same m _

theorem mIteF_tot : ∀ (f : Nat) (m : MddMgr) (g u v : Int), MInv m →
    m.tbl.Mem g → m.tbl.Mem u → m.tbl.Mem v →
    m.tbl.nvars + 1 ≤ f + min (m.tbl.levelOf g) (min (m.tbl.levelOf u) (m.tbl.levelOf v)) →
    TotP m (mIteF f g u v m) := by
  intro f
  induction f with
  | zero =>
    intro m g u v h mg mu mv hb
    have := m.tbl.levelOf_le h.wf.toMWF g
    omega
  | succ f ih =>
    intro m g u v h mg mu mv hb
    have hW := h.wf.toMWF
    unfold mIteF
    split
    · exact TotP.ok_same m _
    · split
      · exact TotP.ok_same m _
      · next hg1 hg2 =>
        split
        · exact TotP.ok_same m _
        · rw [MTbl.levelOf?_eq m.tbl h.term g mg, MTbl.levelOf?_eq m.tbl h.term u mu,
            MTbl.levelOf?_eq m.tbl h.term v mv]
          simp only
          have hgn : g.natAbs ≠ 1 := by omega
          obtain ⟨ng, hng⟩ : ∃ n, m.tbl.node? g.natAbs = some n := by
            rcases mg with h1 | h1
            · exact absurd h1 hgn
            · exact Option.isSome_iff_exists.mp h1
          have hlg := m.tbl.levelOf_node g ng hgn hng
          have hzn : min (m.tbl.levelOf g) (min (m.tbl.levelOf u) (m.tbl.levelOf v)) < m.tbl.nvars := by
            have := hW.lvl_lt _ _ hng
            omega
          -- the top level carries a node, hence a variable
          have hzpos : 0 < m.tbl.arity (min (m.tbl.levelOf g) (min (m.tbl.levelOf u) (m.tbl.levelOf v))) := by
            have key : ∀ x : Int, m.tbl.Mem x → m.tbl.levelOf x < m.tbl.nvars → 0 < m.tbl.arity (m.tbl.levelOf x) := by
              intro x hx hlt
              by_cases hx1 : x.natAbs = 1
              · rw [m.tbl.levelOf_term x hx1] at hlt; omega
              · rcases hx with hx | hx
                · exact absurd hx hx1
                · obtain ⟨n, hn⟩ := Option.isSome_iff_exists.mp hx
                  rw [m.tbl.levelOf_node x n hx1 hn]
                  exact arity_pos_of_node hW hn
            rcases Nat.le_total (m.tbl.levelOf g) (min (m.tbl.levelOf u) (m.tbl.levelOf v)) with h1 | h1
            · rw [Nat.min_eq_left h1]; exact key g mg (by omega)
            · rw [Nat.min_eq_right h1]
              rcases Nat.le_total (m.tbl.levelOf u) (m.tbl.levelOf v) with h2 | h2
              · rw [Nat.min_eq_left h2]; exact key u mu (by omega)
              · rw [Nat.min_eq_right h2]; exact key v mv (by omega)
          generalize hz : min (m.tbl.levelOf g) (min (m.tbl.levelOf u) (m.tbl.levelOf v)) = z at hzn hb hzpos
          have hzg : z ≤ m.tbl.levelOf g := by omega
          have hzu : z ≤ m.tbl.levelOf u := by omega
          have hzv : z ≤ m.tbl.levelOf v := by omega
          obtain ⟨gc, hgc⟩ := mTopCofactor_ok m.tbl hW g z mg hzg hzpos
          obtain ⟨uc, huc⟩ := mTopCofactor_ok m.tbl hW u z mu hzu hzpos
          obtain ⟨vc, hvc⟩ := mTopCofactor_ok m.tbl hW v z mv hzv hzpos
          rw [hgc, huc, hvc]
          simp only
          obtain ⟨lg, memg, _⟩ := mTopCofactor_spec m.tbl hW g z mg hzg hzn gc hgc
          obtain ⟨lu, memu, _⟩ := mTopCofactor_spec m.tbl hW u z mu hzu hzn uc huc
          obtain ⟨lv, memv, _⟩ := mTopCofactor_spec m.tbl hW v z mv hzv hzn vc hvc
          have hrec : IteTot (mIteF f) m.tbl.nvars (z + 1) := by
            intro m2 g2 u2 v2 h2 hnv2 a b c hb2
            apply ih m2 g2 u2 v2 h2 a b c
            rw [hnv2]; omega
          have TL := mIteList_tot (mIteF f) (mIteF_sound f) m.tbl.nvars (z + 1) hrec gc uc vc m h rfl
            (fun x hx => ⟨(memg x hx).1, (memg x hx).2⟩)
            (fun x hx => ⟨(memu x hx).1, (memu x hx).2⟩)
            (fun x hx => ⟨(memv x hx).1, (memv x hx).2⟩)
          cases hl : mIteList (mIteF f) gc uc vc m with
          | mk r1 m1 =>
            rw [hl] at TL
            cases r1 with
            | error e => exact TotP.of_err TL.err TL.2
            | ok nodes =>
              simp only
              obtain ⟨hinv1, hext1, hlen1, _, hall1⟩ := mIteList_spec (mIteF f) (mIteF_sound f) gc uc vc m h
                (fun x hx => (memg x hx).1) (fun x hx => (memu x hx).1) (fun x hx => (memv x hx).1)
                (by rw [lg, lu]) (by rw [lu, lv]) nodes m1 hl
              have hnm : ∀ k ∈ nodes, m1.tbl.Mem k := by
                intro k hk
                obtain ⟨j, hj, hkj⟩ := List.getElem_of_mem hk
                have hjg : j < gc.length := by rw [← hlen1]; exact hj
                have hju : j < uc.length := by rw [lu, ← lg]; exact hjg
                have hjv : j < vc.length := by rw [lv, ← lg]; exact hjg
                obtain ⟨w', hw1, hw2, _, _⟩ := hall1 j gc[j] uc[j] vc[j]
                  (List.getElem?_eq_getElem hjg) (List.getElem?_eq_getElem hju)
                  (List.getElem?_eq_getElem hjv)
                rw [List.getElem?_eq_getElem hj, Option.some.injEq] at hw1
                rw [← hkj, hw1]; exact hw2
              have hnlen : nodes.length = m1.tbl.arity z := by
                rw [hlen1, lg, hext1.arity]
              have hnne : nodes ≠ [] := by
                intro e
                rw [e] at hnlen
                rw [hext1.arity] at hzpos
                simp at hnlen
                omega
              have TF := mFindOrAddCore_tot m1 hinv1 z nodes (by rw [← hext1.nvars]; exact hzn)
                hnlen hnne hnm
              have hs1 : m.sched = [] → m1.sched = [] := TL.2
              cases hfo : mFindOrAddCore z nodes m1 with
              | mk r2 m2 =>
                rw [hfo] at TF
                cases r2 with
                | error e =>
                  obtain ⟨a, b⟩ := TF.err
                  exact TotP.of_err ⟨a, fun hc => b (hs1 hc)⟩ (fun hs0 => TF.2 (hs1 hs0))
                | ok w => exact TotP.of_ok _ (fun hs0 => TF.2 (hs1 hs0))

/-- `MDD.ite(g, u, v)` on nodes of a manager satisfying the invariant returns normally with the
pointwise if-then-else — or the model reports a schedule mismatch -/
theorem mIte_okOrSched (m : MddMgr) (h : MInv m) (g u v : Int)
    (mg : m.tbl.Mem g) (mu : m.tbl.Mem u) (mv : m.tbl.Mem v) :
    (∃ w m', mIte g u v m = (.ok w, m') ∧ IteOK m g u v w m') ∨
    (∃ m', mIte g u v m = (.error .sched, m') ∧ m.sched ≠ []) := by
  have T : TotP m (mIte g u v m) := by
    unfold mIte
    exact mIteF_tot (m.tbl.nvars + 2) m g u v h mg mu mv (by omega)
  cases hr : mIte g u v m with
  | mk r m' =>
    rw [hr] at T
    cases r with
    | ok w => exact Or.inl ⟨w, m', rfl, mIte_spec m h g u v mg mu mv w m' hr⟩
    | error e =>
      obtain ⟨he, hs⟩ := T.err
      subst he
      exact Or.inr ⟨m', rfl, hs⟩

/-- with no recorded schedule: total -/
theorem mIte_total (m : MddMgr) (h : MInv m) (hs : m.sched = []) (g u v : Int)
    (mg : m.tbl.Mem g) (mu : m.tbl.Mem u) (mv : m.tbl.Mem v) :
    ∃ w m', mIte g u v m = (.ok w, m') ∧ IteOK m g u v w m' ∧ m'.sched = [] := by
  have T : TotP m (mIte g u v m) := by
    unfold mIte
    exact mIteF_tot (m.tbl.nvars + 2) m g u v h mg mu mv (by omega)
  rcases mIte_okOrSched m h g u v mg mu mv with ⟨w, m', hr, hok⟩ | ⟨m', _, hne⟩
  · rw [hr] at T
    exact ⟨w, m', hr, hok, T.2 hs⟩
  · exact absurd hs hne

end DD
