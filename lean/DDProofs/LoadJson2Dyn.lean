/-
  DDProofs.LoadJson2Dyn — `_copy.load_json(file, bdd, load_order=False)` on ANY content into a
  manager with dynamic reordering ENABLED (or not: `DynInv` does not say).

  `_make_node` calls the decorated `bdd.var` / `bdd.ite`; either may serve a reordering request
  (sifting, then the retry) before the loader fails at a later line.  Node numbers are stable
  under `swap`, so the shelf (file id ↦ node number) still names the nodes whose references
  `_make_node` took, and the `except BaseException:` loop gives exactly those back.  The calculus
  `SafeC` (DDProofs.LoadJson2Calc) is instantiated with `DynL` (`DynInv` for the caller's ledger
  plus the loader's) and the two decorated calls are the C17 theorems `var_total_dyn` /
  `ite_total_dyn` (any argument, any outcome, first attempt or retry).
-/
import DDProofs.LoadJson2Calc
import DDProofs.DynRejectedOps
import DDProofs.DynSift
open Std
namespace DD

/-- what `_load_json` keeps for its caller (ledger `e`) when sifting may run inside: reordering
is enabled iff it was, declared names stay declared, `bdd.roots` is untouched, every reference
the caller holds is still a node and denotes the same function of the variable NAMES -/
structure DynLeft (e : Nat → Nat) (m m' : Mgr) : Prop where
  enabled : m'.lastLen.isSome = m.lastLen.isSome
  names : ∀ s : String, m.tbl.vars.contains s = true → m'.tbl.vars.contains s = true
  roots : m'.roots = m.roots
  held : ∀ w, HeldX e w → m.tbl.Mem w → m'.tbl.Mem w ∧ ∀ σ, denN m'.tbl w σ = denN m.tbl w σ

theorem DynLeft.refl (e : Nat → Nat) (m : Mgr) : DynLeft e m m :=
  ⟨rfl, fun _ h => h, rfl, fun _ _ hm => ⟨hm, fun _ => rfl⟩⟩

theorem DynLeft.trans {e : Nat → Nat} {a b c : Mgr} (h1 : DynLeft e a b) (h2 : DynLeft e b c) :
    DynLeft e a c :=
  ⟨h2.enabled.trans h1.enabled, fun s h => h2.names s (h1.names s h), h2.roots.trans h1.roots,
    fun w hw hm =>
      have a1 := h1.held w hw hm
      have a2 := h2.held w hw a1.1
      ⟨a2.1, fun σ => (a2.2 σ).trans (a1.2 σ)⟩⟩

/-- the calculus of `_load_json` with dynamic reordering possibly enabled -/
def dynCalc (e : Nat → Nat) : LCalc e where
  G := fun l m => DynL e l m
  K := DynLeft e
  inv := fun h => h.dyn.inv
  exact := fun h => h.dyn.refs
  refl := DynLeft.refl e
  trans := DynLeft.trans
  setRef := fun _ r h hI hr => h.setRef r hI hr
  kRef := fun _ _ => ⟨rfl, fun _ h => h, rfl, fun _ _ hm => ⟨hm, fun _ => rfl⟩⟩

theorem dynCalc_of_total {α : Type} (e : Nat → Nat) (x : M α)
    (h : ∀ ext m, DynInv ext m → DynTotal ext m (x m)) : PrimOK (dynCalc e) x := by
  intro l m hg
  have hg' : DynL e l m := hg
  obtain ⟨hn, K⟩ := h (extAdd e l) m hg'.dyn
  refine ⟨hn, ⟨K.enabled, fun s hs => by rw [K.names s]; exact hs, K.roots,
    fun w hw _ => K.held w (DynL.heldX0 hw)⟩, ?_⟩
  show DynL e l (x m).2
  exact ⟨K.inv, fun r hr => by rw [K.roots] at hr; exact hg'.roots0 r hr⟩

/-- `bdd.var(name)`, ANY name, reordering possibly enabled -/
theorem dynCalc_var (e : Nat → Nat) (name : String) : PrimOK (dynCalc e) (var name) :=
  dynCalc_of_total e _ (fun ext m hD => var_total_dyn ext (siftContract ext) m hD name)

/-- `bdd.ite(g, u, v)`, ANY integers, reordering possibly enabled -/
theorem dynCalc_ite (e : Nat → Nat) (g u v : Int) : PrimOK (dynCalc e) (ite g u v) :=
  dynCalc_of_total e _ (fun ext m hD => ite_total_dyn ext (siftContract ext) m hD g u v)

/-- what `load_json(load_order=False)` leaves behind in a manager with dynamic reordering possibly
ENABLED, whatever the content and whatever the outcome: never the internal signal; `DynLeft` for
the caller; the state is again as between two calls (`DynInv`) with the counts exact for the
caller's ledger plus ONE reference per returned `Function` — for the caller's ledger itself when
the call raised -/
structure JsonLeavesDyn (e : Nat → Nat) (m : Mgr) (out : Except Err Roots × Mgr) : Prop where
  noSignal : out.1 ≠ .error .needsReordering
  left : DynLeft e m out.2
  state : match out.1 with
    | .ok roots => DynInv (extAdd e (roots.values.map Int.natAbs)) out.2
    | .error _ => DynInv e out.2

/-- `_copy.load_json(file, bdd, load_order=False)` on ANY content, dynamic reordering possibly
ENABLED (any threshold: a request may be served inside any `var` / `ite` of `_make_node`, before
the failure), EVERY outcome -/
theorem loadJson_false_any_dyn (f : JsonFile) (m : Mgr) (e : Nat → Nat)
    (hD : DynInv e m) : JsonLeavesDyn e m (loadJson f false m) := by
  rw [loadJson_false_eq]
  -- the line `level_of_var`
  obtain ⟨m1, ed, D1, -, hmono, -, -, r1, l1, q1⟩ := declare_dyn e (f.levelOfVar.map (·.1)) m hD
  have k1 : DynLeft e m m1 := by
    refine ⟨by rw [l1], fun s hs => ?_, r1, fun w _ hm => q1 w hm⟩
    rw [TreeMap.contains_eq_isSome_getElem?] at hs ⊢
    obtain ⟨i, hi⟩ := Option.isSome_iff_exists.mp hs
    rw [hmono s i hi]; rfl
  have g1 : (dynCalc e).G [] m1 := ⟨by rw [extAdd_nil]; exact D1, D1.roots⟩
  rw [jsonTry_header_ok f false m m1 (jsonHeader_false f m m1 ed)]
  -- the node lines, the roots, the checks, the handler / the release of the shelf
  have hshelf := makeNodesE_anyC (C := dynCalc e) (F := fun _ => True) (Stable.true _)
    (dynCalc_var e) (dynCalc_ite e)
    (f.levelOfVar.foldl (fun acc (x : String × Nat) => (x.2, x.1) :: acc) []) f.nodes [] m1
    (by simp) (by simp) (by simpa [shelfRefs] using g1) trivial
  obtain ⟨hn, mb, kb, hcase⟩ := finish_afterHeaderC (dynCalc e) f false m1 hshelf
  have kb' : DynLeft e m mb := k1.trans kb
  rcases hcase with ⟨roots, heq, g⟩ | ⟨er, heq, g⟩
  · have g' : DynL e (roots.values.map Int.natAbs) mb := g
    refine ⟨hn, by rw [heq]; exact kb', ?_⟩
    rw [heq]
    exact g'.dyn
  · have g' : DynL e [] mb := g
    refine ⟨hn, by rw [heq]; exact kb', ?_⟩
    rw [heq]
    have := g'.dyn
    rwa [extAdd_nil] at this

end DD
