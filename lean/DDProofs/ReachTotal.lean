/-
  DDProofs.ReachTotal — the public operations as TOTAL functions (C17): for ARBITRARY
  arguments — unknown nodes, undeclared names, unknown operators, wrong arity, bad levels —
  the state after the call is `Kept` (invariant, every old node unchanged, order and
  switches unchanged), whether the call returns or raises.  Rejected calls either change
  nothing (validation before mutation) or have only added nodes.

  Accepted calls reuse the specifications (`cofactor_spec`, `quantify_spec`, `compose_single_spec`);
  `_vector_compose` and `_copy_bdd` are re-done by a direct induction that needs nothing about
  the arguments (every mutation goes through `find_or_add(j, -1, 1)` and `ite`, which are total).
-/
import DDProofs.ReachLite
import DDProofs.LetCopy
import DDProofs.VarsProofs
open Std

namespace DD

theorem Step.kept {m m' : Mgr} (h : Step m m') : Kept m m' := ⟨h.inv, h.ext, h.frame⟩

theorem Kept.off {m m' : Mgr} (h : Kept m m') (hoff : m.lastLen = none) : m'.lastLen = none := by
  rw [h.frame.lastLen]; exact hoff

theorem kept_of_eq {α : Type} {m : Mgr} {x : Except Err α × Mgr} {r : Except Err α} {m' : Mgr}
    (h : Kept m x.2) (e : x = (r, m')) : Kept m m' := by
  rw [e] at h; exact h

theorem Inv.lite {m : Mgr} {ext : Nat → Nat} (hI : Inv m) (hr : RefExact m ext) (hoff : m.lastLen = none) :
    Lite ext m := ⟨hI.wf.toWF.closed, hr, hoff⟩

/-! ### the decorator -/

/-- a decorated operation whose body (run with the flag set) keeps the manager -/
theorem tryToReorder_kept {α : Type} (ext : Nat → Nat) (f : M α)
    (hf : ∀ m, Lite ext m → LiteOut ext (f m)) (m : Mgr) (h : Lite ext m)
    (hk : Kept { m with ctx := true } (f { m with ctx := true }).2) :
    Kept m (tryToReorder f m).2 := by
  rw [tryToReorder_eq ext f hf m h]
  exact ⟨hk.inv.setCtx _, hk.ext,
    ⟨hk.frame.vars, hk.frame.l2v, hk.frame.lastLen, rfl, hk.frame.sched, hk.frame.roots⟩⟩

/-- a decorated operation whose body is rejected before any mutation changes NOTHING -/
theorem tryToReorder_unchanged {α : Type} (ext : Nat → Nat) (f : M α)
    (hf : ∀ m, Lite ext m → LiteOut ext (f m)) (m : Mgr) (h : Lite ext m)
    (hs : (f { m with ctx := true }).2 = { m with ctx := true }) :
    (tryToReorder f m).2 = m := by
  rw [tryToReorder_eq ext f hf m h]
  simp only [hs]

/-! ### `find_or_add`, `var` -/

/-- `find_or_add` with the request, any integer level, under the documented guard -/
theorem findOrAdd_kept (m : Mgr) (hI : Inv m) (hoff : m.lastLen = none) (i : Int) (v w : Int)
    (hg : 0 ≤ i → FoaGuard m i.toNat v w) : Kept m (findOrAdd i v w m).2 := by
  rw [findOrAdd_off_eq m hoff]
  split
  · exact Kept.refl hI
  · exact findOrAddCore_total m hI _ v w (hg (by omega))

/-- the guard is automatic for the node of a variable -/
theorem foaGuard_var (m : Mgr) (j : Nat) : FoaGuard m j (-1) 1 := by
  intro hj _ _
  rw [levelOf_neg_one, levelOf_one]
  exact ⟨hj, hj⟩

theorem varNode_kept (m : Mgr) (hI : Inv m) (hoff : m.lastLen = none) (j : Nat) :
    Kept m (findOrAdd (j : Int) (-1) 1 m).2 :=
  findOrAdd_kept m hI hoff j (-1) 1 (fun _ => by rw [Int.toNat_natCast]; exact foaGuard_var m j)

theorem varBody_kept (m : Mgr) (hI : Inv m) (hoff : m.lastLen = none) (name : String) :
    Kept m (varBody name m).2 := by
  rw [varBody_eq]
  split
  · exact Kept.refl hI
  · exact varNode_kept m hI hoff _

/-- `BDD.var(name)` for ANY name -/
theorem var_total (m : Mgr) (ext : Nat → Nat) (hI : Inv m) (hr : RefExact m ext) (hoff : m.lastLen = none)
    (name : String) : Kept m (var name m).2 :=
  tryToReorder_kept ext _ (varBody_lite ext name) m (hI.lite hr hoff)
    (varBody_kept _ (hI.setCtx true) hoff name)

/-- `BDD.var(name)` of a declared variable returns a node denoting that variable -/
theorem var_spec (m : Mgr) (hI : Inv m) (hoff : m.lastLen = none) (name : String) (j : Nat)
    (hj : m.tbl.vars[name]? = some j) (hlt : j < m.nvars) :
    ∃ r m', var name m = (.ok r, m') ∧ Kept m m' ∧ m'.tbl.Mem r ∧ ∀ a, den m'.tbl r a = a j := by
  obtain ⟨g, m1, he, hs, hm, -, hd⟩ := varNode_off { m with ctx := true } (hI.setCtx true) hoff j hlt
  have hb : varBody name { m with ctx := true } = (.ok g, m1) := by
    rw [varBody_eq]
    simp only [hj, he]
  obtain ⟨hres, hst⟩ := decorated_ok _ m g m1 hb hs
  exact ⟨g, _, hres, hst.kept, hm, hd⟩

/-- `BDD.var(name)` of an undeclared name is refused and changes nothing -/
theorem var_undeclared (m : Mgr) (name : String) (hj : m.tbl.vars[name]? = none) :
    var name m = (.error .value, m) := by
  have hb : varBody name { m with ctx := true } = (.error .value, { m with ctx := true }) := by
    rw [varBody_eq]
    simp only [hj]
  rw [var_eq, tryToReorder_err _ m _ _ hb (by simp)]

/-! ### `cofactor`, `quantify` -/

theorem hashMap_empty_get {α β : Type} [BEq α] [Hashable α] [EquivBEq α] [LawfulHashable α] (k : α) :
    (({} : HashMap α β)[k]?) = none := by simp

/-- `BDD.cofactor(u, values)` for ANY node and ANY dictionary -/
theorem cofactor_total (m : Mgr) (ext : Nat → Nat) (hI : Inv m) (hr : RefExact m ext)
    (hoff : m.lastLen = none) (u : Int) (values : List (Key × Bool)) :
    Kept m (cofactor u values m).2 := by
  have hL := hI.lite hr hoff
  cases hlv : mapToLevelE m.tbl (values.map (·.1)) with
  | error e =>
    have : (cofactor u values m).2 = m := by
      apply tryToReorder_unchanged ext _ (cofactorBody_lite ext u values) m hL
      unfold cofactorBody
      simp only [hlv]
    rw [this]; exact Kept.refl hI
  | ok lv =>
    by_cases hu : m.tbl.Mem u
    · obtain ⟨r, m', he, hI', hE, -, hF, -⟩ := cofactor_spec m hI hoff u hu values lv hlv
      rw [he]; exact ⟨hI', hE, hF⟩
    · have : (cofactor u values m).2 = m := by
        apply tryToReorder_unchanged ext _ (cofactorBody_lite ext u values) m hL
        have hm : ({ m with ctx := true } : Mgr).mem u = false := (Tbl.mem_false_iff _ _).mpr hu
        unfold cofactorBody
        simp only [hlv, hm, Bool.not_false, if_true]
      rw [this]; exact Kept.refl hI

theorem not_mem_cases {t : Tbl} {u : Int} (hu : ¬ t.Mem u) : u.natAbs ≠ 1 ∧ t.succ[u.natAbs]? = none := by
  refine ⟨fun h => hu (Or.inl h), ?_⟩
  cases hh : t.succ[u.natAbs]? with
  | none => rfl
  | some n => exact absurd (Or.inr (by simp [Tbl.node?, hh])) hu

/-- `BDD.quantify(u, qvars, forall)` for ANY node and ANY set of names / levels -/
theorem quantify_total (m : Mgr) (ext : Nat → Nat) (hI : Inv m) (hr : RefExact m ext)
    (hoff : m.lastLen = none) (u : Int) (qvars : List Key) (fa : Bool) :
    Kept m (quantify u qvars fa m).2 := by
  have hL := hI.lite hr hoff
  cases hlv : mapToLevelE m.tbl qvars with
  | error e =>
    have : (quantify u qvars fa m).2 = m := by
      apply tryToReorder_unchanged ext _ (quantifyBody_lite ext u qvars fa) m hL
      unfold quantifyBody
      simp only [hlv]
    rw [this]; exact Kept.refl hI
  | ok lv =>
    by_cases hu : m.tbl.Mem u
    · obtain ⟨r, m', he, hI', hE, -, hF, -⟩ := quantify_spec m hI hoff u hu qvars fa lv hlv
      rw [he]; exact ⟨hI', hE, hF⟩
    · have : (quantify u qvars fa m).2 = m := by
        apply tryToReorder_unchanged ext _ (quantifyBody_lite ext u qvars fa) m hL
        obtain ⟨h1, h2⟩ := not_mem_cases hu
        unfold quantifyBody
        simp only [hlv]
        have : ({ m with ctx := true } : Mgr).nvars + 2 = (m.nvars + 1) + 1 := rfl
        rw [this]
        unfold quantifyF
        simp only [h1, if_false, hashMap_empty_get, h2]
      rw [this]; exact Kept.refl hI

end DD

namespace DD

/-! ### `compose` -/

theorem subOrVar_kept (sub : List (Nat × Int)) (i : Nat) (m : Mgr) (hI : Inv m) (hoff : m.lastLen = none) :
    Kept m (subOrVar sub i m).2 := by
  unfold subOrVar
  split
  · exact Kept.refl hI
  · exact varNode_kept m hI hoff i

/-- `_vector_compose` for ANY node, ANY substitution (unknown nodes included), any memo -/
theorem vectorComposeF_kept (sub : List (Nat × Int)) :
    ∀ (fu : Nat) (f : Int) (cache : HashMap Nat Int) (m : Mgr), Inv m → m.lastLen = none →
    Kept m (vectorComposeF sub fu f cache m).2 := by
  intro fu
  induction fu with
  | zero => intro f cache m hI _; exact Kept.refl hI
  | succ fu ih =>
    intro f cache m hI hoff
    unfold vectorComposeF
    split
    · exact Kept.refl hI
    split
    · split <;> exact Kept.refl hI
    split
    · exact Kept.refl hI
    split
    · exact Kept.refl hI
    split
    · next heq => exact kept_of_eq (ih _ _ m hI hoff) heq
    next heq =>
    have k1 : Kept m _ := kept_of_eq (ih _ _ m hI hoff) heq
    split
    · next heq => exact k1.trans (kept_of_eq (ih _ _ _ k1.inv (k1.off hoff)) heq)
    next heq =>
    have k2 : Kept m _ := k1.trans (kept_of_eq (ih _ _ _ k1.inv (k1.off hoff)) heq)
    split
    · next heq => exact k2.trans (kept_of_eq (subOrVar_kept _ _ _ k2.inv (k2.off hoff)) heq)
    next heq =>
    have k3 : Kept m _ := k2.trans (kept_of_eq (subOrVar_kept _ _ _ k2.inv (k2.off hoff)) heq)
    split
    · next heq => exact k3.trans (kept_of_eq (ite_total _ k3.inv (k3.off hoff) _ _ _) heq)
    next heq =>
    exact k3.trans (kept_of_eq (ite_total _ k3.inv (k3.off hoff) _ _ _) heq)

/-- `_compose(f, j, g)` when `g` is NOT a node: nothing is built before the failure, or only
`ite` ran (which is total) -/
theorem composeF_kept_top (j : Nat) (fu : Nat) (f g : Int) (m : Mgr) (hI : Inv m)
    (hoff : m.lastLen = none) (hg : ¬ m.tbl.Mem g) :
    Kept m (composeF j (fu + 1) f g {} m).2 := by
  unfold composeF
  split
  · exact Kept.refl hI
  split
  · exact Kept.refl hI
  split
  · exact Kept.refl hI
  split
  · exact Kept.refl hI
  split
  · exact Kept.refl hI
  split
  · split
    · next heq => exact kept_of_eq (ite_total m hI hoff _ _ _) heq
    · next heq => exact kept_of_eq (ite_total m hI hoff _ _ _) heq
  · rw [levelOf?_none_of_not_mem _ _ hg]
    exact Kept.refl hI

/-- `BDD.compose(f, var_sub)` for ANY node and ANY dictionary (undeclared names, unknown nodes) -/
theorem compose_total (m : Mgr) (ext : Nat → Nat) (hI : Inv m) (hr : RefExact m ext)
    (hoff : m.lastLen = none) (f : Int) (varSub : List (String × Int)) :
    Kept m (compose f varSub m).2 := by
  have hL := hI.lite hr hoff
  have hI0 : Inv { m with ctx := true } := hI.setCtx true
  apply tryToReorder_kept ext _ (composeBody_lite ext f varSub) m hL
  unfold composeBody
  split
  · next v g =>
    split
    · exact Kept.refl hI0
    next j hj =>
    by_cases hf : m.tbl.Mem f
    · by_cases hg : m.tbl.Mem g
      · obtain ⟨r, c', m1, he, hs, -, -⟩ := composeF_spec j (2 * m.nvars + 4) { m with ctx := true }
          f g {} hI0 hoff hf hg (KMemo.empty _ _) (by show 2 * m.nvars + 1 ≤ _; omega)
        have : ({ m with ctx := true } : Mgr).nvars = m.nvars := rfl
        rw [this, he]
        exact hs.kept
      · have k := composeF_kept_top j (2 * m.nvars + 3) f g { m with ctx := true } hI0 hoff hg
        have : ({ m with ctx := true } : Mgr).nvars = m.nvars := rfl
        rw [this]
        split
        · next heq => exact kept_of_eq k heq
        · next heq => exact kept_of_eq k heq
    · obtain ⟨h1, h2⟩ := not_mem_cases hf
      have : (composeF j (2 * ({ m with ctx := true } : Mgr).nvars + 4) f g {} { m with ctx := true }).2 =
          { m with ctx := true } := by
        have : 2 * ({ m with ctx := true } : Mgr).nvars + 4 = (2 * m.nvars + 3) + 1 := rfl
        rw [this]
        unfold composeF
        simp only [h1, if_false, hashMap_empty_get, h2]
      split
      · next heq => rw [heq] at this; simp only at this; rw [this]; exact Kept.refl hI0
      · next heq => rw [heq] at this; simp only at this; rw [this]; exact Kept.refl hI0
  · split
    · exact Kept.refl hI0
    next sub _ =>
      have k := vectorComposeF_kept sub (({ m with ctx := true } : Mgr).nvars + 2) f {} _ hI0 hoff
      split
      · next heq => exact kept_of_eq k heq
      · next heq => exact kept_of_eq k heq

/-! ### `rename` -/

/-- `_copy_bdd` inside one manager for ANY node, ANY level map, any memo -/
theorem copyBddF_kept (lm : List (Nat × Nat)) :
    ∀ (fu : Nat) (u : Int) (cache : HashMap Nat Int) (m : Mgr), Inv m → m.lastLen = none →
    Kept m (copyBddF none lm fu u cache m).2 := by
  intro fu
  induction fu with
  | zero => intro u cache m hI _; exact Kept.refl hI
  | succ fu ih =>
    intro u cache m hI hoff
    unfold copyBddF
    split
    · exact Kept.refl hI
    split
    · split <;> exact Kept.refl hI
    split
    · exact Kept.refl hI
    split
    · exact Kept.refl hI
    split
    · next heq => exact kept_of_eq (ih _ _ m hI hoff) heq
    next heq =>
    have k1 : Kept m _ := kept_of_eq (ih _ _ m hI hoff) heq
    split
    · next heq => exact k1.trans (kept_of_eq (ih _ _ _ k1.inv (k1.off hoff)) heq)
    next heq =>
    have k2 : Kept m _ := k1.trans (kept_of_eq (ih _ _ _ k1.inv (k1.off hoff)) heq)
    split
    · exact k2
    split
    · exact k2
    split
    · exact k2
    split
    · next heq => exact k2.trans (kept_of_eq (varNode_kept _ k2.inv (k2.off hoff) _) heq)
    next heq =>
    have k3 : Kept m _ := k2.trans (kept_of_eq (varNode_kept _ k2.inv (k2.off hoff) _) heq)
    split
    · next heq => exact k3.trans (kept_of_eq (ite_total _ k3.inv (k3.off hoff) _ _ _) heq)
    next heq =>
    have k4 : Kept m _ := k3.trans (kept_of_eq (ite_total _ k3.inv (k3.off hoff) _ _ _) heq)
    split <;> exact k4

/-- `BDD.rename(u, dvars)` for ANY node and ANY renaming -/
theorem rename_total (m : Mgr) (ext : Nat → Nat) (hI : Inv m) (hr : RefExact m ext)
    (hoff : m.lastLen = none) (u : Int) (dvars : List (String × String)) :
    Kept m (rename u dvars m).2 := by
  have hL := hI.lite hr hoff
  have hI0 : Inv { m with ctx := true } := hI.setCtx true
  apply tryToReorder_kept ext _ (renameBody_lite ext u dvars) m hL
  unfold renameBody
  split
  · exact Kept.refl hI0
  split
  · exact Kept.refl hI0
  split
  · exact Kept.refl hI0
  next lm _ =>
    have k := copyBddF_kept lm (({ m with ctx := true } : Mgr).nvars + 2) u {} _ hI0 hoff
    split
    · next heq => exact kept_of_eq k heq
    · next heq => exact kept_of_eq k heq

/-- `BDD.let(definitions, u)` for ANY node and ANY (homogeneous) dictionary -/
theorem letOp_total (m : Mgr) (ext : Nat → Nat) (hI : Inv m) (hr : RefExact m ext)
    (hoff : m.lastLen = none) (d : LetArg) (u : Int) : Kept m (letOp d u m).2 := by
  unfold letOp
  split
  · exact Kept.refl hI
  · exact Kept.refl hI
  · exact Kept.refl hI
  · exact cofactor_total m ext hI hr hoff _ _
  · exact compose_total m ext hI hr hoff _ _
  · exact rename_total m ext hI hr hoff _ _

/-! ### `apply` -/

/-- `BDD.apply(op, u, v, w)` with ANY operator string, arity and operands, quantifier
aliases included -/
theorem apply_total' (m : Mgr) (ext : Nat → Nat) (hI : Inv m) (hr : RefExact m ext)
    (hoff : m.lastLen = none) (op : String) (u : Int) (v w : Option Int) :
    Kept m (apply op u v w m).2 := by
  unfold apply
  split
  · exact Kept.refl hI
  split
  · exact Kept.refl hI
  split
  · exact Kept.refl hI
  split
  · exact Kept.refl hI
  split
  · exact Kept.refl hI
  split
  · exact Kept.refl hI
  · split
    · exact Kept.refl hI
    split
    · exact Kept.refl hI
    split
    · exact ite_total m hI hoff _ _ _
    · exact Kept.refl hI
    · exact Kept.refl hI
    · exact Kept.refl hI
  · split
    · exact Kept.refl hI
    split
    · split
      · exact Kept.refl hI
      · exact quantify_total m ext hI hr hoff _ _ _
    · exact Kept.refl hI
    · exact Kept.refl hI
  · exact Kept.refl hI
  · exact Kept.refl hI

end DD
