/-
  DDProofs.MddCount — exact reference counts of an MDD manager: `_ref[u]` = in-degree of `u`
  + number of references the user holds (`ext`, a ledger that no operation reads).
  Sums over `0..n-1`, in-degrees after adding a node, the `incref` loop of `find_or_add`.
-/
import DDProofs.MddInv
open Std

namespace DD

/-! ### sums over `0..n-1` -/

def sumRange (f : Nat → Nat) : Nat → Nat
  | 0 => 0
  | n+1 => sumRange f n + f n

theorem sumRange_congr {f g : Nat → Nat} : ∀ n, (∀ p, p < n → f p = g p) → sumRange f n = sumRange g n := by
  intro n
  induction n with
  | zero => intro _; rfl
  | succ n ih =>
    intro h
    simp only [sumRange]
    rw [ih (fun p hp => h p (by omega)), h n (by omega)]

/-- two functions that differ at one point only -/
theorem sumRange_update {f g : Nat → Nat} (p : Nat) : ∀ n, p < n → (∀ q, q ≠ p → f q = g q) →
    sumRange f n + g p = sumRange g n + f p := by
  intro n
  induction n with
  | zero => intro h; omega
  | succ n ih =>
    intro hp h
    simp only [sumRange]
    by_cases hpn : p = n
    · subst hpn
      rw [sumRange_congr p (fun q hq => h q (by omega))]
      omega
    · have := ih (by omega) h
      rw [h n (fun hc => hpn hc.symm)]
      omega

theorem sumRange_le {f : Nat → Nat} (p : Nat) : ∀ n, p < n → f p ≤ sumRange f n := by
  intro n
  induction n with
  | zero => intro h; omega
  | succ n ih =>
    intro hp
    simp only [sumRange]
    by_cases hpn : p = n
    · subst hpn; omega
    · have := ih (by omega); omega

theorem sumRange_pos {f : Nat → Nat} : ∀ n, 0 < sumRange f n → ∃ p, p < n ∧ 0 < f p := by
  intro n
  induction n with
  | zero => intro h; simp [sumRange] at h
  | succ n ih =>
    intro h
    simp only [sumRange] at h
    by_cases hn : 0 < f n
    · exact ⟨n, by omega, hn⟩
    · obtain ⟨p, hp, hfp⟩ := ih (by omega)
      exact ⟨p, by omega, hfp⟩

/-! ### in-degree and exact counts -/

/-- number of occurrences of node `u` among a successor tuple -/
def cntInto (kids : List Int) (u : Nat) : Nat := kids.countP (fun k => k.natAbs == u)

def edgesInto (n : Option MNd) (u : Nat) : Nat :=
  match n with
  | none => 0
  | some n => cntInto n.kids u

/-- number of edges into node `u` from the nodes numbered below `bound` -/
def MTbl.indeg (t : MTbl) (bound : Nat) (u : Nat) : Nat :=
  sumRange (fun p => edgesInto (t.node? p) u) bound

theorem cntInto_pos_iff {kids : List Int} {u : Nat} : 0 < cntInto kids u ↔ ∃ k ∈ kids, k.natAbs = u := by
  unfold cntInto
  rw [List.countP_pos_iff]
  simp

theorem cntInto_cons (k : Int) (kids : List Int) (u : Nat) :
    cntInto (k :: kids) u = cntInto kids u + (if k.natAbs = u then 1 else 0) := by
  unfold cntInto
  rw [List.countP_cons]
  simp

/-- every stored count is the in-degree plus the number of references the user holds (`ext`);
the user holds nothing on numbers that are not nodes -/
structure MRefExact (m : MddMgr) (ext : Nat → Nat) : Prop where
  cnt : ∀ u, (u = 1 ∨ (m.tbl.node? u).isSome) →
    m.ref[u]? = some (m.tbl.indeg (m.max + 1) u + ext u)
  extZero : ∀ u, u ≠ 1 → m.tbl.node? u = none → ext u = 0

theorem natmap_getElem?_insert {β : Type} (m : TreeMap Nat β) (k : Nat) (v : β) (a : Nat) :
    (m.insert k v)[a]? = if k = a then some v else m[a]? := by
  simp [TreeMap.getElem?_insert]

theorem natmap_getElem?_erase {β : Type} (m : TreeMap Nat β) (k : Nat) (a : Nat) :
    (m.erase k)[a]? = if k = a then none else m[a]? := by
  simp [TreeMap.getElem?_erase]

theorem natmap_contains_iff {β : Type} (m : TreeMap Nat β) (a : Nat) :
    m.contains a = true ↔ (m[a]?).isSome = true := by
  rw [TreeMap.contains_eq_isSome_getElem?]

/-- the node table after `self._succ[u] = t` -/
def MTbl.addNode (t : MTbl) (u : Nat) (nd : MNd) : MTbl := { t with succ := t.succ.insert u nd }

theorem MTbl.node?_addNode (t : MTbl) (u : Nat) (nd : MNd) (x : Nat) :
    (t.addNode u nd).node? x = if u = x then some nd else t.node? x := by
  simp [MTbl.addNode, MTbl.node?, TreeMap.getElem?_insert]

theorem MTbl.addNode_ext (t : MTbl) (u : Nat) (nd : MNd) (hf : t.node? u = none) :
    MExt t (t.addNode u nd) := by
  refine ⟨rfl, rfl, ?_⟩
  intro x n hn
  rw [MTbl.node?_addNode]
  have : u ≠ x := by intro h; subst h; rw [hf] at hn; cases hn
  simp [this, hn]


/-- in-degrees after adding node `u` -/
theorem MTbl.indeg_addNode (t : MTbl) (u : Nat) (nd : MNd) (hf : t.node? u = none) (bound : Nat)
    (hb : u < bound) (x : Nat) :
    (t.addNode u nd).indeg bound x = t.indeg bound x + cntInto nd.kids x := by
  unfold MTbl.indeg
  have key : sumRange (fun q => edgesInto ((t.addNode u nd).node? q) x) bound + edgesInto (t.node? u) x
      = sumRange (fun q => edgesInto (t.node? q) x) bound + edgesInto ((t.addNode u nd).node? u) x :=
    sumRange_update (f := fun q => edgesInto ((t.addNode u nd).node? q) x)
      (g := fun q => edgesInto (t.node? q) x) u bound hb (by
        intro q hq
        show edgesInto ((t.addNode u nd).node? q) x = edgesInto (t.node? q) x
        rw [MTbl.node?_addNode]
        have : u ≠ q := fun h => hq h.symm
        rw [if_neg this])
  have e1 : edgesInto (t.node? u) x = 0 := by rw [hf]; rfl
  have e2 : edgesInto ((t.addNode u nd).node? u) x = cntInto nd.kids x := by
    rw [MTbl.node?_addNode]; simp [edgesInto]
  rw [e1, e2] at key
  omega

/-- numbers above every node contribute nothing -/
theorem MTbl.indeg_bound (t : MTbl) (b : Nat) (x : Nat) :
    ∀ b', b ≤ b' → (∀ p, b ≤ p → t.node? p = none) → t.indeg b' x = t.indeg b x := by
  intro b'
  induction b' with
  | zero => intro h _; have : b = 0 := by omega
            subst this; rfl
  | succ n ih =>
    intro h hn
    by_cases hb : b = n + 1
    · subst hb; rfl
    · have := ih (by omega) hn
      unfold MTbl.indeg at this ⊢
      simp only [sumRange]
      rw [this, hn n (by omega)]
      simp [edgesInto]

/-- nothing points to a number that is not a node -/
theorem MTbl.indeg_fresh (t : MTbl) (hw : MWF t) (u : Nat) (hf : t.node? u = none) (hu1 : u ≠ 1)
    (bound : Nat) : t.indeg bound u = 0 := by
  unfold MTbl.indeg
  have : ∀ p, edgesInto (t.node? p) u = 0 := by
    intro p
    cases hp : t.node? p with
    | none => rfl
    | some n =>
      simp only [edgesInto]
      cases hc : cntInto n.kids u with
      | zero => rfl
      | succ c =>
        exfalso
        obtain ⟨k, hk, habs⟩ := cntInto_pos_iff.mp (by rw [hc]; omega : 0 < cntInto n.kids u)
        rcases hw.kids_mem _ _ hp k hk with h1 | h1
        · omega
        · rw [habs, hf] at h1; cases h1
  induction bound with
  | zero => rfl
  | succ n ih => simp only [sumRange]; rw [ih, this n]

/-- `for v in nodes: self.incref(v)`: every count grows by the number of new edges -/
theorem mIncrefAll_count : ∀ (l : List Int) (m m' : MddMgr), mIncrefAll l m = (.ok (), m') →
    ∀ x, m'.ref[x]? = (m.ref[x]?).map (fun v => v + cntInto l x) := by
  intro l
  induction l with
  | nil =>
    intro m m' hr x
    simp only [mIncrefAll, Prod.mk.injEq, true_and] at hr
    subst hr
    cases m.ref[x]? <;> simp [cntInto]
  | cons k rest ih =>
    intro m m' hr x
    unfold mIncrefAll at hr
    split at hr
    · next m1 h1 =>
      unfold mIncref at h1
      split at h1
      · simp at h1
      · next c hc =>
        simp only [Prod.mk.injEq, true_and] at h1
        subst h1
        rw [ih _ m' hr x, cntInto_cons]
        show ((m.ref.insert k.natAbs (c + 1))[x]?).map _ = _
        rw [natmap_getElem?_insert]
        by_cases hkx : k.natAbs = x
        · subst hkx
          rw [hc]
          simp only [if_true, Option.map_some, Option.some.injEq]
          omega
        · simp [hkx]
    · simp at hr

end DD
