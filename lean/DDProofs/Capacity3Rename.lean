/-
  DDProofs.Capacity3Rename — `_copy_bdd` / `BDD.rename` / `let` with names / `copy_bdd` into a
  manager with `max_nodes = cap`: the twins are the model; `_copy_bdd` only calls the node of a
  variable and the nested `ite`, both total on arbitrary integers, so the full outcome needs no
  specification of the recursion; the decorated calls keep `DynInv` after ANY outcome.
-/
import DD.Capacity3Rename
import DDProofs.Capacity3Compose
open Std

namespace DD

theorem copyBddFG_model (src : Option Tbl) (lm : List (Nat × Nat)) :
    ∀ fu u c, copyBddFG findOrAdd ite src lm fu u c = copyBddF src lm fu u c := by
  intro fu
  induction fu with
  | zero => intros; rfl
  | succ fu ih =>
    intro u c
    funext m
    unfold copyBddFG copyBddF
    simp only [ih]
    rfl

theorem renameG_model : renameG findOrAdd ite = rename := by
  funext u d
  unfold renameG rename renameBodyG renameBody
  simp only [copyBddFG_model]
  rfl

theorem copyBddG_model : copyBddG findOrAdd ite = copyBdd := by
  funext src u
  unfold copyBddG copyBdd copyBddBodyG copyBddBody
  simp only [copyBddFG_model]
  rfl

theorem letNamesG_model (d : List (String × String)) (u : Int) :
    letNamesG rename d u = letOp (.names d) u := by
  unfold letNamesG letOp
  cases d <;> rfl

/-- `_copy_bdd` for ANY node, ANY level map, ANY source table, any memo -/
theorem copyBddFG_totE (foa iteX : Int → Int → Int → M Int) (hvar : VarTotX foa) (hiteT : IteTotX iteX)
    (src : Option Tbl) (lm : List (Nat × Nat)) :
    ∀ (fu : Nat) (u : Int) (cache : HashMap Nat Int) (m : Mgr), Inv m → m.ctx = true →
    TotE m (copyBddFG foa iteX src lm fu u cache m) := by
  intro fu
  induction fu with
  | zero => intro u cache m hI _; exact TotE.same hI _ (by simp)
  | succ fu ih =>
    intro u cache m hI hc
    unfold copyBddFG
    split
    · exact TotE.same hI _ (by simp)
    split
    · split <;> exact TotE.same hI _ (by simp)
    split
    · exact TotE.same hI _ (by simp)
    split
    · exact TotE.same hI _ (by simp)
    split
    · next heq => exact (ih _ _ m hI hc).err_of heq
    next heq =>
    have s1 : StepK m _ := (ih _ _ m hI hc).step_of heq
    have c1 := hc; rw [← s1.frame.ctx] at c1
    split
    · next heq => exact ((ih _ _ _ s1.inv c1).err_of heq).trans s1
    next heq =>
    have s2 : StepK m _ := s1.trans ((ih _ _ _ s1.inv c1).step_of heq)
    have c2 := hc; rw [← s2.frame.ctx] at c2
    split
    · exact TotE.err s2 _ (by simp)
    split
    · exact TotE.err s2 _ (by simp)
    split
    · exact TotE.err s2 _ (by simp)
    split
    · next heq => exact ((hvar _ s2.inv _).err_of heq).trans s2
    next heq =>
    have s3 : StepK m _ := s2.trans ((hvar _ s2.inv _).step_of heq)
    have c3 := hc; rw [← s3.frame.ctx] at c3
    split
    · next heq => exact ((hiteT _ s3.inv c3 _ _ _).err_of heq).trans s3
    next heq =>
    have s4 : StepK m _ := s3.trans ((hiteT _ s3.inv c3 _ _ _).step_of heq)
    split
    · exact TotE.err s4 _ (by simp)
    · exact TotE.ok s4 _

theorem renameBodyG_totE (foa iteX : Int → Int → Int → M Int) (hvar : VarTotX foa) (hiteT : IteTotX iteX)
    (m : Mgr) (hI : Inv m) (hc : m.ctx = true) (u : Int)
    (dvars : List (String × String)) : TotE m (renameBodyG foa iteX u dvars m) := by
  unfold renameBodyG
  split
  · exact TotE.same hI _ (by simp)
  split
  · exact TotE.same hI _ (by simp)
  cases hlm : renameMap m.tbl dvars with
  | error e =>
    exact TotE.same hI _ (by
      intro h; cases h
      exact renameMap_noNR _ _ hlm)
  | ok lm =>
    simp only
    have ht := copyBddFG_totE foa iteX hvar hiteT none lm (m.nvars + 2) u {} m hI hc
    split
    · next heq => exact ht.err_of heq
    · next heq => exact TotE.ok (ht.step_of heq) _

theorem copyBddBodyG_totE (foa iteX : Int → Int → Int → M Int) (hvar : VarTotX foa) (hiteT : IteTotX iteX)
    (src : Tbl) (m : Mgr) (hI : Inv m) (hc : m.ctx = true) (u : Int) :
    TotE m (copyBddBodyG foa iteX src u m) := by
  unfold copyBddBodyG
  have ht := copyBddFG_totE foa iteX hvar hiteT (some src) (copyMap src m.tbl) (src.nvars + 2) u {} m hI hc
  split
  · next heq => exact ht.err_of heq
  · next heq => exact TotE.ok (ht.step_of heq) _

/-- `BDD.rename` with capacity: ANY node, ANY renaming, whatever it returns or raises -/
theorem renameCap_total_dyn (cap : Nat) (ext : Nat → Nat) (m : Mgr) (hD : DynInv ext m)
    (u : Int) (dvars : List (String × String)) : DynTotal ext m (renameCap cap u dvars m) :=
  tryToReorder_total_dyn ext (siftContract ext) _
    (fun m0 hI hc _ => renameBodyG_totE _ _ (findOrAddCap_varTotX cap) (iteCap_totX cap) m0 hI hc u dvars) m hD

theorem letNamesCap_total_dyn (cap : Nat) (ext : Nat → Nat) (m : Mgr) (hD : DynInv ext m)
    (d : List (String × String)) (u : Int) : DynTotal ext m (letNamesG (renameCap cap) d u m) := by
  unfold letNamesG
  split
  · exact DynTotal.same hD _ (by simp [pure, M.pure'])
  · exact renameCap_total_dyn cap ext m hD u _

/-- `copy_bdd(u, from, to)` into a manager with `max_nodes = cap`: ANY source table, ANY node -/
theorem copyBddCap_total_dyn (cap : Nat) (ext : Nat → Nat) (m : Mgr) (hD : DynInv ext m)
    (src : Tbl) (u : Int) : DynTotal ext m (copyBddCap cap src u m) :=
  tryToReorder_total_dyn ext (siftContract ext) _
    (fun m0 hI hc _ => copyBddBodyG_totE _ _ (findOrAddCap_varTotX cap) (iteCap_totX cap) src m0 hI hc u) m hD

end DD
