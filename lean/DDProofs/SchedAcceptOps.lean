/-
  DDProofs.SchedAcceptOps — acceptance for the decorated operations whose bodies are natural in
  the schedule (DDProofs.SchedNaturalOps): `var`, `ite`, `cofactor`.  Between two decorated calls
  (`DynInvS`), for every valid choice of iteration orders there is a schedule under which the
  scheduled model of the call does what the choice-driven call does, which it consumes exactly,
  and with which it does not answer `.sched`.
-/
import DDProofs.SchedAcceptDyn
import DDProofs.SchedNaturalCtx
import DDProofs.DynSchedOps
open Std

namespace DD

/-- what acceptance says of a scheduled function `F` and its choice-driven version `FC` in `m`:
there is a schedule — the record, if `FC` returned — with which `F` does what `FC` does, which it
consumes exactly, and with which it does not answer `.sched` -/
def AcceptsF {α} (FC : M (α × List SchedItem)) (F : M α) (m : Mgr) : Prop :=
  ∃ sch, (∀ r log', (FC m).1 = .ok (r, log') → log' = sch) ∧
    (∀ rest, F (setS (sch ++ rest) m) = (dropLog (FC m).1, setS rest (FC m).2)) ∧
    ∀ rest, (F (setS (sch ++ rest) m)).1 ≠ .error .sched

/-- acceptance of a decorated call `tryToReorder f`, for the choice `c` in `m` -/
abbrev AcceptsC {α} (c : Choice) (f : M α) (m : Mgr) : Prop :=
  AcceptsF (tryToReorderC c f []) (tryToReorder f) m

theorem varBody_sn (name : String) : SN (varBody name) := by
  unfold varBody
  refine SN.get (fun _ _ => rfl) (fun m0 => ?_)
  split
  · exact SN.throw _
  · exact findOrAdd_sn _ _ _

theorem varBody_ns (name : String) : NS (varBody name) := by
  intro m
  rw [varBody_eq]
  cases m.tbl.vars[name]? with
  | none => exact fun h => by cases h
  | some j => exact findOrAdd_ns _ _ _ m

/-- `bdd.var(name)` accepts every valid choice -/
theorem var_accepts (ext : Nat → Nat) (c : Choice) (hc : c.Valid) (m : Mgr) (hD : DynInvS ext m)
    (name : String) : AcceptsC c (varBody name) m :=
  tryToReorder_accepts ext c hc _ (varBody_sn name).toC (varBody_ns name).toC
    (fun m0 hI _ _ => varBody_totE m0 hI name) m hD

/-- `bdd.ite(g, u, v)` accepts every valid choice -/
theorem ite_accepts (ext : Nat → Nat) (c : Choice) (hc : c.Valid) (m : Mgr) (hD : DynInvS ext m)
    (g u v : Int) : AcceptsC c (iteRaw g u v) m :=
  tryToReorder_accepts ext c hc _ (iteRaw_sn g u v).toC (iteRaw_ns g u v).toC
    (fun m0 hI _ _ => iteRaw_totE m0 hI g u v) m hD

/-- `bdd.cofactor(u, values)` accepts every valid choice -/
theorem cofactor_accepts (ext : Nat → Nat) (c : Choice) (hc : c.Valid) (m : Mgr) (hD : DynInvS ext m)
    (u : Int) (values : List (Key × Bool)) : AcceptsC c (cofactorBody u values) m :=
  tryToReorder_accepts ext c hc _ (cofactorBody_sn u values).toC (cofactorBody_ns u values).toC
    (fun m0 hI _ _ => cofactorBody_totE m0 hI u values) m hD

/-- `bdd.quantify(u, qvars, forall)` accepts every valid choice -/
theorem quantify_accepts (ext : Nat → Nat) (c : Choice) (hc : c.Valid) (m : Mgr) (hD : DynInvS ext m)
    (u : Int) (qvars : List Key) (fa : Bool) : AcceptsC c (quantifyBody u qvars fa) m :=
  tryToReorder_accepts ext c hc _ (quantifyBody_snk u qvars fa).snc (quantifyBody_snk u qvars fa).nsc
    (fun m0 hI hc0 _ => quantifyBody_totE m0 hI hc0 u qvars fa) m hD

/-- `bdd.compose(f, var_sub)` accepts every valid choice -/
theorem compose_accepts (ext : Nat → Nat) (c : Choice) (hc : c.Valid) (m : Mgr) (hD : DynInvS ext m)
    (f : Int) (varSub : List (String × Int)) : AcceptsC c (composeBody f varSub) m :=
  tryToReorder_accepts ext c hc _ (composeBody_snk f varSub).snc (composeBody_snk f varSub).nsc
    (fun m0 hI hc0 _ => composeBody_totE m0 hI hc0 f varSub) m hD

/-- `bdd.rename(u, dvars)` accepts every valid choice -/
theorem rename_accepts (ext : Nat → Nat) (c : Choice) (hc : c.Valid) (m : Mgr) (hD : DynInvS ext m)
    (u : Int) (dvars : List (String × String)) : AcceptsC c (renameBody u dvars) m :=
  tryToReorder_accepts ext c hc _ (renameBody_snk u dvars).snc (renameBody_snk u dvars).nsc
    (fun m0 hI hc0 _ => renameBody_totE m0 hI hc0 u dvars) m hD

/-! ### `apply`, `let`: dispatch to the decorated `ite`, `quantify`, `cofactor`, `compose`, `rename` -/

theorem atomVal_noS (u v w : Int) (a : Atom) : atomVal u v w a ≠ .error .sched := by
  cases a <;> simp [atomVal]

theorem except_mapM_noS {α β : Type} (f : α → Except Err β) (hf : ∀ a, f a ≠ .error .sched) :
    ∀ l : List α, l.mapM f ≠ .error .sched := by
  intro l
  induction l with
  | nil => simp [pure, Except.pure]
  | cons a l ih =>
    rw [List.mapM_cons]
    cases hfa : f a with
    | error e =>
      simp only [bind, Except.bind]
      intro h
      cases h
      exact hf a hfa
    | ok b =>
      cases hl : l.mapM f with
      | error e =>
        simp only [bind, Except.bind]
        intro h
        cases h
        exact ih hl
      | ok bs => simp [bind, Except.bind, pure, Except.pure]

theorem supportF_noS : ∀ (f : Nat) (t : Tbl) (u : Int) (acc : List Nat × List Nat),
    supportF f t u acc ≠ .error .sched := by
  intro f
  induction f with
  | zero => intro t u acc; simp [supportF]
  | succ f ih =>
    intro t u acc
    obtain ⟨levels, nodes⟩ := acc
    unfold supportF
    split
    · simp
    dsimp only
    split
    · simp
    split
    · simp
    split
    · simp
    split
    · simp
    split
    · next e heq => intro h; cases h; exact ih _ _ _ heq
    · exact ih _ _ _

theorem support_noS (t : Tbl) (u : Int) : support t u ≠ .error .sched := by
  unfold support supportLevels
  split
  · next e heq =>
    split at heq
    · next e' heq' =>
      intro h; cases h; cases heq
      exact supportF_noS _ _ _ _ heq'
    · cases heq
  · apply except_mapM_noS
    intro i
    split <;> simp

theorem assertOperatorArity_noS (op : String) (v w : Option Int) :
    assertOperatorArity op v w ≠ .error .sched := by
  unfold assertOperatorArity
  repeat' split
  all_goals simp

@[simp] theorem setS_optNotMem (s : List SchedItem) (m : Mgr) (v : Option Int) :
    optNotMem (setS s m) v = optNotMem m v := by
  cases v <;> rfl

theorem AcceptsF.error {α} (e : Err) (he : e ≠ .sched) {FC : M (α × List SchedItem)} {F : M α} {m : Mgr}
    (h1 : FC m = (.error e, m)) (h2 : ∀ s, F (setS s m) = (.error e, setS s m)) : AcceptsF FC F m := by
  refine ⟨[], fun r log' h => ?_, fun rest => ?_, fun rest => ?_⟩
  · rw [h1] at h; cases h
  · rw [h1, h2]; rfl
  · rw [h2]; exact fun h => he (by cases h; rfl)

theorem AcceptsF.congr {α} {FC FC' : M (α × List SchedItem)} {F F' : M α} {m : Mgr}
    (h : AcceptsF FC F m) (h1 : FC' m = FC m) (h2 : ∀ s, F' (setS s m) = F (setS s m)) :
    AcceptsF FC' F' m := by
  obtain ⟨sch, a, b, c⟩ := h
  refine ⟨sch, fun r log' h => a r log' (by rw [← h1]; exact h), fun rest => ?_, fun rest => ?_⟩
  · rw [h2, h1]; exact b rest
  · rw [h2]; exact c rest

/-- where `apply` ends -/
inductive ApplyEnd
  | err (e : Err)
  | neg
  | ite (a b c : Int)
  | quant (b : Int) (q : List Key) (fa : Bool)

/-- where `apply(op, u, v, w)` ends, as a function of the table: an exception of its own checks,
the negated operand, the decorated `ite`, or the decorated `quantify` -/
def applyEnd (op : String) (u : Int) (v w : Option Int) (m : Mgr) : ApplyEnd :=
  match assertOperatorArity op v w with
  | .error e => .err e
  | .ok _ =>
    if !m.mem u then .err .value else
    if optNotMem m v then .err .value else
    if optNotMem m w then .err .value else
    match findRow op Gen.applyTable with
    | none => .err .value
    | some row =>
      match row.templ with
      | .neg => .neg
      | .ite a b c' =>
        match v with
        | none => .err .value
        | some vv =>
          match (if atomUsesW a || atomUsesW b || atomUsesW c' then w else some (w.getD 0)) with
          | none => .err .value
          | some ww =>
            match atomVal u vv ww a, atomVal u vv ww b, atomVal u vv ww c' with
            | .ok a, .ok b, .ok c' => .ite a b c'
            | .error e, _, _ => .err e
            | _, .error e, _ => .err e
            | _, _, .error e => .err e
      | .quant fa frm body =>
        match v with
        | none => .err .value
        | some vv =>
          match atomVal u vv 0 frm, atomVal u vv 0 body with
          | .ok f, .ok b =>
            match support m.tbl f with
            | .error e => .err e
            | .ok q => .quant b (q.map Key.name) fa
          | .error e, _ => .err e
          | _, .error e => .err e
      | .notImpl => .err .notImplemented
      | .bad => .err .other

theorem applyEnd_setS (op : String) (u : Int) (v w : Option Int) (s : List SchedItem) (m : Mgr) :
    applyEnd op u v w (setS s m) = applyEnd op u v w m := by
  unfold applyEnd
  simp only [setS_mem, setS_tbl, setS_optNotMem]

theorem apply_eq_end (op : String) (u : Int) (v w : Option Int) (m : Mgr) :
    apply op u v w m = match applyEnd op u v w m with
      | .err e => (.error e, m)
      | .neg => (.ok (-u), m)
      | .ite a b c => ite a b c m
      | .quant b q fa => quantify b q fa m := by
  unfold apply applyEnd
  repeat' split
  all_goals first | rfl | simp_all

theorem applyC_eq_end (c : Choice) (op : String) (u : Int) (v w : Option Int) (log : List SchedItem)
    (m : Mgr) :
    applyC c op u v w log m = match applyEnd op u v w m with
      | .err e => (.error e, m)
      | .neg => (.ok (-u, log), m)
      | .ite a b c' => tryToReorderC c (iteRaw a b c') log m
      | .quant b q fa => tryToReorderC c (quantifyBody b q fa) log m := by
  unfold applyC applyEnd
  repeat' split
  all_goals first | rfl | simp_all

theorem applyEnd_err_ne {op : String} {u : Int} {v w : Option Int} {m : Mgr} {e : Err}
    (h : applyEnd op u v w m = .err e) : e ≠ .sched := by
  unfold applyEnd at h
  repeat' split at h
  all_goals first
    | (cases h; done)
    | (cases h; intro hs; first
        | (cases hs; done)
        | (subst hs; first
            | exact assertOperatorArity_noS _ _ _ (by assumption)
            | exact atomVal_noS _ _ _ _ (by assumption)
            | exact support_noS _ _ (by assumption)))

theorem AcceptsF.ok {α} (r : α) {FC : M (α × List SchedItem)} {F : M α} {m : Mgr}
    (h1 : FC m = (.ok (r, []), m)) (h2 : ∀ s, F (setS s m) = (.ok r, setS s m)) : AcceptsF FC F m := by
  refine ⟨[], fun r' log' h => ?_, fun rest => ?_, fun rest => ?_⟩
  · rw [h1] at h; cases h; rfl
  · rw [h1, h2]; rfl
  · rw [h2]; exact fun h => by cases h

/-- `bdd.apply(op, u, v, w)`, ANY operator string, arity and operands, accepts every valid choice -/
theorem apply_accepts (ext : Nat → Nat) (c : Choice) (hc : c.Valid) (m : Mgr) (hD : DynInvS ext m)
    (op : String) (u : Int) (v w : Option Int) :
    AcceptsF (applyC c op u v w []) (apply op u v w) m := by
  have e1 := applyC_eq_end c op u v w [] m
  have e2 : ∀ s, apply op u v w (setS s m) = match applyEnd op u v w m with
      | .err e => (.error e, setS s m)
      | .neg => (.ok (-u), setS s m)
      | .ite a b c => ite a b c (setS s m)
      | .quant b q fa => quantify b q fa (setS s m) := fun s => by
    rw [apply_eq_end, applyEnd_setS]
  cases hE : applyEnd op u v w m with
  | err e =>
    rw [hE] at e1 e2
    exact AcceptsF.error e (applyEnd_err_ne hE) e1 e2
  | neg =>
    rw [hE] at e1 e2
    exact AcceptsF.ok (-u) e1 e2
  | ite a b c' =>
    rw [hE] at e1 e2
    exact (ite_accepts ext c hc m hD a b c').congr e1 e2
  | quant b q fa =>
    rw [hE] at e1 e2
    exact (quantify_accepts ext c hc m hD b q fa).congr e1 e2

/-- `bdd.let(definitions, u)` accepts every valid choice -/
theorem letOp_accepts (ext : Nat → Nat) (c : Choice) (hc : c.Valid) (m : Mgr) (hD : DynInvS ext m)
    (d : LetArg) (u : Int) : AcceptsF (letOpC c d u []) (letOp d u) m := by
  cases d with
  | bools l =>
    cases l with
    | nil => exact AcceptsF.ok u rfl (fun _ => rfl)
    | cons x xs => exact cofactor_accepts ext c hc m hD u (x :: xs)
  | refs l =>
    cases l with
    | nil => exact AcceptsF.ok u rfl (fun _ => rfl)
    | cons x xs => exact compose_accepts ext c hc m hD u (x :: xs)
  | names l =>
    cases l with
    | nil => exact AcceptsF.ok u rfl (fun _ => rfl)
    | cons x xs => exact rename_accepts ext c hc m hD u (x :: xs)

end DD
