/-
  DDProofs.DddmpTextProofs — facts about the text layer of `dd/dddmp.py` (`DD/DddmpText.lean`):

  * which header lines are REFUSED (`DddmpLine.refusal`: `.mode` other than `A` → `Exception`,
    `.rootnames` → `NotImplementedError`; the first refused line in file order decides) and that
    every other line is accepted (`dddmpApplyLines_error_iff`, `dddmpApplyLines_ok_iff`);
  * the header lines that are IGNORED (`.ver`, `.mode A`, `.dd`, `.add`) do not change what
    `load` returns (`DddmpFile.content`, `loadDddmpU_content`, `dddmpApplyLines_filter`);
    `.auxids` is only counted (`loadDddmpU_auxids`);
  * the header parser is the grammar followed by the actions (`dddmpParseHeaderF_of_syntax`);
  * the line dispatch (`dddmpHeaderLines_cut`, `dddmpBodyLines_cut`): the first line that STARTS
    WITH `.nodes` / `.end` ends the header / the body; `noMark_of_head`: node lines and comment
    lines are never marks (before f9d6f33 a line that CONTAINED the mark — inside a variable
    name, a comment — cut the file: `isInfixC_append`);
  * on a text that parses, `loadDddmpText` is `loadDddmp` of the parsed content
    (`loadDddmpText_of_parse`).
-/
import DD.DddmpText
import DDProofs.DddmpFormat
open Std

namespace DD

/-! ### refused header lines -/

/-- the exception a header line raises while the header is parsed, if any -/
def DddmpLine.refusal : DddmpLine → Option Err
  | .mode s => if s = "A" then none else some .other      -- `Exception` (binary mode `B`, unknown mode)
  | .rootnames _ => some .notImplemented                  -- `NotImplementedError`
  | _ => none

theorem dddmpApplyLine_error_iff (f : DddmpFile) (l : DddmpLine) (e : Err) :
    dddmpApplyLine f l = .error e ↔ l.refusal = some e := by
  cases l with
  | mode s => by_cases hs : s = "A" <;> simp [dddmpApplyLine, DddmpLine.refusal, hs, eq_comm]
  | rootnames l => simp [dddmpApplyLine, DddmpLine.refusal, eq_comm]
  | _ => simp [dddmpApplyLine, DddmpLine.refusal]

theorem dddmpApplyLine_ok_iff (f : DddmpFile) (l : DddmpLine) :
    (∃ f', dddmpApplyLine f l = .ok f') ↔ l.refusal = none := by
  cases l with
  | mode s => by_cases hs : s = "A" <;> simp [dddmpApplyLine, DddmpLine.refusal, hs]
  | rootnames l => simp [dddmpApplyLine, DddmpLine.refusal]
  | _ => simp [dddmpApplyLine, DddmpLine.refusal]

/-- the parse of the header fails at the FIRST refused line, with its exception -/
theorem dddmpApplyLines_error_iff (ls : List DddmpLine) : ∀ (f : DddmpFile) (e : Err),
    dddmpApplyLines f ls = .error e ↔ (ls.filterMap DddmpLine.refusal).head? = some e := by
  induction ls with
  | nil => intro f e; simp [dddmpApplyLines]
  | cons l ls ih =>
    intro f e
    rw [dddmpApplyLines]
    cases hr : l.refusal with
    | some e' =>
      have := (dddmpApplyLine_error_iff f l e').mpr hr
      rw [this]
      simp [List.filterMap_cons, hr, eq_comm]
    | none =>
      obtain ⟨f', hf'⟩ := (dddmpApplyLine_ok_iff f l).mpr hr
      rw [hf']
      simp only [List.filterMap_cons, hr]
      exact ih f' e

/-- … and succeeds exactly when no line is refused -/
theorem dddmpApplyLines_ok_iff (ls : List DddmpLine) : ∀ (f : DddmpFile),
    (∃ f', dddmpApplyLines f ls = .ok f') ↔ ∀ l ∈ ls, l.refusal = none := by
  induction ls with
  | nil => intro f; simp [dddmpApplyLines]
  | cons l ls ih =>
    intro f
    rw [dddmpApplyLines]
    cases hr : l.refusal with
    | some e' =>
      rw [(dddmpApplyLine_error_iff f l e').mpr hr]
      simp [hr]
    | none =>
      obtain ⟨f', hf'⟩ := (dddmpApplyLine_ok_iff f l).mpr hr
      rw [hf']
      simp only [List.mem_cons, forall_eq_or_imp, hr, true_and]
      exact ih f'

/-! ### ignored header lines -/

/-- the lines whose action stores nothing the loader reads -/
def DddmpLine.ignored : DddmpLine → Bool
  | .ver _ _ _ | .mode _ | .dd _ | .add => true
  | _ => false

/-- the content of the file without the ignored fields -/
def DddmpFile.content (f : DddmpFile) : DddmpFile :=
  { f with ver := none, mode := none, ddname := none, add := false }

/-- everything `load` computes is a function of the content: `.ver`, `.mode A`, `.dd` and
`.add` (an ADD file!) change nothing -/
theorem loadDddmpU_content (f : DddmpFile) : loadDddmpU f.content = loadDddmpU f := rfl
theorem loadDddmp_content (f : DddmpFile) : loadDddmp f.content = loadDddmp f := rfl
theorem evalFile_content (f : DddmpFile) : evalFile f.content = evalFile f := rfl
theorem evalFormat_content (f : DddmpFile) : evalFormat f.content = evalFormat f := rfl
theorem dddmpHeader_content (f : DddmpFile) : dddmpHeader f.content = dddmpHeader f := rfl

theorem loadDddmpU_congr {f g : DddmpFile} (h : g.content = f.content) :
    loadDddmpU g = loadDddmpU f := by
  rw [← loadDddmpU_content g, h, loadDddmpU_content]

theorem dddmpApplyLine_ignored {f f' : DddmpFile} {l : DddmpLine} (h : dddmpApplyLine f l = .ok f')
    (hi : l.ignored = true) : f'.content = f.content := by
  cases l <;> simp [DddmpLine.ignored] at hi <;> simp only [dddmpApplyLine] at h
  · cases h; rfl
  · split at h
    · cases h; rfl
    · cases h
  · cases h; rfl
  · cases h; rfl

theorem dddmpApplyLine_congr {f f' g : DddmpFile} {l : DddmpLine} (h : dddmpApplyLine f l = .ok f')
    (hg : g.content = f.content) : ∃ g', dddmpApplyLine g l = .ok g' ∧ g'.content = f'.content := by
  have hc := hg
  simp only [DddmpFile.content, DddmpFile.mk.injEq] at hc
  obtain ⟨h1, h2, h3, h4, h5, h6, h7, h8, h9, h10, h11, h12, -⟩ := hc
  cases l <;> simp only [dddmpApplyLine] at h ⊢
  case mode s =>
    split at h
    · next hs =>
      cases h
      simp only [hs, if_true]
      refine ⟨_, rfl, ?_⟩
      simp [DddmpFile.content, *]
    · cases h
  case rootnames => cases h
  all_goals (cases h; refine ⟨_, rfl, ?_⟩; simp [DddmpFile.content, *])

/-- erasing the ignored lines from the header changes neither the acceptance of the file nor
the content, hence (`loadDddmpU_congr`) nothing of what `load` returns -/
theorem dddmpApplyLines_filter (ls : List DddmpLine) : ∀ (f g f1 : DddmpFile),
    dddmpApplyLines f ls = .ok f1 → g.content = f.content →
    ∃ g1, dddmpApplyLines g (ls.filter fun l => !l.ignored) = .ok g1 ∧ g1.content = f1.content := by
  induction ls with
  | nil =>
    intro f g f1 h hg
    simp only [dddmpApplyLines, Except.ok.injEq] at h
    subst h
    exact ⟨g, rfl, hg⟩
  | cons l ls ih =>
    intro f g f1 h hg
    rw [dddmpApplyLines] at h
    cases hl : dddmpApplyLine f l with
    | error e => rw [hl] at h; cases h
    | ok f' =>
      rw [hl] at h
      by_cases hi : l.ignored = true
      · simp only [List.filter_cons, hi, Bool.not_true, Bool.false_eq_true, if_false]
        exact ih f' g f1 h (hg.trans (dddmpApplyLine_ignored hl hi).symm)
      · have hi' : l.ignored = false := by simpa using hi
        obtain ⟨g', hg', hc'⟩ := dddmpApplyLine_congr hl hg
        simp only [List.filter_cons, hi', Bool.not_false, if_true, dddmpApplyLines, hg']
        exact ih f' g' f1 h hc'

/-- `.auxids`: `_assert_consistent` compares its length with `.nsuppvars`; nothing else reads it -/
theorem loadDddmpU_auxids (f : DddmpFile) (l : List Int) (h : lenNe l f.nsuppvars = false) :
    loadDddmpU { f with auxids := some l } = loadDddmpU { f with auxids := none } := by
  have hc : dddmpAssertConsistent { f with auxids := some l } =
      dddmpAssertConsistent { f with auxids := none } := by
    simp only [dddmpAssertConsistent, h]
    rfl
  simp only [loadDddmpU, dddmpLoadCore, dddmpHeader, hc]
  rfl

/-! ### the header parser is the grammar followed by the actions -/

/-- the grammar alone: the `line`s of the header, `none` for a lexical or syntax error -/
def dddmpSyntaxF : Nat → List HTok → Bool → Option (List DddmpLine)
  | 0, _, _ => none
  | _ + 1, [], illegal => if illegal then none else some []
  | f + 1, .kw k :: ts, illegal =>
    match pLine k ts with
    | none => none
    | some (line, rest) =>
      if !lookaheadOk rest illegal then none else (dddmpSyntaxF f rest illegal).map (line :: ·)
  | _ + 1, _ :: _, _ => none

/-- on a header that is in the grammar, the result of the parse is the sequence of the actions -/
theorem dddmpParseHeaderF_of_syntax : ∀ (n : Nat) (toks : List HTok) (ill : Bool) (ls : List DddmpLine)
    (acc : DddmpFile), dddmpSyntaxF n toks ill = some ls →
    dddmpParseHeaderF n toks ill acc = dddmpApplyLines acc ls := by
  intro n
  induction n with
  | zero => intro toks ill ls acc h; simp [dddmpSyntaxF] at h
  | succ n ih =>
    intro toks ill ls acc h
    cases toks with
    | nil =>
      simp only [dddmpSyntaxF] at h
      split at h
      · cases h
      · next hi => cases h; simp [dddmpParseHeaderF, hi, dddmpApplyLines]
    | cons t ts =>
      cases t with
      | kw k =>
        simp only [dddmpSyntaxF] at h
        simp only [dddmpParseHeaderF]
        cases hp : pLine k ts with
        | none => rw [hp] at h; cases h
        | some pr =>
          obtain ⟨line, rest⟩ := pr
          rw [hp] at h
          simp only at h ⊢
          split at h
          · cases h
          · next hla =>
            simp only [hla, if_false]
            cases hs : dddmpSyntaxF n rest ill with
            | none => rw [hs] at h; cases h
            | some ls' =>
              rw [hs] at h
              simp only [Option.map_some, Option.some.injEq] at h
              subst h
              rw [dddmpApplyLines]
              cases ha : dddmpApplyLine acc line with
              | error e => rfl
              | ok acc' => exact ih rest ill ls' acc' hs
      | name s => simp [dddmpSyntaxF] at h
      | number k => simp [dddmpSyntaxF] at h
      | minus => simp [dddmpSyntaxF] at h
      | dot => simp [dddmpSyntaxF] at h

/-! ### the dispatch of lines

Since f9d6f33 the marks are tested at the START of a line (`hasNodesMark`, `hasEndMark` =
`isPrefixOf`).  The `isInfixC` lemmas describe the substring test of the code before the repair
(finding F23) and are kept for the historical statement `C16_substring_dispatch_cut`. -/

/-- a line that does not start with a dot is no mark: node lines (they start with a digit or a
sign), comment lines, header lines indented by a blank -/
theorem noMark_of_head {c : Char} {l : List Char} (h : c ≠ '.') :
    hasNodesMark (c :: l) = false ∧ hasEndMark (c :: l) = false := by
  have h' : ('.' == c) = false := by
    rw [beq_eq_false_iff_ne]; exact fun e => h e.symm
  simp [hasNodesMark, hasEndMark, List.isPrefixOf, h']

/-- a header line whose keyword is not `.nodes…` is no `.nodes` mark, whatever NAMES follow -/
theorem noNodesMark_of_keyword {k rest : List Char}
    (h : (['.', 'n', 'o', 'd', 'e', 's'] : List Char).isPrefixOf k = false) (hk : 6 ≤ k.length) :
    hasNodesMark (k ++ rest) = false := by
  unfold hasNodesMark
  match k, hk with
  | a :: b :: c :: d :: e :: f :: k', _ =>
    simp only [List.cons_append, List.isPrefixOf] at h ⊢
    simpa using h

theorem isInfixC_of_prefix (m x : List Char) (h : m.isPrefixOf x = true) : isInfixC m x = true := by
  cases x with
  | nil =>
    cases m with
    | nil => rfl
    | cons _ _ => simp [List.isPrefixOf] at h
  | cons c r => simp [isInfixC, h]

theorem isPrefixOf_append_right (m x b : List Char) (h : m.isPrefixOf x = true) :
    m.isPrefixOf (x ++ b) = true := by
  rw [List.isPrefixOf_iff_prefix] at h ⊢
  exact h.trans (List.prefix_append _ _)

theorem isInfixC_append_right (m : List Char) : ∀ (x b : List Char), isInfixC m x = true →
    isInfixC m (x ++ b) = true := by
  intro x
  induction x with
  | nil =>
    intro b h
    have hm : m = [] := by simpa [isInfixC] using h
    subst hm
    cases b <;> simp [isInfixC, List.isPrefixOf]
  | cons c r ih =>
    intro b h
    simp only [isInfixC, Bool.or_eq_true] at h
    simp only [List.cons_append, isInfixC, Bool.or_eq_true]
    rcases h with h | h
    · exact Or.inl (isPrefixOf_append_right m (c :: r) b h)
    · exact Or.inr (ih b h)

theorem isInfixC_append_left (m : List Char) : ∀ (a x : List Char), isInfixC m x = true →
    isInfixC m (a ++ x) = true := by
  intro a
  induction a with
  | nil => intro x h; exact h
  | cons c r ih =>
    intro x h
    simp only [List.cons_append, isInfixC, Bool.or_eq_true]
    exact Or.inr (ih x h)

/-- a line that contains the mark anywhere — e.g. in the NAME of a variable — has it -/
theorem isInfixC_append (m a x b : List Char) (h : isInfixC m x = true) :
    isInfixC m (a ++ x ++ b) = true := by
  rw [List.append_assoc]
  exact isInfixC_append_left m a _ (isInfixC_append_right m x b h)

/-- the header ends at the FIRST line that has the `.nodes` mark -/
theorem dddmpHeaderLines_cut (pre : List (List Char)) (l : List Char) (post : List (List Char))
    (hpre : ∀ x ∈ pre, hasNodesMark x = false) (hl : hasNodesMark l = true) :
    dddmpHeaderLines (pre ++ l :: post) = pre := by
  unfold dddmpHeaderLines
  induction pre with
  | nil => simp [List.takeWhile, hl]
  | cons a r ih =>
    simp only [List.cons_append, List.takeWhile_cons, hpre a List.mem_cons_self, Bool.not_false, if_true]
    rw [ih (fun x hx => hpre x (List.mem_cons_of_mem _ hx))]

theorem dropWhile_cut (pre : List (List Char)) (l : List Char) (post : List (List Char))
    (hpre : ∀ x ∈ pre, hasNodesMark x = false) (hl : hasNodesMark l = true) :
    ((pre ++ l :: post).dropWhile fun x => !hasNodesMark x) = l :: post := by
  induction pre with
  | nil => simp [List.dropWhile, hl]
  | cons a r ih =>
    simp only [List.cons_append, List.dropWhile_cons, hpre a List.mem_cons_self, Bool.not_false, if_true]
    exact ih (fun x hx => hpre x (List.mem_cons_of_mem _ hx))

/-- the body ends at the first line after `.nodes` that has the `.end` mark; the lines after it
are never read -/
theorem dddmpBodyLines_cut (pre : List (List Char)) (l : List Char) (body : List (List Char))
    (l' : List Char) (post : List (List Char))
    (hpre : ∀ x ∈ pre, hasNodesMark x = false) (hl : hasNodesMark l = true)
    (hbody : ∀ x ∈ body, hasEndMark x = false) (hl' : hasEndMark l' = true) :
    dddmpBodyLines (pre ++ l :: (body ++ l' :: post)) = body := by
  unfold dddmpBodyLines
  rw [dropWhile_cut pre l _ hpre hl]
  simp only [List.drop_succ_cons, List.drop_zero]
  induction body with
  | nil => simp [List.takeWhile, hl']
  | cons a r ih =>
    simp only [List.cons_append, List.takeWhile_cons, hbody a List.mem_cons_self, Bool.not_false, if_true]
    rw [ih (fun x hx => hbody x (List.mem_cons_of_mem _ hx))]

/-! ### a text that parses is loaded as its content -/

theorem loadDddmp_header_error {f : DddmpFile} {e : Err} (h : dddmpHeader f = .error e) :
    loadDddmp f = .error e := by
  simp [loadDddmp, loadDddmpU, dddmpLoadCore, h, Except.map]

/-- `dd.dddmp.load` on a text of which every part parses = `loadDddmp` on the parsed content -/
theorem loadDddmpText_of_parse {s : List Char} {f : DddmpFile} (h : dddmpParseText s = some f) :
    loadDddmpText s = loadDddmp f := by
  unfold dddmpParseText at h
  unfold loadDddmpText
  cases hh : dddmpHeaderOfText s with
  | error e => rw [hh] at h; simp at h
  | ok f0 =>
    rw [hh] at h
    cases hg : goodPrefix (dddmpNodesOfText s) with
    | mk nodes bad =>
      rw [hg] at h
      cases bad with
      | true => simp at h
      | false =>
        simp only [Option.some.injEq] at h
        subst h
        simp only
        cases hd : dddmpHeader f0 with
        | error e =>
          have : dddmpHeader { f0 with nodes := nodes } = .error e := hd
          rw [loadDddmp_header_error this]
        | ok r =>
          obtain ⟨i2p, levels, roots⟩ := r
          rfl

end DD
