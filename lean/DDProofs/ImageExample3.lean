/-
  DDProofs.ImageExample3 — a concrete manager with three variables `a` (level 0) < `b` (1) < `c`
  (2) and the nodes 2 = `c`, 3 = `¬a ∨ c` (so `-3` = `a ∧ ¬c`).  Used for
  * `image` with a pair that is NOT adjacent (`{c: a}`), and
  * the witness that `preimage` needs an INJECTIVE renaming: with `{a: b, c: b}` (partners
    adjacent, keys disjoint from values, target `a ∧ ¬c` independent of `b`) the code returns TRUE
    for `∃ b. (a ∧ ¬c)[b/a, b/c]` = `∃ b. b ∧ ¬b` = FALSE.
-/
import DDProofs.ImageF5
open Std

namespace DD

def imgM3 : Mgr :=
  { tbl := {
      succ := ((({} : TreeMap Nat Nd).insert 2 ⟨2, -1, 1⟩).insert 3 ⟨0, 1, 2⟩)
      vars := ((({} : TreeMap String Nat).insert "a" 0).insert "b" 1).insert "c" 2
      l2v := ((({} : TreeMap Nat String).insert 0 "a").insert 1 "b").insert 2 "c" }
    pred := ((({} : TreeMap (List Int) Nat).insert [2, -1, 1] 2).insert [0, 1, 2] 3)
    ref := (((({} : TreeMap Nat Nat).insert 1 3).insert 2 2).insert 3 1)
    minFree := 4 }

theorem imgM3_nvars : imgM3.tbl.nvars = 3 := by
  simp [imgM3, Tbl.nvars, TreeMap.size_insert]

theorem imgM3_nvars' : imgM3.nvars = 3 := imgM3_nvars

theorem imgM3_node2 : imgM3.tbl.node? 2 = some ⟨2, -1, 1⟩ := by decide
theorem imgM3_node3 : imgM3.tbl.node? 3 = some ⟨0, 1, 2⟩ := by decide

theorem imgM3_nodes (u : Nat) (n : Nd) (h : imgM3.tbl.node? u = some n) :
    (u = 2 ∧ n = ⟨2, -1, 1⟩) ∨ (u = 3 ∧ n = ⟨0, 1, 2⟩) := by
  have hb : imgM3.tbl.bound = 4 := by decide
  have := imgM3.tbl.lt_bound h
  rw [hb] at this
  have h0 : imgM3.tbl.node? 0 = none := by decide
  have h1 : imgM3.tbl.node? 1 = none := by decide
  match u, this with
  | 0, _ => rw [h0] at h; cases h
  | 1, _ => rw [h1] at h; cases h
  | 2, _ => rw [imgM3_node2] at h; cases h; exact Or.inl ⟨rfl, rfl⟩
  | 3, _ => rw [imgM3_node3] at h; cases h; exact Or.inr ⟨rfl, rfl⟩

theorem imgM3_mem (u : Int) (h : u.natAbs = 1 ∨ u.natAbs = 2 ∨ u.natAbs = 3) :
    imgM3.tbl.Mem u := by
  rcases h with h | h | h
  · exact Or.inl h
  · exact Or.inr (by rw [h, imgM3_node2]; rfl)
  · exact Or.inr (by rw [h, imgM3_node3]; rfl)

theorem imgM3_levelOf2 : imgM3.tbl.levelOf 2 = 2 := by
  simp [Tbl.levelOf, imgM3_node2]
theorem imgM3_levelOf3 : imgM3.tbl.levelOf 3 = 0 := by
  simp [Tbl.levelOf, imgM3_node3]
theorem imgM3_levelOf1 : imgM3.tbl.levelOf 1 = 3 := by
  simp [Tbl.levelOf, imgM3_nvars]

theorem imgM3_inv : Inv imgM3 := by
  have hwf : WF imgM3.tbl := by
    refine ⟨?_, ?_, ?_, ?_, ?_, ?_, ?_, ?_⟩ <;> intro u n h <;>
      rcases imgM3_nodes u n h with ⟨rfl, rfl⟩ | ⟨rfl, rfl⟩
    all_goals first
      | (rw [imgM3_nvars]; decide)
      | exact imgM3_mem _ (by decide)
      | (simp only [Int.reduceNeg, levelOf_neg, imgM3_levelOf1, imgM3_levelOf2]; decide)
      | decide
  refine ⟨⟨hwf, ?_⟩, ?_, by decide, by decide, by decide, ?_, ?_⟩
  · intro u u' n h h'
    rcases imgM3_nodes u n h with ⟨rfl, rfl⟩ | ⟨rfl, rfl⟩ <;>
      rcases imgM3_nodes u' _ h' with ⟨rfl, h2⟩ | ⟨rfl, h2⟩ <;> first | rfl | cases h2
  · intro n u
    constructor
    · intro h
      have hk := getElem?_mem_keys _ _ _ h
      have hkeys : imgM3.pred.keys = [[0, 1, 2], [2, -1, 1]] := by decide
      rw [hkeys] at hk
      simp only [List.mem_cons, List.not_mem_nil, or_false] at hk
      rcases hk with hk | hk
      · have : n = ⟨0, 1, 2⟩ := Nd.key_inj (by rw [hk]; rfl)
        subst this
        have : imgM3.pred[(⟨0, 1, 2⟩ : Nd).key]? = some 3 := by decide
        rw [this] at h; cases h; decide
      · have : n = ⟨2, -1, 1⟩ := Nd.key_inj (by rw [hk]; rfl)
        subst this
        have : imgM3.pred[(⟨2, -1, 1⟩ : Nd).key]? = some 2 := by decide
        rw [this] at h; cases h; decide
    · intro h
      rcases imgM3_nodes u n h with ⟨rfl, rfl⟩ | ⟨rfl, rfl⟩ <;> decide
  · intro u n h
    rcases imgM3_nodes u n h with ⟨rfl, rfl⟩ | ⟨rfl, rfl⟩ <;> decide
  · intro g u v w h
    have hk := getElem?_mem_keys _ _ _ h
    have hkeys : imgM3.cache.keys = [] := by decide
    rw [hkeys] at hk; cases hk

theorem imgM3_vars_a : imgM3.tbl.vars["a"]? = some 0 := by
  simp only [imgM3, TreeMap.getElem?_insert]
  simp
theorem imgM3_vars_b : imgM3.tbl.vars["b"]? = some 1 := by
  simp only [imgM3, TreeMap.getElem?_insert]
  simp
theorem imgM3_vars_c : imgM3.tbl.vars["c"]? = some 2 := by
  simp only [imgM3, TreeMap.getElem?_insert]
  simp

theorem imgM3_varsBij : VarsBij imgM3.tbl := by
  have hv : ∀ (v : String) (i : Nat), imgM3.tbl.vars[v]? = some i →
      (v = "a" ∧ i = 0) ∨ (v = "b" ∧ i = 1) ∨ (v = "c" ∧ i = 2) := by
    intro v i h
    simp only [imgM3, TreeMap.getElem?_insert] at h
    split at h
    · next hc =>
      have : "c" = v := by simpa using hc
      cases h; exact Or.inr (Or.inr ⟨this.symm, rfl⟩)
    · split at h
      · next hc =>
        have : "b" = v := by simpa using hc
        cases h; exact Or.inr (Or.inl ⟨this.symm, rfl⟩)
      · split at h
        · next hc =>
          have : "a" = v := by simpa using hc
          cases h; exact Or.inl ⟨this.symm, rfl⟩
        · simp at h
  have hl : ∀ (i : Nat) (v : String), imgM3.tbl.l2v[i]? = some v →
      (v = "a" ∧ i = 0) ∨ (v = "b" ∧ i = 1) ∨ (v = "c" ∧ i = 2) := by
    intro i v h
    simp only [imgM3, TreeMap.getElem?_insert] at h
    split at h
    · next hc =>
      have : 2 = i := by simpa using hc
      cases h; exact Or.inr (Or.inr ⟨rfl, this.symm⟩)
    · split at h
      · next hc =>
        have : 1 = i := by simpa using hc
        cases h; exact Or.inr (Or.inl ⟨rfl, this.symm⟩)
      · split at h
        · next hc =>
          have : 0 = i := by simpa using hc
          cases h; exact Or.inl ⟨rfl, this.symm⟩
        · simp at h
  have l0 : imgM3.tbl.l2v[0]? = some "a" := by decide
  have l1 : imgM3.tbl.l2v[1]? = some "b" := by decide
  have l2 : imgM3.tbl.l2v[2]? = some "c" := by decide
  refine ⟨?_, ?_, ?_, ?_⟩
  · intro v i h
    rcases hv v i h with ⟨rfl, rfl⟩ | ⟨rfl, rfl⟩ | ⟨rfl, rfl⟩
    · exact l0
    · exact l1
    · exact l2
  · intro i v h
    rcases hl i v h with ⟨rfl, rfl⟩ | ⟨rfl, rfl⟩ | ⟨rfl, rfl⟩
    · exact imgM3_vars_a
    · exact imgM3_vars_b
    · exact imgM3_vars_c
  · intro v i h
    rw [imgM3_nvars]
    rcases hv v i h with ⟨_, rfl⟩ | ⟨_, rfl⟩ | ⟨_, rfl⟩ <;> omega
  · intro i hi
    rw [imgM3_nvars] at hi
    match i, hi with
    | 0, _ => exact ⟨"a", imgM3_vars_a⟩
    | 1, _ => exact ⟨"b", imgM3_vars_b⟩
    | 2, _ => exact ⟨"c", imgM3_vars_c⟩

theorem imgM3_den2 (a : Asg) : den imgM3.tbl 2 a = a 2 := by
  rw [den_node imgM3.tbl imgM3_inv.wf.toWF 2 _ a (by decide) imgM3_node2, den_one, den_neg_one]
  cases a 2 <;> simp

theorem imgM3_den3 (a : Asg) : den imgM3.tbl 3 a = (!a 0 || a 2) := by
  rw [den_node imgM3.tbl imgM3_inv.wf.toWF 3 _ a (by decide) imgM3_node3, den_one, imgM3_den2]
  cases a 0 <;> cases a 2 <;> simp

/-- `_image(u, -1, ...)` returns FALSE at once -/
theorem imageF_right_false (umap vmap : Option (List (Int × Int))) (ubad vbad : List Int) (Q : List Nat)
    (fa : Bool) (f : Nat) (u : Int) (cache : HashMap (Int × Int) Int) (m : Mgr) :
    imageF umap vmap ubad vbad Q fa (f+1) u (-1) cache m = (.ok (-1, cache), m) := by
  unfold imageF; simp

/-- the example manager with the context flag set to `c` -/
def imgM3c (c : Bool) : Mgr := { imgM3 with ctx := c }

theorem imgM3c_inv (c : Bool) : Inv (imgM3c c) := imgM3_inv.setCtx c
theorem imgM3c_nvars' (c : Bool) : (imgM3c c).nvars = 3 := imgM3_nvars'
theorem imgM3c_tbl (c : Bool) : (imgM3c c).tbl = imgM3.tbl := rfl

/-- the run of `_image` on the non-injective renaming `{a: b, c: b}` (levels `{0: 1, 2: 1}`),
`u` = TRUE, `v = a ∧ ¬c`, `qvars = {b}`, existential: the code returns a reference of TRUE (whatever the context flag) -/
theorem imgM3_noninj_run_ctx (cx : Bool) :
    ∃ r c m', imageF none (some [(0, 1), (2, 1)]) [] [] [1] false 10 1 (-3) {} (imgM3c cx) =
      (.ok (r, c), m') ∧ ∀ a, den m'.tbl r a = true := by
  have hW := (imgM3c_inv cx).wf.toWF
  -- the call `(1, ¬c)`: covered by the specification (one variable in the support)
  obtain ⟨r1, c1, m1, e1, hI1, hE1, hF1, _, hr1, hd1⟩ := imageF_spec_preimage [(0, 1), (2, 1)]
    [1] false (fun _ => 1) (fun j => j = 2) 9 (imgM3c cx) 1 (-2) {} (imgM3c_inv cx) rfl (mem_one _)
    (imgM3_mem _ (by decide))
    (fun j h => by
      have h1 := h.ge hW
      have h2 := h.lt_nvars hW
      rw [imgM3c_tbl, levelOf_neg, imgM3_levelOf2] at h1
      rw [imgM3c_tbl, imgM3_nvars] at h2
      omega)
    (fun j hj => by subst hj; rw [(imgM3c_nvars' cx)]; decide)
    (by rw [(imgM3c_nvars' cx)]; decide)
    (fun j j' hj hj' h => by omega)
    (IMemo.empty _ _ _ _ _)
    (by rw [(imgM3c_nvars' cx), imgM3c_tbl, imgM3_levelOf1, levelOf_neg, imgM3_levelOf2]; omega)
  have hoff1 : m1.lastLen = none := by rw [hF1.lastLen]; rfl
  have hr1t : ∀ a, den m1.tbl r1 a = true := by
    intro a
    rw [hd1 a]
    refine ⟨upd a 1 false, agreeOff_upd (by simp) false (AgreeOff.refl _ _), ?_⟩
    dsimp only
    rw [imgM3c_tbl, den_one, den_neg imgM3.tbl imgM3_inv.wf.toWF 2 _ (imgM3_mem _ (by decide)), imgM3_den2]
    simp [upd]
  obtain ⟨r2, m2, e2, hp2⟩ := ite_spec_off m1 hI1 hoff1 (-1) 1 r1 (mem_neg_one _) (mem_one _) hr1
  refine ⟨r2, c1.insert (1, -3) r2, m2, ?_, ?_⟩
  · show imageF none (some [(0, 1), (2, 1)]) [] [] [1] false (9+1) 1 (-3) {} (imgM3c cx) = _
    unfold imageF
    have hA : ¬ ((1 : Int) = -1 ∨ (-3 : Int) = -1) := by decide
    have hB : ¬ ((-3 : Int) = 1) := by decide
    have h1 : (imgM3c cx).tbl.levelOf? 1 = some 3 := by
      rw [imgM3c_tbl, Tbl.levelOf?_eq _ _ (mem_one _), imgM3_levelOf1]
    have h2 : (imgM3c cx).tbl.levelOf? (-3) = some 0 := by rw [imgM3c_tbl]; decide
    have hi : mapLvl (some [(0, 1), (2, 1)]) ((0 : Nat) : Int) = 1 := by decide
    have hz : min ((3 : Nat) : Int) 1 = 1 := by decide
    have hc1 : topCofactorI (imgM3c cx).tbl 1 1 = .ok (1, 1) := by rfl
    have hc2 : topCofactorI (imgM3c cx).tbl (-3) (((0 : Nat) : Int) + 1 - 1) = .ok (-1, -2) := by rfl
    have hq : (0 : Int) ≤ 1 ∧ [1].contains (1 : Int).toNat = true := by decide
    simp only [hA, hB, and_false, if_false, List.contains_nil, Bool.false_eq_true, HashMap.getElem?_empty, h1, h2, hi, hz, hc1, hc2,
      imageF_right_false, e1, hq, and_self, if_true, Bool.false_eq_true, e2]
  · intro a
    rw [hp2.den a, den_neg_one, hr1t a]
    rfl


/-- the run of `_image` on the non-injective renaming `{a: b, c: b}` (levels `{0: 1, 2: 1}`),
`u` = TRUE, `v = a ∧ ¬c`, `qvars = {b}`, existential: the code returns a reference of TRUE -/
theorem imgM3_noninj_run :
    ∃ r c m', imageF none (some [(0, 1), (2, 1)]) [] [] [1] false 10 1 (-3) {} imgM3 =
      (.ok (r, c), m') ∧ ∀ a, den m'.tbl r a = true := imgM3_noninj_run_ctx false

end DD
