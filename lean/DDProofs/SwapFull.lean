/-
  DDProofs.SwapFull — the whole body of `swap`: iteration orders (schedule), node surgery, name
  exchange, rooted collection (DDProofs.GcSched), final level-set assertions.

  `swapBody_spec` : for every schedule the call returns normally (or the model reports that the
  recorded schedule does not fit), the invariant, the name maps and exact counts are kept, exactly
  the two names are exchanged, every reference that exists before and after denotes the same
  function of the variable names, every externally held reference exists afterwards, and the
  result is `(len before, len after)`.
-/
import DDProofs.SwapPre
import DDProofs.GcSched
open Std

namespace DD

/-! ### the final level-set assertions -/

theorem checkOld_ok (m : Mgr) (ok : Nat → Bool) : ∀ (l : List (Nat × Int × Int)) (m1 : Mgr),
    (∀ t ∈ l, ∀ n, m.tbl.node? t.1 = some n → ok n.lvl = true) →
    checkOld m ok l m1 = (.ok (), m1) := by
  intro l
  induction l with
  | nil => intros; rfl
  | cons t rest ih =>
    intro m1 h
    obtain ⟨u, v, w⟩ := t
    unfold checkOld
    cases hn : m.tbl.succ[u]? with
    | none => exact ih m1 (fun t ht => h t (List.mem_cons_of_mem _ ht))
    | some n =>
      simp only
      have : ok n.lvl = true := h (u, v, w) List.mem_cons_self n hn
      rw [this, M.bind_ok (M.assert_true _ _)]
      exact ih m1 (fun t ht => h t (List.mem_cons_of_mem _ ht))

theorem checkFresh_ok (m : Mgr) (y : Nat) : ∀ (l : List Nat) (m1 : Mgr),
    (∀ r ∈ l, ∃ n, m.tbl.node? r = some n ∧ n.lvl = y) → checkFresh m y l m1 = (.ok (), m1) := by
  intro l
  induction l with
  | nil => intros; rfl
  | cons r rest ih =>
    intro m1 h
    obtain ⟨n, hn, hl⟩ := h r List.mem_cons_self
    have hn' : m.tbl.succ[r]? = some n := hn
    unfold checkFresh
    rw [hn', M.bind_ok (M.ofOption_some _ _ _)]
    simp only [hl, decide_true]
    rw [M.bind_ok (M.assert_true _ _)]
    exact ih m1 (fun r hr => h r (List.mem_cons_of_mem _ hr))

/-! ### what the rooted collection of `swap` can remove -/

/-- references of the old table that are not above the lower level -/
def Below (t : Tbl) (x : Nat) (k : Nat) : Prop :=
  ∃ c : Int, t.Mem c ∧ x + 1 ≤ t.levelOf c ∧ c.natAbs = k

/-- in the swapped table, the children of a node that was not above the lower level were below it -/
theorem below_closed {t t' : Tbl} {x : Nat} (hw : WF t) (h : SwapRel t t' x (fun _ => False))
    {p : Nat} {y : Nd} (hp : Below t x p) (hy : t'.node? p = some y) :
    Below t x y.lo.natAbs ∧ Below t x y.hi.natAbs := by
  obtain ⟨c, hc, hl, rfl⟩ := hp
  have h1 : c.natAbs ≠ 1 := by
    intro e
    have := h.fresh
    cases hn : t.node? c.natAbs with
    | none => have := (h.fresh _ y hn hy).1; omega
    | some n => have := hw.ge_two _ _ hn; omega
  rcases hc with hc | hc
  · exact absurd hc h1
  · obtain ⟨n, hn⟩ := Option.isSome_iff_exists.mp hc
    rw [levelOf_node t c n h1 hn] at hl
    have llo := hw.lo_lt _ _ hn
    have lhi := hw.hi_lt _ _ hn
    have key : y.lo = n.lo ∧ y.hi = n.hi := by
      by_cases he : n.lvl = x + 1
      · have := h.up _ n hn he (fun hf => hf)
        rw [this] at hy; cases hy; exact ⟨rfl, rfl⟩
      · have := h.other _ n hn (by omega) he
        rw [this] at hy; cases hy; exact ⟨rfl, rfl⟩
    rw [key.1, key.2]
    exact ⟨⟨n.lo, hw.lo_mem _ _ hn, by omega, rfl⟩, ⟨n.hi, hw.hi_mem _ _ hn, by omega, rfl⟩⟩

/-- everything the rooted collection removes was not above the lower level before the swap -/
theorem dead_below {t t' : Tbl} {x : Nat} {ext : Nat → Nat} {W : Nat → Prop} (hw : WF t)
    (h : SwapRel t t' x (fun _ => False)) (hW : ∀ k, W k → Below t x k) :
    ∀ k, Dead t' ext W k → Below t x k := by
  intro k hd
  induction hd with
  | root hk => exact hW _ hk
  | cascade _ _ hp hch _ ih =>
    have hb := ih _ _ hp hch
    have := below_closed hw h hb hp
    rcases hch with e | e
    · rw [← e]; exact this.1
    · rw [← e]; exact this.2

/-- a node at the lower level of the swapped table was above it (or did not exist) before -/
theorem not_below_of_lower {t t' : Tbl} {x : Nat} (hw : WF t) (h : SwapRel t t' x (fun _ => False))
    {r : Nat} {nr : Nd} (hr : t'.node? r = some nr) (hl : nr.lvl = x + 1) : ¬ Below t x r := by
  rintro ⟨c, hc, hlc, rfl⟩
  rcases h.classify hr (fun hf => hf) with ⟨h0, h2, _⟩ | ⟨n, hn, hcase⟩
  · rcases hc with hc | hc
    · omega
    · rw [h0] at hc; simp at hc
  · have h1 : c.natAbs ≠ 1 := by have := hw.ge_two _ _ hn; omega
    rw [levelOf_node t c n h1 hn] at hlc
    rcases hcase with ⟨_, h2, e⟩ | ⟨_, e⟩ | ⟨h3, _⟩ | ⟨h3, _⟩
    · rw [e] at hl; exact h2 hl
    · rw [e] at hl; simp at hl
    · omega
    · omega

/-- before the rooted collection, a node whose count is 0 is one of the old children of a rebuilt
node (given that no count was 0 when the swap started): the roots passed to the collection
are complete -/
theorem zero_in_garbage {m m6 : Mgr} {ext : Nat → Nat} {x : Nat} {ox oy g xf : List Nat}
    (hI : Inv m) (hR : RefExact m ext) (hz : ∀ k : Nat, m.ref[k]? ≠ some 0)
    (hP : SwapPrePost m x ox oy g xf m6) (hR6 : RefExact m6 ext) {k : Nat}
    (hk : m6.ref[k]? = some 0) : k ∈ g := by
  have hW := hI.wf.toWF
  have hc := hR6.cnt k 0 hk
  have hk1 : k ≠ 1 := by intro e; subst e; simp at hc
  have hi6 : indeg m6.tbl k = 0 := by omega
  have hnode : (m6.tbl.node? k).isSome := by
    rcases (hR6.dom k).mp (by rw [hk]; rfl) with h | h
    · exact absurd h hk1
    · exact h
  obtain ⟨nk, hnk⟩ := Option.isSome_iff_exists.mp hnode
  have hchild : ∀ c nc, m6.tbl.node? c = some nc → (nc.lo.natAbs = k ∨ nc.hi.natAbs = k) → False := by
    intro c nc hc' hch
    rcases hch with e | e
    · have := indeg_pos_of_lo hc'; rw [e] at this; omega
    · have := indeg_pos_of_hi hc'; rw [e] at this; omega
  cases h0 : m.tbl.node? k with
  | none =>
    obtain ⟨c, nc, hc', hch⟩ := hP.freshParent k nk hnk h0
    exact (hchild c nc hc' hch).elim
  | some n0 =>
    have hmem : m.tbl.Mem (k : Int) := Or.inr (by simp [h0])
    have hg := hR.get hmem
    simp only [Int.natAbs_natCast, hk1, if_false, Nat.add_zero] at hg
    have hpos : 0 < indeg m.tbl k := by
      have := hz k
      rw [hg] at this
      have hx0 : ext k = 0 := by omega
      apply Nat.pos_of_ne_zero
      intro e
      apply this
      rw [e, hx0]
    obtain ⟨c, nc, hc', hch⟩ := indeg_pos hpos
    by_cases hd : IsDep m.tbl x c
    · obtain ⟨a, b⟩ := hP.garbageAll c nc hd hc'
      rcases hch with e | e
      · rw [← e]; exact a
      · rw [← e]; exact b
    · exfalso
      have hsame : ∃ nc', m6.tbl.node? c = some nc' ∧ nc'.lo = nc.lo ∧ nc'.hi = nc.hi := by
        by_cases h1 : nc.lvl = x + 1
        · exact ⟨_, hP.rel.up c nc hc' h1 (fun hf => hf), rfl, rfl⟩
        · by_cases h2 : nc.lvl = x
          · have hlo : m.tbl.levelOf nc.lo ≠ x + 1 := fun e => hd ⟨nc, hc', h2, Or.inl e⟩
            have hhi : m.tbl.levelOf nc.hi ≠ x + 1 := fun e => hd ⟨nc, hc', h2, Or.inr e⟩
            exact ⟨_, hP.rel.indep c nc hc' h2 hlo hhi (fun hf => hf), rfl, rfl⟩
          · exact ⟨_, hP.rel.other c nc hc' h2 h1, rfl, rfl⟩
      obtain ⟨nc', hnc', e1, e2⟩ := hsame
      exact hchild c nc' hnc' (by rw [e1, e2]; exact hch)

/-! ### the whole body -/

theorem Inv.setSched {m : Mgr} (h : Inv m) (s : List SchedItem) : Inv { m with sched := s } :=
  ⟨h.wf, h.pred, h.freeGe, h.free, h.refOne, h.refDom, h.cache⟩

/-- what a call of `swap` on the adjacent levels `x`, `x+1` establishes -/
structure SwapPost (m : Mgr) (ext : Nat → Nat) (x : Nat) (r : Nat × Nat) (m' : Mgr) : Prop where
  inv : Inv m'
  order : OrderOK m'.tbl
  refExact : RefExact m' ext
  /-- exactly the two names are exchanged -/
  exch : Exch m m' x
  /-- a reference present before and after denotes the same function of the variable names -/
  denN : ∀ u : Int, m.tbl.Mem u → m'.tbl.Mem u → ∀ a, denN m'.tbl u a = denN m.tbl u a
  /-- externally held references are never collected (and keep their number) -/
  held : ∀ u : Nat, 0 < ext u → m.tbl.Mem (u : Int) ∧ m'.tbl.Mem (u : Int)
  /-- `(oldsize, newsize)` -/
  sizes : r = (m.len, m'.len)
  lastLen : m'.lastLen = m.lastLen
  ctx : m'.ctx = m.ctx
  cacheEmpty : m'.cache = {}
  /-- the declared names are the same -/
  names : ∀ v : String, m'.tbl.vars.contains v = m.tbl.vars.contains v
  /-- no unreferenced node is left behind (if there was none before) -/
  noZero : (∀ k : Nat, m.ref[k]? ≠ some 0) → ∀ k : Nat, m'.ref[k]? ≠ some 0

/-- the swap for FIXED iteration orders of the two levels: always returns normally -/
theorem swapWith_spec (m : Mgr) (ext : Nat → Nat) (s : List SchedItem) (hI : Inv m) (hV : OrderOK m.tbl)
    (hR : RefExact m ext) (hoff : m.ctx = false ∨ m.lastLen = none) (x : Nat) (hx : x + 1 < m.nvars)
    (ox oy : List Nat) (hox : LevelOrder m.tbl x ox) (hoy : LevelOrder m.tbl (x + 1) oy) :
    ∃ r m', swapWith x (x + 1) m.len ox oy { m with sched := s } = (.ok r, m') ∧
      SwapPost m ext x r m' ∧ m'.sched = s := by
  unfold swapWith
  -- the state with the schedule consumed
  have hI1 : Inv { m with sched := s } := hI.setSched s
  have hR1 : RefExact { m with sched := s } ext := hR.congr rfl rfl
  obtain ⟨g, xf, m5, m6, hrun, hex, _, _, _, hP⟩ :=
    swapPre_spec { m with sched := s } hI1 hV hoff x hx ox oy hox hoy
  rw [M.bind_ok hrun]
  simp only
  rw [M.bind_ok hex]
  -- the rooted collection
  have hI6 := hP.inv
  have hR6 := hP.refExact ext hR1
  have hW : WF m.tbl := hI.wf.toWF
  have hroots : ∀ r ∈ gcRoots (some (g.map (fun (k : Nat) => (k : Int)))) m6, (m6.ref[r.natAbs]?).isSome := by
    intro r hr
    simp only [gcRoots, List.mem_map] at hr
    obtain ⟨k, hk, rfl⟩ := hr
    obtain ⟨c, hc, _, hck⟩ := hP.garbage k hk
    have := (hR6.dom c.natAbs).mpr (hP.mem c hc)
    simpa [hck] using this
  obtain ⟨m7, hgc, hG⟩ := collectGarbage_rooted_spec (some (g.map (fun (k : Nat) => (k : Int)))) m6 ext
    hI6 hR6 hroots
  rw [M.bind_ok hgc, M.bind_ok (M.get_eq m7)]
  -- nothing at the lower level is removed
  have hWk : ∀ k, gcStart (some (g.map (fun (k : Nat) => (k : Int)))) m6 k → Below m.tbl x k := by
    rintro k ⟨_, r, hr, rfl⟩
    simp only [gcRoots, List.mem_map] at hr
    obtain ⟨k', hk', rfl⟩ := hr
    obtain ⟨c, hc, hl, hck⟩ := hP.garbage k' hk'
    exact ⟨c, hc, hl, by simpa using hck⟩
  have hdead := dead_below (ext := ext) hW hP.rel hWk
  have hsub := hG.sub.sub
  -- the final assertions
  have hchk : checkNewLevels x (x + 1) (ox.map (trip m.tbl)) (oy.map (trip m.tbl)) xf m7 = (.ok (), m7) := by
    unfold checkNewLevels
    rw [M.bind_ok (M.get_eq m7)]
    rw [M.bind_ok (checkOld_ok m7 _ _ m7 ?_), M.bind_ok (checkFresh_ok m7 (x + 1) xf m7 ?_)]
    · exact checkOld_ok m7 _ _ m7 (by
        intro t ht n hn
        obtain ⟨u, hu, rfl⟩ := List.mem_map.mp ht
        rw [trip_fst] at hn
        obtain ⟨n0, hn0, hl0⟩ := (hoy.mem u).mp hu
        have h6 := hsub _ _ hn
        have := hP.rel.up u n0 hn0 hl0 (fun hf => hf)
        rw [this] at h6; cases h6
        simp)
    · intro r hr
      obtain ⟨nr, hnr, hlr⟩ := hP.fresh r hr
      refine ⟨nr, (hG.nodes r nr).mpr ⟨hnr, fun hd => ?_⟩, hlr⟩
      exact not_below_of_lower hW hP.rel hnr hlr (hdead r hd)
    · intro t ht n hn
      obtain ⟨u, hu, rfl⟩ := List.mem_map.mp ht
      rw [trip_fst] at hn
      obtain ⟨n0, hn0, hl0⟩ := (hox.mem u).mp hu
      have h6 := hsub _ _ hn
      by_cases hd : m.tbl.levelOf n0.lo = x + 1 ∨ m.tbl.levelOf n0.hi = x + 1
      · obtain ⟨p, q, hh, _⟩ := hP.rel.dep u n0 hn0 hl0 hd (fun hf => hf)
        rw [hh] at h6; cases h6; simp
      · have := hP.rel.indep u n0 hn0 hl0 (fun e => hd (Or.inl e)) (fun e => hd (Or.inr e)) (fun hf => hf)
        rw [this] at h6; cases h6; simp
  rw [M.bind_ok hchk]
  -- the postcondition
  have hI7 := hG.inv
  have hv7 : m7.tbl.vars = m6.tbl.vars := hG.sub.vars
  have hl7 : m7.tbl.l2v = m6.tbl.l2v := hG.sub.l2v
  have hn7 : m7.tbl.nvars = m6.tbl.nvars := by show m7.tbl.vars.size = _; rw [hv7]; rfl
  have hO6 := hP.varsOK
  have hnz : (∀ k : Nat, m.ref[k]? ≠ some 0) → ∀ k : Nat, m7.ref[k]? ≠ some 0 := by
    intro hz
    obtain ⟨unused, mf, hrun', hgr, hinv, hmem⟩ :=
      collectGarbage_run (some (g.map (fun (k : Nat) => (k : Int)))) m6 ext hI6.toInvS hR6 hroots
    rw [hgc] at hrun'
    have e7 : m7 = gcFinish mf := by cases hrun'; rfl
    have hcomp : GcComplete m6 unused := by
      intro k hk
      rw [hmem]
      refine ⟨hk, (k : Int), ?_, by simp⟩
      simp only [gcRoots, List.mem_map]
      exact ⟨k, zero_in_garbage hI1 hR1 hz hP hR6 hk, rfl⟩
    have := (hgr.spec hinv).2.2.2 hcomp
    intro k
    rw [e7]
    exact this k
  refine ⟨_, m7, rfl, ⟨hI7, ?_, hG.refExact, ⟨?_, ?_, ?_⟩, ?_, ?_, rfl, ?_, ?_, hG.cacheEmpty,
      (fun v => by rw [hv7]; exact hP.names v), hnz⟩,
    hG.sub.sched.trans hP.sched⟩
  · exact ⟨fun v i => by rw [hv7, hl7]; exact hO6.inv v i, fun v i => by rw [hv7, hn7]; exact hO6.lt v i,
      fun i => by rw [hn7, hl7]; exact hO6.total i⟩
  · intro j; rw [hl7]; exact hP.exch.l2v j
  · exact hn7.trans hP.exch.nvars
  · exact hG.sub.roots.trans hP.exch.roots
  · intro u hu hu7 a
    have h6 : m6.tbl.Mem u := hG.sub.ext.mem hu7
    have e1 : denN m7.tbl u a = denN m6.tbl u a := by
      unfold denN Tbl.lift Tbl.nameOf
      rw [hl7]
      exact den_sub hG.sub hI7.wf.toWF u hu7 _
    rw [e1]
    exact hP.denN u hu a
  · intro u hu
    have h0 : m.tbl.Mem (u : Int) := by simpa [Tbl.Mem] using hR.mem_of_ext_pos hu
    have h7 : m7.tbl.Mem (u : Int) := by simpa [Tbl.Mem] using hG.refExact.mem_of_ext_pos hu
    exact ⟨h0, h7⟩
  · exact hG.sub.lastLen.trans hP.lastLen
  · exact hG.sub.ctx.trans hP.ctx

/-- **`swap` on two adjacent levels, for every schedule**: the call returns normally with `SwapPost`
(the only other outcome is the model's report that the recorded schedule does not fit) -/
theorem swapBody_spec (m : Mgr) (ext : Nat → Nat) (hI : Inv m) (hV : OrderOK m.tbl)
    (hR : RefExact m ext) (hoff : m.ctx = false ∨ m.lastLen = none) (x : Nat) (hx : x + 1 < m.nvars) :
    OkOrSched (fun r m' => SwapPost m ext x r m' ∧ (m.sched = [] → m'.sched = []))
      (swapBody x (x + 1) m) := by
  unfold swapBody
  rw [M.bind_ok (M.get_eq m)]
  refine OkOrSched.bind (takeSwapOrders_spec x (x + 1) m) ?_
  rintro ⟨ox, oy⟩ m1 ⟨⟨s, rfl, hs0⟩, hox, hoy⟩
  obtain ⟨r, m', hrun, hp, hs'⟩ := swapWith_spec m ext s hI hV hR hoff x hx ox oy hox hoy
  simp only
  rw [hrun]
  exact ⟨hp, fun h => by rw [hs']; exact hs0 h⟩

/-- with no recorded schedule (the model then iterates in ascending order) the call cannot fail -/
theorem swapBody_total (m : Mgr) (ext : Nat → Nat) (hI : Inv m) (hV : OrderOK m.tbl)
    (hR : RefExact m ext) (hoff : m.ctx = false ∨ m.lastLen = none) (x : Nat) (hx : x + 1 < m.nvars)
    (hs : m.sched = []) :
    ∃ r m', swapBody x (x + 1) m = (.ok r, m') ∧ SwapPost m ext x r m' ∧ m'.sched = [] := by
  have ht : takeSwapOrders x (x + 1) m = (.ok (nodesAt m.tbl x, nodesAt m.tbl (x + 1)), m) := by
    unfold takeSwapOrders
    simp only [M.bind_eq, M.get_eq, hs, M.pure_eq]
  obtain ⟨r, m', hrun, hp, hs'⟩ := swapWith_spec m ext [] hI hV hR hoff x hx _ _
    (LevelOrder.default m.tbl x) (LevelOrder.default m.tbl (x + 1))
  have hm : ({ m with sched := [] } : Mgr) = m := by rw [← hs]
  rw [hm] at hrun
  refine ⟨r, m', ?_, hp, hs'⟩
  unfold swapBody
  rw [M.bind_ok (M.get_eq m), M.bind_ok ht]
  exact hrun

end DD
