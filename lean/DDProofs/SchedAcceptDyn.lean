/-
  DDProofs.SchedAcceptDyn — acceptance for the DECORATED call: `_try_to_reorder` around a body that
  is natural in the recorded schedule (`SN`, DDProofs.SchedNatural).  For every valid choice of the
  iteration orders of the sifting between the two attempts there is a schedule — empty when no
  reordering is requested, else the record of the orders picked — under which the scheduled model
  of the decorated call does exactly what the choice-driven one (`tryToReorderC`) does, and which
  it consumes exactly.
-/
import DD.DynChoice
import DDProofs.SchedAccept
import DDProofs.SchedNaturalOps
import DDProofs.DynSched
open Std

namespace DD

theorem withCtx_sn {α} {f : M α} (hf : SNc f) : SN (withCtx f) := by
  intro s m
  have key : ∀ m, withCtx f m = ((match f { m with ctx := true } with
      | (.ok a, m1) => (.ok (some a), { m1 with ctx := m.ctx })
      | (.error e, m1) =>
        if e = Err.needsReordering && !m.ctx then (.ok none, { m1 with ctx := m.ctx })
        else (.error e, { m1 with ctx := m.ctx })) : Except Err (Option α) × Mgr) := fun m => rfl
  rw [key (setS s m), key m]
  have h := hf s { m with ctx := true } rfl
  show ((match f (setS s { m with ctx := true }) with
      | (.ok a, m1) => (.ok (some a), { m1 with ctx := m.ctx })
      | (.error e, m1) =>
        if e = Err.needsReordering && !m.ctx then (.ok none, { m1 with ctx := m.ctx })
        else (.error e, { m1 with ctx := m.ctx })) : Except Err (Option α) × Mgr) = _
  rw [h]
  generalize f { m with ctx := true } = r
  obtain ⟨r, m1⟩ := r
  cases r with
  | ok a => rfl
  | error e =>
    simp only
    split <;> rfl

/-- the second attempt of the decorated call, after a sifting that ended in `m3` -/
def retryOut {α} (f : M α) (m3 : Mgr) : Except Err α × Mgr :=
  match withCtx f m3 with
  | (.ok none, m4) => (.error .other, { m4 with lastLen := some (Gen.growthFactor * m3.len) })
  | (.ok (some r), m4) => (.ok r, { m4 with lastLen := some (Gen.growthFactor * m3.len) })
  | (.error e, m4) => (.error e, { m4 with lastLen := some (Gen.growthFactor * m3.len) })

/-- the same for the choice-driven decorator: the record is returned with the result -/
def retryOutC {α} (f : M α) (log : List SchedItem) (m3 : Mgr) : Except Err (α × List SchedItem) × Mgr :=
  match withCtx f m3 with
  | (.ok none, m4) => (.error .other, { m4 with lastLen := some (Gen.growthFactor * m3.len) })
  | (.ok (some r), m4) => (.ok (r, log), { m4 with lastLen := some (Gen.growthFactor * m3.len) })
  | (.error e, m4) => (.error e, { m4 with lastLen := some (Gen.growthFactor * m3.len) })

theorem tryToReorder_aborted {α} (f : M α) (m m1 m3 : Mgr) (h1 : withCtx f m = (.ok none, m1))
    (h2 : reorder none { m1 with lastLen := none } = (.ok (), m3)) :
    tryToReorder f m = retryOut f m3 := by
  unfold tryToReorder
  simp only [bind, M.bind', h1, M.modify]
  rw [h2]
  rfl

theorem tryToReorderC_aborted {α} (c : Choice) (f : M α) (log log' : List SchedItem) (m m1 m3 : Mgr)
    (h1 : withCtx f m = (.ok none, m1))
    (h2 : reorderC c none log { m1 with lastLen := none } = (.ok ((), log'), m3)) :
    tryToReorderC c f log m = retryOutC f log' m3 := by
  unfold tryToReorderC
  simp only [bind, M.bind', h1, M.modify]
  rw [h2]
  rfl

theorem retryOut_setS {α} {f : M α} (hf : SNc f) (s : List SchedItem) (log : List SchedItem) (m3 : Mgr) :
    retryOut f (setS s m3) = (dropLog (retryOutC f log m3).1, setS s (retryOutC f log m3).2) := by
  unfold retryOut retryOutC
  rw [withCtx_sn hf s m3]
  generalize withCtx f m3 = r3
  obtain ⟨r3, m4⟩ := r3
  cases r3 with
  | error e => rfl
  | ok o =>
    cases o with
    | none => rfl
    | some b => rfl

theorem retryOutC_log {α} {f : M α} {log log' : List SchedItem} {m3 : Mgr} {r : α}
    (h : (retryOutC f log m3).1 = .ok (r, log')) : log' = log := by
  unfold retryOutC at h
  generalize withCtx f m3 = r3 at h
  obtain ⟨r3, m4⟩ := r3
  cases r3 with
  | error e => cases h
  | ok o =>
    cases o with
    | none => cases h
    | some b => cases h; rfl

/-- **acceptance for the decorated call.**  `f` is the body; `hfirst`: an aborted first attempt
ends in a state in which sifting may run.  For every valid choice `c` there is a schedule `sch`
(the record of `c`'s answers, if the choice-driven call returned) such that the scheduled model
of the decorated call started with `sch` — followed by any `rest` — ends with the same result in
the same state as the choice-driven call, with exactly `rest` left -/
theorem tryToReorderC_real {α} (ext : Nat → Nat) (c : Choice) (hc : c.Valid) (f : M α) (hf : SNc f)
    (m : Mgr)
    (hfirst : ∀ m1, withCtx f m = (.ok none, m1) →
      ReorderInv ext { m1 with lastLen := none } ∧ 2 ≤ m1.nvars) :
    ∃ sch, (∀ r log', (tryToReorderC c f [] m).1 = .ok (r, log') → log' = sch) ∧
      ∀ rest, tryToReorder f (setS (sch ++ rest) m) =
        (dropLog (tryToReorderC c f [] m).1, setS rest (tryToReorderC c f [] m).2) := by
  have hw := withCtx_sn hf
  generalize hres : withCtx f m = res at hfirst
  obtain ⟨r0, m1⟩ := res
  have hw1 : ∀ s, withCtx f (setS s m) = (r0, setS s m1) := fun s => by rw [hw s m, hres]
  cases r0 with
  | error e =>
    have e1 : tryToReorderC c f [] m = (.error e, m1) := by
      unfold tryToReorderC; rw [M.bind_err hres]
    have e2 : ∀ s, tryToReorder f (setS s m) = (.error e, setS s m1) := fun s => by
      unfold tryToReorder; rw [M.bind_err (hw1 s)]
    rw [e1]
    exact ⟨[], (fun r log' h => by cases h), fun rest => e2 _⟩
  | ok o =>
    cases o with
    | some a =>
      have e1 : tryToReorderC c f [] m = (.ok (a, []), m1) := by
        unfold tryToReorderC; rw [M.bind_ok hres]; rfl
      have e2 : ∀ s, tryToReorder f (setS s m) = (.ok a, setS s m1) := fun s => by
        unfold tryToReorder; rw [M.bind_ok (hw1 s)]; rfl
      rw [e1]
      exact ⟨[], (fun r log' h => by cases h; rfl), fun rest => e2 _⟩
    | none =>
      obtain ⟨hR, h2⟩ := hfirst m1 rfl
      obtain ⟨sch, m3, hrun, _, _, hacc⟩ :=
        applySiftingC_total ext c hc { m1 with lastLen := none } hR h2 []
      have hrun' : reorderC c none [] { m1 with lastLen := none } = (.ok ((), sch), m3) := by
        rw [← List.nil_append sch]; exact hrun
      rw [tryToReorderC_aborted c f [] sch m m1 m3 hres hrun']
      refine ⟨sch, (fun r log' h => retryOutC_log h), fun rest => ?_⟩
      rw [tryToReorder_aborted f _ _ (setS rest m3) (hw1 _) (hacc rest)]
      exact retryOut_setS hf rest sch m3

theorem withCtx_ne_sched {α} {f : M α} (hns : NSc f) (m : Mgr) :
    (withCtx f m).1 ≠ .error .sched := by
  unfold withCtx
  have h := hns { m with ctx := true } rfl
  generalize f { m with ctx := true } = r at h
  obtain ⟨r, m1⟩ := r
  cases r with
  | ok a => exact fun h => by cases h
  | error e =>
    simp only
    split
    · exact fun h => by cases h
    · exact fun h' => h (by cases h'; rfl)

theorem retryOutC_ne_sched {α} {f : M α} (hns : NSc f)
    (log : List SchedItem) (m3 : Mgr) : (retryOutC f log m3).1 ≠ .error .sched := by
  unfold retryOutC
  have h := withCtx_ne_sched hns m3
  generalize withCtx f m3 = r3 at h
  obtain ⟨r3, m4⟩ := r3
  cases r3 with
  | error e => exact fun h' => h (by cases h'; rfl)
  | ok o =>
    cases o with
    | none => exact fun h' => by cases h'
    | some b => exact fun h' => by cases h'

/-- the choice-driven decorated call never ends in the model's schedule error, if the body does not -/
theorem tryToReorderC_ne_sched {α} (ext : Nat → Nat) (c : Choice) (hc : c.Valid) (f : M α)
    (hns : NSc f) (m : Mgr)
    (hfirst : ∀ m1, withCtx f m = (.ok none, m1) →
      ReorderInv ext { m1 with lastLen := none } ∧ 2 ≤ m1.nvars) :
    (tryToReorderC c f [] m).1 ≠ .error .sched := by
  have h0 := withCtx_ne_sched hns m
  generalize hres : withCtx f m = res at hfirst h0
  obtain ⟨r0, m1⟩ := res
  cases r0 with
  | error e =>
    have e1 : tryToReorderC c f [] m = (.error e, m1) := by
      unfold tryToReorderC; rw [M.bind_err hres]
    rw [e1]
    exact fun h' => h0 (by cases h'; rfl)
  | ok o =>
    cases o with
    | some a =>
      have e1 : tryToReorderC c f [] m = (.ok (a, []), m1) := by
        unfold tryToReorderC; rw [M.bind_ok hres]; rfl
      rw [e1]
      exact fun h' => by cases h'
    | none =>
      obtain ⟨hR, h2⟩ := hfirst m1 rfl
      obtain ⟨sch, m3, hrun, _, _, _⟩ :=
        applySiftingC_total ext c hc { m1 with lastLen := none } hR h2 []
      have hrun' : reorderC c none [] { m1 with lastLen := none } = (.ok ((), sch), m3) := by
        rw [← List.nil_append sch]; exact hrun
      rw [tryToReorderC_aborted c f [] sch m m1 m3 hres hrun']
      exact retryOutC_ne_sched hns sch m3

/-- between two decorated calls (`DynInvS`), an aborted first attempt of a body that keeps the
invariant (`TotE`, the hypothesis of `tryToReorder_total_dynS`) ends where sifting may run -/
theorem first_attempt_aborted {α} (ext : Nat → Nat) (f : M α)
    (hbody : ∀ m0 : Mgr, Inv m0 → m0.ctx = true → OrderOK m0.tbl → TotE m0 (f m0))
    (m : Mgr) (hD : DynInvS ext m) (m1 : Mgr) (h : withCtx f m = (.ok none, m1)) :
    ReorderInv ext { m1 with lastLen := none } ∧ 2 ≤ m1.nvars := by
  have hT := hbody { m with ctx := true } (hD.inv.setCtx true) rfl hD.order
  unfold withCtx at h
  generalize f { m with ctx := true } = r at h hT
  obtain ⟨r, m1'⟩ := r
  cases r with
  | ok a => cases h
  | error e =>
    simp only at h
    split at h
    · cases h
      have hs2 : StepK m { m1' with ctx := m.ctx } := hT.1.ofCtx true
      have hD2 : DynInvS ext { m1' with ctx := m.ctx, lastLen := none } := (hD.step hs2).setLastLen none
      exact ⟨hD2.reorderInv, hD2.nvars⟩
    · cases h

/-- **the decorated call accepts every choice.**  Body `f` natural in the schedule inside a context (`SNc`), never
answering `.sched` itself, keeping the invariant (`TotE`); state between two decorated calls
(`DynInvS`: at least two variables).  For every valid choice `c` there is a schedule `sch` such
that the decorated call under `sch ++ rest` does what the choice-driven call does, leaves `rest`,
and does not end in the schedule error. -/
theorem tryToReorder_accepts {α} (ext : Nat → Nat) (c : Choice) (hc : c.Valid) (f : M α) (hf : SNc f)
    (hns : NSc f)
    (hbody : ∀ m0 : Mgr, Inv m0 → m0.ctx = true → OrderOK m0.tbl → TotE m0 (f m0))
    (m : Mgr) (hD : DynInvS ext m) :
    ∃ sch, (∀ r log', (tryToReorderC c f [] m).1 = .ok (r, log') → log' = sch) ∧
      (∀ rest, tryToReorder f (setS (sch ++ rest) m) =
        (dropLog (tryToReorderC c f [] m).1, setS rest (tryToReorderC c f [] m).2)) ∧
      ∀ rest, (tryToReorder f (setS (sch ++ rest) m)).1 ≠ .error .sched := by
  have hfirst := first_attempt_aborted ext f hbody m hD
  obtain ⟨sch, h1, h2⟩ := tryToReorderC_real ext c hc f hf m hfirst
  refine ⟨sch, h1, h2, fun rest => ?_⟩
  rw [h2 rest]
  have := tryToReorderC_ne_sched ext c hc f hns m hfirst
  generalize (tryToReorderC c f [] m).1 = a at this
  cases a with
  | ok p => exact fun h => by cases h
  | error e => exact fun h => this (by cases h; rfl)

end DD
