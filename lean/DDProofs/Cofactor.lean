/-
  DDProofs.Cofactor — specification of `_cofactor` (restriction of variables to constants):
  the result denotes the operand under the overridden assignment.
-/
import DDProofs.Agree
open Std

namespace DD

/-- the assignment `a` with the levels of `values` overridden (first entry of a level wins) -/
def ovr (values : List (Nat × Bool)) (a : Asg) : Asg := fun i =>
  match values.lookup i with
  | some b => b
  | none => a i

/-- what `_cofactor` returns for `u` (also: what its memo may contain) -/
structure CofEntry (values : List (Nat × Bool)) (t : Tbl) (u r : Int) : Prop where
  mu : t.Mem u
  mr : t.Mem r
  lvl : t.levelOf u ≤ t.levelOf r
  den : ∀ a, den t r a = den t u (ovr values a)

def CofMemo (values : List (Nat × Bool)) (t : Tbl) (c : HashMap Int Int) : Prop :=
  ∀ u r, c[u]? = some r → CofEntry values t u r

theorem CofEntry.ext {values : List (Nat × Bool)} {m t : Tbl} (hw : WF m) (he : Ext m t)
    {u r : Int} (h : CofEntry values m u r) : CofEntry values t u r := by
  refine ⟨he.mem h.mu, he.mem h.mr, ?_, ?_⟩
  · rw [he.levelOf h.mu, he.levelOf h.mr]; exact h.lvl
  · intro a
    rw [den_ext he hw r a h.mr, den_ext he hw u _ h.mu]; exact h.den a

theorem CofMemo.ext {values : List (Nat × Bool)} {m t : Tbl} (hw : WF m) (he : Ext m t)
    {c : HashMap Int Int} (h : CofMemo values m c) : CofMemo values t c :=
  fun u r hc => (h u r hc).ext hw he

theorem CofMemo.empty (values : List (Nat × Bool)) (t : Tbl) : CofMemo values t {} := by
  intro u r h
  simp at h

theorem CofMemo.insert {values : List (Nat × Bool)} {t : Tbl} {c : HashMap Int Int}
    (h : CofMemo values t c) {u r : Int} (he : CofEntry values t u r) :
    CofMemo values t (c.insert u r) := by
  intro u' r' hc
  rw [HashMap.getElem?_insert] at hc
  split at hc
  · next heq =>
    have : u = u' := by simpa using heq
    subst this
    cases hc
    exact he
  · exact h u' r' hc

theorem mem_dropWhile_of_not {α} (p : α → Bool) (a : α) :
    ∀ l : List α, a ∈ l → p a = false → a ∈ l.dropWhile p := by
  intro l
  induction l with
  | nil => intro h; cases h
  | cons b l ih =>
    intro h hp
    rw [List.dropWhile_cons]
    split
    · next hb =>
      rcases List.mem_cons.mp h with h | h
      · subst h; rw [hp] at hb; cases hb
      · exact ih h hp
    · exact h

/-- the terminal under any override -/
theorem den_term_any (t : Tbl) (u : Int) (h1 : u.natAbs = 1) (a b : Asg) :
    den t u a = den t u b := by
  rcases abs_one h1 with h | h <;> subst h
  · simp [den_one]
  · exact (den_neg_one t _).trans (den_neg_one t _).symm

/-- `_cofactor`: with reordering not enabled the recursion is total, only adds nodes, keeps
its memo sound and returns a reference that denotes the operand under the overridden
assignment (and whose level is not above the operand's). -/
theorem cofactorF_spec (values : List (Nat × Bool)) :
    ∀ (f : Nat) (m : Mgr) (u : Int) (ordvar : List Nat) (cache : HashMap Int Int),
    Inv m → m.lastLen = none → m.tbl.Mem u → CofMemo values m.tbl cache →
    (∀ j, (values.lookup j).isSome = true → m.tbl.levelOf u ≤ j → j ∈ ordvar) →
    m.nvars + 1 ≤ f + m.tbl.levelOf u →
    ∃ r c' m', cofactorF values f u ordvar cache m = (.ok (r, c'), m') ∧ Step m m' ∧
      CofMemo values m'.tbl c' ∧ CofEntry values m'.tbl u r := by
  intro f
  induction f with
  | zero =>
    intro m u ordvar cache hI _ hu _ _ hf
    have := levelOf_le m.tbl hI.wf.toWF u
    have : m.nvars = m.tbl.nvars := rfl
    omega
  | succ f ih =>
    intro m u ordvar cache hI hoff hu hmemo hord hf
    have hW := hI.wf.toWF
    unfold cofactorF
    by_cases h1 : u.natAbs = 1
    · simp only [h1, if_true]
      exact ⟨u, cache, m, rfl, Step.refl hI, hmemo, hu, hu, Nat.le_refl _,
        fun a => den_term_any _ u h1 _ _⟩
    · simp only [h1, if_false]
      cases hc : cache[u]? with
      | some r => exact ⟨r, cache, m, rfl, Step.refl hI, hmemo, hmemo u r hc⟩
      | none =>
        simp only
        obtain ⟨n, hn⟩ := mem_node hu h1
        have hn' : m.tbl.succ[u.natAbs]? = some n := hn
        rw [hn']
        simp only [node_succ_ne_zero hW hn, if_false]
        have hlu := levelOf_node m.tbl u n h1 hn
        have hlo := hW.lo_lt _ _ hn
        have hhi := hW.hi_lt _ _ hn
        have hltn := hW.lvl_lt _ _ hn
        have hnv : m.nvars = m.tbl.nvars := rfl
        -- the skipped prefix only holds levels above the node
        have hord' : ∀ j, (values.lookup j).isSome = true → n.lvl ≤ j →
            j ∈ ordvar.dropWhile (· < n.lvl) := by
          intro j hj hle
          exact mem_dropWhile_of_not _ j ordvar (hord j hj (by omega)) (by simpa using hle)
        generalize ordvar.dropWhile (· < n.lvl) = ov at hord' ⊢
        by_cases hemp : ov.isEmpty = true
        · -- valuation exhausted: nothing to override from here on
          simp only [hemp, if_true]
          refine ⟨u, cache, m, rfl, Step.refl hI, hmemo, hu, hu, Nat.le_refl _, ?_⟩
          intro a
          apply den_agree_ge m.tbl hW u hu
          intro i hi _
          simp only [ovr]
          cases hl : values.lookup i with
          | none => rfl
          | some b =>
            exfalso
            have := hord' i (by simp [hl]) (by omega)
            rw [List.isEmpty_iff.mp hemp] at this
            cases this
        · simp only [hemp, Bool.false_eq_true, if_false]
          cases hl : values.lookup n.lvl with
          | some val =>
            simp only
            -- restrict this level: continue in the chosen successor
            have hcm : m.tbl.Mem (if val then n.hi else n.lo) := by
              cases val
              · exact hW.lo_mem _ _ hn
              · exact hW.hi_mem _ _ hn
            have hcl : n.lvl < m.tbl.levelOf (if val then n.hi else n.lo) := by
              cases val
              · exact hlo
              · exact hhi
            obtain ⟨r0, c1, m1, he1, hs1, hm1, hp1⟩ := ih m (if val then n.hi else n.lo) ov cache
              hI hoff hcm hmemo (fun j hj hle => hord' j hj (by omega)) (by omega)
            rw [he1]
            simp only
            have hW1 := hs1.inv.wf.toWF
            have hn1 : m1.tbl.node? u.natAbs = some n := hs1.ext.nodes _ _ hn
            have hent : CofEntry values m1.tbl u (if u < 0 then -r0 else r0) := by
              refine ⟨hs1.ext.mem hu, mem_flip u hp1.mr, ?_, ?_⟩
              · rw [levelOf_flip, hs1.ext.levelOf hu, hlu]
                have := hp1.lvl
                rw [hs1.ext.levelOf hcm] at this
                omega
              · intro a
                rw [den_flip m1.tbl hW1 r0 u a hp1.mr, hp1.den a,
                  den_node m1.tbl hW1 u n _ h1 hn1]
                have : ovr values a n.lvl = val := by simp [ovr, hl]
                rw [this]
                cases val <;> rfl
            exact ⟨_, _, m1, rfl, hs1, hm1.insert hent, hent⟩
          | none =>
            simp only
            obtain ⟨p, c1, m1, he1, hs1, hm1, hp1⟩ := ih m n.lo ov cache
              hI hoff (hW.lo_mem _ _ hn) hmemo (fun j hj hle => hord' j hj (by omega)) (by omega)
            rw [he1]
            simp only
            have hW1 := hs1.inv.wf.toWF
            have hhim1 : m1.tbl.Mem n.hi := hs1.ext.mem (hW.hi_mem _ _ hn)
            have hhil1 : m1.tbl.levelOf n.hi = m.tbl.levelOf n.hi :=
              hs1.ext.levelOf (hW.hi_mem _ _ hn)
            obtain ⟨q, c2, m2, he2, hs2, hm2, hp2⟩ := ih m1 n.hi ov c1
              hs1.inv (hs1.off hoff) hhim1 hm1
              (fun j hj hle => hord' j hj (by omega)) (by rw [hs1.nvars]; omega)
            rw [he2]
            simp only
            have hW2 := hs2.inv.wf.toWF
            have hp1' := hp1.ext hW1 hs2.ext
            have hs12 := hs1.trans hs2
            have hlp : n.lvl < m2.tbl.levelOf p := by
              have := hp1'.lvl
              rw [hs12.ext.levelOf (hW.lo_mem _ _ hn)] at this
              omega
            have hlq : n.lvl < m2.tbl.levelOf q := by
              have := hp2.lvl
              rw [hs12.ext.levelOf (hW.hi_mem _ _ hn)] at this
              omega
            obtain ⟨r3, m3, he3, hp3⟩ := findOrAdd_off m2 hs2.inv (hs12.off hoff) n.lvl p q
              (by rw [hs12.nvars]; exact hltn) hp1'.mr hp2.mr hlp hlq
            rw [he3]
            simp only
            have hs3 := hs12.trans hp3.step
            have hW3 := hp3.inv.wf.toWF
            have hn3 : m3.tbl.node? u.natAbs = some n := hs3.ext.nodes _ _ hn
            have hp1'' := hp1'.ext hW2 hp3.ext
            have hp2'' := hp2.ext hW2 hp3.ext
            have hent : CofEntry values m3.tbl u (if u < 0 then -r3 else r3) := by
              refine ⟨hs3.ext.mem hu, mem_flip u hp3.mem, ?_, ?_⟩
              · rw [levelOf_flip, hs3.ext.levelOf hu, hlu]; exact hp3.lvl
              · intro a
                rw [den_flip m3.tbl hW3 r3 u a hp3.mem, hp3.den a,
                  den_node m3.tbl hW3 u n _ h1 hn3,
                  ← den_ext hp3.ext hW2 q a hp2.mr, ← den_ext hp3.ext hW2 p a hp1'.mr,
                  hp1''.den a, hp2''.den a]
                have : ovr values a n.lvl = a n.lvl := by simp [ovr, hl]
                rw [this]
            exact ⟨_, _, m3, rfl, hs3, ((hm2.ext hW2 hp3.ext).insert hent), hent⟩

end DD
