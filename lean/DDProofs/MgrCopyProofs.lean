/-
  DDProofs.MgrCopyProofs — `copy.copy(bdd)` (`BDD.__copy__`): the copy of a good manager is a good
  manager of its own, with the same nodes, order, counts and ledger, an empty computed table and
  dynamic reordering not enabled.
-/
import DD.MgrCopy
import DDProofs.Reach
open Std

namespace DD

/-- the order check run by the constructor inside `__copy__` passes when the order is a bijection
onto `0 .. n-1` -/
theorem copyValidOrdering_of_orderOK {t : Tbl} (h : OrderOK t) : copyValidOrdering t = true := by
  unfold copyValidOrdering
  simp only [Bool.and_eq_true, List.all_eq_true, List.mem_range, List.contains_eq_mem,
    decide_eq_true_eq, List.mem_map]
  constructor
  · intro i hi
    obtain ⟨v, hv⟩ := h.total i hi
    have hvi : t.vars[v]? = some i := (h.inv v i).mpr hv
    exact ⟨(v, i), TreeMap.mem_toList_iff_getElem?_eq_some.mpr hvi, rfl⟩
  · rintro k ⟨⟨v, i⟩, hm, rfl⟩
    have hvi : t.vars[v]? = some i := TreeMap.mem_toList_iff_getElem?_eq_some.mp hm
    exact h.lt v i hvi

/-- `copy.copy(bdd)` of a manager in a good state: returns normally; the copy has the SAME node
table, variable order, unique table, counts, `_min_free` and roots; its computed table is empty,
reordering is not enabled, no context is open; it is itself in a good state for the same ledger
(every reference the user holds on the original is a valid, equally counted reference of the
copy), and every reference denotes in the copy what it denotes in the original. -/
theorem mgrCopy_spec (m : Mgr) (ext : Nat → Nat) (hI : Inv m) (hO : OrderOK m.tbl)
    (hR : RefExact m ext) :
    ∃ b, mgrCopy m = .ok b ∧ b.tbl = m.tbl ∧ b.pred = m.pred ∧ b.ref = m.ref ∧
      b.minFree = m.minFree ∧ b.roots = m.roots ∧ b.cache.isEmpty = true ∧
      GoodState b ext ∧ ∀ u a, den b.tbl u a = den m.tbl u a := by
  refine ⟨{ tbl := m.tbl, pred := m.pred, ref := m.ref, minFree := m.minFree, roots := m.roots },
    ?_, rfl, rfl, rfl, rfl, rfl, rfl, ?_, fun _ _ => rfl⟩
  · unfold mgrCopy
    rw [copyValidOrdering_of_orderOK hO]
    rfl
  · refine ⟨⟨hI.wf, hI.pred, hI.freeGe, hI.free, hI.refOne, hI.refDom, ?_⟩, hO,
      ⟨hR.dom, hR.cnt, hR.extZero⟩, rfl, rfl⟩
    intro g u v w h
    have : (∅ : TreeMap (List Int) Int)[iteKey g u v]? = some w := h
    simp at this

/-- a manager whose order is not a bijection onto `0 .. n-1` is refused, nothing is created -/
theorem mgrCopy_refuses (m : Mgr) (h : copyValidOrdering m.tbl = false) :
    mgrCopy m = .error .assertion := by
  unfold mgrCopy; simp [h]

end DD
