/-
  DDProofs.AutoProofs — the invariant of the autoref layer and its preservation.

  `RefExact m ext` (DDProofs.RefCount) : the count of every stored node is
                    `indeg + ext (+1 for the terminal)`, `_ref` has no other keys
                    (`ext` = references held from outside the table)
  `AInv off a`    : `Inv a.m`, every live handle points to a stored node,
                    `RefExact a.m (number of live handles on the node)`, and — when
                    `off = true` — dynamic reordering is not enabled (`lastLen = none`).
                    `off = false` is the invariant for every configuration.

  Proved outright: registry bookkeeping (`wrap`, `wrapF`, `drop`), `drop ∘ wrap = id` on
  counts, the operations whose core part is trivial, the discharge of the hypotheses for
  `ite`, `apply` (all aliases that do not quantify), `var`, `collect_garbage`, shutdown
  when reordering is not enabled (DDProofs.AutoCore).
  Conditional on explicit hypotheses about the remaining core operations (`CoreKeeps`).
-/
import DDProofs.AutoLedger
import DDProofs.GcSpec
import DDProofs.DynProofs
import DDProofs.SwapDrivers
open Std

namespace DD

variable {off : Bool}

/-! ### the count equation (`RefExact`) -/

theorem RefExact.extCongr {m : Mgr} {ext ext' : Nat → Nat} (h : RefExact m ext)
    (he : ∀ k, ext k = ext' k) : RefExact m ext' := by
  have : ext = ext' := funext he
  rw [← this]; exact h

/-- every lookup in `_ref` is determined by the count equation -/
theorem RefExact.lookup {m : Mgr} {ext : Nat → Nat} (h : RefExact m ext) (k : Nat) :
    m.ref[k]? = if (k = 1 ∨ (m.tbl.node? k).isSome) then
      some (indeg m.tbl k + ext k + (if k = 1 then 1 else 0)) else none := by
  by_cases hk : k = 1 ∨ (m.tbl.node? k).isSome
  · rw [if_pos hk]
    have : (m.ref[k]?).isSome := (h.dom k).mpr hk
    obtain ⟨c, hc⟩ := Option.isSome_iff_exists.mp this
    rw [hc, h.cnt k c hc]
  · rw [if_neg hk]
    cases hr : m.ref[k]? with
    | none => rfl
    | some c => exact absurd ((h.dom k).mp (by rw [hr]; rfl)) hk

/-! ### the invariant of the autoref layer -/

/-- external references of an `autoref.BDD`: the live `Function`s (the reference that
`_init_terminal` gives to node 1 is accounted for by `RefExact` itself) -/
def hext (a : AMgr) : Nat → Nat := fun k => hcount a.handles k

/-- `off = true` : dynamic reordering is not enabled;  `off = false` : EVERY configuration — it may
be enabled or not, with any number of declared variables (with fewer than two, a reordering
request that fires ends in the `ValueError` of sifting, C07 `sift_single_variable_raises`, in a
state that is good all the same: `tryToReorder_few`) -/
def ModeOK (off : Bool) (m : Mgr) : Prop :=
  off = true → m.lastLen = none

/-- a step that keeps the switch keeps the mode -/
theorem ModeOK.transfer {off : Bool} {m m' : Mgr} (h : ModeOK off m) (hl : m'.lastLen = m.lastLen)
    (_hn : m.nvars ≤ m'.nvars) : ModeOK off m' :=
  fun ho => by rw [hl]; exact h ho

/-- the part of the invariant that speaks about the wrapped manager alone, relative to a
ledger `ext` of references held from outside: the manager invariant, the name maps (C14), exact
counts (C06), between two calls (`ctx = false`), no recorded iteration schedule, no registered
roots (`autoref` never sets `bdd.roots`), and the mode -/
structure AutoMInv (off : Bool) (ext : Nat → Nat) (m : Mgr) : Prop where
  inv : Inv m
  order : OrderOK m.tbl
  counts : RefExact m ext
  ctx : m.ctx = false
  sched : m.sched = []
  roots : m.roots = []
  mode : ModeOK off m

/-- a change of `_ref` alone -/
theorem AutoMInv.setRef {ext ext' : Nat → Nat} {m : Mgr} (h : AutoMInv off ext m) (ref' : TreeMap Nat Nat)
    (hi : Inv { m with ref := ref' }) (hr : RefExact { m with ref := ref' } ext') :
    AutoMInv off ext' { m with ref := ref' } :=
  ⟨hi, h.order, hr, h.ctx, h.sched, h.roots, h.mode⟩

theorem AutoMInv.extCongr {ext ext' : Nat → Nat} {m : Mgr} (h : AutoMInv off ext m)
    (he : ∀ k, ext k = ext' k) : AutoMInv off ext' m :=
  ⟨h.inv, h.order, h.counts.extCongr he, h.ctx, h.sched, h.roots, h.mode⟩

theorem AutoMInv.reorderInv {ext : Nat → Nat} {m : Mgr} (h : AutoMInv off ext m) : ReorderInv ext m :=
  ⟨h.inv, h.order, h.counts, Or.inl h.ctx, fun r hr => by rw [h.roots] at hr; cases hr⟩

structure AInv (off : Bool) (a : AMgr) : Prop where
  minv : AutoMInv off (hext a) a.m
  hmem : ∀ (h : Nat) (u : Int), a.handles[h]? = some u → a.m.tbl.Mem u

theorem AInv.inv {a : AMgr} (h : AInv off a) : Inv a.m := h.minv.inv
theorem AInv.order {a : AMgr} (h : AInv off a) : OrderOK a.m.tbl := h.minv.order
theorem AInv.counts {a : AMgr} (h : AInv off a) : RefExact a.m (hext a) := h.minv.counts
theorem AInv.mode {a : AMgr} (h : AInv off a) : ModeOK off a.m := h.minv.mode

/-- a state of the mode "not enabled" is a state of the mode "every configuration" -/
theorem AInv.toDyn {a : AMgr} (h : AInv true a) : AInv false a :=
  ⟨⟨h.minv.inv, h.minv.order, h.minv.counts, h.minv.ctx, h.minv.sched, h.minv.roots,
    fun hf => Bool.noConfusion hf⟩, h.hmem⟩

theorem hext_pos_of_handle (a : AMgr) (h : Nat) (u : Int) (hh : a.handles[h]? = some u) :
    0 < hext a u.natAbs := hcount_pos_of_handle a.handles h u hh

/-- the value theorems of the mode `off = false` are stated for at least two declared variables
(with fewer, a reordering request that fires ends in the `ValueError` of sifting — the call is then
covered by the every-outcome theorems `C08_ops_dyn_total`, not by a theorem about its value) -/
def Two (off : Bool) (a : AMgr) : Prop := off = false → 2 ≤ a.m.nvars

theorem Two.of_tbl {off : Bool} {a b : AMgr} (h : Two off a) (ht : b.m.tbl = a.m.tbl) : Two off b := by
  intro ho
  show 2 ≤ b.m.tbl.nvars
  rw [ht]; exact h ho

/-- `Function(u, bdd)` with a fresh handle id on a stored node -/
theorem wrapF_spec (a : AMgr) (h : Nat) (u : Int) (hi : AInv off a)
    (hf : a.handles.contains h = false) (hu : a.m.tbl.Mem u) :
    ∃ a', wrapF h u a = (.ok (), a') ∧ AInv off a' ∧ a'.m.tbl = a.m.tbl ∧
      a'.handles = a.handles.insert h u ∧ a'.foreign = a.foreign := by
  obtain ⟨c, _, he, hre⟩ := DD.incref_spec a.m (hext a) u hi.counts hu
  have hinv : Inv { a.m with ref := a.m.ref.insert u.natAbs (c + 1) } := by
    have := (incref_kept a.m hi.inv u).inv
    rw [he] at this; exact this
  refine ⟨{ a with m := { a.m with ref := a.m.ref.insert u.natAbs (c + 1) },
                   handles := a.handles.insert h u }, ?_, ⟨hi.minv.setRef _ hinv ?_, ?_⟩, rfl, rfl, rfl⟩
  · unfold wrapF
    rw [(Mgr.mem_iff a.m u).mpr hu, he]
    rfl
  rotate_left
  · intro j v hj
    show a.m.tbl.Mem v
    by_cases hjh : j = h
    · subst hjh
      have hj' : (a.handles.insert j u)[j]? = some v := hj
      rw [TreeMap.getElem?_insert_self] at hj'
      cases hj'; exact hu
    · have hj' : (a.handles.insert h u)[j]? = some v := hj
      rw [getElem?_insert_ne _ _ _ _ hjh] at hj'
      exact hi.hmem j v hj'
  · refine hre.extCongr (fun k => ?_)
    show extInc (hext a) u.natAbs k = hcount (a.handles.insert h u) k
    rw [hcount_insert _ _ _ _ hf]
    unfold extInc hext
    by_cases hk : k = u.natAbs
    · subst hk; simp
    · have : ¬ u.natAbs = k := fun e => hk e.symm
      simp [hk, this]

/-- `BDD._wrap(u)` -/
theorem wrap_spec (a : AMgr) (h : Nat) (u : Int) (hi : AInv off a)
    (hf : a.handles.contains h = false) (hu : a.m.tbl.Mem u) :
    ∃ a', wrap h u a = (.ok (), a') ∧ AInv off a' ∧ a'.m.tbl = a.m.tbl ∧
      a'.handles = a.handles.insert h u ∧ a'.foreign = a.foreign := by
  obtain ⟨a', he, r⟩ := wrapF_spec a h u hi hf hu
  refine ⟨a', ?_, r⟩
  unfold wrap
  rw [(Mgr.mem_iff a.m u).mpr hu]
  exact he

/-- `Function.__del__` of a live handle -/
theorem drop_spec (a : AMgr) (h : Nat) (u : Int) (hi : AInv off a) (hh : a.handles[h]? = some u) :
    ∃ a', drop h a = (.ok (), a') ∧ AInv off a' ∧ a'.m.tbl = a.m.tbl ∧
      a'.handles = a.handles.erase h ∧ a'.foreign = a.foreign := by
  have hu := hi.hmem h u hh
  obtain ⟨c, _, he, hre⟩ := DD.decref_spec a.m (hext a) u hi.counts (hext_pos_of_handle a h u hh)
  have hinv : Inv { a.m with ref := a.m.ref.insert u.natAbs c } := by
    have := (decref_kept a.m hi.inv u).inv
    rw [he] at this; exact this
  refine ⟨{ a with m := { a.m with ref := a.m.ref.insert u.natAbs c }, handles := a.handles.erase h },
    ?_, ⟨hi.minv.setRef _ hinv ?_, ?_⟩, rfl, rfl, rfl⟩
  · unfold drop
    rw [hh]
    simp only [he]
  rotate_left
  · intro j v hj
    show a.m.tbl.Mem v
    by_cases hjh : j = h
    · subst hjh
      have hj' : (a.handles.erase j)[j]? = some v := hj
      rw [TreeMap.getElem?_erase_self] at hj'
      cases hj'
    · have hj' : (a.handles.erase h)[j]? = some v := hj
      rw [getElem?_erase_ne _ _ _ hjh] at hj'
      exact hi.hmem j v hj'
  · refine hre.extCongr (fun k => ?_)
    show extDec (hext a) u.natAbs k = hcount (a.handles.erase h) k
    have := hcount_erase a.handles h u k hh
    unfold extDec hext
    by_cases hk : k = u.natAbs
    · subst hk; simp at this ⊢; omega
    · have hk' : ¬ u.natAbs = k := fun e => hk e.symm
      simp [hk, hk'] at this ⊢; omega

/-- two states with the same table and the same live handles have the same counts -/
theorem AInv.ref_eq {a b : AMgr} (ha : AInv off a) (hb : AInv off b) (ht : b.m.tbl = a.m.tbl)
    (hh : ∀ j : Nat, b.handles[j]? = a.handles[j]?) : ∀ k : Nat, b.m.ref[k]? = a.m.ref[k]? := by
  intro k
  rw [hb.counts.lookup k, ha.counts.lookup k, ht]
  have : hext b k = hext a k := by
    unfold hext hcount
    rw [msum_congr a.handles b.handles _ hh]
  rw [this]

/-- creating a `Function` and dropping it again leaves every count (and the table) as it was -/
theorem drop_wrap_id (a : AMgr) (h : Nat) (u : Int) (hi : AInv off a)
    (hf : a.handles.contains h = false) (hu : a.m.tbl.Mem u) :
    ∃ a1 a2, wrap h u a = (.ok (), a1) ∧ drop h a1 = (.ok (), a2) ∧ AInv off a2 ∧
      a2.m.tbl = a.m.tbl ∧ (∀ k : Nat, a2.m.ref[k]? = a.m.ref[k]?) ∧
      (∀ j : Nat, a2.handles[j]? = a.handles[j]?) := by
  obtain ⟨a1, h1, i1, t1, hh1, _⟩ := wrap_spec a h u hi hf hu
  have hl : a1.handles[h]? = some u := by rw [hh1, TreeMap.getElem?_insert_self]
  obtain ⟨a2, h2, i2, t2, hh2, _⟩ := drop_spec a1 h u i1 hl
  have hsame : ∀ j : Nat, a2.handles[j]? = a.handles[j]? := by
    intro j
    rw [hh2, hh1]
    by_cases hj : j = h
    · subst hj
      rw [TreeMap.getElem?_erase_self, TreeMap.getElem?_eq_none_of_contains_eq_false hf]
    · rw [getElem?_erase_ne _ _ _ hj, getElem?_insert_ne _ _ _ _ hj]
  exact ⟨a1, a2, h1, h2, i2, t2.trans t1, AInv.ref_eq hi i2 (t2.trans t1) hsame, hsame⟩

/-! ### hypotheses about core operations -/

/-- nodes that are referenced from outside stay, with the same meaning by variable name -/
def HeldExt (t t' : Tbl) (ext : Nat → Nat) : Prop :=
  ∀ u : Int, t.Mem u → 0 < ext u.natAbs → t'.Mem u ∧ ∀ σ : AsgN, denN t' u σ = denN t u σ

theorem HeldExt.refl (t : Tbl) (ext : Nat → Nat) : HeldExt t t ext := fun _ hu _ => ⟨hu, fun _ => rfl⟩

/-- what the autoref layer needs from a core operation in ONE start state, whatever the
outcome (a result or an exception): the manager invariant and the count equation relative
to the *same* external references are kept, externally referenced nodes survive with their
meaning, and (mode `off = true`) reordering stays disabled -/
def CoreKeepsAt (off : Bool) (m : Mgr) (op : M α) : Prop :=
  ∀ (ext : Nat → Nat), AutoMInv off ext m → ∀ r m', op m = (r, m') →
    AutoMInv off ext m' ∧ HeldExt m.tbl m'.tbl ext

/-- … in every start state -/
structure CoreKeeps (off : Bool) (op : M α) : Prop where
  keeps : ∀ m : Mgr, CoreKeepsAt off m op

theorem CoreKeeps.at {op : M α} (h : CoreKeeps off op) (m : Mgr) : CoreKeepsAt off m op := h.keeps m

/-- an operation that does not touch the state -/
def MRead (x : M α) : Prop := ∀ m, (x m).2 = m

theorem CoreKeeps.of_read {x : M α} (h : MRead x) : CoreKeeps off x := by
  refine ⟨fun m ext hm r m' he => ?_⟩
  have : m' = m := by have := h m; rw [he] at this; exact this
  subst this
  exact ⟨hm, HeldExt.refl _ _⟩

/-! ### operations of the autoref layer -/

/-- the guarantee of an autoref operation that creates at most the handle `h`: the
invariant is kept, no other handle is touched, every `Function` that was alive keeps its
node and its meaning (whether the operation returns or raises) -/
def AKeeps (off : Bool) (h : Nat) (x : AM α) : Prop :=
  ∀ a, AInv off a → a.handles.contains h = false → ∀ r a', x a = (r, a') →
    AInv off a' ∧ (∀ j : Nat, j ≠ h → a'.handles[j]? = a.handles[j]?) ∧
    (∀ (j : Nat) (u : Int), a.handles[j]? = some u →
      a'.m.tbl.Mem u ∧ ∀ asg, denN a'.m.tbl u asg = denN a.m.tbl u asg)

/-- the guarantee for one start state -/
def AKeepsAt (off : Bool) (a : AMgr) (h : Nat) (x : AM α) : Prop :=
  AInv off a → a.handles.contains h = false → ∀ r a', x a = (r, a') →
    AInv off a' ∧ (∀ j : Nat, j ≠ h → a'.handles[j]? = a.handles[j]?) ∧
    (∀ (j : Nat) (u : Int), a.handles[j]? = some u →
      a'.m.tbl.Mem u ∧ ∀ asg, denN a'.m.tbl u asg = denN a.m.tbl u asg)

/-- the same for an operation that creates at most the handles in the list `H` (`BDD.succ`
creates two; comparisons create none) -/
def AKeepsL (off : Bool) (H : List Nat) (x : AM α) : Prop :=
  ∀ a, AInv off a → (∀ h, h ∈ H → a.handles.contains h = false) → ∀ r a', x a = (r, a') →
    AInv off a' ∧ (∀ j : Nat, j ∉ H → a'.handles[j]? = a.handles[j]?) ∧
    (∀ (j : Nat) (u : Int), a.handles[j]? = some u →
      a'.m.tbl.Mem u ∧ ∀ asg, denN a'.m.tbl u asg = denN a.m.tbl u asg)

/-- … for one start state -/
def AKeepsLAt (off : Bool) (a : AMgr) (H : List Nat) (x : AM α) : Prop :=
  AInv off a → (∀ h, h ∈ H → a.handles.contains h = false) → ∀ r a', x a = (r, a') →
    AInv off a' ∧ (∀ j : Nat, j ∉ H → a'.handles[j]? = a.handles[j]?) ∧
    (∀ (j : Nat) (u : Int), a.handles[j]? = some u →
      a'.m.tbl.Mem u ∧ ∀ asg, denN a'.m.tbl u asg = denN a.m.tbl u asg)

theorem AKeepsL.at {x : AM α} {H : List Nat} (hk : AKeepsL off H x) (a : AMgr) : AKeepsLAt off a H x :=
  hk a

theorem AKeepsAt.toL {x : AM α} {h : Nat} {a : AMgr} (hk : AKeepsAt off a h x) :
    AKeepsLAt off a [h] x := by
  intro hi hf r a' he
  obtain ⟨i, s, d⟩ := hk hi (hf h List.mem_cons_self) r a' he
  exact ⟨i, fun j hj => s j (fun e => hj (e ▸ List.mem_cons_self)), d⟩

theorem AKeeps.toL {x : AM α} {h : Nat} (hk : AKeeps off h x) : AKeepsL off [h] x := by
  intro a hi hf r a' he
  obtain ⟨i, s, d⟩ := hk a hi (hf h List.mem_cons_self) r a' he
  exact ⟨i, fun j hj => s j (fun e => hj (e ▸ List.mem_cons_self)), d⟩

/-- an autoref-level read -/
def ARead (x : AM α) : Prop := ∀ a, (x a).2 = a

theorem AKeeps.of_read {x : AM α} (h : Nat) (hx : ARead x) : AKeeps off h x := by
  intro a hi _ r a' he
  have : a' = a := by have := hx a; rw [he] at this; exact this
  subst this
  exact ⟨hi, fun _ _ => rfl, fun j u hj => ⟨hi.hmem j u hj, fun _ => rfl⟩⟩

theorem AKeeps.bind_read {x : AM α} {f : α → AM β} {h : Nat} (hx : ARead x)
    (hf : ∀ v, AKeeps off h (f v)) : AKeeps off h (x >>= f) := by
  intro a hi hfr r a' he
  have h2 := hx a
  change AM.bind' x f a = (r, a') at he
  unfold AM.bind' at he
  cases hxa : x a with
  | mk r0 a1 =>
    rw [hxa] at he h2
    simp only at h2
    subst h2
    cases r0 with
    | error e =>
      simp only at he
      cases he
      exact ⟨hi, fun _ _ => rfl, fun j u hj => ⟨hi.hmem j u hj, fun _ => rfl⟩⟩
    | ok v =>
      simp only at he
      exact hf v a1 hi hfr r a' he

/-- the state after a core operation that satisfies `CoreKeeps` -/
theorem AInv.after_core {a : AMgr} (hi : AInv off a) {m' : Mgr} (h1 : AutoMInv off (hext a) m')
    (h3 : HeldExt a.m.tbl m'.tbl (hext a)) :
    AInv off { a with m := m' } ∧
    (∀ (j : Nat) (u : Int), a.handles[j]? = some u →
      m'.tbl.Mem u ∧ ∀ asg, denN m'.tbl u asg = denN a.m.tbl u asg) := by
  have hd : ∀ (j : Nat) (u : Int), a.handles[j]? = some u →
      m'.tbl.Mem u ∧ ∀ asg, denN m'.tbl u asg = denN a.m.tbl u asg :=
    fun j u hj => h3 u (hi.hmem j u hj) (hext_pos_of_handle a j u hj)
  exact ⟨⟨h1, fun j u hj => (hd j u hj).1⟩, hd⟩

/-- a core operation without a node result (`collect_garbage`, `reorder`, `configure`, …) -/
theorem liftM_keepsAt {op : M α} (a : AMgr) (hs : CoreKeepsAt off a.m op) (h : Nat) :
    AKeepsAt off a h (AM.liftM op) := by
  intro hi _ r a' he
  unfold AM.liftM at he
  cases hop : op a.m with
  | mk r0 m' =>
    rw [hop] at he
    simp only at he
    cases he
    obtain ⟨h1, h3⟩ := hs (hext a) hi.minv r m' hop
    obtain ⟨i', hd⟩ := hi.after_core h1 h3
    exact ⟨i', fun _ _ => rfl, hd⟩

theorem liftM_keeps {op : M α} (hs : CoreKeeps off op) (h : Nat) : AKeeps off h (AM.liftM op) :=
  fun a => liftM_keepsAt a (hs.at a.m) h

/-- `_wrap` / `Function(…)` of an arbitrary integer with a fresh id: either the node is stored
and the handle is created, or `ValueError` and nothing changes -/
theorem wrap_total (a : AMgr) (h : Nat) (u : Int) (hi : AInv off a) (hf : a.handles.contains h = false)
    (r : Except Err Unit) (a' : AMgr) (he : wrap h u a = (r, a') ∨ wrapF h u a = (r, a')) :
    AInv off a' ∧ a'.m.tbl = a.m.tbl ∧ (∀ j : Nat, j ≠ h → a'.handles[j]? = a.handles[j]?) ∧
    (r = .ok () → a'.handles[h]? = some u ∧ a.m.tbl.Mem u) := by
  by_cases hu : a.m.tbl.Mem u
  · obtain ⟨a2, hw, i2, t2, hh2, _⟩ := wrap_spec a h u hi hf hu
    obtain ⟨a3, hw3, _⟩ := wrapF_spec a h u hi hf hu
    have : (r, a') = (.ok (), a2) := by
      rcases he with he | he
      · rw [← he, hw]
      · rw [← he, hw3, ← hw]
        unfold wrap
        rw [(Mgr.mem_iff a.m u).mpr hu]
        simp [hw3]
    cases this
    refine ⟨i2, t2, fun j hj => ?_, fun _ => ⟨?_, hu⟩⟩
    · rw [hh2]; exact getElem?_insert_ne _ _ _ _ hj
    · rw [hh2, TreeMap.getElem?_insert_self]
  · have hm : a.m.mem u = false := by
      cases hb : a.m.mem u
      · rfl
      · exact absurd ((Mgr.mem_iff a.m u).mp hb) hu
    have : (r, a') = (.error .value, a) := by
      rcases he with he | he
      · rw [← he]; unfold wrap; simp [hm]
      · rw [← he]; unfold wrapF; simp [hm]
    cases this
    exact ⟨hi, rfl, fun _ _ => rfl, fun h => by cases h⟩

/-- `r = self._bdd.<op>(…); return self._wrap(r)`: only the frame property of the core
operation is needed — `_wrap` itself refuses an integer that is not a stored node -/
theorem wrapResult_keepsAt {core : M Int} (a : AMgr) (hs : CoreKeepsAt off a.m core) (h : Nat) :
    AKeepsAt off a h (wrapResult h core) := by
  intro hi hfr r a' he
  unfold wrapResult at he
  change AM.bind' (AM.liftM core) (fun r => AM.bind' (wrap h r) (fun _ => AM.pure' r)) a = _ at he
  unfold AM.bind' AM.liftM at he
  cases hop : core a.m with
  | mk r0 m' =>
    rw [hop] at he
    obtain ⟨h1, h3⟩ := hs (hext a) hi.minv r0 m' hop
    obtain ⟨i1, hd⟩ := hi.after_core h1 h3
    cases r0 with
    | error e =>
      simp only at he
      cases he
      exact ⟨i1, fun _ _ => rfl, hd⟩
    | ok v =>
      simp only at he
      cases hw : wrap h v { a with m := m' } with
      | mk rw' a2 =>
        rw [hw] at he
        obtain ⟨i2, t2, hfr2, _⟩ := wrap_total { a with m := m' } h v i1 hfr rw' a2 (Or.inl hw)
        have : a' = a2 := by
          cases rw' <;> simp only [AM.pure'] at he <;> cases he <;> rfl
        subst this
        exact ⟨i2, hfr2, fun j u hj => by rw [t2]; exact hd j u hj⟩

theorem wrapResult_keeps {core : M Int} (hs : CoreKeeps off core) (h : Nat) :
    AKeeps off h (wrapResult h core) := fun a => wrapResult_keepsAt a (hs.at a.m) h

/-- `Function(r, bdd)` after a core operation (`Function._apply`) -/
theorem liftM_wrapF_keepsAt {core : M Int} (a : AMgr) (hs : CoreKeepsAt off a.m core) (h : Nat) :
    AKeepsAt off a h (do let r ← AM.liftM core; wrapF h r; return r) := by
  intro hi hfr r a' he
  change AM.bind' (AM.liftM core) (fun r => AM.bind' (wrapF h r) (fun _ => AM.pure' r)) a = _ at he
  unfold AM.bind' AM.liftM at he
  cases hop : core a.m with
  | mk r0 m' =>
    rw [hop] at he
    obtain ⟨h1, h3⟩ := hs (hext a) hi.minv r0 m' hop
    obtain ⟨i1, hd⟩ := hi.after_core h1 h3
    cases r0 with
    | error e =>
      simp only at he
      cases he
      exact ⟨i1, fun _ _ => rfl, hd⟩
    | ok v =>
      simp only at he
      cases hw : wrapF h v { a with m := m' } with
      | mk rw' a2 =>
        rw [hw] at he
        obtain ⟨i2, t2, hfr2, _⟩ := wrap_total { a with m := m' } h v i1 hfr rw' a2 (Or.inr hw)
        have : a' = a2 := by
          cases rw' <;> simp only [AM.pure'] at he <;> cases he <;> rfl
        subst this
        exact ⟨i2, hfr2, fun j u hj => by rw [t2]; exact hd j u hj⟩

theorem liftM_wrapF_keeps {core : M Int} (hs : CoreKeeps off core) (h : Nat) :
    AKeeps off h (do let r ← AM.liftM core; wrapF h r; return r) :=
  fun a => liftM_wrapF_keepsAt a (hs.at a.m) h

/-! ### reads -/

theorem ARead.pure (v : α) : ARead (pure v : AM α) := fun _ => rfl
theorem ARead.throw (e : Err) : ARead (AM.throw e : AM α) := fun _ => rfl
theorem ARead.get : ARead AM.get := fun _ => rfl
theorem ARead.liftE (x : Mgr → Except Err α) : ARead (AM.liftE x) := fun _ => rfl

theorem ARead.bind {x : AM α} {f : α → AM β} (hx : ARead x) (hf : ∀ v, ARead (f v)) :
    ARead (x >>= f) := by
  intro a
  change (AM.bind' x f a).2 = a
  unfold AM.bind'
  have h2 := hx a
  cases hxa : x a with
  | mk r0 a1 =>
    rw [hxa] at h2
    simp only at h2
    subst h2
    cases r0 with
    | error e => rfl
    | ok v => exact hf v a1

theorem ARead.ite {c : Prop} [Decidable c] {x y : AM α} (hx : ARead x) (hy : ARead y) :
    ARead (if c then x else y) := by
  split <;> assumption

theorem ARead.liftM {x : M α} (hx : MRead x) : ARead (AM.liftM x) := by
  intro a
  unfold AM.liftM
  have := hx a.m
  cases hxa : x a.m with
  | mk r m' =>
    rw [hxa] at this
    simp only at this
    subst this
    rfl

theorem nodeAny_read (h : Nat) : ARead (nodeAny h) := by
  intro a; unfold nodeAny; split
  · rfl
  · split <;> rfl

theorem nodeOwn_read (h : Nat) : ARead (nodeOwn h) := by
  intro a; unfold nodeOwn; split <;> rfl

theorem nodeSame_read (h : Nat) : ARead (nodeSame h) := by
  intro a; unfold nodeSame; split
  · rfl
  · split <;> rfl

theorem ARead.check (b : Bool) (e : Err) : ARead (AM.check b e) := by
  intro a; unfold AM.check; split <;> rfl

theorem nodeIn_read (h : Nat) : ARead (nodeIn h) := by
  unfold nodeIn
  apply ARead.bind (nodeSame_read h)
  intro u
  apply ARead.bind ARead.get
  intro a
  apply ARead.bind (ARead.check _ _)
  intro _
  exact ARead.pure _

theorem optNode_read {f : Nat → AM Int} (hf : ∀ h, ARead (f h)) (hv : Option Nat) :
    ARead (optNode f hv) := by
  cases hv with
  | none => exact ARead.pure _
  | some hv => exact ARead.bind (hf hv) fun _ => ARead.pure _

theorem levelOfVar_read (v : String) : MRead (levelOfVar v) := by
  intro m
  unfold levelOfVar
  change (M.bind' M.get _ m).2 = m
  unfold M.bind' M.get M.ofOption
  simp only
  cases m.tbl.vars[v]? <;> rfl

theorem addIntA_read (i : Int) : MRead (addIntA i) := by
  intro m
  unfold addIntA
  change (M.bind' M.get _ m).2 = m
  unfold M.bind' M.get
  simp only
  by_cases h : m.mem i <;> simp [h] <;> rfl

theorem pure_readM (v : α) : MRead (pure v : M α) := fun _ => rfl

/-! ### the methods of `autoref.BDD` and `Function` that create one `Function` -/

theorem aVar_keeps (name : String) (hs : CoreKeeps off (var name)) (h : Nat) :
    AKeeps off h (aVar name h) :=
  wrapResult_keeps hs h

/-- `BDD.true` / `BDD.false` (no hypothesis) -/
theorem aConst_keeps (b : Bool) (h : Nat) : AKeeps off h (aConst b h) :=
  wrapResult_keeps (CoreKeeps.of_read (pure_readM _)) h

theorem aApply_keeps (op : String) (hs : ∀ u v w, CoreKeeps off (apply op u v w))
    (hu : Nat) (hv hw : Option Nat) (h : Nat) :
    AKeeps off h (aApply op hu hv hw h) := by
  unfold aApply
  refine AKeeps.bind_read (nodeIn_read hu) fun u => ?_
  refine AKeeps.bind_read (ARead.check _ _) fun _ => ?_
  refine AKeeps.bind_read (optNode_read nodeIn_read hv) fun v => ?_
  refine AKeeps.bind_read (optNode_read nodeIn_read hw) fun w => ?_
  exact wrapResult_keeps (hs u v w) h

theorem aIte_keeps (hs : ∀ g u v, CoreKeeps off (ite g u v)) (hg hu hv : Nat) (h : Nat) :
    AKeeps off h (aIte hg hu hv h) := by
  unfold aIte
  refine AKeeps.bind_read (nodeIn_read hg) fun g => ?_
  refine AKeeps.bind_read (nodeIn_read hu) fun u => ?_
  refine AKeeps.bind_read (nodeIn_read hv) fun v => ?_
  exact wrapResult_keeps (hs g u v) h

/-- a read followed by an operation, for one start state: the operation is only needed for the
values that the read returns in this state -/
theorem AKeepsAt.bind_read {x : AM α} {f : α → AM β} {h : Nat} (a : AMgr) (hx : ARead x)
    (hf : ∀ v, (x a).1 = .ok v → AKeepsAt off a h (f v)) : AKeepsAt off a h (x >>= f) := by
  intro hi hfr r a' he
  have h2 := hx a
  change AM.bind' x f a = (r, a') at he
  unfold AM.bind' at he
  cases hxa : x a with
  | mk r0 a1 =>
    rw [hxa] at he h2
    simp only at h2
    subst h2
    cases r0 with
    | error e =>
      simp only at he
      cases he
      exact ⟨hi, fun _ _ => rfl, fun j u hj => ⟨hi.hmem j u hj, fun _ => rfl⟩⟩
    | ok v =>
      simp only at he
      exact hf v (by rw [hxa]) hi hfr r a' he

theorem nodeSame_handle (hu : Nat) (a : AMgr) (u : Int) (h : (nodeSame hu a).1 = .ok u) :
    a.handles[hu]? = some u := by
  unfold nodeSame at h
  cases hh : a.handles[hu]? with
  | some v => rw [hh] at h; simp only at h; cases h; rfl
  | none =>
    rw [hh] at h
    simp only at h
    cases hf : a.foreign[hu]? with
    | none => rw [hf] at h; cases h
    | some w => rw [hf] at h; cases h

theorem nodeOwn_handle (hu : Nat) (a : AMgr) (u : Int) (h : (nodeOwn hu a).1 = .ok u) :
    a.handles[hu]? = some u := by
  unfold nodeOwn at h
  cases hh : a.handles[hu]? with
  | some v => rw [hh] at h; simp only at h; cases h; rfl
  | none => rw [hh] at h; simp at h

/-- the operand that passed the `u in self` test is a stored node -/
theorem nodeIn_ok (hu : Nat) (a a' : AMgr) (u : Int) (h : nodeIn hu a = (.ok u, a')) :
    a' = a ∧ a.m.tbl.Mem u := by
  have hr := nodeIn_read hu a
  rw [h] at hr
  simp only at hr
  subst hr
  refine ⟨rfl, ?_⟩
  unfold nodeIn at h
  change AM.bind' (nodeSame hu) _ a' = _ at h
  unfold AM.bind' at h
  have h1 := nodeSame_read hu a'
  cases hx : nodeSame hu a' with
  | mk r1 a1 =>
    rw [hx] at h h1
    simp only at h1
    subst h1
    cases r1 with
    | error e => simp only at h; cases h
    | ok u' =>
      simp only at h
      change AM.bind' AM.get _ a1 = _ at h
      unfold AM.bind' AM.get at h
      simp only at h
      change AM.bind' (AM.check (a1.m.mem u') .value) _ a1 = _ at h
      unfold AM.bind' AM.check at h
      cases hm : a1.m.mem u' with
      | false => rw [hm] at h; simp [AM.throw] at h
      | true =>
        rw [hm] at h
        simp only [if_true, AM.pure'] at h
        change (Except.ok u', a1) = _ at h
        cases h
        exact (Mgr.mem_iff a1.m u).mp hm

/-- `quantify(u, qvars, forall)`: the core hypothesis is only needed for stored operands -/
theorem aQuantify_keeps (q : List Key) (fa : Bool)
    (hs : ∀ (m : Mgr) (u : Int), m.tbl.Mem u → CoreKeepsAt off m (quantify u q fa))
    (hu : Nat) (h : Nat) : AKeeps off h (aQuantify hu q fa h) := by
  intro a hi hfr r a' he
  unfold aQuantify at he
  change AM.bind' (nodeIn hu) _ a = _ at he
  unfold AM.bind' at he
  cases hx : nodeIn hu a with
  | mk r1 a1 =>
    rw [hx] at he
    cases r1 with
    | error e =>
      have h1 := nodeIn_read hu a
      rw [hx] at h1
      simp only at h1 he
      subst h1
      cases he
      exact ⟨hi, fun _ _ => rfl, fun j u hj => ⟨hi.hmem j u hj, fun _ => rfl⟩⟩
    | ok u =>
      obtain ⟨h1, hmem⟩ := nodeIn_ok hu a a1 u hx
      subst h1
      simp only at he
      exact wrapResult_keepsAt a1 (hs a1.m u hmem) h hi hfr r a' he

theorem aCube_keeps (d : List (String × Bool)) (hs : CoreKeeps off (cube d)) (h : Nat) :
    AKeeps off h (aCube d h) :=
  wrapResult_keeps hs h

/-- `_add_int` (no hypothesis): a second `Function` on a stored node -/
theorem aAddInt_keeps (i : Int) (h : Nat) : AKeeps off h (aAddInt i h) :=
  wrapResult_keeps (CoreKeeps.of_read (addIntA_read i)) h

/-- `copy_bdd(u, u.bdd)` (no hypothesis) -/
theorem aCopyBddSame_keeps (hu : Nat) (h : Nat) : AKeeps off h (aCopyBddSame hu h) := by
  unfold aCopyBddSame
  refine AKeeps.bind_read (nodeOwn_read hu) fun u => ?_
  exact wrapResult_keeps (CoreKeeps.of_read (pure_readM _)) h

theorem aImage_keeps (hI : ∀ t s rn q f, CoreKeeps off (image t s rn q f))
    (hP : ∀ t s rn q f, CoreKeeps off (preimage t s rn q f)) (pre : Bool) (ht hs : Nat) (rn : List (Key × Key)) (q : List Key)
    (fa : Bool) (h : Nat) : AKeeps off h (aImage pre ht hs rn q fa h) := by
  unfold aImage
  refine AKeeps.bind_read (nodeOwn_read ht) fun t => ?_
  refine AKeeps.bind_read (nodeSame_read hs) fun s => ?_
  cases pre
  · exact wrapResult_keeps (hI t s rn q fa) h
  · exact wrapResult_keeps (hP t s rn q fa) h

/-- `Function.__invert__ / __and__ / __or__ / implies / equiv` -/
theorem fApply_keeps (op : String) (hsp : ∀ u v, CoreKeeps off (apply op u v none))
    (hs : Nat) (ho : Option Nat) (h : Nat) :
    AKeeps off h (fApply op hs ho h) := by
  unfold fApply
  refine AKeeps.bind_read (nodeOwn_read hs) fun s => ?_
  refine AKeeps.bind_read (optNode_read nodeSame_read ho) fun o => ?_
  exact liftM_wrapF_keeps (hsp s o) h

theorem aCollectGarbage_keeps (hs : CoreKeeps off (collectGarbage none)) (h : Nat) :
    AKeeps off h aCollectGarbage :=
  liftM_keeps hs h

/-- `reorder(order)`: in the states where the core `reorder` is specified (at least two variables
for sifting; a complete order for a given one) -/
theorem aReorder_keepsAt (a : AMgr) (o : Option (List (String × Int)))
    (hs : CoreKeepsAt off a.m (reorder o)) (h : Nat) : AKeepsAt off a h (aReorder o) :=
  liftM_keepsAt a hs h

theorem aDeclare_keeps (ns : List String) (hs : CoreKeeps off (declare ns)) (h : Nat) :
    AKeeps off h (aDeclare ns) :=
  liftM_keeps hs h

/-- `add_var(name, level)`: in the states where the level leaves no gap -/
theorem aAddVar_keepsAt (a : AMgr) (n : String) (l : Option Int)
    (hs : CoreKeepsAt off a.m (addVar n l)) (h : Nat) : AKeepsAt off a h (aAddVar n l) :=
  liftM_keepsAt a hs h

/-- an operation followed by a read -/
theorem AKeeps.then_read {x : AM α} {f : α → AM β} {h : Nat} (hx : AKeeps off h x)
    (hf : ∀ v, ARead (f v)) : AKeeps off h (x >>= f) := by
  intro a hi hfr r a' he
  change AM.bind' x f a = (r, a') at he
  unfold AM.bind' at he
  cases hxa : x a with
  | mk r0 a1 =>
    rw [hxa] at he
    have k := hx a hi hfr r0 a1 hxa
    cases r0 with
    | error e =>
      simp only at he
      cases he
      exact k
    | ok v =>
      simp only at he
      have h2 := hf v a1
      rw [he] at h2
      simp only at h2
      subst h2
      exact k

/-- the same for one start state -/
theorem AKeepsAt.then_read' {x : AM α} {f : α → AM β} {h : Nat} (a : AMgr) (hx : AKeepsAt off a h x)
    (hf : ∀ v, ARead (f v)) : AKeepsAt off a h (x >>= f) := by
  intro hi hfr r a' he
  change AM.bind' x f a = (r, a') at he
  unfold AM.bind' at he
  cases hxa : x a with
  | mk r0 a1 =>
    rw [hxa] at he
    have k := hx hi hfr r0 a1 hxa
    cases r0 with
    | error e =>
      simp only at he
      cases he
      exact k
    | ok v =>
      simp only at he
      have h2 := hf v a1
      rw [he] at h2
      simp only at h2
      subst h2
      exact k

theorem wrapF_keeps (h : Nat) (u : Int) : AKeeps off h (wrapF h u) := by
  intro a hi hfr r a' he
  obtain ⟨i2, t2, hfr2, _⟩ := wrap_total a h u hi hfr r a' (Or.inr he)
  exact ⟨i2, hfr2, fun j v hj => by rw [t2]; exact ⟨hi.hmem j v hj, fun _ => rfl⟩⟩

theorem wrap_keeps (h : Nat) (u : Int) : AKeeps off h (wrap h u) := by
  intro a hi hfr r a' he
  obtain ⟨i2, t2, hfr2, _⟩ := wrap_total a h u hi hfr r a' (Or.inl he)
  exact ⟨i2, hfr2, fun j v hj => by rw [t2]; exact ⟨hi.hmem j v hj, fun _ => rfl⟩⟩

theorem nodesAny_read : ∀ d, ARead (nodesAny d)
  | [] => ARead.pure _
  | (_, hv) :: rest => by
    unfold nodesAny
    exact ARead.bind (nodeAny_read hv) fun _ => ARead.bind (nodesAny_read rest) fun _ => ARead.pure _

theorem aLetArgs_read (d : ALetArg) : ARead (aLetArgs d) := by
  cases d with
  | bools d => exact ARead.pure _
  | names d => exact ARead.pure _
  | funs d => exact ARead.bind (nodesAny_read d) fun _ => ARead.pure _

theorem aLet_keeps (hs : ∀ d u, CoreKeeps off (letOp d u)) (d : ALetArg) (hu : Nat) (h : Nat) :
    AKeeps off h (aLet d hu h) := by
  unfold aLet
  refine AKeeps.bind_read (nodeIn_read hu) fun u => ?_
  split
  · exact AKeeps.of_read h (ARead.pure _)
  · refine AKeeps.bind_read (aLetArgs_read d) fun d' => ?_
    exact (wrapResult_keeps (hs d' u) h).then_read fun _ => ARead.pure _

/-- `Function.low` / `Function.high` (no hypothesis) -/
theorem fChild_keeps (high : Bool) (hs : Nat) (h : Nat) : AKeeps off h (fChild high hs h) := by
  unfold fChild
  refine AKeeps.bind_read (nodeOwn_read hs) fun s => ?_
  refine AKeeps.bind_read (ARead.liftE _) fun p => ?_
  obtain ⟨_, c⟩ := p
  cases c with
  | none => exact AKeeps.of_read h (ARead.pure _)
  | some vw =>
    obtain ⟨v, w⟩ := vw
    exact (wrapF_keeps h _).then_read fun _ => ARead.pure _

/-- `copy.copy(f)` = `Function.__copy__` (no hypothesis): a second `Function` on the same
node with its own reference -/
theorem fCopy_keeps (hs : Nat) (h : Nat) : AKeeps off h (fCopy hs h) := by
  unfold fCopy
  refine AKeeps.bind_read (nodeOwn_read hs) fun s => ?_
  exact (wrapF_keeps h s).then_read fun _ => ARead.pure _

/-- `configure(reordering=…)` only changes the threshold (no hypothesis; in mode `off = true`
the call must not enable reordering) -/
theorem configure_keeps (r : Option Bool) (hr : off = true → r ≠ some true) :
    CoreKeeps off (configure r) := by
  refine ⟨fun m ext hm r' m' he => ?_⟩
  have key : ∀ l, ModeOK off { m with lastLen := l } →
      AutoMInv off ext { m with lastLen := l } ∧ HeldExt m.tbl ({ m with lastLen := l } : Mgr).tbl ext :=
    fun l hl => ⟨⟨⟨hm.inv.wf, hm.inv.pred, hm.inv.freeGe, hm.inv.free, hm.inv.refOne, hm.inv.refDom,
        hm.inv.cache⟩, hm.order, ⟨hm.counts.dom, hm.counts.cnt, hm.counts.extZero⟩, hm.ctx, hm.sched,
        hm.roots, hl⟩, HeldExt.refl _ _⟩
  unfold configure at he
  change M.bind' M.get _ m = _ at he
  unfold M.bind' M.get at he
  simp only at he
  cases r with
  | none =>
    change (Except.ok m.lastLen.isSome, m) = _ at he
    cases he
    exact ⟨hm, HeldExt.refl _ _⟩
  | some b =>
    cases b with
    | true =>
      change (Except.ok m.lastLen.isSome, { m with lastLen := some (max Gen.reorderStarts m.len) }) = _ at he
      cases he
      exact key _ (fun ho => absurd rfl (hr ho))
    | false =>
      change (Except.ok m.lastLen.isSome, { m with lastLen := none }) = _ at he
      cases he
      exact key _ (fun _ => rfl)

theorem aConfigure_keeps (r : Option Bool) (hr : off = true → r ≠ some true) (h : Nat) :
    AKeeps off h (aConfigure r) :=
  liftM_keeps (configure_keeps r hr) h

/-- `find_or_add(var, low, high)`: the wrapper adds no test of its own, so the guarantee
holds exactly when the core `find_or_add` keeps the invariants for the level and children
that are read from the current state (its documented precondition: the level is above both
children) -/
theorem aFindOrAdd_keepsAt (a : AMgr) (var : String) (hlow hhigh h : Nat)
    (hfoa : ∀ level lo hi, (levelOfVar var a.m).1 = .ok level → (nodeAny hlow a).1 = .ok lo →
      (nodeAny hhigh a).1 = .ok hi → CoreKeepsAt off a.m (findOrAdd level lo hi)) :
    AKeepsAt off a h (aFindOrAdd var hlow hhigh h) := by
  intro hi hfr r a' he
  have triv : AInv off a ∧ (∀ j : Nat, j ≠ h → a.handles[j]? = a.handles[j]?) ∧
      (∀ (j : Nat) (u : Int), a.handles[j]? = some u →
        a.m.tbl.Mem u ∧ ∀ asg, denN a.m.tbl u asg = denN a.m.tbl u asg) :=
    ⟨hi, fun _ _ => rfl, fun j u hj => ⟨hi.hmem j u hj, fun _ => rfl⟩⟩
  unfold aFindOrAdd at he
  change AM.bind' (AM.liftM (levelOfVar var)) _ a = _ at he
  unfold AM.bind' at he
  have h1 := ARead.liftM (levelOfVar_read var) a
  cases hx1 : AM.liftM (levelOfVar var) a with
  | mk r1 a1 =>
    rw [hx1] at he h1
    simp only at h1
    subst h1
    have hl : (levelOfVar var a1.m).1 = r1 := by
      have := congrArg Prod.fst hx1
      unfold AM.liftM at this
      exact this
    cases r1 with
    | error e => simp only at he; cases he; exact triv
    | ok level =>
      simp only at he
      change AM.bind' (nodeAny hlow) _ a1 = _ at he
      unfold AM.bind' at he
      have h2 := nodeAny_read hlow a1
      cases hx2 : nodeAny hlow a1 with
      | mk r2 a2 =>
        rw [hx2] at he h2
        simp only at h2
        subst h2
        cases r2 with
        | error e => simp only at he; cases he; exact triv
        | ok lo =>
          simp only at he
          change AM.bind' (nodeAny hhigh) _ a2 = _ at he
          unfold AM.bind' at he
          have h3 := nodeAny_read hhigh a2
          cases hx3 : nodeAny hhigh a2 with
          | mk r3 a3 =>
            rw [hx3] at he h3
            simp only at h3
            subst h3
            cases r3 with
            | error e => simp only at he; cases he; exact triv
            | ok hi' =>
              simp only at he
              have hk := hfoa level lo hi' hl (by rw [hx2]) (by rw [hx3])
              exact wrapResult_keepsAt a3 hk h hi hfr r a' he

/-- `BDD.copy(u, other)` into another manager: a guarantee about the *target* `a` (the source
is only read); the core hypothesis is needed for the node that the `u in self` test of the source
lets through -/
theorem aCopyTo_keepsAt (a : AMgr) (src : AMgr) (hu h : Nat)
    (hs : ∀ u, (nodeIn hu src).1 = .ok u → CoreKeepsAt off a.m (copyBdd src.m.tbl u)) :
    AKeepsAt off a h (aCopyTo src hu h) := by
  intro hi hfr r a' he
  unfold aCopyTo at he
  cases hx : nodeIn hu src with
  | mk r1 s1 =>
    rw [hx] at he
    cases r1 with
    | error e =>
      simp only at he; cases he
      exact ⟨hi, fun _ _ => rfl, fun j u hj => ⟨hi.hmem j u hj, fun _ => rfl⟩⟩
    | ok u =>
      simp only at he
      exact wrapResult_keepsAt a (hs u (by rw [hx])) h hi hfr r a' he

/-- module-level `copy_bdd(u, other)` -/
theorem aCopyBddTo_keepsAt (a : AMgr) (src : AMgr) (hu h : Nat)
    (hs : ∀ u, (nodeOwn hu src).1 = .ok u → CoreKeepsAt off a.m (copyBdd src.m.tbl u)) :
    AKeepsAt off a h (aCopyBddTo src hu h) := by
  intro hi hfr r a' he
  unfold aCopyBddTo at he
  cases hx : nodeOwn hu src with
  | mk r1 s1 =>
    rw [hx] at he
    cases r1 with
    | error e =>
      simp only at he; cases he
      exact ⟨hi, fun _ _ => rfl, fun j u hj => ⟨hi.hmem j u hj, fun _ => rfl⟩⟩
    | ok u =>
      simp only at he
      exact wrapResult_keepsAt a (hs u (by rw [hx])) h hi hfr r a' he

theorem aCopyVars_keepsAt (a : AMgr) (src : Tbl) (names : List String)
    (hs : CoreKeepsAt off a.m (copyVarsCore src names)) (h : Nat) :
    AKeepsAt off a h (aCopyVars src names) := liftM_keepsAt a hs h

/-! ### histories -/

/-- one step of a history in which the handles in `P` are never dropped: any operation that
creates at most the (fresh) handles `H` and has the guarantee `AKeepsLAt` in the current state
(`AKeepsL off H x` gives it in every state), or the drop of a live handle outside `P` -/
inductive AStep (off : Bool) (P : Nat → Prop) : AMgr → AMgr → Prop
  | op {α : Type} (H : List Nat) (x : AM α) (a : AMgr) (hk : AKeepsLAt off a H x)
      (hf : ∀ h, h ∈ H → a.handles.contains h = false) (r : Except Err α) (a' : AMgr)
      (he : x a = (r, a')) : AStep off P a a'
  | drop (h : Nat) (hP : ¬ P h) (a a' : AMgr) (u : Int) (hl : a.handles[h]? = some u)
      (he : drop h a = (.ok (), a')) : AStep off P a a'

inductive AReach (off : Bool) (P : Nat → Prop) : AMgr → AMgr → Prop
  | refl (a : AMgr) : AReach off P a a
  | step {a b c : AMgr} : AReach off P a b → AStep off P b c → AReach off P a c

/-- every live `Function` keeps denoting the same function (by variable name) through any
sequence of operations, collections and reorderings, no matter when other `Function`s are
dropped; and the count equation holds throughout -/
theorem autoref_live_den (P : Nat → Prop) {a a' : AMgr} (hi : AInv off a) (hr : AReach off P a a') :
    AInv off a' ∧ ∀ h, P h → ∀ u, a.handles[h]? = some u →
      a'.handles[h]? = some u ∧ a'.m.tbl.Mem u ∧
      ∀ asg, denN a'.m.tbl u asg = denN a.m.tbl u asg := by
  induction hr with
  | refl => exact ⟨hi, fun h _ u hu => ⟨hu, hi.hmem h u hu, fun _ => rfl⟩⟩
  | step _ hs ih =>
    obtain ⟨ib, hb⟩ := ih
    cases hs with
    | op H x _ hk hf r _ he =>
      obtain ⟨ic, hfr, hd⟩ := hk ib hf r _ he
      refine ⟨ic, fun j hj u hu => ?_⟩
      obtain ⟨l1, _, d1⟩ := hb j hj u hu
      have hne : j ∉ H := by
        intro hjh
        rw [TreeMap.getElem?_eq_none_of_contains_eq_false (hf j hjh)] at l1
        cases l1
      obtain ⟨m2, d2⟩ := hd j u l1
      exact ⟨by rw [hfr j hne]; exact l1, m2, fun asg => (d2 asg).trans (d1 asg)⟩
    | drop h hP _ _ v hl he =>
      obtain ⟨a2, he2, i2, t2, hh2, _⟩ := drop_spec _ h v ib hl
      rw [he2] at he
      cases he
      refine ⟨i2, fun j hj u hu => ?_⟩
      obtain ⟨l1, m1, d1⟩ := hb j hj u hu
      have hne : j ≠ h := fun hjh => hP (hjh ▸ hj)
      refine ⟨by rw [hh2, getElem?_erase_ne _ _ _ hne]; exact l1, by rw [t2]; exact m1, fun asg => ?_⟩
      rw [t2]; exact d1 asg

/-! ### shutdown -/

/-- the count equation without the terminal's own reference (the state inside
`dd.bdd.BDD.__del__` after `decref(1)`): `ref k = indeg k + ext k`, no other keys -/
def RefExact0 (m : Mgr) (ext : Nat → Nat) : Prop :=
  ∀ k : Nat, m.ref[k]? = if (k = 1 ∨ (m.tbl.node? k).isSome) then some (indeg m.tbl k + ext k) else none

/-- what `collect_garbage()` is assumed to do in that state (a statement about `dd.bdd`
alone; `collectGarbage_spec` proves it for states that still have the terminal's reference):
it succeeds, keeps invariant and equation, and leaves no stored node with count zero -/
structure GcSpec0 : Prop where
  gc : ∀ (m : Mgr) (ext : Nat → Nat), Inv m → RefExact0 m ext →
    ∃ m', collectGarbage none m = (.ok (), m') ∧ Inv m' ∧ RefExact0 m' ext ∧
      ∀ (u : Nat) (n : Nd), m'.tbl.node? u = some n → m'.ref[u]? ≠ some 0

/-- with no external reference at all, a table without zero-count nodes is empty:
a node of least level has no parent -/
theorem no_nodes_of_no_ext (m : Mgr) (hi : Inv m)
    (hc : ∀ (u : Nat) (n : Nd), m.tbl.node? u = some n → m.ref[u]? = some (indeg m.tbl u))
    (hz : ∀ (u : Nat) (n : Nd), m.tbl.node? u = some n → m.ref[u]? ≠ some 0) :
    ∀ (u : Nat), m.tbl.node? u = none := by
  have key : ∀ (L : Nat) (u : Nat) (n : Nd), m.tbl.node? u = some n → n.lvl = L → False := by
    intro L
    induction L using Nat.strongRecOn with
    | _ L ih =>
      intro u n hn hl
      have hr := hc u n hn
      have hpos : 0 < indeg m.tbl u := by
        cases hd : indeg m.tbl u with
        | zero => rw [hd] at hr; exact absurd hr (hz u n hn)
        | succ k => omega
      obtain ⟨i, p, hp, hedge⟩ := indeg_pos hpos
      have hu2 := hi.wf.ge_two u n hn
      have hlev : ∀ (e : Int), e.natAbs = u → m.tbl.levelOf e = n.lvl := by
        intro e he
        unfold Tbl.levelOf
        rw [he]
        have : ¬ u = 1 := by omega
        simp [this, hn]
      have : p.lvl < n.lvl := by
        rcases hedge with h1 | h1
        · have := hi.wf.lo_lt i p hp; rw [hlev _ h1] at this; exact this
        · have := hi.wf.hi_lt i p hp; rw [hlev _ h1] at this; exact this
      exact ih p.lvl (by omega) i p hp rfl
  intro u
  cases hn : m.tbl.node? u with
  | none => rfl
  | some n => exact absurd rfl (fun h : n.lvl = n.lvl => key n.lvl u n hn h)

theorem indeg_zero_of_no_nodes (t : Tbl) (h : ∀ u : Nat, t.node? u = none) (k : Nat) : indeg t k = 0 := by
  cases hd : indeg t k with
  | zero => rfl
  | succ j =>
    obtain ⟨i, p, hp, _⟩ := indeg_pos (t := t) (u := k) (by omega)
    rw [h i] at hp; cases hp

/-- once every `Function` of a manager is gone, the manager's shutdown check
(`dd.bdd.BDD.__del__`) passes — whatever garbage is still stored: after the terminal's own
reference is released and a collection, only the terminal remains and every count is zero -/
theorem autoref_shutdown_of_gcSpec0 (gs : GcSpec0) (a : AMgr) (hi : AInv off a)
    (he : a.handles.isEmpty = true) :
    ∃ m', shutdown a.m = (.ok (), m') ∧ (∀ u : Nat, m'.tbl.node? u = none) ∧
      (∀ (k c : Nat), m'.ref[k]? = some c → c = 0) := by
  have hext : ∀ k, hext a k = 0 := fun k => hcount_of_isEmpty _ _ he
  have hone : a.m.tbl.Mem (1 : Int) := Or.inl rfl
  have h1 : (1 : Int).natAbs = 1 := rfl
  have hr1 : a.m.ref[(1 : Nat)]? = some (indeg a.m.tbl 1 + 1) := by
    have := hi.counts.get hone
    rw [h1, hext 1] at this
    simpa using this
  have hd : decref 1 a.m = (.ok (), { a.m with ref := a.m.ref.insert 1 (indeg a.m.tbl 1) }) :=
    decref_eq a.m 1 _ hr1
  have i1 : Inv { a.m with ref := a.m.ref.insert 1 (indeg a.m.tbl 1) } := by
    have := (decref_kept a.m hi.inv 1).inv
    rw [hd] at this; exact this
  have c1 : RefExact0 { a.m with ref := a.m.ref.insert 1 (indeg a.m.tbl 1) } (fun _ => 0) := by
    intro k
    show (a.m.ref.insert 1 (indeg a.m.tbl 1))[k]? = if (k = 1 ∨ (a.m.tbl.node? k).isSome) then _ else _
    by_cases hk : k = 1
    · subst hk
      rw [TreeMap.getElem?_insert_self, if_pos (Or.inl rfl)]
      rfl
    · rw [getElem?_insert_ne _ _ _ _ hk, hi.counts.lookup k, hext k]
      simp [hk]
  obtain ⟨m2, hg, i2, c2, hz⟩ := gs.gc _ _ i1 c1
  have hnone := no_nodes_of_no_ext m2 i2
    (fun u n hn => by rw [c2 u, if_pos (Or.inr (by rw [hn]; rfl))]; simp) hz
  have hzero : ∀ (k c : Nat), m2.ref[k]? = some c → c = 0 := by
    intro k c hk
    rw [c2 k, indeg_zero_of_no_nodes m2.tbl hnone k] at hk
    split at hk
    · cases hk; rfl
    · cases hk
  refine ⟨m2, ?_, hnone, hzero⟩
  have hany : (m2.ref.toList.any (fun (kv : Nat × Nat) => kv.2 != 0)) = false := by
    rw [List.any_eq_false]
    intro kv hkv
    have := hzero kv.1 kv.2 (TreeMap.mem_toList_iff_getElem?_eq_some.mp hkv)
    simp [this]
  unfold shutdown
  change M.bind' (refOf 1) _ a.m = _
  unfold M.bind'
  have hrefOf : refOf 1 a.m = (.ok (indeg a.m.tbl 1 + 1), a.m) := refOf_eq a.m 1 _ hr1
  rw [hrefOf]
  simp only
  change M.bind' (if indeg a.m.tbl 1 + 1 > 0 then decref 1 else pure ()) _ a.m = _
  unfold M.bind'
  rw [if_pos (by omega), hd]
  simp only
  change M.bind' (collectGarbage none) _ _ = _
  unfold M.bind'
  rw [hg]
  simp only
  change M.bind' M.get _ m2 = _
  unfold M.bind' M.get
  simp only
  unfold M.assert
  rw [hany]
  rfl

end DD
