/-
  DDProofs.AutoProofs — the invariant of the autoref layer and its preservation.

  `Counts m ext`  : the count of every stored node is `indeg + ext`, and `_ref` has
                    no other keys  (`ext` = references held from outside the table)
  `AInv a`        : `Inv a.m`, every live handle points to a stored node, and
                    `Counts a.m (live handles on the node + 1 for the terminal)`.

  Proved outright: registry bookkeeping (`wrap`, `wrapF`, `drop`), effects of
  `incref` / `decref` on the count equation, `drop ∘ wrap = id` on counts, the
  operations whose core part is trivial (`true/false`, `_add_int`, `copy_bdd` into
  the same manager, `low/high`).
  Conditional on explicit hypotheses about the core operations (`CoreKeeps`,
  `CoreOpSpec`, `GcSpec` — to be discharged by the proofs about `DD.ite`,
  `DD.collectGarbage`, `DD.reorder`, …): every other autoref method, histories,
  shutdown.
-/
import DDProofs.AutoLedger
import DDProofs.Inv
open Std

namespace DD

/-! ### denotation by variable *name* (stable under reordering) -/

/-- the assignment to levels induced by an assignment to names -/
def envOf (t : Tbl) (asg : String → Bool) : Asg := fun i =>
  match t.l2v[i]? with
  | some v => asg v
  | none => false

/-- denotation of a reference as a function of variable names -/
def denN (t : Tbl) (u : Int) (asg : String → Bool) : Bool := den t u (envOf t asg)

/-! ### the count equation -/

/-- `k in self._succ` for a node number -/
def NMem (t : Tbl) (k : Nat) : Prop := k = 1 ∨ (t.node? k).isSome

instance (t : Tbl) (k : Nat) : Decidable (NMem t k) := by unfold NMem; infer_instance

theorem mem_iff_nmem (t : Tbl) (u : Int) : t.Mem u ↔ NMem t u.natAbs := Iff.rfl

/-- every count is in-degree plus external references; `_ref` has exactly the keys of `_succ` -/
def Counts (m : Mgr) (ext : Nat → Nat) : Prop :=
  ∀ k : Nat, m.ref[k]? = if NMem m.tbl k then some (indeg m.tbl k + ext k) else none

theorem Counts.congr {m : Mgr} {ext ext' : Nat → Nat} (h : Counts m ext) (he : ∀ k, ext k = ext' k) :
    Counts m ext' := by
  intro k; rw [h k, he k]

theorem Counts.of_mem {m : Mgr} {ext : Nat → Nat} (h : Counts m ext) {u : Int} (hu : m.tbl.Mem u) :
    m.ref[u.natAbs]? = some (indeg m.tbl u.natAbs + ext u.natAbs) := by
  rw [h u.natAbs, if_pos ((mem_iff_nmem _ _).mp hu)]

/-- replacing the count table keeps `Inv` as long as the domain does not shrink -/
theorem Inv.ref_update {m : Mgr} (h : Inv m) (ref' : TreeMap Nat Nat)
    (hd : ∀ k, m.ref.contains k = true → ref'.contains k = true) : Inv { m with ref := ref' } :=
  ⟨h.wf, h.pred, h.freeGe, h.free, hd 1 h.refOne, fun u n hn => hd u (h.refDom u n hn), h.cache⟩

theorem contains_insert_of_contains (t : TreeMap Nat Nat) (j c k : Nat) (h : t.contains k = true) :
    (t.insert j c).contains k = true := by
  rw [TreeMap.contains_insert]; simp [h]

/-- `incref` under the count equation: succeeds, touches only `_ref`, one more external reference -/
theorem incref_spec (m : Mgr) (ext : Nat → Nat) (u : Int) (hi : Inv m) (hc : Counts m ext)
    (hu : m.tbl.Mem u) :
    ∃ m', incref u m = (.ok (), m') ∧ m'.tbl = m.tbl ∧ Inv m' ∧
      Counts m' (fun k => ext k + (if u.natAbs = k then 1 else 0)) := by
  have hr := hc.of_mem hu
  refine ⟨{ m with ref := m.ref.insert u.natAbs (indeg m.tbl u.natAbs + ext u.natAbs + 1) }, ?_, rfl, ?_, ?_⟩
  · unfold incref; rw [hr]
  · exact hi.ref_update _ (fun k hk => contains_insert_of_contains _ _ _ _ hk)
  · intro k
    show (m.ref.insert u.natAbs _)[k]? = if NMem m.tbl k then _ else _
    by_cases hk : k = u.natAbs
    · subst hk
      rw [TreeMap.getElem?_insert_self, if_pos ((mem_iff_nmem _ _).mp hu)]
      simp; omega
    · rw [getElem?_insert_ne _ _ _ _ hk, hc k]
      have : ¬ u.natAbs = k := fun h => hk h.symm
      simp [this]

/-- `decref` of a reference that is held from outside: succeeds, one external reference less -/
theorem decref_spec (m : Mgr) (ext : Nat → Nat) (u : Int) (hi : Inv m) (hc : Counts m ext)
    (hu : m.tbl.Mem u) (hpos : 0 < ext u.natAbs) :
    ∃ m', decref u m = (.ok (), m') ∧ m'.tbl = m.tbl ∧ Inv m' ∧
      Counts m' (fun k => ext k - (if u.natAbs = k then 1 else 0)) := by
  have hr := hc.of_mem hu
  refine ⟨{ m with ref := m.ref.insert u.natAbs (indeg m.tbl u.natAbs + ext u.natAbs - 1) }, ?_, rfl, ?_, ?_⟩
  · unfold decref; rw [hr]
    have : ¬ (indeg m.tbl u.natAbs + ext u.natAbs = 0) := by omega
    simp only [if_neg this]
  · exact hi.ref_update _ (fun k hk => contains_insert_of_contains _ _ _ _ hk)
  · intro k
    show (m.ref.insert u.natAbs _)[k]? = if NMem m.tbl k then _ else _
    by_cases hk : k = u.natAbs
    · subst hk
      rw [TreeMap.getElem?_insert_self, if_pos ((mem_iff_nmem _ _).mp hu)]
      simp; omega
    · rw [getElem?_insert_ne _ _ _ _ hk, hc k]
      have : ¬ u.natAbs = k := fun h => hk h.symm
      simp [this]

/-! ### the invariant of the autoref layer -/

/-- external references of an `autoref.BDD`: live `Function`s, and the reference that
`_init_terminal` gives to node 1 -/
def aext (a : AMgr) (k : Nat) : Nat := hcount a.handles k + (if k = 1 then 1 else 0)

structure AInv (a : AMgr) : Prop where
  inv : Inv a.m
  hmem : ∀ (h : Nat) (u : Int), a.handles[h]? = some u → a.m.tbl.Mem u
  counts : Counts a.m (aext a)

theorem aext_pos_of_handle (a : AMgr) (h : Nat) (u : Int) (hh : a.handles[h]? = some u) :
    0 < aext a u.natAbs := by
  have := hcount_pos_of_handle a.handles h u hh
  unfold aext; omega

/-- `Function(u, bdd)` with a fresh handle id on a stored node -/
theorem wrapF_spec (a : AMgr) (h : Nat) (u : Int) (hi : AInv a)
    (hf : a.handles.contains h = false) (hu : a.m.tbl.Mem u) :
    ∃ a', wrapF h u a = (.ok (), a') ∧ AInv a' ∧ a'.m.tbl = a.m.tbl ∧
      a'.handles = a.handles.insert h u ∧ a'.foreign = a.foreign := by
  obtain ⟨m', he, ht, hinv, hcnt⟩ := incref_spec a.m (aext a) u hi.inv hi.counts hu
  refine ⟨{ a with m := m', handles := a.handles.insert h u }, ?_, ⟨hinv, ?_, ?_⟩, ht, rfl, rfl⟩
  · unfold wrapF
    rw [(Mgr.mem_iff a.m u).mpr hu, he]
    rfl
  · intro j v hj
    show m'.tbl.Mem v
    rw [ht]
    by_cases hjh : j = h
    · subst hjh
      rw [show ({ a with m := m', handles := a.handles.insert j u } : AMgr).handles = a.handles.insert j u from rfl,
        TreeMap.getElem?_insert_self] at hj
      cases hj; exact hu
    · rw [show ({ a with m := m', handles := a.handles.insert h u } : AMgr).handles = a.handles.insert h u from rfl,
        getElem?_insert_ne _ _ _ _ hjh] at hj
      exact hi.hmem j v hj
  · refine hcnt.congr (fun k => ?_)
    show _ = hcount (a.handles.insert h u) k + _
    rw [hcount_insert _ _ _ _ hf]
    unfold aext; omega

/-- `BDD._wrap(u)` -/
theorem wrap_spec (a : AMgr) (h : Nat) (u : Int) (hi : AInv a)
    (hf : a.handles.contains h = false) (hu : a.m.tbl.Mem u) :
    ∃ a', wrap h u a = (.ok (), a') ∧ AInv a' ∧ a'.m.tbl = a.m.tbl ∧
      a'.handles = a.handles.insert h u ∧ a'.foreign = a.foreign := by
  obtain ⟨a', he, r⟩ := wrapF_spec a h u hi hf hu
  refine ⟨a', ?_, r⟩
  unfold wrap
  rw [(Mgr.mem_iff a.m u).mpr hu]
  exact he

/-- `Function.__del__` of a live handle -/
theorem drop_spec (a : AMgr) (h : Nat) (u : Int) (hi : AInv a) (hh : a.handles[h]? = some u) :
    ∃ a', drop h a = (.ok (), a') ∧ AInv a' ∧ a'.m.tbl = a.m.tbl ∧
      a'.handles = a.handles.erase h ∧ a'.foreign = a.foreign := by
  have hu := hi.hmem h u hh
  obtain ⟨m', he, ht, hinv, hcnt⟩ :=
    decref_spec a.m (aext a) u hi.inv hi.counts hu (aext_pos_of_handle a h u hh)
  refine ⟨{ a with m := m', handles := a.handles.erase h }, ?_, ⟨hinv, ?_, ?_⟩, ht, rfl, rfl⟩
  · unfold drop
    rw [hh]
    simp only [he]
  · intro j v hj
    show m'.tbl.Mem v
    rw [ht]
    by_cases hjh : j = h
    · subst hjh
      rw [show ({ a with m := m', handles := a.handles.erase j } : AMgr).handles = a.handles.erase j from rfl,
        TreeMap.getElem?_erase_self] at hj
      cases hj
    · rw [show ({ a with m := m', handles := a.handles.erase h } : AMgr).handles = a.handles.erase h from rfl,
        getElem?_erase_ne _ _ _ hjh] at hj
      exact hi.hmem j v hj
  · refine hcnt.congr (fun k => ?_)
    show _ = hcount (a.handles.erase h) k + _
    have := hcount_erase a.handles h u k hh
    unfold aext
    by_cases hk : u.natAbs = k <;> simp [hk] at this ⊢ <;> omega

/-- two states with the same table and the same live handles have the same counts -/
theorem AInv.ref_eq {a b : AMgr} (ha : AInv a) (hb : AInv b) (ht : b.m.tbl = a.m.tbl)
    (hh : ∀ j : Nat, b.handles[j]? = a.handles[j]?) : ∀ k : Nat, b.m.ref[k]? = a.m.ref[k]? := by
  intro k
  rw [hb.counts k, ha.counts k, ht]
  have : aext b k = aext a k := by
    unfold aext hcount
    rw [msum_congr a.handles b.handles _ hh]
  rw [this]

/-- creating a `Function` and dropping it again leaves every count (and the table) as it was -/
theorem drop_wrap_id (a : AMgr) (h : Nat) (u : Int) (hi : AInv a)
    (hf : a.handles.contains h = false) (hu : a.m.tbl.Mem u) :
    ∃ a1 a2, wrap h u a = (.ok (), a1) ∧ drop h a1 = (.ok (), a2) ∧ AInv a2 ∧
      a2.m.tbl = a.m.tbl ∧ (∀ k : Nat, a2.m.ref[k]? = a.m.ref[k]?) ∧
      (∀ j : Nat, a2.handles[j]? = a.handles[j]?) := by
  obtain ⟨a1, h1, i1, t1, hh1, _⟩ := wrap_spec a h u hi hf hu
  have hl : a1.handles[h]? = some u := by rw [hh1, TreeMap.getElem?_insert_self]
  obtain ⟨a2, h2, i2, t2, hh2, _⟩ := drop_spec a1 h u i1 hl
  have hsame : ∀ j : Nat, a2.handles[j]? = a.handles[j]? := by
    intro j
    rw [hh2, hh1]
    by_cases hj : j = h
    · subst hj
      rw [TreeMap.getElem?_erase_self, TreeMap.getElem?_eq_none_of_contains_eq_false hf]
    · rw [getElem?_erase_ne _ _ _ hj, getElem?_insert_ne _ _ _ _ hj]
  exact ⟨a1, a2, h1, h2, i2, t2.trans t1, AInv.ref_eq hi i2 (t2.trans t1) hsame, hsame⟩

/-! ### hypotheses about core operations -/

/-- nodes that are referenced from outside stay, with the same meaning by variable name -/
def Held (t t' : Tbl) (ext : Nat → Nat) : Prop :=
  ∀ u : Int, t.Mem u → 0 < ext u.natAbs → t'.Mem u ∧ ∀ asg, denN t' u asg = denN t u asg

theorem Held.refl (t : Tbl) (ext : Nat → Nat) : Held t t ext := fun _ hu _ => ⟨hu, fun _ => rfl⟩

/-- what the autoref layer needs from a core operation, whatever its outcome (a result or
an exception): the manager invariant and the count equation relative to the *same*
external references are kept, externally referenced nodes survive with their meaning -/
structure CoreKeeps (op : M α) : Prop where
  keeps : ∀ (m : Mgr) (ext : Nat → Nat), Inv m → Counts m ext → ∀ r m', op m = (r, m') →
    Inv m' ∧ Counts m' ext ∧ Held m.tbl m'.tbl ext

/-- the same for one start state (for operations whose precondition depends on the state,
e.g. `find_or_add` at a level above both children) -/
def CoreKeepsAt (m : Mgr) (op : M α) : Prop :=
  ∀ (ext : Nat → Nat), Inv m → Counts m ext → ∀ r m', op m = (r, m') →
    Inv m' ∧ Counts m' ext ∧ Held m.tbl m'.tbl ext

theorem CoreKeeps.at {op : M α} (h : CoreKeeps op) (m : Mgr) : CoreKeepsAt m op := h.keeps m

/-- an operation that does not touch the state -/
def MRead (x : M α) : Prop := ∀ m, (x m).2 = m

theorem CoreKeeps.of_read {x : M α} (h : MRead x) : CoreKeeps x := by
  refine ⟨fun m ext hi hc r m' he => ?_⟩
  have : m' = m := by have := h m; rw [he] at this; exact this
  subst this
  exact ⟨hi, hc, Held.refl _ _⟩

/-! ### operations of the autoref layer -/

/-- the guarantee of an autoref operation that creates at most the handle `h`: the
invariant is kept, no other handle is touched, every `Function` that was alive keeps its
node and its meaning (whether the operation returns or raises) -/
def AKeeps (h : Nat) (x : AM α) : Prop :=
  ∀ a, AInv a → a.handles.contains h = false → ∀ r a', x a = (r, a') →
    AInv a' ∧ (∀ j : Nat, j ≠ h → a'.handles[j]? = a.handles[j]?) ∧
    (∀ (j : Nat) (u : Int), a.handles[j]? = some u →
      a'.m.tbl.Mem u ∧ ∀ asg, denN a'.m.tbl u asg = denN a.m.tbl u asg)

/-- the guarantee for one start state -/
def AKeepsAt (a : AMgr) (h : Nat) (x : AM α) : Prop :=
  AInv a → a.handles.contains h = false → ∀ r a', x a = (r, a') →
    AInv a' ∧ (∀ j : Nat, j ≠ h → a'.handles[j]? = a.handles[j]?) ∧
    (∀ (j : Nat) (u : Int), a.handles[j]? = some u →
      a'.m.tbl.Mem u ∧ ∀ asg, denN a'.m.tbl u asg = denN a.m.tbl u asg)

/-- the same for an operation that creates at most the handles in the list `H` (`BDD.succ`
creates two; comparisons create none) -/
def AKeepsL (H : List Nat) (x : AM α) : Prop :=
  ∀ a, AInv a → (∀ h, h ∈ H → a.handles.contains h = false) → ∀ r a', x a = (r, a') →
    AInv a' ∧ (∀ j : Nat, j ∉ H → a'.handles[j]? = a.handles[j]?) ∧
    (∀ (j : Nat) (u : Int), a.handles[j]? = some u →
      a'.m.tbl.Mem u ∧ ∀ asg, denN a'.m.tbl u asg = denN a.m.tbl u asg)

theorem AKeeps.toL {x : AM α} {h : Nat} (hk : AKeeps h x) : AKeepsL [h] x := by
  intro a hi hf r a' he
  obtain ⟨i, s, d⟩ := hk a hi (hf h List.mem_cons_self) r a' he
  exact ⟨i, fun j hj => s j (fun e => hj (e ▸ List.mem_cons_self)), d⟩

/-- an autoref-level read -/
def ARead (x : AM α) : Prop := ∀ a, (x a).2 = a

theorem AKeeps.of_read {x : AM α} (h : Nat) (hx : ARead x) : AKeeps h x := by
  intro a hi _ r a' he
  have : a' = a := by have := hx a; rw [he] at this; exact this
  subst this
  exact ⟨hi, fun _ _ => rfl, fun j u hj => ⟨hi.hmem j u hj, fun _ => rfl⟩⟩

theorem AKeeps.bind_read {x : AM α} {f : α → AM β} {h : Nat} (hx : ARead x)
    (hf : ∀ v, AKeeps h (f v)) : AKeeps h (x >>= f) := by
  intro a hi hfr r a' he
  have h2 := hx a
  change AM.bind' x f a = (r, a') at he
  unfold AM.bind' at he
  cases hxa : x a with
  | mk r0 a1 =>
    rw [hxa] at he h2
    simp only at h2
    subst h2
    cases r0 with
    | error e =>
      simp only at he
      cases he
      exact ⟨hi, fun _ _ => rfl, fun j u hj => ⟨hi.hmem j u hj, fun _ => rfl⟩⟩
    | ok v =>
      simp only at he
      exact hf v a1 hi hfr r a' he

/-- the state after a core operation that satisfies `CoreKeeps` -/
theorem AInv.after_core {a : AMgr} (hi : AInv a) {m' : Mgr} (h1 : Inv m')
    (h2 : Counts m' (aext a)) (h3 : Held a.m.tbl m'.tbl (aext a)) :
    AInv { a with m := m' } ∧
    (∀ (j : Nat) (u : Int), a.handles[j]? = some u →
      m'.tbl.Mem u ∧ ∀ asg, denN m'.tbl u asg = denN a.m.tbl u asg) := by
  have hd : ∀ (j : Nat) (u : Int), a.handles[j]? = some u →
      m'.tbl.Mem u ∧ ∀ asg, denN m'.tbl u asg = denN a.m.tbl u asg :=
    fun j u hj => h3 u (hi.hmem j u hj) (aext_pos_of_handle a j u hj)
  exact ⟨⟨h1, fun j u hj => (hd j u hj).1, h2⟩, hd⟩

/-- a core operation without a node result (`collect_garbage`, `reorder`, `configure`, …) -/
theorem liftM_keeps {op : M α} (hs : CoreKeeps op) (h : Nat) : AKeeps h (AM.liftM op) := by
  intro a hi _ r a' he
  unfold AM.liftM at he
  cases hop : op a.m with
  | mk r0 m' =>
    rw [hop] at he
    simp only at he
    cases he
    obtain ⟨h1, h2, h3⟩ := hs.keeps a.m (aext a) hi.inv hi.counts r m' hop
    obtain ⟨i', hd⟩ := hi.after_core h1 h2 h3
    exact ⟨i', fun _ _ => rfl, hd⟩

/-- `_wrap` / `Function(…)` of an arbitrary integer with a fresh id: either the node is stored
and the handle is created, or `ValueError` and nothing changes -/
theorem wrap_total (a : AMgr) (h : Nat) (u : Int) (hi : AInv a) (hf : a.handles.contains h = false)
    (r : Except Err Unit) (a' : AMgr) (he : wrap h u a = (r, a') ∨ wrapF h u a = (r, a')) :
    AInv a' ∧ a'.m.tbl = a.m.tbl ∧ (∀ j : Nat, j ≠ h → a'.handles[j]? = a.handles[j]?) ∧
    (r = .ok () → a'.handles[h]? = some u ∧ a.m.tbl.Mem u) := by
  by_cases hu : a.m.tbl.Mem u
  · obtain ⟨a2, hw, i2, t2, hh2, _⟩ := wrap_spec a h u hi hf hu
    obtain ⟨a3, hw3, _⟩ := wrapF_spec a h u hi hf hu
    have : (r, a') = (.ok (), a2) := by
      rcases he with he | he
      · rw [← he, hw]
      · rw [← he, hw3, ← hw]
        unfold wrap
        rw [(Mgr.mem_iff a.m u).mpr hu]
        simp [hw3]
    cases this
    refine ⟨i2, t2, fun j hj => ?_, fun _ => ⟨?_, hu⟩⟩
    · rw [hh2]; exact getElem?_insert_ne _ _ _ _ hj
    · rw [hh2, TreeMap.getElem?_insert_self]
  · have hm : a.m.mem u = false := by
      cases hb : a.m.mem u
      · rfl
      · exact absurd ((Mgr.mem_iff a.m u).mp hb) hu
    have : (r, a') = (.error .value, a) := by
      rcases he with he | he
      · rw [← he]; unfold wrap; simp [hm]
      · rw [← he]; unfold wrapF; simp [hm]
    cases this
    exact ⟨hi, rfl, fun _ _ => rfl, fun h => by cases h⟩

/-- `r = self._bdd.<op>(…); return self._wrap(r)`: only the frame property of the core
operation is needed — `_wrap` itself refuses an integer that is not a stored node -/
theorem wrapResult_keepsAt {core : M Int} (a : AMgr) (hs : CoreKeepsAt a.m core) (h : Nat) :
    AKeepsAt a h (wrapResult h core) := by
  intro hi hfr r a' he
  unfold wrapResult at he
  change AM.bind' (AM.liftM core) (fun r => AM.bind' (wrap h r) (fun _ => AM.pure' r)) a = _ at he
  unfold AM.bind' AM.liftM at he
  cases hop : core a.m with
  | mk r0 m' =>
    rw [hop] at he
    obtain ⟨h1, h2, h3⟩ := hs (aext a) hi.inv hi.counts r0 m' hop
    obtain ⟨i1, hd⟩ := hi.after_core h1 h2 h3
    cases r0 with
    | error e =>
      simp only at he
      cases he
      exact ⟨i1, fun _ _ => rfl, hd⟩
    | ok v =>
      simp only at he
      cases hw : wrap h v { a with m := m' } with
      | mk rw' a2 =>
        rw [hw] at he
        obtain ⟨i2, t2, hfr2, _⟩ := wrap_total { a with m := m' } h v i1 hfr rw' a2 (Or.inl hw)
        have : a' = a2 := by
          cases rw' <;> simp only [AM.pure'] at he <;> cases he <;> rfl
        subst this
        exact ⟨i2, hfr2, fun j u hj => by rw [t2]; exact hd j u hj⟩

theorem wrapResult_keeps {core : M Int} (hs : CoreKeeps core) (h : Nat) :
    AKeeps h (wrapResult h core) := fun a => wrapResult_keepsAt a (hs.at a.m) h

/-- `Function(r, bdd)` after a core operation (`Function._apply`) -/
theorem liftM_wrapF_keeps {core : M Int} (hs : CoreKeeps core) (h : Nat) :
    AKeeps h (do let r ← AM.liftM core; wrapF h r; return r) := by
  intro a hi hfr r a' he
  change AM.bind' (AM.liftM core) (fun r => AM.bind' (wrapF h r) (fun _ => AM.pure' r)) a = _ at he
  unfold AM.bind' AM.liftM at he
  cases hop : core a.m with
  | mk r0 m' =>
    rw [hop] at he
    obtain ⟨h1, h2, h3⟩ := hs.keeps a.m (aext a) hi.inv hi.counts r0 m' hop
    obtain ⟨i1, hd⟩ := hi.after_core h1 h2 h3
    cases r0 with
    | error e =>
      simp only at he
      cases he
      exact ⟨i1, fun _ _ => rfl, hd⟩
    | ok v =>
      simp only at he
      cases hw : wrapF h v { a with m := m' } with
      | mk rw' a2 =>
        rw [hw] at he
        obtain ⟨i2, t2, hfr2, _⟩ := wrap_total { a with m := m' } h v i1 hfr rw' a2 (Or.inr hw)
        have : a' = a2 := by
          cases rw' <;> simp only [AM.pure'] at he <;> cases he <;> rfl
        subst this
        exact ⟨i2, hfr2, fun j u hj => by rw [t2]; exact hd j u hj⟩

/-! ### reads -/

theorem ARead.pure (v : α) : ARead (pure v : AM α) := fun _ => rfl
theorem ARead.throw (e : Err) : ARead (AM.throw e : AM α) := fun _ => rfl
theorem ARead.get : ARead AM.get := fun _ => rfl
theorem ARead.liftE (x : Mgr → Except Err α) : ARead (AM.liftE x) := fun _ => rfl

theorem ARead.bind {x : AM α} {f : α → AM β} (hx : ARead x) (hf : ∀ v, ARead (f v)) :
    ARead (x >>= f) := by
  intro a
  change (AM.bind' x f a).2 = a
  unfold AM.bind'
  have h2 := hx a
  cases hxa : x a with
  | mk r0 a1 =>
    rw [hxa] at h2
    simp only at h2
    subst h2
    cases r0 with
    | error e => rfl
    | ok v => exact hf v a1

theorem ARead.ite {c : Prop} [Decidable c] {x y : AM α} (hx : ARead x) (hy : ARead y) :
    ARead (if c then x else y) := by
  split <;> assumption

theorem ARead.liftM {x : M α} (hx : MRead x) : ARead (AM.liftM x) := by
  intro a
  unfold AM.liftM
  have := hx a.m
  cases hxa : x a.m with
  | mk r m' =>
    rw [hxa] at this
    simp only at this
    subst this
    rfl

theorem nodeAny_read (h : Nat) : ARead (nodeAny h) := by
  intro a; unfold nodeAny; split
  · rfl
  · split <;> rfl

theorem nodeOwn_read (h : Nat) : ARead (nodeOwn h) := by
  intro a; unfold nodeOwn; split <;> rfl

theorem nodeSame_read (h : Nat) : ARead (nodeSame h) := by
  intro a; unfold nodeSame; split
  · rfl
  · split <;> rfl

theorem ARead.check (b : Bool) (e : Err) : ARead (AM.check b e) := by
  intro a; unfold AM.check; split <;> rfl

theorem nodeIn_read (h : Nat) : ARead (nodeIn h) := by
  unfold nodeIn
  apply ARead.bind (nodeSame_read h)
  intro u
  apply ARead.bind ARead.get
  intro a
  apply ARead.bind (ARead.check _ _)
  intro _
  exact ARead.pure _

theorem optNode_read {f : Nat → AM Int} (hf : ∀ h, ARead (f h)) (hv : Option Nat) :
    ARead (optNode f hv) := by
  cases hv with
  | none => exact ARead.pure _
  | some hv => exact ARead.bind (hf hv) fun _ => ARead.pure _

theorem levelOfVar_read (v : String) : MRead (levelOfVar v) := by
  intro m
  unfold levelOfVar
  change (M.bind' M.get _ m).2 = m
  unfold M.bind' M.get M.ofOption
  simp only
  cases m.tbl.vars[v]? <;> rfl

theorem addInt_read (i : Int) : MRead (addInt i) := by
  intro m
  unfold addInt
  change (M.bind' M.get _ m).2 = m
  unfold M.bind' M.get
  simp only
  by_cases h : m.mem i <;> simp [h] <;> rfl

theorem pure_readM (v : α) : MRead (pure v : M α) := fun _ => rfl

/-! ### the methods of `autoref.BDD` and `Function` that create one `Function` -/

/-- the frame properties of the core operations that the wrappers call; each is a
statement about `dd.bdd` alone (no handles), to be discharged by the core proofs -/
structure CoreSpecs : Prop where
  var : ∀ n, CoreKeeps (var n)
  apply : ∀ op u v w, CoreKeeps (apply op u v w)
  ite : ∀ g u v, CoreKeeps (ite g u v)
  letOp : ∀ d u, CoreKeeps (letOp d u)
  quantify : ∀ u q f, CoreKeeps (quantify u q f)
  cube : ∀ d, CoreKeeps (cube d)
  image : ∀ t s rn q f, CoreKeeps (image t s rn q f)
  preimage : ∀ t s rn q f, CoreKeeps (preimage t s rn q f)
  collectGarbage : CoreKeeps (collectGarbage none)
  reorder : ∀ o, CoreKeeps (reorder o)
  declare : ∀ ns, CoreKeeps (declare ns)
  addVar : ∀ n l, CoreKeeps (addVar n l)
  copyBdd : ∀ src u, CoreKeeps (copyBdd src u)
  copyVars : ∀ src names, CoreKeeps (copyVarsCore src names)

theorem aVar_keeps (cs : CoreSpecs) (name : String) (h : Nat) : AKeeps h (aVar name h) :=
  wrapResult_keeps (cs.var name) h

/-- `BDD.true` / `BDD.false` (no hypothesis) -/
theorem aConst_keeps (b : Bool) (h : Nat) : AKeeps h (aConst b h) :=
  wrapResult_keeps (CoreKeeps.of_read (pure_readM _)) h

theorem aApply_keeps (cs : CoreSpecs) (op : String) (hu : Nat) (hv hw : Option Nat) (h : Nat) :
    AKeeps h (aApply op hu hv hw h) := by
  unfold aApply
  refine AKeeps.bind_read (nodeIn_read hu) fun u => ?_
  refine AKeeps.bind_read (ARead.check _ _) fun _ => ?_
  refine AKeeps.bind_read (optNode_read nodeIn_read hv) fun v => ?_
  refine AKeeps.bind_read (optNode_read nodeIn_read hw) fun w => ?_
  exact wrapResult_keeps (cs.apply op u v w) h

theorem aIte_keeps (cs : CoreSpecs) (hg hu hv : Nat) (h : Nat) : AKeeps h (aIte hg hu hv h) := by
  unfold aIte
  refine AKeeps.bind_read (nodeIn_read hg) fun g => ?_
  refine AKeeps.bind_read (nodeIn_read hu) fun u => ?_
  refine AKeeps.bind_read (nodeIn_read hv) fun v => ?_
  exact wrapResult_keeps (cs.ite g u v) h

theorem aQuantify_keeps (cs : CoreSpecs) (hu : Nat) (q : List Key) (fa : Bool) (h : Nat) :
    AKeeps h (aQuantify hu q fa h) := by
  unfold aQuantify
  refine AKeeps.bind_read (nodeIn_read hu) fun u => ?_
  exact wrapResult_keeps (cs.quantify u q fa) h

theorem aCube_keeps (cs : CoreSpecs) (d : List (String × Bool)) (h : Nat) : AKeeps h (aCube d h) :=
  wrapResult_keeps (cs.cube d) h

/-- `_add_int` (no hypothesis): a second `Function` on a stored node -/
theorem aAddInt_keeps (i : Int) (h : Nat) : AKeeps h (aAddInt i h) :=
  wrapResult_keeps (CoreKeeps.of_read (addInt_read i)) h

/-- `copy_bdd(u, u.bdd)` (no hypothesis) -/
theorem aCopyBddSame_keeps (hu : Nat) (h : Nat) : AKeeps h (aCopyBddSame hu h) := by
  unfold aCopyBddSame
  refine AKeeps.bind_read (nodeOwn_read hu) fun u => ?_
  exact wrapResult_keeps (CoreKeeps.of_read (pure_readM _)) h

theorem aImage_keeps (cs : CoreSpecs) (pre : Bool) (ht hs : Nat) (rn : List (Key × Key)) (q : List Key)
    (fa : Bool) (h : Nat) : AKeeps h (aImage pre ht hs rn q fa h) := by
  unfold aImage
  refine AKeeps.bind_read (nodeOwn_read ht) fun t => ?_
  refine AKeeps.bind_read (nodeSame_read hs) fun s => ?_
  cases pre
  · exact wrapResult_keeps (cs.image t s rn q fa) h
  · exact wrapResult_keeps (cs.preimage t s rn q fa) h

/-- `Function.__invert__ / __and__ / __or__ / implies / equiv` -/
theorem fApply_keeps (cs : CoreSpecs) (op : String) (hs : Nat) (ho : Option Nat) (h : Nat) :
    AKeeps h (fApply op hs ho h) := by
  unfold fApply
  refine AKeeps.bind_read (nodeOwn_read hs) fun s => ?_
  refine AKeeps.bind_read (optNode_read nodeSame_read ho) fun o => ?_
  exact liftM_wrapF_keeps (cs.apply op s o none) h

theorem aCollectGarbage_keeps (cs : CoreSpecs) (h : Nat) : AKeeps h aCollectGarbage :=
  liftM_keeps cs.collectGarbage h

theorem aReorder_keeps (cs : CoreSpecs) (o : Option (List (String × Int))) (h : Nat) :
    AKeeps h (aReorder o) := liftM_keeps (cs.reorder o) h

theorem aDeclare_keeps (cs : CoreSpecs) (ns : List String) (h : Nat) : AKeeps h (aDeclare ns) :=
  liftM_keeps (cs.declare ns) h

theorem aAddVar_keeps (cs : CoreSpecs) (n : String) (l : Option Int) (h : Nat) :
    AKeeps h (aAddVar n l) := liftM_keeps (cs.addVar n l) h

/-- an operation followed by a read -/
theorem AKeeps.then_read {x : AM α} {f : α → AM β} {h : Nat} (hx : AKeeps h x)
    (hf : ∀ v, ARead (f v)) : AKeeps h (x >>= f) := by
  intro a hi hfr r a' he
  change AM.bind' x f a = (r, a') at he
  unfold AM.bind' at he
  cases hxa : x a with
  | mk r0 a1 =>
    rw [hxa] at he
    have k := hx a hi hfr r0 a1 hxa
    cases r0 with
    | error e =>
      simp only at he
      cases he
      exact k
    | ok v =>
      simp only at he
      have h2 := hf v a1
      rw [he] at h2
      simp only at h2
      subst h2
      exact k

theorem wrapF_keeps (h : Nat) (u : Int) : AKeeps h (wrapF h u) := by
  intro a hi hfr r a' he
  obtain ⟨i2, t2, hfr2, _⟩ := wrap_total a h u hi hfr r a' (Or.inr he)
  exact ⟨i2, hfr2, fun j v hj => by rw [t2]; exact ⟨hi.hmem j v hj, fun _ => rfl⟩⟩

theorem wrap_keeps (h : Nat) (u : Int) : AKeeps h (wrap h u) := by
  intro a hi hfr r a' he
  obtain ⟨i2, t2, hfr2, _⟩ := wrap_total a h u hi hfr r a' (Or.inl he)
  exact ⟨i2, hfr2, fun j v hj => by rw [t2]; exact ⟨hi.hmem j v hj, fun _ => rfl⟩⟩

theorem nodesAny_read : ∀ d, ARead (nodesAny d)
  | [] => ARead.pure _
  | (_, hv) :: rest => by
    unfold nodesAny
    exact ARead.bind (nodeAny_read hv) fun _ => ARead.bind (nodesAny_read rest) fun _ => ARead.pure _

theorem aLetArgs_read (d : ALetArg) : ARead (aLetArgs d) := by
  cases d with
  | bools d => exact ARead.pure _
  | names d => exact ARead.pure _
  | funs d => exact ARead.bind (nodesAny_read d) fun _ => ARead.pure _

theorem aLet_keeps (cs : CoreSpecs) (d : ALetArg) (hu : Nat) (h : Nat) : AKeeps h (aLet d hu h) := by
  unfold aLet
  refine AKeeps.bind_read (nodeIn_read hu) fun u => ?_
  split
  · exact AKeeps.of_read h (ARead.pure _)
  · refine AKeeps.bind_read (aLetArgs_read d) fun d' => ?_
    exact (wrapResult_keeps (cs.letOp d' u) h).then_read fun _ => ARead.pure _

/-- `Function.low` / `Function.high` (no hypothesis) -/
theorem fChild_keeps (high : Bool) (hs : Nat) (h : Nat) : AKeeps h (fChild high hs h) := by
  unfold fChild
  refine AKeeps.bind_read (nodeOwn_read hs) fun s => ?_
  refine AKeeps.bind_read (ARead.liftE _) fun p => ?_
  obtain ⟨_, c⟩ := p
  cases c with
  | none => exact AKeeps.of_read h (ARead.pure _)
  | some vw =>
    obtain ⟨v, w⟩ := vw
    exact (wrapF_keeps h _).then_read fun _ => ARead.pure _

/-- `copy.copy(f)` = `Function.__copy__` (no hypothesis): a second `Function` on the same
node with its own reference -/
theorem fCopy_keeps (hs : Nat) (h : Nat) : AKeeps h (fCopy hs h) := by
  unfold fCopy
  refine AKeeps.bind_read (nodeOwn_read hs) fun s => ?_
  exact (wrapF_keeps h s).then_read fun _ => ARead.pure _

/-- `configure(reordering=…)` only changes the threshold (no hypothesis) -/
theorem configure_keeps (r : Option Bool) : CoreKeeps (configure r) := by
  refine ⟨fun m ext hi hc r' m' he => ?_⟩
  have key : ∀ l, Inv { m with lastLen := l } ∧ Counts { m with lastLen := l } ext ∧
      Held m.tbl ({ m with lastLen := l } : Mgr).tbl ext :=
    fun l => ⟨⟨hi.wf, hi.pred, hi.freeGe, hi.free, hi.refOne, hi.refDom, hi.cache⟩, hc, Held.refl _ _⟩
  unfold configure at he
  change M.bind' M.get _ m = _ at he
  unfold M.bind' M.get at he
  simp only at he
  cases r with
  | none =>
    change (Except.ok m.lastLen.isSome, m) = _ at he
    cases he
    exact ⟨hi, hc, Held.refl _ _⟩
  | some b =>
    cases b with
    | true =>
      change (Except.ok m.lastLen.isSome, { m with lastLen := some (max Gen.reorderStarts m.len) }) = _ at he
      cases he
      exact key _
    | false =>
      change (Except.ok m.lastLen.isSome, { m with lastLen := none }) = _ at he
      cases he
      exact key _

theorem aConfigure_keeps (r : Option Bool) (h : Nat) : AKeeps h (aConfigure r) :=
  liftM_keeps (configure_keeps r) h

/-- `find_or_add(var, low, high)`: the wrapper adds no test of its own, so the guarantee
holds exactly when the core `find_or_add` keeps the invariants for the level and children
that are read from the current state (its documented precondition: the level is above both
children) -/
theorem aFindOrAdd_keepsAt (a : AMgr) (var : String) (hlow hhigh h : Nat)
    (hfoa : ∀ level lo hi, (levelOfVar var a.m).1 = .ok level → (nodeAny hlow a).1 = .ok lo →
      (nodeAny hhigh a).1 = .ok hi → CoreKeepsAt a.m (findOrAdd level lo hi)) :
    AKeepsAt a h (aFindOrAdd var hlow hhigh h) := by
  intro hi hfr r a' he
  have triv : AInv a ∧ (∀ j : Nat, j ≠ h → a.handles[j]? = a.handles[j]?) ∧
      (∀ (j : Nat) (u : Int), a.handles[j]? = some u →
        a.m.tbl.Mem u ∧ ∀ asg, denN a.m.tbl u asg = denN a.m.tbl u asg) :=
    ⟨hi, fun _ _ => rfl, fun j u hj => ⟨hi.hmem j u hj, fun _ => rfl⟩⟩
  unfold aFindOrAdd at he
  change AM.bind' (AM.liftM (levelOfVar var)) _ a = _ at he
  unfold AM.bind' at he
  have h1 := ARead.liftM (levelOfVar_read var) a
  cases hx1 : AM.liftM (levelOfVar var) a with
  | mk r1 a1 =>
    rw [hx1] at he h1
    simp only at h1
    subst h1
    have hl : (levelOfVar var a1.m).1 = r1 := by
      have := congrArg Prod.fst hx1
      unfold AM.liftM at this
      exact this
    cases r1 with
    | error e => simp only at he; cases he; exact triv
    | ok level =>
      simp only at he
      change AM.bind' (nodeAny hlow) _ a1 = _ at he
      unfold AM.bind' at he
      have h2 := nodeAny_read hlow a1
      cases hx2 : nodeAny hlow a1 with
      | mk r2 a2 =>
        rw [hx2] at he h2
        simp only at h2
        subst h2
        cases r2 with
        | error e => simp only at he; cases he; exact triv
        | ok lo =>
          simp only at he
          change AM.bind' (nodeAny hhigh) _ a2 = _ at he
          unfold AM.bind' at he
          have h3 := nodeAny_read hhigh a2
          cases hx3 : nodeAny hhigh a2 with
          | mk r3 a3 =>
            rw [hx3] at he h3
            simp only at h3
            subst h3
            cases r3 with
            | error e => simp only at he; cases he; exact triv
            | ok hi' =>
              simp only at he
              have hk := hfoa level lo hi' hl (by rw [hx2]) (by rw [hx3])
              exact wrapResult_keepsAt a3 hk h hi hfr r a' he

/-- `BDD.copy(u, other)` / `copy_bdd(u, other)` into another manager: a guarantee about the
*target* (the source is only read) -/
theorem aCopyTo_keeps (cs : CoreSpecs) (src : AMgr) (hu h : Nat) : AKeeps h (aCopyTo src hu h) := by
  intro a hi hfr r a' he
  unfold aCopyTo at he
  cases hx : nodeIn hu src with
  | mk r1 s1 =>
    rw [hx] at he
    cases r1 with
    | error e =>
      simp only at he; cases he
      exact ⟨hi, fun _ _ => rfl, fun j u hj => ⟨hi.hmem j u hj, fun _ => rfl⟩⟩
    | ok u =>
      simp only at he
      exact wrapResult_keeps (cs.copyBdd src.m.tbl u) h a hi hfr r a' he

theorem aCopyBddTo_keeps (cs : CoreSpecs) (src : AMgr) (hu h : Nat) :
    AKeeps h (aCopyBddTo src hu h) := by
  intro a hi hfr r a' he
  unfold aCopyBddTo at he
  cases hx : nodeOwn hu src with
  | mk r1 s1 =>
    rw [hx] at he
    cases r1 with
    | error e =>
      simp only at he; cases he
      exact ⟨hi, fun _ _ => rfl, fun j u hj => ⟨hi.hmem j u hj, fun _ => rfl⟩⟩
    | ok u =>
      simp only at he
      exact wrapResult_keeps (cs.copyBdd src.m.tbl u) h a hi hfr r a' he

theorem aCopyVars_keeps (cs : CoreSpecs) (src : Tbl) (names : List String) (h : Nat) :
    AKeeps h (aCopyVars src names) := liftM_keeps (cs.copyVars src names) h

/-! ### histories -/

/-- one step of a history in which the handles in `P` are never dropped: any operation that
creates at most the (fresh) handles `H`, or the drop of a live handle outside `P` -/
inductive AStep (P : Nat → Prop) : AMgr → AMgr → Prop
  | op {α : Type} (H : List Nat) (x : AM α) (hk : AKeepsL H x) (a : AMgr)
      (hf : ∀ h, h ∈ H → a.handles.contains h = false) (r : Except Err α) (a' : AMgr)
      (he : x a = (r, a')) : AStep P a a'
  | drop (h : Nat) (hP : ¬ P h) (a a' : AMgr) (u : Int) (hl : a.handles[h]? = some u)
      (he : drop h a = (.ok (), a')) : AStep P a a'

inductive AReach (P : Nat → Prop) : AMgr → AMgr → Prop
  | refl (a : AMgr) : AReach P a a
  | step {a b c : AMgr} : AReach P a b → AStep P b c → AReach P a c

/-- every live `Function` keeps denoting the same function (by variable name) through any
sequence of operations, collections and reorderings, no matter when other `Function`s are
dropped; and the count equation holds throughout -/
theorem autoref_live_den (P : Nat → Prop) {a a' : AMgr} (hi : AInv a) (hr : AReach P a a') :
    AInv a' ∧ ∀ h, P h → ∀ u, a.handles[h]? = some u →
      a'.handles[h]? = some u ∧ a'.m.tbl.Mem u ∧
      ∀ asg, denN a'.m.tbl u asg = denN a.m.tbl u asg := by
  induction hr with
  | refl => exact ⟨hi, fun h _ u hu => ⟨hu, hi.hmem h u hu, fun _ => rfl⟩⟩
  | step _ hs ih =>
    obtain ⟨ib, hb⟩ := ih
    cases hs with
    | op H x hk _ hf r _ he =>
      obtain ⟨ic, hfr, hd⟩ := hk _ ib hf r _ he
      refine ⟨ic, fun j hj u hu => ?_⟩
      obtain ⟨l1, _, d1⟩ := hb j hj u hu
      have hne : j ∉ H := by
        intro hjh
        rw [TreeMap.getElem?_eq_none_of_contains_eq_false (hf j hjh)] at l1
        cases l1
      obtain ⟨m2, d2⟩ := hd j u l1
      exact ⟨by rw [hfr j hne]; exact l1, m2, fun asg => (d2 asg).trans (d1 asg)⟩
    | drop h hP _ _ v hl he =>
      obtain ⟨a2, he2, i2, t2, hh2, _⟩ := drop_spec _ h v ib hl
      rw [he2] at he
      cases he
      refine ⟨i2, fun j hj u hu => ?_⟩
      obtain ⟨l1, m1, d1⟩ := hb j hj u hu
      have hne : j ≠ h := fun hjh => hP (hjh ▸ hj)
      refine ⟨by rw [hh2, getElem?_erase_ne _ _ _ hne]; exact l1, by rw [t2]; exact m1, fun asg => ?_⟩
      rw [t2]; exact d1 asg

/-! ### shutdown -/

/-- what `collect_garbage()` is assumed to do (a statement about `dd.bdd` alone): from a
state that satisfies the count equation it succeeds, keeps invariant and equation, and
leaves no stored node with count zero -/
structure GcSpec : Prop where
  gc : ∀ (m : Mgr) (ext : Nat → Nat), Inv m → Counts m ext →
    ∃ m', collectGarbage none m = (.ok (), m') ∧ Inv m' ∧ Counts m' ext ∧
      ∀ (u : Nat) (n : Nd), m'.tbl.node? u = some n → m'.ref[u]? ≠ some 0

/-- with no external reference at all, a table without zero-count nodes is empty:
a node of least level has no parent -/
theorem no_nodes_of_no_ext (m : Mgr) (hi : Inv m) (hc : Counts m (fun _ => 0))
    (hz : ∀ (u : Nat) (n : Nd), m.tbl.node? u = some n → m.ref[u]? ≠ some 0) :
    ∀ (u : Nat), m.tbl.node? u = none := by
  have key : ∀ (L : Nat) (u : Nat) (n : Nd), m.tbl.node? u = some n → n.lvl = L → False := by
    intro L
    induction L using Nat.strongRecOn with
    | _ L ih =>
      intro u n hn hl
      have hnm : NMem m.tbl u := Or.inr (by rw [hn]; rfl)
      have hr := hc u
      rw [if_pos hnm] at hr
      have hpos : 0 < indeg m.tbl u := by
        cases hd : indeg m.tbl u with
        | zero => rw [hd] at hr; exact absurd hr (hz u n hn)
        | succ k => omega
      obtain ⟨i, p, hp, hedge⟩ := indeg_pos m.tbl u hpos
      have hp' : m.tbl.node? i = some p := hp
      have hu2 := hi.wf.ge_two u n hn
      have hlev : ∀ (e : Int), e.natAbs = u → m.tbl.levelOf e = n.lvl := by
        intro e he
        unfold Tbl.levelOf
        rw [he]
        have : ¬ u = 1 := by omega
        simp [this, hn]
      have : p.lvl < n.lvl := by
        rcases hedge with h1 | h1
        · have := hi.wf.lo_lt i p hp'; rw [hlev _ h1] at this; exact this
        · have := hi.wf.hi_lt i p hp'; rw [hlev _ h1] at this; exact this
      exact ih p.lvl (by omega) i p hp' rfl
  intro u
  cases hn : m.tbl.node? u with
  | none => rfl
  | some n => exact absurd rfl (fun h : n.lvl = n.lvl => key n.lvl u n hn h)

/-- once every `Function` of a manager is gone, the manager's shutdown check
(`dd.bdd.BDD.__del__`) passes: after the terminal's own reference is released and a
collection, only the terminal remains and every count is zero -/
theorem autoref_shutdown_of_gcSpec (gs : GcSpec) (a : AMgr) (hi : AInv a)
    (he : a.handles.isEmpty = true) :
    ∃ m', shutdown a.m = (.ok (), m') ∧ (∀ u : Nat, m'.tbl.node? u = none) ∧
      (∀ (k c : Nat), m'.ref[k]? = some c → c = 0) := by
  have hext : ∀ k, aext a k = if k = 1 then 1 else 0 := by
    intro k; unfold aext; rw [hcount_of_isEmpty _ _ he]; simp
  have hone : a.m.tbl.Mem (1 : Int) := Or.inl rfl
  have hr1 := hi.counts.of_mem hone
  have h1 : (1 : Int).natAbs = 1 := rfl
  rw [h1, hext 1] at hr1
  simp only [if_true] at hr1
  obtain ⟨m1, hd, ht1, i1, c1⟩ := decref_spec a.m (aext a) 1 hi.inv hi.counts hone (by rw [h1, hext 1]; simp)
  have c1' : Counts m1 (fun _ => 0) := by
    refine c1.congr fun k => ?_
    rw [hext k, h1]
    by_cases hk : k = 1
    · subst hk; simp
    · have : ¬ 1 = k := fun h => hk h.symm
      simp [hk, this]
  obtain ⟨m2, hg, i2, c2, hz⟩ := gs.gc m1 _ i1 c1'
  have hnone := no_nodes_of_no_ext m2 i2 c2 hz
  have hzero : ∀ (k c : Nat), m2.ref[k]? = some c → c = 0 := by
    intro k c hk
    rw [c2 k] at hk
    split at hk
    · next hm =>
      have : indeg m2.tbl k = 0 := by
        cases hd : indeg m2.tbl k with
        | zero => rfl
        | succ j =>
          obtain ⟨i, p, hp, _⟩ := indeg_pos m2.tbl k (by omega)
          have : m2.tbl.node? i = some p := hp
          rw [hnone i] at this; cases this
      rw [this] at hk
      cases hk; rfl
    · cases hk
  refine ⟨m2, ?_, hnone, hzero⟩
  have hany : (m2.ref.toList.any (fun (kv : Nat × Nat) => kv.2 != 0)) = false := by
    rw [List.any_eq_false]
    intro kv hkv
    have := hzero kv.1 kv.2 (TreeMap.mem_toList_iff_getElem?_eq_some.mp hkv)
    simp [this]
  unfold shutdown
  change M.bind' (refOf 1) _ a.m = _
  unfold M.bind'
  have hrefOf : refOf 1 a.m = (.ok (indeg a.m.tbl 1 + 1), a.m) := by
    unfold refOf; rw [h1, hr1]
  rw [hrefOf]
  simp only
  change M.bind' (if indeg a.m.tbl 1 + 1 > 0 then decref 1 else pure ()) _ a.m = _
  unfold M.bind'
  rw [if_pos (by omega), hd]
  simp only
  change M.bind' (collectGarbage none) _ m1 = _
  unfold M.bind'
  rw [hg]
  simp only
  change M.bind' M.get _ m2 = _
  unfold M.bind' M.get
  simp only
  unfold M.assert
  rw [hany]
  rfl

end DD
