/-
  DDProofs.ImageF5 — what `_image` really returns on the witness of finding F5:
  order `x < xp`, `trans = ¬x ∧ ¬xp` (reference -4 of `imgM`), `target = x xor xp` (reference
  -3), `rename = {x: xp}` (levels `{0: 1}`), `qvars = {xp}`, existential quantification.
  The documented meaning `∃ xp. trans ∧ target[xp/x]` is FALSE (`xp xor xp`); the code returns
  the function `¬x`.

  The run is followed symbolically: the two outer calls (whose second operand depends on the
  rename target) are unfolded, the inner calls are covered by `imageF_spec_preimage`, the calls
  of `ite` / `find_or_add` by their specifications.
-/
import DDProofs.ImageExample
open Std

namespace DD

/-- `_image(-1, v, ...)` returns FALSE at once -/
theorem imageF_left_false (umap vmap : Option (List (Int × Int))) (ubad vbad : List Int) (Q : List Nat)
    (fa : Bool) (f : Nat) (v : Int) (cache : HashMap (Int × Int) Int) (m : Mgr) :
    imageF umap vmap ubad vbad Q fa (f+1) (-1) v cache m = (.ok (-1, cache), m) := by
  unfold imageF; simp

/-- the example manager with the context flag set to `c` (the decorated bodies run with the
flag set) -/
def imgMc (c : Bool) : Mgr := { imgM with ctx := c }

theorem imgMc_inv (c : Bool) : Inv (imgMc c) := imgM_inv.setCtx c
theorem imgMc_nvars' (c : Bool) : (imgMc c).nvars = 2 := imgM_nvars'
theorem imgMc_false : imgMc false = imgM := rfl
theorem imgMc_tbl (c : Bool) : (imgMc c).tbl = imgM.tbl := rfl

/-- the run of `_image` on the F5 witness, whatever the context flag: it succeeds and returns a
reference of `¬x` -/
theorem imgM_F5_run_ctx (cx : Bool) :
    ∃ r c m', imageF none (some [(0, 1)]) [] [] [1] false 8 (-4) (-3) {} (imgMc cx) = (.ok (r, c), m') ∧
      ∀ a, den m'.tbl r a = !a 0 := by
  have hW := (imgMc_inv cx).wf.toWF
  -- innermost call `(1, xp)`: covered by the specification (`xp` is no rename target)
  obtain ⟨r1, c1, m1, e1, hI1, hE1, hF1, _, hr1, hd1⟩ := imageF_spec_preimage [(0, 1)] [1] false
    (fun j => j) (fun j => j = 1) 6 (imgMc cx) 1 2 {} (imgMc_inv cx) rfl (mem_one _) (imgM_mem 2 (by decide))
    (fun j h => by
      have h1 := h.ge hW
      have h2 := h.lt_nvars hW
      rw [imgMc_tbl, imgM_levelOf2] at h1
      rw [imgMc_tbl, imgM_nvars] at h2
      omega)
    (fun j hj => by subst hj; rw [(imgMc_nvars' cx)]; decide)
    (by rw [(imgMc_nvars' cx)]; decide)
    (fun j j' hj hj' h => by omega)
    (IMemo.empty _ _ _ _ _)
    (by rw [(imgMc_nvars' cx), imgMc_tbl, imgM_levelOf1, imgM_levelOf2]; omega)
  have hoff1 : m1.lastLen = none := by rw [hF1.lastLen]; rfl
  have hr1t : ∀ a, den m1.tbl r1 a = true := by
    intro a
    rw [hd1 a]
    refine ⟨upd a 1 true, agreeOff_upd (by simp) true (AgreeOff.refl _ _), ?_⟩
    simp [imgMc_tbl, den_one, imgM_den2, upd]
  -- `ite(p, 1, q)` at the quantified level 1
  obtain ⟨r2, m2, e2, hp2⟩ := ite_spec_off m1 hI1 hoff1 r1 1 (-1) hr1 (mem_one _) (mem_neg_one _)
  have hr2t : ∀ a, den m2.tbl r2 a = true := by
    intro a
    rw [hp2.den a, hr1t a, den_one]
    rfl
  have hoff2 : m2.lastLen = none := by rw [hp2.frame.lastLen]; exact hoff1
  -- the call `(¬xp, x xor xp)`
  have hpcall : imageF none (some [(0, 1)]) [] [] [1] false 7 (-2) (-3) {} (imgMc cx) =
      (.ok (r2, c1.insert (-2, -3) r2), m2) := by
    show imageF none (some [(0, 1)]) [] [] [1] false (6+1) (-2) (-3) {} (imgMc cx) = _
    unfold imageF
    have hA : ¬ ((-2 : Int) = -1 ∨ (-3 : Int) = -1) := by decide
    have hB : ¬ ((-2 : Int) = 1 ∧ (-3 : Int) = 1) := by decide
    have h1 : (imgMc cx).tbl.levelOf? (-2) = some 1 := by rw [imgMc_tbl]; decide
    have h2 : (imgMc cx).tbl.levelOf? (-3) = some 0 := by rw [imgMc_tbl]; decide
    have hz : min ((1 : Nat) : Int) 1 = 1 := by decide
    have hi : mapLvl (some [(0, 1)]) ((0 : Nat) : Int) = 1 := by decide
    have hc1 : topCofactorI (imgMc cx).tbl (-2) 1 = .ok (1, -1) := by rfl
    have hc2 : topCofactorI (imgMc cx).tbl (-3) (((0 : Nat) : Int) + 1 - 1) = .ok (2, -2) := by rfl
    have hq : (0 : Int) ≤ 1 ∧ [1].contains (1 : Int).toNat = true := by decide
    simp only [hA, hB, if_false, List.contains_nil, Bool.false_eq_true, HashMap.getElem?_empty, h1, h2, hz, hi, hc1, hc2, e1,
      imageF_left_false, hq, and_self, if_true, Bool.false_eq_true, e2]
  -- the top call `(¬x ∧ ¬xp, x xor xp)`: level 0 is not quantified
  have hn1 : m1.nvars = 2 := by
    have := hE1.nvars
    rw [imgMc_tbl, imgM_nvars] at this
    exact this.symm
  have hn2 : m2.nvars = 2 := by rw [hp2.step.nvars]; exact hn1
  obtain ⟨g, m3, e3, hs3, hg3, _, hd3⟩ := varNode_off m2 hp2.inv hoff2 0 (by omega)
  obtain ⟨r4, m4, e4, hp4⟩ := ite_spec_off m3 hs3.inv (hs3.off hoff2) g (-1) r2 hg3
    (mem_neg_one _) (hs3.ext.mem hp2.mem)
  refine ⟨r4, (c1.insert (-2, -3) r2).insert (-4, -3) r4, m4, ?_, ?_⟩
  · show imageF none (some [(0, 1)]) [] [] [1] false (7+1) (-4) (-3) {} (imgMc cx) = _
    unfold imageF
    have hA : ¬ ((-4 : Int) = -1 ∨ (-3 : Int) = -1) := by decide
    have hB : ¬ ((-4 : Int) = 1 ∧ (-3 : Int) = 1) := by decide
    have h1 : (imgMc cx).tbl.levelOf? (-4) = some 0 := by rw [imgMc_tbl]; decide
    have h2 : (imgMc cx).tbl.levelOf? (-3) = some 0 := by rw [imgMc_tbl]; decide
    have hi : mapLvl (some [(0, 1)]) ((0 : Nat) : Int) = 1 := by decide
    have hz : min ((0 : Nat) : Int) 1 = 0 := by decide
    have hc1 : topCofactorI (imgMc cx).tbl (-4) 0 = .ok (-2, -1) := by rfl
    have hc2 : topCofactorI (imgMc cx).tbl (-3) (((0 : Nat) : Int) + 0 - 1) = .ok (-3, -3) := by rfl
    have hq : ¬ ((0 : Int) ≤ 0 ∧ [1].contains (0 : Int).toNat = true) := by decide
    have hm : mapLvl none (0 : Int) = ((0 : Nat) : Int) := by decide
    simp only [hA, hB, if_false, List.contains_nil, Bool.false_eq_true, HashMap.getElem?_empty, h1, h2, hi, hz, hc1, hc2, hpcall,
      imageF_left_false, hq, hm, e3, e4]
  · intro a
    rw [hp4.den a, hd3 a, den_neg_one, den_ext hs3.ext hp2.inv.wf.toWF r2 a hp2.mem, hr2t a]
    cases a 0 <;> rfl


/-- the run of `_image` on the F5 witness: it succeeds and returns a reference of `¬x` -/
theorem imgM_F5_run :
    ∃ r c m', imageF none (some [(0, 1)]) [] [] [1] false 8 (-4) (-3) {} imgM = (.ok (r, c), m') ∧
      ∀ a, den m'.tbl r a = !a 0 := imgM_F5_run_ctx false

end DD
