/-
  DDProofs.Capacity3Cube — `BDD.cube` with `max_nodes = cap`: the twin over (`var`, `apply`) is the
  model; the body is a loop of nested decorated calls, each total on arbitrary arguments; the
  decorated call keeps `DynInv` after ANY outcome.
-/
import DD.Capacity3Cube
import DDProofs.Capacity3Rename
import DDProofs.DynCube
open Std

namespace DD

theorem cubeG_model : cubeG var apply = cube := by
  funext dvars
  rw [cube_eq]
  rfl

def VarNestedTot (varX : String → M Int) : Prop :=
  ∀ (m : Mgr), Inv m → m.ctx = true → ∀ name, TotE m (varX name m)

def ApplyNestedTot (applyX : String → Int → Option Int → Option Int → M Int) : Prop :=
  ∀ (m : Mgr), Inv m → m.ctx = true → ∀ op u v w, TotE m (applyX op u v w m)

/-- `apply` over nested `ite` / `quantify` that are total is total (inside a context) -/
theorem applyG_nested_totE (iteX : Int → Int → Int → M Int) (quantX : Int → List Key → Bool → M Int)
    (hiteT : IteTotX iteX)
    (hqT : ∀ (m : Mgr), Inv m → m.ctx = true → ∀ b q fa, TotE m (quantX b q fa m)) :
    ApplyNestedTot (applyG iteX quantX) := by
  intro m hI hc op u v w
  have same : ∀ e : Err, e ≠ .needsReordering → TotE m ((.error e, m) : Except Err Int × Mgr) :=
    fun e he => TotE.same hI _ (by simpa using he)
  unfold applyG
  split
  · next e heq =>
    refine same e ?_
    intro he; subst he
    unfold assertOperatorArity at heq
    repeat' split at heq
    all_goals simp at heq
  split
  · exact same _ (by simp)
  split
  · exact same _ (by simp)
  split
  · exact same _ (by simp)
  split
  · exact same _ (by simp)
  split
  · exact TotE.same hI _ (by simp)
  · split
    · exact same _ (by simp)
    split
    · exact same _ (by simp)
    split
    · exact hiteT m hI hc _ _ _
    · exact same _ (fun he => by subst he; exact atomVal_noNR _ _ _ _ (by assumption))
    · exact same _ (fun he => by subst he; exact atomVal_noNR _ _ _ _ (by assumption))
    · exact same _ (fun he => by subst he; exact atomVal_noNR _ _ _ _ (by assumption))
  · split
    · exact same _ (by simp)
    split
    · split
      · next e heq => exact same e (fun he => by subst he; exact support_noNR _ _ heq)
      · exact hqT m hI hc _ _ _
    · exact same _ (fun he => by subst he; exact atomVal_noNR _ _ _ _ (by assumption))
    · exact same _ (fun he => by subst he; exact atomVal_noNR _ _ _ _ (by assumption))
  · exact same _ (by simp)
  · exact same _ (by simp)

theorem cubeStepG_totE (varX : String → M Int) (applyX : String → Int → Option Int → Option Int → M Int)
    (hv : VarNestedTot varX) (ha : ApplyNestedTot applyX)
    (m : Mgr) (hI : Inv m) (hc : m.ctx = true) (x : String × Bool) (r : Int) :
    TotE m (cubeStepG varX applyX x r m) := by
  unfold cubeStepG
  refine TotE.bind (hv m hI hc x.1) ?_
  intro g m1 hs1
  have hc1 : m1.ctx = true := by rw [hs1.frame.ctx]; exact hc
  refine TotE.bind (ha m1 hs1.inv hc1 "and" _ (some r) none) ?_
  intro r' m2 hs2
  exact TotE.ok (StepK.refl hs2.inv) _

theorem cubeLoopG_totE (varX : String → M Int) (applyX : String → Int → Option Int → Option Int → M Int)
    (hv : VarNestedTot varX) (ha : ApplyNestedTot applyX) :
    ∀ (l : List (String × Bool)) (m : Mgr) (r : Int), Inv m → m.ctx = true →
    TotE m (forIn l r (cubeStepG varX applyX) m)
  | [], m, r, hI, _ => by
    show TotE m ((Pure.pure r : M Int) m)
    exact TotE.ok (StepK.refl hI) r
  | x :: l, m, r, hI, hc => by
    rw [List.forIn_cons]
    refine TotE.bind (cubeStepG_totE varX applyX hv ha m hI hc x r) ?_
    intro s m1 hs1
    have hc1 : m1.ctx = true := by rw [hs1.frame.ctx]; exact hc
    cases s with
    | done b => exact TotE.ok (StepK.refl hs1.inv) b
    | yield b => exact cubeLoopG_totE varX applyX hv ha l m1 b hs1.inv hc1

theorem cubeBodyG_totE (varX : String → M Int) (applyX : String → Int → Option Int → Option Int → M Int)
    (hv : VarNestedTot varX) (ha : ApplyNestedTot applyX)
    (m : Mgr) (hI : Inv m) (hc : m.ctx = true) (dvars : List (String × Bool)) :
    TotE m (cubeBodyG varX applyX dvars m) := by
  unfold cubeBodyG
  refine TotE.bind (cubeLoopG_totE varX applyX hv ha dvars m 1 hI hc) ?_
  intro r m1 hs
  exact TotE.ok (StepK.refl hs.inv) r

theorem varCap_nestedTot (cap : Nat) : VarNestedTot (varCap cap) :=
  fun m hI hc name => TotE.nested hc (varCapBody_totE cap m hI name)

theorem applyCapQ_nestedTot (cap : Nat) : ApplyNestedTot (applyCapQ cap) :=
  applyG_nested_totE _ _ (iteCap_totX cap)
    (fun m hI hc b q fa => TotE.nested hc
      (quantifyBodyG_totE _ _ _ (findOrAddCap_foaX cap) (iteCap_nestedX cap) m hI hc b q fa))

/-- `BDD.cube` with capacity: ANY names (undeclared ones included), whatever it returns or raises -/
theorem cubeCap_total_dyn (cap : Nat) (ext : Nat → Nat) (m : Mgr) (hD : DynInv ext m)
    (dvars : List (String × Bool)) : DynTotal ext m (cubeCap cap dvars m) :=
  tryToReorder_total_dyn ext (siftContract ext) _
    (fun m0 hI hc _ => cubeBodyG_totE _ _ (varCap_nestedTot cap) (applyCapQ_nestedTot cap) m0 hI hc dvars)
    m hD

end DD
