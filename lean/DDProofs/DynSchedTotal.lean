/-
  DDProofs.DynSchedTotal — every decorated call, WHATEVER it returns or raises — the model's own
  `.sched` report included — keeps the manager and every held reference.

  DDProofs.DynSched states the outcome of a decorated call under an arbitrary recorded schedule
  as "documented result, or `.sched`" and says nothing about the state after `.sched`.  With
  DDProofs.DynSchedKeep (a schedule mismatch inside sifting leaves the reordering invariant, the
  held references and the names intact) the state after `.sched` is as good as after any rejected
  call, except that `_last_len` stays `None` (the model's `.sched` is raised by `reorder(bdd)`,
  which runs between the two `try` blocks of `_try_to_reorder`).  This makes `.sched` one more
  exception in the sense of C17 — which is what the layers built on "every outcome keeps the
  invariant" (autoref: `AKeeps`) need — and gives: the schedule left is a SUFFIX of the one given.
-/
import DDProofs.DynSchedOps
import DDProofs.DynSchedKeep
open Std

namespace DD

/-- the contract of sifting, every outcome: from `DynInvS` with requests disabled, `reorder(bdd)`
returns or reports `.sched`; in both cases `DynInvS` again, requests disabled, same `nvars`, names,
roots, held references by name, and the schedule left is a suffix of the schedule given -/
structure SiftKeepS (ext : Nat → Nat) : Prop where
  run : ∀ (m : Mgr), DynInvS ext m → m.lastLen = none →
    ∃ r m', reorder none m = (r, m') ∧ (r = .ok () ∨ (r = .error .sched ∧ m.sched ≠ [])) ∧
      DynInvS ext m' ∧ m'.lastLen = none ∧ m'.nvars = m.nvars ∧
      (∀ s, m'.tbl.vars.contains s = m.tbl.vars.contains s) ∧
      (∀ u : Int, HeldX ext u → ∀ σ, denN m'.tbl u σ = denN m.tbl u σ) ∧
      m'.roots = m.roots ∧ m'.sched <:+ m.sched

theorem siftKeepS (ext : Nat → Nat) : SiftKeepS ext := by
  refine ⟨fun m hD hoff => ?_⟩
  obtain ⟨r, m', hrun, hr, hR', hrel⟩ := sift_every_outcome ext m hD.reorderInv hD.nvars
  refine ⟨r, m', hrun, ?_, ⟨hR'.inv, hR'.order, hR'.refExact, by rw [hrel.ctx]; exact hD.ctx,
    hR'.rootsHeld, by rw [hrel.nvars]; exact hD.nvars⟩, by rw [hrel.lastLen]; exact hoff,
    hrel.nvars, hrel.names, ?_, hrel.roots, hrel.sched⟩
  · rcases hr with h | h
    · exact Or.inl h
    · refine Or.inr ⟨h, fun hs => ?_⟩
      obtain ⟨m'', hrun'', _⟩ := applySifting_total_default ext m hD.reorderInv hD.nvars hs
      have : reorder none m = (.ok (), m'') := hrun''
      rw [hrun, h] at this
      cases this
  · intro u hu σ
    exact heldX_denN_of_heldSame hD.inv hR'.inv hD.refs hR'.refExact hrel.held hu σ

/-- what EVERY decorated call leaves behind, the model's `.sched` included: `DynKeptS` without
"reordering enabled iff it was", with the suffix property -/
structure DynKeptW (ext : Nat → Nat) (m m' : Mgr) : Prop where
  inv : DynInvS ext m'
  names : ∀ s, m'.tbl.vars.contains s = m.tbl.vars.contains s
  held : ∀ w, HeldX ext w → m'.tbl.Mem w ∧ ∀ σ, denN m'.tbl w σ = denN m.tbl w σ
  roots : m'.roots = m.roots
  /-- the schedule left is a suffix of the schedule given -/
  sched : m'.sched <:+ m.sched

theorem DynKeptW.ofStep {ext : Nat → Nat} {m m' : Mgr} (hD : DynInvS ext m) (hs : StepK m m') :
    DynKeptW ext m m' := by
  have hW := hD.inv.wf.toWF
  refine ⟨hD.step hs, hs.names, fun w hw => ?_, hs.frame.roots,
    by rw [hs.frame.sched]; exact List.suffix_refl _⟩
  have hmw := hw.mem hD.refs
  exact ⟨hs.ext.mem hmw, fun σ => hs.denN hW hmw σ⟩

/-- the driver's view: schedule put in, remainder dropped -/
theorem DynKeptW.driver {ext : Nat → Nat} {m m' : Mgr} {sch : List SchedItem}
    (h : DynKeptW ext { m with sched := sch } m') :
    DynInv ext { m' with sched := [] } ∧
    (∀ s, m'.tbl.vars.contains s = m.tbl.vars.contains s) ∧
    (∀ w, HeldX ext w → m'.tbl.Mem w ∧ ∀ σ, denN m'.tbl w σ = denN m.tbl w σ) ∧
    m'.roots = m.roots ∧ m'.sched <:+ sch :=
  ⟨h.inv.clear, h.names, h.held, h.roots, h.sched⟩

/-- the observable outcome of a decorated call, EVERY outcome accounted for: the documented result
(with everything kept and reordering enabled iff it was); or an exception that is not the internal
signal — everything kept; reordering enabled iff it was, unless the exception is the model's
`.sched`, which can only come with a recorded schedule -/
def DynResultK {α} (ext : Nat → Nat) (Doc : Tbl → α → Tbl → Prop) (m : Mgr) :
    Except Err α × Mgr → Prop
  | (.ok r, m') => DynPostS ext Doc m r m' ∧ m'.sched <:+ m.sched
  | (.error e, m') => e ≠ .needsReordering ∧ DynKeptW ext m m' ∧
      (m'.lastLen.isSome = m.lastLen.isSome ∨ (e = .sched ∧ m.sched ≠ []))

/-- … for calls with arbitrary arguments -/
def DynTotalK {α} (ext : Nat → Nat) (m : Mgr) (res : Except Err α × Mgr) : Prop :=
  res.1 ≠ .error .needsReordering ∧ DynKeptW ext m res.2 ∧
  (res.2.lastLen.isSome = m.lastLen.isSome ∨ (res.1 = .error .sched ∧ m.sched ≠ []))

theorem DynResultK.total {α} {ext : Nat → Nat} {Doc : Tbl → α → Tbl → Prop} {m : Mgr}
    {res : Except Err α × Mgr} (h : DynResultK ext Doc m res) : DynTotalK ext m res := by
  obtain ⟨r, m'⟩ := res
  cases r with
  | ok r =>
    exact ⟨(fun h' => by cases h'), ⟨h.1.inv, h.1.names, h.1.held, h.1.roots, h.2⟩, Or.inl h.1.enabled⟩
  | error e =>
    refine ⟨fun h' => h.1 (by cases h'; rfl), h.2.1, ?_⟩
    rcases h.2.2 with h' | ⟨h', h''⟩
    · exact Or.inl h'
    · exact Or.inr ⟨by rw [h'], h''⟩

theorem DynTotalK.same {α} {ext : Nat → Nat} {m : Mgr} (hD : DynInvS ext m) (r : Except Err α)
    (h : r ≠ .error .needsReordering) : DynTotalK ext m (r, m) :=
  ⟨h, ⟨hD, fun _ => rfl, fun w hw => ⟨hw.mem hD.refs, fun _ => rfl⟩, rfl, List.suffix_refl _⟩, Or.inl rfl⟩

/-- GENERIC, EVERY OUTCOME: `_try_to_reorder` around a body that may fail, under an arbitrary
recorded schedule (hypotheses on the body as in `tryToReorder_rejected`) -/
theorem tryToReorder_rejectedK {α} (ext : Nat → Nat) (hS : SiftKeepS ext) (f : M α)
    (ops : List Int) (Pre : Tbl → Prop) (Doc : Tbl → α → Tbl → Prop)
    (hbody : ∀ m0 : Mgr, Inv m0 → m0.ctx = true → OrderOK m0.tbl → Pre m0.tbl →
      (∀ u ∈ ops, m0.tbl.Mem u) → OutcomeE m0 (fun r m1 => Doc m0.tbl r m1.tbl) (f m0))
    (hpre : ∀ t t', Bridge ops t t' → Pre t → Pre t')
    (hdoc : ∀ t t' r t'', Bridge ops t t' → Pre t → Doc t' r t'' → Doc t r t'')
    (m : Mgr) (hD : DynInvS ext m) (hops : ∀ u ∈ ops, HeldX ext u) (hpre0 : Pre m.tbl) :
    DynResultK ext Doc m (tryToReorder f m) := by
  have hI := hD.inv
  have hW := hI.wf.toWF
  have hmem0 : ∀ u ∈ ops, m.tbl.Mem u := fun u hu => (hops u hu).mem hD.refs
  have h1 := hbody { m with ctx := true } (hI.setCtx true) rfl hD.order hpre0 hmem0
  rcases h1.cases with ⟨r, m1, he, hs, hdoc1⟩ | ⟨m1, he, hs, ha⟩ | ⟨e, m1, he, hne, hs⟩
  · -- no request fired, the body returned
    rw [tryToReorder_ok f m r m1 he]
    have hs' : StepK m { m1 with ctx := m.ctx } := hs.ofCtx true
    have hk := DynKeptS.ofStep hD hs'
    exact ⟨⟨hk.inv, hdoc1, hk.enabled, hk.names, hk.held, hk.roots, hk.sched⟩,
      (DynKeptW.ofStep hD hs').sched⟩
  · -- the attempt was aborted by a request: only nodes were added
    let m2 : Mgr := { m1 with ctx := m.ctx, lastLen := none }
    have hs2 : StepK m { m1 with ctx := m.ctx } := hs.ofCtx true
    have hD2 : DynInvS ext m2 := (hD.step hs2).setLastLen none
    have hsch2 : m2.sched = m.sched := hs.frame.sched
    obtain ⟨rr, m3, hre, hrr, hD3, hl3, hnv3, hnames3, hden3, hroots3, hsch3⟩ := hS.run m2 hD2 rfl
    have hW3 := hD3.inv.wf.toWF
    have hsuf3 : m3.sched <:+ m.sched := by rw [← hsch2]; exact hsch3
    -- what is kept up to the state after sifting
    have hnames : ∀ s, m3.tbl.vars.contains s = m.tbl.vars.contains s := by
      intro s; rw [hnames3 s]; exact hs2.names s
    have hheld : ∀ w, HeldX ext w → m3.tbl.Mem w ∧ ∀ σ, denN m3.tbl w σ = denN m.tbl w σ := by
      intro w hw
      refine ⟨hw.mem hD3.refs, fun σ => ?_⟩
      rw [hden3 w hw σ]
      exact hs2.denN hW (hw.mem hD.refs) σ
    have hroots : m3.roots = m.roots := by
      rw [hroots3]
      show m1.roots = m.roots
      rw [hs.frame.roots]
    rcases hrr with rfl | ⟨rfl, hne⟩
    rotate_left
    · -- sifting reports that the recorded schedule does not fit: the state is kept all the same
      rw [tryToReorder_reorder_raises f m m1 m3 .sched hD.ctx he hre]
      exact ⟨(fun h => by cases h), ⟨hD3, hnames, hheld, hroots, hsuf3⟩,
        Or.inr ⟨rfl, by rw [← hsch2]; exact hne⟩⟩
    have hB : Bridge ops m.tbl m3.tbl := by
      refine ⟨hW, hW3, hD.order, hD3.order, ?_, hnames, hmem0, fun u hu => hheld u (hops u hu)⟩
      show m3.nvars = m.nvars
      rw [hnv3]; exact hs2.nvars
    have h2 := hbody { m3 with ctx := true } (hD3.inv.setCtx true) rfl hD3.order
      (hpre _ _ hB hpre0) (fun u hu => (hB.ops u hu).1)
    have hoff3 : ¬ Armed { m3 with ctx := true } := by
      intro ha4
      have := ha4.2
      rw [show ({ m3 with ctx := true } : Mgr).lastLen = m3.lastLen from rfl, hl3] at this
      exact Bool.noConfusion this
    have hen : (some (Gen.growthFactor * m3.len)).isSome = m.lastLen.isSome := by
      have := ha.2
      rw [show ({ m with ctx := true } : Mgr).lastLen = m.lastLen from rfl] at this
      rw [this]; rfl
    have hfinal : ∀ m4 : Mgr, StepK { m3 with ctx := true } m4 →
        DynKeptW ext m
          { m4 with ctx := m3.ctx, lastLen := some (Gen.growthFactor * m3.len) } := by
      intro m4 hs4
      have hs5 : StepK m3 { m4 with ctx := m3.ctx } := hs4.ofCtx true
      refine ⟨(hD3.step hs5).setLastLen _, ?_, ?_, ?_, ?_⟩
      · intro s
        show m4.tbl.vars.contains s = _
        rw [hs5.names s]; exact hnames s
      · intro w hw
        have hm3 := hw.mem hD3.refs
        refine ⟨hs5.ext.mem hm3, fun σ => ?_⟩
        show denN m4.tbl w σ = _
        rw [hs5.denN hW3 hm3 σ]; exact (hheld w hw).2 σ
      · show m4.roots = m.roots
        rw [hs4.frame.roots]; exact hroots
      · show m4.sched <:+ m.sched
        rw [hs4.frame.sched]; exact hsuf3
    rcases h2.cases with ⟨r, m4, he4, hs4, hdoc4⟩ | ⟨m4, _, _, ha4⟩ | ⟨e, m4, he4, hne4, hs4⟩
    · rw [tryToReorder_retry f m m1 m3 m4 r hD.ctx he hre he4]
      have hk := hfinal m4 hs4
      exact ⟨⟨hk.inv, hdoc _ _ _ _ hB hpre0 hdoc4, hen, hk.names, hk.held, hk.roots,
        fun h0 => by have := hk.sched; rw [h0] at this; exact List.suffix_nil.mp this⟩, hk.sched⟩
    · exact absurd ha4 hoff3
    · rw [tryToReorder_retry_err f m m1 m3 m4 e hD.ctx he hre he4 hne4]
      exact ⟨hne4, hfinal m4 hs4, Or.inl hen⟩
  · -- the first attempt is rejected
    rw [tryToReorder_err f m e m1 he hne]
    have hs' : StepK m { m1 with ctx := m.ctx } := hs.ofCtx true
    exact ⟨hne, DynKeptW.ofStep hD hs', Or.inl (by show m1.lastLen.isSome = _; rw [hs.frame.lastLen])⟩

/-- bodies accepting ARBITRARY arguments, every outcome -/
theorem tryToReorder_total_dynK {α} (ext : Nat → Nat) (f : M α)
    (hbody : ∀ m0 : Mgr, Inv m0 → m0.ctx = true → OrderOK m0.tbl → TotE m0 (f m0))
    (m : Mgr) (hD : DynInvS ext m) : DynTotalK ext m (tryToReorder f m) :=
  (tryToReorder_rejectedK ext (siftKeepS ext) f [] (fun _ => True) (fun _ _ _ => True)
    (fun m0 hI hc hO _ _ => (hbody m0 hI hc hO).toE) (fun _ _ _ _ => trivial)
    (fun _ _ _ _ _ _ _ => trivial) m hD (fun _ h => by cases h) trivial).total

/-- well-formed calls, every outcome: from a two-outcome body -/
theorem tryToReorder_transparentK {α} (ext : Nat → Nat) (f : M α)
    (ops : List Int) (Pre : Tbl → Prop) (Doc : Tbl → α → Tbl → Prop)
    (hbody : ∀ m0 : Mgr, Inv m0 → m0.ctx = true → OrderOK m0.tbl → Pre m0.tbl →
      (∀ u ∈ ops, m0.tbl.Mem u) → Outcome m0 (fun r m1 => Doc m0.tbl r m1.tbl) (f m0))
    (hpre : ∀ t t', Bridge ops t t' → Pre t → Pre t')
    (hdoc : ∀ t t' r t'', Bridge ops t t' → Pre t → Doc t' r t'' → Doc t r t'')
    (m : Mgr) (hD : DynInvS ext m) (hops : ∀ u ∈ ops, HeldX ext u) (hpre0 : Pre m.tbl) :
    DynResultK ext Doc m (tryToReorder f m) :=
  tryToReorder_rejectedK ext (siftKeepS ext) f ops Pre Doc
    (fun m0 hI hc hO hp hm => (hbody m0 hI hc hO hp hm).toE) hpre hdoc m hD hops hpre0

end DD
