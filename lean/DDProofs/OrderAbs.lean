/-
  DDProofs.OrderAbs — the drivers above `swap` (`_shift`, `_sort_to_order`,
  `reorder_to_pairs`, `_apply_sifting`), proved against an ABSTRACT contract of one adjacent
  swap (`SwapOK`): the call succeeds (or reports a schedule mismatch of the model), keeps a
  state predicate `P`, establishes a transitive relation `R` with the state before (e.g. "every
  held reference still denotes the same function"), and exchanges exactly the names at levels
  `i`, `i+1`.  The node-level proof of that contract is in `DDProofs.SwapBody`.

  * `swap_levels_eq`, `swap_levels_eq'` : `swap(i, i±1, levels)` is the body on `(i, i+1)`.
  * `sortToOrder_sorted` : bubble sort over adjacent swaps ends sorted by the requested ranks,
    `sortToOrder_exact` : … hence in exactly the requested order when the ranks are `0..n-1`.
  * `shift_order` : `_shift(start, end)` moves the variable at `start` to `end`, the ones in
    between by one level towards `start`, nothing else.
  * `reorderToPairs_adjacent` : all requested pairs are adjacent afterwards (distinct variables).
  * `siftVars_partial`, `applySifting_partial` : a successful sifting keeps `P`, `R`, and ends
    with no more nodes than after its initial collection.
-/
import DD.Order
import DDProofs.MonadM
import DDProofs.Names
open Std

namespace DD

/-! ### `swap` on two adjacent levels is `swapBody` -/

theorem swap_levels_eq (m : Mgr) (i : Nat) (hi : i + 1 < m.nvars) :
    swap (.level i) (.level ((i : Int) + 1)) true m = swapBody i (i + 1) m := by
  unfold swap
  have h1 : (decide (0 ≤ (i : Int)) && decide ((i : Int) < (m.nvars : Int))) = true := by
    simp; omega
  have h2 : (decide (0 ≤ (i : Int) + 1) && decide ((i : Int) + 1 < (m.nvars : Int))) = true := by
    simp; omega
  have h3 : ¬ ((i : Int) > (i : Int) + 1) := by omega
  simp only [resolveVL, M.bind_eq, M.pure_eq, M.get_eq, Bool.not_true, Bool.false_eq_true, if_false,
    h1, h2, h3]
  have h4 : ¬ ((i : Int) ≥ (i : Int) + 1) := by omega
  have h5 : ¬ ((i : Int) + 1 - (i : Int) ≠ 1) := by omega
  simp only [h4, h5, if_false]
  have : ((i : Int) + 1).toNat = i + 1 := by omega
  rw [this, Int.toNat_natCast]

/-- the same call with the arguments the other way round (`_shift` towards the top) -/
theorem swap_levels_eq' (m : Mgr) (i : Nat) (hi : i + 1 < m.nvars) :
    swap (.level ((i : Int) + 1)) (.level i) true m = swapBody i (i + 1) m := by
  unfold swap
  have h1 : (decide (0 ≤ (i : Int)) && decide ((i : Int) < (m.nvars : Int))) = true := by
    simp; omega
  have h2 : (decide (0 ≤ (i : Int) + 1) && decide ((i : Int) + 1 < (m.nvars : Int))) = true := by
    simp; omega
  have h3 : ((i : Int) + 1 > (i : Int)) := by omega
  simp only [resolveVL, M.bind_eq, M.pure_eq, M.get_eq, Bool.not_true, Bool.false_eq_true, if_false,
    h1, h2, h3, if_true]
  have h4 : ¬ ((i : Int) ≥ (i : Int) + 1) := by omega
  have h5 : ¬ ((i : Int) + 1 - (i : Int) ≠ 1) := by omega
  simp only [h4, h5, if_false]
  have : ((i : Int) + 1).toNat = i + 1 := by omega
  rw [this, Int.toNat_natCast]

/-! ### the abstract contract of one adjacent swap -/

/-- the names at levels `i`, `i+1` are exchanged, every other level keeps its name -/
structure Exch (m m' : Mgr) (i : Nat) : Prop where
  l2v : ∀ j, m'.tbl.l2v[j]? = m.tbl.l2v[swp i (i + 1) j]?
  nvars : m'.nvars = m.nvars
  roots : m'.roots = m.roots

/-- what the drivers need to know about a swap of adjacent levels -/
structure SwapOK (E : Err → Prop) (P : Mgr → Prop) (R : Mgr → Mgr → Prop) : Prop where
  refl : ∀ m, R m m
  trans : ∀ a b c, R a b → R b c → R a c
  vars : ∀ m, P m → OrderOK m.tbl
  /-- every element of `bdd.roots` is a node (they are held) -/
  roots : ∀ m, P m → ∀ r ∈ m.roots, m.mem r = true
  step : ∀ m i, P m → i + 1 < m.nvars →
    OkOr E (fun r m' => P m' ∧ R m m' ∧ Exch m m' i ∧ r = (m.len, m'.len)) (swapBody i (i + 1) m)

section Abs
variable {E : Err → Prop} {P : Mgr → Prop} {R : Mgr → Mgr → Prop}

/-! ### small steps -/

theorem varAtLevel_ok (m : Mgr) (i : Nat) (v : String) (h : m.tbl.l2v[i]? = some v) :
    varAtLevel (i : Int) m = (.ok v, m) := by
  unfold varAtLevel
  have : ¬ ((i : Int) < 0) := by omega
  simp only [M.bind_eq, M.get_eq, this, if_false, Int.toNat_natCast, h, M.ofOption_some]

theorem levelOfVar_ok (m : Mgr) (v : String) (i : Nat) (h : m.tbl.vars[v]? = some i) :
    levelOfVar v m = (.ok i, m) := by
  unfold levelOfVar
  simp only [M.bind_eq, M.get_eq, h, M.ofOption_some]

theorem checkRootsL_ok (m : Mgr) : ∀ (l : List Int) (m1 : Mgr), (∀ r ∈ l, m.mem r = true) →
    checkRootsL m l m1 = (.ok (), m1) := by
  intro l
  induction l with
  | nil => intros; rfl
  | cons r rest ih =>
    intro m1 h
    unfold checkRootsL
    have hr := h r (List.mem_cons_self)
    simp only [hr, Bool.not_true, Bool.false_eq_true, if_false]
    exact ih m1 (fun r' hr' => h r' (List.mem_cons_of_mem _ hr'))

theorem checkRoots_ok (m : Mgr) (h : ∀ r ∈ m.roots, m.mem r = true) : checkRoots m = (.ok (), m) := by
  unfold checkRoots
  simp only [M.bind_eq, M.get_eq]
  exact checkRootsL_ok m m.roots m h

/-! ### the bubble sort on rank sequences (pure) -/

/-- one comparison at `j`: exchange the two entries when out of order -/
def stepKeys (s : Nat → Int) (j : Nat) : Nat → Int :=
  if s j > s (j + 1) then fun a => s (swp j (j + 1) a) else s

/-- entries at positions `≥ c` dominate everything before them -/
def TailSorted (n c : Nat) (s : Nat → Int) : Prop := ∀ a b, a < b → c ≤ b → b < n → s a ≤ s b

theorem inner_pass (n c : Nat) (hn : 1 ≤ n) (hc : c ≤ n) : ∀ (len j : Nat) (s : Nat → Int),
    j + len = n - 1 → TailSorted n c s → (∀ a, a < j → s a ≤ s j) →
    (c ≤ j + 1 → TailSorted n (c - 1) s) →
    TailSorted n (c - 1) ((List.range' j len).foldl stepKeys s) := by
  intro len
  induction len with
  | zero =>
    intro j s hj _ _ h3
    simp only [List.range'_zero, List.foldl_nil]
    exact h3 (by omega)
  | succ len ih =>
    intro j s hj h1 h2 h3
    simp only [List.range'_succ, List.foldl_cons]
    apply ih (j + 1) (stepKeys s j) (by omega)
    · -- TailSorted n c
      unfold stepKeys
      split
      · next hgt =>
        have hjc : j + 1 < c := by
          apply Classical.byContradiction
          intro hcon
          have := h1 j (j + 1) (by omega) (by omega) (by omega)
          omega
        intro a b hab hcb hbn
        have hb : swp j (j + 1) b = b := swp_other (by omega) (by omega)
        show s (swp j (j + 1) a) ≤ s (swp j (j + 1) b)
        rw [hb]
        apply h1 _ b _ hcb hbn
        unfold swp; split
        · omega
        · split <;> omega
      · exact h1
    · -- prefix maximum at j+1
      intro a ha
      unfold stepKeys
      split
      · next hgt =>
        show s (swp j (j + 1) a) ≤ s (swp j (j + 1) (j + 1))
        rw [swp_right]
        by_cases haj : a = j
        · subst haj; rw [swp_left]; omega
        · rw [swp_other haj (by omega)]; exact h2 a (by omega)
      · next hle =>
        by_cases haj : a = j
        · subst haj; omega
        · have := h2 a (by omega); omega
    · -- the cut moves down once the prefix maximum reaches it
      intro hcj
      unfold stepKeys
      split
      · next hgt =>
        have hjc : j + 1 < c := by
          apply Classical.byContradiction
          intro hcon
          have := h1 j (j + 1) (by omega) (by omega) (by omega)
          omega
        have hceq : c = j + 2 := by omega
        intro a b hab hcb hbn
        show s (swp j (j + 1) a) ≤ s (swp j (j + 1) b)
        by_cases hb : b = j + 1
        · subst hb
          rw [swp_right]
          by_cases haj : a = j
          · subst haj; rw [swp_left]; omega
          · rw [swp_other haj (by omega)]; exact h2 a (by omega)
        · have hb' : swp j (j + 1) b = b := swp_other (by omega) hb
          rw [hb']
          apply h1 _ b _ (by omega) hbn
          unfold swp; split
          · omega
          · split <;> omega
      · next hle =>
        by_cases hc1 : c ≤ j + 1
        · exact h3 hc1
        · have hceq : c = j + 2 := by omega
          intro a b hab hcb hbn
          by_cases hb : b = j + 1
          · subst hb
            by_cases haj : a = j
            · subst haj; omega
            · have := h2 a (by omega); omega
          · exact h1 a b hab (by omega) hbn

/-- `k` passes leave the last `k` positions in place -/
theorem outer_passes (n : Nat) (hn : 1 ≤ n) : ∀ (k : Nat) (s : Nat → Int), k ≤ n →
    ∀ c, c ≤ n → TailSorted n c s →
    TailSorted n (c - k) (Nat.rec s (fun _ r => (List.range (n - 1)).foldl stepKeys r) k) := by
  intro k
  induction k with
  | zero => intro s _ c _ h; exact h
  | succ k ih =>
    intro s hk c hc h
    have := ih s (by omega) c hc h
    have h2 := inner_pass n (c - k) hn (by omega) (n - 1) 0 _ (by omega) this
      (fun a ha => by omega) (fun hle => by
        intro a b hab hcb hbn
        have : c - k = 0 ∨ c - k = 1 := by omega
        rcases this with h0 | h0
        · rw [h0] at this; exact this a b hab (by omega) hbn
        · rw [h0] at this
          by_cases hb : 1 ≤ b
          · exact this a b hab hb hbn
          · omega)
    have e : c - (k + 1) = c - k - 1 := by omega
    rw [e]
    show TailSorted n (c - k - 1) ((List.range (n - 1)).foldl stepKeys
      (Nat.rec s (fun _ r => (List.range (n - 1)).foldl stepKeys r) k))
    rw [List.range_eq_range'] at h2 ⊢
    exact h2

/-- a sorted injective sequence of `n` ranks in `0..n-1` is the identity -/
theorem sorted_perm_id (n : Nat) (s : Nat → Int)
    (hs : ∀ a b, a < b → b < n → s a ≤ s b)
    (hinj : ∀ a b, a < n → b < n → s a = s b → a = b)
    (hr : ∀ a, a < n → 0 ≤ s a ∧ s a < n) : ∀ a, a < n → s a = a := by
  have hstrict : ∀ a b, a < b → b < n → s a < s b := by
    intro a b hab hb
    have h1 := hs a b hab hb
    have h2 : s a ≠ s b := fun e => by have := hinj a b (by omega) hb e; omega
    omega
  have lower : ∀ a, a < n → (a : Int) ≤ s a := by
    intro a
    induction a with
    | zero => intro h; exact (hr 0 h).1
    | succ a ih =>
      intro h
      have := ih (by omega)
      have := hstrict a (a + 1) (by omega) h
      omega
  have upper : ∀ d a, a + d + 1 = n → s a ≤ a := by
    intro d
    induction d with
    | zero => intro a h; have := (hr a (by omega)).2; omega
    | succ d ih =>
      intro a h
      have := ih (a + 1) (by omega)
      have := hstrict a (a + 1) (by omega) (by omega)
      omega
  intro a ha
  have := lower a ha
  have := upper (n - a - 1) a (by omega)
  omega

/-! ### `_sort_to_order` -/

/-- the requested rank of the variable at level `i` -/
def keyAt (order : List (String × Int)) (m : Mgr) (i : Nat) : Int :=
  match m.tbl.l2v[i]? with
  | some v => (order.lookup v).getD 0
  | none => 0

/-- every level below `n` carries a name that has a requested rank -/
def Covered (order : List (String × Int)) (n : Nat) (m : Mgr) : Prop :=
  ∀ i, i < n → ∃ v p, m.tbl.l2v[i]? = some v ∧ order.lookup v = some p

theorem Covered.exch {order : List (String × Int)} {n : Nat} {m m' : Mgr} {i : Nat}
    (h : Covered order n m) (he : Exch m m' i) (hi : i + 1 < n) : Covered order n m' := by
  intro j hj
  rw [he.l2v j]
  exact h _ ((swp_lt (by omega) hi).mpr hj)

theorem keyAt_exch {order : List (String × Int)} {m m' : Mgr} {i : Nat} (he : Exch m m' i) (j : Nat) :
    keyAt order m' j = keyAt order m (swp i (i + 1) j) := by
  unfold keyAt; rw [he.l2v j]

/-- one comparison of the bubble sort -/
theorem sortStep_spec (S : SwapOK E P R) (order : List (String × Int)) (m : Mgr) (i : Nat)
    (hP : P m) (hi : i + 1 < m.nvars) (hc : Covered order m.nvars m) :
    OkOr E (fun _ m' => P m' ∧ R m m' ∧ m'.nvars = m.nvars ∧ m'.roots = m.roots ∧
        Covered order m.nvars m' ∧ (∀ j, keyAt order m' j = stepKeys (keyAt order m) i j) ∧
        (∃ f : Nat → Nat, (∀ a, f (f a) = a) ∧ (∀ a, f a < m.nvars ↔ a < m.nvars) ∧
          ∀ j, m'.tbl.l2v[j]? = m.tbl.l2v[f j]?))
      (sortStep order i m) := by
  obtain ⟨x, p, hx, hp⟩ := hc i (by omega)
  obtain ⟨y, q, hy, hq⟩ := hc (i + 1) hi
  unfold sortStep
  rw [M.bind_ok (checkRoots_ok m (S.roots m hP)), M.bind_ok (varAtLevel_ok m i x hx)]
  have hy' : varAtLevel ((i : Int) + 1) m = (.ok y, m) := varAtLevel_ok m (i + 1) y hy
  rw [M.bind_ok hy', hp, hq]
  simp only [M.bind_eq, M.ofOption_some]
  have k1 : keyAt order m i = p := by simp [keyAt, hx, hp]
  have k2 : keyAt order m (i + 1) = q := by simp [keyAt, hy, hq]
  by_cases hgt : p > q
  · simp only [hgt, if_true]
    rw [M.bind_eq, swap_levels_eq m i hi]
    have := S.step m i hP hi
    generalize swapBody i (i + 1) m = res at this
    obtain ⟨r, m'⟩ := res
    cases r with
    | error e => exact this
    | ok r =>
      obtain ⟨hP', hR, he, _⟩ := this
      show _ ∧ _
      refine ⟨hP', hR, he.nvars, he.roots, hc.exch he hi, ?_, swp i (i + 1), swp_swp i (i + 1),
        fun a => swp_lt (by omega) hi, he.l2v⟩
      intro j
      rw [keyAt_exch he j]
      unfold stepKeys
      rw [k1, k2]
      simp [hgt]
  · simp only [hgt, if_false]
    refine ⟨hP, S.refl m, rfl, rfl, hc, ?_, id, fun _ => rfl, fun _ => Iff.rfl, fun _ => rfl⟩
    intro j
    unfold stepKeys
    rw [k1, k2]
    simp [hgt]

/-- the permutation-tracking part of the postconditions, closed under composition -/
def PermOf (m m' : Mgr) : Prop :=
  ∃ f g : Nat → Nat, (∀ a, f (g a) = a) ∧ (∀ a, g (f a) = a) ∧ (∀ a, f a < m.nvars ↔ a < m.nvars) ∧
    ∀ j, m'.tbl.l2v[j]? = m.tbl.l2v[f j]?

theorem PermOf.refl (m : Mgr) : PermOf m m := ⟨id, id, fun _ => rfl, fun _ => rfl, fun _ => Iff.rfl, fun _ => rfl⟩

theorem PermOf.trans {a b c : Mgr} (h1 : PermOf a b) (h2 : PermOf b c) (hn : b.nvars = a.nvars) :
    PermOf a c := by
  obtain ⟨f1, g1, a1, b1, c1, d1⟩ := h1
  obtain ⟨f2, g2, a2, b2, c2, d2⟩ := h2
  refine ⟨f1 ∘ f2, g2 ∘ g1, ?_, ?_, ?_, ?_⟩
  · intro x; simp [Function.comp, a2, a1]
  · intro x; simp [Function.comp, b1, b2]
  · intro x; simp only [Function.comp]; rw [c1, ← hn, c2]
  · intro j; rw [d2, d1]; rfl

/-- a pass over the levels `l` -/
theorem sortInner_spec (S : SwapOK E P R) (order : List (String × Int)) (n : Nat) :
    ∀ (l : List Nat) (m : Mgr), P m → m.nvars = n → (∀ i ∈ l, i + 1 < n) → Covered order n m →
    OkOr E (fun _ m' => P m' ∧ R m m' ∧ m'.nvars = n ∧ m'.roots = m.roots ∧ Covered order n m' ∧
        (∀ j, keyAt order m' j = l.foldl stepKeys (keyAt order m) j) ∧ PermOf m m')
      (sortInner order l m) := by
  intro l
  induction l with
  | nil =>
    intro m hP hn _ hc
    exact ⟨hP, S.refl m, hn, rfl, hc, fun _ => rfl, PermOf.refl m⟩
  | cons i rest ih =>
    intro m hP hn hl hc
    unfold sortInner
    have h1 := sortStep_spec S order m i hP (by rw [hn]; exact hl i List.mem_cons_self) (hn ▸ hc)
    refine OkOr.bind h1 ?_
    intro _ m1 ⟨hP1, hR1, hn1, hr1, hc1, hk1, f, hf1, hf2, hf3⟩
    have h2 := ih m1 hP1 (hn1.trans hn) (fun j hj => hl j (List.mem_cons_of_mem _ hj)) (hn ▸ hc1)
    refine OkOr.mono ?_ h2
    intro _ m2 ⟨hP2, hR2, hn2, hr2, hc2, hk2, hp2⟩
    refine ⟨hP2, S.trans _ _ _ hR1 hR2, hn2, hr2.trans hr1, hc2, ?_, ?_⟩
    · intro j
      rw [hk2 j, List.foldl_cons]
      have : keyAt order m1 = stepKeys (keyAt order m) i := funext hk1
      rw [this]
    · exact PermOf.trans ⟨f, f, hf1, hf1, hf2, hf3⟩ hp2 hn1

theorem sortOuter_spec (S : SwapOK E P R) (order : List (String × Int)) (n : Nat) :
    ∀ (k : Nat) (m : Mgr), P m → m.nvars = n → Covered order n m →
    OkOr E (fun _ m' => P m' ∧ R m m' ∧ m'.nvars = n ∧ m'.roots = m.roots ∧ Covered order n m' ∧
        (∀ j, keyAt order m' j =
          Nat.rec (motive := fun _ => Nat → Int) (keyAt order m)
            (fun _ r => (List.range (n - 1)).foldl stepKeys r) k j) ∧
        PermOf m m')
      (sortOuter order n k m) := by
  intro k
  induction k with
  | zero =>
    intro m hP hn hc
    exact ⟨hP, S.refl m, hn, rfl, hc, fun _ => rfl, PermOf.refl m⟩
  | succ k ih =>
    intro m hP hn hc
    -- the model runs the first pass, then the remaining `k`; the pure function is the other way
    -- round, so generalise over the start sequence
    unfold sortOuter
    have h1 := sortInner_spec S order n (List.range (n - 1)) m hP hn
      (fun i hi => by have := List.mem_range.mp hi; omega) hc
    refine OkOr.bind h1 ?_
    intro _ m1 ⟨hP1, hR1, hn1, hr1, hc1, hk1, hp1⟩
    refine OkOr.mono ?_ (ih m1 hP1 hn1 hc1)
    intro _ m2 ⟨hP2, hR2, hn2, hr2, hc2, hk2, hp2⟩
    refine ⟨hP2, S.trans _ _ _ hR1 hR2, hn2, hr2.trans hr1, hc2, ?_, PermOf.trans hp1 hp2 (hn1.trans hn.symm)⟩
    intro j
    rw [hk2 j]
    have e : keyAt order m1 = (List.range (n - 1)).foldl stepKeys (keyAt order m) := funext hk1
    rw [e]
    -- `k` passes after one pass = one pass after `k` passes
    have comm : ∀ (k : Nat) (s : Nat → Int),
        Nat.rec (motive := fun _ => Nat → Int) ((List.range (n - 1)).foldl stepKeys s)
          (fun _ r => (List.range (n - 1)).foldl stepKeys r) k =
        (List.range (n - 1)).foldl stepKeys
          (Nat.rec (motive := fun _ => Nat → Int) s (fun _ r => (List.range (n - 1)).foldl stepKeys r) k) := by
      intro k
      induction k with
      | zero => intro s; rfl
      | succ k ihk => intro s; simp only; rw [ihk]
    rw [comm k]

/-- the requested ranks along the levels are non-decreasing -/
def SortedBy (order : List (String × Int)) (m : Mgr) : Prop :=
  ∀ a b, a < b → b < m.nvars → keyAt order m a ≤ keyAt order m b

/-- **`_sort_to_order` sorts.**  For every table of requested ranks that covers the declared
variables, the bubble sort over adjacent swaps succeeds (for every schedule: or reports a
schedule mismatch), keeps `P`, relates the final state to the initial one by `R`, permutes the
names, and the requested ranks along the levels are sorted afterwards. -/
theorem sortToOrder_sorted (S : SwapOK E P R) (order : List (String × Int)) (m : Mgr) (hP : P m)
    (hlen : order.length = m.nvars) (hc : Covered order m.nvars m) :
    OkOr E (fun _ m' => P m' ∧ R m m' ∧ m'.nvars = m.nvars ∧ Covered order m.nvars m' ∧
        SortedBy order m' ∧ PermOf m m')
      (sortToOrder order m) := by
  unfold sortToOrder
  have hne : ¬ (m.nvars ≠ order.length) := by omega
  simp only [M.bind_eq, M.get_eq, hne, if_false]
  rw [hlen]
  refine OkOr.mono ?_ (sortOuter_spec S order m.nvars m.nvars m hP rfl hc)
  intro _ m' ⟨hP', hR', hn', _, hc', hk', hp'⟩
  refine ⟨hP', hR', hn', hc', ?_, hp'⟩
  intro a b hab hb
  rw [hn'] at hb
  rw [hk' a, hk' b]
  by_cases hn : 1 ≤ m.nvars
  · have := outer_passes m.nvars hn m.nvars (keyAt order m) (Nat.le_refl _) m.nvars (Nat.le_refl _)
      (fun a b _ hcb hbn => by omega)
    rw [Nat.sub_self] at this
    exact this a b hab (Nat.zero_le _) hb
  · omega

/-- the requested order is a bijection of the declared variables onto `0..n-1` -/
structure ReqOrder (order : List (String × Int)) (m : Mgr) : Prop where
  len : order.length = m.nvars
  cover : ∀ i, i < m.nvars → ∃ v p, m.tbl.l2v[i]? = some v ∧ order.lookup v = some p
  range : ∀ v p, order.lookup v = some p → 0 ≤ p ∧ p < m.nvars
  inj : ∀ v v' p, order.lookup v = some p → order.lookup v' = some p → v = v'

/-- **`_sort_to_order` reaches exactly the requested order**: afterwards
`level_of_var(v) = order[v]` for every variable and `var_at_level(order[v]) = v`. -/
theorem sortToOrder_exact (S : SwapOK E P R) (order : List (String × Int)) (m : Mgr) (hP : P m)
    (ho : ReqOrder order m) :
    OkOr E (fun _ m' => P m' ∧ R m m' ∧ m'.nvars = m.nvars ∧
        ∀ v p, order.lookup v = some p → m.tbl.vars.contains v = true →
          m'.tbl.vars[v]? = some p.toNat ∧ m'.tbl.l2v[p.toNat]? = some v)
      (sortToOrder order m) := by
  refine OkOr.mono ?_ (sortToOrder_sorted S order m hP ho.len ho.cover)
  intro _ m' ⟨hP', hR', hn', hc', hs', f, g, hfg, hgf, hflt, hf⟩
  refine ⟨hP', hR', hn', ?_⟩
  have hV := S.vars m hP
  have hV' := S.vars m' hP'
  -- the ranks along the levels of `m'` are injective and in range
  have hinj : ∀ a b, a < m'.nvars → b < m'.nvars → keyAt order m' a = keyAt order m' b → a = b := by
    intro a b ha hb he
    rw [hn'] at ha hb
    obtain ⟨va, pa, h1, h2⟩ := hc' a ha
    obtain ⟨vb, pb, h3, h4⟩ := hc' b hb
    simp only [keyAt, h1, h2, h3, h4, Option.getD_some] at he
    subst he
    have := ho.inj va vb pa h2 h4
    subst this
    exact hV'.l2v_inj h1 h3
  have hrange : ∀ a, a < m'.nvars → 0 ≤ keyAt order m' a ∧ keyAt order m' a < m'.nvars := by
    intro a ha
    rw [hn'] at ha
    obtain ⟨va, pa, h1, h2⟩ := hc' a ha
    simp only [keyAt, h1, h2, Option.getD_some]
    have := ho.range va pa h2
    rw [hn']; exact this
  have hid := sorted_perm_id m'.nvars (keyAt order m') hs' hinj hrange
  intro v p hv hdecl
  -- `v` is declared in `m`, at level `i`; it sits at level `g i` of `m'`
  rw [TreeMap.contains_eq_isSome_getElem?] at hdecl
  obtain ⟨i, hi⟩ := Option.isSome_iff_exists.mp hdecl
  have hil := hV.lvl_lt hi
  have h1 : m.tbl.l2v[i]? = some v := (hV.inv v i).mp hi
  have h2 : m'.tbl.l2v[g i]? = some v := by rw [hf, hfg, h1]
  have hgl : g i < m'.nvars := by
    have := (hflt (g i)).mp (by rw [hfg]; exact hil)
    rw [hn']; exact this
  have hk := hid (g i) hgl
  simp only [keyAt, h2, hv, Option.getD_some] at hk
  have : p.toNat = g i := by omega
  rw [this]
  exact ⟨(hV'.inv v (g i)).mpr h2, h2⟩

end Abs

end DD
