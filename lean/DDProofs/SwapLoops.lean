/-
  DDProofs.SwapLoops — the loops of `swap` that move nodes between the two levels:
  `moveUp` (level y up), `moveIndep` (relabel the x-nodes that do not depend on y).
  Each loop keeps the phase invariant `Mid`, with fewer pending nodes; none of the
  `AssertionError`s / `KeyError`s of the Python code can fire.
-/
import DDProofs.SwapPop
import DDProofs.SwapRef
open Std

namespace DD

/-- the x-node `u` depends on the lower variable -/
def IsDep (t : Tbl) (x u : Nat) : Prop :=
  ∃ n, t.node? u = some n ∧ n.lvl = x ∧ (t.levelOf n.lo = x + 1 ∨ t.levelOf n.hi = x + 1)

/-! ### replacing the triple of one pending node in `SwapRel` -/

theorem SwapRel.setNode {t t' : Tbl} {x : Nat} {pend : Nat → Prop} (h : SwapRel t t' x pend)
    {u : Nat} {n : Nd} (hn : t.node? u = some n) (nd : Nd)
    (hup : n.lvl = x + 1 → nd = ⟨x, n.lo, n.hi⟩)
    (hind : n.lvl = x → t.levelOf n.lo ≠ x + 1 → t.levelOf n.hi ≠ x + 1 → nd = ⟨x + 1, n.lo, n.hi⟩)
    (hdep : n.lvl = x → (t.levelOf n.lo = x + 1 ∨ t.levelOf n.hi = x + 1) → ∃ p q, nd = ⟨x, p, q⟩ ∧
      Mk { t' with succ := t'.succ.insert u nd } (x + 1) (cof t (x + 1) n.lo).1 (cof t (x + 1) n.hi).1 p ∧
      Mk { t' with succ := t'.succ.insert u nd } (x + 1) (cof t (x + 1) n.lo).2 (cof t (x + 1) n.hi).2 q)
    (hlvl : n.lvl = x ∨ n.lvl = x + 1)
    (hmk : (∀ a b r, Mk t' (x + 1) a b r → Mk { t' with succ := t'.succ.insert u nd } (x + 1) a b r) ∨
      (∀ k nk, t.node? k = some nk → nk.lvl = x → pend k)) :
    SwapRel t { t' with succ := t'.succ.insert u nd } x (fun k => pend k ∧ k ≠ u) := by
  have hother : ∀ k, k ≠ u → ({ t' with succ := t'.succ.insert u nd } : Tbl).node? k = t'.node? k := by
    intro k hk
    rw [node?_insert]
    have : ¬ u = k := fun e => hk e.symm
    simp [this]
  have hself : ({ t' with succ := t'.succ.insert u nd } : Tbl).node? u = some nd := by
    rw [node?_insert]; simp
  -- a node other than `u`: pending status unchanged
  have hpk : ∀ k, k ≠ u → (¬ (pend k ∧ k ≠ u) ↔ ¬ pend k) := by
    intro k hk
    constructor
    · intro h1 h2; exact h1 ⟨h2, hk⟩
    · intro h1 h2; exact h1 h2.1
  refine ⟨h.nvars, ?_, ?_, ?_, ?_, ?_, ?_⟩
  · intro k nk hk h1 h2
    have : k ≠ u := by
      intro e; subst e; rw [hn] at hk; cases hk
      rcases hlvl with hl | hl
      · exact h1 hl
      · exact h2 hl
    rw [hother k this]; exact h.other k nk hk h1 h2
  · intro k nk hk h1 hp
    by_cases hku : k = u
    · subst hku; rw [hn] at hk; cases hk
      rw [hself, hup h1]
    · rw [hother k hku]; exact h.up k nk hk h1 ((hpk k hku).mp hp)
  · intro k nk hk h1 h2 h3 hp
    by_cases hku : k = u
    · subst hku; rw [hn] at hk; cases hk
      rw [hself, hind h1 h2 h3]
    · rw [hother k hku]; exact h.indep k nk hk h1 h2 h3 ((hpk k hku).mp hp)
  · intro k nk hk h1 h2 hp
    by_cases hku : k = u
    · subst hku; rw [hn] at hk; cases hk
      obtain ⟨p, q, e, hp', hq'⟩ := hdep h1 h2
      exact ⟨p, q, by rw [hself, e], hp', hq'⟩
    · have hp0 := (hpk k hku).mp hp
      rcases hmk with hmk | hall
      · obtain ⟨p, q, hh, hp', hq'⟩ := h.dep k nk hk h1 h2 hp0
        exact ⟨p, q, by rw [hother k hku]; exact hh, hmk _ _ _ hp', hmk _ _ _ hq'⟩
      · exact absurd (hall k nk hk h1) hp0
  · intro k nk hk hp
    rw [hother k hp.2]; exact h.pending k nk hk hp.1
  · intro k nk hk hk'
    have : k ≠ u := by intro e; subst e; rw [hn] at hk; cases hk
    rw [hother k this] at hk'
    exact h.fresh k nk hk hk'

/-- nodes of the lower level persist when a node of another level is overwritten -/
theorem mk_mono_insert {t' : Tbl} {i : Nat} {u : Nat} {n nd : Nd} (hu : t'.node? u = some n)
    (hl : n.lvl ≠ i) : ∀ a b r, Mk t' i a b r → Mk { t' with succ := t'.succ.insert u nd } i a b r := by
  intro a b r hm
  refine hm.mono ?_
  intro k nk hlk hk
  rw [node?_insert]
  have : u ≠ k := by
    intro e; subst e; rw [hu] at hk; cases hk; exact hl hlk
  simp [this, hk]

/-! ### levels of old references in the current table -/

/-- once the lower level has moved up, a reference that was not above the lower level is now
at the upper level exactly when it was at the lower one -/
theorem Mid.lvl_child {m0 m : Mgr} {x : Nat} {pend : Nat → Prop} (h : Mid m0 m x pend)
    (hx : x + 1 < m0.nvars)
    (hY : ∀ k n, m0.tbl.node? k = some n → n.lvl = x + 1 → ¬ pend k)
    {c : Int} (hc : m0.tbl.Mem c) (hl : x + 1 ≤ m0.tbl.levelOf c) :
    m.tbl.levelOf c = if m0.tbl.levelOf c = x + 1 then x else m0.tbl.levelOf c := by
  by_cases he : m0.tbl.levelOf c = x + 1
  · obtain ⟨h1, n, hn, hny⟩ := node_of_level m0.tbl c (x + 1) hc he hx
    rw [if_pos he, levelOf_node m.tbl c _ h1 (h.rel.up _ n hn hny (hY _ n hn hny))]
  · rw [if_neg he]
    exact h.rel.lvl_above hc (by omega)

theorem lowHighLevel_ok (m : Mgr) (c : Int) (hc : m.tbl.Mem c) :
    lowHighLevel c m = (.ok (m.tbl.levelOf c), m) := by
  unfold lowHighLevel
  simp only [M.bind_eq, M.get_eq, Tbl.levelOf?_eq _ _ hc, M.ofOption_some]

/-! ### `moveUp` -/

theorem moveUp_spec (m0 : Mgr) (hI : Inv m0) (x : Nat) : ∀ (l : List Nat) (m : Mgr) (pend : Nat → Prop),
    Mid m0 m x pend → l.Nodup →
    (∀ u ∈ l, pend u ∧ ∃ n, m0.tbl.node? u = some n ∧ n.lvl = x + 1) →
    (∀ k n, m0.tbl.node? k = some n → n.lvl = x → pend k) →
    (∀ k, m0.tbl.node? k = none → m.tbl.node? k = none) →
    ∃ m', moveUp x (x + 1) (l.map (trip m0.tbl)) m = (.ok (), m') ∧
      Mid m0 m' x (fun k => pend k ∧ k ∉ l) ∧
      (∀ k, m0.tbl.node? k = none → m'.tbl.node? k = none) ∧
      (∀ ext, RefExact m ext → RefExact m' ext) := by
  intro l
  induction l with
  | nil =>
    intro m pend hM _ _ _ hF
    exact ⟨m, rfl, hM.congr (fun k => by simp), hF, fun _ h => h⟩
  | cons u rest ih =>
    intro m pend hM hnd hl hX hF
    rw [List.nodup_cons] at hnd
    obtain ⟨hpu, n, hn, hlv⟩ := hl u List.mem_cons_self
    have hcur : m.tbl.node? u = some n := hM.rel.pending u n hn hpu
    have hcur' : m.tbl.succ[u]? = some n := hcur
    -- no non-pending node carries the new triple
    have hfreshKey : ∀ k, m.tbl.node? k = some (⟨x, n.lo, n.hi⟩ : Nd) → pend k := by
      intro k hk
      apply Classical.byContradiction
      intro hnp
      rcases hM.rel.classify hk hnp with ⟨_, _, hl', _⟩ | ⟨nk, hnk, hc⟩
      · simp at hl'
      · rcases hc with ⟨h1, _, e⟩ | ⟨h1, e⟩ | ⟨_, _, _, e⟩ | ⟨h1, _, _⟩
        · rw [← e] at h1; exact h1 rfl
        · simp only [Nd.mk.injEq, true_and] at e
          have : nk = n := by
            cases nk; cases n; simp only [Nd.mk.injEq] at *; omega
          subst this
          have := hI.wf.unique _ _ _ hnk hn
          subst this
          exact hnp hpu
        · simp at e
        · exact hnp (hX k nk hnk h1)
    have hrel := hM.rel.setNode hn ⟨x, n.lo, n.hi⟩ (fun _ => rfl) (fun h1 => by omega)
      (fun h1 => by omega) (Or.inr hlv) (Or.inr hX)
    obtain ⟨m1, hrun, hm1, hM1⟩ := hM.setNode hpu ⟨x, n.lo, n.hi⟩ hfreshKey hrel
    have hF1 : ∀ k, m0.tbl.node? k = none → m1.tbl.node? k = none := by
      intro k hk
      rw [hm1]
      show ({ m.tbl with succ := m.tbl.succ.insert u _ } : Tbl).node? k = none
      rw [node?_insert]
      have : u ≠ k := by intro e; subst e; rw [hn] at hk; cases hk
      simp [this, hF k hk]
    have hR1 : ∀ ext, RefExact m ext → RefExact m1 ext := fun ext hr =>
      hr.relabel hcur ⟨x, n.lo, n.hi⟩ rfl rfl (by rw [hm1]) (by rw [hm1])
    obtain ⟨m', hrun', hM', hF', hR'⟩ := ih m1 (fun k => pend k ∧ k ≠ u) hM1 hnd.2 (by
        intro k hk
        obtain ⟨hp, hh⟩ := hl k (List.mem_cons_of_mem _ hk)
        exact ⟨⟨hp, fun e => hnd.1 (e ▸ hk)⟩, hh⟩) (by
        intro k nk hnk h1
        refine ⟨hX k nk hnk h1, ?_⟩
        intro e; subst e; rw [hn] at hnk; cases hnk; omega) hF1
    refine ⟨m', ?_, hM'.congr (fun k => by simp only [List.mem_cons, not_or, and_assoc, ne_eq]), hF',
      fun ext hr => hR' ext (hR1 ext hr)⟩
    simp only [List.map_cons]
    have ht : trip m0.tbl u = (u, n.lo, n.hi) := by simp [trip, hn]
    rw [ht]
    unfold moveUp
    simp only [M.bind_eq, M.get_eq, hcur', M.ofOption_some, hlv, decide_true, M.assert_true]
    rw [hrun]
    exact hrun'

/-! ### `moveIndep` -/

theorem moveIndep_spec (m0 : Mgr) (hI : Inv m0) (x : Nat) (hx : x + 1 < m0.nvars) :
    ∀ (l : List Nat) (m : Mgr) (pend : Nat → Prop),
    Mid m0 m x pend → l.Nodup →
    (∀ u ∈ l, pend u ∧ ∃ n, m0.tbl.node? u = some n ∧ n.lvl = x) →
    (∀ k n, m0.tbl.node? k = some n → n.lvl = x + 1 → ¬ pend k) →
    (∀ k, m0.tbl.node? k = none → m.tbl.node? k = none) →
    ∃ done m', moveIndep x (x + 1) (l.map (trip m0.tbl)) m = (.ok done, m') ∧
      (∀ k, k ∈ done ↔ (k ∈ l ∧ ¬ IsDep m0.tbl x k)) ∧
      Mid m0 m' x (fun k => pend k ∧ ¬ (k ∈ l ∧ ¬ IsDep m0.tbl x k)) ∧
      (∀ k, m0.tbl.node? k = none → m'.tbl.node? k = none) ∧
      (∀ ext, RefExact m ext → RefExact m' ext) := by
  have hW := hI.wf.toWF
  intro l
  induction l with
  | nil =>
    intro m pend hM _ _ _ hF
    exact ⟨[], m, rfl, fun k => by simp, hM.congr (fun k => by simp), hF, fun _ h => h⟩
  | cons u rest ih =>
    intro m pend hM hnd hl hY hF
    rw [List.nodup_cons] at hnd
    obtain ⟨hpu, n, hn, hlv⟩ := hl u List.mem_cons_self
    have hcur : m.tbl.node? u = some n := hM.rel.pending u n hn hpu
    have hcur' : m.tbl.succ[u]? = some n := hcur
    have mlo := hW.lo_mem _ _ hn
    have mhi := hW.hi_mem _ _ hn
    obtain ⟨glo, ghi⟩ := child_lvl_ge hW hn hlv
    have hlo0 : n.lo ≠ 0 := mem_ne_zero hW mlo
    have hhi0 : n.hi ≠ 0 := mem_ne_zero hW mhi
    have ht : trip m0.tbl u = (u, n.lo, n.hi) := by simp [trip, hn]
    have hrest : ∀ k ∈ rest, (pend k ∧ ∃ n, m0.tbl.node? k = some n ∧ n.lvl = x) :=
      fun k hk => hl k (List.mem_cons_of_mem _ hk)
    have hunf : moveIndep x (x + 1) ((u :: rest).map (trip m0.tbl)) m =
        (if (decide (m.tbl.levelOf n.lo ≤ x + 1) || decide (m.tbl.levelOf n.hi ≤ x + 1)) = true then
          moveIndep x (x + 1) (rest.map (trip m0.tbl))
        else do
          setNode u ⟨x + 1, n.lo, n.hi⟩
          let d ← moveIndep x (x + 1) (rest.map (trip m0.tbl))
          pure (u :: d)) m := by
      simp only [List.map_cons, ht]
      rw [moveIndep]
      simp only [M.bind_eq, M.get_eq, hcur', M.ofOption_some, hlv, decide_true, M.assert_true,
        hlo0, hhi0, ne_eq, not_false_eq_true, Bool.and_self,
        lowHighLevel_ok m n.lo (hM.mem0 mlo), lowHighLevel_ok m n.hi (hM.mem0 mhi)]
    rw [hunf]
    have e1 := hM.lvl_child hx hY mlo glo
    have e2 := hM.lvl_child hx hY mhi ghi
    by_cases hdep : m0.tbl.levelOf n.lo = x + 1 ∨ m0.tbl.levelOf n.hi = x + 1
    · -- depends on the lower variable: left for the third loop
      have hcond : (decide (m.tbl.levelOf n.lo ≤ x + 1) || decide (m.tbl.levelOf n.hi ≤ x + 1)) = true := by
        rw [e1, e2]
        rcases hdep with h | h
        · simp [h]
        · simp [h]
      rw [if_pos hcond]
      obtain ⟨done, m', hrun, hdone, hM', hF', hR'⟩ := ih m pend hM hnd.2 hrest hY hF
      have hud : IsDep m0.tbl x u := ⟨n, hn, hlv, hdep⟩
      refine ⟨done, m', hrun, ?_, hM'.congr ?_, hF', hR'⟩
      · intro k
        rw [hdone]
        simp only [List.mem_cons]
        constructor
        · intro ⟨a, b⟩; exact ⟨Or.inr a, b⟩
        · rintro ⟨rfl | a, b⟩
          · exact absurd hud b
          · exact ⟨a, b⟩
      · intro k
        simp only [List.mem_cons]
        constructor
        · rintro ⟨a, b⟩
          refine ⟨a, ?_⟩
          rintro ⟨rfl | c, d⟩
          · exact d hud
          · exact b ⟨c, d⟩
        · rintro ⟨a, b⟩
          exact ⟨a, fun ⟨c, d⟩ => b ⟨Or.inr c, d⟩⟩
    · -- independent: relabel
      have hlo : m0.tbl.levelOf n.lo ≠ x + 1 := fun e => hdep (Or.inl e)
      have hhi : m0.tbl.levelOf n.hi ≠ x + 1 := fun e => hdep (Or.inr e)
      have hcond : ¬ ((decide (m.tbl.levelOf n.lo ≤ x + 1) || decide (m.tbl.levelOf n.hi ≤ x + 1)) = true) := by
        rw [e1, e2, if_neg hlo, if_neg hhi]
        simp; omega
      rw [if_neg hcond]
      have hfreshKey : ∀ k, m.tbl.node? k = some (⟨x + 1, n.lo, n.hi⟩ : Nd) → pend k := by
        intro k hk
        apply Classical.byContradiction
        intro hnp
        rcases hM.rel.classify hk hnp with ⟨h0, _⟩ | ⟨nk, hnk, hc⟩
        · rw [hF k h0] at hk; cases hk
        · rcases hc with ⟨_, h2, e⟩ | ⟨_, e⟩ | ⟨h1, _, _, e⟩ | ⟨_, _, p, q, e, _⟩
          · rw [← e] at h2; exact h2 rfl
          · simp at e
          · simp only [Nd.mk.injEq, true_and] at e
            have : nk = n := by
              cases nk; cases n; simp only [Nd.mk.injEq] at *; omega
            subst this
            have := hI.wf.unique _ _ _ hnk hn
            subst this
            exact hnp hpu
          · simp at e
      have hrel := hM.rel.setNode hn ⟨x + 1, n.lo, n.hi⟩ (fun h1 => by omega) (fun _ _ _ => rfl)
        (fun _ h2 => absurd h2 hdep) (Or.inl hlv)
        (Or.inl (mk_mono_insert hcur (by omega)))
      obtain ⟨m1, hrun1, hm1, hM1⟩ := hM.setNode hpu ⟨x + 1, n.lo, n.hi⟩ hfreshKey hrel
      have hF1 : ∀ k, m0.tbl.node? k = none → m1.tbl.node? k = none := by
        intro k hk
        rw [hm1]
        show ({ m.tbl with succ := m.tbl.succ.insert u _ } : Tbl).node? k = none
        rw [node?_insert]
        have : u ≠ k := by intro e; subst e; rw [hn] at hk; cases hk
        simp [this, hF k hk]
      have hR1 : ∀ ext, RefExact m ext → RefExact m1 ext := fun ext hr =>
        hr.relabel hcur ⟨x + 1, n.lo, n.hi⟩ rfl rfl (by rw [hm1]) (by rw [hm1])
      obtain ⟨done, m', hrun, hdone, hM', hF', hR'⟩ := ih m1 (fun k => pend k ∧ k ≠ u) hM1 hnd.2 (by
          intro k hk
          obtain ⟨hp, hh⟩ := hrest k hk
          exact ⟨⟨hp, fun e => hnd.1 (e ▸ hk)⟩, hh⟩) (fun k nk hnk h1 hp => hY k nk hnk h1 hp.1) hF1
      have hud : ¬ IsDep m0.tbl x u := by
        rintro ⟨n', hn', _, hd⟩
        rw [hn] at hn'; cases hn'; exact hdep hd
      refine ⟨u :: done, m', ?_, ?_, hM'.congr ?_, hF', fun ext hr => hR' ext (hR1 ext hr)⟩
      · rw [M.bind_ok hrun1, M.bind_ok hrun]; rfl
      · intro k
        simp only [List.mem_cons, hdone]
        constructor
        · rintro (rfl | ⟨a, b⟩)
          · exact ⟨Or.inl rfl, hud⟩
          · exact ⟨Or.inr a, b⟩
        · rintro ⟨rfl | a, b⟩
          · exact Or.inl rfl
          · exact Or.inr ⟨a, b⟩
      · intro k
        simp only [List.mem_cons]
        constructor
        · rintro ⟨⟨a, b⟩, c⟩
          refine ⟨a, ?_⟩
          rintro ⟨rfl | d, e⟩
          · exact b rfl
          · exact c ⟨d, e⟩
        · rintro ⟨a, b⟩
          refine ⟨⟨a, ?_⟩, fun ⟨c, d⟩ => b ⟨Or.inr c, d⟩⟩
          rintro rfl
          exact b ⟨Or.inl rfl, hud⟩

end DD
