/-
  DDProofs.DynLoad — `BDD.load` (pickle) never reorders.

  `find_or_add` asks for a reordering only inside a reordering context
  (`if self._reordering_context: _request_reordering(self)`, repair F4a).  `BDD.load` →
  `_load_pickle` → `_load` is not decorated, opens no context and builds the nodes with the
  PRIVATE `find_or_add` / `_ite`.  So, called outside a context, `load` never looks at
  `_last_len`: for any value of it the run is, step for step, the run with `_last_len = None`,
  the field itself being carried along unchanged; `_request_reordering` is not even called
  (the harness's trigger counter `fireIn` is untouched) and the reordering signal cannot be the
  error of the call.

  Shape of the proofs: for every function on the path (`incref`, `find_or_add`, `_ite`,
  `add_var`, the three loops of `_load_pickle`) two facts —
  `X_nq`  : started outside a context, `X` ends outside a context, leaves `fireIn` alone and
            does not raise the signal;
  `X_LL`  : `X (m with _last_len := l) = X m` with `_last_len := l` in the final state.
-/
import DDProofs.DumpProofs
import DDProofs.ReachLite
open Std

namespace DD

/-- the manager with another value of `_last_len` -/
abbrev Mgr.withLL (m : Mgr) (l : Option Nat) : Mgr := { m with lastLen := l }

/-- an outcome `(result, state)` with `_last_len` replaced in the state -/
def llOut {α} (l : Option Nat) (p : Except Err α × Mgr) : Except Err α × Mgr := (p.1, p.2.withLL l)

theorem Mgr.withLL_self (m : Mgr) : m.withLL m.lastLen = m := rfl

theorem Mgr.withLL_withLL (m : Mgr) (l l' : Option Nat) : (m.withLL l).withLL l' = m.withLL l' := rfl

/-- the outcome of a computation started in `m` outside a reordering context: it ends outside a
context, `_request_reordering` was never called (the trigger counter is untouched), and the error,
if any, is not the reordering signal -/
structure NQ {α} (m : Mgr) (out : Except Err α × Mgr) : Prop where
  ctx : out.2.ctx = false
  fire : out.2.fireIn = m.fireIn
  noNR : out.1 ≠ .error .needsReordering

theorem NQ.refl_ok {α} {m : Mgr} (hc : m.ctx = false) (a : α) : NQ m ((.ok a, m) : Except Err α × Mgr) :=
  ⟨hc, rfl, by simp⟩

theorem NQ.refl_err {α} {m : Mgr} (hc : m.ctx = false) (e : Err) (he : e ≠ .needsReordering) :
    NQ m ((.error e, m) : Except Err α × Mgr) :=
  ⟨hc, rfl, by simpa using he⟩

theorem NQ.of_eq {α} {m : Mgr} {x y : Except Err α × Mgr} (h : NQ m x) (e : x = y) : NQ m y := e ▸ h

/-- chaining: the rest of the computation started in the state the first part left -/
theorem NQ.trans {α β} {m m1 : Mgr} {r1 : Except Err α} {out : Except Err β × Mgr}
    (h1 : NQ m (r1, m1)) (h2 : NQ m1 out) : NQ m out :=
  ⟨h2.ctx, h2.fire.trans h1.fire, h2.noNR⟩

/-- an error of the first part is the error of the whole -/
theorem NQ.reErr {α β} {m m1 : Mgr} {e : Err} (h : NQ m ((.error e, m1) : Except Err α × Mgr)) :
    NQ m ((.error e, m1) : Except Err β × Mgr) :=
  ⟨h.ctx, h.fire, by have := h.noNR; simpa using this⟩

/-! ### `incref`, `find_or_add` -/

theorem incref_LL (u : Int) (m : Mgr) (l : Option Nat) :
    incref u (m.withLL l) = llOut l (incref u m) := by
  unfold incref
  show (match m.ref[u.natAbs]? with
      | none => (Except.error Err.key, m.withLL l)
      | some c => (.ok (), { m.withLL l with ref := m.ref.insert u.natAbs (c + 1) })) = _
  cases m.ref[u.natAbs]? <;> rfl

/-- `find_or_add` without the request never reads `_last_len` -/
theorem findOrAddCore_LL (i : Nat) (v w : Int) (m : Mgr) (l : Option Nat) :
    findOrAddCore i v w (m.withLL l) = llOut l (findOrAddCore i v w m) := by
  unfold findOrAddCore
  dsimp only [Mgr.withLL, Mgr.nvars, Mgr.mem]
  by_cases h1 : m.tbl.nvars ≤ i
  · simp only [h1, ↓reduceIte]; rfl
  simp only [h1, ↓reduceIte]
  by_cases h2 : (!m.tbl.mem v) = true
  · simp only [h2, ↓reduceIte]; rfl
  simp only [h2]
  by_cases h3 : (!m.tbl.mem w) = true
  · simp only [h3, ↓reduceIte]; rfl
  simp only [h3]
  generalize (if w < 0 then -v else v) = v'
  generalize (if w < 0 then -w else w) = w'
  generalize (if w < 0 then (-1:Int) else 1) = r
  by_cases h4 : v' = w'
  · simp only [h4, ↓reduceIte]; rfl
  simp only [h4, ↓reduceIte]
  cases hp : m.pred[(⟨i, v', w'⟩ : Nd).key]? with
  | some u => rfl
  | none =>
    dsimp only
    by_cases h5 : m.minFree ≤ 1
    · simp only [h5, ↓reduceIte]; rfl
    simp only [h5, ↓reduceIte]
    by_cases h6 : m.tbl.succ.contains m.minFree = true
    · simp only [h6, ↓reduceIte]; rfl
    simp only [h6]
    cases hr1 : (m.ref.insert m.minFree 0)[v'.natAbs]? with
    | none =>
      rw [incref_not_mem _ v' (by exact hr1), incref_not_mem _ v' (by exact hr1)]; rfl
    | some c1 =>
      rw [incref_eq _ v' c1 (by exact hr1), incref_eq _ v' c1 (by exact hr1)]
      dsimp only
      cases hr2 : ((m.ref.insert m.minFree 0).insert v'.natAbs (c1 + 1))[w'.natAbs]? with
      | none =>
        rw [incref_not_mem _ w' (by exact hr2), incref_not_mem _ w' (by exact hr2)]; rfl
      | some c2 =>
        rw [incref_eq _ w' c2 (by exact hr2), incref_eq _ w' c2 (by exact hr2)]; rfl

theorem incref_frame' {u : Int} {m m' : Mgr} {r : Except Err Unit} (h : incref u m = (r, m')) :
    m'.ctx = m.ctx ∧ m'.fireIn = m.fireIn := by
  unfold incref at h
  split at h <;> (cases h; exact ⟨rfl, rfl⟩)

/-- `find_or_add` without the request leaves the flags alone -/
theorem findOrAddCore_flags (i : Nat) (v w : Int) (m : Mgr) :
    (findOrAddCore i v w m).2.ctx = m.ctx ∧ (findOrAddCore i v w m).2.fireIn = m.fireIn := by
  unfold findOrAddCore
  dsimp only
  repeat' split
  all_goals first
    | exact ⟨rfl, rfl⟩
    | (rename_i ha _ _ _ hb
       have a := incref_frame' ha
       have b := incref_frame' hb
       simp [a.1, a.2, b.1, b.2]
       done)
    | (rename_i ha
       have a := incref_frame' ha
       simp [a.1, a.2]
       done)

/-- OUTSIDE a reordering context `find_or_add` does not call `_request_reordering` at all -/
theorem findOrAdd_noctx (i v w : Int) (m : Mgr) (hc : m.ctx = false) :
    findOrAdd i v w m = if i < 0 then (.error .value, m) else findOrAddCore i.toNat v w m := by
  unfold findOrAdd
  simp only [hc, Bool.false_eq_true, if_false]

theorem findOrAdd_nq (i v w : Int) (m : Mgr) (hc : m.ctx = false) : NQ m (findOrAdd i v w m) := by
  rw [findOrAdd_noctx i v w m hc]
  split
  · exact NQ.refl_err hc _ (by simp)
  · have h := findOrAddCore_flags i.toNat v w m
    exact ⟨by rw [h.1]; exact hc, h.2, findOrAddCore_noNR m i.toNat v w⟩

theorem findOrAdd_LL (i v w : Int) (m : Mgr) (l : Option Nat) (hc : m.ctx = false) :
    findOrAdd i v w (m.withLL l) = llOut l (findOrAdd i v w m) := by
  rw [findOrAdd_noctx i v w m hc, findOrAdd_noctx i v w (m.withLL l) hc]
  split
  · rfl
  · exact findOrAddCore_LL i.toNat v w m l

/-! ### `_ite` -/

theorem iteF_nq : ∀ (f : Nat) (g u v : Int) (m : Mgr), m.ctx = false → NQ m (iteF f g u v m) := by
  intro f
  induction f with
  | zero => intro g u v m hc; exact NQ.refl_err hc _ (by simp)
  | succ f ih =>
    intro g u v m hc
    unfold iteF
    split
    · exact NQ.refl_ok hc _
    split
    · exact NQ.refl_ok hc _
    split
    · exact NQ.refl_ok hc _
    split
    · dsimp only
      split
      · split
        · next heq => exact ((ih _ _ _ _ hc).of_eq heq).reErr
        next heq =>
        have h1 := (ih _ _ _ _ hc).of_eq heq
        split
        · next heq => exact h1.trans ((ih _ _ _ _ h1.ctx).of_eq heq).reErr
        next heq =>
        have h2 := h1.trans ((ih _ _ _ _ h1.ctx).of_eq heq)
        split
        · next heq => exact h2.trans ((findOrAdd_nq _ _ _ _ h2.ctx).of_eq heq).reErr
        next heq =>
        have h3 := h2.trans ((findOrAdd_nq _ _ _ _ h2.ctx).of_eq heq)
        exact ⟨h3.ctx, h3.fire, by simp⟩
      · next he => exact NQ.refl_err hc _ (noNR_of_eq (topCofactor_noNR _ _ _) he)
      · next he _ => exact NQ.refl_err hc _ (noNR_of_eq (topCofactor_noNR _ _ _) he)
      · next he _ _ => exact NQ.refl_err hc _ (noNR_of_eq (topCofactor_noNR _ _ _) he)
    · exact NQ.refl_err hc _ (by simp)

theorem iteF_LL : ∀ (f : Nat) (g u v : Int) (m : Mgr) (l : Option Nat), m.ctx = false →
    iteF f g u v (m.withLL l) = llOut l (iteF f g u v m) := by
  intro f
  induction f with
  | zero => intro g u v m l _; rfl
  | succ f ih =>
    intro g u v m l hc
    unfold iteF
    dsimp only [Mgr.withLL]
    split
    · rfl
    split
    · rfl
    split
    · rfl
    split
    · split
      · next g0 g1 u0 u1 v0 v1 _ _ _ =>
        have e1 := ih g0 u0 v0 m l hc
        have c1 := iteF_nq f g0 u0 v0 m hc
        rw [e1]
        generalize iteF f g0 u0 v0 m = res1 at c1 ⊢
        obtain ⟨r1, m1⟩ := res1
        cases r1 with
        | error e => rfl
        | ok p =>
          dsimp only [llOut]
          have e2 := ih g1 u1 v1 m1 l c1.ctx
          have c2 := iteF_nq f g1 u1 v1 m1 c1.ctx
          rw [e2]
          generalize iteF f g1 u1 v1 m1 = res2 at c2 ⊢
          obtain ⟨r2, m2⟩ := res2
          cases r2 with
          | error e => rfl
          | ok q =>
            dsimp only [llOut]
            rw [findOrAdd_LL _ p q m2 l c2.ctx]
            generalize findOrAdd _ p q m2 = res3
            obtain ⟨r3, m3⟩ := res3
            cases r3 with
            | error e => rfl
            | ok w => rfl
      · rfl
      · rfl
      · rfl
    · rfl

theorem iteRaw_nq (g u v : Int) (m : Mgr) (hc : m.ctx = false) : NQ m (iteRaw g u v m) := by
  rw [dmp_iteRaw_eq]; exact iteF_nq _ g u v m hc

theorem iteRaw_LL (g u v : Int) (m : Mgr) (l : Option Nat) (hc : m.ctx = false) :
    iteRaw g u v (m.withLL l) = llOut l (iteRaw g u v m) := by
  rw [dmp_iteRaw_eq, dmp_iteRaw_eq]
  exact iteF_LL _ g u v m l hc

/-! ### `add_var`, the first loop of `_load_pickle` -/

theorem addVar_run (var : String) (level : Option Int) (m : Mgr) :
    addVar var level m =
      match m.tbl.vars[var]? with
      | some vl =>
        (match level with
         | none => (.ok vl, m)
         | some lv => if lv = vl then (.ok vl, m) else (.error .value, m))
      | none =>
        if level.getD m.nvars < 0 then (.error .assertion, m) else
        match m.tbl.l2v[(level.getD m.nvars).toNat]? with
        | some _ => (.error .value, m)
        | none =>
          (.ok (level.getD m.nvars).toNat, { m with tbl := { m.tbl with
            vars := m.tbl.vars.insert var (level.getD m.nvars).toNat
            l2v := m.tbl.l2v.insert (level.getD m.nvars).toNat var } }) := by
  unfold addVar
  simp only [bind, M.bind', M.get, pure]
  cases m.tbl.vars[var]? with
  | some vl =>
    cases level with
    | none => rfl
    | some lv => by_cases h : lv = (vl : Int) <;> simp [h, M.pure', M.throw]
  | none =>
    by_cases h : level.getD m.nvars < 0
    · simp [h, M.bind', M.throw]
    · simp only [h, ↓reduceIte]
      cases m.tbl.l2v[(level.getD m.nvars).toNat]? <;> rfl

theorem addVar_nq (var : String) (level : Option Int) (m : Mgr) (hc : m.ctx = false) :
    NQ m (addVar var level m) := by
  rw [addVar_run]
  split
  · split
    · exact NQ.refl_ok hc _
    · split
      · exact NQ.refl_ok hc _
      · exact NQ.refl_err hc _ (by simp)
  · split
    · exact NQ.refl_err hc _ (by simp)
    · split
      · exact NQ.refl_err hc _ (by simp)
      · exact ⟨hc, rfl, by simp⟩

theorem addVar_LL (var : String) (level : Option Int) (m : Mgr) (l : Option Nat) :
    addVar var level (m.withLL l) = llOut l (addVar var level m) := by
  rw [addVar_run, addVar_run]
  dsimp only [Mgr.withLL, Mgr.nvars]
  cases hv : m.tbl.vars[var]? with
  | some vl =>
    cases level with
    | none => rfl
    | some lv =>
      dsimp only
      by_cases h : lv = (vl : Int)
      · simp only [h, ↓reduceIte]; rfl
      · simp only [h, ↓reduceIte]; rfl
  | none =>
    dsimp only
    by_cases h : level.getD (m.tbl.nvars : Int) < 0
    · simp only [h, ↓reduceIte]; rfl
    · simp only [h, ↓reduceIte]
      cases m.tbl.l2v[(level.getD (m.tbl.nvars : Int)).toNat]? <;> rfl

theorem loadVars_nq (levels : Bool) (n : Nat) : ∀ (vs : List (String × Nat)) (lm : List (Nat × Nat))
    (m : Mgr), m.ctx = false → NQ m (loadVars levels n vs lm m) := by
  intro vs
  induction vs with
  | nil => intro lm m hc; exact NQ.refl_ok hc _
  | cons x rest ih =>
    intro lm m hc
    obtain ⟨var, i⟩ := x
    rw [loadVars]
    dsimp only
    split
    · exact NQ.refl_err hc _ (by simp)
    · split
      · next heq => exact ((addVar_nq _ _ m hc).of_eq heq).reErr
      · next heq =>
        have h1 := (addVar_nq _ _ m hc).of_eq heq
        exact h1.trans (ih _ _ h1.ctx)

theorem loadVars_LL (levels : Bool) (n : Nat) : ∀ (vs : List (String × Nat)) (lm : List (Nat × Nat))
    (m : Mgr) (l : Option Nat), m.ctx = false →
    loadVars levels n vs lm (m.withLL l) = llOut l (loadVars levels n vs lm m) := by
  intro vs
  induction vs with
  | nil => intro lm m l _; rfl
  | cons x rest ih =>
    intro lm m l hc
    obtain ⟨var, i⟩ := x
    rw [loadVars]
    dsimp only
    split
    · rfl
    · rw [addVar_LL]
      have c1 := addVar_nq var (if levels = true then some (i : Int) else none) m hc
      generalize addVar var (if levels = true then some (i : Int) else none) m = res1 at c1 ⊢
      obtain ⟨r1, m1⟩ := res1
      cases r1 with
      | error e => rfl
      | ok j =>
        dsimp only [llOut]
        exact ih _ m1 l c1.ctx

/-! ### `_load`, the second loop, `load` -/

theorem loadNodeF_nq (succ : List PEntry) (lm : List (Nat × Nat)) :
    ∀ (fuel : Nat) (u : Int) (umap : TreeMap Int Int) (m : Mgr), m.ctx = false →
      NQ m (loadNodeF succ lm fuel u umap m) := by
  intro fuel
  induction fuel with
  | zero => intro u umap m hc; exact NQ.refl_err hc _ (by simp)
  | succ f ih =>
    intro u umap m hc
    rw [loadNodeF]
    dsimp only
    split
    · exact NQ.refl_ok hc _
    split
    · split
      · exact NQ.refl_err hc _ (by simp)
      · split
        · exact NQ.refl_err hc _ (by simp)
        · exact NQ.refl_ok hc _
    split
    · exact NQ.refl_err hc _ (by simp)
    split
    · exact NQ.refl_err hc _ (by simp)
    split
    · -- both children present
      split
      · next heq => exact ((ih _ _ m hc).of_eq heq).reErr
      next heq =>
      have h1 := (ih _ _ m hc).of_eq heq
      split
      · next heq => exact h1.trans ((ih _ _ _ h1.ctx).of_eq heq).reErr
      next heq =>
      have h2 := h1.trans ((ih _ _ _ h1.ctx).of_eq heq)
      split
      · next heq => exact h2.trans ((findOrAdd_nq _ _ _ _ h2.ctx).of_eq heq).reErr
      next heq =>
      have h3 := h2.trans ((findOrAdd_nq _ _ _ _ h2.ctx).of_eq heq)
      split
      · next heq => exact h3.trans ((iteRaw_nq _ _ _ _ h3.ctx).of_eq heq).reErr
      next heq =>
      have h4 := h3.trans ((iteRaw_nq _ _ _ _ h3.ctx).of_eq heq)
      split
      · exact ⟨h4.ctx, h4.fire, by simp⟩
      · exact ⟨h4.ctx, h4.fire, by simp⟩
    · exact NQ.refl_err hc _ (by simp)
    · split
      · next heq => exact ((ih _ _ m hc).of_eq heq).reErr
      · next heq =>
        have h1 := (ih _ _ m hc).of_eq heq
        exact ⟨h1.ctx, h1.fire, by simp⟩

theorem loadNodeF_LL (succ : List PEntry) (lm : List (Nat × Nat)) :
    ∀ (fuel : Nat) (u : Int) (umap : TreeMap Int Int) (m : Mgr) (l : Option Nat), m.ctx = false →
      loadNodeF succ lm fuel u umap (m.withLL l) = llOut l (loadNodeF succ lm fuel u umap m) := by
  intro fuel
  induction fuel with
  | zero => intro u umap m l _; rfl
  | succ f ih =>
    intro u umap m l hc
    rw [loadNodeF]
    dsimp only
    split
    · rfl
    split
    · split
      · rfl
      · split <;> rfl
    split
    · rfl
    split
    · rfl
    split
    · next v w _ _ =>
      rw [ih v umap m l hc]
      have c1 := loadNodeF_nq succ lm f v umap m hc
      generalize loadNodeF succ lm f v umap m = res1 at c1 ⊢
      obtain ⟨r1, m1⟩ := res1
      cases r1 with
      | error e => rfl
      | ok pu =>
        obtain ⟨p, umap1⟩ := pu
        dsimp only [llOut]
        rw [ih w umap1 m1 l c1.ctx]
        have c2 := loadNodeF_nq succ lm f w umap1 m1 c1.ctx
        generalize loadNodeF succ lm f w umap1 m1 = res2 at c2 ⊢
        obtain ⟨r2, m2⟩ := res2
        cases r2 with
        | error e => rfl
        | ok qu =>
          obtain ⟨q, umap2⟩ := qu
          dsimp only [llOut]
          rw [findOrAdd_LL _ (-1) 1 m2 l c2.ctx]
          generalize hres3 : findOrAdd _ (-1) 1 m2 = res3
          have c3 := (findOrAdd_nq _ _ _ m2 c2.ctx).of_eq hres3
          obtain ⟨r3, m3⟩ := res3
          cases r3 with
          | error e => rfl
          | ok g =>
            dsimp only [llOut]
            rw [iteRaw_LL g q p m3 l c3.ctx]
            generalize iteRaw g q p m3 = res4
            obtain ⟨r4, m4⟩ := res4
            cases r4 with
            | error e => rfl
            | ok r =>
              dsimp only [llOut]
              split <;> rfl
    · rfl
    · next v _ _ =>
      rw [ih v umap m l hc]
      generalize loadNodeF succ lm f v umap m = res1
      obtain ⟨r1, m1⟩ := res1
      cases r1 with
      | error e => rfl
      | ok pu => rfl

theorem loadAll_nq (succ : List PEntry) (lm : List (Nat × Nat)) (fuel : Nat) :
    ∀ (es : List PEntry) (umap : TreeMap Int Int) (m : Mgr), m.ctx = false →
      NQ m (loadAll succ lm fuel es umap m) := by
  intro es
  induction es with
  | nil => intro umap m hc; exact NQ.refl_ok hc _
  | cons e rest ih =>
    intro umap m hc
    rw [loadAll]
    dsimp only
    split
    · exact ih umap m hc
    · split
      · next heq => exact ((loadNodeF_nq succ lm fuel _ umap m hc).of_eq heq).reErr
      · next heq =>
        have h1 := (loadNodeF_nq succ lm fuel _ umap m hc).of_eq heq
        exact h1.trans (ih _ _ h1.ctx)

theorem loadAll_LL (succ : List PEntry) (lm : List (Nat × Nat)) (fuel : Nat) :
    ∀ (es : List PEntry) (umap : TreeMap Int Int) (m : Mgr) (l : Option Nat), m.ctx = false →
      loadAll succ lm fuel es umap (m.withLL l) = llOut l (loadAll succ lm fuel es umap m) := by
  intro es
  induction es with
  | nil => intro umap m l _; rfl
  | cons e rest ih =>
    intro umap m l hc
    rw [loadAll]
    dsimp only
    split
    · exact ih umap m l hc
    · rw [loadNodeF_LL succ lm fuel _ umap m l hc]
      have c1 := loadNodeF_nq succ lm fuel (e.id : Int) umap m hc
      generalize loadNodeF succ lm fuel (e.id : Int) umap m = res1 at c1 ⊢
      obtain ⟨r1, m1⟩ := res1
      cases r1 with
      | error er => rfl
      | ok pu =>
        obtain ⟨p, umap1⟩ := pu
        dsimp only [llOut]
        exact ih umap1 m1 l c1.ctx

theorem mapRoots_noNR (umap : TreeMap Int Int) (r : Roots) :
    mapRoots umap r ≠ .error .needsReordering := by
  have hnode : ∀ u, mapNode umap u ≠ .error .needsReordering := by
    intro u
    unfold mapNode
    split
    · simp
    · split <;> simp
  have hlist : ∀ l : List Int, l.mapM (mapNode umap) ≠ .error .needsReordering := by
    intro l
    induction l with
    | nil => simp [List.mapM_nil, pure, Except.pure]
    | cons a t ih =>
      rw [List.mapM_cons]
      cases ha : mapNode umap a with
      | error e =>
        have := hnode a
        rw [ha] at this
        simpa [bind, Except.bind] using this
      | ok b =>
        cases ht : t.mapM (mapNode umap) with
        | error e =>
          rw [ht] at ih
          simpa [bind, Except.bind, ht] using ih
        | ok bs => simp [bind, Except.bind, pure, Except.pure]
  have hdict : ∀ d : List (String × Int),
      (d.mapM fun kv => (mapNode umap kv.2).map fun v => (kv.1, v)) ≠ .error .needsReordering := by
    intro d
    induction d with
    | nil => simp [List.mapM_nil, pure, Except.pure]
    | cons a t ih =>
      rw [List.mapM_cons]
      cases ha : mapNode umap a.2 with
      | error e =>
        have := hnode a.2
        rw [ha] at this
        simpa [bind, Except.bind, Except.map, ha] using this
      | ok b =>
        cases ht : (t.mapM fun kv => (mapNode umap kv.2).map fun v => (kv.1, v)) with
        | error e =>
          rw [ht] at ih
          simpa [bind, Except.bind, Except.map, ha, ht] using ih
        | ok bs => simp [bind, Except.bind, Except.map, pure, Except.pure]
  cases r with
  | none => simp [mapRoots]
  | list l =>
    simp only [mapRoots, Roots.mapE]
    have := hlist l
    cases hl : l.mapM (mapNode umap) with
    | error e => rw [hl] at this; simpa [Except.map] using this
    | ok x => simp [Except.map]
  | dict d =>
    simp only [mapRoots, Roots.mapE]
    have := hdict d
    cases hl : (d.mapM fun kv => (mapNode umap kv.2).map fun v => (kv.1, v)) with
    | error e => rw [hl] at this; simpa [Except.map] using this
    | ok x => simp [Except.map]

/-- `BDD.load` (pickle) called outside a reordering context: it ends outside a context,
`_request_reordering` was never called, and the reordering signal is not the error of the call -/
theorem loadPickle_nq (f : PickleFile) (levels : Bool) (m : Mgr) (hc : m.ctx = false) :
    NQ m (loadPickle f levels m) := by
  rw [loadPickle_eq]
  split
  · exact NQ.refl_err hc _ (by simp)
  split
  · exact NQ.refl_err hc _ (by simp)
  unfold loadPickleBody
  split
  · next heq => exact ((loadVars_nq levels _ _ _ m hc).of_eq heq).reErr
  next heq =>
  have h1 := (loadVars_nq levels _ _ _ m hc).of_eq heq
  split
  · next heq => exact h1.trans ((loadAll_nq _ _ _ _ _ _ h1.ctx).of_eq heq).reErr
  next heq =>
  have h2 := h1.trans ((loadAll_nq _ _ _ _ _ _ h1.ctx).of_eq heq)
  exact ⟨h2.ctx, h2.fire, mapRoots_noNR _ _⟩

/-- `BDD.load` (pickle) never looks at `_last_len` -/
theorem loadPickle_LL (f : PickleFile) (levels : Bool) (m : Mgr) (l : Option Nat) (hc : m.ctx = false) :
    loadPickle f levels (m.withLL l) = llOut l (loadPickle f levels m) := by
  rw [loadPickle_eq, loadPickle_eq]
  split
  · rfl
  show (if (levels && !levelsCompatible m.tbl f.vars) = true then _ else _) = _
  split
  · rfl
  unfold loadPickleBody
  rw [loadVars_LL levels _ _ _ m l hc]
  have c1 := loadVars_nq levels f.vars.length f.vars [] m hc
  generalize loadVars levels f.vars.length f.vars [] m = res1 at c1 ⊢
  obtain ⟨r1, m1⟩ := res1
  cases r1 with
  | error e => rfl
  | ok lm =>
    dsimp only [llOut]
    rw [loadAll_LL _ _ _ _ _ m1 l c1.ctx]
    generalize loadAll f.succ lm (f.vars.length + f.succ.length + 2) f.succ {} m1 = res2
    obtain ⟨r2, m2⟩ := res2
    cases r2 with
    | error e => rfl
    | ok umap => rfl

/-- **`load` never reorders.**  For ANY value of `_last_len` — dynamic reordering enabled with
whatever threshold, or not — `BDD.load` called outside a reordering context returns exactly what
it returns with `_last_len = None`, in exactly that state except that `_last_len` is what it was;
`_request_reordering` is never called (trigger counter untouched), the context flag stays
cleared, and the reordering signal is not raised. -/
theorem loadPickle_never_reorders (f : PickleFile) (levels : Bool) (m : Mgr) (hc : m.ctx = false) :
    loadPickle f levels m =
      ((loadPickle f levels { m with lastLen := none }).1,
       { (loadPickle f levels { m with lastLen := none }).2 with lastLen := m.lastLen }) ∧
    (loadPickle f levels m).1 ≠ .error .needsReordering ∧
    (loadPickle f levels m).2.lastLen = m.lastLen ∧
    (loadPickle f levels m).2.fireIn = m.fireIn ∧
    (loadPickle f levels m).2.ctx = false := by
  have h := loadPickle_LL f levels (m.withLL none) m.lastLen hc
  have hq := loadPickle_nq f levels m hc
  have hself := loadPickle_LL f levels m m.lastLen hc
  refine ⟨h, hq.noNR, ?_, hq.fire, hq.ctx⟩
  rw [Mgr.withLL_self] at hself
  have : (loadPickle f levels m).2 = (llOut m.lastLen (loadPickle f levels m)).2 := by rw [← hself]
  rw [this]
  rfl

/-! ### the `dd.autoref` wrapper of `load` -/

theorem dmpWrap_nq (u : Int) (m : Mgr) (hc : m.ctx = false) : NQ m (dmpWrap u m) := by
  unfold dmpWrap
  split
  · exact NQ.refl_err hc _ (by simp)
  · cases h : incref u m with
    | mk r m' =>
      have hf := incref_frame' h
      refine ⟨by rw [hf.1]; exact hc, hf.2, ?_⟩
      cases r with
      | ok _ => simp
      | error e => rw [incref_err h]; simp

theorem dmpWrap_LL (u : Int) (m : Mgr) (l : Option Nat) :
    dmpWrap u (m.withLL l) = llOut l (dmpWrap u m) := by
  unfold dmpWrap
  dsimp only [Mgr.withLL, Mgr.mem]
  by_cases h : (!m.tbl.mem u) = true
  · simp only [h, ↓reduceIte]; rfl
  · simp only [h]
    exact incref_LL u m l

theorem wrapList_nq : ∀ (us : List Int) (m : Mgr), m.ctx = false → NQ m (wrapList us m) := by
  intro us
  induction us with
  | nil => intro m hc; exact NQ.refl_ok hc _
  | cons u rest ih =>
    intro m hc
    rw [wrapList]
    dsimp only
    split
    · next heq => exact ((dmpWrap_nq u m hc).of_eq heq).reErr
    · next heq =>
      have h1 := (dmpWrap_nq u m hc).of_eq heq
      exact h1.trans (ih _ h1.ctx)

theorem wrapList_LL : ∀ (us : List Int) (m : Mgr) (l : Option Nat),
    wrapList us (m.withLL l) = llOut l (wrapList us m) := by
  intro us
  induction us with
  | nil => intro m l; rfl
  | cons u rest ih =>
    intro m l
    rw [wrapList]
    dsimp only
    rw [dmpWrap_LL]
    generalize dmpWrap u m = res1
    obtain ⟨r1, m1⟩ := res1
    cases r1 with
    | error e => rfl
    | ok x =>
      dsimp only [llOut]
      exact ih m1 l

/-- the same for `dd.autoref.BDD.load` of a pickle (`Function` wrappers on the roots) -/
theorem loadPickleAutoref_never_reorders (f : PickleFile) (levels : Bool) (m : Mgr) (hc : m.ctx = false) :
    loadPickleAutoref f levels m =
      ((loadPickleAutoref f levels { m with lastLen := none }).1,
       { (loadPickleAutoref f levels { m with lastLen := none }).2 with lastLen := m.lastLen }) ∧
    (loadPickleAutoref f levels m).1 ≠ .error .needsReordering := by
  have key : ∀ (m : Mgr) (l : Option Nat), m.ctx = false →
      loadPickleAutoref f levels (m.withLL l) = llOut l (loadPickleAutoref f levels m) := by
    intro m l hc
    unfold loadPickleAutoref
    rw [loadPickle_LL f levels m l hc]
    generalize loadPickle f levels m = res1
    obtain ⟨r1, m1⟩ := res1
    cases r1 with
    | error e => rfl
    | ok roots =>
      dsimp only [llOut]
      rw [wrapList_LL]
      generalize wrapList roots.values m1 = res2
      obtain ⟨r2, m2⟩ := res2
      cases r2 <;> rfl
  refine ⟨key (m.withLL none) m.lastLen hc, ?_⟩
  unfold loadPickleAutoref
  have hq := loadPickle_nq f levels m hc
  split
  · next heq => exact ((hq.of_eq heq).reErr (β := Roots)).noNR
  next heq =>
  have h1 := hq.of_eq heq
  split
  · simp
  · next heq2 => exact ((wrapList_nq _ _ h1.ctx).of_eq heq2).reErr.noNR

/-! ### hence the C12 theorem for `load` holds verbatim with reordering enabled -/

/-- C12's theorem for `BDD.load` (`pickle_load`) with dynamic reordering ENABLED at any
threshold: the same conclusion, and reordering is still enabled with the same threshold. -/
theorem pickle_load_enabled (f : PickleFile) (levels : Bool)
    (m : Mgr) (hI : Inv m) (hb : DmpVarsBij m.tbl) (hc : m.ctx = false)
    (hwf : PickleWF f) (hr : RootsResolvable f)
    (lm : List (Nat × Nat)) (m1 : Mgr)
    (hv : loadVars levels f.vars.length f.vars [] m = (.ok lm, m1))
    (hg : Contig m1.tbl)
    (hperm : levels = true → levelsPermutation f.vars = true) :
    ∃ roots' m', loadPickle f levels m = (.ok roots', m') ∧ Inv m' ∧ DmpVarsBij m'.tbl ∧
      Contig m'.tbl ∧ m'.ctx = false ∧ (∀ u n, m.tbl.node? u = some n → m'.tbl.node? u = some n) ∧
      LoadedFrom f m'.tbl roots' ∧ m'.lastLen = m.lastLen ∧ m'.fireIn = m.fireIn := by
  obtain ⟨roots', m', he, h1, h2, h3, h4, h5, h6⟩ := pickle_load f levels m hI hb hc hwf hr lm m1 hv hg hperm
  have hn := loadPickle_never_reorders f levels m hc
  rw [he] at hn
  exact ⟨roots', m', he, h1, h2, h3, h4, h5, h6, hn.2.2.1, hn.2.2.2.1⟩

end DD
