/-
  DDProofs.ApiMddProofs — `MDD.to_expr(u)`: for a well-formed MDD table whose levels all have a
  variable, the call returns normally for every reference and the printed conditional chain,
  evaluated under an assignment of integers to the variable NAMES, has the value of the reference
  under the corresponding assignment of the levels (`denM`) — for every assignment, in range or
  not (out of range no branch applies and both sides are the value of "no successor").
-/
import DD.ApiMdd
import DDProofs.MddSem
open Std

namespace DD

/-- the assignment of the levels induced by an assignment of the variable names -/
def MTbl.liftN (t : MTbl) (σ : String → Nat) : MAsg := fun i =>
  match t.varAt? i with
  | some v => σ v.name
  | none => 0

/-- every level has a variable (`var_at_level` never raises `KeyError`) -/
def MTbl.Named (t : MTbl) : Prop := ∀ i, i < t.nvars → (t.varAt? i).isSome

theorem mem_mIdxOf (kids : List Int) (x : Int) (j : Nat) :
    (mIdxOf kids x).contains j = true ↔ kids[j]? = some x := by
  unfold mIdxOf
  simp only [List.contains_eq_mem, List.mem_filter, List.mem_range, beq_iff_eq, decide_eq_true_eq]
  constructor
  · rintro ⟨_, h⟩; exact h
  · intro h
    refine ⟨?_, h⟩
    by_cases hj : j < kids.length
    · exact hj
    · rw [List.getElem?_eq_none (by omega)] at h; cases h

/-- `mapME` over a list on which the function succeeds -/
theorem mapME_map_ok {α β} (f : α → Except Err β) (g : α → β) :
    ∀ l : List α, (∀ x ∈ l, f x = .ok (g x)) → mapME f l = .ok (l.map g) := by
  intro l
  induction l with
  | nil => intro _; rfl
  | cons a l ih =>
    intro h
    rw [mapME, h a List.mem_cons_self, ih (fun x hx => h x (List.mem_cons_of_mem _ hx))]
    rfl

/-- value of the chain when the position `j` holds no successor: no branch applies -/
theorem mChain_eval_none (var : String) (kids : List Int) (σ : String → Nat)
    (hj : kids[σ var]? = none) :
    ∀ bs : List (Int × MExpr), (mChain var kids bs).eval σ = false := by
  intro bs
  induction bs with
  | nil => rfl
  | cons b bs ih =>
    obtain ⟨x, e⟩ := b
    rw [mChain, MExpr.eval]
    have : (mIdxOf kids x).contains (σ var) = false := by
      cases hc : (mIdxOf kids x).contains (σ var) with
      | false => rfl
      | true => rw [mem_mIdxOf, hj] at hc; cases hc
    rw [this]
    simpa using ih

/-- value of the chain when the position `j` holds the successor `k`, one of the listed ones -/
theorem mChain_eval_some (var : String) (kids : List Int) (σ : String → Nat) (k : Int)
    (val : Int → Bool) (E : Int → MExpr) (hj : kids[σ var]? = some k) :
    ∀ (c : List Int), (∀ x ∈ c, (E x).eval σ = val x) → k ∈ c →
      (mChain var kids (c.map fun x => (x, E x))).eval σ = val k := by
  intro c
  induction c with
  | nil => intro _ h; cases h
  | cons x c ih =>
    intro hE hk
    rw [List.map_cons, mChain, MExpr.eval]
    by_cases hxk : x = k
    · subst hxk
      have : (mIdxOf kids x).contains (σ var) = true := (mem_mIdxOf kids x _).mpr hj
      rw [this]
      simpa using hE x List.mem_cons_self
    · have : (mIdxOf kids x).contains (σ var) = false := by
        cases hc : (mIdxOf kids x).contains (σ var) with
        | false => rfl
        | true =>
          rw [mem_mIdxOf, hj] at hc
          exact absurd (Option.some.inj hc).symm hxk
      rw [this]
      have hk' : k ∈ c := by
        rcases List.mem_cons.mp hk with h | h
        · exact absurd h.symm hxk
        · exact h
      simpa using ih (fun y hy => hE y (List.mem_cons_of_mem _ hy)) hk'

theorem mem_dedup_int (a : Int) : ∀ l : List Int, a ∈ dedup l ↔ a ∈ l := by
  intro l
  induction l with
  | nil => simp [dedup]
  | cons b l ih =>
    rw [dedup]
    by_cases hc : (dedup l).contains b = true
    · rw [if_pos hc, ih, List.mem_cons]
      constructor
      · exact Or.inr
      · rintro (h | h)
        · subst h
          have hb : a ∈ dedup l := by simpa using hc
          exact ih.mp hb
        · exact h
    · rw [if_neg hc, List.mem_cons, List.mem_cons, ih]

/-- `MDD.to_expr`, with fuel `f` sufficient for the level of `u` -/
theorem mToExprF_spec (t : MTbl) (hw : MWF t) (hN : t.Named) :
    ∀ (f : Nat) (u : Int), t.Mem u → t.nvars + 1 ≤ f + t.levelOf u →
      ∃ e, mToExprF f t u = .ok e ∧ ∀ σ, e.eval σ = denM t u (t.liftN σ) := by
  intro f
  induction f with
  | zero =>
    intro u hm hf
    have := t.levelOf_le hw u
    omega
  | succ f ih =>
    intro u hm hf
    rw [mToExprF]
    by_cases h1 : u = 1
    · subst h1
      exact ⟨.const true, by simp, fun σ => by rw [denM_one]; rfl⟩
    rw [if_neg h1]
    by_cases h2 : u = -1
    · subst h2
      exact ⟨.const false, by simp, fun σ => by rw [denM_neg_one]; rfl⟩
    rw [if_neg h2]
    have habs : u.natAbs ≠ 1 := by omega
    rcases hm with hm | hm
    · exact absurd hm habs
    obtain ⟨n, hn⟩ := Option.isSome_iff_exists.mp hm
    have hn' : t.succ[u.natAbs]? = some n := hn
    rw [hn']
    simp only
    have hlt := hw.lvl_lt _ _ hn
    obtain ⟨v, hv⟩ := Option.isSome_iff_exists.mp (hN n.lvl hlt)
    rw [hv]
    simp only
    have hlvl : t.levelOf u = n.lvl := t.levelOf_node u n habs hn
    -- the distinct successors and their expressions
    let E : Int → MExpr := fun x => match mToExprF f t x with | .ok e => e | .error _ => .fail
    have hkids : ∀ x ∈ dedup n.kids, mToExprF f t x = .ok (E x) ∧
        ∀ σ, (E x).eval σ = denM t x (t.liftN σ) := by
      intro x hx
      have hxk : x ∈ n.kids := (mem_dedup_int x n.kids).mp hx
      have hxm := hw.kids_mem _ _ hn x hxk
      have hxl := hw.kids_lt _ _ hn x hxk
      obtain ⟨e, he, hev⟩ := ih x hxm (by omega)
      have hEx : E x = e := by simp only [E, he]
      rw [hEx]
      exact ⟨he, hev⟩
    have hbs : mapME (fun x => (mToExprF f t x).map fun e => (x, e)) (dedup n.kids) =
        .ok ((dedup n.kids).map fun x => (x, E x)) :=
      mapME_map_ok _ _ _ (fun x hx => by rw [(hkids x hx).1]; rfl)
    rw [hbs]
    -- at least one successor
    obtain ⟨k0, rest, hk0, _⟩ := hw.head_pos _ _ hn
    have hk0m : k0 ∈ dedup n.kids :=
      (mem_dedup_int k0 n.kids).mpr (by rw [hk0]; exact List.mem_cons_self)
    cases hc : dedup n.kids with
    | nil => rw [hc] at hk0m; cases hk0m
    | cons c0 cs =>
      rw [List.map_cons]
      simp only
      rw [← List.map_cons (f := fun x => (x, E x)), ← hc]
      -- value of the chain under `σ`
      have hchain : ∀ σ, (mChain v.name n.kids ((dedup n.kids).map fun x => (x, E x))).eval σ =
          (match n.kids[(t.liftN σ) n.lvl]? with
            | some k => denM t k (t.liftN σ)
            | none => false) := by
        intro σ
        have hlift : (t.liftN σ) n.lvl = σ v.name := by simp [MTbl.liftN, hv]
        rw [hlift]
        cases hj : n.kids[σ v.name]? with
        | none => exact mChain_eval_none v.name n.kids σ hj _
        | some k =>
          simp only
          have hkm : k ∈ dedup n.kids := (mem_dedup_int k n.kids).mpr (getElem?_mem' hj)
          exact mChain_eval_some v.name n.kids σ k (fun x => denM t x (t.liftN σ)) E hj
            (dedup n.kids) (fun x hx => (hkids x hx).2 σ) hkm
      by_cases hneg : u < 0
      · rw [if_pos hneg]
        refine ⟨_, rfl, fun σ => ?_⟩
        rw [MExpr.eval, hchain σ, denM_node t hw u n _ habs hn]
        cases n.kids[t.liftN σ n.lvl]? <;> simp [hneg]
      · rw [if_neg hneg]
        refine ⟨_, rfl, fun σ => ?_⟩
        rw [hchain σ, denM_node t hw u n _ habs hn]
        cases n.kids[t.liftN σ n.lvl]? <;> simp [hneg]

/-- `MDD.to_expr(u)` for any reference of a well-formed table with named levels -/
theorem mToExpr_spec (t : MTbl) (hw : MWF t) (hN : t.Named) (u : Int) (hm : t.Mem u) :
    ∃ e, mToExpr t u = .ok e ∧ ∀ σ, e.eval σ = denM t u (t.liftN σ) :=
  mToExprF_spec t hw hN (t.nvars + 2) u hm (by omega)

/-- a reference that is no node: `KeyError` -/
theorem mToExpr_not_mem (t : MTbl) (u : Int) (h1 : u.natAbs ≠ 1) (hn : t.succ[u.natAbs]? = none) :
    mToExpr t u = .error .key := by
  unfold mToExpr
  rw [mToExprF, if_neg (by omega), if_neg (by omega), hn]

end DD
