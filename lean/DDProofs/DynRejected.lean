/-
  DDProofs.DynRejected — the FAILURE counterpart of `tryToReorder_transparent`
  (DDProofs.DynGeneric): the decorator `_try_to_reorder` around a body that may also FAIL.

  `OutcomeE` extends `Outcome` (documented result | aborted by a reordering request having only
  added nodes) with the third case: the body raises an exception other than the internal signal,
  having only added nodes.  For every such body the decorated call, from a state `DynInv ext m`,
  whether it returns or raises,
    * never lets the internal signal `_NeedsReordering` escape,
    * ends in a state `DynInv ext m'` — invariant, order bijection, counts exact for the SAME
      ledger, context flag cleared, no schedule left — also when the failure happens in the
      SECOND attempt, after sifting (defect F11 was exactly there: the re-arming of `_last_len`
      was skipped; the code now has a `finally`, mirrored by `DD.tryToReorder`),
    * leaves reordering enabled iff it was, the same declared names, the same roots,
    * keeps every reference the user holds a member with the same function of the variable
      NAMES (levels may have moved if sifting ran).
-/
import DDProofs.DynGeneric
open Std

namespace DD

/-- the exception raised, if any -/
def raisedErr {α} : Except Err α → Option Err
  | .error e => some e
  | .ok _ => none

/-! ### three outcomes -/

/-- outcome of a computation started in `m`: a result satisfying `Post`, or an exception — the
reordering signal only from an armed context — in both cases after a step that only added nodes -/
def OutcomeE {α} (m : Mgr) (Post : α → Mgr → Prop) : Except Err α × Mgr → Prop
  | (.ok r, m') => StepK m m' ∧ Post r m'
  | (.error e, m') => StepK m m' ∧ (e = .needsReordering → Armed m)

/-- the two-outcome specifications are three-outcome specifications without the failure case -/
theorem Outcome.toE {α} {m : Mgr} {Post : α → Mgr → Prop} {res : Except Err α × Mgr}
    (h : Outcome m Post res) : OutcomeE m Post res := by
  obtain ⟨r, m'⟩ := res
  cases r with
  | ok r => exact h
  | error e => exact ⟨h.2.1, fun _ => h.2.2⟩

theorem OutcomeE.cases {α} {m : Mgr} {Post : α → Mgr → Prop} {res : Except Err α × Mgr}
    (h : OutcomeE m Post res) :
    (∃ r m', res = (.ok r, m') ∧ StepK m m' ∧ Post r m') ∨
    (∃ m', res = (.error .needsReordering, m') ∧ StepK m m' ∧ Armed m) ∨
    (∃ e m', res = (.error e, m') ∧ e ≠ .needsReordering ∧ StepK m m') := by
  obtain ⟨r, m'⟩ := res
  cases r with
  | ok r => exact Or.inl ⟨r, m', rfl, h.1, h.2⟩
  | error e =>
    by_cases he : e = .needsReordering
    · subst he
      exact Or.inr (Or.inl ⟨m', rfl, h.1, h.2 rfl⟩)
    · exact Or.inr (Or.inr ⟨e, m', rfl, he, h.1⟩)

theorem OutcomeE.step {α} {m : Mgr} {Post : α → Mgr → Prop} {res : Except Err α × Mgr}
    (h : OutcomeE m Post res) : StepK m res.2 := by
  obtain ⟨r, m'⟩ := res
  cases r with
  | ok r => exact h.1
  | error e => exact h.1

theorem OutcomeE.mono {α} {m : Mgr} {P Q : α → Mgr → Prop} {res : Except Err α × Mgr}
    (h : OutcomeE m P res) (hpq : ∀ r m', StepK m m' → P r m' → Q r m') : OutcomeE m Q res := by
  obtain ⟨r, m'⟩ := res
  cases r with
  | ok r => exact ⟨h.1, hpq r m' h.1 h.2⟩
  | error e => exact h

/-- a failure other than the signal, after a step that only added nodes -/
theorem OutcomeE.fail {α} {m m' : Mgr} {Post : α → Mgr → Prop} {e : Err} (hs : StepK m m')
    (he : e ≠ .needsReordering) : OutcomeE m Post ((.error e, m') : Except Err α × Mgr) :=
  ⟨hs, fun h => absurd h he⟩

/-! ### the path of the decorator when the RETRY fails -/

/-- first attempt aborted by a request, sifting, second attempt rejected: the exception of the
second attempt reaches the caller, the flag is restored and `_last_len` is RE-ARMED (the
`finally` of the repaired code, F11) -/
theorem tryToReorder_retry_err {α} (f : M α) (m m1 m3 m4 : Mgr) (e : Err)
    (hctx : m.ctx = false)
    (h1 : f { m with ctx := true } = (.error .needsReordering, m1))
    (h2 : reorder none { m1 with ctx := m.ctx, lastLen := none } = (.ok (), m3))
    (h3 : f { m3 with ctx := true } = (.error e, m4)) (hne : e ≠ .needsReordering) :
    tryToReorder f m =
      (.error e, { m4 with ctx := m3.ctx, lastLen := some (Gen.growthFactor * m3.len) }) := by
  unfold tryToReorder
  have hw1 : withCtx f m = (.ok none, { m1 with ctx := m.ctx }) := by
    unfold withCtx
    rw [h1]
    simp [hctx]
  have hw2 : withCtx f m3 = (.error e, { m4 with ctx := m3.ctx }) := by
    unfold withCtx
    rw [h3]
    have : (e = Err.needsReordering) = False := by simp [hne]
    simp [this]
  simp only [bind, M.bind', hw1, M.modify]
  rw [h2]
  simp only [M.get, hw2, M.modify, M.bind']

/-! ### what the caller observes -/

/-- what EVERY decorated call — returning or raising — leaves behind -/
structure DynKept (ext : Nat → Nat) (m m' : Mgr) : Prop where
  /-- the state is again as between two calls: invariant, order bijection, counts exact for the
  same ledger, flag cleared, no schedule left -/
  inv : DynInv ext m'
  /-- reordering is enabled afterwards iff it was -/
  enabled : m'.lastLen.isSome = m.lastLen.isSome
  /-- the declared variables are the same -/
  names : ∀ s, m'.tbl.vars.contains s = m.tbl.vars.contains s
  /-- every reference the user holds is still there and denotes the same function by name -/
  held : ∀ w, HeldX ext w → m'.tbl.Mem w ∧ ∀ σ, denN m'.tbl w σ = denN m.tbl w σ
  /-- the recorded roots are untouched -/
  roots : m'.roots = m.roots

theorem DynPostG.kept {α} {ext : Nat → Nat} {Doc : Tbl → α → Tbl → Prop} {m : Mgr} {r : α}
    {m' : Mgr} (h : DynPostG ext Doc m r m') : DynKept ext m m' :=
  ⟨h.inv, h.enabled, h.names, h.held, h.roots⟩

theorem DynKept.refl {ext : Nat → Nat} {m : Mgr} (h : DynInv ext m) : DynKept ext m m :=
  ⟨h, rfl, fun _ => rfl, fun w hw => ⟨hw.mem h.refs, fun _ => rfl⟩, rfl⟩

/-- after a step that only added nodes, the flag cleared again -/
theorem DynKept.ofStep {ext : Nat → Nat} {m m' : Mgr} (hD : DynInv ext m) (hs : StepK m m') :
    DynKept ext m m' := by
  have hW := hD.inv.wf.toWF
  refine ⟨hD.step hs, by rw [hs.frame.lastLen], hs.names, fun w hw => ?_, hs.frame.roots⟩
  have hmw := hw.mem hD.refs
  exact ⟨hs.ext.mem hmw, fun σ => hs.denN hW hmw σ⟩

/-- the observable outcome of a decorated call: the documented result, or an exception that is
not the internal signal; in both cases the manager and every held reference are intact -/
def DynResult {α} (ext : Nat → Nat) (Doc : Tbl → α → Tbl → Prop) (m : Mgr) :
    Except Err α × Mgr → Prop
  | (.ok r, m') => DynPostG ext Doc m r m'
  | (.error e, m') => e ≠ .needsReordering ∧ DynKept ext m m'

/-- whatever the result: not the signal, and `DynKept` -/
theorem DynResult.kept {α} {ext : Nat → Nat} {Doc : Tbl → α → Tbl → Prop} {m : Mgr}
    {res : Except Err α × Mgr} (h : DynResult ext Doc m res) :
    res.1 ≠ .error .needsReordering ∧ DynKept ext m res.2 := by
  obtain ⟨r, m'⟩ := res
  cases r with
  | ok r => exact ⟨fun h' => (by cases h'), DynPostG.kept h⟩
  | error e => exact ⟨fun h' => h.1 (by cases h'; rfl), h.2⟩

/-- GENERIC: `_try_to_reorder` around a body that may FAIL.  `f` is any body such that, inside a
context, in every state satisfying the invariant (with `Pre` on its table and the operands `ops`
present) it returns a result documented by `Doc`, or is aborted by a reordering request, or
raises another exception — always having only added nodes (`OutcomeE`).  Then the decorated `f`
from `DynInv ext m`, dynamic reordering enabled or not, the request firing at whichever
`find_or_add`, the failure happening in the first attempt or in the retry after sifting:
returns the documented result relative to the operands as they were, or raises an exception
that is NOT the internal signal; in both cases the final state is `DynInv ext m'`, reordering is
enabled iff it was, the declared names and the roots are the same, and every reference the user
holds is a member with the same meaning by name. -/
theorem tryToReorder_rejected {α} (ext : Nat → Nat) (hS : SiftContract ext) (f : M α)
    (ops : List Int) (Pre : Tbl → Prop) (Doc : Tbl → α → Tbl → Prop)
    (hbody : ∀ m0 : Mgr, Inv m0 → m0.ctx = true → OrderOK m0.tbl → Pre m0.tbl →
      (∀ u ∈ ops, m0.tbl.Mem u) → OutcomeE m0 (fun r m1 => Doc m0.tbl r m1.tbl) (f m0))
    (hpre : ∀ t t', Bridge ops t t' → Pre t → Pre t')
    (hdoc : ∀ t t' r t'', Bridge ops t t' → Pre t → Doc t' r t'' → Doc t r t'')
    (m : Mgr) (hD : DynInv ext m) (hops : ∀ u ∈ ops, HeldX ext u) (hpre0 : Pre m.tbl) :
    DynResult ext Doc m (tryToReorder f m) := by
  have hI := hD.inv
  have hW := hI.wf.toWF
  have hmem0 : ∀ u ∈ ops, m.tbl.Mem u := fun u hu => (hops u hu).mem hD.refs
  have h1 := hbody { m with ctx := true } (hI.setCtx true) rfl hD.order hpre0 hmem0
  rcases h1.cases with ⟨r, m1, he, hs, hdoc1⟩ | ⟨m1, he, hs, ha⟩ | ⟨e, m1, he, hne, hs⟩
  · -- no request fired, the body returned
    rw [tryToReorder_ok f m r m1 he]
    have hs' : StepK m { m1 with ctx := m.ctx } := hs.ofCtx true
    have hk := DynKept.ofStep hD hs'
    exact ⟨hk.inv, hdoc1, hk.enabled, hk.names, hk.held, hk.roots⟩
  · -- the attempt was aborted by a request: only nodes were added
    let m2 : Mgr := { m1 with ctx := m.ctx, lastLen := none }
    have hs2 : StepK m { m1 with ctx := m.ctx } := hs.ofCtx true
    have hD2 : DynInv ext m2 := by
      have h := hD.step hs2
      exact ⟨⟨h.inv.wf, h.inv.pred, h.inv.freeGe, h.inv.free, h.inv.refOne, h.inv.refDom, h.inv.cache⟩,
        h.order, h.refs.congr rfl rfl, h.ctx, h.sched, h.roots, h.nvars⟩
    obtain ⟨m3, hre, hD3, hl3, hnv3, hnames3, hden3⟩ := hS.run m2 hD2 rfl
    have hW3 := hD3.inv.wf.toWF
    -- the bridge from the table of the call to the table after sifting
    have hB : Bridge ops m.tbl m3.tbl := by
      refine ⟨hW, hW3, hD.order, hD3.order, ?_, ?_, hmem0, ?_⟩
      · show m3.nvars = m.nvars
        rw [hnv3]; exact hs2.nvars
      · intro s; rw [hnames3 s]; exact hs2.names s
      · intro u hu
        refine ⟨(hops u hu).mem hD3.refs, fun σ => ?_⟩
        rw [hden3 u (hops u hu) σ]
        exact hs2.denN hW (hmem0 u hu) σ
    -- second attempt: requests are disabled, so it cannot be aborted — but it may be rejected
    have h2 := hbody { m3 with ctx := true } (hD3.inv.setCtx true) rfl hD3.order
      (hpre _ _ hB hpre0) (fun u hu => (hB.ops u hu).1)
    have hoff3 : ¬ Armed { m3 with ctx := true } := by
      intro ha4
      have := ha4.2
      rw [show ({ m3 with ctx := true } : Mgr).lastLen = m3.lastLen from rfl, hl3] at this
      exact Bool.noConfusion this
    -- what holds of the final state, whichever way the second attempt ends
    have hfinal : ∀ m4 : Mgr, StepK { m3 with ctx := true } m4 →
        DynKept ext m
          { m4 with ctx := m3.ctx, lastLen := some (Gen.growthFactor * m3.len) } := by
      intro m4 hs4
      have hs5 : StepK m3 { m4 with ctx := m3.ctx } := hs4.ofCtx true
      have hD5 : DynInv ext
          { m4 with ctx := m3.ctx, lastLen := some (Gen.growthFactor * m3.len) } := by
        have h := hD3.step hs5
        exact ⟨⟨h.inv.wf, h.inv.pred, h.inv.freeGe, h.inv.free, h.inv.refOne, h.inv.refDom, h.inv.cache⟩,
          h.order, h.refs.congr rfl rfl, h.ctx, h.sched, h.roots, h.nvars⟩
      refine ⟨hD5, ?_, ?_, ?_, ?_⟩
      · show (some (Gen.growthFactor * m3.len)).isSome = m.lastLen.isSome
        have := ha.2
        rw [show ({ m with ctx := true } : Mgr).lastLen = m.lastLen from rfl] at this
        rw [this]; rfl
      · intro s
        show m4.tbl.vars.contains s = _
        rw [hs5.names s, hnames3 s]; exact hs2.names s
      · intro w hw
        have hm3 := hw.mem hD3.refs
        refine ⟨hs5.ext.mem hm3, fun σ => ?_⟩
        show denN m4.tbl w σ = _
        rw [hs5.denN hW3 hm3 σ, hden3 w hw σ]
        exact hs2.denN hW (hw.mem hD.refs) σ
      · show m4.roots = m.roots
        rw [hs4.frame.roots]
        show m3.roots = m.roots
        rw [hS.roots m2 m3 hD2 rfl hre]
        show m1.roots = m.roots
        rw [hs.frame.roots]
    rcases h2.cases with ⟨r, m4, he4, hs4, hdoc4⟩ | ⟨m4, _, _, ha4⟩ | ⟨e, m4, he4, hne4, hs4⟩
    · rw [tryToReorder_retry f m m1 m3 m4 r hD.ctx he hre he4]
      have hk := hfinal m4 hs4
      exact ⟨hk.inv, hdoc _ _ _ _ hB hpre0 hdoc4, hk.enabled, hk.names, hk.held, hk.roots⟩
    · exact absurd ha4 hoff3
    · -- the failure happens in the retry, after sifting
      rw [tryToReorder_retry_err f m m1 m3 m4 e hD.ctx he hre he4 hne4]
      exact ⟨hne4, hfinal m4 hs4⟩
  · -- the first attempt is rejected (before or after some nodes were added)
    rw [tryToReorder_err f m e m1 he hne]
    exact ⟨hne, DynKept.ofStep hD (hs.ofCtx true)⟩

/-! ### bodies taking ARBITRARY arguments -/

/-- outcome of a call with arbitrary arguments: whatever it returns or raises, only nodes were
added, and the reordering signal comes only from an armed context -/
def TotE {α} (m : Mgr) (res : Except Err α × Mgr) : Prop :=
  StepK m res.2 ∧ (res.1 = .error .needsReordering → Armed m)

theorem TotE.toE {α} {m : Mgr} {res : Except Err α × Mgr} (h : TotE m res) :
    OutcomeE m (fun _ _ => True) res := by
  obtain ⟨r, m'⟩ := res
  cases r with
  | ok r => exact ⟨h.1, trivial⟩
  | error e => exact ⟨h.1, fun he => h.2 (by rw [he])⟩

theorem OutcomeE.tot {α} {m : Mgr} {P : α → Mgr → Prop} {res : Except Err α × Mgr}
    (h : OutcomeE m P res) : TotE m res := by
  obtain ⟨r, m'⟩ := res
  cases r with
  | ok r => exact ⟨h.1, fun he => by cases he⟩
  | error e => exact ⟨h.1, fun he => h.2 (by cases he; rfl)⟩

theorem Outcome.tot {α} {m : Mgr} {P : α → Mgr → Prop} {res : Except Err α × Mgr}
    (h : Outcome m P res) : TotE m res := h.toE.tot

/-- nothing happened and the answer is not the signal -/
theorem TotE.same {α} {m : Mgr} (hI : Inv m) (r : Except Err α) (h : r ≠ .error .needsReordering) :
    TotE m (r, m) := ⟨StepK.refl hI, fun he => absurd he h⟩

theorem TotE.ok {α} {m m' : Mgr} (hs : StepK m m') (a : α) : TotE m ((.ok a, m') : Except Err α × Mgr) :=
  ⟨hs, fun he => by cases he⟩

theorem TotE.err {α} {m m' : Mgr} (hs : StepK m m') (e : Err) (he : e ≠ .needsReordering) :
    TotE m ((.error e, m') : Except Err α × Mgr) :=
  ⟨hs, fun h => by cases h; exact absurd rfl he⟩

theorem TotE.trans {α} {m m1 : Mgr} {res : Except Err α × Mgr} (hs : StepK m m1) (h : TotE m1 res) :
    TotE m res :=
  ⟨hs.trans h.1, fun he => (h.2 he).back hs.frame⟩

theorem TotE.of_eq {α} {m : Mgr} {x y : Except Err α × Mgr} (h : TotE m x) (e : x = y) : TotE m y := by
  rw [e] at h; exact h

/-- an exception of an inner call re-raised by the caller (at another result type) -/
theorem TotE.err_of {α β} {m m' : Mgr} {x : Except Err α × Mgr} {e : Err} (h : TotE m x)
    (heq : x = (.error e, m')) : TotE m ((.error e, m') : Except Err β × Mgr) := by
  rw [heq] at h
  exact ⟨h.1, fun he => h.2 (by cases he; rfl)⟩

/-- the state after an inner call that returned -/
theorem TotE.step_of {α} {m m' : Mgr} {x : Except Err α × Mgr} {a : α} (h : TotE m x)
    (heq : x = (.ok a, m')) : StepK m m' := by
  rw [heq] at h; exact h.1

/-- sequencing -/
theorem TotE.bind {α β} {x : M α} {f : α → M β} {m : Mgr} (hx : TotE m (x m))
    (hf : ∀ a m1, StepK m m1 → TotE m1 (f a m1)) : TotE m ((x >>= f) m) := by
  show TotE m (M.bind' x f m)
  unfold M.bind'
  generalize hres : x m = res at hx
  obtain ⟨r, m1⟩ := res
  cases r with
  | ok a => exact (hf a m1 hx.1).trans hx.1
  | error e => exact hx.err_of rfl

/-- a decorated call NESTED in a context behaves as its body (every exception is re-raised) -/
theorem TotE.nested {α} {f : M α} {m : Mgr} (hc : m.ctx = true) (h : TotE m (f m)) :
    TotE m (tryToReorder f m) := by
  rw [tryToReorder_nested f m hc]
  have h1 : (f m).2.ctx = true := by rw [h.1.frame.ctx]; exact hc
  rw [Mgr.setCtx_self _ h1]
  exact h

/-- what the caller of a decorated call with arbitrary arguments observes -/
def DynTotal {α} (ext : Nat → Nat) (m : Mgr) (res : Except Err α × Mgr) : Prop :=
  res.1 ≠ .error .needsReordering ∧ DynKept ext m res.2

theorem DynTotal.same {α} {ext : Nat → Nat} {m : Mgr} (hD : DynInv ext m) (r : Except Err α)
    (h : r ≠ .error .needsReordering) : DynTotal ext m (r, m) := ⟨h, DynKept.refl hD⟩

/-- the generic theorem for bodies that accept ARBITRARY arguments: no hypothesis on the
operands, no documented result — the decorated call never raises the signal and keeps the
manager and every held reference -/
theorem tryToReorder_total_dyn {α} (ext : Nat → Nat) (hS : SiftContract ext) (f : M α)
    (hbody : ∀ m0 : Mgr, Inv m0 → m0.ctx = true → OrderOK m0.tbl → TotE m0 (f m0))
    (m : Mgr) (hD : DynInv ext m) : DynTotal ext m (tryToReorder f m) :=
  (tryToReorder_rejected ext hS f [] (fun _ => True) (fun _ _ _ => True)
    (fun m0 hI hc hO _ _ => (hbody m0 hI hc hO).toE) (fun _ _ _ _ => trivial)
    (fun _ _ _ _ _ _ _ => trivial) m hD (fun _ h => by cases h) trivial).kept

end DD
