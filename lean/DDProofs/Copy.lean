/-
  DDProofs.Copy — specification of `_copy_bdd(u, level_map, old_bdd, bdd, cache)`: the copy
  denotes the source function read through the level map.  One theorem covers `rename`
  (`old_bdd is bdd`) and `copy_bdd` between managers.
-/
import DDProofs.VectorCompose
open Std

namespace DD

/-- the assignment of the source levels induced, through the level map, by an assignment of
the target levels -/
def cmap (lm : List (Nat × Nat)) (a : Asg) : Asg := fun i =>
  match lm.lookup i with
  | some j => a j
  | none => false

/-- how the table that `_copy_bdd` reads relates to the fixed source table `S` -/
def SrcOK (src : Option Tbl) (S : Tbl) (t : Tbl) : Prop :=
  match src with
  | none => Ext S t
  | some s => s = S

theorem SrcOK.ext {src : Option Tbl} {S m t : Tbl} (h : SrcOK src S m) (he : Ext m t) :
    SrcOK src S t := by
  cases src with
  | none => exact Ext.trans h he
  | some s => exact h

theorem SrcOK.node {src : Option Tbl} {S t : Tbl} (h : SrcOK src S t) {k : Nat} {n : Nd}
    (hn : S.node? k = some n) : (src.getD t).succ[k]? = some n := by
  cases src with
  | none => exact h.nodes _ _ hn
  | some s =>
    have : s = S := h
    subst this
    exact hn

/-- what `_copy_bdd` guarantees about the reference it returns for the source reference `u` -/
structure CPost (lm : List (Nat × Nat)) (S t : Tbl) (u r : Int) : Prop where
  mr : t.Mem r
  sign : 0 < r ↔ 0 < u
  den : ∀ a, den t r a = den S u (cmap lm a)

/-- the memo is keyed by the unsigned source node and holds a positive target reference -/
def CMemo (lm : List (Nat × Nat)) (S t : Tbl) (c : HashMap Nat Int) : Prop :=
  ∀ (k : Nat) (r : Int), c[k]? = some r → 0 < k ∧ CPost lm S t (k : Int) r

theorem CPost.ext {lm : List (Nat × Nat)} {S m t : Tbl} (hw : WF m) (he : Ext m t)
    {u r : Int} (h : CPost lm S m u r) : CPost lm S t u r :=
  ⟨he.mem h.mr, h.sign, fun a => by rw [den_ext he hw r a h.mr]; exact h.den a⟩

theorem CMemo.ext {lm : List (Nat × Nat)} {S m t : Tbl} (hw : WF m) (he : Ext m t)
    {c : HashMap Nat Int} (h : CMemo lm S m c) : CMemo lm S t c :=
  fun k r hc => ⟨(h k r hc).1, (h k r hc).2.ext hw he⟩

theorem CMemo.empty (lm : List (Nat × Nat)) (S t : Tbl) : CMemo lm S t {} := by
  intro k r h
  simp at h

theorem CMemo.insert {lm : List (Nat × Nat)} {S t : Tbl} {c : HashMap Nat Int}
    (h : CMemo lm S t c) {k : Nat} {r : Int} (hk : 0 < k) (he : CPost lm S t (k : Int) r) :
    CMemo lm S t (c.insert k r) := by
  intro k' r' hc
  rw [HashMap.getElem?_insert] at hc
  split at hc
  · next heq =>
    have : k = k' := by simpa using heq
    subst this
    cases hc
    exact ⟨hk, he⟩
  · exact h k' r' hc

/-- from the result for the regular source reference to the result for the signed one -/
theorem CPost.flip {lm : List (Nat × Nat)} {S t : Tbl} (hS : WF S) (hw : WF t) {u r : Int}
    (hu : S.Mem u) (hr : 0 < r) (h : CPost lm S t (u.natAbs : Int) r) :
    CPost lm S t u (if u < 0 then -r else r) := by
  have h0 := mem_ne_zero hS hu
  refine ⟨mem_flip u h.mr, ?_, ?_⟩
  · by_cases hneg : u < 0
    · simp only [hneg, if_true]; omega
    · simp only [hneg, if_false]; omega
  · intro a
    rw [den_flip t hw r u a h.mr, h.den a, den_abs_sign S hS u hu]

theorem mul_pos_of_same_sign (p v : Int) (hp : p ≠ 0) (hv : v ≠ 0) (h : 0 < p ↔ 0 < v) :
    0 < p * v := by
  by_cases hpv : 0 < v
  · exact Int.mul_pos (h.mpr hpv) hpv
  · have h1 : v < 0 := by omega
    have h2 : p < 0 := by
      have : ¬ 0 < p := fun hh => hpv (h.mp hh)
      omega
    exact Int.mul_pos_of_neg_of_neg h2 h1

/-- a member reference is positive iff it is true under the all-true assignment -/
theorem pos_of_den_alltrue (t : Tbl) (hw : WF t) (r : Int) (hr : t.Mem r)
    (h : den t r (fun _ => true) = true) : 0 < r := by
  have := den_alltrue t hw t.nvars r hr (by omega)
  rw [h] at this
  simpa using this.symm

/-- `_copy_bdd`: total when reordering is not enabled in the target and every level of the
support of `u` is mapped to a declared target level; the copy denotes the source function
through the level map; copies of regular references are regular. -/
theorem copyBddF_spec (src : Option Tbl) (lm : List (Nat × Nat)) (S : Tbl) (hS : WF S) :
    ∀ (fu : Nat) (m : Mgr) (u : Int) (cache : HashMap Nat Int),
    Inv m → m.lastLen = none → SrcOK src S m.tbl → S.Mem u → CMemo lm S m.tbl cache →
    (∀ i, InSupp S u i → ∃ j, lm.lookup i = some j ∧ j < m.nvars) →
    S.nvars + 1 ≤ fu + S.levelOf u →
    ∃ r c' m', copyBddF src lm fu u cache m = (.ok (r, c'), m') ∧ Step m m' ∧
      CMemo lm S m'.tbl c' ∧ CPost lm S m'.tbl u r := by
  intro fu
  induction fu with
  | zero =>
    intro m u cache _ _ _ hu _ _ hfu
    have := levelOf_le S hS u
    omega
  | succ fu ih =>
    intro m u cache hI hoff hsrc hu hmemo hlm hfu
    have hW := hI.wf.toWF
    unfold copyBddF
    by_cases h1 : u.natAbs = 1
    · simp only [h1, if_true]
      refine ⟨u, cache, m, rfl, Step.refl hI, hmemo, Or.inl h1, Iff.rfl, ?_⟩
      intro a
      rcases abs_one h1 with h | h <;> subst h
      · rw [den_one, den_one]
      · rw [den_neg_one, den_neg_one]
    · simp only [h1, if_false]
      cases hc : cache[u.natAbs]? with
      | some r =>
        simp only
        obtain ⟨_, hp⟩ := hmemo _ r hc
        have hrpos : 0 < r := hp.sign.mpr (by omega)
        simp only [hrpos, not_true_eq_false, if_false]
        exact ⟨_, cache, m, rfl, Step.refl hI, hmemo, hp.flip hS hW hu hrpos⟩
      | none =>
        simp only
        obtain ⟨n, hn⟩ := mem_node hu h1
        rw [hsrc.node hn]
        simp only [node_succ_ne_zero hS hn, if_false]
        have hlu := levelOf_node S u n h1 hn
        have hlo := hS.lo_lt _ _ hn
        have hhi := hS.hi_lt _ _ hn
        have hlom := hS.lo_mem _ _ hn
        have hhim := hS.hi_mem _ _ hn
        obtain ⟨p, c1, m1, he1, hs1, hm1, hp1⟩ := ih m n.lo cache hI hoff hsrc hlom hmemo
          (fun i hi => hlm i (.lo h1 hn hi)) (by omega)
        rw [he1]
        simp only
        have hW1 := hs1.inv.wf.toWF
        obtain ⟨q, c2, m2, he2, hs2, hm2, hp2⟩ := ih m1 n.hi c1 hs1.inv (hs1.off hoff)
          (hsrc.ext hs1.ext) hhim hm1
          (fun i hi => by rw [hs1.nvars]; exact hlm i (.hi h1 hn hi)) (by omega)
        rw [he2]
        simp only
        have hW2 := hs2.inv.wf.toWF
        have hs12 := hs1.trans hs2
        have hp1_2 := hp1.ext hW1 hs2.ext
        -- the three assertions on signs
        have hlo0 : n.lo ≠ 0 := mem_ne_zero hS hlom
        have hp0 : p ≠ 0 := mem_ne_zero hW2 hp1_2.mr
        have hplo : 0 < p * n.lo := mul_pos_of_same_sign p n.lo hp0 hlo0 hp1.sign
        have hqpos : 0 < q := hp2.sign.mpr (hS.hi_pos _ _ hn)
        simp only [hplo, hqpos, not_true_eq_false, if_false]
        obtain ⟨jnew, hj, hjlt⟩ := hlm n.lvl (.here h1 hn)
        rw [hj]
        simp only
        obtain ⟨g, m3, he3, hs3, hg3, _, hd3⟩ := varNode_off m2 hs2.inv (hs12.off hoff) jnew
          (by rw [hs12.nvars]; exact hjlt)
        rw [he3]
        simp only
        have hW3 := hs3.inv.wf.toWF
        have hs123 := hs12.trans hs3
        have hp1_3 := hp1_2.ext hW2 hs3.ext
        have hp2_3 := hp2.ext hW2 hs3.ext
        obtain ⟨r, m4, he4, hp4⟩ := ite_spec_off m3 hs3.inv (hs123.off hoff) g q p
          hg3 hp2_3.mr hp1_3.mr
        rw [he4]
        simp only
        have hs4 := hs123.trans hp4.step
        have hW4 := hp4.inv.wf.toWF
        -- the copy of a regular reference is regular
        have hrpos : 0 < r := by
          apply pos_of_den_alltrue m4.tbl hW4 r hp4.mem
          rw [hp4.den, hd3]
          simp only [if_true]
          have := den_alltrue m3.tbl hW3 m3.tbl.nvars q hp2_3.mr (by omega)
          rw [this]; simpa using hqpos
        simp only [hrpos, not_true_eq_false, if_false]
        have hn' : S.node? ((u.natAbs : Int)).natAbs = some n := by simpa using hn
        have hu0 := mem_ne_zero hS hu
        have hpos : CPost lm S m4.tbl (u.natAbs : Int) r := by
          refine ⟨hp4.mem, ?_, ?_⟩
          · have : 0 < u.natAbs := by omega
            constructor
            · intro _; omega
            · intro _; exact hrpos
          · intro a
            rw [hp4.den a, den_node S hS (u.natAbs : Int) n _ (by simpa using h1) hn',
              hp1_3.den a, hp2_3.den a, hd3 a]
            have h2 : ¬ ((u.natAbs : Int) < 0) := by omega
            have h3 : cmap lm a n.lvl = a jnew := by simp [cmap, hj]
            simp [h2, h3]
        have hk : 0 < u.natAbs := by omega
        exact ⟨_, _, m4, rfl, hs4,
          (((hm2.ext hW2 hs3.ext).ext hW3 hp4.ext).insert hk hpos),
          hpos.flip hS hW4 hu hrpos⟩

end DD
