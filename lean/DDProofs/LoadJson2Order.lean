/-
  DDProofs.LoadJson2Order — `_copy.load_json(file, bdd, load_order=True)` on ANY content.

  What the code does (`dd/_copy.py`, mirrored by `DD.loadJson`):
    * `old = bdd.configure(reordering=False)`: dynamic reordering is switched OFF first;
    * the line `level_of_var`: `bdd.declare(*order)`, then `bdd.reorder(order)` — the explicit
      reordering runs at the BEGINNING (not at the end, and whether or not the load fails later);
      it refuses (`ValueError`) when the manager has other variables, and accepts duplicate /
      gapped levels (the variables end sorted by the file's numbers);
    * every node line: the id must not be the terminal's (F18); the level of the line's variable
      must be above the levels of both successors (`ValueError` otherwise, F20) — then
      `bdd.find_or_add(var, low, high)`, the RAW constructor, whose documented precondition
      (`FoaGuard`) is exactly that test;
    * the roots, then the assertions on the counts of the loaded nodes (`ref < 2`, `ref < 3`)
      in their own loop, INSIDE the `try:` (F19): they release nothing;
    * `except BaseException:` gives the shelf's references back and re-raises: the switch stays
      OFF;
    * after the `try:`: the shelf's references are released (the same loop as in the handler),
      `assert_consistent()`, and `bdd.configure(reordering=old)` with `old` the dict that
      `configure` returned (truthy): reordering is then ENABLED whatever it was.
-/
import DDProofs.LoadJson2Off
import DDProps.C17Reorder
import DDProofs.Reach4Load
import DDProofs.DynSift
open Std
namespace DD

/-! ### stable facts -/

theorem Stable.and {e : Nat → Nat} {C : LCalc e} {F G : Mgr → Prop} (hF : Stable C F) (hG : Stable C G) :
    Stable C (fun m => F m ∧ G m) := fun m m' k h => ⟨hF m m' k h.1, hG m m' k h.2⟩

/-- the node `u` is there, at level `j` -/
def LvIs (u : Int) (j : Nat) (m : Mgr) : Prop := m.tbl.Mem u ∧ m.tbl.levelOf u = j

theorem LvIs.stable (e : Nat → Nat) (u : Int) (j : Nat) : Stable (offCalc e) (LvIs u j) := by
  intro m m' k h
  have k' : KeptW m m' := k
  exact ⟨k'.1.mem h.1, by rw [k'.1.levelOf h.1]; exact h.2⟩

/-- the variable `name` is at level `j` -/
def VarAt (name : String) (j : Nat) (m : Mgr) : Prop := m.tbl.vars[name]? = some j

theorem VarAt.stable (e : Nat → Nat) (name : String) (j : Nat) : Stable (offCalc e) (VarAt name j) := by
  intro m m' k h
  have k' : KeptW m m' := k
  unfold VarAt
  rw [k'.2.vars]; exact h

/-! ### the calls of `_make_node` that are particular to `load_order=True` -/

/-- `bdd.level_of_var(var)` -/
theorem SafeC.levelOfVar {e : Nat → Nat} {C : LCalc e} {F : Mgr → Prop} {l : List Nat} (name : String) :
    SafeC C F l l (levelOfVar name) (fun j l' m' => l' = l ∧ VarAt name j m') := by
  intro m hg _
  have heq : DD.levelOfVar name m = (match m.tbl.vars[name]? with
      | some j => (Except.ok j, m)
      | none => (Except.error Err.value, m)) := by
    unfold DD.levelOfVar
    show M.bind' M.get (fun m => M.ofOption Err.value (m.tbl.vars[name]?)) m = _
    unfold M.bind' M.get
    simp only
    cases m.tbl.vars[name]? <;> rfl
  rw [heq]
  cases hv : m.tbl.vars[name]? with
  | none => exact ⟨(fun hh => by cases hh), C.refl m, hg⟩
  | some j => exact ⟨(fun hh => by cases hh), C.refl m, l, ⟨rfl, hv⟩, hg⟩

/-- `Function.level` -/
theorem SafeC.functionLevel {e : Nat → Nat} {C : LCalc e} {F : Mgr → Prop} {l : List Nat} (u : Int) :
    SafeC C F l l (functionLevel u) (fun j l' m' => l' = l ∧ LvIs u j m') := by
  intro m hg _
  by_cases hu : m.tbl.Mem u
  · rw [functionLevel_ok m u hu]
    exact ⟨(fun hh => by cases hh), C.refl m, l, ⟨rfl, hu, rfl⟩, hg⟩
  · have heq : DD.functionLevel u m = (.error .key, m) := by
      unfold DD.functionLevel
      show M.bind' M.get (fun m => M.ofOption Err.key (m.tbl.levelOf? u)) m = _
      unfold M.bind' M.get
      simp only [levelOf?_none_of_not_mem m.tbl u hu]
      rfl
    rw [heq]
    exact ⟨(fun hh => by cases hh), C.refl m, hg⟩

/-- the raw `find_or_add(level, low, high)` outside a reordering context, its documented
precondition met (`FoaGuard`: the level is above both successors): any outcome keeps the manager
and the counts -/
theorem SafeC.foaOff (e : Nat → Nat) {F : Mgr → Prop} {l : List Nat} (j : Nat) (v w : Int) :
    SafeC (offCalc e) (fun m => F m ∧ FoaGuard m j v w) l l (findOrAdd (j : Int) v w)
      (fun _ l' _ => l' = l) := by
  intro m hg hF
  have hg' : GoodState m (extAdd e l) := hg
  have hguard := hF.2
  have heq : findOrAdd (j : Int) v w m = findOrAddCore j v w m := by
    rw [findOrAdd_noCtx m hg'.ctx]
    have : ¬ ((j : Int) < 0) := by omega
    simp only [this, if_false, Int.toNat_natCast]
  rw [heq]
  have k := findOrAddCore_total m hg'.inv j v w hguard
  have hr := findOrAddCore_refExact m (extAdd e l) j v w hg'.inv.wf.toWF hg'.exact
  have hn := findOrAddCore_noNR m j v w
  have g2 : GoodState (findOrAddCore j v w m).2 (extAdd e l) := hg'.of_kept k hr
  refine ⟨hn, k.toW, ?_⟩
  cases hres : findOrAddCore j v w m with
  | mk r m' =>
    rw [hres] at g2
    cases r with
    | error er => exact g2
    | ok u => exact ⟨l, rfl, g2⟩

/-- `_make_node` (`load_order=True`) on ANY line and ANY shelf: the line is skipped, or its node
is put on the shelf with one reference, or an exception — `ValueError` when the line's level is
not above its successors' — leaves the counts as they were -/
theorem SafeC.makeNodeT (e : Nat → Nat) {l : List Nat} (vat : List (Nat × String))
    (ln : JLine) (cache : List (Nat × Int)) :
    SafeC (offCalc e) (fun _ => True) l l (makeNode true vat ln cache)
      (fun c' l' _ => (c' = cache ∧ l' = l) ∨
        (cache.lookup ln.id = none ∧ 1 < ln.id ∧ PostT cache ln.id l c' l')) := by
  have hS0 : Stable (offCalc e) (fun _ => True) := Stable.true _
  unfold DD.makeNode
  refine SafeC.bind hS0 (SafeC.assert _) fun _ l1 _ hl1 => ?_
  obtain ⟨hl1, hid⟩ := hl1
  have hid : 1 < ln.id := by simpa using hid
  rw [hl1]
  by_cases hin : (cache.lookup ln.id).isSome = true
  · simp only [hin, if_true]
    exact SafeC.pure _ (fun _ _ => Or.inl ⟨rfl, rfl⟩)
  simp only [hin, Bool.false_eq_true, if_false]
  have hnew : cache.lookup ln.id = none := by
    cases hh : cache.lookup ln.id with
    | none => rfl
    | some x => simp [hh] at hin
  refine SafeC.mono (P := fun c' l' _ => PostT cache ln.id l c' l') ?_ (fun c' l' _ h => Or.inr ⟨hnew, hid, h⟩)
  refine SafeC.bind hS0 (SafeC.nodeFromInt hS0 cache ln.lo) fun low l1 _ hl1 => ?_
  rw [hl1.1]
  refine SafeC.withTemps (lerr := l) low (P := fun c' l' _ => PostT cache ln.id (low.natAbs :: l) c' l') ?_
    (fun c' l' _ ⟨u, hc, hl'⟩ => ⟨u.natAbs :: l, by rw [hl']; exact List.Perm.swap _ _ _, fun _ => ⟨u, hc, rfl⟩⟩)
  refine SafeC.bind hS0 (SafeC.nodeFromInt hS0 cache ln.hi) fun high l1 _ hl1 => ?_
  rw [hl1.1]
  refine SafeC.withTemps (lerr := low.natAbs :: l) high
    (P := fun c' l' _ => PostT cache ln.id (high.natAbs :: low.natAbs :: l) c' l') ?_
    (fun c' l' _ ⟨u, hc, hl'⟩ => ⟨u.natAbs :: low.natAbs :: l, by rw [hl']; exact List.Perm.swap _ _ _,
      fun _ => ⟨u, hc, rfl⟩⟩)
  refine SafeC.bind hS0 (SafeC.ofOption _ (by simp) _) fun name l1 _ hl1 => ?_
  rw [hl1]
  simp only [if_true]
  -- `i = bdd.level_of_var(var)`, `low.level`, `high.level`
  refine SafeC.bindS hS0 (SafeC.levelOfVar name) fun j l1 hl1 => ?_
  rw [hl1]
  have hS1 : Stable (offCalc e) (fun m => True ∧ VarAt name j m) := Stable.and hS0 (VarAt.stable e name j)
  refine SafeC.bindS hS1 (SafeC.functionLevel low) fun jl l1 hl1 => ?_
  rw [hl1]
  have hS2 : Stable (offCalc e) (fun m => (True ∧ VarAt name j m) ∧ LvIs low jl m) :=
    Stable.and hS1 (LvIs.stable e low jl)
  refine SafeC.bindS hS2 (SafeC.functionLevel high) fun jh l1 hl1 => ?_
  rw [hl1]
  have hS3 : Stable (offCalc e) (fun m => ((True ∧ VarAt name j m) ∧ LvIs low jl m) ∧ LvIs high jh m) :=
    Stable.and hS2 (LvIs.stable e high jh)
  -- `if i >= low.level or i >= high.level: raise ValueError`
  by_cases hchk : (!(decide (j < jl) && decide (j < jh))) = true
  · simp only [hchk, if_true]
    exact SafeC.bind hS3 (P := fun _ _ _ => False) (SafeC.throw _ (by simp)) fun _ _ _ h => h.elim
  simp only [hchk, Bool.false_eq_true, if_false]
  have hjl : j < jl := by
    cases h : decide (j < jl) <;> simp_all
  have hjh : j < jh := by
    cases h : decide (j < jh) <;> simp_all
  -- `u = self._bdd.find_or_add(level, low.node, high.node)`
  refine SafeC.bind hS3 (P := fun _ l' _ => l' = high.natAbs :: low.natAbs :: l) ?_ fun u l1 _ hl1 => ?_
  · refine (SafeC.foaOff e (F := fun m => ((True ∧ VarAt name j m) ∧ LvIs low jl m) ∧ LvIs high jh m)
      j low high).weakenF ?_
    intro m hF
    refine ⟨hF, fun _ _ _ => ⟨?_, ?_⟩⟩
    · rw [hF.1.2.2]; exact hjl
    · rw [hF.2.2]; exact hjh
  rw [hl1]
  refine SafeC.bind hS3 (SafeC.wrap u) fun _ l3 _ hl3 => ?_
  rw [hl3]
  refine SafeC.withTemps (lerr := high.natAbs :: low.natAbs :: l) u
    (P := fun c' l' _ => c' = cache ++ [(ln.id, u)] ∧
      l' = u.natAbs :: u.natAbs :: high.natAbs :: low.natAbs :: l) ?_
    (fun c' l' _ ⟨hc, hl'⟩ => ⟨u.natAbs :: high.natAbs :: low.natAbs :: l,
      by rw [hl'], fun _ => ⟨u, hc, rfl⟩⟩)
  refine SafeC.bind hS3 (SafeC.assert _) fun _ l4 _ hl4 => ?_
  rw [hl4.1]
  refine SafeC.bind hS3 (SafeC.incref u) fun _ l5 _ hl5 => ?_
  rw [hl5]
  exact SafeC.pure _ (fun _ _ => ⟨rfl, rfl⟩)

/-- the loop over the node lines (`load_order=True`, reordering switched off), ANY lines -/
theorem makeNodesE_true_off (e : Nat → Nat) (vat : List (Nat × String)) :
    ∀ (ls : List JLine) (cache : List (Nat × Int)) (m : Mgr), (cache.map (·.1)).Nodup →
      (∀ p ∈ cache, p.1 ≠ 1) → GoodState m (extAdd e (shelfRefs cache)) →
      ShelfOut (offCalc e) m (makeNodesE true vat ls cache m) :=
  fun ls cache m hn h1 hg =>
    makeNodesE_loopC (C := offCalc e) (F := fun _ => True) true vat
      (fun ln cache _ => SafeC.makeNodeT e vat ln cache) (Stable.true _) ls cache m hn h1 hg trivial

/-! ### the line `level_of_var`: `declare`, then `reorder(order)` -/

/-- the table given to `reorder` -/
def orderOf (L : List (String × Nat)) : List (String × Int) := L.map fun x => (x.1, (x.2 : Int))

/-- a duplicate-free list that is contained in a list that is not longer contains it -/
theorem subset_of_nodup_length {α : Type} [DecidableEq α] :
    ∀ (l1 l2 : List α), l1.Nodup → (∀ x ∈ l1, x ∈ l2) → l2.length ≤ l1.length → ∀ x ∈ l2, x ∈ l1 := by
  intro l1
  induction l1 with
  | nil =>
    intro l2 _ _ hlen x hx
    have : l2 = [] := List.eq_nil_of_length_eq_zero (by simpa using hlen)
    rw [this] at hx; exact hx
  | cons a t ih =>
    intro l2 hnd hsub hlen x hx
    have ha : a ∈ l2 := hsub a List.mem_cons_self
    obtain ⟨hat, hndt⟩ := List.nodup_cons.mp hnd
    by_cases hxa : x = a
    · subst hxa; exact List.mem_cons_self
    · have hsub' : ∀ y ∈ t, y ∈ l2.erase a := by
        intro y hy
        have hya : y ≠ a := fun h => hat (h ▸ hy)
        exact (List.mem_erase_of_ne hya).mpr (hsub y (List.mem_cons_of_mem _ hy))
      have hlen' : (l2.erase a).length ≤ t.length := by
        rw [List.length_erase_of_mem ha]
        simp only [List.length_cons] at hlen
        omega
      have := ih (l2.erase a) hndt hsub' hlen' x ((List.mem_erase_of_ne hxa).mpr hx)
      exact List.mem_cons_of_mem _ this

theorem jsonHeader_true_eq (f : JsonFile) (m m1 : Mgr)
    (h : declare (f.levelOfVar.map (·.1)) m = (.ok (), m1)) :
    jsonHeader f true m = reorder (some (orderOf f.levelOfVar)) m1 := by
  unfold jsonHeader
  refine (M.bind_eq_ok h).trans ?_
  simp only [if_true]
  rfl

/-- what the caller of `_load_json` keeps, by NAME (the explicit `reorder(order)` moves levels):
declared names stay declared, `bdd.roots` is untouched, every reference the caller holds is still
a node and denotes the same function of the variable names -/
structure LeftN (e : Nat → Nat) (m m' : Mgr) : Prop where
  names : ∀ s : String, m.tbl.vars.contains s = true → m'.tbl.vars.contains s = true
  roots : m'.roots = m.roots
  held : ∀ w, HeldX e w → m'.tbl.Mem w ∧ ∀ σ, denN m'.tbl w σ = denN m.tbl w σ

theorem heldX_mem {m : Mgr} {e : Nat → Nat} (hr : RefExact m e) {w : Int} (hw : HeldX e w) : m.tbl.Mem w := by
  rcases hw with h | h
  · exact Or.inl h
  · exact hr.mem_of_ext_pos h

theorem LeftN.ofKeptW {e : Nat → Nat} {m m' : Mgr} (hI : Inv m) (hO : OrderOK m.tbl) (hr : RefExact m e)
    (k : KeptW m m') (hI' : Inv m') : LeftN e m m' := by
  have kv : KeptV m m' := (k.kept hI').toV hI
  refine ⟨fun s hs => by rw [k.2.vars]; exact hs, k.2.roots, fun w hw => ?_⟩
  have hm := heldX_mem hr hw
  exact ⟨kv.mem hm, fun σ => denN_of_keptV hI hO (hO.congr k.2.vars k.2.l2v) kv w hm σ⟩

theorem LeftN.trans {e : Nat → Nat} {a b c : Mgr} (h1 : LeftN e a b) (h2 : LeftN e b c) : LeftN e a c :=
  ⟨fun s h => h2.names s (h1.names s h), h2.roots.trans h1.roots,
    fun w hw => ⟨(h2.held w hw).1, fun σ => ((h2.held w hw).2 σ).trans ((h1.held w hw).2 σ)⟩⟩

/-- the line `level_of_var` with `load_order=True`, ANY table (a `dict`: distinct names), default
iteration schedule: it is read without an exception, or `reorder(order)` refuses (`ValueError`:
the manager has other variables — a `KeyError` half-way cannot happen, every name of the table
has just been declared); the state is good for the same
ledger in every case, with the caller's references kept by name; when it was read the variables
are sorted by the file's numbers -/
theorem jsonHeader_true_any (f : JsonFile) (hnd : (f.levelOfVar.map (·.1)).Nodup) (m0 : Mgr)
    (e : Nat → Nat) (g0 : GoodState m0 e) (hs : m0.sched = []) (hroots : ∀ r ∈ m0.roots, 0 < e r.natAbs) :
    ∃ r m2, jsonHeader f true m0 = (r, m2) ∧ (r = .ok () ∨ r = .error .value) ∧
      GoodState m2 e ∧ m2.sched = [] ∧ LeftN e m0 m2 ∧
      (r = .ok () → SortedBy (orderOf f.levelOfVar) m2) := by
  obtain ⟨m1, ed, g1, hdecl, -, -, -, r1⟩ := declare_spec (f.levelOfVar.map (·.1)) m0 e g0
  have kv1 : KeptV m0 m1 := by
    have := declare_keptV (f.levelOfVar.map (·.1)) m0 g0.inv
    rw [ed] at this; exact this
  have hs1 : m1.sched = [] := by rw [declare_sched _ m0 e g0 m1 ed]; exact hs
  have left1 : LeftN e m0 m1 := by
    refine ⟨fun s hs => ?_, r1, fun w hw => ?_⟩
    · rw [TreeMap.contains_eq_isSome_getElem?] at hs ⊢
      obtain ⟨i, hi⟩ := Option.isSome_iff_exists.mp hs
      rw [kv1.vars s i hi]; rfl
    · have hm := heldX_mem g0.exact hw
      exact ⟨kv1.mem hm, fun σ => denN_of_keptV g0.inv g0.order g1.order kv1 w hm σ⟩
  have hRI : ReorderInv e m1 :=
    ⟨g1.inv, g1.order, g1.exact, Or.inl g1.ctx, by intro r hr; rw [r1] at hr; exact hroots r hr⟩
  rw [jsonHeader_true_eq f m0 m1 ed]
  let order := orderOf f.levelOfVar
  by_cases hlen : order.length = m1.nvars
  · -- every name of the table is declared, and the manager has no other variable: covered
    have hcov : Covered order m1.nvars m1 := by
      have hsub : ∀ v ∈ f.levelOfVar.map (·.1), v ∈ m1.tbl.vars.keys := by
        intro v hv
        rw [TreeMap.mem_keys, ← TreeMap.contains_iff_mem, TreeMap.contains_eq_isSome_getElem?]
        exact hdecl v hv
      have hlen' : m1.tbl.vars.keys.length ≤ (f.levelOfVar.map (·.1)).length := by
        rw [TreeMap.length_keys]
        have h1 : order.length = f.levelOfVar.length := by simp [order, orderOf]
        have h2 : m1.nvars = m1.tbl.vars.size := rfl
        simp only [List.length_map]
        omega
      have hall := subset_of_nodup_length _ _ hnd hsub hlen'
      intro i hi
      obtain ⟨v, hv⟩ := g1.order.total i hi
      have hvv : m1.tbl.vars[v]? = some i := (g1.order.inv v i).mpr hv
      have hk : v ∈ m1.tbl.vars.keys := by
        rw [TreeMap.mem_keys, ← TreeMap.contains_iff_mem, TreeMap.contains_eq_isSome_getElem?, hvv]; rfl
      obtain ⟨⟨a, lv⟩, hal, rfl⟩ := List.mem_map.mp (hall v hk)
      exact ⟨a, (lv : Int), hv, lookup_map_of_nodup f.levelOfVar hnd a lv hal⟩
    obtain ⟨_, m2, hrun, ⟨RI2, hs2⟩, RR, _, _, hsorted, _⟩ :=
      (sortToOrder_sorted (swapOK0 e) order m1 ⟨hRI, hs1⟩ hlen hcov).total
    have hrun' : reorder (some (orderOf f.levelOfVar)) m1 = (.ok (), m2) := hrun
    have g2 : GoodState m2 e :=
      ⟨RI2.inv, RI2.order, RI2.refExact, by rw [RR.lastLen]; exact g1.off, by rw [RR.ctx]; exact g1.ctx⟩
    have left2 : LeftN e m1 m2 := by
      refine ⟨fun s hs => by rw [RR.names s]; exact hs, RR.roots, fun w hw => ?_⟩
      exact ⟨heldX_mem RI2.refExact hw,
        fun σ => heldX_denN_of_heldSame g1.inv RI2.inv g1.exact RI2.refExact RR.held hw σ⟩
    exact ⟨_, m2, hrun', Or.inl rfl, g2, hs2, left1.trans left2, fun _ => hsorted⟩
  · have hne : m1.nvars ≠ order.length := fun h => hlen h.symm
    have hrun := (C17_reorder_any_order e m1 hRI order).1 hne
    refine ⟨_, m1, hrun, Or.inr rfl, g1, hs1, left1, fun h => by cases h⟩

/-! ### `load_json(load_order=True)`, any content -/

/-- the state `load_json` starts from: as between two calls, dynamic reordering enabled or not,
default iteration schedule, the registered roots held by the caller (`DynInv` without "two
variables") -/
structure LoadStart (e : Nat → Nat) (m : Mgr) : Prop where
  inv : Inv m
  order : OrderOK m.tbl
  refs : RefExact m e
  ctx : m.ctx = false
  sched : m.sched = []
  roots : ∀ r ∈ m.roots, 0 < e r.natAbs

theorem DynInv.loadStart {e : Nat → Nat} {m : Mgr} (h : DynInv e m) : LoadStart e m :=
  ⟨h.inv, h.order, h.refs, h.ctx, h.sched, h.roots⟩

theorem LoadStart.goodOff {e : Nat → Nat} {m : Mgr} (h : LoadStart e m) :
    GoodState { m with lastLen := none } e :=
  ⟨⟨h.inv.wf, h.inv.pred, h.inv.freeGe, h.inv.free, h.inv.refOne, h.inv.refDom, h.inv.cache⟩,
    h.order, h.refs.congr_nodes (fun _ => rfl) rfl, rfl, h.ctx⟩

theorem SortedBy.congr {order : List (String × Int)} {m m' : Mgr} (h : SortedBy order m)
    (hv : m'.tbl.vars = m.tbl.vars) (hl : m'.tbl.l2v = m.tbl.l2v) : SortedBy order m' := by
  intro a b hab hb
  have hn : m'.nvars = m.nvars := by
    show m'.tbl.vars.size = m.tbl.vars.size
    rw [hv]
  have := h a b hab (by rw [← hn]; exact hb)
  unfold keyAt at this ⊢
  rw [hl]; exact this

/-- what `load_json(load_order=True)` leaves behind, whatever the content and the outcome.
`left`: the caller's names, `bdd.roots` and references (by NAME — the explicit reordering of the
line `level_of_var` may have moved every level).  `inv`, `order`, `ctx`, `sched`, `counts`: the
state is as between two calls, with the counts exact for the caller's ledger plus one reference
per returned `Function` — for the caller's ledger itself when the call raised.  `switch`:
dynamic reordering is ENABLED after a successful load and OFF after a failed one, whatever it
was (the code passes the dict returned by `configure` back to `configure`, and does not reach
that line when it raises).  `sorted`: when the line `level_of_var` was read, the variables are —
and stay, also when the load fails later — sorted by the file's numbers. -/
structure JsonOrderLeaves (f : JsonFile) (e : Nat → Nat) (m : Mgr) (out : Except Err Roots × Mgr) : Prop where
  noSignal : out.1 ≠ .error .needsReordering
  left : LeftN e m out.2
  inv : Inv out.2
  order : OrderOK out.2.tbl
  ctx : out.2.ctx = false
  sched : out.2.sched = []
  switch : match out.1 with
    | .ok _ => out.2.lastLen = some (max Gen.reorderStarts out.2.len)
    | .error _ => out.2.lastLen = none
  counts : match out.1 with
    | .ok roots => RefExact out.2 (extAdd e (roots.values.map Int.natAbs))
    | .error _ => RefExact out.2 e
  sorted : (jsonHeader f true { m with lastLen := none }).1 = .ok () →
    SortedBy (orderOf f.levelOfVar) out.2

/-- `_copy.load_json(file, bdd, load_order=True)` on ANY content whose table `level_of_var` is a
`dict` (distinct names), into ANY manager as between two calls — dynamic reordering enabled or
not —, EVERY outcome -/
theorem loadJson_true_any (f : JsonFile) (hnd : (f.levelOfVar.map (·.1)).Nodup) (m : Mgr) (e : Nat → Nat)
    (h : LoadStart e m) : JsonOrderLeaves f e m (loadJson f true m) := by
  rw [loadJson_true_eq]
  have g0 := h.goodOff
  have left0 : LeftN e m { m with lastLen := none } :=
    ⟨fun _ hs => hs, rfl, fun w hw => ⟨heldX_mem h.refs hw, fun _ => rfl⟩⟩
  obtain ⟨r, m2, hh, hr, g2, hs2, left2, hsorted⟩ :=
    jsonHeader_true_any f hnd { m with lastLen := none } e g0 h.sched h.roots
  have left02 := left0.trans left2
  cases r with
  | error er =>
    -- `reorder(order)` refused
    have hne : er ≠ .needsReordering := by
      rcases hr with hr | hr
      · cases hr
      · cases hr; simp
    rw [jsonTry_header_err f true _ m2 er hh]
    obtain ⟨r', hfin, g⟩ := jsonFinish_errC (offCalc e) f true er [] (by simp) (by simp) none m2
      (show GoodState m2 (extAdd e ((none : Option Int).toList.map Int.natAbs ++ shelfRefs [])) by
        simpa [shelfRefs, extAdd_nil] using g2)
    have g' : GoodState { m2 with ref := r' } (extAdd e []) := g
    rw [extAdd_nil] at g'
    rw [hfin]
    have kw : KeptW m2 { m2 with ref := r' } := (offCalc e).kRef m2 r'
    refine ⟨(fun hh => hne (by cases hh; rfl)), left02.trans (LeftN.ofKeptW g2.inv g2.order g2.exact kw g'.inv),
      g'.inv, g'.order, g'.ctx, hs2, g'.off, g'.exact, fun hok => ?_⟩
    rw [hh] at hok; cases hok
  | ok _ =>
    have hsort2 := hsorted rfl
    rw [jsonTry_header_ok f true _ m2 hh]
    have hshelf := makeNodesE_true_off e
      (f.levelOfVar.foldl (fun acc (x : String × Nat) => (x.2, x.1) :: acc) []) f.nodes [] m2 (by simp) (by simp)
      (show GoodState m2 (extAdd e (shelfRefs [])) by simpa [shelfRefs, extAdd_nil] using g2)
    obtain ⟨hn, mb, kb, hcase⟩ := finish_afterHeaderC (offCalc e) f true m2 hshelf
    have kb' : KeptW m2 mb := kb
    rcases hcase with ⟨roots, heq, g⟩ | ⟨er, heq, g⟩
    · have g' : GoodState mb (extAdd e (roots.values.map Int.natAbs)) := g
      have leftb := left02.trans (LeftN.ofKeptW g2.inv g2.order g2.exact kb' g'.inv)
      rw [heq] at hn ⊢
      simp only [cfgAfter, if_true]
      refine ⟨hn, ⟨leftb.names, leftb.roots, leftb.held⟩,
        ⟨g'.inv.wf, g'.inv.pred, g'.inv.freeGe, g'.inv.free, g'.inv.refOne, g'.inv.refDom, g'.inv.cache⟩,
        g'.order, g'.ctx, by show mb.sched = []; rw [kb'.2.sched]; exact hs2, rfl,
        g'.exact.congr_nodes (fun _ => rfl) rfl, fun _ => ?_⟩
      exact SortedBy.congr hsort2 kb'.2.vars kb'.2.l2v
    · have g' : GoodState mb (extAdd e []) := g
      rw [extAdd_nil] at g'
      have leftb := left02.trans (LeftN.ofKeptW g2.inv g2.order g2.exact kb' g'.inv)
      rw [heq] at hn ⊢
      exact ⟨hn, leftb, g'.inv, g'.order, g'.ctx, by show mb.sched = []; rw [kb'.2.sched]; exact hs2,
        g'.off, g'.exact, fun _ => SortedBy.congr hsort2 kb'.2.vars kb'.2.l2v⟩

end DD
